/-
Props/C03.lean — C03 "Files stay structurally valid through any edit history".
Formats with a Lean container model: FLAC (and the Ogg page layer, Props/C15.lean).
-/
import MutagenModel.Proofs.Container.Flac
import MutagenModel.Proofs.Container.ApeFile
import MutagenModel.Proofs.Container.Id3File
import MutagenModel.Proofs.Container.Iff
set_option linter.unusedVariables false
namespace Mutagen.C03
open Mutagen Mutagen.FlacC

/-- FLAC: `walk ∘ render = id` — the rendered layout has exactly its final block flagged last
and every declared size equal to the extent, so the strict walker reads it back -/
theorem flac_walk_render (L : Layout) (hL : Good L) : walk (render L) = some L :=
  walk_render L hL.pre hL.ne hL.blocksOk

/-- FLAC: after ANY finite history of saves (any comment payload that fits a block, any padding
choice) and deletes the file is accepted by the strict walker, and prefix, foreign blocks and
audio are those of the original -/
theorem flac_history (L : Layout) (hL : Good L) (ops : List FlacC.Op) (hops : ∀ op ∈ ops, op.ok) :
    let L' := ops.foldl step L
    Good L' ∧ walk (render L') = some L' ∧ L'.blocks.filter keep = L.blocks.filter keep ∧
      L'.pre = L.pre ∧ L'.audio = L.audio :=
  history L hL ops hops

/-- FLAC: the bytes FLAC._save leaves on the file are exactly the rendering of the saved layout -/
theorem flac_save_bytes (B : Nat) (hB : 0 < B) (L : Layout) (blocks : List Block) (pad : PadChoice)
    (hsz : ∀ b ∈ blocks, b.data.length ≤ maxSize) (s : FS) (hs : s.data = render L) :
    ∃ s', saveM B L blocks pad Env.clean s = (.ok (), s') ∧ s'.data = render (msave L blocks false pad) :=
  saveM_clean B hB L blocks pad hsz s hs

/-! ## free-standing ID3 files -/

/-- after an ID3 save the file starts with a header that a reader accepts and whose (syncsafe)
size field equals the extent of what it covers: `ID3Header` on the saved file reports
`10 + len(frames) + padding`, and exactly that many bytes precede the audio -/
theorem id3_save_header_consistent (L : Id3F.Layout) (h : L.OK) (vmaj : Nat) (hvm : vmaj = 3 ∨ vmaj = 4) (frames : Bytes)
    (pad : PadChoice) (v1opt : Nat) (blk : Bytes) (p : Nat)
    (hp : getPadding pad ((L.tag.length : Int) - (frames.length + 10 : Nat)) (L.audio.length + L.v1.length) = p)
    (hfit : frames.length + p < 2 ^ 28) :
    ∃ out, Id3F.save L.render vmaj frames pad v1opt blk = .ok out ∧
      Id3F.headerSize out = .ok (some (frames.length + p + 10)) ∧
      out.drop (frames.length + p + 10) = L.audio ++ Id3F.newV1 L.v1 v1opt blk ∧
      (out.drop 10).take frames.length = frames ∧
      ((out.drop 10).drop frames.length).take p = zeros p := by
  obtain ⟨hd, hh, hs⟩ := Id3F.save_layout L h vmaj hvm frames pad v1opt blk p hp hfit
  refine ⟨_, hs, ?_, ?_, ?_, ?_⟩
  · have := Id3F.headerSize_tag vmaj (frames.length + p) (by omega) hd
      (frames ++ zeros p ++ L.audio ++ Id3F.newV1 L.v1 v1opt blk) hfit hh
    simpa [List.append_assoc] using this
  all_goals
    obtain ⟨a, b, c, d, h1, _⟩ := Id3F.header_ok vmaj (frames.length + p) hfit
    rw [h1] at hh; cases hh
  · have : (Id3F.magicID3 ++ [UInt8.ofNat vmaj, 0, 0] ++ [a, b, c, d] ++ frames ++ zeros p).length = frames.length + p + 10 := by
      simp [Id3F.magicID3]
    rw [List.append_assoc _ L.audio, ← this]
    exact List.drop_left' rfl
  · simp [Id3F.magicID3, List.append_assoc, List.take_left' rfl]
  · simp [Id3F.magicID3, List.append_assoc, List.drop_left' rfl, List.take_left' (length_zeros p)]

/-! ## APEv2-tagged files -/

/-- after an APEv2 save the file is the audio followed by a tag that the strict APEv2 decoder
(preamble, header/footer agreement, flags, declared size filling the tag exactly, item count)
reads back as the items written -/
theorem ape_save_wellformed (audio : Bytes) (old new : List Ape.Item)
    (hs : ((old.map Ape.encodeItem).flatten).length + 32 < 256 ^ 4) (ha : ApeF.AudioOK audio (Ape.encodeTag old))
    (hnew : Ape.TagOK new) :
    ∃ out, ApeF.save (audio ++ Ape.encodeTag old) (Ape.encodeTag new) = .ok out ∧
      out.take audio.length = audio ∧ Ape.decodeTag (out.drop audio.length) = some new := by
  refine ⟨_, ApeF.save_over_tag audio old _ hs ha, List.take_left' rfl, ?_⟩
  rw [List.drop_left' rfl]
  exact Ape.decodeTag_encodeTag new hnew

/-! ## IFF-style chunk files (AIFF, WAVE, DSDIFF) -/

/-- after an IFF save the size fields are those of the extents: the root's size field equals the number
of bytes that follow it (all of the file), the ID3 chunk's size field — at its place behind the
chunks in front of it — equals the length of its data, `10 + len(frames) + padding`, the pad byte is
there iff that length is odd, and the strict reader (complete headers, every size inside the file,
pad bytes iff odd, nothing left over) reads the file back as the form type and the expected chunks -/
theorem iff_save_sizes_consistent (d : Iff.Dialect) (hd : d.WF) (L : Iff.Layout) (h : L.OK d) (vmaj : Nat)
    (hvm : vmaj = 3 ∨ vmaj = 4) (frames : Bytes) (pad : PadChoice) (p : Nat)
    (hp : getPadding pad ((L.oldLen : Int) - (frames.length + 10 : Nat)) (L.trailing d) = p)
    (hfit : frames.length + p < 2 ^ 28) (hroot : 4 + L.newExtent d (10 + frames.length + p) < 256 ^ d.sizeW) :
    ∃ tag out, Iff.save d (L.render d) vmaj frames pad = .ok out ∧
      out.take 4 = d.rootId ∧
      Iff.dec d ((out.drop 4).take d.sizeW) = out.length - Iff.hs d ∧
      Iff.dec d (readAt out (Iff.hs d + 4 + (Iff.renderChunks d L.before).length + 4) d.sizeW) = 10 + frames.length + p ∧
      tag.data.length = 10 + frames.length + p ∧ tag.pad.length = (10 + frames.length + p) % 2 ∧
      Iff.readFile d out = some (L.formType, L.before ++ tag :: L.after) := by
  obtain ⟨hdr, h1, h2, h3⟩ := Iff.save_layout d hd L h vmaj hvm frames pad p hp hfit hroot
  have hl : (hdr ++ frames ++ zeros p).length = 10 + frames.length + p := by simp [h2]; omega
  have hok := Iff.withTag_ok d hd L h (hdr ++ frames ++ zeros p) (by rw [hl]; exact hroot)
  have hch : (L.withTag d (hdr ++ frames ++ zeros p)).chunks = L.before ++ Iff.tagChunk (L.id3Id d) (hdr ++ frames ++ zeros p) :: L.after := by
    simp [Iff.Layout.withTag, Iff.Layout.chunks]
  have hrd := Iff.readFile_layout d hd _ hok
  have hrt := Iff.readFile_some_root d _ _ hrd
  have htag := hok.id3 _ rfl
  have hN : 10 + frames.length + p < 256 ^ d.sizeW := by unfold Iff.Layout.newExtent at hroot; omega
  refine ⟨Iff.tagChunk (L.id3Id d) (hdr ++ frames ++ zeros p), _, h3, hrt.1, hrt.2, ?_, hl, by simp only [Iff.tagChunk, hl, length_zeros], ?_⟩
  · have := Iff.sizeField_render d hd L.formType h.name.1 L.before L.after (Iff.tagChunk (L.id3Id d) (hdr ++ frames ++ zeros p)) htag.1.1.1
    have hft : (L.withTag d (hdr ++ frames ++ zeros p)).formType = L.formType := rfl
    simp only [Iff.Layout.render, hch, hft]
    rw [this]
    simp only [Iff.tagChunk, hl]
    exact Iff.dec_enc d _ hN
  · rw [hch] at hrd; exact hrd

/-- after an IFF delete the root's size field equals the number of bytes that follow it, and the strict
reader reads the file back as the form type and the other chunks -/
theorem iff_delete_sizes_consistent (d : Iff.Dialect) (hd : d.WF) (L : Iff.Layout) (h : L.OK d) :
    ∃ out, Iff.delete d (L.render d) = .ok out ∧ out.take 4 = d.rootId ∧
      Iff.dec d ((out.drop 4).take d.sizeW) = out.length - Iff.hs d ∧
      Iff.readFile d out = some (L.formType, L.before ++ L.after) := by
  have h2 := Iff.readFile_without d hd L h
  have hrt := Iff.readFile_some_root d _ _ h2
  exact ⟨_, Iff.delete_layout d hd L h, hrt.1, hrt.2, h2⟩

/-- a well-formed file stays well-formed through a save (`withTag` is what `iff_save_sizes_consistent`
says the file becomes), so the statements apply again to the result: by induction, through any history
of saves (and of deletes, `C08.iff_delete_then_wellformed`) whose sizes fit the size fields -/
theorem iff_save_keeps_wellformed (d : Iff.Dialect) (hd : d.WF) (L : Iff.Layout) (h : L.OK d) (data : Bytes)
    (hroot : 4 + L.newExtent d data.length < 256 ^ d.sizeW) : (L.withTag d data).OK d :=
  Iff.withTag_ok d hd L h data hroot

/-- the strict reader is strict: a RIFF/WAVE file whose root size field is one too small is rejected, the
corrected file is accepted -/
example : Iff.readFile Iff.wave ([0x52, 0x49, 0x46, 0x46, 13, 0, 0, 0, 0x57, 0x41, 0x56, 0x45] ++
      [0x64, 0x61, 0x74, 0x61, 1, 0, 0, 0, 7, 0]) = none ∧
    Iff.readFile Iff.wave ([0x52, 0x49, 0x46, 0x46, 14, 0, 0, 0, 0x57, 0x41, 0x56, 0x45] ++
      [0x64, 0x61, 0x74, 0x61, 1, 0, 0, 0, 7, 0]) = some ([0x57, 0x41, 0x56, 0x45], [⟨[0x64, 0x61, 0x74, 0x61], [7], [0]⟩]) := by
  decide +kernel

end Mutagen.C03
