/-
Props/C03.lean — C03 "Files stay structurally valid through any edit history".
Formats with a Lean container model: FLAC (and the Ogg page layer, Props/C15.lean).
-/
import MutagenModel.Proofs.Container.Flac
import MutagenModel.Proofs.Container.ApeFile
import MutagenModel.Proofs.Container.Id3File
set_option linter.unusedVariables false
namespace Mutagen.C03
open Mutagen Mutagen.FlacC

/-- FLAC: `walk ∘ render = id` — the rendered layout has exactly its final block flagged last
and every declared size equal to the extent, so the strict walker reads it back -/
theorem flac_walk_render (L : Layout) (hL : Good L) : walk (render L) = some L :=
  walk_render L hL.pre hL.ne hL.blocksOk

/-- FLAC: after ANY finite history of saves (any comment payload that fits a block, any padding
choice) and deletes the file is accepted by the strict walker, and prefix, foreign blocks and
audio are those of the original -/
theorem flac_history (L : Layout) (hL : Good L) (ops : List FlacC.Op) (hops : ∀ op ∈ ops, op.ok) :
    let L' := ops.foldl step L
    Good L' ∧ walk (render L') = some L' ∧ L'.blocks.filter keep = L.blocks.filter keep ∧
      L'.pre = L.pre ∧ L'.audio = L.audio :=
  history L hL ops hops

/-- FLAC: the bytes FLAC._save leaves on the file are exactly the rendering of the saved layout -/
theorem flac_save_bytes (B : Nat) (hB : 0 < B) (L : Layout) (blocks : List Block) (pad : PadChoice)
    (hsz : ∀ b ∈ blocks, b.data.length ≤ maxSize) (s : FS) (hs : s.data = render L) :
    ∃ s', saveM B L blocks pad Env.clean s = (.ok (), s') ∧ s'.data = render (msave L blocks false pad) :=
  saveM_clean B hB L blocks pad hsz s hs

/-! ## free-standing ID3 files -/

/-- after an ID3 save the file starts with a header that a reader accepts and whose (syncsafe)
size field equals the extent of what it covers: `ID3Header` on the saved file reports
`10 + len(frames) + padding`, and exactly that many bytes precede the audio -/
theorem id3_save_header_consistent (L : Id3F.Layout) (h : L.OK) (vmaj : Nat) (hvm : vmaj = 3 ∨ vmaj = 4) (frames : Bytes)
    (pad : PadChoice) (v1opt : Nat) (blk : Bytes) (p : Nat)
    (hp : getPadding pad ((L.tag.length : Int) - (frames.length + 10 : Nat)) (L.audio.length + L.v1.length) = p)
    (hfit : frames.length + p < 2 ^ 28) :
    ∃ out, Id3F.save L.render vmaj frames pad v1opt blk = .ok out ∧
      Id3F.headerSize out = .ok (some (frames.length + p + 10)) ∧
      out.drop (frames.length + p + 10) = L.audio ++ Id3F.newV1 L.v1 v1opt blk ∧
      (out.drop 10).take frames.length = frames ∧
      ((out.drop 10).drop frames.length).take p = zeros p := by
  obtain ⟨hd, hh, hs⟩ := Id3F.save_layout L h vmaj hvm frames pad v1opt blk p hp hfit
  refine ⟨_, hs, ?_, ?_, ?_, ?_⟩
  · have := Id3F.headerSize_tag vmaj (frames.length + p) (by omega) hd
      (frames ++ zeros p ++ L.audio ++ Id3F.newV1 L.v1 v1opt blk) hfit hh
    simpa [List.append_assoc] using this
  all_goals
    obtain ⟨a, b, c, d, h1, _⟩ := Id3F.header_ok vmaj (frames.length + p) hfit
    rw [h1] at hh; cases hh
  · have : (Id3F.magicID3 ++ [UInt8.ofNat vmaj, 0, 0] ++ [a, b, c, d] ++ frames ++ zeros p).length = frames.length + p + 10 := by
      simp [Id3F.magicID3]
    rw [List.append_assoc _ L.audio, ← this]
    exact List.drop_left' rfl
  · simp [Id3F.magicID3, List.append_assoc, List.take_left' rfl]
  · simp [Id3F.magicID3, List.append_assoc, List.drop_left' rfl, List.take_left' (length_zeros p)]

/-! ## APEv2-tagged files -/

/-- after an APEv2 save the file is the audio followed by a tag that the strict APEv2 decoder
(preamble, header/footer agreement, flags, declared size filling the tag exactly, item count)
reads back as the items written -/
theorem ape_save_wellformed (audio : Bytes) (old new : List Ape.Item)
    (hs : ((old.map Ape.encodeItem).flatten).length + 32 < 256 ^ 4) (ha : ApeF.AudioOK audio (Ape.encodeTag old))
    (hnew : Ape.TagOK new) :
    ∃ out, ApeF.save (audio ++ Ape.encodeTag old) (Ape.encodeTag new) = .ok out ∧
      out.take audio.length = audio ∧ Ape.decodeTag (out.drop audio.length) = some new := by
  refine ⟨_, ApeF.save_over_tag audio old _ hs ha, List.take_left' rfl, ?_⟩
  rw [List.drop_left' rfl]
  exact Ape.decodeTag_encodeTag new hnew

end Mutagen.C03
