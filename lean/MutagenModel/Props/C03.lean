/-
Props/C03.lean — C03 "Files stay structurally valid through any edit history".
Formats with a Lean container model: FLAC (and the Ogg page layer, Props/C15.lean).
-/
import MutagenModel.Proofs.Container.Flac
set_option linter.unusedVariables false
namespace Mutagen.C03
open Mutagen Mutagen.FlacC

/-- FLAC: `walk ∘ render = id` — the rendered layout has exactly its final block flagged last
and every declared size equal to the extent, so the strict walker reads it back -/
theorem flac_walk_render (L : Layout) (hL : Good L) : walk (render L) = some L :=
  walk_render L hL.pre hL.ne hL.blocksOk

/-- FLAC: after ANY finite history of saves (any comment payload that fits a block, any padding
choice) and deletes the file is accepted by the strict walker, and prefix, foreign blocks and
audio are those of the original -/
theorem flac_history (L : Layout) (hL : Good L) (ops : List FlacC.Op) (hops : ∀ op ∈ ops, op.ok) :
    let L' := ops.foldl step L
    Good L' ∧ walk (render L') = some L' ∧ L'.blocks.filter keep = L.blocks.filter keep ∧
      L'.pre = L.pre ∧ L'.audio = L.audio :=
  history L hL ops hops

/-- FLAC: the bytes FLAC._save leaves on the file are exactly the rendering of the saved layout -/
theorem flac_save_bytes (B : Nat) (hB : 0 < B) (L : Layout) (blocks : List Block) (pad : PadChoice)
    (hsz : ∀ b ∈ blocks, b.data.length ≤ maxSize) (s : FS) (hs : s.data = render L) :
    ∃ s', saveM B L blocks pad Env.clean s = (.ok (), s') ∧ s'.data = render (msave L blocks false pad) :=
  saveM_clean B hB L blocks pad hsz s hs

end Mutagen.C03
