/-
Props/C14.lean — C14 "Syncsafe integers and unsynchronisation are exact inverses".
Property theorems only; lemmas in Proofs/Id3Util.lean.
-/
import MutagenModel.Proofs.Id3Util
set_option linter.unusedVariables false
namespace Mutagen.C14
open Mutagen

/-- Encoding any non-negative integer that fits `w` digits of `bits` bits (1 ≤ bits ≤ 8),
big- or little-endian, and decoding it gives the same integer; the encoding has exactly
`w` bytes and every byte has its padding bits clear. -/
theorem to_str_roundtrip (v w bits mw : Nat) (be : Bool) (hb8 : bits ≤ 8) (h : v < 2 ^ (bits * w)) :
    ∃ b, bpToStr v bits be w mw = .ok b ∧ b.length = w ∧ bpFromBytes bits be b = v ∧
      (∀ x ∈ b, x.toNat < 2 ^ bits) ∧ bpValidPaddingBytes bits b = .ok true := by
  obtain ⟨ds, h1, h2, h3, h4⟩ := digitsLE_some bits w v h
  have h256 : ∀ d ∈ ds, d < 256 := fun d hd => Nat.lt_of_lt_of_le (h4 d hd) (pow_bits_le_256 bits hb8)
  have hall : ds.all (· < 256) = true := by simpa [List.all_eq_true] using h256
  have c1 : ¬ ((v : Int) < 0) := by omega
  have c2 : ¬ ((w : Int) = -1) := by omega
  have c3 : ¬ ((w : Int) < 0) := by omega
  have hmem : ∀ x ∈ ds.map UInt8.ofNat, x.toNat < 2 ^ bits := by
    intro x hx
    obtain ⟨d, hd, rfl⟩ := List.mem_map.mp hx
    have := h4 d hd
    have := h256 d hd
    simp only [UInt8.toNat_ofNat']; omega
  have hpad : ∀ (l : Bytes), (∀ x ∈ l, x.toNat < 2 ^ bits) → bpValidPaddingBytes bits l = .ok true := by
    intro l hl
    have : ¬ bits > 8 := by omega
    simp only [bpValidPaddingBytes, this, ↓reduceIte, Except.ok.injEq, List.all_eq_true, decide_eq_true_eq]
    intro x hx
    rw [Nat.div_eq_of_lt (hl x hx)]; simp
  cases be
  · refine ⟨ds.map UInt8.ofNat, ?_, by simp [h3], ?_, hmem, hpad _ hmem⟩
    · simp [bpToStr, c1, c2, c3, h1, digitsToBytes, hall]
    · simp [bpFromBytes, map_toNat_ofNat ds h256, h2]
  · have hmem' : ∀ x ∈ (ds.map UInt8.ofNat).reverse, x.toNat < 2 ^ bits := by
      intro x hx; exact hmem x (List.mem_reverse.mp hx)
    refine ⟨(ds.map UInt8.ofNat).reverse, ?_, by simp [h3], ?_, hmem', hpad _ hmem'⟩
    · simp [bpToStr, c1, c2, c3, h1, digitsToBytes, hall]
    · simp [bpFromBytes, map_toNat_ofNat ds h256, h2]

/-- a value that does not fit the requested width is rejected, not truncated -/
theorem to_str_too_wide_rejected (v w bits mw : Nat) (be : Bool) (h : 2 ^ (bits * w) ≤ v) :
    bpToStr v bits be w mw = .error .value := by
  have c1 : ¬ ((v : Int) < 0) := by omega
  have c2 : ¬ ((w : Int) = -1) := by omega
  have c3 : ¬ ((w : Int) < 0) := by omega
  simp [bpToStr, c1, c2, c3, digitsLE_none bits w v h]

/-- negative values are rejected, for every width including the growing one (-1) -/
theorem to_str_negative_rejected (v : Int) (hv : v < 0) (bits mw : Nat) (be : Bool) (width : Int) :
    bpToStr v bits be width mw = .error .value := by
  simp [bpToStr, hv]

/-- growing integers (`width = -1`, PCNT/POPM counters): at least `minwidth` bytes, decode
back to the value, padding bits clear, and no more bytes than `minwidth` unless needed
(the most significant digit of a longer encoding is non-zero). -/
theorem to_str_growing_roundtrip (v bits mw : Nat) (be : Bool) (hb : 0 < bits) (hb8 : bits ≤ 8) :
    ∃ b, bpToStr v bits be (-1) mw = .ok b ∧ mw ≤ b.length ∧ bpFromBytes bits be b = v ∧
      (∀ x ∈ b, x.toNat < 2 ^ bits) ∧
      (mw < b.length → (if be then b.head? else b.getLast?) ≠ some 0) := by
  obtain ⟨ds, h1, h2, h3, _, h5⟩ := digitsGrow_some bits hb v
  have hp : 0 < 2 ^ bits := Nat.pow_pos (by decide)
  let ds' := ds ++ List.replicate (mw - ds.length) 0
  have h3' : ∀ d ∈ ds', d < 2 ^ bits := by
    intro d hd
    rcases List.mem_append.mp hd with hd | hd
    · exact h3 d hd
    · rw [(List.mem_replicate.mp hd).2]; exact hp
  have h256 : ∀ d ∈ ds', d < 256 := fun d hd => Nat.lt_of_lt_of_le (h3' d hd) (pow_bits_le_256 bits hb8)
  have hall : ds'.all (· < 256) = true := by simpa [List.all_eq_true] using h256
  have c1 : ¬ ((v : Int) < 0) := by omega
  have hlen : ds'.length = max mw ds.length := by simp [ds']; omega
  have hmem : ∀ x ∈ ds'.map UInt8.ofNat, x.toNat < 2 ^ bits := by
    intro x hx
    obtain ⟨d, hd, rfl⟩ := List.mem_map.mp hx
    have := h3' d hd
    have := h256 d hd
    simp only [UInt8.toNat_ofNat']; omega
  have hfrom : fromLE bits ds' = v := by simp [ds', fromLE_append_zeros, h2]
  have hlast : mw < ds'.length → (ds'.map UInt8.ofNat).getLast? ≠ some 0 := by
    intro hlt
    have hz : mw - ds.length = 0 := by omega
    have hds : ds' = ds := by simp [ds', hz]
    rw [hds, List.getLast?_map]
    cases hl : ds.getLast? with
    | none => simp
    | some d =>
      simp only [Option.map_some, ne_eq, Option.some.injEq]
      have hd : d ∈ ds := List.mem_of_getLast? hl
      have hd256 : d < 256 := Nat.lt_of_lt_of_le (h3 d hd) (pow_bits_le_256 bits hb8)
      have hd0 : d ≠ 0 := by intro h0; rw [h0] at hl; exact h5 hl
      intro hcontra
      have := congrArg UInt8.toNat hcontra
      simp only [UInt8.toNat_ofNat', UInt8.toNat_zero] at this
      omega
  cases be
  · refine ⟨ds'.map UInt8.ofNat, ?_, by simp [hlen]; omega, ?_, hmem, ?_⟩
    · simp [bpToStr, c1, h1, digitsToBytes, hall, ds']
    · simp [bpFromBytes, map_toNat_ofNat ds' h256, hfrom]
    · intro hlt; simpa using hlast (by simpa using hlt)
  · refine ⟨(ds'.map UInt8.ofNat).reverse, ?_, by simp [hlen]; omega, ?_, ?_, ?_⟩
    · simp [bpToStr, c1, h1, digitsToBytes, hall, ds']
    · simp [bpFromBytes, map_toNat_ofNat ds' h256, hfrom]
    · intro x hx; exact hmem x (List.mem_reverse.mp hx)
    · intro hlt
      simp only [↓reduceIte, List.head?_reverse]
      exact hlast (by simpa using hlt)

/-- `BitPaddedInt(int)` of a negative number is rejected -/
theorem from_int_negative_rejected (bits : Nat) (v : Int) (hv : v < 0) :
    bpFromInt bits v = .error .value := by simp [bpFromInt, hv]

/-- unsynchronising any byte string decodes back to the original string -/
theorem unsynch_roundtrip (b : Bytes) : unsynchDecode (unsynchEncode b) = .ok b := by
  simp [unsynchDecode, unsynchEncode, unsDec_enc]

/-- … and is free of false MPEG sync patterns (no 0xFF followed by ≥ 0xE0, no trailing 0xFF) -/
theorem unsynch_no_false_sync (b : Bytes) : noSync false (unsynchEncode b) = true :=
  noSync_enc false b

/-! non-vacuity -/
example : bpToStr 0x0FFFFFFF 7 true 4 4 = .ok [0x7F, 0x7F, 0x7F, 0x7F] := by decide +kernel
example : bpToStr 0x10000000 7 true 4 4 = .error .value := by decide +kernel
example : bpToStr 300 8 true (-1) 2 = .ok [1, 44] := by decide +kernel
example : unsynchEncode [0xFF, 0xE0, 0xFF, 0x00, 0xFF] = [0xFF, 0x00, 0xE0, 0xFF, 0x00, 0x00, 0xFF, 0x00] := by
  decide +kernel

end Mutagen.C14
