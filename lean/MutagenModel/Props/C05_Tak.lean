/-
Props/C05_Tak.lean — C05 "Stream information equals what the headers encode" for TAK
(mutagen/tak.py `TAKInfo`, `_LSBBitReader`).  Property theorems only; layout: Spec/Info/Tak.lean,
parser and bit reader: Model/Info/Tak.lean.
-/
import MutagenModel.Proofs.Info.Tak
set_option linter.unusedVariables false
namespace Mutagen.C05
open Mutagen Mutagen.Info Mutagen.Info.Tak Mutagen.Spec.Tak

/-- the bit reader on the ten stream-info bytes: for EVERY 80-bit value `W` (stored little-endian) the calls
`skip 6, skip 4, skip 4, bits 35, skip 3, bits 18, bits 5, bits 4, skip 1` of `_LSBBitReader` return the
bit fields 14..48, 52..69, 70..74, 75..78 of `W` and leave the reader byte-aligned behind the ten bytes. -/
theorem tak_bitreader_fields (W : Nat) (more : Bytes) (buf size : Nat) (hs : 11 ≤ size ∧ size ≤ 23) :
    parseStreamInfo { rem := toLE 10 W ++ more, buffer := buf, bits := 0 } size =
      .ok ({ numberOfSamples := W / 2 ^ 14 % 2 ^ 35, sampleRate := W / 2 ^ 52 % 2 ^ 18 + 6000,
             bitsPerSample := W / 2 ^ 70 % 2 ^ 5 + 8, channels := W / 2 ^ 75 % 2 ^ 4 + 1 },
           { rem := more, buffer := 0, bits := 0 }) :=
  si_eval W more buf size hs

/-- C05 for TAK: for EVERY stream-info block the format allows (all values of the codec / profile /
frame-duration / data-type fields, 35-bit sample count, rates 6000..268143, 8..39 bits, 1..16 channels,
extension flag and up to ten extension bytes), preceded and followed by any number of other metadata blocks
of any type and content (ENCODER_INFO among them: the last one gives the version), terminated by the END
block and followed by anything, `TAKInfo` reports exactly the encoded channels, rate, sample size, encoder
version, and the duration `samples / rate`. -/
theorem tak_info_decodes (h : Fields) (ok : h.OK) (rest : Bytes) :
    parse (build h ++ rest) = .ok (expected h) :=
  parse_build h ok rest

/-- C04 side: on EVERY byte string `TAKInfo` either succeeds or raises a `MutagenError` (`TAKHeaderError`):
the two `assert`s of the bit reader and of the block loop never fire, no other exception class escapes,
and the block loop terminates. -/
theorem tak_info_total (f : Bytes) : ∀ e, parse f = .error e → e = .mutagen := parse_total f

/-! non-vacuity -/
def takSample : Fields :=
  { codec := 2, profile := 2, frameDuration := 3, samples := 2 ^ 35 - 1, dataType := 0, rate := 44100, bits := 16,
    channels := 2, hasExtension := 0, ext := [], pre := [⟨4, [0, 3, 2, 2]⟩], post := [⟨6, List.replicate 16 1⟩, ⟨5, []⟩] }
example : takSample.OK := by decide
example : parse (build takSample ++ [1, 2, 3]) =
    .ok { channels := 2, sampleRate := 44100, bitsPerSample := 16, length := ⟨2 ^ 35 - 1, 44100⟩,
          encoder := some (2, 3, 0) } := by decide +kernel

end Mutagen.C05
