/-
Props/C01_FlacLoad.lean — the code-side reader of FLAC files (`FlacL.load`: FLAC.load / __read_metadata_block / __check_header,
Model/Container/FlacLoad.lean) against the format-side picture of the file (`FlacC.Layout`, `render`, the strict walker `walk`,
Model/Container/Flac.lean), and C01 for FLAC through mutagen's own reader: save, then load.
-/
import MutagenModel.Proofs.Container.FlacReads
set_option linter.unusedVariables false
namespace Mutagen.C01
open Mutagen

/-- on a well-formed FLAC file — nothing or an ID3v2 tag in front (`Id3Prefix`), "fLaC", blocks with the last-block flag on the last
one, audio — whose block payloads are what their classes read (`AllDecode`: block by block the class loader consumes exactly the
payload), with a STREAMINFO block and no second CueSheet / SeekTable, `FLAC.load` returns exactly the layout's blocks: same codes,
same order, each payload decoded by its class (STREAMINFO: `siLoad`; SEEKTABLE, CUESHEET, PICTURE, PADDING, others: the loaders of
Model/FlacBlocks.lean; the Vorbis comment as its bytes, which `Vorbis.decode` reads); and the bitrate is computed from exactly the
audio bytes -/
theorem flac_load_reads_layout (L : FlacC.Layout) (hpre : L.pre = [] ∨ FlacL.Id3Prefix L.pre) (hne : L.blocks ≠ [])
    (hok : ∀ b ∈ L.blocks, b.ok) (lbs : List FlacL.LBlock) (hd : FlacL.AllDecode L.blocks lbs)
    (hdup : FlacL.dupFree false false lbs = true) (hsi : lbs.any FlacL.isStreamInfo = true) :
    FlacL.load (FlacC.render L) = .ok ⟨lbs, if FlacL.hasLength lbs then some L.audio.length else none⟩ :=
  FlacL.load_render L hpre hne hok lbs hd hdup hsi

/-- … in agreement with the strict format-side walker: on the same file `walk` returns the layout, and the blocks `load` returns
are, one by one, the decodings of the blocks `walk` returns (same length, same codes) -/
theorem flac_load_agrees_with_walk (L : FlacC.Layout) (hpre : L.pre = []) (hne : L.blocks ≠ []) (hok : ∀ b ∈ L.blocks, b.ok)
    (lbs : List FlacL.LBlock) (hd : FlacL.AllDecode L.blocks lbs) (hdup : FlacL.dupFree false false lbs = true)
    (hsi : lbs.any FlacL.isStreamInfo = true) :
    ∃ L' ld, FlacC.walk (FlacC.render L) = some L' ∧ FlacL.load (FlacC.render L) = .ok ld ∧
      FlacL.AllDecode L'.blocks ld.blocks ∧ ld.blocks.map (·.code) = L'.blocks.map (·.code) := by
  exact ⟨L, _, FlacC.walk_render L hpre hne hok, FlacL.load_render L (Or.inl hpre) hne hok lbs hd hdup hsi, hd, FlacL.allDecode_codes hd⟩

/-- what `VComment.write(framing=False)` wrote is read by `VCFLACDict(fileobj)` as exactly those bytes: a Vorbis comment block
holding an encoded comment decodes (and `Vorbis.decode` of the bytes is the comment list: `Vorbis.decode_encode`, C01.vorbis_roundtrip) -/
theorem flac_vc_block_decodes (vendor : Bytes) (cs : List (Bytes × Bytes)) (hv : vendor.length < 256 ^ 4) (hn : cs.length < 256 ^ 4)
    (hc : ∀ kv ∈ cs, kv.1.length + 1 + kv.2.length < 256 ^ 4) :
    FlacL.Decodes ⟨FlacC.vcCode, Vorbis.encode vendor cs false⟩ ⟨4, .vc (Vorbis.encode vendor cs false)⟩ :=
  FlacL.decodes_vc vendor cs hv hn hc

/-- C01 for FLAC through mutagen's own reader: `FLAC._save` (the program over the file object) with a block list, then `FLAC.load`
of the bytes it left, gives the block list back — every block that is not padding, in order, decoded by its class — followed by the
one padding block the save wrote; the audio is the same number of bytes -/
theorem flac_save_then_load (B : Nat) (hB : 0 < B) (L : FlacC.Layout) (hL : FlacC.Good L) (blocks : List FlacC.Block) (pad : PadChoice)
    (h : ∀ b ∈ blocks, b.code < 127 ∧ b.data.length ≤ FlacC.maxSize)
    (lbs : List FlacL.LBlock) (hd : FlacL.AllDecode (blocks.filter (·.code != FlacC.padCode)) lbs)
    (hdup : FlacL.dupFree false false lbs = true) (hsi : lbs.any FlacL.isStreamInfo = true) (s : FS) (hs : s.data = FlacC.render L) :
    ∃ s' n, FlacC.saveM B L blocks pad Env.clean s = (.ok (), s') ∧
      FlacL.load s'.data = .ok ⟨lbs ++ [⟨1, .other (.padding n)⟩],
        if FlacL.hasLength (lbs ++ [⟨1, .other (.padding n)⟩]) then some L.audio.length else none⟩ := by
  obtain ⟨s', hr, hdat⟩ := FlacC.saveM_clean B hB L blocks pad (fun b hb => (h b hb).2) s hs
  have hg := FlacC.msave_good L hL blocks pad h
  let n := (min (getPadding pad (((FlacC.renderBlocks L.blocks).length : Int) -
    ((((blocks.filter (·.code != FlacC.padCode)).map fun b => 4 + b.data.length).sum + 4 : Nat) : Int)) L.audio.length).toNat FlacC.maxSize)
  refine ⟨s', n, hr, ?_⟩
  rw [hdat]
  have hblocks : (FlacC.msave L blocks false pad).blocks = blocks.filter (·.code != FlacC.padCode) ++ [⟨FlacC.padCode, zeros n⟩] := by
    simp [FlacC.msave, FlacC.newBlocks, n]
  have := FlacL.load_render (FlacC.msave L blocks false pad) (Or.inl hg.pre) hg.ne hg.blocksOk (lbs ++ [⟨1, .other (.padding n)⟩])
    (by rw [hblocks]; exact FlacL.allDecode_append hd (FlacL.AllDecode.cons (FlacL.decodes_padding n) FlacL.AllDecode.nil))
    (FlacL.dupFree_append_pad _ _ _ n hdup) (FlacL.any_append_left _ _ hsi)
  rw [this]
  simp [FlacC.msave]

end Mutagen.C01
