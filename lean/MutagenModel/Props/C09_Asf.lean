/-
Props/C09_Asf.lean — C09 "The padding callback is obeyed and existing padding is reused", ASF files.
Model: Model/Container/Asf.lean; lemmas: Proofs/Container/Asf.lean.
-/
import MutagenModel.Proofs.Container.Asf
set_option linter.unusedVariables false
namespace Mutagen.C09
open Mutagen

/-! ## ASF

`neededLen P top` is the length of the new Header Object without the payload of its Padding Object
(`needed_size` in `render_full`: the rendered children + 30 header bytes + the 24 bytes of an empty
Padding Object). -/

/-- the callback is offered `len(old Header Object) − needed` as `info.padding` and the number of
bytes behind the Header Object as `info.size`; the saved header ends with one Padding Object whose
payload is exactly the callback's answer in zero bytes (a negative answer counts as 0:
`b"\x00" * padding`), and there is no other padding left in the header (the other children are the
kept ones, the File Size field of the File Properties Object set to the new file length) -/
theorem asf_padding_obeyed (L : Asf.Layout) (h : L.OK) (tags : List Asf.Tag) (d : Asf.Dist)
    (hd : Asf.distribute tags = .ok d) (P : Asf.Payloads) (hP : Asf.Renders d P) (f : Int → Nat → Int) (p : Nat)
    (hp : (f ((L.headerLen : Int) - (Asf.neededLen P L.top : Nat)) L.rest.length).toNat = p) (hf : L.Fits P p) :
    Asf.save L.render tags (.callback f) = .ok (L.after P p).render ∧
      (L.after P p).top = Asf.patchFP (L.after P p).render.length (Asf.keptTop P L.top) ++ [Asf.Item.pad (zeros p)] ∧
      (∀ i ∈ Asf.patchFP (L.after P p).render.length (Asf.keptTop P L.top), i.isPad = false) ∧
      (L.after P p).headerLen = Asf.neededLen P L.top + p := by
  have e : Asf.newPadding L P (.callback f) = p := hp
  refine ⟨?_, ?_, Asf.kept_no_pad _ P L.top, L.after_headerLen h P p⟩
  · have := (Asf.save_layout L h tags d hd P hP (.callback f) (by rw [e]; exact hf)).2
    rw [e] at this; exact this
  · rw [Asf.after_render_length L h]; exact Asf.after_top L P p

/-- returning the offered padding (when it is not negative) leaves the file size and the offset of
every byte behind the header unchanged: the new Header Object is exactly as long as the old one -/
theorem asf_keep_is_inplace (L : Asf.Layout) (h : L.OK) (tags : List Asf.Tag) (d : Asf.Dist)
    (hd : Asf.distribute tags = .ok d) (P : Asf.Payloads) (hP : Asf.Renders d P) (f : Int → Nat → Int)
    (hf : L.Fits P (L.headerLen - Asf.neededLen P L.top)) (hroom : Asf.neededLen P L.top ≤ L.headerLen)
    (hkeep : f ((L.headerLen : Int) - (Asf.neededLen P L.top : Nat)) L.rest.length = (L.headerLen : Int) - (Asf.neededLen P L.top : Nat)) :
    ∃ L' : Asf.Layout, Asf.save L.render tags (.callback f) = .ok L'.render ∧ L'.headerLen = L.headerLen ∧
      L'.render.length = L.render.length ∧ L'.render.drop L.headerLen = L.rest := by
  have hp : (f ((L.headerLen : Int) - (Asf.neededLen P L.top : Nat)) L.rest.length).toNat = L.headerLen - Asf.neededLen P L.top := by
    rw [hkeep]; omega
  obtain ⟨hs, _, _, hl⟩ := asf_padding_obeyed L h tags d hd P hP f _ hp hf
  have hl' : (L.after P (L.headerLen - Asf.neededLen P L.top)).headerLen = L.headerLen := by rw [hl]; omega
  refine ⟨_, hs, hl', ?_, ?_⟩
  · have hr : (L.after P (L.headerLen - Asf.neededLen P L.top)).rest = L.rest := rfl
    rw [Asf.Layout.render_length, Asf.Layout.render_length, hl', hr]
  · have := Asf.Layout.drop_render (L.after P (L.headerLen - Asf.neededLen P L.top))
    rw [hl'] at this; exact this

/-- `save(padding=None)` is `save` with the default policy as the callback; up to 10 KiB + 1 % of the
data behind the header of free room is reused in place -/
theorem asf_default_reuses_padding (L : Asf.Layout) (h : L.OK) (tags : List Asf.Tag) (d : Asf.Dist)
    (hd : Asf.distribute tags = .ok d) (P : Asf.Payloads) (hP : Asf.Renders d P)
    (hf : L.Fits P (L.headerLen - Asf.neededLen P L.top)) (hroom : Asf.neededLen P L.top ≤ L.headerLen)
    (hsmall : L.headerLen - Asf.neededLen P L.top ≤ 10240 + L.rest.length / 100) :
    ∃ L' : Asf.Layout, Asf.save L.render tags .default = .ok L'.render ∧ L'.headerLen = L.headerLen ∧
      L'.render.length = L.render.length := by
  have hk : Generated.defaultPadding ((L.headerLen : Int) - (Asf.neededLen P L.top : Nat)) L.rest.length =
      (L.headerLen : Int) - (Asf.neededLen P L.top : Nat) := defaultPadding_keeps _ _ (by omega) (by omega)
  obtain ⟨L', h1, h2, h3, _⟩ := asf_keep_is_inplace L h tags d hd P hP Generated.defaultPadding hf hroom hk
  exact ⟨L', h1, h2, h3⟩

/-- the hypotheses are satisfiable (the second layout has 600 more bytes of padding: room to keep) -/
example : Asf.exLayout.OK ∧ Asf.distribute Asf.exTags = .ok Asf.exDist ∧ Asf.Renders Asf.exDist Asf.exPayloads ∧
    Asf.exLayout.Fits Asf.exPayloads (Asf.newPadding Asf.exLayout Asf.exPayloads .default) := by
  refine ⟨by decide +kernel, by decide +kernel, by decide +kernel, by decide +kernel⟩

example : (Asf.Layout.mk (Asf.exLayout.top ++ [Asf.Item.pad (zeros 600)]) Asf.exLayout.rest).OK ∧
    (Asf.Layout.mk (Asf.exLayout.top ++ [Asf.Item.pad (zeros 600)]) Asf.exLayout.rest).Fits Asf.exPayloads
      ((Asf.Layout.mk (Asf.exLayout.top ++ [Asf.Item.pad (zeros 600)]) Asf.exLayout.rest).headerLen -
        Asf.neededLen Asf.exPayloads (Asf.exLayout.top ++ [Asf.Item.pad (zeros 600)])) ∧
    Asf.neededLen Asf.exPayloads (Asf.exLayout.top ++ [Asf.Item.pad (zeros 600)]) ≤
      (Asf.Layout.mk (Asf.exLayout.top ++ [Asf.Item.pad (zeros 600)]) Asf.exLayout.rest).headerLen := by
  refine ⟨by decide +kernel, by decide +kernel, by decide +kernel⟩

end Mutagen.C09
