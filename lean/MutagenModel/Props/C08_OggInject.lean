/-
Props/C08_OggInject.lean — C08 "delete() removes the tags and nothing else" for the Ogg formats.  The
comment header is mandatory in all five codecs, so `OggFileType.delete` clears the tags and injects
what is left: the vendor string, no entries, no padding (`tags._inject(fileobj, lambda x: 0)`).
Model: Model/Container/OggInject.lean, lemmas: Proofs/Container/OggInject.lean.
-/
import MutagenModel.Proofs.Container.OggInject
import MutagenModel.Proofs.Vorbis
set_option linter.unusedVariables false
namespace Mutagen.C08
open Mutagen Mutagen.Ogg Mutagen.OggInj

/-! ## Ogg: delete = an empty comment, no padding -/

/-- `delete` is `save` of the comment "vendor string, zero entries" with a callback that answers 0 -/
theorem ogg_delete_is_save_of_empty_comment (c : Codec) (f vendor padData : Bytes) :
    delete c f vendor padData = save c f (Vorbis.encode vendor [] c.framing) padData (.callback fun _ _ => 0) := rfl

/-- the packet `delete` writes (Vorbis, Opus without preserved data, Speex, Theora): the codec prefix
and the empty comment — not one byte of padding, none of the old entries; the strict Vorbis-comment
decoder reads it (whatever follows it in a larger buffer) as that vendor string and no entries -/
theorem ogg_delete_packet (c : Codec) (hc : c ≠ .flac) (old0 vendor padData : Bytes) (hpd : c = .opus → padData = [])
    (fsize : Nat) (hv : vendor.length < 256 ^ 4) (tail : Bytes) :
    newPacket c old0 (Vorbis.encode vendor [] c.framing) padData (.callback fun _ _ => 0) fsize =
      .ok (c.commentPrefix ++ Vorbis.encode vendor [] c.framing) ∧
    Vorbis.decode (Vorbis.encode vendor [] c.framing ++ tail) c.framing = some (vendor, []) := by
  constructor
  · rw [newPacket_padded c hc old0 _ padData hpd]
    simp [getPadding, zeros]
  · exact Vorbis.decode_encode vendor [] c.framing tail hv (by decide) (by simp)

/-- Opus with preserved data keeps that data behind the empty comment (mutagen does not know what it
is); Ogg FLAC writes the block header and the empty comment -/
theorem ogg_delete_packet_special (old0 vendor padData : Bytes) (fsize : Nat) :
    (padData ≠ [] → newPacket .opus old0 (Vorbis.encode vendor [] false) padData (.callback fun _ _ => 0) fsize =
      .ok (magicOpusTags ++ Vorbis.encode vendor [] false ++ padData)) ∧
    ((Vorbis.encode vendor [] false).length ≤ 0xFFFFFF →
      newPacket .flac old0 (Vorbis.encode vendor [] false) padData (.callback fun _ _ => 0) fsize =
        .ok (old0.take 1 ++ toBE 3 (Vorbis.encode vendor [] false).length ++ Vorbis.encode vendor [] false)) :=
  ⟨fun h => newPacket_opus_preserved old0 _ padData h _ fsize, fun h => newPacket_flac old0 _ padData h _ fsize⟩

/-- delete on a well-formed layout: it succeeds; the edited stream holds the same packets with the
empty comment packet in the place of the old one; all other streams are untouched -/
theorem ogg_delete_removes_only_the_comments (c : Codec) (hc : c ≠ .flac) (L : Layout) (h : L.OK c)
    (hfresh : L.c1.continued = false) (hflags : contOK false (stream L.serial L.pages))
    (vendor padData : Bytes) (hpd : c = .opus → padData = []) (old0 : Bytes) (rest : List Bytes) (new : List Page)
    (hpk : toPackets L.oldPages false = .ok (old0 :: rest))
    (hnew : newPages c ((c.commentPrefix ++ Vorbis.encode vendor [] c.framing) :: rest) L.oldPages = .ok new)
    (hseq : L.c1.sequence + new.length + (L.post.filter (·.serial = L.serial)).length ≤ 2 ^ 32) :
    delete c L.render vendor padData = .ok (renderPages (L.after new)) ∧
    others L.serial (L.after new) = others L.serial L.pages ∧
    ∃ before behind, reasm [] (stream L.serial L.pages) = before ++ old0 :: behind ∧
      reasm [] (stream L.serial (L.after new)) = before ++ (c.commentPrefix ++ Vorbis.encode vendor [] c.framing) :: behind := by
  have hnp : newPacket c old0 (Vorbis.encode vendor [] c.framing) padData (.callback fun _ _ => 0) L.render.length =
      .ok (c.commentPrefix ++ Vorbis.encode vendor [] c.framing) := by
    rw [newPacket_padded c hc old0 _ padData hpd]
    simp [getPadding, zeros]
  exact save_spec c L h (streamOK_of_contOK c L h hfresh hflags) _ padData _ old0 _ rest new hpk hnp hnew hseq

/-- deleting again changes nothing: on a tidy layout whose comment packet is what `delete` writes
(prefix and the empty comment), `delete` returns the file byte for byte -/
theorem ogg_delete_again_unchanged (c : Codec) (hc : c ≠ .flac) (L : Layout) (h : L.OK c)
    (hfresh : L.c1.continued = false) (hflags : contOK false (stream L.serial L.pages)) (ht : L.Tidy)
    (vendor padData : Bytes) (hpd : c = .opus → padData = []) (rest : List Bytes)
    (hpk : toPackets L.oldPages false = .ok ((c.commentPrefix ++ Vorbis.encode vendor [] c.framing) :: rest)) :
    delete c L.render vendor padData = .ok L.render := by
  apply save_unchanged c hc L h (streamOK_of_contOK c L h hfresh hflags) ht _ padData _ _ rest hpk
  rw [newPacket_padded c hc _ _ padData hpd]
  simp [getPadding, zeros]

/-- non-vacuity: the empty Vorbis comment with vendor "" is the 9 bytes of the example file's comment
packet behind the prefix -/
example : Vorbis.encode [] [] true = [0, 0, 0, 0, 0, 0, 0, 0, 1] ∧
    Example.commentPacket = Codec.vorbis.commentPrefix ++ Vorbis.encode [] [] true ++ [0, 0, 0, 0] := by decide

end Mutagen.C08
