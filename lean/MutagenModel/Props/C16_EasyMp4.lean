/-
Props/C16_EasyMp4.lean — C16 for `EasyMP4Tags` (model: Model/DictEasyMp4.lean, tie:
harness/dict_tie_x.py kind `easymp4`): the Easy view is a dictionary over the registered keys,
and it stays consistent with the native `MP4Tags` it wraps.

The state of the view IS the native tags (the class has no other state), so "the view is a
function of the native tags" holds by construction; `easyMp4Abs` is that function.  What is
proved: (1) the view refines a finite map over the registered keys, keys case-insensitive,
unknown / non-`str` keys `KeyError`, `view[k] = v` then `view[k]` = what `k`'s getter makes of
what `k`'s setter makes of `v` (`easymp4_refines`, `easymp4_trace_equiv`); (2) the native
tags are what the handler says: a successful `view[k] = v` is exactly `native[atom(k)] =
setter_k(v)`, a successful `del view[k]` exactly `del native[atom(k)]`, nothing else changes
(`easymp4_set_native`, `easymp4_del_native`), and along any operation sequence every atom no
registered key owns keeps its value (`easymp4_foreign_atoms_untouched`); (3) the native
invariant (`EasyMp4Inv`: the `MP4Tags` invariant, owned atoms readable by their getters)
holds along every run, so no getter ever raises anything but `KeyError` and `keys()` never
raises (`easymp4_keys_total`).

Deviation (open finding easy-nonstr-value-AttributeError): a list value with a non-`str` item
for `tracknumber` / `discnumber` raises `AttributeError` (`easymp4_attribute_error_witness`);
the model follows the code; the refinement is not affected (the policy carries the same
error class), but "only KeyError / TypeError / ValueError" is false for this view.
-/
import MutagenModel.Proofs.DictEasyMp4
import MutagenModel.Props.C16_K
set_option linter.unusedVariables false
namespace Mutagen.C16
open Mutagen Mutagen.Dict

/-- `EasyMP4Tags` over the `MP4Tags` model refines the reference dictionary whose policy is:
a key is valid iff it is a `str` whose lower-cased form is registered (else `KeyError` on
every access), it is filed under the registered (lower-case) key; `view[k] = v` raises what
the setter of `k` or the native `__setitem__` raises, else stores what the getter of `k` reads
back from what the setter wrote.  Invariant `EasyMp4Inv`; abstraction `easyMp4Abs` (for each
registered key whose atom is present, the getter's reading, in registration order). -/
theorem easymp4_refines : KRefines easyMp4Impl easyMp4Policy EasyMp4Inv easyMp4Abs :=
  easymp4_refines_aux

/-- a fresh `EasyMP4Tags()`: every sequence of mapping operations is accepted by the reference -/
theorem easymp4_trace_equiv (ops : List (Op PKey PVal)) :
    KAccepts easyMp4Policy [] ops (easyMp4Impl.run ops []) :=
  ktrace_sim easymp4_refines_aux ops [] [] easyMp4Inv_nil (SameMap.refl _) List.nodup_nil

/-- whatever the view did to fresh tags, the native tags satisfy `EasyMp4Inv` -/
theorem easymp4_inv_along_run (ops : List (Op PKey PVal)) : EasyMp4Inv (easyMp4Impl.exec ops []) :=
  kexec_inv easymp4_refines_aux ops [] easyMp4Inv_nil

/-- under the invariant the real `keys()` (which would pass on any getter exception other than
`KeyError`) does not raise and is the total `easyMp4Keys` of the model -/
theorem easymp4_keys_total (s : Mp4) (hs : EasyMp4Inv s) : easyMp4KeysE s = .ok (easyMp4Keys s) :=
  easyKeysE_of_inv s hs

/-- CONSISTENCY, set: a successful `view[k] = v` is `native[atom] = nv` for the entry of `k`,
`nv` being what the entry's setter makes of `v` (a `str` first wrapped into a list), accepted
by the native render check; hence every other native key is as before -/
theorem easymp4_set_native (s s' : Mp4) (k : PKey) (v : PVal) (h : easyMp4Impl.setitem s k v = .ok s') :
    ∃ e nv, emEntryOf k = some e ∧ emConv e.kind (emWrapStr v) = .ok nv ∧ mp4Check (.str e.atom) nv = .ok () ∧
      s' = insert (PKey.str e.atom) nv s ∧ ∀ a, a ≠ PKey.str e.atom → lookup a s' = lookup a s := by
  obtain ⟨e, nv, h1, h2, h3, h4⟩ := easySet_native s s' k v h
  refine ⟨e, nv, h1, h2, h3, h4, ?_⟩
  intro a ha
  rw [h4, lookup_insert]
  have : ¬ PKey.str e.atom = a := fun h => ha h.symm
  simp [this]

/-- CONSISTENCY, delete: a successful `del view[k]` is `del native[atom]` -/
theorem easymp4_del_native (s s' : Mp4) (k : PKey) (h : easyMp4Impl.delitem s k = .ok s') :
    ∃ e, emEntryOf k = some e ∧ s' = erase (PKey.str e.atom) s ∧
      ∀ a, a ≠ PKey.str e.atom → lookup a s' = lookup a s := by
  obtain ⟨e, h1, h2⟩ := easyDel_native s s' k h
  refine ⟨e, h1, h2, ?_⟩
  intro a ha
  rw [h2, lookup_erase_ne _ _ _ (fun h => ha h.symm)]

/-- CONSISTENCY, whole runs: whatever sequence of mapping operations (clear, update, pop,
popitem, setdefault, … included) runs on the view, a native key that no registered key owns
keeps its value (or stays absent), from any native state -/
theorem easymp4_foreign_atoms_untouched (ops : List (Op PKey PVal)) (s : Mp4) (a : PKey)
    (ha : a ∉ easyMp4Atoms) : lookup a (easyMp4Impl.exec ops s) = lookup a s :=
  easy_foreign_untouched ops s a ha

/-- read back what was set: after a successful `view[k] = v`, `view[k]` returns exactly what
the policy says is stored (from a state satisfying the invariant) -/
theorem easymp4_set_then_get (s s' : Mp4) (k : PKey) (v : PVal) (hs : EasyMp4Inv s)
    (h : easyMp4Impl.setitem s k v = .ok s') :
    ∃ vv, easyMp4Policy.coerce k v = .ok (some vv) ∧ easyMp4Impl.getitem s' k = .ok vv := by
  obtain ⟨e, nv, h1, h2, h3, h4⟩ := easySet_native s s' k v h
  obtain ⟨vv, hvv⟩ := emRead_conv e.kind _ nv h2
  refine ⟨vv, by simp [easyMp4Policy, h1, h2, h3, hvv], ?_⟩
  subst h4
  simp [easyMp4Impl, easyMp4Get, h1, mp4Impl, mp4Get, PKey.hashable, lookupE, lookup_insert, hvv]

/-- keys are case-insensitive and anything unregistered or not `str` is a `KeyError` -/
theorem easymp4_invalid_key (s : Mp4) (k : PKey) (v d : PVal) (h : emEntryOf k = none) :
    easyMp4Impl.getitem s k = .error .key ∧ easyMp4Impl.setitem s k v = .error .key ∧
      easyMp4Impl.delitem s k = .error .key ∧ easyMp4Impl.contains s k = .ok false ∧
      easyMp4Impl.getD s k d = .ok d := by
  simp [easyMp4Impl, easyMp4Get, easyMp4Set, easyMp4Del, MapImpl.contains, MapImpl.getD, h]

/-- the deviation: `EasyMP4Tags()["tracknumber"] = [3]` raises `AttributeError` (`v.split` on
an `int`; only `ValueError` / `TypeError` are caught), and so do `None` and a tuple -/
theorem easymp4_attribute_error_witness :
    easyMp4Impl.setitem [] (.str [116, 114, 97, 99, 107, 110, 117, 109, 98, 101, 114]) (.list [.prim (.int 3)]) =
      .error .attribute ∧
    easyMp4Impl.setitem [] (.str [100, 105, 115, 99, 110, 117, 109, 98, 101, 114]) (.list [.prim .none]) =
      .error .attribute := by
  decide +kernel

/-! ### non-vacuity; the handlers on documented inputs -/

example : EasyMp4Inv [] := easyMp4Inv_nil

/-- "Title"="x" reads back ["x"] under any case; bpm clamps; tracknumber "3/70000" → "3/65535",
"7" → "7"; a freeform key round-trips through UTF-8 bytes; unknown key; keys() in registry order;
the native tags afterwards -/
example : easyMp4Impl.run
    [.set (.str [84, 105, 116, 108, 101]) (.item (.prim (.str [120]))),
     .get (.str [116, 73, 84, 76, 69]),
     .set (.str [98, 112, 109]) (.list [.prim (.str [55, 48, 48, 48, 48]), .prim (.str [45, 49])]),
     .get (.str [66, 80, 77]),
     .set (.str [116, 114, 97, 99, 107, 110, 117, 109, 98, 101, 114]) (.list [.prim (.str [51, 47, 55, 48, 48, 48, 48]), .prim (.str [55])]),
     .get (.str [116, 114, 97, 99, 107, 110, 117, 109, 98, 101, 114]),
     .set (.str [109, 117, 115, 105, 99, 105, 112, 95, 112, 117, 105, 100]) (.item (.prim (.str [233]))),
     .get (.str [109, 117, 115, 105, 99, 105, 112, 95, 112, 117, 105, 100]),
     .set (.str [110, 111]) (.item (.prim (.str [120]))),
     .set (.str [98, 112, 109]) (.item (.prim (.str [120]))),
     .keys, .del (.str [84, 73, 84, 76, 69]), .contains (.str [116, 105, 116, 108, 101]), .len] [] =
    [.unit, .val (.list [.prim (.str [120])]), .unit, .val (.list [.prim (.str [54, 53, 53, 51, 53]), .prim (.str [48])]),
     .unit, .val (.list [.prim (.str [51, 47, 54, 53, 53, 51, 53]), .prim (.str [55])]),
     .unit, .val (.list [.prim (.str [233])]), .err .key, .err .value,
     .keys [.str [116, 105, 116, 108, 101], .str [109, 117, 115, 105, 99, 105, 112, 95, 112, 117, 105, 100], .str [98, 112, 109],
            .str [116, 114, 97, 99, 107, 110, 117, 109, 98, 101, 114]],
     .unit, .bool false, .nat 3] := by decide +kernel

example : easyMp4Impl.exec
    [.set (.str [98, 112, 109]) (.list [.prim (.str [55, 48, 48, 48, 48])]),
     .set (.str [109, 117, 115, 105, 99, 105, 112, 95, 112, 117, 105, 100]) (.item (.prim (.str [233])))] [] =
    [(.str [116, 109, 112, 111], .list [.prim (.int 65535)]),
     (.str (ffPrefix ++ [77, 117, 115, 105, 99, 73, 80, 32, 80, 85, 73, 68]), .list [.prim (.bytes [195, 169])])] := by
  decide +kernel

end Mutagen.C16
