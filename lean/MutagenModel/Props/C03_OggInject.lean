/-
Props/C03_OggInject.lean — C03 "Files stay structurally valid through any edit" for the Ogg formats:
after the comment packet has been replaced (save or delete, any padding choice, any codec) the
file is again a sequence of valid pages: every page renders and is read back as it is, the checksums
are the ones RFC 3533 prescribes (the strict reader `readAll` re-renders every page and compares),
the edited stream's page numbers are gapless, its continuation flags consistent, and its first/last
flags where they were.  Model: Model/Container/OggInject.lean, lemmas: Proofs/Container/OggInject.lean.
-/
import MutagenModel.Proofs.Container.OggInject
set_option linter.unusedVariables false
namespace Mutagen.C03
open Mutagen Mutagen.Ogg Mutagen.OggInj

/-! ## Ogg: the edited file is a sequence of valid pages -/

/-- every page of the edited file (`L.after new`: what `save`/`delete` write, see C02) can be written
(at most 255 lacing values, all header fields in range) and is read back by `OggPage(fileobj)` exactly
as it is; and the strict reader — capture pattern, version 0, lacing table and data of exactly the
announced extent, the page re-rendered with the RFC 3533 checksum equal to the bytes read — reads the
whole file back into exactly these pages -/
theorem ogg_edit_pages_valid (c : Codec) (L : Layout) (h : L.OK c)
    (hfresh : L.c1.continued = false) (hflags : contOK false (stream L.serial L.pages))
    (old0 new0 : Bytes) (rest : List Bytes) (new : List Page)
    (hpk : toPackets L.oldPages false = .ok (old0 :: rest))
    (hnew : newPages c (new0 :: rest) L.oldPages = .ok new)
    (hseq : L.c1.sequence + new.length + (L.post.filter (·.serial = L.serial)).length ≤ 2 ^ 32) :
    (∀ p ∈ L.after new, Good p) ∧
      readAll ((renderPages (L.after new)).length + 1) (renderPages (L.after new)) = some (L.after new) :=
  readAll_after c L h (new0 :: rest) new
    (facts_of_edit c L h (streamOK_of_contOK c L h hfresh hflags) old0 new0 rest new hpk hnew) hseq

/-- page sequence numbers: if the edited stream's pages were numbered a, a+1, a+2, … without gaps
before, they are after — the new pages take the numbers from the first old page on, and when their
number differs from the number of old pages every later page of the stream is renumbered -/
theorem ogg_edit_sequence_gapless (c : Codec) (L : Layout) (h : L.OK c) (new : List Page) (a : Nat)
    (hin : (stream L.serial L.pages).map (·.sequence) = List.range' a (stream L.serial L.pages).length) :
    (stream L.serial (L.after new)).map (·.sequence) = List.range' a (stream L.serial (L.after new)).length :=
  seq_after c L h new a hin

/-- continuation flags: if in the edited stream a page was flagged "continued" exactly when its
predecessor left a packet open (and pages that leave a packet open carry data), the same holds
after the edit -/
theorem ogg_edit_continuation_consistent (c : Codec) (L : Layout) (h : L.OK c)
    (hfresh : L.c1.continued = false) (hflags : contOK false (stream L.serial L.pages))
    (old0 new0 : Bytes) (rest : List Bytes) (new : List Page)
    (hpk : toPackets L.oldPages false = .ok (old0 :: rest))
    (hnew : newPages c (new0 :: rest) L.oldPages = .ok new) :
    contOK false (stream L.serial (L.after new)) :=
  contOK_after c L h (new0 :: rest) new
    (facts_of_edit c L h (streamOK_of_contOK c L h hfresh hflags) old0 new0 rest new hpk hnew) hflags

/-- first/last flags: among the pages that replace the run, the first-page flag is on the first one
exactly if the run's first page had it, the last-page flag on the last one exactly if the run's last
page had it, and no other new page carries either flag — so a stream with one first and one last flag
keeps exactly one of each, however many pages the run grows or shrinks to.  (The pages outside the
run are not touched: C02.) -/
theorem ogg_edit_first_last_flags (c : Codec) (L : Layout) (h : L.OK c)
    (hfresh : L.c1.continued = false) (hflags : contOK false (stream L.serial L.pages))
    (old0 new0 : Bytes) (rest : List Bytes) (new : List Page)
    (hpk : toPackets L.oldPages false = .ok (old0 :: rest))
    (hnew : newPages c (new0 :: rest) L.oldPages = .ok new) :
    (prepare L.c1 L.cK new).map (·.first) = L.c1.first :: List.replicate (new.length - 1) false ∧
    (prepare L.c1 L.cK new).map (·.last) = List.replicate (new.length - 1) false ++ [L.cK.last] ∧
    stream L.serial (L.after new) = stream L.serial L.pre ++ prepare L.c1 L.cK new ++
      stream L.serial (if L.slots.length ≠ new.length then renum L.serial (L.c1.sequence + new.length) L.post else L.post) := by
  have hf := facts_of_edit c L h (streamOK_of_contOK c L h hfresh hflags) old0 new0 rest new hpk hnew
  exact ⟨first_prepare' _ _ _ hf.ne (fun p hp => (hf.dflt p hp).2.2.1),
    last_prepare' _ _ _ hf.ne (fun p hp => (hf.dflt p hp).2.2.2), stream_after c L h new⟩

/-- the hypotheses are those of C02 (see the examples there); the strict reader accepts the example
file as it is (five pages) -/
example : readAll ((renderPages Example.layout.pages).length + 1) (renderPages Example.layout.pages) =
    some Example.layout.pages := by
  apply readAll_pages
  · obtain ⟨g1, g2, g3, g4, g5⟩ := Example.good_all
    intro p hp
    simp [Layout.pages, Example.layout] at hp
    rcases hp with rfl | rfl | rfl | rfl | rfl <;> assumption
  · have := length_renderPages_ge Example.layout.pages; omega

end Mutagen.C03
