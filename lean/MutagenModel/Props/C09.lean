/-
Props/C09.lean — C09 "The padding callback is obeyed and existing padding is reused".
`Generated/Padding.lean` is PaddingInfo.get_default_padding translated from source on every run.
-/
import MutagenModel.Proofs.Container.Flac
import MutagenModel.Proofs.Container.Id3File
import MutagenModel.Proofs.Padding
set_option linter.unusedVariables false
namespace Mutagen.C09
open Mutagen Mutagen.Generated

/-- without a callback the result is that of a callback returning the default policy's answer -/
theorem default_equiv (padding : Int) (size : Nat) :
    getPadding .default padding size = getPadding (.callback defaultPadding) padding size := rfl

/-- the default policy never answers with a negative amount -/
theorem default_nonneg (padding : Int) (size : Nat) : 0 ≤ defaultPadding padding size :=
  defaultPadding_nonneg padding size

/-- existing padding of moderate size (≤ 10 KiB + 1 % of the data that follows) is reused as is … -/
theorem default_reuses_moderate (padding : Int) (size : Nat) (h0 : 0 ≤ padding)
    (h1 : padding ≤ 10240 + (size / 100 : Nat)) : defaultPadding padding size = padding :=
  defaultPadding_keeps padding size h0 h1

/-- … in particular an edit that fits into up to 1 KiB of padding does not resize the file -/
theorem default_reuses_1k (padding : Int) (size : Nat) (h0 : 0 ≤ padding) (h1 : padding ≤ 1024) :
    defaultPadding padding size = padding := defaultPadding_fits_small padding size h0 h1

/-- the default answer is stable: asked again about the padding it chose, it keeps it (second
and third saves do not move the file around) -/
theorem default_idempotent (padding : Int) (size : Nat) :
    defaultPadding (defaultPadding padding size) size = defaultPadding padding size :=
  defaultPadding_idempotent padding size

/-! ### FLAC -/
open Mutagen.FlacC in
/-- FLAC: the padding found in the saved file is the callback's answer capped by the 2^24−1
block limit, and the callback is handed `available − needed` (old metadata area minus the new
blocks and one padding header) and the size of the audio that follows -/
theorem flac_padding_obeyed (L : Layout) (blocks : List Block) (pad : PadChoice) :
    let kept := blocks.filter (·.code != padCode)
    let needed : Nat := (kept.map fun b => 4 + b.data.length).sum + 4
    let info_padding : Int := ((renderBlocks L.blocks).length : Int) - needed
    paddingOf (msave L blocks false pad) = min (getPadding pad info_padding L.audio.length).toNat maxSize :=
  padding_obeyed L blocks pad

open Mutagen.FlacC in
/-- FLAC: answering with the offered (non-negative, representable) padding leaves the file
length and so the offset of every audio byte unchanged -/
theorem flac_keep_is_inplace (L : Layout) (blocks : List Block) (f : Int → Nat → Int) (hf : ∀ p n, f p n = p)
    (hfit : (((blocks.filter (·.code != padCode)).map fun b => 4 + b.data.length).sum + 4 : Nat) ≤ (renderBlocks L.blocks).length)
    (hmax : (renderBlocks L.blocks).length - (((blocks.filter (·.code != padCode)).map fun b => 4 + b.data.length).sum + 4) ≤ maxSize) :
    (render (msave L blocks false (.callback f))).length = (render L).length :=
  keep_is_inplace L blocks f hf hfit hmax

/-! non-vacuity -/
example : defaultPadding 500 1000000 = 500 ∧ defaultPadding (-3) 1000000 = 2024 ∧ defaultPadding 99999 1000000 = 2024 := by decide

/-! ## free-standing ID3 files -/

/-- ID3: the callback is offered `len(old tag) - (len(frames) + 10)` and told that
`len(audio) + len(ID3v1 block)` bytes follow; the number of zero bytes between the frames and
the audio in the saved file is exactly its answer -/
theorem id3_padding_obeyed (L : Id3F.Layout) (h : L.OK) (vmaj : Nat) (hvm : vmaj = 3 ∨ vmaj = 4) (frames : Bytes)
    (cb : Int → Nat → Int) (v1opt : Nat) (blk : Bytes) (p : Nat)
    (hp : cb ((L.tag.length : Int) - (frames.length + 10 : Nat)) (L.audio.length + L.v1.length) = p)
    (hfit : frames.length + p < 2 ^ 28) :
    ∃ hd, hd.length = 10 ∧
      Id3F.save L.render vmaj frames (.callback cb) v1opt blk =
        .ok (hd ++ frames ++ zeros p ++ L.audio ++ Id3F.newV1 L.v1 v1opt blk) := by
  obtain ⟨hd, hh, hs⟩ := Id3F.save_layout L h vmaj hvm frames (.callback cb) v1opt blk p (by simpa [getPadding] using hp) hfit
  obtain ⟨a, b, c, d, h1, _⟩ := Id3F.header_ok vmaj (frames.length + p) hfit
  rw [h1] at hh; cases hh
  exact ⟨_, by simp [Id3F.magicID3], hs⟩

/-- returning the offered padding (when it is not negative) leaves the file size and the position
of the audio unchanged: the new tag is exactly as long as the old one -/
theorem id3_keep_is_inplace (L : Id3F.Layout) (h : L.OK) (vmaj : Nat) (hvm : vmaj = 3 ∨ vmaj = 4) (frames : Bytes)
    (blk : Bytes) (hroom : frames.length + 10 ≤ L.tag.length) (hfit : L.tag.length < 2 ^ 28) :
    ∃ out, Id3F.save L.render vmaj frames (.callback fun p _ => p) 1 blk = .ok out ∧
      out.length = L.render.length + ((Id3F.newV1 L.v1 1 blk).length - L.v1.length) - (L.v1.length - (Id3F.newV1 L.v1 1 blk).length) ∧
      out.drop L.tag.length = L.audio ++ Id3F.newV1 L.v1 1 blk := by
  obtain ⟨hd, hh, hs⟩ := Id3F.save_layout L h vmaj hvm frames (.callback fun p _ => p) 1 blk
    (L.tag.length - (frames.length + 10)) (by simp [getPadding]; omega) (by omega)
  obtain ⟨a, b, c, d, h1, _⟩ := Id3F.header_ok vmaj (frames.length + (L.tag.length - (frames.length + 10))) (by omega)
  rw [h1] at hh; cases hh
  refine ⟨_, hs, ?_, ?_⟩
  · simp [Id3F.magicID3, Id3F.Layout.render]; omega
  · have hl : (Id3F.magicID3 ++ [UInt8.ofNat vmaj, 0, 0] ++ [a, b, c, d] ++ frames ++
        zeros (L.tag.length - (frames.length + 10))).length = L.tag.length := by
      simp [Id3F.magicID3]; omega
    rw [List.append_assoc _ L.audio]
    exact List.drop_left' hl

end Mutagen.C09
