/-
Props/C09.lean — C09 "The padding callback is obeyed and existing padding is reused".
`Generated/Padding.lean` is PaddingInfo.get_default_padding translated from source on every run.
-/
import MutagenModel.Proofs.Container.Flac
import MutagenModel.Proofs.Container.Id3File
import MutagenModel.Proofs.Padding
import MutagenModel.Proofs.Container.Iff
set_option linter.unusedVariables false
namespace Mutagen.C09
open Mutagen Mutagen.Generated

/-- without a callback the result is that of a callback returning the default policy's answer -/
theorem default_equiv (padding : Int) (size : Nat) :
    getPadding .default padding size = getPadding (.callback defaultPadding) padding size := rfl

/-- the default policy never answers with a negative amount -/
theorem default_nonneg (padding : Int) (size : Nat) : 0 ≤ defaultPadding padding size :=
  defaultPadding_nonneg padding size

/-- existing padding of moderate size (≤ 10 KiB + 1 % of the data that follows) is reused as is … -/
theorem default_reuses_moderate (padding : Int) (size : Nat) (h0 : 0 ≤ padding)
    (h1 : padding ≤ 10240 + (size / 100 : Nat)) : defaultPadding padding size = padding :=
  defaultPadding_keeps padding size h0 h1

/-- … in particular an edit that fits into up to 1 KiB of padding does not resize the file -/
theorem default_reuses_1k (padding : Int) (size : Nat) (h0 : 0 ≤ padding) (h1 : padding ≤ 1024) :
    defaultPadding padding size = padding := defaultPadding_fits_small padding size h0 h1

/-- the default answer is stable: asked again about the padding it chose, it keeps it (second
and third saves do not move the file around) -/
theorem default_idempotent (padding : Int) (size : Nat) :
    defaultPadding (defaultPadding padding size) size = defaultPadding padding size :=
  defaultPadding_idempotent padding size

/-! ### FLAC -/
open Mutagen.FlacC in
/-- FLAC: the padding found in the saved file is the callback's answer capped by the 2^24−1
block limit, and the callback is handed `available − needed` (old metadata area minus the new
blocks and one padding header) and the size of the audio that follows -/
theorem flac_padding_obeyed (L : Layout) (blocks : List Block) (pad : PadChoice) :
    let kept := blocks.filter (·.code != padCode)
    let needed : Nat := (kept.map fun b => 4 + b.data.length).sum + 4
    let info_padding : Int := ((renderBlocks L.blocks).length : Int) - needed
    paddingOf (msave L blocks false pad) = min (getPadding pad info_padding L.audio.length).toNat maxSize :=
  padding_obeyed L blocks pad

open Mutagen.FlacC in
/-- FLAC: answering with the offered (non-negative, representable) padding leaves the file
length and so the offset of every audio byte unchanged -/
theorem flac_keep_is_inplace (L : Layout) (blocks : List Block) (f : Int → Nat → Int) (hf : ∀ p n, f p n = p)
    (hfit : (((blocks.filter (·.code != padCode)).map fun b => 4 + b.data.length).sum + 4 : Nat) ≤ (renderBlocks L.blocks).length)
    (hmax : (renderBlocks L.blocks).length - (((blocks.filter (·.code != padCode)).map fun b => 4 + b.data.length).sum + 4) ≤ maxSize) :
    (render (msave L blocks false (.callback f))).length = (render L).length :=
  keep_is_inplace L blocks f hf hfit hmax

/-! non-vacuity -/
example : defaultPadding 500 1000000 = 500 ∧ defaultPadding (-3) 1000000 = 2024 ∧ defaultPadding 99999 1000000 = 2024 := by decide

/-! ## free-standing ID3 files -/

/-- ID3: the callback is offered `len(old tag) - (len(frames) + 10)` and told that
`len(audio) + len(ID3v1 block)` bytes follow; the number of zero bytes between the frames and
the audio in the saved file is exactly its answer -/
theorem id3_padding_obeyed (L : Id3F.Layout) (h : L.OK) (vmaj : Nat) (hvm : vmaj = 3 ∨ vmaj = 4) (frames : Bytes)
    (cb : Int → Nat → Int) (v1opt : Nat) (blk : Bytes) (p : Nat)
    (hp : cb ((L.tag.length : Int) - (frames.length + 10 : Nat)) (L.audio.length + L.v1.length) = p)
    (hfit : frames.length + p < 2 ^ 28) :
    ∃ hd, hd.length = 10 ∧
      Id3F.save L.render vmaj frames (.callback cb) v1opt blk =
        .ok (hd ++ frames ++ zeros p ++ L.audio ++ Id3F.newV1 L.v1 v1opt blk) := by
  obtain ⟨hd, hh, hs⟩ := Id3F.save_layout L h vmaj hvm frames (.callback cb) v1opt blk p (by simpa [getPadding] using hp) hfit
  obtain ⟨a, b, c, d, h1, _⟩ := Id3F.header_ok vmaj (frames.length + p) hfit
  rw [h1] at hh; cases hh
  exact ⟨_, by simp [Id3F.magicID3], hs⟩

/-- returning the offered padding (when it is not negative) leaves the file size and the position
of the audio unchanged: the new tag is exactly as long as the old one -/
theorem id3_keep_is_inplace (L : Id3F.Layout) (h : L.OK) (vmaj : Nat) (hvm : vmaj = 3 ∨ vmaj = 4) (frames : Bytes)
    (blk : Bytes) (hroom : frames.length + 10 ≤ L.tag.length) (hfit : L.tag.length < 2 ^ 28) :
    ∃ out, Id3F.save L.render vmaj frames (.callback fun p _ => p) 1 blk = .ok out ∧
      out.length = L.render.length + ((Id3F.newV1 L.v1 1 blk).length - L.v1.length) - (L.v1.length - (Id3F.newV1 L.v1 1 blk).length) ∧
      out.drop L.tag.length = L.audio ++ Id3F.newV1 L.v1 1 blk := by
  obtain ⟨hd, hh, hs⟩ := Id3F.save_layout L h vmaj hvm frames (.callback fun p _ => p) 1 blk
    (L.tag.length - (frames.length + 10)) (by simp [getPadding]; omega) (by omega)
  obtain ⟨a, b, c, d, h1, _⟩ := Id3F.header_ok vmaj (frames.length + (L.tag.length - (frames.length + 10))) (by omega)
  rw [h1] at hh; cases hh
  refine ⟨_, hs, ?_, ?_⟩
  · simp [Id3F.magicID3, Id3F.Layout.render]; omega
  · have hl : (Id3F.magicID3 ++ [UInt8.ofNat vmaj, 0, 0] ++ [a, b, c, d] ++ frames ++
        zeros (L.tag.length - (frames.length + 10))).length = L.tag.length := by
      simp [Id3F.magicID3]; omega
    rw [List.append_assoc _ L.audio]
    exact List.drop_left' hl

/-! ## IFF-style chunk files (AIFF, WAVE, DSDIFF) -/

/-- IFF: the callback is offered `chunk.data_size - (len(frames) + 10)` (`oldLen`: the data size of
the existing ID3 chunk, 0 for a chunk just inserted) and told how many bytes follow the chunk data in
the file (`trailing`: the chunk's pad byte and the later chunks); the ID3 chunk of the saved file
holds a 10-byte header, the frames and exactly as many zero bytes as it answered -/
theorem iff_padding_obeyed (d : Iff.Dialect) (hd : d.WF) (L : Iff.Layout) (h : L.OK d) (vmaj : Nat)
    (hvm : vmaj = 3 ∨ vmaj = 4) (frames : Bytes) (cb : Int → Nat → Int) (p : Nat)
    (hp : cb ((L.oldLen : Int) - (frames.length + 10 : Nat)) (L.trailing d) = p)
    (hfit : frames.length + p < 2 ^ 28) (hroot : 4 + L.newExtent d (10 + frames.length + p) < 256 ^ d.sizeW) :
    ∃ hdr, hdr.length = 10 ∧
      Iff.save d (L.render d) vmaj frames (.callback cb) =
        .ok (Iff.renderFile d L.formType (L.before ++ Iff.tagChunk (L.id3Id d) (hdr ++ frames ++ zeros p) :: L.after)) := by
  obtain ⟨hdr, h1, h2, h3⟩ := Iff.save_layout d hd L h vmaj hvm frames (.callback cb) p (by simpa [getPadding] using hp) hfit hroot
  refine ⟨hdr, h2, ?_⟩
  rw [h3]
  simp [Iff.Layout.render, Iff.Layout.withTag, Iff.Layout.chunks]

/-- a callback that answers with a negative number makes the save fail (MutagenError) -/
theorem iff_negative_padding_refused (d : Iff.Dialect) (hd : d.WF) (L : Iff.Layout) (h : L.OK d) (c : Iff.Chunk) (hc : L.id3 = some c)
    (vmaj : Nat) (hvm : vmaj = 3 ∨ vmaj = 4) (frames : Bytes) (cb : Int → Nat → Int)
    (hneg : cb ((c.data.length : Int) - (frames.length + 10 : Nat)) (c.pad.length + (Iff.renderChunks d L.after).length) < 0) :
    Iff.save d (L.render d) vmaj frames (.callback cb) = .error .mutagen := by
  have hcs := Iff.chunks_some L c hc
  have hc' := h.id3 c hc
  have hall : ∀ x ∈ L.before ++ c :: L.after, x.OK d := by
    intro x hx
    simp only [List.mem_append, List.mem_cons] at hx
    rcases hx with hx | rfl | hx
    · exact (h.before x hx).1
    · exact hc'.1
    · exact h.after x hx
  have hlen := Iff.length_renderFile d hd L.formType (L.before ++ c :: L.after)
  have hsp := Iff.length_chunks_split d L.before c L.after hc'.1.1.1
  unfold Iff.save
  rw [Iff.Layout.render, hcs, Iff.parseRoot_render d hd _ h.name _ (by rw [h.name.1, ← hcs]; exact h.size)]
  simp only []
  rw [Iff.walk_render d hd _ h.name.1 _ hall]
  simp only []
  rw [Iff.find_first d d.loadIds _ L.before c L.after (fun x hx => (h.before x hx).2) hc'.2]
  simp only [Iff.recOf]
  unfold Iff.saveAt
  have h0 : ¬ (vmaj ≠ 3 ∧ vmaj ≠ 4) := by omega
  simp only []
  rw [if_neg h0]
  have htr : ((Iff.renderFile d L.formType (L.before ++ c :: L.after)).length : Int) -
      ((Iff.hs d + 4 + (Iff.renderChunks d L.before).length + Iff.hs d : Nat) : Int) - (c.data.length : Int) =
      ((c.pad.length + (Iff.renderChunks d L.after).length : Nat) : Int) := by
    rw [hlen, hsp, h.name.1]; omega
  rw [htr]
  have h1 : ¬ (((c.pad.length + (Iff.renderChunks d L.after).length : Nat) : Int) < 0) := by omega
  rw [if_neg h1]
  simp only [Int.toNat_natCast, getPadding]
  exact if_pos hneg

/-- answering with the offered padding (when the new frames fit into the existing chunk) is an in-place
save: the file keeps its length, everything in front of the ID3 chunk's data — root header with its
size field, form type, the chunks before, the chunk's own header — and everything behind its pad
byte keeps its bytes and its position -/
theorem iff_keep_is_inplace (d : Iff.Dialect) (hd : d.WF) (L : Iff.Layout) (h : L.OK d) (c : Iff.Chunk) (hc : L.id3 = some c)
    (vmaj : Nat) (hvm : vmaj = 3 ∨ vmaj = 4) (frames : Bytes)
    (hroom : frames.length + 10 ≤ c.data.length) (hfit : c.data.length < 2 ^ 28) :
    let dataOff := Iff.hs d + 4 + (Iff.renderChunks d L.before).length + Iff.hs d
    ∃ out, Iff.save d (L.render d) vmaj frames (.callback fun p _ => p) = .ok out ∧
      out.length = (L.render d).length ∧ out.take dataOff = (L.render d).take dataOff ∧
      out.drop (dataOff + (c.data.length + c.data.length % 2)) = (L.render d).drop (dataOff + (c.data.length + c.data.length % 2)) := by
  have hc' := h.id3 c hc
  have hcs := Iff.chunks_some L c hc
  have hN : 10 + frames.length + (c.data.length - (frames.length + 10)) = c.data.length := by omega
  have hsz := h.size
  rw [hcs, Iff.length_chunks_split d L.before c L.after hc'.1.1.1, hc'.1.2] at hsz
  obtain ⟨hdr, h1, h2, h3⟩ := Iff.save_layout d hd L h vmaj hvm frames (.callback fun p _ => p) (c.data.length - (frames.length + 10))
    (by simp [getPadding, Iff.Layout.oldLen, hc]; omega) (by omega)
    (by rw [hN]; unfold Iff.Layout.newExtent; omega)
  have hl : (hdr ++ frames ++ zeros (c.data.length - (frames.length + 10))).length = c.data.length := by simp [h2]; omega
  have := Iff.same_size_inplace d hd L.formType h.name.1 L.before L.after c
    (Iff.tagChunk c.id (hdr ++ frames ++ zeros (c.data.length - (frames.length + 10)))) hc'.1.1.1 rfl hl hc'.1.2 (by simp [Iff.tagChunk])
  simp only [] at this ⊢
  refine ⟨_, h3, ?_⟩
  have e : (L.withTag d (hdr ++ frames ++ zeros (c.data.length - (frames.length + 10)))).render d =
      Iff.renderFile d L.formType (L.before ++ Iff.tagChunk c.id (hdr ++ frames ++ zeros (c.data.length - (frames.length + 10))) :: L.after) := by
    simp [Iff.Layout.render, Iff.Layout.withTag, Iff.Layout.chunks, Iff.Layout.id3Id, hc]
  rw [e, Iff.Layout.render, hcs]
  exact this

/-- non-vacuity: with the default policy an AIFF ID3 chunk of 1000 bytes followed by 50000 bytes of
other chunks keeps the 490 bytes left over by 500 bytes of frames; a chunk that is too small gets 1 KiB
plus 0.1 % of what follows -/
example : getPadding .default ((1000 : Int) - (500 + 10 : Nat)) 50000 = (490 : Nat) ∧
    getPadding .default ((100 : Int) - (500 + 10 : Nat)) 50000 = (1074 : Nat) := by decide

end Mutagen.C09
