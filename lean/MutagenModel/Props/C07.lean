/-
Props/C07.lean — C07 "Saving unchanged tags is lossless and idempotent".
-/
import MutagenModel.Proofs.Container.Flac
import MutagenModel.Proofs.Container.ApeFile
import MutagenModel.Proofs.Container.Id3File
import MutagenModel.Proofs.Padding
import MutagenModel.Proofs.TagOrder
set_option linter.unusedVariables false
namespace Mutagen.C07
open Mutagen Mutagen.FlacC Mutagen.Generated

/-- FLAC: saving what was just saved (default padding policy) changes nothing — the second
save is the identity on the layout, hence on the bytes -/
theorem flac_resave_idempotent (L : Layout) (blocks : List Block)
    (hmax : defaultPadding (((renderBlocks L.blocks).length : Int) -
        ((((blocks.filter (·.code != padCode)).map fun b => 4 + b.data.length).sum + 4 : Nat) : Int)) L.audio.length ≤ maxSize) :
    let L1 := msave L blocks false .default
    msave L1 L1.blocks false .default = L1 :=
  resave_idempotent L blocks hmax

/-- FLAC: an unchanged save keeps every block that is not padding, in order and byte-identical
(blocks mutagen cannot interpret are carried as their raw payload) -/
theorem flac_resave_lossless (L : Layout) (pad : PadChoice) :
    (msave L L.blocks false pad).blocks.filter (·.code != padCode) = L.blocks.filter (·.code != padCode) := by
  simp only [msave, newBlocks]
  apply filter_pad_newBlocks
  · intro b hb; simpa using (List.mem_filter.mp hb).2
  · rfl

/-! ## insertion order (ID3, APEv2) -/

open Mutagen.TagOrder in
/-- APEv2: the item bytes written depend only on the set of items, not on the order in which
the keys were inserted: any two orderings (permutations) of the same items give the same
bytes.  No hypothesis: the sort key `(len(encoded), encoded)` is the item itself. -/
theorem ape_order_independent (items₁ items₂ : List Ape.Item) (h : items₁.Perm items₂) :
    apeBody items₁ = apeBody items₂ := by
  unfold apeBody
  rw [mergeSort_perm_eq apeLe _ _ apeLe_trans apeLe_total
    (fun a b _ _ => apeLe_antisymm a b) (h.map Ape.encodeItem)]

open Mutagen.TagOrder in
/-- ID3: the frame bytes written depend only on the set of frames, given that hash keys
identify frames (they are the keys of the tag dictionary): the sort key
`(priority, len(data), HashKey)` is total and ties are impossible. -/
theorem id3_order_independent (frames₁ frames₂ : List Frame) (h : frames₁.Perm frames₂)
    (huniq : ∀ a b, a ∈ frames₁ → b ∈ frames₁ → a.hashKey = b.hashKey → a = b) :
    id3Body frames₁ = id3Body frames₂ := by
  unfold id3Body
  rw [mergeSort_perm_eq frameLe _ _ frameLe_trans frameLe_total
    (fun a b ha hb hab hba => huniq a b ha hb (frameLe_antisymm_key a b hab hba)) h]

open Mutagen.TagOrder in
/-- the uniqueness hypothesis is needed: two frames with equal priority, size and hash key but
different bytes are written in insertion order (cannot happen in a dictionary keyed by HashKey) -/
example : id3Body [⟨7, [1], [65]⟩, ⟨7, [2], [65]⟩] ≠ id3Body [⟨7, [2], [65]⟩, ⟨7, [1], [65]⟩] := by
  simp [id3Body, List.mergeSort, List.MergeSort.Internal.splitInTwo, frameLe, lexLe]

open Mutagen.TagOrder in
example : apeBody [⟨[84], 0, [97]⟩, ⟨[65], 0, [98, 99]⟩] = apeBody [⟨[65], 0, [98, 99]⟩, ⟨[84], 0, [97]⟩] := by
  simp [apeBody, List.mergeSort, List.MergeSort.Internal.splitInTwo, apeLe, lexLe, Ape.encodeItem, toLE, bytesNat]

/-! ## free-standing ID3 files -/

/-- ID3: saving the same frames a second time under the default padding policy gives the same file,
when the ID3v1 block keeps its length (so the amount of data behind the tag, which the policy looks
at, is the same): the first save's answer `p` is a fixed point of the policy -/
theorem id3_resave_idempotent (L : Id3F.Layout) (h : L.OK) (vmaj : Nat) (hvm : vmaj = 3 ∨ vmaj = 4) (frames : Bytes)
    (v1opt : Nat) (blk : Bytes) (p : Nat)
    (hp : Generated.defaultPadding ((L.tag.length : Int) - (frames.length + 10 : Nat)) (L.audio.length + L.v1.length) = p)
    (hfit : frames.length + p < 2 ^ 28)
    (hv1len : (Id3F.newV1 L.v1 v1opt blk).length = L.v1.length) (hblk : blk ≠ [])
    (hv1 : Id3F.V1OK L.audio (Id3F.newV1 L.v1 v1opt blk)) :
    ∃ out, Id3F.save L.render vmaj frames .default v1opt blk = .ok out ∧
      Id3F.save out vmaj frames .default v1opt blk = .ok out := by
  obtain ⟨hd, hh, hs⟩ := Id3F.save_layout L h vmaj hvm frames .default v1opt blk p (by simpa [getPadding] using hp) hfit
  refine ⟨_, hs, ?_⟩
  obtain ⟨a, b, c, d, h1, _⟩ := Id3F.header_ok vmaj (frames.length + p) hfit
  have hhd : hd = Id3F.magicID3 ++ [UInt8.ofNat vmaj, 0, 0] ++ [a, b, c, d] := by rw [h1] at hh; cases hh; rfl
  -- the saved file as a layout
  let L1 : Id3F.Layout := ⟨hd ++ (frames ++ zeros p), L.audio, Id3F.newV1 L.v1 v1opt blk⟩
  have hL1 : L1.OK := by
    refine ⟨Or.inr ⟨vmaj, hd, frames ++ zeros p, by omega, by simpa using hfit, by simpa using hh, rfl⟩, ?_, hv1⟩
    intro ht
    have : (hd ++ (frames ++ zeros p)) ≠ [] := by rw [hhd]; simp [Id3F.magicID3]
    exact absurd ht this
  have hlen1 : L1.tag.length = frames.length + p + 10 := by
    show (hd ++ (frames ++ zeros p)).length = _
    rw [hhd]; simp [Id3F.magicID3]
  have hp2 : getPadding .default ((L1.tag.length : Int) - (frames.length + 10 : Nat)) (L1.audio.length + L1.v1.length) = p := by
    show Generated.defaultPadding _ _ = _
    rw [hlen1]
    have e : ((frames.length + p + 10 : Nat) : Int) - ((frames.length + 10 : Nat) : Int) = (p : Int) := by omega
    have e2 : L1.audio.length + L1.v1.length = L.audio.length + L.v1.length := by
      show L.audio.length + (Id3F.newV1 L.v1 v1opt blk).length = _
      rw [hv1len]
    rw [e, e2, ← hp]
    exact defaultPadding_idempotent _ _
  obtain ⟨hd2, hh2, hs2⟩ := Id3F.save_layout L1 hL1 vmaj hvm frames .default v1opt blk p hp2 hfit
  have hrender : L1.render = hd ++ frames ++ zeros p ++ L.audio ++ Id3F.newV1 L.v1 v1opt blk := by
    simp [Id3F.Layout.render, L1, List.append_assoc]
  rw [← hrender, hs2]
  have hd2eq : hd2 = hd := by rw [hh] at hh2; cases hh2; rfl
  rw [hd2eq]
  have hnv : Id3F.newV1 (Id3F.newV1 L.v1 v1opt blk) v1opt blk = Id3F.newV1 L.v1 v1opt blk := by
    unfold Id3F.newV1
    by_cases hc : (v1opt = 1 ∧ L.v1 ≠ []) ∨ v1opt = 2
    · simp only [hc, ↓reduceIte]
      rcases hc with ⟨h1, _⟩ | h2
      · simp [h1, hblk]
      · simp [h2]
    · simp only [hc, ↓reduceIte]
      have h2 : ¬ v1opt = 2 := fun e => hc (Or.inr e)
      simp [h2]
  rw [show L1.audio = L.audio from rfl, show L1.v1 = Id3F.newV1 L.v1 v1opt blk from rfl, hnv, hrender]

/-! ## APEv2-tagged files -/

/-- APEv2: saving the same items again gives the same file (the tag is found where it was written
and replaced by identical bytes) -/
theorem ape_resave_idempotent (audio : Bytes) (items : List Ape.Item)
    (hs : ((items.map Ape.encodeItem).flatten).length + 32 < 256 ^ 4) (ha : ApeF.AudioOK audio (Ape.encodeTag items)) :
    ApeF.save (audio ++ Ape.encodeTag items) (Ape.encodeTag items) = .ok (audio ++ Ape.encodeTag items) :=
  ApeF.save_over_tag audio items _ hs ha

end Mutagen.C07
