/-
Props/C07.lean — C07 "Saving unchanged tags is lossless and idempotent".
-/
import MutagenModel.Proofs.Container.Flac
import MutagenModel.Proofs.TagOrder
set_option linter.unusedVariables false
namespace Mutagen.C07
open Mutagen Mutagen.FlacC Mutagen.Generated

/-- FLAC: saving what was just saved (default padding policy) changes nothing — the second
save is the identity on the layout, hence on the bytes -/
theorem flac_resave_idempotent (L : Layout) (blocks : List Block)
    (hmax : defaultPadding (((renderBlocks L.blocks).length : Int) -
        ((((blocks.filter (·.code != padCode)).map fun b => 4 + b.data.length).sum + 4 : Nat) : Int)) L.audio.length ≤ maxSize) :
    let L1 := msave L blocks false .default
    msave L1 L1.blocks false .default = L1 :=
  resave_idempotent L blocks hmax

/-- FLAC: an unchanged save keeps every block that is not padding, in order and byte-identical
(blocks mutagen cannot interpret are carried as their raw payload) -/
theorem flac_resave_lossless (L : Layout) (pad : PadChoice) :
    (msave L L.blocks false pad).blocks.filter (·.code != padCode) = L.blocks.filter (·.code != padCode) := by
  simp only [msave, newBlocks]
  apply filter_pad_newBlocks
  · intro b hb; simpa using (List.mem_filter.mp hb).2
  · rfl

/-! ## insertion order (ID3, APEv2) -/

open Mutagen.TagOrder in
/-- APEv2: the item bytes written depend only on the set of items, not on the order in which
the keys were inserted: any two orderings (permutations) of the same items give the same
bytes.  No hypothesis: the sort key `(len(encoded), encoded)` is the item itself. -/
theorem ape_order_independent (items₁ items₂ : List Ape.Item) (h : items₁.Perm items₂) :
    apeBody items₁ = apeBody items₂ := by
  unfold apeBody
  rw [mergeSort_perm_eq apeLe _ _ apeLe_trans apeLe_total
    (fun a b _ _ => apeLe_antisymm a b) (h.map Ape.encodeItem)]

open Mutagen.TagOrder in
/-- ID3: the frame bytes written depend only on the set of frames, given that hash keys
identify frames (they are the keys of the tag dictionary): the sort key
`(priority, len(data), HashKey)` is total and ties are impossible. -/
theorem id3_order_independent (frames₁ frames₂ : List Frame) (h : frames₁.Perm frames₂)
    (huniq : ∀ a b, a ∈ frames₁ → b ∈ frames₁ → a.hashKey = b.hashKey → a = b) :
    id3Body frames₁ = id3Body frames₂ := by
  unfold id3Body
  rw [mergeSort_perm_eq frameLe _ _ frameLe_trans frameLe_total
    (fun a b ha hb hab hba => huniq a b ha hb (frameLe_antisymm_key a b hab hba)) h]

open Mutagen.TagOrder in
/-- the uniqueness hypothesis is needed: two frames with equal priority, size and hash key but
different bytes are written in insertion order (cannot happen in a dictionary keyed by HashKey) -/
example : id3Body [⟨7, [1], [65]⟩, ⟨7, [2], [65]⟩] ≠ id3Body [⟨7, [2], [65]⟩, ⟨7, [1], [65]⟩] := by
  simp [id3Body, List.mergeSort, List.MergeSort.Internal.splitInTwo, frameLe, lexLe]

open Mutagen.TagOrder in
example : apeBody [⟨[84], 0, [97]⟩, ⟨[65], 0, [98, 99]⟩] = apeBody [⟨[65], 0, [98, 99]⟩, ⟨[84], 0, [97]⟩] := by
  simp [apeBody, List.mergeSort, List.MergeSort.Internal.splitInTwo, apeLe, lexLe, Ape.encodeItem, toLE, bytesNat]

end Mutagen.C07
