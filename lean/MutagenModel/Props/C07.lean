/-
Props/C07.lean — C07 "Saving unchanged tags is lossless and idempotent".
-/
import MutagenModel.Proofs.Container.Flac
set_option linter.unusedVariables false
namespace Mutagen.C07
open Mutagen Mutagen.FlacC Mutagen.Generated

/-- FLAC: saving what was just saved (default padding policy) changes nothing — the second
save is the identity on the layout, hence on the bytes -/
theorem flac_resave_idempotent (L : Layout) (blocks : List Block)
    (hmax : defaultPadding (((renderBlocks L.blocks).length : Int) -
        ((((blocks.filter (·.code != padCode)).map fun b => 4 + b.data.length).sum + 4 : Nat) : Int)) L.audio.length ≤ maxSize) :
    let L1 := msave L blocks false .default
    msave L1 L1.blocks false .default = L1 :=
  resave_idempotent L blocks hmax

/-- FLAC: an unchanged save keeps every block that is not padding, in order and byte-identical
(blocks mutagen cannot interpret are carried as their raw payload) -/
theorem flac_resave_lossless (L : Layout) (pad : PadChoice) :
    (msave L L.blocks false pad).blocks.filter (·.code != padCode) = L.blocks.filter (·.code != padCode) := by
  simp only [msave, newBlocks]
  apply filter_pad_newBlocks
  · intro b hb; simpa using (List.mem_filter.mp hb).2
  · rfl

end Mutagen.C07
