/-
Props/C15.lean — C15 "Ogg paging: packets in, same packets out, valid pages".
Property theorems only; lemmas in Proofs/Ogg*.lean.
-/
import MutagenModel.Proofs.OggLimits
import MutagenModel.Proofs.OggParse
import MutagenModel.Generated.Consts
set_option linter.unusedVariables false
namespace Mutagen.C15
open Mutagen Mutagen.Ogg

/-- Splitting any packet list into pages and reassembling gives the packets back — for every
page-filling policy, every chunk size > 0, every wiggle room and start sequence. -/
theorem packets_roundtrip (pol : Policy) (chunk wiggle : Nat) (hc : 0 < chunk) (seq : Nat)
    (ps : List Bytes) : reasm [] (fromPacketsWith pol chunk wiggle hc seq ps) = ps :=
  reasm_fromPackets pol chunk wiggle hc seq ps

theorem outer_cur_ne (pol : Policy) (chunk wiggle : Nat) (hc : 0 < chunk) (s : St) (ps : List Bytes)
    (built : List Bytes) (hI : Inv s built) (h : s.cur.packets ≠ [] ∨ ps ≠ []) :
    (outer pol chunk wiggle hc s ps).cur.packets ≠ [] := by
  induction ps generalizing s built with
  | nil => simpa [outer] using h
  | cons p ps ih =>
    simp only [outer]
    have hf : Inv (if pol.pre s.cur = true ∧ s.cur.packets ≠ [] then
        ({ done := s.done ++ [s.cur], cur := { sequence := s.cur.sequence + 1 } } : St) else s) built := by
      split
      · exact hI.flush
      · exact hI
    have h1 := inner_inv pol chunk wiggle hc _ p _ hf.push (by simp)
    exact ih _ _ h1.1 (Or.inl h1.2)

/-- pages of `fromPacketsWith`, as facts: consecutive sequence numbers from `seq`, serial 0,
consistent continuation flags (first page not continued; a page is continued iff its
predecessor is incomplete; an incomplete page carries data), last page complete -/
theorem pages_bookkeeping (pol : Policy) (chunk wiggle : Nat) (hc : 0 < chunk) (seq : Nat) (ps : List Bytes) :
    let pages := fromPacketsWith pol chunk wiggle hc seq ps
    pages.map (·.sequence) = List.range' seq pages.length ∧ (∀ p ∈ pages, p.serial = 0) ∧
    contOK false pages ∧ (∀ p, pages.getLast? = some p → p.complete = true) := by
  have h2 := outer_inv2 pol chunk wiggle hc seq _ ps (init_inv2 seq)
  simp only [fromPacketsWith]
  split
  · rename_i he
    have h0 : Inv { done := [], cur := { sequence := seq } } [] := ⟨rfl, fun h => by simp at h, rfl⟩
    have hps : ps = [] := by
      cases ps with
      | nil => rfl
      | cons p r => exact absurd he (outer_cur_ne pol chunk wiggle hc _ _ [] h0 (Or.inr (by simp)))
    subst hps
    simp [outer, contOK]
  · have hs := h2.seqs
    refine ⟨by simpa using hs, h2.ser, h2.chain, ?_⟩
    intro p hp
    simp only [List.getLast?_append, List.getLast?_singleton, Option.some_or, Option.some.injEq] at hp
    rw [← hp]; exact h2.compl

/-- to_packets (with its serial/sequence checks, strict or not) inverts from_packets — with the
code's policy and the code's parameters (`255 ≤ default_size`, else from_packets does not
terminate) -/
theorem to_packets_from_packets (ps : List Bytes) (seq D wiggle : Nat) (hD : 255 ≤ D) (strict : Bool) :
    ∃ pages, fromPackets policy ps seq D wiggle = .ok pages ∧ toPackets pages strict = .ok ps := by
  have hc : 0 < D / 255 * 255 := by
    have : 1 ≤ D / 255 := (Nat.le_div_iff_mul_le (by decide)).mpr (by omega)
    omega
  refine ⟨fromPacketsWith (policy D) (D / 255 * 255) wiggle hc seq ps, by simp [fromPackets, hc], ?_⟩
  obtain ⟨hseq, hser, hcont, hlast⟩ := pages_bookkeeping (policy D) (D / 255 * 255) wiggle hc seq ps
  have hre := packets_roundtrip (policy D) (D / 255 * 255) wiggle hc seq ps
  generalize fromPacketsWith (policy D) (D / 255 * 255) wiggle hc seq ps = pages at *
  cases pages with
  | nil => simp [reasm] at hre; simp [toPackets, hre]
  | cons p0 rest =>
    have hc0 : p0.continued = false := hcont.1
    have hl : ((p0 :: rest).getLast?.map (·.complete)).getD true = true := by
      cases hg : (p0 :: rest).getLast? with
      | none => simp
      | some q => simp [hlast q hg]
    have hser0 : ∀ p ∈ p0 :: rest, p.serial = p0.serial := by
      intro p hp; rw [hser p hp, hser p0 (List.mem_cons_self)]
    have hseq0 : (p0 :: rest).map (·.sequence) = List.range' p0.sequence (p0 :: rest).length := by
      have : p0.sequence = seq := by simpa [List.range'] using (List.cons.inj hseq).1
      rw [this]; exact hseq
    have := toPacketsLoop_eq p0.serial (p0 :: rest) p0.sequence [] false hser0 hseq0 hcont (by simp)
    simp only [toPackets, hc0, Bool.and_false, Bool.false_eq_true, ↓reduceIte, hl, Bool.not_true, this, hre]

/-- every page produced respects the Ogg limit of 255 lacing values (hence can be rendered) —
for the code's policy and `255 ≤ default_size ≤ 65024` -/
theorem page_limits (ps : List Bytes) (seq D wiggle : Nat) (hD : 255 ≤ D) (hD2 : D ≤ 65024) :
    ∃ pages, fromPackets policy ps seq D wiggle = .ok pages ∧ ∀ p ∈ pages, p.lacing.length ≤ 255 := by
  have hc : 0 < D / 255 * 255 := by
    have : 1 ≤ D / 255 := (Nat.le_div_iff_mul_le (by decide)).mpr (by omega)
    omega
  have hch : D / 255 * 255 ≤ 64770 := by
    have : D / 255 ≤ 254 := by
      apply Nat.le_of_lt_succ
      exact (Nat.div_lt_iff_lt_mul (by decide)).mpr (by omega)
    omega
  refine ⟨fromPacketsWith (policy D) (D / 255 * 255) wiggle hc seq ps, by simp [fromPackets, hc], ?_⟩
  have h3 := outer_inv3 D (D / 255 * 255) wiggle hc hch { done := [], cur := { sequence := seq } } ps
    ⟨by simp, by simp⟩
  intro p hp
  apply Nat.le_trans (lacing_length_le p)
  simp only [fromPacketsWith] at hp
  split at hp
  · exact h3.done p hp
  · rcases List.mem_append.mp hp with hp | hp
    · exact h3.done p hp
    · simp only [List.mem_singleton] at hp; subst hp; exact h3.cur

/-- the defaults in the source (regenerated on every run) are inside the parameter domain -/
theorem default_parameters_ok :
    255 ≤ Generated.oggDefaultSize ∧ Generated.oggDefaultSize ≤ 65024 := by decide

theorem length_toLE (w n : Nat) : (toLE w n).length = w := by
  induction w generalizing n with
  | zero => rfl
  | succ w ih => simp [toLE, ih]

/-- `OggPage.size` equals the length of the rendered page -/
theorem size_eq_render_length (p : Page) (b : Bytes) (h : p.render = .ok b) : b.length = p.size := by
  unfold Page.render at h
  split at h
  · simp at h
  · split at h
    · simp at h
    · simp only [Except.ok.injEq] at h
      subst h
      simp only [Page.renderWith, Page.size, List.length_append, List.length_cons, List.length_nil,
        toSignedLE, length_toLE, List.length_map, List.length_flatten]

/-! non-vacuity -/
example : (fromPackets policy [[1, 2, 3], [], [4]] 7 4096 2048).map (·.length) = .ok 1 := by
  decide +kernel
example : toPackets [] true = .ok [] := by decide

/-- what `OggPage.write()` produced — followed by anything — is read back by `OggPage(fileobj)` as the
same page, field for field (packets, complete/continued/first/last flags, sequence, serial, granule
position), leaving the rest: for every page with version 0 whose fields fit the header and which is
`Canon` (complete, or incomplete with a last packet of 255·m bytes — the only incomplete pages
`from_packets` builds) -/
theorem page_parse_render (p : Page) (b rest : Bytes) (hr : p.render = .ok b) (hv : p.version = 0)
    (hhi : p.flagsHi < 32) (hc : Canon p) : parse (b ++ rest) = .ok (p, rest) :=
  parse_render p b rest hr hv hhi hc

/-- the condition `Canon` cannot be dropped: an incomplete page whose last packet is not a multiple
of 255 bytes long is read back as complete -/
example : ∃ b, ({ packets := [[1, 2, 3]], complete := false } : Page).render = .ok b ∧
    (match parse b with | .ok (q, _) => q.complete | .error _ => false) = true := by
  refine ⟨_, rfl, ?_⟩
  decide +kernel

end Mutagen.C15
