/-
Props/C04_FlacBlocks.lean — C04 "no exception other than MutagenError escapes" for loading the FLAC metadata block
classes (Model/FlacBlocks.lean) from ANY byte string: `Picture(data)`, `SeekTable(data)`, `CueSheet(data)`,
`Padding(data)`, `MetadataBlock(data)`, and the dispatch of `FLAC.__read_metadata_block` over them.
Writing is a different matter: values that do not fit their field raise `struct.error` (and text with surrogates
UnicodeEncodeError) from `write()` — values the caller supplied (examples at the end).
-/
import MutagenModel.Proofs.FlacBlocks
set_option linter.unusedVariables false
namespace Mutagen.C04
open Mutagen Mutagen.FlacB

/-- `Picture(data)`: a picture or `error` ("file said n bytes, read m bytes"), for every byte string: the three length
fields can claim anything -/
theorem picture_load_total (b : Bytes) (e : PyErr) (h : loadPicture b = .error e) : e = .mutagen := loadPicture_total b e h
theorem picture_stream_load_total (b : Bytes) (e : PyErr) (h : loadPictureS b = .error e) : e = .mutagen := loadPictureS_total b e h

/-- `SeekTable(data)` never raises -/
theorem seektable_load_total (b : Bytes) : ∃ l, loadSeekTable b = .ok l := ⟨_, rfl⟩

/-- `CueSheet(data)`: a cue sheet or `error`; the track and index counts can claim anything -/
theorem cuesheet_load_total (b : Bytes) (e : PyErr) (h : loadCueSheet b = .error e) : e = .mutagen := loadCueSheet_total b e h

theorem padding_load_total (b : Bytes) : ∃ n, loadPadding b = .ok n := ⟨_, rfl⟩
theorem generic_load_total (b : Bytes) : ∃ d, loadGeneric b = .ok d := ⟨_, rfl⟩

/-- the dispatch of `__read_metadata_block` for every block code but 0 and 4, every declared size and every rest of the
file: a block body and the position behind it, or `error` -/
theorem block_body_load_total (code size : Nat) (hc : code ≠ 0 ∧ code ≠ 4) (s : Bytes) (e : PyErr)
    (h : loadBody code size s = .error e) : e = .mutagen := by
  unfold loadBody at h
  rw [if_neg (by omega)] at h
  split at h
  · exact ((loadPictureS_total s).bnd fun _ => OnlyM.ok _) e h
  · refine ((OnlyM.rd size s).bnd fun d => ?_) e h
    split
    · exact (OnlyM.ok _ : OnlyM (loadPadding d.1)).bnd fun _ => OnlyM.ok _
    · split
      · exact (loadSeekTable_total _).bnd fun _ => OnlyM.ok _
      · split
        · exact (loadCueSheet_total _).bnd fun _ => OnlyM.ok _
        · exact (OnlyM.ok _ : OnlyM (loadGeneric d.1)).bnd fun _ => OnlyM.ok _

/-! ### damaged payloads, one per error path -/
/-- a picture whose MIME length points beyond the data; one whose data length does; an empty payload -/
example : loadPicture [0, 0, 0, 3, 0xFF, 0xFF, 0xFF, 0xFF, 0x41] = .error .mutagen ∧
    loadPicture ([0, 0, 0, 3, 0, 0, 0, 0, 0, 0, 0, 0] ++ List.replicate 16 0 ++ [0, 0, 0, 5, 1, 2]) = .error .mutagen ∧
    loadPicture [] = .error .mutagen := by decide +kernel
/-- a cue sheet shorter than its 396-byte header; one that announces a track that is not there; a track that announces
an index point that is not there -/
example : loadCueSheet (List.replicate 395 0) = .error .mutagen ∧
    loadCueSheet (List.replicate 395 0 ++ [1]) = .error .mutagen ∧
    loadCueSheet (List.replicate 395 0 ++ [1] ++ List.replicate 35 0 ++ [1] ++ List.replicate 11 0) = .error .mutagen := by
  decide +kernel
/-- a block that is shorter than its header says -/
example : loadBody 3 19 (List.replicate 18 0) = .error .mutagen ∧ loadBody 1 0 [] = .ok (.padding 0, []) := by decide +kernel

/-! ### `write()`: the exceptions for values that do not fit (caller-supplied values, not file contents) -/
/-- struct.error: a width of 2^32; a seek point with 2^16 samples; 256 index points in a track -/
example : writePicture ⟨3, [], [], 4294967296, 0, 0, 0, []⟩ = .error .struct_ ∧
    writeSeekTable [⟨0, 0, 65536⟩] = .error .struct_ ∧
    writeCueSheet ⟨[], 0, true, [⟨1, 0, [], 0, false, List.replicate 256 ⟨0, 0⟩⟩]⟩ = .error .struct_ := by decide +kernel
/-- UnicodeEncodeError: a lone surrogate in the description -/
example : writePicture ⟨3, [], [0xD800], 0, 0, 0, 0, []⟩ = .error .unicode := by decide +kernel

end Mutagen.C04
