/-
Props/C01_OggInject.lean — C01 "Saved tags read back exactly" for the Ogg formats, composed from the
pieces: the Vorbis comment codec (Model/Vorbis.lean: `encode` = VComment.write, `decode` = the strict
decoder written from the specification), the new comment packet (`newPacket`), `save` on a well-formed
multiplexed layout (`save_spec`), mutagen's own readers (`readComment`: the codecs' comment constructors;
`loadVC`: VComment.load at byte level; `readTags` = both) and the strict page reader `readAll`.
Lemmas: Proofs/Container/OggRead.lean.

Comments are (key, value) byte strings; UTF-8 encoding/decoding of text values is the separate layer of
`vorbis_roundtrip` (Props/C01.lean).  "The codec can encode": vendor string and number of comments fit
32 bits, every comment fits 32 bits and has no '=' in its key (`Vorbis.CommentOK`); for mutagen's own
reader also: keys valid (`validKey`: what `is_valid_key` accepts — others are dropped on load).
-/
import MutagenModel.Proofs.Container.OggRead
set_option linter.unusedVariables false
namespace Mutagen.C01
open Mutagen Mutagen.Ogg Mutagen.OggInj

/-! ## Ogg: what was saved is what is read -/

/-- `VComment.load` (errors='replace') inverts `VComment.write`: vendor string, every comment in order,
and it stops exactly behind the comment (behind the framing bit for Vorbis), whatever follows -/
theorem ogg_vcomment_load_inverts_write (vendor : Bytes) (cs : List (Bytes × Bytes)) (framing : Bool) (rest : Bytes)
    (hv : vendor.length < 256 ^ 4) (hn : cs.length < 256 ^ 4) (h : ∀ kv ∈ cs, Vorbis.CommentOK kv ∧ validKey kv.1 = true) :
    loadVC (Vorbis.encode vendor cs framing ++ rest) framing = .ok (vendor, cs, rest) :=
  loadVC_encode vendor cs framing rest hv hn h

/-- (a) mutagen's own reader, all five codecs (Vorbis, Opus, Speex, Theora, Ogg FLAC): on a well-formed
layout, for any vendor string and comment list the codec can encode and any padding answer, `save`
succeeds, and loading the saved file — the codec's comment constructor started where the info constructor
stops (`pre1`: up to and including the identification page; no page of the stream between it and the
comment run) followed by `VComment.load` — returns exactly that vendor string and that comment list.
For Opus the constructor is the other loop of the library (scan for the first page of the stream whose
first packet starts with "OpusTags", then collect pages until one is closed).  Hypotheses on the stream:
continuation flags consistent, pages numbered without gaps, last page complete.  That the first new page
holds data is proved for both ways `_from_packets_try_preserve` lays the packets out (`new_head_nonempty`:
`from_packets` with the real default sizes never emits an empty page). -/
theorem ogg_saved_comment_reads_back (c : Codec) (L : Layout) (h : L.OK c) (hfresh : L.c1.continued = false)
    (hflags : contOK false (stream L.serial L.pages))
    (a : Nat) (hnum : (stream L.serial L.pages).map (·.sequence) = List.range' a (stream L.serial L.pages).length)
    (hend : ∀ l, (stream L.serial L.pages).getLast? = some l → l.complete = true)
    (pre1 pre2 : List Page) (hpre : L.pre = pre1 ++ pre2) (hpre2 : ∀ p ∈ pre2, p.serial ≠ L.serial)
    (vendor : Bytes) (cs : List (Bytes × Bytes)) (hv : vendor.length < 256 ^ 4) (hn : cs.length < 256 ^ 4)
    (hcs : ∀ kv ∈ cs, Vorbis.CommentOK kv ∧ validKey kv.1 = true)
    (padData : Bytes) (pad : PadChoice) (old0 new0 : Bytes) (others : List Bytes) (new : List Page)
    (hpk : toPackets L.oldPages false = .ok (old0 :: others)) (hflac : c = .flac → old0 ≠ [])
    (hnp : newPacket c old0 (Vorbis.encode vendor cs c.framing) padData pad L.render.length = .ok new0)
    (hnew : newPages c (new0 :: others) L.oldPages = .ok new)
    (hseq : L.c1.sequence + new.length + (L.post.filter (·.serial = L.serial)).length ≤ 2 ^ 32) :
    ∃ out rest, save c L.render (Vorbis.encode vendor cs c.framing) padData pad = .ok out ∧
      readTags c out L.serial (renderPages pre1).length = .ok (vendor, cs, rest) := by
  obtain ⟨rest, hr⟩ := readTags_saved c L h hfresh hflags a hnum hend pre1 pre2 hpre hpre2 vendor cs hv hn hcs padData pad
    old0 new0 others new hpk hflac hnp hnew hseq
  exact ⟨_, rest, (save_spec c L h (streamOK_of_contOK c L h hfresh hflags) _ padData pad old0 new0 others new hpk hnp hnew hseq).1, hr⟩

/-- the step (a) rests on, by itself: the comment constructor of each codec finds the new comment packet
in the saved file and hands it to `VComment.load` without the codec's prefix (Opus: provided the packet
starts with "OpusTags", which `newPacket` guarantees) -/
theorem ogg_saved_packet_found (c : Codec) (L : Layout) (h : L.OK c) (hfresh : L.c1.continued = false)
    (hflags : contOK false (stream L.serial L.pages))
    (a : Nat) (hnum : (stream L.serial L.pages).map (·.sequence) = List.range' a (stream L.serial L.pages).length)
    (hend : ∀ l, (stream L.serial L.pages).getLast? = some l → l.complete = true)
    (pre1 pre2 : List Page) (hpre : L.pre = pre1 ++ pre2) (hpre2 : ∀ p ∈ pre2, p.serial ≠ L.serial)
    (old0 new0 : Bytes) (others : List Bytes) (new : List Page)
    (hpk : toPackets L.oldPages false = .ok (old0 :: others))
    (hnew : newPages c (new0 :: others) L.oldPages = .ok new)
    (hseq : L.c1.sequence + new.length + (L.post.filter (·.serial = L.serial)).length ≤ 2 ^ 32)
    (hmagic : c = .opus → magicOpusTags <+: new0) :
    readComment c (renderPages (L.after new)) L.serial (renderPages pre1).length = .ok (new0.drop c.stripLen) :=
  readComment_after c L h hfresh hflags a hnum hend pre1 pre2 hpre hpre2 old0 new0 others new hpk hnew hseq hmagic

/-- whichever way the new packets are laid out, the first new page holds a packet -/
theorem ogg_first_new_page_holds_data (c : Codec) (L : Layout) (h : L.OK c) (hfresh : L.c1.continued = false)
    (old0 new0 : Bytes) (others : List Bytes) (new : List Page)
    (hpk : toPackets L.oldPages false = .ok (old0 :: others))
    (hnew : newPages c (new0 :: others) L.oldPages = .ok new) :
    ∀ p, new.head? = some p → p.packets ≠ [] :=
  new_head_nonempty c L h hfresh old0 new0 others new hpk hnew

/-- (b) the independent reading, all five codecs: the strict page reader (capture pattern, version,
lacing, extent, RFC 3533 checksum) reads the saved bytes back into pages; the edited stream's packets
reassembled from those pages are the old ones with the new comment packet `new0` in the place of the old
one; and the strict Vorbis-comment decoder applied to `new0` behind the codec prefix — "\x03vorbis" (with
the framing bit checked), "OpusTags", nothing for Speex, "\x81theora", the 4-byte block header for Ogg
FLAC — returns exactly the vendor string and the comments -/
theorem ogg_saved_comment_decodes_strictly (c : Codec) (L : Layout) (h : L.OK c) (hfresh : L.c1.continued = false)
    (hflags : contOK false (stream L.serial L.pages))
    (vendor : Bytes) (cs : List (Bytes × Bytes)) (hv : vendor.length < 256 ^ 4) (hn : cs.length < 256 ^ 4)
    (hcs : ∀ kv ∈ cs, Vorbis.CommentOK kv)
    (padData : Bytes) (pad : PadChoice) (old0 new0 : Bytes) (others : List Bytes) (new : List Page)
    (hpk : toPackets L.oldPages false = .ok (old0 :: others)) (hflac : c = .flac → old0 ≠ [])
    (hnp : newPacket c old0 (Vorbis.encode vendor cs c.framing) padData pad L.render.length = .ok new0)
    (hnew : newPages c (new0 :: others) L.oldPages = .ok new)
    (hseq : L.c1.sequence + new.length + (L.post.filter (·.serial = L.serial)).length ≤ 2 ^ 32) :
    save c L.render (Vorbis.encode vendor cs c.framing) padData pad = .ok (renderPages (L.after new)) ∧
    readAll ((renderPages (L.after new)).length + 1) (renderPages (L.after new)) = some (L.after new) ∧
    (∃ before behind, reasm [] (stream L.serial L.pages) = before ++ old0 :: behind ∧
      reasm [] (stream L.serial (L.after new)) = before ++ new0 :: behind) ∧
    Vorbis.decode (new0.drop c.stripLen) c.framing = some (vendor, cs) :=
  strict_after c L h hfresh hflags vendor cs hv hn hcs padData pad old0 new0 others new hpk hflac hnp hnew hseq

/-- the codec specifics of the packet that was written: `stripLen` bytes, the comment, a tail.  Ogg FLAC:
first byte of the old block header, the 24-bit big-endian length of the comment, no tail.  The others: the
codec prefix; the tail is zero padding (its first byte, if any, is even: Opus readers take it for
padding) — or, Opus only, the preserved data the tag object carried (first byte odd when it was loaded) -/
theorem ogg_saved_packet_shape (c : Codec) (old0 vc padData : Bytes) (pad : PadChoice) (fsize : Nat) (new0 : Bytes)
    (hflac : c = .flac → old0 ≠ []) (h : newPacket c old0 vc padData pad fsize = .ok new0) :
    ∃ hd tail, new0 = hd ++ vc ++ tail ∧ hd.length = c.stripLen ∧
      (c = .flac → tail = [] ∧ hd = old0.take 1 ++ toBE 3 vc.length) ∧
      (c ≠ .flac → hd = c.commentPrefix ∧ (tail = padData ∨ ∃ p, tail = zeros p)) :=
  newPacket_shape c old0 vc padData pad fsize new0 hflac h

/-- delete: the saved comment is "vendor string, no entries" — mutagen's own reader returns the vendor
string and an empty list, and the strict reading of the bytes gives the same (all five codecs) -/
theorem ogg_delete_reads_back_empty (c : Codec) (L : Layout) (h : L.OK c) (hfresh : L.c1.continued = false)
    (hflags : contOK false (stream L.serial L.pages))
    (a : Nat) (hnum : (stream L.serial L.pages).map (·.sequence) = List.range' a (stream L.serial L.pages).length)
    (hend : ∀ l, (stream L.serial L.pages).getLast? = some l → l.complete = true)
    (pre1 pre2 : List Page) (hpre : L.pre = pre1 ++ pre2) (hpre2 : ∀ p ∈ pre2, p.serial ≠ L.serial)
    (vendor : Bytes) (hv : vendor.length < 256 ^ 4)
    (padData : Bytes) (old0 new0 : Bytes) (others : List Bytes) (new : List Page)
    (hpk : toPackets L.oldPages false = .ok (old0 :: others)) (hflac : c = .flac → old0 ≠ [])
    (hnp : newPacket c old0 (Vorbis.encode vendor [] c.framing) padData (.callback fun _ _ => 0) L.render.length = .ok new0)
    (hnew : newPages c (new0 :: others) L.oldPages = .ok new)
    (hseq : L.c1.sequence + new.length + (L.post.filter (·.serial = L.serial)).length ≤ 2 ^ 32) :
    delete c L.render vendor padData = .ok (renderPages (L.after new)) ∧
    readAll ((renderPages (L.after new)).length + 1) (renderPages (L.after new)) = some (L.after new) ∧
    Vorbis.decode (new0.drop c.stripLen) c.framing = some (vendor, []) ∧
    (∃ rest, readTags c (renderPages (L.after new)) L.serial (renderPages pre1).length = .ok (vendor, [], rest)) := by
  obtain ⟨h1, h2, _, h4⟩ := strict_after c L h hfresh hflags vendor [] hv (by decide) (by simp) padData _ old0 new0 others new
    hpk hflac hnp hnew hseq
  exact ⟨h1, h2, h4, readTags_saved c L h hfresh hflags a hnum hend pre1 pre2 hpre hpre2 vendor [] hv (by decide) (by simp) padData _
    old0 new0 others new hpk hflac hnp hnew hseq⟩

/-! non-vacuity -/

/-- the stream hypotheses hold of the multiplexed example file (Props/C02_OggInject.lean): stream 7 is
numbered 0, 1, 2, ends complete; the info constructor stops behind the identification page, and the page
of the other stream between it and the comment page is not of stream 7 -/
example : (stream Example.layout.serial Example.layout.pages).map (·.sequence) = List.range' 0 3 ∧
    (∀ l, (stream Example.layout.serial Example.layout.pages).getLast? = some l → l.complete = true) ∧
    Example.layout.pre = [Example.idPage] ++ [Example.otherFirst] ∧
    (∀ p ∈ [Example.otherFirst], p.serial ≠ Example.layout.serial) := by
  refine ⟨by decide, ?_, rfl, by decide⟩
  intro l hl
  have : (stream Example.layout.serial Example.layout.pages).getLast? = some Example.audioPage := by decide
  rw [this] at hl; cases hl; rfl

/-- a whole instance, computed: save the comment vendor "Xi", A=b, TITLE=x into the example file with a
padding answer of 2, then load it with mutagen's own reader from behind the identification page — the
vendor string, both comments, and the two padding bytes as the rest -/
example : (save .vorbis Example.layout.render (Vorbis.encode [0x58, 0x69] [([0x41], [0x62]), ([0x54, 0x49, 0x54, 0x4C, 0x45], [0x78])] true)
      [] (.callback fun _ _ => 2)).bind (fun out => readTags .vorbis out 7 (renderPages [Example.idPage]).length) =
    .ok ([0x58, 0x69], [([0x41], [0x62]), ([0x54, 0x49, 0x54, 0x4C, 0x45], [0x78])], [0, 0]) := by
  decide +kernel

/-- the Opus reader, computed: an Opus file of three pages ("OpusHead" page, "OpusTags" page with an
empty comment, an audio page); save the comment vendor "X", A=b with a padding answer of 2, then load
with the Opus comment constructor from behind the head page — vendor, comment, the two padding bytes -/
example :
    let head : Page := { packets := [magicOpusHead ++ [1, 2, 0, 0, 0, 0, 0, 0, 0, 0, 0]], serial := 7, sequence := 0, first := true }
    let tags : Page := { packets := [magicOpusTags ++ [0, 0, 0, 0, 0, 0, 0, 0]], serial := 7, sequence := 1 }
    let audio : Page := { packets := [[9, 9], [8]], serial := 7, sequence := 2, last := true, position := 100 }
    (save .opus (renderPages [head, tags, audio]) (Vorbis.encode [0x58] [([0x41], [0x62])] false) [] (.callback fun _ _ => 2)).bind
      (fun out => readTags .opus out 7 (renderPages [head]).length) = .ok ([0x58], [([0x41], [0x62])], [0, 0]) := by
  decide +kernel

end Mutagen.C01
