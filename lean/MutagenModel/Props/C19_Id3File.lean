/-
Props/C19_Id3File.lean — C19 ("running out of space while growing leaves the file as it was") for
free-standing ID3 files: `ID3.save` and the module function `delete` of mutagen/id3/_file.py as
programs over the file object (Model/Container/Id3FileM.lean: every read / seek / tell / write /
truncate / flush in the order the Python code makes them).

Environments: `Quiet e` = no injected fault, no short read; the device capacity `e.cap` and the
amount `e.leak` of a failing write that still reaches the file are ARBITRARY.  `saveM` is the
entry point (`@convert_error(IOError, error)` around `@loadfile` around the body): ENOSPC leaves
it as `PyErr.mutagen`.  The program starts at file position 0.

What the order of operations gives, and what it does not:
* the ID3v2 region is enlarged (`insert_bytes`) BEFORE anything is overwritten, so ENOSPC during
  that enlargement leaves the file byte-identical (`id3_save_enlarge_first`, second outcome);
* but `__save_v1` runs AFTER the new tag has been written: when it has to lengthen the file
  (v1=CREATE on a file without ID3v1 block; v1=UPDATE/CREATE over a legacy block of 124–127
  bytes) and the device is full at that moment, `save` raises with the NEW tag already in place
  and the old ID3v1 block partly overwritten (third outcome; `id3_save_v1_append_not_atomic` is a
  concrete instance, harness/id3file_tie.py `repro_v1_append` shows it on the real code).  The
  audio is intact in every outcome.
-/
import MutagenModel.Proofs.Container.Id3FileCap
set_option linter.unusedVariables false
namespace Mutagen.C19
open Mutagen Mutagen.Id3F

/-- REFINEMENT (2a): in a quiet environment without capacity limit the program `saveM` leaves
exactly the bytes the pure model `Id3F.save` returns — for EVERY file `f`, well-formed or not, on
which the pure `save` succeeds (`blk` is the 128-byte block `MakeID3v1` renders).  Everything
proved about `Id3F.save` (C02/C03/C07/C08/C09 `id3_*`) therefore holds for the program. -/
theorem id3_saveM_refines {e : Env} (hq : Quiet e) (hcap : e.cap = none) (B : Nat) (hB : 0 < B) (f : Bytes) (vmaj : Nat)
    (frames : Bytes) (pad : PadChoice) (v1opt : Nat) (blk : Bytes) (hblk : blk.length = 128) (out : Bytes)
    (h : save f vmaj frames pad v1opt blk = .ok out) (s : FS) (hs : s.data = f) (hpos : s.pos = 0) :
    ∃ s', saveM B vmaj frames pad v1opt blk e s = (.ok (), s') ∧ s'.data = out :=
  saveM_refines hq hcap B hB f vmaj frames pad v1opt blk hblk out h s hs hpos

/-- C19 for `ID3.save` on a well-formed layout `[ID3v2 tag?][audio][ID3v1?]`, for EVERY capacity
and leak.  With `p` the padding the callback (or the default policy) answers, exactly one of:
1. the save completes and the file is the pure result: new header, frames, `p` zero bytes, the
   audio, the ID3v1 block the option asks for;
2. MutagenError, and the file is byte-identical, length included, to what it was (the device
   filled up while `insert_bytes` was enlarging the file; only possible when the tag grows);
3. MutagenError with the file `new tag ++ audio ++ z`: the device filled up while `__save_v1`
   was writing a block that lengthens the file — only with v1=2 (CREATE) or v1=1 (UPDATE) over
   an existing block, and only when the old block is shorter than 128 bytes (absent or legacy). -/
theorem id3_save_enlarge_first {e : Env} (hq : Quiet e) (B : Nat) (hB : 0 < B) (L : Layout) (hL : L.OK) (vmaj : Nat)
    (hvm : vmaj = 3 ∨ vmaj = 4) (frames : Bytes) (pad : PadChoice) (v1opt : Nat) (blk : Bytes) (hblk : blk.length = 128)
    (p : Nat) (hp : getPadding pad ((L.tag.length : Int) - (frames.length + 10 : Nat)) (L.audio.length + L.v1.length) = p)
    (hfit : frames.length + p < 2 ^ 28) (s : FS) (hs : s.data = L.render) (hpos : s.pos = 0) :
    ∃ hd, header vmaj (frames.length + p) = .ok hd ∧
      ((∃ s', saveM B vmaj frames pad v1opt blk e s = (.ok (), s') ∧
          s'.data = hd ++ frames ++ zeros p ++ L.audio ++ newV1 L.v1 v1opt blk) ∨
       (∃ s', saveM B vmaj frames pad v1opt blk e s = (.error .mutagen, s') ∧ s'.data = s.data ∧
          L.tag.length < 10 + frames.length + p) ∨
       (∃ s' z, saveM B vmaj frames pad v1opt blk e s = (.error .mutagen, s') ∧
          s'.data = hd ++ frames ++ zeros p ++ L.audio ++ z ∧
          ((v1opt = 1 ∧ L.v1 ≠ []) ∨ v1opt = 2) ∧ L.v1.length < 128)) :=
  saveM_layout_q hq B hB L hL vmaj hvm frames pad v1opt blk hblk p hp hfit s hs hpos

/-- … hence the property as stated ("raises MutagenError and the file is byte-identical, length
included") holds whenever the ID3v1 step cannot lengthen the file: v1=0 (REMOVE), or v1=1 (UPDATE,
the default) on a file without ID3v1 block or with a full 128-byte one. -/
theorem id3_save_enlarge_first_strict {e : Env} (hq : Quiet e) (B : Nat) (hB : 0 < B) (L : Layout) (hL : L.OK) (vmaj : Nat)
    (hvm : vmaj = 3 ∨ vmaj = 4) (frames : Bytes) (pad : PadChoice) (v1opt : Nat) (blk : Bytes) (hblk : blk.length = 128)
    (p : Nat) (hp : getPadding pad ((L.tag.length : Int) - (frames.length + 10 : Nat)) (L.audio.length + L.v1.length) = p)
    (hfit : frames.length + p < 2 ^ 28) (s : FS) (hs : s.data = L.render) (hpos : s.pos = 0)
    (hv1 : v1opt = 0 ∨ (v1opt = 1 ∧ (L.v1 = [] ∨ L.v1.length = 128))) :
    ∃ hd, header vmaj (frames.length + p) = .ok hd ∧
      ((∃ s', saveM B vmaj frames pad v1opt blk e s = (.ok (), s') ∧
          s'.data = hd ++ frames ++ zeros p ++ L.audio ++ newV1 L.v1 v1opt blk) ∨
       (∃ s', saveM B vmaj frames pad v1opt blk e s = (.error .mutagen, s') ∧ s'.data = s.data)) := by
  obtain ⟨hd, hhd, h⟩ := id3_save_enlarge_first hq B hB L hL vmaj hvm frames pad v1opt blk hblk p hp hfit s hs hpos
  refine ⟨hd, hhd, ?_⟩
  rcases h with h | ⟨s', hr, hd', _⟩ | ⟨s', z, _, _, hc, hl⟩
  · exact Or.inl h
  · exact Or.inr ⟨s', hr, hd'⟩
  · exfalso
    rcases hv1 with h0 | ⟨h1, hv⟩
    · rcases hc with ⟨h, _⟩ | h <;> omega
    · rcases hc with ⟨_, hne⟩ | h
      · rcases hv with hv | hv
        · exact hne hv
        · omega
      · omega

/-- the same three outcomes for ANY file whose header reads and for which `_prepare_data` yields a
tag `data` (no assumption on what follows the tag): the bytes after the old tag — the audio
payload — are intact in every outcome, up to the ID3v1 block `find_id3v1` sees. -/
theorem id3_save_enospc_any_file {e : Env} (hq : Quiet e) (B : Nat) (hB : 0 < B) (f : Bytes) (ho : Option Nat) (vmaj : Nat)
    (frames : Bytes) (pad : PadChoice) (v1opt : Nat) (blk : Bytes) (hvm : vmaj = 3 ∨ vmaj = 4) (hblk : blk.length = 128)
    (hh : headerSize f = .ok ho) (data : Bytes) (hprep : prepareData f.length (ho.getD 0) vmaj frames pad = .ok data)
    (s : FS) (hs : s.data = f) (hpos : s.pos = 0) :
    (∃ s', saveM B vmaj frames pad v1opt blk e s = (.ok (), s') ∧
      s'.data = afterV1 (afterTag f (ho.getD 0) data) v1opt blk) ∨
    (∃ s', saveM B vmaj frames pad v1opt blk e s = (.error .mutagen, s') ∧ s'.data = f ∧
      ho.getD 0 < data.length) ∨
    (∃ s' z, saveM B vmaj frames pad v1opt blk e s = (.error .mutagen, s') ∧
      s'.data = (afterTag f (ho.getD 0) data).take
        ((afterTag f (ho.getD 0) data).length - (findV1 (afterTag f (ho.getD 0) data)).getD 0) ++ z ∧
      ((v1opt = 1 ∧ (findV1 (afterTag f (ho.getD 0) data)).getD 0 ≠ 0) ∨ v1opt = 2) ∧
      (findV1 (afterTag f (ho.getD 0) data)).getD 0 < 128) :=
  saveM_q hq B hB f ho vmaj frames pad v1opt blk hvm hblk hh data hprep s hs hpos

/-- `delete` never needs space: on a well-formed layout it completes on a device of ANY capacity
and leaves exactly the parts it was not asked to remove -/
theorem id3_delete_never_enospc {e : Env} (hq : Quiet e) (B : Nat) (hB : 0 < B) (L : Layout) (hL : L.OK) (dv1 dv2 : Bool)
    (s : FS) (hs : s.data = L.render) (hpos : s.pos ≤ s.data.length) :
    ∃ s', deleteM B dv1 dv2 e s = (.ok (), s') ∧
      s'.data = (if dv2 then [] else L.tag) ++ L.audio ++ (if dv1 then [] else L.v1) :=
  deleteM_layout_q hq B hB L hL dv1 dv2 s hs hpos

/-- … and on ANY file it does what the pure `delete` says; when it refuses a tag that announces
more than the file holds, an ID3v1 block it was asked to remove is already gone -/
theorem id3_delete_refines {e : Env} (hq : Quiet e) (B : Nat) (hB : 0 < B) (dv1 dv2 : Bool) (s : FS)
    (hpos : s.pos ≤ s.data.length) :
    (∃ out s', delete s.data dv1 dv2 = .ok out ∧ deleteM B dv1 dv2 e s = (.ok (), s') ∧ s'.data = out) ∨
    (∃ s', delete s.data dv1 dv2 = .error .mutagen ∧ deleteM B dv1 dv2 e s = (.error .mutagen, s') ∧
      s'.data = if dv1 then s.data.take (s.data.length - (findV1 s.data).getD 0) else s.data) :=
  deleteM_q hq B hB dv1 dv2 s hpos

/-! ### non-vacuity and the defect, on a concrete file: 134 bytes of audio without tags; frames of 3 bytes, padding 0 -/

def demoAudio : Bytes := [0xFF, 0xFB, 0x90, 0x00] ++ List.replicate 130 0x55
def demoFrames : Bytes := [0x61, 0x62, 0x63]
def demoV1 : Bytes := [0x54, 0x41, 0x47] ++ zeros 125
def demoLayout : Layout := { tag := [], audio := demoAudio, v1 := [] }
def pad0 : PadChoice := .callback fun _ _ => 0
/-- capacity for 5 more bytes, 2 bytes of a failing write leak into the file -/
def envFull : Env := { cap := some 139, leak := fun _ => 2 }
/-- room for the 13-byte tag but not for the ID3v1 block after it -/
def envV1 : Env := { cap := some (134 + 13 + 100), leak := fun _ => 7 }

example : Quiet envFull := ⟨fun _ => rfl, fun _ => rfl⟩
example : Quiet envV1 := ⟨fun _ => rfl, fun _ => rfl⟩
example : demoV1.length = 128 := by decide +kernel

example : demoLayout.OK :=
  ⟨Or.inl rfl, fun _ => Or.inr (by decide +kernel),
   V1OK_of_long _ _ (by decide +kernel) (by decide +kernel)⟩

/-- the ENOSPC branch really occurs (outcome 2): the tag needs 13 bytes, the device has room for 5; the 2 leaked bytes are
rolled back -/
example : (saveM 4 4 demoFrames pad0 1 demoV1 envFull { data := demoLayout.render }).1 = .error .mutagen ∧
    (saveM 4 4 demoFrames pad0 1 demoV1 envFull { data := demoLayout.render }).2.data = demoLayout.render := by
  decide +kernel

/-- THE DEFECT (outcome 3 really occurs): v1=2 (CREATE) on a file without ID3v1 block, room for the new tag but not for the
128-byte block behind the audio: `save` raises MutagenError and the file is NOT what it was — it has the new tag in front and
the 7 leaked bytes of the block at the end.  The property lists "ID3v2 at the start of MP3/TrueAudio/other files" among the
formats that must be left byte-identical. -/
theorem id3_save_v1_append_not_atomic :
    (saveM 4 4 demoFrames pad0 2 demoV1 envV1 { data := demoLayout.render }).1 = .error .mutagen ∧
    (saveM 4 4 demoFrames pad0 2 demoV1 envV1 { data := demoLayout.render }).2.data =
      [0x49, 0x44, 0x33, 4, 0, 0, 0, 0, 0, 3] ++ demoFrames ++ demoAudio ++ demoV1.take 7 := by
  decide +kernel

/-- … and with enough room the same call completes -/
example : (saveM 4 4 demoFrames pad0 2 demoV1 {} { data := demoLayout.render }).1 = .ok () ∧
    (saveM 4 4 demoFrames pad0 2 demoV1 {} { data := demoLayout.render }).2.data =
      [0x49, 0x44, 0x33, 4, 0, 0, 0, 0, 0, 3] ++ demoFrames ++ demoAudio ++ demoV1 := by
  decide +kernel
end Mutagen.C19
