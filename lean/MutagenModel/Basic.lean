def hello := "world"
