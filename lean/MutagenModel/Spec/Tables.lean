/-
Spec/Tables.lean — rate tables of the codecs as published in their specifications
(WavPack 4 file format, Musepack SV7, ISO 14496-3 sampling frequency index, ATSC A/52
tables 5.6 / 5.18, OptimFROG sample types).
-/
namespace Mutagen.Spec.Tables

def wavpackRates : List Nat :=
  [6000, 8000, 9600, 11025, 12000, 16000, 22050, 24000, 32000, 44100, 48000, 64000, 88200, 96000, 192000]
def musepackRates : List Nat := [44100, 48000, 37800, 32000]
def aacFreqs : List Nat :=
  [96000, 88200, 64000, 48000, 44100, 32000, 24000, 22050, 16000, 12000, 11025, 8000, 7350]
def ac3SampleRates : List Nat := [48000, 44100, 32000]
def ac3Bitrates : List Nat :=
  [32, 40, 48, 56, 64, 80, 96, 112, 128, 160, 192, 224, 256, 320, 384, 448, 512, 576, 640]
def eac3Blocks : List Nat := [1, 2, 3, 6]
/-- A/52 table 5.8: full-bandwidth channels per acmod -/
def ac3Channels : List Nat := [2, 1, 2, 3, 3, 4, 4, 5]

end Mutagen.Spec.Tables
