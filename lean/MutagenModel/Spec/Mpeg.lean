/-
Spec/Mpeg.lean — ISO/IEC 11172-3 and 13818-3 audio frame header, written row-wise from the
standard's tables (does not mention mutagen).
-/
import MutagenModel.Model.Bits
namespace Mutagen.Spec.Mpeg
open Mutagen

/-- bitrate in kbit/s; version10 ∈ {10, 20, 25}, layer ∈ {1,2,3}, index 1..14 -/
def isoBitrate (ver lay idx : Nat) : Nat :=
  match ver, lay with
  | 10, 1 => idx * 32
  | 10, 2 => [0, 32, 48, 56, 64, 80, 96, 112, 128, 160, 192, 224, 256, 320, 384].getD idx 0
  | 10, 3 => [0, 32, 40, 48, 56, 64, 80, 96, 112, 128, 160, 192, 224, 256, 320].getD idx 0
  | _, 1 => [0, 32, 48, 56, 64, 80, 96, 112, 128, 144, 160, 176, 192, 224, 256].getD idx 0
  | _, _ => [0, 8, 16, 24, 32, 40, 48, 56, 64, 80, 96, 112, 128, 144, 160].getD idx 0

def isoRate (ver idx : Nat) : Nat :=
  let base := [44100, 48000, 32000].getD idx 0
  match ver with | 10 => base | 20 => base / 2 | _ => base / 4

/-- frame length in bytes (2.4.3.1): Layer I `(12·br/sr + pad)·4`, Layer II and MPEG-1 Layer III
`144·br/sr + pad`, MPEG-2/2.5 Layer III `72·br/sr + pad` (br in bit/s) -/
def isoFrameLength (ver lay br sr pad : Nat) : Nat :=
  if lay = 1 then (12 * br / sr + pad) * 4
  else if lay = 3 ∧ ver ≠ 10 then 72 * br / sr + pad
  else 144 * br / sr + pad

def samplesPerFrame (ver lay : Nat) : Nat :=
  if lay = 1 then 384 else if lay = 3 ∧ ver ≠ 10 then 576 else 1152

/-- the 4 header bytes from the raw field values -/
def buildHeader (version layer protection bitrate sampleRate padding priv mode rest : Nat) : Bytes :=
  bitsToBytes (packFields [(11, 0x7ff), (2, version), (2, layer), (1, protection), (4, bitrate),
    (2, sampleRate), (1, padding), (1, priv), (2, mode), (6, rest)])

/-- Layer III side information (ISO/IEC 11172-3 §2.4.1.7, 13818-3 §2.4.1.7): 32 bytes for two-channel
MPEG-1 frames, 17 for single-channel MPEG-1 and two-channel MPEG-2/2.5 (LSF), 9 for single-channel LSF -/
def sideInfoSize (mpeg1 mono : Bool) : Nat :=
  match mpeg1, mono with
  | true, false => 32
  | true, true => 17
  | false, false => 17
  | false, true => 9

end Mutagen.Spec.Mpeg
