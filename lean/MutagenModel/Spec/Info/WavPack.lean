/-
Spec/Info/WavPack.lean — the WavPack 4/5 block header as the file-format description
("WavPack 4.0 File / Block Format", wavpack.h of WavPack 5 for the 40-bit extension) lays it
out; nothing here is taken from mutagen's parser.

  0  ckID "wvpk"           4  ckSize (block size - 8)   8  version (u16)
 10  block_index_u8       11  total_samples_u8         12  total_samples (u32, all ones = unknown)
 16  block_index (u32)    20  block_samples (u32)      24  flags (u32)     28  crc (u32)
 32… metadata sub-blocks (ckSize - 24 bytes)

flags: bits 0-1 bytes per sample - 1, 2 mono, 3-10 mode bits, 11 initial block, 12 final block,
13-17 shift, 18-22 maximum magnitude, 23-26 sample-rate index (15 = in a sub-block),
27-30 further mode bits, 31 DSD audio.
WavPack 5 stores a 40-bit sample count `t` as `t + t / 0xFFFFFFFF` (so that the low word is
never all ones), upper 8 bits in byte 11; 40-bit block indices are split into byte 10 and bytes 16-19.

The streams described are complete one- or two-channel PCM streams: every block is both
initial and final block of its sequence, the first block has index 0, the rate is one of
the 15 table rates.
-/
import MutagenModel.Model.Info.WavPack
import MutagenModel.Spec.Tables
namespace Mutagen.Spec.WavPack
open Mutagen Mutagen.Info

structure Block where
  /-- block_samples -/
  samples : Nat
  /-- the metadata sub-blocks (any bytes) -/
  payload : Bytes
  crc : Nat

structure Fields where
  version : Nat
  /-- number of samples of the whole file; `none` = not known when the header was written -/
  totalSamples : Option Nat
  bytesPerSample : Nat
  mono : Bool
  /-- flag bits 3-10 -/
  modeLow : Nat
  /-- flag bits 13-22 (shift, magnitude) -/
  shiftMag : Nat
  rateIndex : Nat
  /-- flag bits 27-30 -/
  modeHigh : Nat
  first : Block
  more : List Block
  /-- index of the first sample of the first block: 0 for a complete file, larger for a stream that was cut out of one
  (the header's total then still counts the original file; the samples present are those of the blocks) -/
  firstIndex : Nat := 0

def Block.OK (b : Block) : Prop :=
  b.samples < 2 ^ 32 ∧ b.payload.length + 24 < 2 ^ 32 ∧ b.crc < 2 ^ 32

instance (b : Block) : Decidable b.OK := by unfold Block.OK; infer_instance

def Fields.OK (h : Fields) : Prop :=
  h.version < 2 ^ 16 ∧
  (∀ t, h.totalSamples = some t → t + t / 0xFFFFFFFF < 2 ^ 40) ∧
  1 ≤ h.bytesPerSample ∧ h.bytesPerSample ≤ 4 ∧
  h.modeLow < 2 ^ 8 ∧ h.shiftMag < 2 ^ 10 ∧ h.rateIndex < 15 ∧ h.modeHigh < 2 ^ 4 ∧
  h.first.OK ∧ ∀ b ∈ h.more, b.OK

instance (h : Fields) : Decidable h.OK := by
  unfold Fields.OK
  have : Decidable (∀ t, h.totalSamples = some t → t + t / 0xFFFFFFFF < 2 ^ 40) := by
    cases h.totalSamples with
    | none => exact isTrue (by intro t ht; cases ht)
    | some v =>
      by_cases hv : v + v / 0xFFFFFFFF < 2 ^ 40
      · exact isTrue (by intro t ht; cases ht; exact hv)
      · exact isFalse (fun hh => hv (hh v rfl))
  infer_instance

/-- what mutagen can represent: the sample count fits the 32-bit field (below the all-ones value) -/
def Fields.fits32 (h : Fields) : Prop := ∀ t, h.totalSamples = some t → t < 2 ^ 32 - 1

instance (h : Fields) : Decidable h.fits32 := by
  unfold Fields.fits32
  cases h.totalSamples with
  | none => exact isTrue (by intro t ht; cases ht)
  | some v =>
    by_cases hv : v < 2 ^ 32 - 1
    · exact isTrue (by intro t ht; cases ht; exact hv)
    · exact isFalse (fun hh => hv (hh v rfl))

/-- what mutagen can see of the first block's index: a non-zero 40-bit index whose low 32 bits are 0 looks like 0 -/
def Fields.indexFits (h : Fields) : Prop := h.firstIndex = 0 ∨ h.firstIndex % 2 ^ 32 ≠ 0

instance (h : Fields) : Decidable h.indexFits := by unfold Fields.indexFits; infer_instance

def flags (h : Fields) : Nat :=
  (h.bytesPerSample - 1) + 4 * (if h.mono then 1 else 0) + 8 * h.modeLow + 2 ^ 11 + 2 ^ 12 +
    2 ^ 13 * h.shiftMag + 2 ^ 23 * h.rateIndex + 2 ^ 27 * h.modeHigh

/-- the 40-bit stored form of the total sample count -/
def storedTotal (h : Fields) : Nat :=
  match h.totalSamples with
  | none => 0xFFFFFFFF
  | some t => t + t / 0xFFFFFFFF

/-- one block whose first sample has index `idx` -/
def buildBlock (h : Fields) (idx : Nat) (b : Block) : Bytes :=
  [0x77, 0x76, 0x70, 0x6b] ++ toLE 4 (24 + b.payload.length) ++ toLE 2 h.version ++
    toLE 1 (idx / 2 ^ 32 % 256) ++ toLE 1 (storedTotal h / 2 ^ 32) ++
    toLE 4 (storedTotal h % 2 ^ 32) ++ toLE 4 (idx % 2 ^ 32) ++ toLE 4 b.samples ++
    toLE 4 (flags h) ++ toLE 4 b.crc ++ b.payload

def buildBlocks (h : Fields) : Nat → List Block → Bytes
  | _, [] => []
  | idx, b :: bs => buildBlock h idx b ++ buildBlocks h (idx + b.samples) bs

def build (h : Fields) : Bytes := buildBlocks h h.firstIndex (h.first :: h.more)

/-- what follows the last block is not another block header -/
def NoHeader (rest : Bytes) : Prop := rest.length < 32 ∨ readAt rest 0 4 ≠ [0x77, 0x76, 0x70, 0x6b]

instance (rest : Bytes) : Decidable (NoHeader rest) := by unfold NoHeader; infer_instance

/-- the blocks have to be counted: the total is unknown, or the stream does not start at sample 0 -/
def Fields.counted (h : Fields) : Prop := h.totalSamples = none ∨ h.firstIndex ≠ 0

instance (h : Fields) : Decidable h.counted := by unfold Fields.counted; infer_instance

def rate (h : Fields) : Nat := Spec.Tables.wavpackRates.getD h.rateIndex 0

def samples (h : Fields) : Nat :=
  match h.totalSamples, h.firstIndex with
  | some t, 0 => t
  | _, _ => ((h.first :: h.more).map (·.samples)).sum

def expected (h : Fields) : WavPack.Info :=
  { version := h.version, channels := if h.mono then 1 else 2, sampleRate := rate h,
    bitsPerSample := 8 * h.bytesPerSample, length := ⟨samples h, rate h⟩ }

end Mutagen.Spec.WavPack
