/-
Spec/Info/OggStream.lean — an Ogg physical bitstream as RFC 3533 has it, as far as the stream
information depends on it: the first page of the logical stream (beginning-of-stream flag, sequence 0,
granule position 0) carries the codec's identification header as its only packet; the last page of the
stream carries the end-of-stream flag and the final granule position; in between come the remaining
header pages and the data pages (here: any bytes).  Pages are rendered by `Ogg.Page.render` (RFC 3533
header, lacing, CRC).  Does not mention mutagen's parsers.
-/
import MutagenModel.Model.Ogg
import MutagenModel.Model.Info.OggCommon
namespace Mutagen.Spec.OggS
open Mutagen Mutagen.Ogg

/-- the rendered bytes of a page (nothing, if it does not render) -/
def renderB (p : Page) : Bytes := match p.render with | .ok b => b | .error _ => []

def renders (p : Page) : Bool := match p.render with | .ok _ => true | .error _ => false

/-- pages the specification side puts into a file: at most 255 lacing values, fields within their
widths, stream structure version 0, complete -/
def Good (p : Page) : Prop := renders p = true ∧ p.version = 0 ∧ p.flagsHi < 32 ∧ p.complete = true

instance (p : Page) : Decidable (Good p) := by unfold Good; infer_instance

structure Container where
  serial : Nat
  /-- the rendered pages between the first and the last one -/
  middle : Bytes
  /-- page sequence number of the last page -/
  lastSeq : Nat
  /-- granule position of the last page -/
  lastGranule : Nat
  /-- the packets that end on the last page -/
  lastPackets : List Bytes
deriving DecidableEq, Repr

def identPage (c : Container) (ident : Bytes) : Page :=
  { packets := [ident], first := true, serial := c.serial, sequence := 0, position := 0 }

def lastPage (c : Container) : Page :=
  { packets := c.lastPackets, last := true, serial := c.serial, sequence := c.lastSeq, position := (c.lastGranule : Int) }

def build (c : Container) (ident : Bytes) : Bytes :=
  renderB (identPage c ident) ++ c.middle ++ renderB (lastPage c)

/-- the capture pattern -/
def sync : Bytes := [0x4F, 0x67, 0x67, 0x53]

/-- both pages render (a page is at most 27 + 255 + 255·255 = 65307 bytes long), and the capture pattern
"OggS" occurs in the last page only where the page begins (`rindex` is the plain "last occurrence"
function of Model/Info/OggCommon.lean).  Without the latter the reported length can be made anything:
see `ogg_false_sync_witness` in Props/C05_OggVorbis.lean. -/
def Container.OK (c : Container) (ident : Bytes) : Prop :=
  Good (identPage c ident) ∧ Good (lastPage c) ∧ (renderB (lastPage c)).length ≤ 65536 ∧
  Info.OggC.rindex sync (renderB (lastPage c)) = some 0

instance (c : Container) (ident : Bytes) : Decidable (c.OK ident) := by unfold Container.OK; infer_instance

end Mutagen.Spec.OggS
