/-
Spec/Info/Tak.lean — the TAK container header as published with the TAK SDK / the FFmpeg TAK
demuxer (tak.h, takdec.c); nothing here is taken from mutagen's parser.

  "tBaK", then metadata blocks: type (7 bits) + 1 unused bit · size u24 (payload + 3) · payload ·
  CRC-24 of the payload (polynomial 0x864CFB, initial value 0xB704CE, stored low byte first);
  the END block is type 0 with size 0.
  STREAM_INFO (type 1) payload, bit fields packed LSB first into a little-endian integer:
    codec 6 · profile 4 · frame duration type 4 · number of samples 35 · data type 3 ·
    sample rate - 6000 (18) · bits per sample - 8 (5) · channels - 1 (4) · has extension 1
    (80 bits = 10 bytes), then the optional extension (valid bits, speaker assignment).
  ENCODER_INFO (type 4) payload: patch, minor, major version bytes (+ 1 further byte).
-/
import MutagenModel.Model.Info.Tak
namespace Mutagen.Spec.Tak
open Mutagen Mutagen.Info

def crcBit (c : Nat) : Nat := if c / 2 ^ 23 % 2 = 1 then ((c * 2) ^^^ 0x864CFB) % 2 ^ 24 else (c * 2) % 2 ^ 24

/-- CRC-24, most significant bit first -/
def crc24 (data : Bytes) : Nat :=
  data.foldl (fun c b => crcBit (crcBit (crcBit (crcBit (crcBit (crcBit (crcBit (crcBit
    (c ^^^ (b.toNat * 2 ^ 16)))))))))) 0xB704CE

/-- a metadata block other than STREAM_INFO and END -/
structure Meta where
  type : Nat
  payload : Bytes

def Meta.OK (m : Meta) : Prop :=
  m.type < 128 ∧ m.type ≠ 0 ∧ m.type ≠ 1 ∧ m.payload.length + 3 < 2 ^ 24 ∧ (m.type = 4 → 3 ≤ m.payload.length)

instance (m : Meta) : Decidable m.OK := by unfold Meta.OK; infer_instance

def Meta.bytes (m : Meta) : Bytes :=
  toLE 1 m.type ++ toLE 3 (m.payload.length + 3) ++ m.payload ++ toLE 3 (crc24 m.payload)

def metasBytes : List Meta → Bytes
  | [] => []
  | m :: ms => m.bytes ++ metasBytes ms

structure Fields where
  codec : Nat
  profile : Nat
  frameDuration : Nat
  samples : Nat
  dataType : Nat
  rate : Nat
  bits : Nat
  channels : Nat
  hasExtension : Nat
  /-- the payload bytes behind the first 80 bits (extension) -/
  ext : Bytes
  /-- blocks in front of and behind STREAM_INFO -/
  pre : List Meta
  post : List Meta

def Fields.OK (h : Fields) : Prop :=
  h.codec < 2 ^ 6 ∧ h.profile < 2 ^ 4 ∧ h.frameDuration < 2 ^ 4 ∧ h.samples < 2 ^ 35 ∧ h.dataType < 2 ^ 3 ∧
  6000 ≤ h.rate ∧ h.rate < 6000 + 2 ^ 18 ∧ 8 ≤ h.bits ∧ h.bits < 8 + 2 ^ 5 ∧ 1 ≤ h.channels ∧ h.channels ≤ 16 ∧
  h.hasExtension < 2 ∧ h.ext.length ≤ 10 ∧ (∀ m ∈ h.pre, m.OK) ∧ (∀ m ∈ h.post, m.OK)

instance (h : Fields) : Decidable h.OK := by unfold Fields.OK; infer_instance

/-- the 80 bits of the stream info as one little-endian integer (first field in the lowest bits) -/
def word (h : Fields) : Nat :=
  h.codec + 2 ^ 6 * h.profile + 2 ^ 10 * h.frameDuration + 2 ^ 14 * h.samples + 2 ^ 49 * h.dataType +
    2 ^ 52 * (h.rate - 6000) + 2 ^ 70 * (h.bits - 8) + 2 ^ 75 * (h.channels - 1) + 2 ^ 79 * h.hasExtension

def siPayload (h : Fields) : Bytes := toLE 10 (word h) ++ h.ext

def siBlock (h : Fields) : Bytes :=
  toLE 1 1 ++ toLE 3 (13 + h.ext.length) ++ siPayload h ++ toLE 3 (crc24 (siPayload h))

def build (h : Fields) : Bytes :=
  [0x74, 0x42, 0x61, 0x4b] ++ (metasBytes h.pre ++ (siBlock h ++ (metasBytes h.post ++ [0, 0, 0, 0])))

/-- the encoder version of the last ENCODER_INFO block -/
def lastEncoder : List Meta → Option (Nat × Nat × Nat) → Option (Nat × Nat × Nat)
  | [], acc => acc
  | m :: ms, acc =>
    lastEncoder ms (if m.type = 4 then
      some ((m.payload.getD 2 0).toNat, (m.payload.getD 1 0).toNat, (m.payload.getD 0 0).toNat) else acc)

def expected (h : Fields) : Tak.Info :=
  { channels := h.channels, sampleRate := h.rate, bitsPerSample := h.bits, length := ⟨h.samples, h.rate⟩,
    encoder := lastEncoder h.post (lastEncoder h.pre none) }

end Mutagen.Spec.Tak
