/-
Spec/Info/Dsf.lean — Sony "DSF File Format Specification" 1.01: DSD chunk (28 bytes: "DSD ", chunk size
28, total file size, pointer to the metadata chunk), fmt chunk (52 bytes: "fmt ", 52, format version 1,
format ID 0 = DSD raw, channel type 1…7, channel num, sampling frequency, bits per sample 1 or 8, sample
count per channel, block size per channel 4096, reserved 0), data chunk ("data", 12 + n, n bytes);
little-endian.  Does not mention mutagen's parser.
-/
import MutagenModel.Model.Info.Dsf
namespace Mutagen.Spec.Dsf
open Mutagen Mutagen.Info

structure Fields where
  totalSize : Nat
  metadataPointer : Nat
  /-- 1 mono, 2 stereo, 3 three channels, 4 quad, 5 four channels, 6 five channels, 7 5.1 -/
  channelType : Nat
  channelNum : Nat
  samplingFrequency : Nat
  /-- 1: LSB first, 8: MSB first — the packing of the one-bit samples into bytes -/
  bitsPerSample : Nat
  sampleCount : Nat
  blockSize : Nat
  reserved : Nat
  data : Bytes
deriving DecidableEq, Repr

/-- channel num of a channel type -/
def channelsOf : Nat → Nat
  | 1 => 1 | 2 => 2 | 3 => 3 | 4 => 4 | 5 => 4 | 6 => 5 | 7 => 6 | _ => 0

def build (h : Fields) : Bytes :=
  (ascii "DSD " ++ toLE 8 28 ++ toLE 8 h.totalSize ++ toLE 8 h.metadataPointer) ++
  (ascii "fmt " ++ toLE 8 52 ++ toLE 4 1 ++ toLE 4 0 ++ toLE 4 h.channelType ++ toLE 4 h.channelNum ++
    toLE 4 h.samplingFrequency ++ toLE 4 h.bitsPerSample ++ toLE 8 h.sampleCount ++ toLE 4 h.blockSize ++
    toLE 4 h.reserved) ++
  (ascii "data" ++ toLE 8 (12 + h.data.length) ++ h.data)

/-- the ranges of the fields (any positive 32-bit sampling frequency — the specification lists 2822400
and its multiples —, any 64-bit sample count) -/
def Fields.OK (h : Fields) : Prop :=
  h.totalSize < 2 ^ 64 ∧ h.metadataPointer < 2 ^ 63 ∧
  1 ≤ h.channelType ∧ h.channelType ≤ 7 ∧ h.channelNum = channelsOf h.channelType ∧
  1 ≤ h.samplingFrequency ∧ h.samplingFrequency < 2 ^ 32 ∧ (h.bitsPerSample = 1 ∨ h.bitsPerSample = 8) ∧
  h.sampleCount < 2 ^ 64 ∧ h.blockSize < 2 ^ 32 ∧ h.reserved < 2 ^ 32 ∧ 12 + h.data.length < 2 ^ 64

instance (h : Fields) : Decidable h.OK := by unfold Fields.OK; infer_instance

/-- what the header encodes: DSD is a one-bit stream, so the data rate is sampling frequency × channels
whichever way the bits are packed; the sample count is per channel -/
def expected (h : Fields) : Dsf.Info :=
  { channels := h.channelNum, sampleRate := h.samplingFrequency, bitsPerSample := h.bitsPerSample,
    bitrate := h.samplingFrequency * h.channelNum,
    length := .div (.flt (.nat h.sampleCount)) (.nat h.samplingFrequency) }

end Mutagen.Spec.Dsf
