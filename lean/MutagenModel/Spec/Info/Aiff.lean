/-
Spec/Info/Aiff.lean — AIFF / AIFF-C as the specification has it (EA IFF 85; Apple "Audio Interchange
File Format" 1.3; AIFF-C draft 08/26/91): `FORM <size> AIFF|AIFC` followed by chunks in any order, among
them exactly one Common chunk `COMM <n> numChannels:int16 numSampleFrames:uint32 sampleSize:int16
sampleRate:extended [compressionType:ID compressionName:pstring]`, big-endian, chunks padded to even
length.  `extended` is the 80-bit IEEE 754 format: sign, 15-bit exponent biased by 16383, 64-bit
mantissa with explicit integer bit.  Does not mention mutagen's parser.
-/
import MutagenModel.Spec.Info.IffChunk
import MutagenModel.Model.Info.Aiff
import MutagenModel.Proofs.Container.Iff
namespace Mutagen.Spec.Aiff
open Mutagen Mutagen.Iff Mutagen.Info Mutagen.Spec

/-- the normalised 80-bit extended encoding of `num / 2^shift` (`1 ≤ num < 2^64`), or of 0 -/
def ext80 (num shift : Nat) : Bytes :=
  if num = 0 then zeros 10
  else toBE 2 (16383 + Nat.log2 num - shift) ++ toBE 8 (num * 2 ^ (63 - Nat.log2 num))

structure Fields where
  /-- "AIFF" or "AIFC" -/
  form : Bytes
  numChannels : Nat
  numSampleFrames : Nat
  sampleSize : Nat
  /-- the sample rate is `rateNum / 2^rateShift` frames per second -/
  rateNum : Nat
  rateShift : Nat
  /-- AIFF-C: compression type and name behind the 18 common bytes -/
  ext : Bytes
  /-- the other chunks in front of the Common chunk (FVER, SSND, …) -/
  before : List Chunk
  /-- … and behind it -/
  after : List Chunk
deriving DecidableEq, Repr

def commData (h : Fields) : Bytes :=
  toBE 2 h.numChannels ++ toBE 4 h.numSampleFrames ++ toBE 2 h.sampleSize ++ ext80 h.rateNum h.rateShift ++ h.ext

def chunks (h : Fields) : List Chunk := h.before ++ mkChunk (ascii "COMM") (commData h) :: h.after

def build (h : Fields) : Bytes := renderFile aiff h.form (chunks h)

/-- the ranges the specification allows: at least one channel, 1…32 bits, a positive rate with a normal
extended encoding; the other chunks well-formed and not a second Common chunk; 32-bit FORM size -/
def Fields.OK (h : Fields) : Prop :=
  NameOK aiff h.form ∧
  1 ≤ h.numChannels ∧ h.numChannels < 2 ^ 15 ∧ h.numSampleFrames < 2 ^ 32 ∧
  1 ≤ h.sampleSize ∧ h.sampleSize ≤ 32 ∧
  1 ≤ h.rateNum ∧ h.rateNum < 2 ^ 64 ∧ h.rateShift ≤ 16382 ∧
  (∀ c ∈ h.before ++ h.after, c.OK aiff) ∧ (∀ c ∈ h.before, sid c ≠ ascii "COMM") ∧
  h.ext.length + (renderChunks aiff h.before).length + (renderChunks aiff h.after).length + 64 < 2 ^ 32

instance (h : Fields) : Decidable h.OK := by unfold Fields.OK; infer_instance

/-- what the header encodes.  `sample_rate` is documented as an int: the whole part of the rate; the
duration is frames over the exact rate, `frames · 2^shift / num`. -/
def expected (h : Fields) : Aiff.Info :=
  { channels := h.numChannels, bitsPerSample := h.sampleSize, sampleRate := h.rateNum / 2 ^ h.rateShift,
    bitrate := (h.numChannels : Int) * h.sampleSize * ((h.rateNum / 2 ^ h.rateShift : Nat) : Int),
    length := .div (.nat (h.numSampleFrames * 2 ^ h.rateShift)) (.flt (.nat h.rateNum)) }

/-- where mutagen agrees with the header: whole-numbered rates whose 64-bit mantissa survives the
conversion to a double (its low 11 bits are zero — every rate below 2^53 is of this kind) -/
def Fields.Exact (h : Fields) : Prop :=
  h.rateShift = 0 ∧ (h.rateNum * 2 ^ (63 - Nat.log2 h.rateNum)) % 2 ^ 11 = 0

instance (h : Fields) : Decidable h.Exact := by unfold Fields.Exact; infer_instance

end Mutagen.Spec.Aiff
