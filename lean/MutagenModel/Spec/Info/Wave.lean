/-
Spec/Info/Wave.lean — RIFF/WAVE as the specification has it (Multimedia Programming Interface and Data
Specifications 1.0; "New Multimedia Data Types and Data Techniques"; WAVEFORMATEX / WAVEFORMATEXTENSIBLE):
`RIFF <size> WAVE  fmt <n> WAVEFORMAT[EX] [fact <4> dwSampleLength]  data <m> samples`, little-endian,
chunks padded to even length (`Iff.renderFile Iff.wave`, the specification side of Model/Container/Iff).
Does not mention mutagen's parser.
-/
import MutagenModel.Spec.Info.IffChunk
import MutagenModel.Model.Info.Wave
namespace Mutagen.Spec.Wave
open Mutagen Mutagen.Iff Mutagen.Info Mutagen.Spec

structure Fields where
  /-- wFormatTag -/
  formatTag : Nat
  /-- nChannels -/
  channels : Nat
  /-- nSamplesPerSec -/
  sampleRate : Nat
  /-- nAvgBytesPerSec: the header's own statement of the data rate -/
  avgBytesPerSec : Nat
  /-- nBlockAlign -/
  blockAlign : Nat
  /-- wBitsPerSample -/
  bitsPerSample : Nat
  /-- what follows the 16 common bytes in the fmt chunk (nothing; cbSize = 0; the 24 bytes of
  WAVEFORMATEXTENSIBLE; a codec's own fields) -/
  ext : Bytes
  /-- dwSampleLength of the fact chunk (mandatory for compressed formats), if there is one -/
  fact : Option Nat
  /-- sample frames carried by one block of nBlockAlign bytes: 1 for PCM, IEEE float, A-law, mu-law;
  wSamplesPerBlock for the block-compressed codecs -/
  blockFrames : Nat
  /-- the contents of the data chunk -/
  data : Bytes
deriving DecidableEq, Repr

def fmtData (h : Fields) : Bytes :=
  toLE 2 h.formatTag ++ toLE 2 h.channels ++ toLE 4 h.sampleRate ++ toLE 4 h.avgBytesPerSec ++
  toLE 2 h.blockAlign ++ toLE 2 h.bitsPerSample ++ h.ext

def factChunks (h : Fields) : List Chunk :=
  match h.fact with | some n => [mkChunk (ascii "fact") (toLE 4 n)] | none => []

def chunks (h : Fields) : List Chunk :=
  [mkChunk (ascii "fmt ") (fmtData h)] ++ factChunks h ++ [mkChunk (ascii "data") h.data]

def build (h : Fields) : Bytes := renderFile wave (ascii "WAVE") (chunks h)

/-- the ranges of the fields: widths of the struct members, at least one channel, a positive rate and
block size, block-compressed data comes with a fact chunk, and the file fits RIFF's 32-bit sizes -/
def Fields.OK (h : Fields) : Prop :=
  h.formatTag < 2 ^ 16 ∧ 1 ≤ h.channels ∧ h.channels < 2 ^ 16 ∧ 1 ≤ h.sampleRate ∧ h.sampleRate < 2 ^ 32 ∧
  h.avgBytesPerSec < 2 ^ 32 ∧ 1 ≤ h.blockAlign ∧ h.blockAlign < 2 ^ 16 ∧ h.bitsPerSample < 2 ^ 16 ∧
  (∀ n, h.fact = some n → n < 2 ^ 32) ∧ (h.blockFrames = 1 ∨ h.fact.isSome = true) ∧
  h.ext.length + h.data.length + 64 < 2 ^ 32

instance (h : Fields) : Decidable h.OK := by
  unfold Fields.OK
  have : Decidable (∀ n, h.fact = some n → n < 2 ^ 32) := by
    cases h.fact with
    | none => exact isTrue (by intro n hn; cases hn)
    | some m => exact if hm : m < 2 ^ 32 then isTrue (by intro n hn; cases hn; exact hm)
                      else isFalse (fun hh => hm (hh m rfl))
  infer_instance

/-- what the header encodes: the rate of the data is nAvgBytesPerSec; the duration is the number of
sample frames over the sampling rate — one frame per block (`data bytes / nBlockAlign` blocks), or, for
block-compressed data, the sample count of the fact chunk -/
def expected (h : Fields) : Wave.Info :=
  { audioFormat := h.formatTag, channels := h.channels, sampleRate := h.sampleRate,
    bitsPerSample := h.bitsPerSample, bitrate := h.avgBytesPerSec * 8,
    length :=
      if h.blockFrames = 1 then .div (.div (.nat h.data.length) (.nat h.blockAlign)) (.nat h.sampleRate)
      else .div (.nat (h.fact.getD 0)) (.nat h.sampleRate) }

/-- where mutagen agrees with the header (it does not read nAvgBytesPerSec or the fact chunk): linear
PCM-like data, whose rate is channels × bits × sampling rate and which has one frame per block -/
def Fields.Plain (h : Fields) : Prop :=
  h.avgBytesPerSec * 8 = h.channels * h.bitsPerSample * h.sampleRate ∧ h.blockFrames = 1

instance (h : Fields) : Decidable h.Plain := by unfold Fields.Plain; infer_instance

end Mutagen.Spec.Wave
