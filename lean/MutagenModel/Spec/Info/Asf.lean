/-
Spec/Info/Asf.lean — Advanced Systems Format 1.20.03: the Header Object holds, among other objects, one File
Properties Object (File ID, File Size, Creation Date, Data Packets Count, Play Duration in 100 ns units
— it includes the preroll —, Send Duration, Preroll in ms, Flags, Minimum / Maximum Data Packet Size,
Maximum Bitrate) and one Stream Properties Object per stream (Stream Type, Error Correction Type, Time
Offset, Type-Specific Data Length, Error Correction Data Length, Flags, Reserved, Type-Specific Data — for
audio a WAVEFORMATEX —, Error Correction Data).  The header tree around them is the specification side of
Model/Container/Asf.lean (`Layout`).  Does not mention mutagen's parsers.
-/
import MutagenModel.Model.Info.Asf
import MutagenModel.Proofs.Container.Asf
namespace Mutagen.Spec.AsfInfo
open Mutagen Mutagen.Asf Mutagen.Info

structure Fields where
  -- File Properties Object
  fileId : Bytes
  fileSize : Nat
  creationDate : Nat
  dataPackets : Nat
  playDuration : Nat
  sendDuration : Nat
  preroll : Nat
  flags : Nat
  minPacket : Nat
  maxPacket : Nat
  maxBitrate : Nat
  -- Stream Properties Object of the audio stream
  errorCorrectionType : Bytes
  timeOffset : Nat
  streamFlags : Nat
  reserved : Nat
  formatTag : Nat
  channels : Nat
  samplesPerSec : Nat
  avgBytesPerSec : Nat
  blockAlign : Nat
  bitsPerSample : Nat
  /-- the codec specific data behind the WAVEFORMATEX (cbSize is its length) -/
  codecData : Bytes
  errorCorrectionData : Bytes
  /-- the other children of the Header Object, in front of the File Properties Object … -/
  before : List Item
  /-- … between the two objects … -/
  between : List Item
  /-- … and behind the audio stream's object -/
  after : List Item
  /-- Data Object, index objects -/
  rest : Bytes
deriving DecidableEq, Repr

def fileProps (h : Fields) : Object :=
  ⟨gFileProps, h.fileId ++ toLE 8 h.fileSize ++ toLE 8 h.creationDate ++ toLE 8 h.dataPackets ++ toLE 8 h.playDuration ++
    toLE 8 h.sendDuration ++ toLE 8 h.preroll ++ toLE 4 h.flags ++ toLE 4 h.minPacket ++ toLE 4 h.maxPacket ++ toLE 4 h.maxBitrate⟩

def waveFormat (h : Fields) : Bytes :=
  toLE 2 h.formatTag ++ toLE 2 h.channels ++ toLE 4 h.samplesPerSec ++ toLE 4 h.avgBytesPerSec ++ toLE 2 h.blockAlign ++
  toLE 2 h.bitsPerSample ++ toLE 2 h.codecData.length ++ h.codecData

def streamProps (h : Fields) : Object :=
  ⟨gStreamProps, gAudioMedia ++ h.errorCorrectionType ++ toLE 8 h.timeOffset ++ toLE 4 (waveFormat h).length ++
    toLE 4 h.errorCorrectionData.length ++ toLE 2 h.streamFlags ++ toLE 4 h.reserved ++ waveFormat h ++ h.errorCorrectionData⟩

def layout (h : Fields) : Layout :=
  { top := h.before ++ [Item.foreign (fileProps h)] ++ h.between ++ [Item.foreign (streamProps h)] ++ h.after, rest := h.rest }

def build (h : Fields) : Bytes := (layout h).render

/-- an object that says nothing about the audio stream: not a File Properties Object, not the Stream
Properties Object of an audio stream -/
def quietObj (o : Object) : Bool :=
  !(o.guid == gFileProps) && !(o.guid == gStreamProps && o.data.take 16 == gAudioMedia)

def quietSub : SubItem → Bool
  | .foreign o => quietObj o
  | _ => true

def quiet : Item → Bool
  | .foreign o => quietObj o
  | .ext subs => subs.all quietSub
  | _ => true

/-- field widths; a well-formed header tree (`Layout.OK`) whose other objects are `quiet` -/
def Fields.OK (h : Fields) : Prop :=
  h.fileId.length = 16 ∧ h.fileSize < 2 ^ 64 ∧ h.creationDate < 2 ^ 64 ∧ h.dataPackets < 2 ^ 64 ∧ h.playDuration < 2 ^ 64 ∧
  h.sendDuration < 2 ^ 64 ∧ h.preroll < 2 ^ 64 ∧ h.flags < 2 ^ 32 ∧ h.minPacket < 2 ^ 32 ∧ h.maxPacket < 2 ^ 32 ∧
  h.maxBitrate < 2 ^ 32 ∧ h.errorCorrectionType.length = 16 ∧ h.timeOffset < 2 ^ 64 ∧ h.streamFlags < 2 ^ 16 ∧
  h.reserved < 2 ^ 32 ∧ h.formatTag < 2 ^ 16 ∧ h.channels < 2 ^ 16 ∧ h.samplesPerSec < 2 ^ 32 ∧ h.avgBytesPerSec < 2 ^ 32 ∧
  h.blockAlign < 2 ^ 16 ∧ h.bitsPerSample < 2 ^ 16 ∧ h.codecData.length < 2 ^ 16 ∧ h.errorCorrectionData.length < 2 ^ 32 ∧
  (∀ i ∈ h.before ++ h.between ++ h.after, i.OK ∧ quiet i = true) ∧
  (layout h).top.length < 2 ^ 32 ∧ (layout h).headerLen < 2 ^ 64

instance (o : Object) : Decidable (ForeignOK o) := by unfold ForeignOK; infer_instance

instance : (s : SubItem) → Decidable s.OK
  | .foreign o => by unfold SubItem.OK; infer_instance
  | .mo d => by unfold SubItem.OK; infer_instance
  | .metaLib d => by unfold SubItem.OK; infer_instance
  | .pad d => by unfold SubItem.OK; infer_instance

instance : (i : Item) → Decidable i.OK
  | .foreign o => by unfold Item.OK; infer_instance
  | .cd d => by unfold Item.OK; infer_instance
  | .ecd d => by unfold Item.OK; infer_instance
  | .pad d => by unfold Item.OK; infer_instance
  | .ext subs => by unfold Item.OK; infer_instance

instance (h : Fields) : Decidable h.OK := by unfold Fields.OK; infer_instance

/-- what the header encodes: the duration is Play Duration less the preroll (never negative); the audio
stream's channel count and sampling rate; its average data rate nAvgBytesPerSec × 8 -/
def expected (h : Fields) : Info.Asf.Info :=
  { length := Info.Asf.lengthOf h.playDuration h.preroll, sampleRate := h.samplesPerSec,
    bitrate := h.avgBytesPerSec * 8, channels := h.channels }

end Mutagen.Spec.AsfInfo
