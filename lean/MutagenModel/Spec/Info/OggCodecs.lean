/-
Spec/Info/OggCodecs.lean — the identification headers of the five codecs mutagen reads from Ogg, written
from their specifications: Vorbis I §4.2.2, RFC 7845 §5.1 (Opus), the Speex manual's `SpeexHeader`,
Theora I §6.2, and the FLAC-to-Ogg mapping 1.0; the stream around them is Spec/Info/OggStream.lean.
Does not mention mutagen's parsers.
-/
import MutagenModel.Spec.Info.OggStream
import MutagenModel.Model.Info.OggCodecs
import MutagenModel.Model.Bits
namespace Mutagen.Spec
open Mutagen Mutagen.Ogg Mutagen.Info Mutagen.Spec.OggS

def int32 (i : Int) : Prop := -(2 ^ 31 : Int) ≤ i ∧ i < (2 ^ 31 : Int)
instance (i : Int) : Decidable (int32 i) := by unfold int32; infer_instance

/-! ### Vorbis I, §4.2.2 -/
namespace Vorbis

structure Fields where
  /-- audio_channels -/
  channels : Nat
  /-- audio_sample_rate -/
  rate : Nat
  bitrateMaximum : Int
  bitrateNominal : Int
  bitrateMinimum : Int
  /-- exponents of the two block sizes -/
  blocksize0 : Nat
  blocksize1 : Nat
  stream : Container
deriving DecidableEq, Repr

/-- packet type 1, "vorbis", vorbis_version 0, the fields, the framing bit -/
def ident (h : Fields) : Bytes :=
  [0x01, 0x76, 0x6F, 0x72, 0x62, 0x69, 0x73] ++ toLE 4 0 ++ toLE 1 h.channels ++ toLE 4 h.rate ++
  toSignedLE 4 h.bitrateMaximum ++ toSignedLE 4 h.bitrateNominal ++ toSignedLE 4 h.bitrateMinimum ++
  [UInt8.ofNat (h.blocksize0 + 16 * h.blocksize1)] ++ [1]

def build (h : Fields) : Bytes := OggS.build h.stream (ident h)

def Fields.OK (h : Fields) : Prop :=
  1 ≤ h.channels ∧ h.channels ≤ 255 ∧ 1 ≤ h.rate ∧ h.rate < 2 ^ 32 ∧
  int32 h.bitrateMaximum ∧ int32 h.bitrateNominal ∧ int32 h.bitrateMinimum ∧
  6 ≤ h.blocksize0 ∧ h.blocksize0 ≤ h.blocksize1 ∧ h.blocksize1 ≤ 13 ∧ h.stream.OK (ident h)

instance (h : Fields) : Decidable h.OK := by unfold Fields.OK; infer_instance

/-- The three bitrate fields are hints (values ≤ 0 mean "unset").  The bitrate of the stream is the
nominal one; if that is unset, the mean of the limits; a limit the nominal value violates replaces it. -/
def bitrate (h : Fields) : Int :=
  let mx := max 0 h.bitrateMaximum
  let mn := max 0 h.bitrateMinimum
  let nom := max 0 h.bitrateNominal
  if nom = 0 then (mx + mn) / 2 else if mx ≠ 0 ∧ mx < nom then mx else if mn > nom then mn else nom

/-- the duration is the final granule position (a sample count) over the sample rate -/
def expected (h : Fields) : Info.Vorbis.Info :=
  { channels := h.channels, sampleRate := h.rate, bitrate := bitrate h, serial := h.stream.serial,
    length := .div (.int h.stream.lastGranule) (.flt (.nat h.rate)) }

end Vorbis

/-! ### Opus, RFC 7845 §5.1 -/
namespace Opus

structure Fields where
  version : Nat
  channels : Nat
  preSkip : Nat
  inputSampleRate : Nat
  outputGain : Int
  mappingFamily : Nat
  /-- the channel mapping table (present unless the family is 0) -/
  mappingTable : Bytes
  stream : Container
deriving DecidableEq, Repr

def ident (h : Fields) : Bytes :=
  [0x4F, 0x70, 0x75, 0x73, 0x48, 0x65, 0x61, 0x64] ++ toLE 1 h.version ++ toLE 1 h.channels ++ toLE 2 h.preSkip ++
  toLE 4 h.inputSampleRate ++ toSignedLE 2 h.outputGain ++ toLE 1 h.mappingFamily ++ h.mappingTable

def build (h : Fields) : Bytes := OggS.build h.stream (ident h)

/-- versions 0…15 are the ones a version-1 reader must accept -/
def Fields.OK (h : Fields) : Prop :=
  h.version < 16 ∧ 1 ≤ h.channels ∧ h.channels ≤ 255 ∧ h.preSkip < 2 ^ 16 ∧ h.inputSampleRate < 2 ^ 32 ∧
  -(2 ^ 15 : Int) ≤ h.outputGain ∧ h.outputGain < (2 ^ 15 : Int) ∧ h.mappingFamily < 256 ∧ h.stream.OK (ident h)

instance (h : Fields) : Decidable h.OK := by unfold Fields.OK; infer_instance

/-- RFC 7845 §4.3: the PCM length is the final granule position minus the pre-skip, at 48 kHz -/
def expected (h : Fields) : Info.Opus.Info :=
  { channels := h.channels, serial := h.stream.serial, preSkip := h.preSkip,
    length := .div (.int ((h.stream.lastGranule : Int) - h.preSkip)) (.flt (.int 48000)) }

end Opus

/-! ### Speex: `SpeexHeader` of the Speex manual (80 bytes, little-endian 32-bit fields) -/
namespace Speex

structure Fields where
  /-- speex_version[20] -/
  versionString : Bytes
  versionId : Nat
  headerSize : Nat
  rate : Nat
  mode : Nat
  modeBitstreamVersion : Nat
  channels : Nat
  /-- -1 when the encoder did not set it -/
  bitrate : Int
  /-- frame_size, vbr, frames_per_packet, extra_headers, reserved1, reserved2 (6 × 4 bytes) -/
  rest : Bytes
  stream : Container
deriving DecidableEq, Repr

def ident (h : Fields) : Bytes :=
  [0x53, 0x70, 0x65, 0x65, 0x78, 0x20, 0x20, 0x20] ++ h.versionString ++ toLE 4 h.versionId ++ toLE 4 h.headerSize ++
  toLE 4 h.rate ++ toLE 4 h.mode ++ toLE 4 h.modeBitstreamVersion ++ toLE 4 h.channels ++ toSignedLE 4 h.bitrate ++ h.rest

def build (h : Fields) : Bytes := OggS.build h.stream (ident h)

def Fields.OK (h : Fields) : Prop :=
  h.versionString.length = 20 ∧ h.versionId < 2 ^ 31 ∧ h.headerSize < 2 ^ 31 ∧ 1 ≤ h.rate ∧ h.rate < 2 ^ 31 ∧
  h.mode < 2 ^ 31 ∧ h.modeBitstreamVersion < 2 ^ 31 ∧ 1 ≤ h.channels ∧ h.channels < 2 ^ 31 ∧ int32 h.bitrate ∧
  h.rest.length = 24 ∧ h.stream.OK (ident h)

instance (h : Fields) : Decidable h.OK := by unfold Fields.OK; infer_instance

def expected (h : Fields) : Info.Speex.Info :=
  { sampleRate := h.rate, channels := h.channels, bitrate := max 0 h.bitrate, serial := h.stream.serial,
    length := .div (.int h.stream.lastGranule) (.flt (.nat h.rate)) }

end Speex

/-! ### Theora I, §6.2 -/
namespace Theora

structure Fields where
  vrev : Nat
  fmbw : Nat
  fmbh : Nat
  picw : Nat
  pich : Nat
  picx : Nat
  picy : Nat
  frn : Nat
  frd : Nat
  parn : Nat
  pard : Nat
  cs : Nat
  nombr : Nat
  qual : Nat
  kfgshift : Nat
  pf : Nat
  /-- the final granule position is `lastKeyframe · 2^KFGSHIFT + lastOffset` -/
  lastKeyframe : Nat
  lastOffset : Nat
  stream : Container
deriving DecidableEq, Repr

/-- 0x80 "theora", VMAJ 3, VMIN 2, VREV, FMBW, FMBH, PICW, PICH, PICX, PICY, FRN, FRD, PARN, PARD, CS, NOMBR,
QUAL (6 bits), KFGSHIFT (5), PF (2), 3 reserved bits -/
def ident (h : Fields) : Bytes :=
  [0x80, 0x74, 0x68, 0x65, 0x6F, 0x72, 0x61] ++ [3, 2] ++ toBE 1 h.vrev ++ toBE 2 h.fmbw ++ toBE 2 h.fmbh ++
  toBE 3 h.picw ++ toBE 3 h.pich ++ toBE 1 h.picx ++ toBE 1 h.picy ++ toBE 4 h.frn ++ toBE 4 h.frd ++
  toBE 3 h.parn ++ toBE 3 h.pard ++ toBE 1 h.cs ++ toBE 3 h.nombr ++
  toBE 2 (h.qual * 1024 + h.kfgshift * 32 + h.pf * 8)

def build (h : Fields) : Bytes := OggS.build h.stream (ident h)

def Fields.OK (h : Fields) : Prop :=
  h.vrev < 256 ∧ h.fmbw < 2 ^ 16 ∧ h.fmbh < 2 ^ 16 ∧ h.picw < 2 ^ 24 ∧ h.pich < 2 ^ 24 ∧ h.picx < 256 ∧ h.picy < 256 ∧
  1 ≤ h.frn ∧ h.frn < 2 ^ 32 ∧ 1 ≤ h.frd ∧ h.frd < 2 ^ 32 ∧ h.parn < 2 ^ 24 ∧ h.pard < 2 ^ 24 ∧ h.cs < 256 ∧
  h.nombr < 2 ^ 24 ∧ h.qual < 64 ∧ h.kfgshift < 32 ∧ h.pf < 4 ∧
  h.lastOffset < 2 ^ h.kfgshift ∧ h.stream.lastGranule = h.lastKeyframe * 2 ^ h.kfgshift + h.lastOffset ∧
  h.stream.OK (ident h)

instance (h : Fields) : Decidable h.OK := by unfold Fields.OK; infer_instance

/-- §A.2.3: the granule position names the last frame by the index of its key frame and the offset from
it; bitstreams of revision 3.2.0 count frames from 0 (so the number of frames is index + 1), later
revisions from 1.  The duration is the number of frames over FRN/FRD. -/
def frameCount (h : Fields) : Nat := h.lastKeyframe + h.lastOffset + (if h.vrev = 0 then 1 else 0)

def expected (h : Fields) : Info.Theora.Info :=
  { fpsNum := h.frn, fpsDen := h.frd, bitrate := h.nombr, granuleShift := h.kfgshift, serial := h.stream.serial,
    length := .div (.int (frameCount h)) (.flt (.div (.nat h.frn) (.flt (.nat h.frd)))) }

end Theora

/-! ### FLAC in Ogg, mapping version 1.0 -/
namespace OggFlac

structure Fields where
  /-- number of header packets that follow (0 = unknown) -/
  numHeaders : Nat
  /-- the first byte of the metadata block header: last-block flag and block type 0 -/
  blockHead : Nat
  si : Flac.StreamInfo
  stream : Container
deriving DecidableEq, Repr

/-- the STREAMINFO block of the FLAC format from its nine fields -/
def streamInfoBytes (s : Flac.StreamInfo) : Bytes :=
  bitsToBytes (packFields [(16, s.minBlocksize), (16, s.maxBlocksize), (24, s.minFramesize),
    (24, s.maxFramesize), (20, s.sampleRate), (3, s.channels - 1), (5, s.bitsPerSample - 1),
    (36, s.totalSamples), (128, s.md5)])

/-- 0x7F "FLAC", mapping version 1.0, number of header packets, "fLaC", the metadata block header of the
STREAMINFO block (length 34), the block -/
def ident (h : Fields) : Bytes :=
  [0x7F, 0x46, 0x4C, 0x41, 0x43] ++ [1, 0] ++ toBE 2 h.numHeaders ++ [0x66, 0x4C, 0x61, 0x43] ++
  toBE 1 h.blockHead ++ toBE 3 34 ++ streamInfoBytes h.si

def build (h : Fields) : Bytes := OggS.build h.stream (ident h)

def Fields.OK (h : Fields) : Prop :=
  h.numHeaders < 2 ^ 16 ∧ (h.blockHead = 0 ∨ h.blockHead = 128) ∧
  h.si.minBlocksize < 2 ^ 16 ∧ h.si.maxBlocksize < 2 ^ 16 ∧ h.si.minFramesize < 2 ^ 24 ∧ h.si.maxFramesize < 2 ^ 24 ∧
  1 ≤ h.si.sampleRate ∧ h.si.sampleRate < 2 ^ 20 ∧ 1 ≤ h.si.channels ∧ h.si.channels ≤ 8 ∧
  1 ≤ h.si.bitsPerSample ∧ h.si.bitsPerSample ≤ 32 ∧ h.si.totalSamples < 2 ^ 36 ∧ h.si.md5 < 2 ^ 128 ∧
  h.stream.OK (ident h)

instance (h : Fields) : Decidable h.OK := by unfold Fields.OK; infer_instance

/-- total samples 0 means "unknown": then the final granule position is the sample count -/
def expected (h : Fields) : Info.OggFlac.Info :=
  { minBlocksize := h.si.minBlocksize, maxBlocksize := h.si.maxBlocksize, sampleRate := h.si.sampleRate,
    channels := h.si.channels, bitsPerSample := h.si.bitsPerSample, totalSamples := h.si.totalSamples,
    packets := h.numHeaders, serial := h.stream.serial,
    length := if h.si.totalSamples ≠ 0 then .div (.nat h.si.totalSamples) (.flt (.nat h.si.sampleRate))
              else .div (.int h.stream.lastGranule) (.flt (.nat h.si.sampleRate)) }

end OggFlac

end Mutagen.Spec
