/-
Spec/Info/Ac3.lean — what the fixed fields of an AC-3 / E-AC-3 frame mean (ATSC A/52, ETSI TS 102 366:
syncinfo() and bsi()); nothing here is taken from mutagen's parser.

AC-3: fscod (2 bits; 3 reserved) selects 48 / 44.1 / 32 kHz; frmsizecod (6 bits, 0..37) selects the nominal
bit rate `table 5.18[frmsizecod / 2]` kbit/s; bsid 9 and 10 are the half- and quarter-rate variants (rate and
bit rate shifted right by bsid - 8); acmod (3 bits) gives the number of full-bandwidth channels (table 5.8),
lfeon adds the LFE channel.
E-AC-3: strmtyp (3 reserved); frmsiz: the frame has (frmsiz + 1) 16-bit words; fscod, or fscod2 with half the
rate when fscod = 3 (then six blocks per frame); numblkscod selects 1, 2, 3, 6 blocks of 256 samples; the data
rate of the substream is frame bits · rate / (blocks · 256).
-/
import MutagenModel.Model.Info.Ac3
import MutagenModel.Spec.Tables
namespace Mutagen.Spec.Ac3
open Mutagen

def shift (bsid : Nat) : Nat := if bsid > 8 then bsid - 8 else 0

/-- (sample rate, bit rate, channels) of an AC-3 frame -/
def ac3Values (bsid fscod frmsizecod acmod lfeon : Nat) : Nat × Nat × Nat :=
  (Spec.Tables.ac3SampleRates.getD fscod 0 / 2 ^ shift bsid,
   Spec.Tables.ac3Bitrates.getD (frmsizecod / 2) 0 * 1000 / 2 ^ shift bsid,
   Spec.Tables.ac3Channels.getD acmod 0 + lfeon)

def eac3Rate (fscod fscod2 : Nat) : Nat :=
  if fscod = 3 then Spec.Tables.ac3SampleRates.getD fscod2 0 / 2 else Spec.Tables.ac3SampleRates.getD fscod 0

/-- (sample rate, bit rate, channels) of an E-AC-3 frame -/
def eac3Values (frmsiz fscod fscod2 numblkscod acmod lfeon : Nat) : Nat × Nat × Nat :=
  (eac3Rate fscod fscod2,
   8 * ((frmsiz + 1) * 2) * eac3Rate fscod fscod2 / (Spec.Tables.eac3Blocks.getD numblkscod 0 * 256),
   Spec.Tables.ac3Channels.getD acmod 0 + lfeon)

end Mutagen.Spec.Ac3
