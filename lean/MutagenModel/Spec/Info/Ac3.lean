/-
Spec/Info/Ac3.lean — what the fixed fields of an AC-3 / E-AC-3 frame mean (ATSC A/52, ETSI TS 102 366:
syncinfo() and bsi()); nothing here is taken from mutagen's parser.

AC-3: fscod (2 bits; 3 reserved) selects 48 / 44.1 / 32 kHz; frmsizecod (6 bits, 0..37) selects the nominal
bit rate `table 5.18[frmsizecod / 2]` kbit/s; bsid 9 and 10 are the half- and quarter-rate variants (rate and
bit rate shifted right by bsid - 8); acmod (3 bits) gives the number of full-bandwidth channels (table 5.8),
lfeon adds the LFE channel.
E-AC-3: strmtyp (3 reserved); frmsiz: the frame has (frmsiz + 1) 16-bit words; fscod, or fscod2 with half the
rate when fscod = 3 (then six blocks per frame); numblkscod selects 1, 2, 3, 6 blocks of 256 samples; the data
rate of the substream is frame bits · rate / (blocks · 256).
-/
import MutagenModel.Model.Info.Ac3
import MutagenModel.Spec.Tables
namespace Mutagen.Spec.Ac3
open Mutagen

def shift (bsid : Nat) : Nat := if bsid > 8 then bsid - 8 else 0

/-- (sample rate, bit rate, channels) of an AC-3 frame -/
def ac3Values (bsid fscod frmsizecod acmod lfeon : Nat) : Nat × Nat × Nat :=
  (Spec.Tables.ac3SampleRates.getD fscod 0 / 2 ^ shift bsid,
   Spec.Tables.ac3Bitrates.getD (frmsizecod / 2) 0 * 1000 / 2 ^ shift bsid,
   Spec.Tables.ac3Channels.getD acmod 0 + lfeon)

def eac3Rate (fscod fscod2 : Nat) : Nat :=
  if fscod = 3 then Spec.Tables.ac3SampleRates.getD fscod2 0 / 2 else Spec.Tables.ac3SampleRates.getD fscod 0

/-- (sample rate, bit rate, channels) of an E-AC-3 frame -/
def eac3Values (frmsiz fscod fscod2 numblkscod acmod lfeon : Nat) : Nat × Nat × Nat :=
  (eac3Rate fscod fscod2,
   8 * ((frmsiz + 1) * 2) * eac3Rate fscod fscod2 / (Spec.Tables.eac3Blocks.getD numblkscod 0 * 256),
   Spec.Tables.ac3Channels.getD acmod 0 + lfeon)

end Mutagen.Spec.Ac3

/-! ## the syncframe header as bits (ETSI TS 102 366 / ATSC A/52: syncinfo(), bsi()), most significant bit first -/
namespace Mutagen.Spec.Ac3
open Mutagen Mutagen.Info

/-- an optional field: its "exists" flag, then the value if present -/
def optBits (w : Nat) : Option Nat → List Bool
  | none => natToBits 1 0
  | some v => natToBits 1 1 ++ natToBits w v

def optOK (w : Nat) : Option Nat → Prop
  | none => True
  | some v => v < 2 ^ w

instance (w : Nat) (o : Option Nat) : Decidable (optOK w o) := by cases o <;> simp only [optOK] <;> infer_instance

/-- additional bit stream information: flag, length - 1 (6 bits), the bytes -/
def addbsiBits : Option Bytes → List Bool
  | none => natToBits 1 0
  | some b => natToBits 1 1 ++ natToBits 6 (b.length - 1) ++ bytesToBits b

def addbsiOK : Option Bytes → Prop
  | none => True
  | some b => 1 ≤ b.length ∧ b.length ≤ 64

instance (o : Option Bytes) : Decidable (addbsiOK o) := by cases o <;> simp only [addbsiOK] <;> infer_instance

/-- zero bits up to the next byte boundary -/
def padBits (bits : List Bool) : List Bool := List.replicate ((8 - bits.length % 8) % 8) false

/-- dialnorm, compre/compr, langcode/langcod, audprodie/(mixlevel, roomtyp) of one programme -/
structure Group where
  dialnorm : Nat
  compr : Option Nat
  langcod : Option Nat
  audprod : Option Nat

def Group.OK (g : Group) : Prop := g.dialnorm < 2 ^ 5 ∧ optOK 8 g.compr ∧ optOK 8 g.langcod ∧ optOK 7 g.audprod
instance (g : Group) : Decidable g.OK := by unfold Group.OK; infer_instance

def Group.bits (g : Group) : List Bool :=
  natToBits 5 g.dialnorm ++ (optBits 8 g.compr ++ (optBits 8 g.langcod ++ optBits 7 g.audprod))

structure Ac3 where
  crc1 : Nat
  fscod : Nat
  frmsizecod : Nat
  bsid : Nat
  bsmod : Nat
  acmod : Nat
  cmixlev : Nat
  surmixlev : Nat
  dsurmod : Nat
  lfeon : Nat
  g1 : Group
  /-- second programme, present for acmod 0 (1+1) -/
  g2 : Group
  copyrightb : Nat
  origbs : Nat
  /-- timecod1 / timecod2 (xbsi1 / xbsi2 in the alternate syntax, same widths) -/
  timecod1 : Option Nat
  timecod2 : Option Nat
  addbsi : Option Bytes
  /-- what follows the header: audio blocks of this frame, further frames -/
  payload : Bytes

def Ac3.OK (h : Ac3) : Prop :=
  h.crc1 < 2 ^ 16 ∧ h.fscod < 3 ∧ h.frmsizecod < 38 ∧ h.bsid ≤ 10 ∧ h.bsmod < 2 ^ 3 ∧ h.acmod < 2 ^ 3 ∧ h.cmixlev < 2 ^ 2 ∧
  h.surmixlev < 2 ^ 2 ∧ h.dsurmod < 2 ^ 2 ∧ h.lfeon < 2 ∧ h.g1.OK ∧ h.g2.OK ∧ h.copyrightb < 2 ∧ h.origbs < 2 ∧
  optOK 14 h.timecod1 ∧ optOK 14 h.timecod2 ∧ addbsiOK h.addbsi

instance (h : Ac3) : Decidable h.OK := by unfold Ac3.OK; infer_instance

/-- the fixed fields up to lfeon (behind the syncword) -/
def Ac3.fieldBits (h : Ac3) : List Bool :=
  natToBits 16 h.crc1 ++ (natToBits 2 h.fscod ++ (natToBits 6 h.frmsizecod ++ (natToBits 5 h.bsid ++ (natToBits 3 h.bsmod ++
    (natToBits 3 h.acmod ++
    ((if h.acmod % 2 = 1 ∧ h.acmod ≠ 1 then natToBits 2 h.cmixlev else []) ++
    ((if h.acmod / 4 % 2 = 1 then natToBits 2 h.surmixlev else []) ++
    ((if h.acmod = 2 then natToBits 2 h.dsurmod else []) ++ natToBits 1 h.lfeon))))))))

/-- the rest of bsi(): each "exists" flag is directly followed by its field (timecod1e, timecod1, timecod2e, timecod2) -/
def Ac3.tailBits (h : Ac3) : List Bool :=
  h.g1.bits ++ ((if h.acmod = 0 then h.g2.bits else []) ++
    (natToBits 1 h.copyrightb ++ (natToBits 1 h.origbs ++ (optBits 14 h.timecod1 ++ (optBits 14 h.timecod2 ++
    addbsiBits h.addbsi)))))

def Ac3.bits (h : Ac3) : List Bool := h.fieldBits ++ h.tailBits

def Ac3.build (h : Ac3) : Bytes :=
  [0x0b, 0x77] ++ (bitsToBytes (h.bits ++ padBits h.bits) ++ h.payload)

/-- rate, nominal bit rate, channels; `length` is mutagen's documented guess: the bits behind the header of the
first frame over the nominal bit rate -/
def Ac3.expected (h : Ac3) : Ac3.Info :=
  let v := ac3Values h.bsid h.fscod h.frmsizecod h.acmod h.lfeon
  { channels := v.2.2, sampleRate := v.1, bitrate := v.2.1,
    length := if v.2.1 = 0 then none else some ⟨8 * (h.payload.length : Int), v.2.1⟩, eac3 := false }

end Mutagen.Spec.Ac3

/-! ## E-AC-3 (ETSI TS 102 366 Annex E): syncinfo() + bsi(), streams without mixing metadata (mixmdate = 0) -/
namespace Mutagen.Spec.Ac3
open Mutagen Mutagen.Info

/-- informational metadata (behind infomdate = 1) -/
structure InfoMd where
  bsmod : Nat
  copyrightb : Nat
  origbs : Nat
  /-- dsurmod + dheadphonmod (acmod 2) -/
  dsur4 : Nat
  /-- dsurexmod (acmod ≥ 6) -/
  dsurex : Nat
  /-- mixlevel, roomtyp, adconvtyp of the programme(s) -/
  audprod : Option Nat
  audprod2 : Option Nat
  sourcefscod : Nat

structure Eac3 where
  strmtyp : Nat
  substreamid : Nat
  frmsiz : Nat
  fscod : Nat
  /-- used when fscod = 3 -/
  fscod2 : Nat
  /-- used when fscod ≠ 3 (six blocks are implied otherwise) -/
  numblkscod : Nat
  acmod : Nat
  lfeon : Nat
  bsid : Nat
  dialnorm : Nat
  compr : Option Nat
  dialnorm2 : Nat
  compr2 : Option Nat
  /-- dependent substreams (strmtyp 1) -/
  chanmap : Option Nat
  info : Option InfoMd
  convsync : Nat
  /-- strmtyp 2 with fewer than six blocks: the blkid bit; `frmsizecod` follows when blkid = 1 (always for six blocks) -/
  blkid : Nat
  frmsizecod : Nat
  addbsi : Option Bytes
  payload : Bytes

def Eac3.blocksCode (h : Eac3) : Nat := if h.fscod = 3 then 3 else h.numblkscod

def InfoMd.OK (i : InfoMd) : Prop :=
  i.bsmod < 2 ^ 3 ∧ i.copyrightb < 2 ∧ i.origbs < 2 ∧ i.dsur4 < 2 ^ 4 ∧ i.dsurex < 2 ^ 2 ∧ optOK 8 i.audprod ∧ optOK 8 i.audprod2 ∧
  i.sourcefscod < 2
instance (i : InfoMd) : Decidable i.OK := by unfold InfoMd.OK; infer_instance

def Eac3.OK (h : Eac3) : Prop :=
  h.strmtyp < 3 ∧ h.substreamid < 2 ^ 3 ∧ 3 ≤ h.frmsiz ∧ h.frmsiz < 2 ^ 11 ∧ h.fscod < 4 ∧ h.fscod2 < 3 ∧ h.numblkscod < 4 ∧
  h.acmod < 2 ^ 3 ∧ h.lfeon < 2 ∧ 11 ≤ h.bsid ∧ h.bsid ≤ 16 ∧ h.dialnorm < 2 ^ 5 ∧ optOK 8 h.compr ∧ h.dialnorm2 < 2 ^ 5 ∧
  optOK 8 h.compr2 ∧ optOK 16 h.chanmap ∧ (∀ i, h.info = some i → i.OK) ∧ h.convsync < 2 ∧ h.blkid < 2 ∧ h.frmsizecod < 2 ^ 6 ∧
  addbsiOK h.addbsi

instance (h : Eac3) : Decidable h.OK := by
  unfold Eac3.OK
  have : Decidable (∀ i, h.info = some i → i.OK) := by
    cases h.info with
    | none => exact isTrue (by intro i hi; cases hi)
    | some v =>
      by_cases hv : v.OK
      · exact isTrue (by intro i hi; cases hi; exact hv)
      · exact isFalse (fun hh => hv (hh v rfl))
  infer_instance

/-- the fixed fields up to the bitstream id (behind the syncword) -/
def Eac3.fieldBits (h : Eac3) : List Bool :=
  natToBits 2 h.strmtyp ++ (natToBits 3 h.substreamid ++ (natToBits 11 h.frmsiz ++ (natToBits 2 h.fscod ++
    ((if h.fscod = 3 then natToBits 2 h.fscod2 else natToBits 2 h.numblkscod) ++
    (natToBits 3 h.acmod ++ (natToBits 1 h.lfeon ++ natToBits 5 h.bsid))))))

def InfoMd.bits (i : InfoMd) (acmod fscod : Nat) : List Bool :=
  natToBits 3 i.bsmod ++ (natToBits 1 i.copyrightb ++ (natToBits 1 i.origbs ++
    ((if acmod = 2 then natToBits 4 i.dsur4 else []) ++ ((if acmod ≥ 6 then natToBits 2 i.dsurex else []) ++
    (optBits 8 i.audprod ++ ((if acmod = 0 then optBits 8 i.audprod2 else []) ++
    (if fscod < 3 then natToBits 1 i.sourcefscod else [])))))))

def infoBits (acmod fscod : Nat) : Option InfoMd → List Bool
  | none => natToBits 1 0
  | some i => natToBits 1 1 ++ i.bits acmod fscod

def Eac3.tailBits (h : Eac3) : List Bool :=
  natToBits 5 h.dialnorm ++ (optBits 8 h.compr ++
    ((if h.acmod = 0 then natToBits 5 h.dialnorm2 ++ optBits 8 h.compr2 else []) ++
    ((if h.strmtyp = 1 then optBits 16 h.chanmap else []) ++
    (natToBits 1 0 ++                                  -- mixmdate
    (infoBits h.acmod h.fscod h.info ++
    ((if h.strmtyp = 0 ∧ h.blocksCode ≠ 3 then natToBits 1 h.convsync else []) ++
    ((if h.strmtyp = 2 then
        (if h.blocksCode = 3 then natToBits 6 h.frmsizecod
         else natToBits 1 h.blkid ++ (if h.blkid = 1 then natToBits 6 h.frmsizecod else []))
      else []) ++
    addbsiBits h.addbsi)))))))

def Eac3.bits (h : Eac3) : List Bool := h.fieldBits ++ h.tailBits

def Eac3.build (h : Eac3) : Bytes :=
  [0x0b, 0x77] ++ (bitsToBytes (h.bits ++ padBits h.bits) ++ h.payload)

/-- (sample rate, data rate, channels) -/
def Eac3.values (h : Eac3) : Nat × Nat × Nat := eac3Values h.frmsiz h.fscod h.fscod2 h.blocksCode h.acmod h.lfeon

/-- rate, data rate, channels; `length` is mutagen's documented guess: the bits behind the header of the first frame over
the data rate -/
def Eac3.expected (h : Eac3) : Ac3.Info :=
  { channels := h.values.2.2, sampleRate := h.values.1, bitrate := h.values.2.1,
    length := if h.values.2.1 = 0 then none else some ⟨8 * (h.payload.length : Int), h.values.2.1⟩, eac3 := true }

end Mutagen.Spec.Ac3
