/- Spec/Info/IffChunk.lean — a chunk as EA IFF 85 / RIFF / DSDIFF define it: id, size, data, and one
zero pad byte when the size is odd. -/
import MutagenModel.Model.Container.Iff
import MutagenModel.Model.Info.Common
namespace Mutagen.Spec
open Mutagen Mutagen.Iff

def mkChunk (id data : Bytes) : Chunk := ⟨id, data, zeros (data.length % 2)⟩

end Mutagen.Spec
