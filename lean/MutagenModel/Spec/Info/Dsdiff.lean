/-
Spec/Info/Dsdiff.lean — Philips "DSDIFF 1.5 File Format Specification": `FRM8 <size:8> "DSD "` with the
local chunks FVER (format version), PROP (`"SND "` + FS: sample rate, CHNL: numChannels + channel ids,
CMPR: compression type + counted name, optionally ABSS, LSCO …), then the sound data: a `DSD ` chunk with
the interleaved channel bytes, or a `DST ` chunk holding FRTE (numFrames, frameRate) and the DST frame
chunks; further chunks (COMT, DIIN, ID3 …) may follow.  Big-endian, 8-byte sizes, chunks padded to even
length.  Does not mention mutagen's parser.
-/
import MutagenModel.Spec.Info.IffChunk
import MutagenModel.Model.Info.Dsdiff
import MutagenModel.Proofs.Container.Iff
namespace Mutagen.Spec.Dsdiff
open Mutagen Mutagen.Iff Mutagen.Info Mutagen.Spec

inductive Audio
  /-- not compressed: the sample bytes -/
  | dsd (sound : Bytes)
  /-- DST: the frame information chunk's two fields and the frame chunks (DSTF, DSTC) behind it -/
  | dst (numFrames frameRate : Nat) (frames : List Chunk)
deriving DecidableEq, Repr

structure Fields where
  version : Nat
  sampleRate : Nat
  numChannels : Nat
  /-- `numChannels` four-byte channel ids -/
  channelIds : Bytes
  /-- "DSD " or "DST " -/
  compressionType : Bytes
  compressionName : Bytes
  /-- the other property chunks (ABSS, LSCO, …) -/
  propExtra : List Chunk
  audio : Audio
  /-- the chunks behind the sound data -/
  after : List Chunk
deriving DecidableEq, Repr

def propChunks (h : Fields) : List Chunk :=
  mkChunk (ascii "FS  ") (toBE 4 h.sampleRate) ::
  mkChunk (ascii "CHNL") (toBE 2 h.numChannels ++ h.channelIds) ::
  mkChunk (ascii "CMPR") (h.compressionType ++ [UInt8.ofNat h.compressionName.length] ++ h.compressionName) ::
  h.propExtra

def propChunk (h : Fields) : Chunk := mkChunk (ascii "PROP") (ascii "SND " ++ renderChunks dsdiff (propChunks h))

def frteChunk (n r : Nat) : Chunk := mkChunk (ascii "FRTE") (toBE 4 n ++ toBE 2 r)

def audioChunk (h : Fields) : Chunk :=
  match h.audio with
  | .dsd s => mkChunk (ascii "DSD ") s
  | .dst n r fr => mkChunk (ascii "DST ") (renderChunks dsdiff (frteChunk n r :: fr))

def chunks (h : Fields) : List Chunk :=
  mkChunk (ascii "FVER") (toBE 4 h.version) :: propChunk h :: audioChunk h :: h.after

def build (h : Fields) : Bytes := renderFile dsdiff (ascii "DSD ") (chunks h)

/-- the size of what the sound data chunk holds besides its own structure -/
def Audio.bytes : Audio → Nat
  | .dsd s => s.length
  | .dst _ _ fr => (renderChunks dsdiff fr).length

def Audio.OK : Audio → Bytes → Prop
  | .dsd _, ct => ct = ascii "DSD "
  | .dst n r fr, ct => ct = ascii "DST " ∧ n < 2 ^ 32 ∧ 1 ≤ r ∧ r < 2 ^ 16 ∧ ∀ c ∈ fr, c.OK dsdiff

instance (a : Audio) (ct : Bytes) : Decidable (a.OK ct) := by
  cases a <;> (unfold Audio.OK; infer_instance)

/-- ranges: a positive 32-bit sample rate, 1…65535 channels with their ids, a compression type that
matches the kind of sound data chunk, a counted name, exactly one FS, CHNL and CMPR chunk, well-formed
other chunks, 64-bit sizes -/
def Fields.OK (h : Fields) : Prop :=
  h.version < 2 ^ 32 ∧ 1 ≤ h.sampleRate ∧ h.sampleRate < 2 ^ 32 ∧
  1 ≤ h.numChannels ∧ h.numChannels < 2 ^ 16 ∧ h.channelIds.length = 4 * h.numChannels ∧
  h.compressionName.length < 256 ∧ h.audio.OK h.compressionType ∧
  (∀ c ∈ h.propExtra ++ h.after, c.OK dsdiff) ∧
  (∀ c ∈ h.propExtra, sid c ≠ Dsdiff.idFS ∧ sid c ≠ Dsdiff.idChnl ∧ sid c ≠ Dsdiff.idCmpr) ∧
  h.channelIds.length + h.compressionName.length + (renderChunks dsdiff h.propExtra).length + h.audio.bytes +
    (renderChunks dsdiff h.after).length + 256 < 2 ^ 64

instance (h : Fields) : Decidable h.OK := by unfold Fields.OK; infer_instance

/-- what the header encodes.  DSD: one bit per sample, eight samples of a channel per byte, channel bytes
interleaved: `bytes · 8 / channels` samples per channel; the data rate is channels × sample rate.
DST: `numFrames / frameRate` seconds; the data rate is the average size of a frame (the DST chunk's
contents besides the frame information chunk, over numFrames) × 8 × frameRate. -/
def expected (h : Fields) : Dsdiff.Info :=
  match h.audio with
  | .dsd s =>
    { channels := h.numChannels, sampleRate := h.sampleRate, bitsPerSample := 1,
      bitrate := .nat (h.numChannels * h.sampleRate),
      length := .div (.div (.nat (s.length * 8)) (.nat h.numChannels)) (.flt (.nat h.sampleRate)),
      compression := some Dsdiff.idDSD }
  | .dst n r fr =>
    { channels := h.numChannels, sampleRate := h.sampleRate, bitsPerSample := 1,
      bitrate := if n ≠ 0 then .mul (.mul (.div (.int ((renderChunks dsdiff fr).length : Nat)) (.nat n)) (.int 8)) (.nat r)
                 else .int 0,
      length := .div (.nat n) (.nat r),
      compression := some Dsdiff.idDST }

end Mutagen.Spec.Dsdiff
