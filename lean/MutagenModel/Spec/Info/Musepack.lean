/-
Spec/Info/Musepack.lean — the Musepack SV7 header (as documented by the Musepack project /
libmpcdec `streaminfo.c`) and the SV8 container ("SV8 stream specification"); nothing here is
taken from mutagen's parser.

SV7 (little-endian words):
  "MP+" · version byte (low nibble 7, high nibble minor version) · frame count u32 ·
  u32: bit 31 intensity stereo, 30 mid/side, 24-29 max band, 20-23 profile, 18-19 link, 16-17 sample
       rate index (44100, 48000, 37800, 32000), 0-15 max level ·
  title peak u16 · title gain s16 (1/100 dB) · album peak u16 · album gain s16 ·
  u32: bit 31 true gapless, 20-30 samples in the last frame, 19 fast seeking, 0-18 unused ·
  u32: bits 24-31 encoder version, 0-23 unused.
  Frames hold 1152 samples.  With the true-gapless flag the stream has
  (frames-1)·1152 + last-frame-samples samples; without it the customary value is frames·1152 - 576.

SV8: "MPCK", then packets: two-letter key · size (variable-length integer: 7 bits per byte, most
  significant group first, top bit set on all but the last byte; it counts key, size field and payload) ·
  payload.  SH payload: CRC-32 (4 bytes) · stream version u8 · sample count (varint) · beginning silence
  (varint) · [sample rate index 3 bits, max band - 1 5 bits] · [channels - 1 4 bits, mid/side 1 bit,
  frames-per-packet power 3 bits] (then zero padding).  RG payload: version u8 · title gain s16 · title
  peak u16 · album gain s16 · album peak u16 (big-endian; 0 = not set).  Playable samples = sample
  count - beginning silence.
-/
import MutagenModel.Model.Info.Musepack
import MutagenModel.Spec.Tables
namespace Mutagen.Spec.Musepack
open Mutagen Mutagen.Info Mutagen.Info.Musepack

def rate (idx : Nat) : Nat := Spec.Tables.musepackRates.getD idx 0

/-- two's complement 16 bit -/
def enc16 (i : Int) : Nat := if i < 0 then (2 ^ 16 - (-i).toNat) else i.toNat

/-! ### SV7 -/

structure Sv7 where
  minor : Nat
  frames : Nat
  intensity : Nat
  midSide : Nat
  maxBand : Nat
  profile : Nat
  link : Nat
  rateIndex : Nat
  maxLevel : Nat
  titlePeak : Nat
  titleGain : Int
  albumPeak : Nat
  albumGain : Int
  trueGapless : Nat
  lastFrameSamples : Nat
  fastSeek : Nat
  unused5 : Nat
  encoder : Nat
  unused6 : Nat

def Sv7.OK (h : Sv7) : Prop :=
  h.minor < 2 ^ 4 ∧ 1 ≤ h.frames ∧ h.frames < 2 ^ 32 ∧ h.intensity < 2 ∧ h.midSide < 2 ∧ h.maxBand < 2 ^ 6 ∧
  h.profile < 2 ^ 4 ∧ h.link < 2 ^ 2 ∧ h.rateIndex < 4 ∧ h.maxLevel < 2 ^ 16 ∧ h.titlePeak < 2 ^ 16 ∧
  -2 ^ 15 ≤ h.titleGain ∧ h.titleGain < 2 ^ 15 ∧ h.albumPeak < 2 ^ 16 ∧ -2 ^ 15 ≤ h.albumGain ∧ h.albumGain < 2 ^ 15 ∧
  h.trueGapless < 2 ∧ h.lastFrameSamples < 2 ^ 11 ∧ h.fastSeek < 2 ∧ h.unused5 < 2 ^ 19 ∧ h.encoder < 2 ^ 8 ∧
  h.unused6 < 2 ^ 24 ∧ (h.trueGapless = 1 → 1 ≤ h.lastFrameSamples ∧ h.lastFrameSamples ≤ 1152)

instance (h : Sv7) : Decidable h.OK := by unfold Sv7.OK; infer_instance

def Sv7.word2 (h : Sv7) : Nat :=
  2 ^ 31 * h.intensity + 2 ^ 30 * h.midSide + 2 ^ 24 * h.maxBand + 2 ^ 20 * h.profile + 2 ^ 18 * h.link +
    2 ^ 16 * h.rateIndex + h.maxLevel

def Sv7.word5 (h : Sv7) : Nat :=
  2 ^ 31 * h.trueGapless + 2 ^ 20 * h.lastFrameSamples + 2 ^ 19 * h.fastSeek + h.unused5

def Sv7.build (h : Sv7) : Bytes :=
  [0x4d, 0x50, 0x2b] ++ toLE 1 (7 + 16 * h.minor) ++ toLE 4 h.frames ++ toLE 4 h.word2 ++ toLE 2 h.titlePeak ++
    toLE 2 (enc16 h.titleGain) ++ toLE 2 h.albumPeak ++ toLE 2 (enc16 h.albumGain) ++ toLE 4 h.word5 ++
    toLE 4 (2 ^ 24 * h.encoder + h.unused6)

/-- samples of the stream -/
def Sv7.samples (h : Sv7) : Int :=
  if h.trueGapless = 1 then ((h.frames : Int) - 1) * 1152 + h.lastFrameSamples else (h.frames : Int) * 1152 - 576

/-- `fileSize`: the size of the whole file (the average bit rate is file bits over duration) -/
def Sv7.expected (h : Sv7) (fileSize : Nat) : Musepack.Info :=
  { version := 7, channels := 2, sampleRate := rate h.rateIndex, length := ⟨h.samples, rate h.rateIndex⟩,
    bitrate := .fromSize (8 * fileSize), titleGain := .sv7 h.titleGain, titlePeak := .sv7 h.titlePeak,
    albumGain := .sv7 h.albumGain, albumPeak := .sv7 h.albumPeak }

/-! ### SV8 -/

/-- number of 7-bit groups of the variable-length integer (1..9 for numbers below 2^63) -/
def varintLen (n : Nat) : Nat :=
  if n < 128 ^ 1 then 1 else if n < 128 ^ 2 then 2 else if n < 128 ^ 3 then 3 else if n < 128 ^ 4 then 4
  else if n < 128 ^ 5 then 5 else if n < 128 ^ 6 then 6 else if n < 128 ^ 7 then 7 else if n < 128 ^ 8 then 8 else 9

/-- the `k` leading groups (continuation bit set) of a number `m` -/
def varintHi : Nat → Nat → Bytes
  | 0, _ => []
  | k + 1, m => UInt8.ofNat (128 + m / 128 ^ k % 128) :: varintHi k m

def varint (n : Nat) : Bytes := varintHi (varintLen n - 1) (n / 128) ++ [UInt8.ofNat (n % 128)]

/-- a packet other than SH, RG, AP, SE -/
structure Packet where
  key : Bytes
  /-- the size field: 2 + length of the size field + payload length -/
  size : Nat
  payload : Bytes

/-- two upper-case letters -/
def letters (k : Bytes) : Bool :=
  match k with
  | [a, b] => 0x41 ≤ a.toNat && a.toNat ≤ 0x5a && 0x41 ≤ b.toNat && b.toNat ≤ 0x5a
  | _ => false

def Packet.OK (p : Packet) : Prop :=
  letters p.key = true ∧ p.key ≠ keySH ∧ p.key ≠ keyRG ∧ p.key ≠ keyAP ∧ p.key ≠ keySE ∧
  p.size = 2 + varintLen p.size + p.payload.length ∧ p.size < 2 ^ 62

instance (p : Packet) : Decidable p.OK := by unfold Packet.OK; infer_instance

def Packet.bytes (p : Packet) : Bytes := p.key ++ varint p.size ++ p.payload

def packetsBytes : List Packet → Bytes
  | [] => []
  | p :: ps => p.bytes ++ packetsBytes ps

structure Sv8 where
  crc : Nat
  streamVersion : Nat
  samples : Nat
  beginSilence : Nat
  rateIndex : Nat
  maxBands : Nat
  channels : Nat
  midSide : Nat
  blockPwr : Nat
  /-- zero padding of the SH payload (any bytes) -/
  shPad : Bytes
  /-- size field of the SH packet -/
  shSize : Nat
  /-- packets between SH and RG -/
  mid : List Packet
  rgVersion : Nat
  titleGain : Int
  titlePeak : Nat
  albumGain : Int
  albumPeak : Nat
  rgPad : Bytes
  rgSize : Nat

def Sv8.shPayload (h : Sv8) : Bytes :=
  toBE 4 h.crc ++ toLE 1 h.streamVersion ++ varint h.samples ++ varint h.beginSilence ++
    toLE 1 (32 * h.rateIndex + (h.maxBands - 1)) ++ toLE 1 (16 * (h.channels - 1) + 8 * h.midSide + h.blockPwr) ++ h.shPad

def Sv8.rgPayload (h : Sv8) : Bytes :=
  toLE 1 h.rgVersion ++ toBE 2 (enc16 h.titleGain) ++ toBE 2 h.titlePeak ++ toBE 2 (enc16 h.albumGain) ++
    toBE 2 h.albumPeak ++ h.rgPad

def Sv8.OK (h : Sv8) : Prop :=
  h.crc < 2 ^ 32 ∧ h.streamVersion < 2 ^ 8 ∧ h.samples < 2 ^ 63 ∧ h.beginSilence < 2 ^ 63 ∧ h.rateIndex < 4 ∧
  1 ≤ h.maxBands ∧ h.maxBands ≤ 32 ∧ 1 ≤ h.channels ∧ h.channels ≤ 16 ∧ h.midSide < 2 ∧ h.blockPwr < 8 ∧
  h.shSize = 2 + varintLen h.shSize + h.shPayload.length ∧ h.shSize < 2 ^ 62 ∧
  (∀ p ∈ h.mid, p.OK) ∧
  h.rgVersion < 2 ^ 8 ∧ -2 ^ 15 ≤ h.titleGain ∧ h.titleGain < 2 ^ 15 ∧ h.titlePeak < 2 ^ 15 ∧
  -2 ^ 15 ≤ h.albumGain ∧ h.albumGain < 2 ^ 15 ∧ h.albumPeak < 2 ^ 15 ∧
  h.rgSize = 2 + varintLen h.rgSize + h.rgPayload.length ∧ h.rgSize < 2 ^ 62

instance (h : Sv8) : Decidable h.OK := by unfold Sv8.OK; infer_instance

def Sv8.build (h : Sv8) : Bytes :=
  [0x4d, 0x50, 0x43, 0x4b] ++ (keySH ++ (varint h.shSize ++ (h.shPayload ++ (packetsBytes h.mid ++
    (keyRG ++ (varint h.rgSize ++ h.rgPayload))))))

def rgAttr (x : Int) : RG := if x = 0 then .absent else .sv8 x

def Sv8.expected (h : Sv8) (fileSize : Nat) : Musepack.Info :=
  { version := h.streamVersion, channels := h.channels, sampleRate := rate h.rateIndex,
    length := ⟨(h.samples : Int) - h.beginSilence, rate h.rateIndex⟩,
    bitrate := if (h.samples : Int) - h.beginSilence ≠ 0 then .fromSize (8 * fileSize) else .value 0,
    titleGain := rgAttr h.titleGain, titlePeak := rgAttr h.titlePeak, albumGain := rgAttr h.albumGain,
    albumPeak := rgAttr h.albumPeak }

/-- the size field of a packet with `n` payload bytes: the fixed point `s = 2 + varintLen s + n` -/
def packetSize (n : Nat) : Nat :=
  ((List.range 9).map (· + 1)).foldr (fun l acc => if varintLen (2 + l + n) = l then 2 + l + n else acc) 0

end Mutagen.Spec.Musepack
