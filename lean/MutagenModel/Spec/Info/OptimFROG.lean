/-
Spec/Info/OptimFROG.lean — the OptimFROG main header block as documented with the format
("OFR " block; the SDK's OptimFROG.h / the description used by TagLib and FFmpeg); nothing here
is taken from mutagen's parser.

  "OFR " · block size u32 (12, or 15 and more from version 4.5xx on) · number of samples u48 (all
  channels together; low u32 then high u16) · sample type u8 (0 SINT8, 1 UINT8, 2 SINT16, 3 UINT16,
  4 SINT24, 5 UINT24, 6 SINT32, 7 UINT32) · channels - 1 u8 · sample rate u32 ·
  [encoder id u16 (version = 4500 + id/16, written "d.ddd") · compression u8 · …]
-/
import MutagenModel.Model.Info.OptimFROG
namespace Mutagen.Spec.OptimFROG
open Mutagen Mutagen.Info

/-- bits per sample of the sample types 0..7 -/
def sampleTypeBits : List Nat := [8, 8, 16, 16, 24, 24, 32, 32]

structure Ext where
  encoderId : Nat
  compression : Nat
  /-- bytes of the block beyond the 15 known ones -/
  extra : Bytes

structure Fields where
  /-- samples of all channels together -/
  totalSamples : Nat
  sampleType : Nat
  channels : Nat
  rate : Nat
  /-- the version ≥ 4.5 part of the block (`none`: block size 12) -/
  ext : Option Ext

def Fields.OK (h : Fields) : Prop :=
  h.totalSamples < 2 ^ 48 ∧ h.sampleType < 8 ∧ 1 ≤ h.channels ∧ h.channels ≤ 256 ∧ 1 ≤ h.rate ∧ h.rate < 2 ^ 32 ∧
  ∀ e, h.ext = some e → e.encoderId < 2 ^ 16 ∧ e.compression < 2 ^ 8 ∧ 15 + e.extra.length < 2 ^ 32

instance (h : Fields) : Decidable h.OK := by
  unfold Fields.OK
  have : Decidable (∀ e, h.ext = some e → e.encoderId < 2 ^ 16 ∧ e.compression < 2 ^ 8 ∧ 15 + e.extra.length < 2 ^ 32) := by
    cases h.ext with
    | none => exact isTrue (by intro e he; cases he)
    | some v =>
      by_cases hv : v.encoderId < 2 ^ 16 ∧ v.compression < 2 ^ 8 ∧ 15 + v.extra.length < 2 ^ 32
      · exact isTrue (by intro e he; cases he; exact hv)
      · exact isFalse (fun hh => hv (hh v rfl))
  infer_instance

def magic : Bytes := [0x4f, 0x46, 0x52, 0x20]

def blockSize : Option Ext → Nat
  | none => 12
  | some e => 15 + e.extra.length

def extBytes : Option Ext → Bytes
  | none => []
  | some e => toLE 2 e.encoderId ++ toLE 1 e.compression ++ e.extra

def build (h : Fields) : Bytes :=
  magic ++ toLE 4 (blockSize h.ext) ++
    toLE 4 (h.totalSamples % 2 ^ 32) ++ toLE 2 (h.totalSamples / 2 ^ 32) ++ toLE 1 h.sampleType ++
    toLE 1 (h.channels - 1) ++ toLE 4 h.rate ++ extBytes h.ext

/-- "d.ddd" of the encoder version 4500 + id/16 (between 4.500 and 8.595) -/
def versionDigits (v : Nat) : List Char :=
  [Nat.digitChar (v / 1000), '.', Nat.digitChar (v / 100 % 10), Nat.digitChar (v / 10 % 10), Nat.digitChar (v % 10)]

def versionString (encoderId : Nat) : List Char := versionDigits (4500 + encoderId / 16)

def expected (h : Fields) : OptimFROG.Info :=
  { channels := h.channels, sampleRate := h.rate, bitsPerSample := some (sampleTypeBits.getD h.sampleType 0),
    length := ⟨h.totalSamples, (h.channels * h.rate : Nat)⟩,
    encoderInfo := match h.ext with | none => [] | some e => versionString e.encoderId }

end Mutagen.Spec.OptimFROG
