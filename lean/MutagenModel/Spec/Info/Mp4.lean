/-
Spec/Info/Mp4.lean — ISO/IEC 14496-12: the Media Header Box (§8.4.2: FullBox version 0 or 1, flags;
creation_time, modification_time, timescale, duration — 32-bit times in version 0, 64-bit in version 1 —
language, pre_defined) and the common part of an AudioSampleEntry (§8.5.2: 6 reserved bytes,
data_reference_index; 8 reserved bytes, channelcount, samplesize, pre_defined, reserved, samplerate as
16.16 fixed point; child boxes).  Payloads only.  Does not mention mutagen's parsers.
-/
import MutagenModel.Model.Info.Mp4
namespace Mutagen.Spec.Mp4Info
open Mutagen Mutagen.Info

structure Mdhd where
  version : Nat
  flags : Nat
  creationTime : Nat
  modificationTime : Nat
  timescale : Nat
  duration : Nat
  language : Nat
  preDefined : Nat
deriving DecidableEq, Repr

def mdhdPayload (m : Mdhd) : Bytes :=
  let w := if m.version = 1 then 8 else 4
  toBE 1 m.version ++ toBE 3 m.flags ++ toBE w m.creationTime ++ toBE w m.modificationTime ++ toBE 4 m.timescale ++
  toBE w m.duration ++ toBE 2 m.language ++ toBE 2 m.preDefined

def Mdhd.OK (m : Mdhd) : Prop :=
  (m.version = 0 ∨ m.version = 1) ∧ m.flags < 2 ^ 24 ∧ 1 ≤ m.timescale ∧ m.timescale < 2 ^ 32 ∧ m.language < 2 ^ 16 ∧
  m.preDefined < 2 ^ 16 ∧
  (if m.version = 1 then m.creationTime < 2 ^ 64 ∧ m.modificationTime < 2 ^ 64 ∧ m.duration < 2 ^ 64
   else m.creationTime < 2 ^ 32 ∧ m.modificationTime < 2 ^ 32 ∧ m.duration < 2 ^ 32)

instance (m : Mdhd) : Decidable m.OK := by unfold Mdhd.OK; infer_instance

/-- duration in units of the timescale -/
def mdhdExpected (m : Mdhd) : LExpr := .div (.flt (.nat m.duration)) (.nat m.timescale)

structure AudioEntry where
  dataReferenceIndex : Nat
  channelCount : Nat
  sampleSize : Nat
  preDefined : Nat
  reserved : Nat
  /-- the integer part of the 16.16 sampling rate … -/
  sampleRate : Nat
  /-- … and its fraction -/
  sampleRateFraction : Nat
  /-- the child boxes (esds, alac, dac3, …) -/
  children : Bytes
deriving DecidableEq, Repr

def entryPayload (e : AudioEntry) : Bytes :=
  zeros 6 ++ toBE 2 e.dataReferenceIndex ++ zeros 8 ++ toBE 2 e.channelCount ++ toBE 2 e.sampleSize ++ toBE 2 e.preDefined ++
  toBE 2 e.reserved ++ toBE 4 (e.sampleRate * 2 ^ 16 + e.sampleRateFraction) ++ e.children

def AudioEntry.OK (e : AudioEntry) : Prop :=
  e.dataReferenceIndex < 2 ^ 16 ∧ e.channelCount < 2 ^ 16 ∧ e.sampleSize < 2 ^ 16 ∧ e.preDefined < 2 ^ 16 ∧ e.reserved < 2 ^ 16 ∧
  e.sampleRate < 2 ^ 16 ∧ e.sampleRateFraction < 2 ^ 16 ∧
  -- at least one child box; its size field says 8 or more, its type is not one mutagen treats as a container
  8 ≤ e.children.length ∧ 8 ≤ ofBE (e.children.take 4) ∧ Mutagen.Mp4C.isContainer ((e.children.drop 4).take 4) = false

instance (e : AudioEntry) : Decidable e.OK := by unfold AudioEntry.OK; infer_instance

def entryExpected (e : AudioEntry) : Info.Mp4.Entry :=
  { channels := e.channelCount, sampleSize := e.sampleSize, sampleRate := e.sampleRate }

end Mutagen.Spec.Mp4Info
