/-
Spec/Info/Mp4.lean — ISO/IEC 14496-12: the Media Header Box (§8.4.2: FullBox version 0 or 1, flags;
creation_time, modification_time, timescale, duration — 32-bit times in version 0, 64-bit in version 1 —
language, pre_defined) and the common part of an AudioSampleEntry (§8.5.2: 6 reserved bytes,
data_reference_index; 8 reserved bytes, channelcount, samplesize, pre_defined, reserved, samplerate as
16.16 fixed point; child boxes), and the file around them: `moov` / `trak` / `mdia` { `mdhd`, `hdlr` (handler
type "soun"), `minf` / `stbl` / `stsd` (FullBox, entry_count, sample entries) } as boxes of the
specification side of Model/Container/Mp4.lean (`Atom`, `renderList`).  Codec-specific boxes: the ALAC
magic cookie (ALACMagicCookieDescription), `dac3` (ETSI TS 102 366 F.4), `esds` (ISO/IEC 14496-1 §7.2.6:
ES_Descriptor, DecoderConfigDescriptor, DecoderSpecificInfo = AudioSpecificConfig of 14496-3 §1.6.2.1).
Does not mention mutagen's parsers.
-/
import MutagenModel.Model.Info.Mp4
import MutagenModel.Spec.Tables
import MutagenModel.Spec.Info.Mp4Height
import MutagenModel.Model.Bits
namespace Mutagen.Spec.Mp4Info
open Mutagen Mutagen.Info

structure Mdhd where
  version : Nat
  flags : Nat
  creationTime : Nat
  modificationTime : Nat
  timescale : Nat
  duration : Nat
  language : Nat
  preDefined : Nat
deriving DecidableEq, Repr

def mdhdPayload (m : Mdhd) : Bytes :=
  let w := if m.version = 1 then 8 else 4
  toBE 1 m.version ++ toBE 3 m.flags ++ toBE w m.creationTime ++ toBE w m.modificationTime ++ toBE 4 m.timescale ++
  toBE w m.duration ++ toBE 2 m.language ++ toBE 2 m.preDefined

def Mdhd.OK (m : Mdhd) : Prop :=
  (m.version = 0 ∨ m.version = 1) ∧ m.flags < 2 ^ 24 ∧ 1 ≤ m.timescale ∧ m.timescale < 2 ^ 32 ∧ m.language < 2 ^ 16 ∧
  m.preDefined < 2 ^ 16 ∧
  (if m.version = 1 then m.creationTime < 2 ^ 64 ∧ m.modificationTime < 2 ^ 64 ∧ m.duration < 2 ^ 64
   else m.creationTime < 2 ^ 32 ∧ m.modificationTime < 2 ^ 32 ∧ m.duration < 2 ^ 32)

instance (m : Mdhd) : Decidable m.OK := by unfold Mdhd.OK; infer_instance

/-- duration in units of the timescale -/
def mdhdExpected (m : Mdhd) : LExpr := .div (.flt (.nat m.duration)) (.nat m.timescale)

structure AudioEntry where
  dataReferenceIndex : Nat
  channelCount : Nat
  sampleSize : Nat
  preDefined : Nat
  reserved : Nat
  /-- the integer part of the 16.16 sampling rate … -/
  sampleRate : Nat
  /-- … and its fraction -/
  sampleRateFraction : Nat
deriving DecidableEq, Repr

/-- the 28 bytes in front of the child boxes -/
def entryFixed (e : AudioEntry) : Bytes :=
  zeros 6 ++ toBE 2 e.dataReferenceIndex ++ zeros 8 ++ toBE 2 e.channelCount ++ toBE 2 e.sampleSize ++ toBE 2 e.preDefined ++
  toBE 2 e.reserved ++ toBE 4 (e.sampleRate * 2 ^ 16 + e.sampleRateFraction)

def AudioEntry.OK (e : AudioEntry) : Prop :=
  e.dataReferenceIndex < 2 ^ 16 ∧ e.channelCount < 2 ^ 16 ∧ e.sampleSize < 2 ^ 16 ∧ e.preDefined < 2 ^ 16 ∧ e.reserved < 2 ^ 16 ∧
  e.sampleRate < 2 ^ 16 ∧ e.sampleRateFraction < 2 ^ 16

instance (e : AudioEntry) : Decidable e.OK := by unfold AudioEntry.OK; infer_instance

/-- ALACSpecificConfig -/
structure AlacCookie where
  frameLength : Nat
  bitDepth : Nat
  pb : Nat
  mb : Nat
  kb : Nat
  numChannels : Nat
  maxRun : Nat
  maxFrameBytes : Nat
  avgBitRate : Nat
  sampleRate : Nat
deriving DecidableEq, Repr

/-- FullBox header (version 0, flags 0) and the cookie with compatibleVersion 0 -/
def alacPayload (c : AlacCookie) : Bytes :=
  [0, 0, 0, 0] ++ toBE 4 c.frameLength ++ toBE 1 0 ++ toBE 1 c.bitDepth ++ toBE 1 c.pb ++ toBE 1 c.mb ++ toBE 1 c.kb ++
  toBE 1 c.numChannels ++ toBE 2 c.maxRun ++ toBE 4 c.maxFrameBytes ++ toBE 4 c.avgBitRate ++ toBE 4 c.sampleRate

def AlacCookie.OK (c : AlacCookie) : Prop :=
  c.frameLength < 2 ^ 32 ∧ c.bitDepth < 256 ∧ c.pb < 256 ∧ c.mb < 256 ∧ c.kb < 256 ∧ c.numChannels < 256 ∧ c.maxRun < 2 ^ 16 ∧
  c.maxFrameBytes < 2 ^ 32 ∧ c.avgBitRate < 2 ^ 32 ∧ c.sampleRate < 2 ^ 32

instance (c : AlacCookie) : Decidable c.OK := by unfold AlacCookie.OK; infer_instance

/-- AC3SpecificBox -/
structure Dac3 where
  fscod : Nat
  bsid : Nat
  bsmod : Nat
  acmod : Nat
  lfeon : Nat
  bitRateCode : Nat
  reserved : Nat
deriving DecidableEq, Repr

/-- fscod 2, bsid 5, bsmod 3, acmod 3, lfeon 1, bit_rate_code 5, reserved 5 bits -/
def dac3Payload (d : Dac3) : Bytes :=
  toBE 3 (d.fscod * 2 ^ 22 + d.bsid * 2 ^ 17 + d.bsmod * 2 ^ 14 + d.acmod * 2 ^ 11 + d.lfeon * 2 ^ 10 + d.bitRateCode * 2 ^ 5 + d.reserved)

/-- bit_rate_code 0…18 are the defined ones (A/52 table 5.18 without the "upper limit" bit) -/
def Dac3.OK (d : Dac3) : Prop :=
  d.fscod < 4 ∧ d.bsid < 32 ∧ d.bsmod < 8 ∧ d.acmod < 8 ∧ d.lfeon < 2 ∧ d.bitRateCode < 19 ∧ d.reserved < 32

instance (d : Dac3) : Decidable d.OK := by unfold Dac3.OK; infer_instance

/-- ES_Descriptor → DecoderConfigDescriptor (MPEG-4 audio) → AudioSpecificConfig of a General Audio object type
without extension: no dependsOn / URL / OCR in the ES descriptor; audioObjectType 1 (AAC Main), 2 (LC), 3 (SSR),
4 (LTP) or 7 (TwinVQ); sampling frequency by index or explicitly; channelConfiguration 1…7; GASpecificConfig
with dependsOnCoreCoder = extensionFlag = 0 -/
structure Esds where
  /-- descriptor sizes in one byte, or in the four-byte form 80 80 80 nn -/
  longForm : Bool
  esId : Nat
  streamPriority : Nat
  upStream : Nat
  bufferSizeDB : Nat
  maxBitrate : Nat
  avgBitrate : Nat
  audioObjectType : Nat
  /-- samplingFrequencyIndex 0…12, or 15 with the frequency written out in 24 bits -/
  freqIndex : Nat
  explicitFreq : Nat
  channelConfiguration : Nat
  frameLengthFlag : Nat
  /-- what follows the DecoderConfigDescriptor in the ES_Descriptor (SLConfigDescriptor) -/
  slConfig : Bytes
deriving DecidableEq, Repr

/-- a descriptor size below 128 -/
def descSize (long : Bool) (n : Nat) : Bytes := if long then [0x80, 0x80, 0x80, UInt8.ofNat n] else [UInt8.ofNat n]

/-- AudioSpecificConfig: audioObjectType 5 bits, samplingFrequencyIndex 4 [, samplingFrequency 24], channelConfiguration 4,
GASpecificConfig: frameLengthFlag 1, dependsOnCoreCoder 1 = 0, extensionFlag 1 = 0 -/
def ascBits (e : Esds) : List Bool :=
  natToBits 5 e.audioObjectType ++ (natToBits 4 e.freqIndex ++ ((if e.freqIndex = 15 then natToBits 24 e.explicitFreq else []) ++
    (natToBits 4 e.channelConfiguration ++ (natToBits 1 e.frameLengthFlag ++ (natToBits 1 0 ++ natToBits 1 0)))))

def ascBytes (e : Esds) : Bytes := bitsToBytes (ascBits e)

/-- objectTypeIndication 0x40, streamType 5 (audio), upStream, reserved 1, bufferSizeDB, maxBitrate, avgBitrate,
DecoderSpecificInfo -/
def dcdBody (e : Esds) : Bytes :=
  [0x40] ++ toBE 1 (5 * 4 + e.upStream * 2 + 1) ++ toBE 3 e.bufferSizeDB ++ toBE 4 e.maxBitrate ++ toBE 4 e.avgBitrate ++
  ([5] ++ descSize e.longForm (ascBytes e).length ++ ascBytes e)

def esBody (e : Esds) : Bytes :=
  toBE 2 e.esId ++ toBE 1 e.streamPriority ++ ([4] ++ descSize e.longForm (dcdBody e).length ++ dcdBody e) ++ e.slConfig

/-- FullBox header (version 0, flags 0), ES_DescrTag, size, ES_Descriptor -/
def esdsPayload (e : Esds) : Bytes :=
  [0, 0, 0, 0] ++ ([3] ++ descSize e.longForm (esBody e).length ++ esBody e)

def Esds.OK (e : Esds) : Prop :=
  e.esId < 2 ^ 16 ∧ e.streamPriority < 32 ∧ e.upStream < 2 ∧ e.bufferSizeDB < 2 ^ 24 ∧ e.maxBitrate < 2 ^ 32 ∧ e.avgBitrate < 2 ^ 32 ∧
  e.audioObjectType ∈ [1, 2, 3, 4, 7] ∧ (e.freqIndex < 13 ∨ e.freqIndex = 15) ∧ e.explicitFreq < 2 ^ 24 ∧
  1 ≤ e.channelConfiguration ∧ e.channelConfiguration ≤ 7 ∧ e.frameLengthFlag < 2 ∧ (esBody e).length < 128

instance (e : Esds) : Decidable e.OK := by unfold Esds.OK; infer_instance

/-- the sampling frequency the AudioSpecificConfig names (14496-3 table 1.18) -/
def Esds.frequency (e : Esds) : Nat := if e.freqIndex = 15 then e.explicitFreq else Tables.aacFreqs.getD e.freqIndex 0

/-- what the sample entry is and which codec-specific box comes first in it -/
inductive Codec
  /-- any entry name with any first child box, except the three pairs below -/
  | plain (name : Bytes) (extra : Mp4C.Atom)
  | alac (c : AlacCookie)
  | dac3 (d : Dac3)
  | esds (e : Esds)
deriving Repr

def Codec.name : Codec → Bytes
  | .plain n _ => n
  | .alac _ => Mp4.nAlac
  | .dac3 _ => Mp4.nAc3
  | .esds _ => Mp4.nMp4a

def Codec.extra : Codec → Mp4C.Atom
  | .plain _ x => x
  | .alac c => .leaf Mp4.nAlac false (alacPayload c)
  | .dac3 d => .leaf Mp4.nDac3 false (dac3Payload d)
  | .esds e => .leaf Mp4.nEsds false (esdsPayload e)

def Codec.OK : Codec → Prop
  | .plain n x => n.length = 4 ∧ Mp4C.isContainer n = false ∧ x.wf ∧ x.height ≤ 60 ∧
      ¬ (n = Mp4.nMp4a ∧ x.name = Mp4.nEsds) ∧ ¬ (n = Mp4.nAlac ∧ x.name = Mp4.nAlac) ∧ ¬ (n = Mp4.nAc3 ∧ x.name = Mp4.nDac3) ∧
      (∀ nm w pl, x = .leaf nm w pl → x.size < 2 ^ 62)
  | .alac c => c.OK
  | .dac3 d => d.OK
  | .esds e => e.OK

structure Fields where
  /-- top-level boxes in front of `moov` (ftyp, free, mdat, …) and behind it -/
  before : List Mp4C.Atom
  after : List Mp4C.Atom
  /-- fewer than 8 bytes behind the last box -/
  tail : Bytes
  /-- the children of `moov` in front of the audio track (mvhd, …: no track) and behind it -/
  moovBefore : List Mp4C.Atom
  moovAfter : List Mp4C.Atom
  /-- the children of `trak` in front of `mdia` (tkhd, …) and behind it -/
  trakBefore : List Mp4C.Atom
  trakAfter : List Mp4C.Atom
  mdhd : Mdhd
  /-- the handler box: version/flags and pre_defined (8 bytes), handler type "soun", the rest -/
  hdlrHead : Bytes
  hdlrRest : Bytes
  /-- the children of `minf` in front of `stbl` (smhd, dinf) -/
  minfBefore : List Mp4C.Atom
  /-- the children of `stbl` behind `stsd` (stts, stsc, stsz, stco) -/
  stblAfter : List Mp4C.Atom
  stsdFlags : Nat
  entryCount : Nat
  entry : AudioEntry
  codec : Codec
  /-- further child boxes of the sample entry, and further sample entries -/
  entryMore : Bytes
  moreEntries : Bytes

open Mp4C in
def entryAtom (h : Fields) : Atom :=
  .leaf h.codec.name false (entryFixed h.entry ++ h.codec.extra.render ++ h.entryMore)

open Mp4C in
def stsdAtom (h : Fields) : Atom :=
  .leaf Mp4.nStsd false (toBE 1 0 ++ toBE 3 h.stsdFlags ++ toBE 4 h.entryCount ++ (entryAtom h).render ++ h.moreEntries)

open Mp4C in
def mdiaAtom (h : Fields) : Atom :=
  .node nMdia false []
    [.leaf Mp4.nMdhd false (mdhdPayload h.mdhd),
     .leaf Mp4.nHdlr false (h.hdlrHead ++ Mp4.nSoun ++ h.hdlrRest),
     .node nMinf false [] (h.minfBefore ++ [.node nStbl false [] (stsdAtom h :: h.stblAfter)])]

open Mp4C in
def tree (h : Fields) : List Atom :=
  h.before ++ [.node nMoov false [] (h.moovBefore ++ [.node nTrak false [] (h.trakBefore ++ [mdiaAtom h] ++ h.trakAfter)] ++ h.moovAfter)] ++ h.after

def build (h : Fields) : Bytes := Mp4C.renderList (tree h) ++ h.tail

open Mp4C in
/-- field widths; well-formed boxes everywhere (`wfList`: names of four bytes, sizes that fit); the lists
in front of `moov` / the track / `mdia` / `stbl` do not contain a box of that name; at least one sample entry -/
def Fields.OK (h : Fields) : Prop :=
  wfList (tree h) ∧ heightList (tree h) ≤ 65 ∧ h.tail.length < 8 ∧
  (∀ x ∈ h.before, x.name ≠ nMoov) ∧ (∀ x ∈ h.moovBefore, x.name ≠ nTrak) ∧ (∀ x ∈ h.trakBefore, x.name ≠ nMdia) ∧
  (∀ x ∈ h.minfBefore, x.name ≠ nStbl) ∧
  h.mdhd.OK ∧ h.hdlrHead.length = 8 ∧ h.stsdFlags < 2 ^ 24 ∧ 1 ≤ h.entryCount ∧ h.entryCount < 2 ^ 32 ∧
  h.entry.OK ∧ h.codec.OK

/-- what the codec-specific box says -/
def entryExpected (e : AudioEntry) : Codec → Info.Mp4.Entry
  | .plain _ _ => { channels := e.channelCount, sampleSize := e.sampleSize, sampleRate := e.sampleRate }
  | .alac c => { channels := c.numChannels, sampleSize := c.bitDepth, sampleRate := c.sampleRate, bitrate := c.avgBitRate }
  | .dac3 d => { channels := Tables.ac3Channels.getD d.acmod 0 + d.lfeon, sampleSize := e.sampleSize, sampleRate := e.sampleRate,
                 bitrate := Tables.ac3Bitrates.getD d.bitRateCode 0 * 1000 }
  -- The AudioSpecificConfig is authoritative for channels and rate, except where it leaves them open: channelConfiguration 1
  -- may be mono or (implicit parametric stereo) stereo, and a rate up to 24 kHz of an SBR-capable object type may be doubled
  -- by implicit SBR — there the sample entry decides.  The bitrate is avgBitrate of the DecoderConfigDescriptor.
  | .esds x => { channels := if x.channelConfiguration = 1 then e.channelCount else if x.channelConfiguration = 7 then 8 else x.channelConfiguration,
                 sampleSize := e.sampleSize,
                 sampleRate := if x.audioObjectType ≠ 7 ∧ x.frequency ≤ 24000 then e.sampleRate
                               else if x.frequency = 0 then e.sampleRate else x.frequency,
                 bitrate := x.avgBitrate, codecParam := some (0x40, some x.audioObjectType) }

def expected (h : Fields) : Info.Mp4.Info :=
  let en := entryExpected h.entry h.codec
  { length := mdhdExpected h.mdhd, channels := en.channels, bitsPerSample := en.sampleSize, sampleRate := en.sampleRate,
    bitrate := en.bitrate, codecName := h.codec.name, codecParam := en.codecParam }

end Mutagen.Spec.Mp4Info
