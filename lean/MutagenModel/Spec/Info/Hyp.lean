/-
Spec/Info/Hyp.lean — for every kind of header the specification side can build: the hypotheses of its C05 decode
theorem as ONE decidable proposition of the header fields and the bytes that follow (`…Hyp`), and the right-hand
side of the theorem (`…Expect`).  Props/C05_Instances.lean proves `…Hyp → parse (file) = .ok (…Expect)`; the driver
(`infoa op=expect`) evaluates both, so that the harness can hold the real code against theorem instances.
-/
import MutagenModel.Spec.Info.WavPack
import MutagenModel.Spec.Info.MonkeysAudio
import MutagenModel.Spec.Info.OptimFROG
import MutagenModel.Spec.Info.TrueAudio
import MutagenModel.Spec.Info.Tak
import MutagenModel.Spec.Info.Musepack
import MutagenModel.Spec.Info.Aac
import MutagenModel.Spec.Info.Ac3
namespace Mutagen.Spec.Hyp
open Mutagen Mutagen.Info

/-! WavPack: `wavpack_info_decodes_partial` -/
def WavPackHyp (h : WavPack.Fields) (rest : Bytes) : Prop :=
  h.OK ∧ h.fits32 ∧ h.indexFits ∧ (h.counted → WavPack.NoHeader rest)
instance (h : WavPack.Fields) (rest : Bytes) : Decidable (WavPackHyp h rest) := by unfold WavPackHyp; infer_instance

/-! Monkey's Audio ≥ 3.98: `ape_info_decodes_partial` -/
def ApeHyp (h : MonkeysAudio.New) : Prop := h.OK ∧ h.extra = []
instance (h : MonkeysAudio.New) : Decidable (ApeHyp h) := by unfold ApeHyp; infer_instance

/-! Monkey's Audio < 3.98: `apeold_info_decodes_partial`.  The theorem asks for SOME channel count, rate, data size, byte
rate and block align with `wavHeader = pcmWavHeader … ++ more`; the check reads them off the stored header (a
sufficient condition, proved; it is also necessary). -/
def ApeOldHyp (h : MonkeysAudio.Old) : Prop :=
  let w := h.wavHeader
  let c := ofLE (readAt w 22 2)
  let r := ofLE (readAt w 24 4)
  let br := ofLE (readAt w 28 4)
  let ba := ofLE (readAt w 32 2)
  let n := ofLE (readAt w 40 4)
  h.OK ∧ h.formatFlags / 4 % 2 = 1 ∧ h.formatFlags / 16 % 2 = 1 ∧ c < 2 ^ 16 ∧ r < 2 ^ 32 ∧ 36 + n < 2 ^ 32 ∧ br < 2 ^ 32 ∧
  ba < 2 ^ 16 ∧ w = MonkeysAudio.pcmWavHeader c r h.bits n br ba ++ w.drop 44
instance (h : MonkeysAudio.Old) : Decidable (ApeOldHyp h) := by unfold ApeOldHyp; infer_instance

/-! OptimFROG: `ofr_info_decodes` -/
def OfrHyp (h : OptimFROG.Fields) (rest : Bytes) : Prop := h.OK ∧ 76 ≤ (OptimFROG.build h ++ rest).length
instance (h : OptimFROG.Fields) (rest : Bytes) : Decidable (OfrHyp h rest) := by unfold OfrHyp; infer_instance

/-! True Audio: `tta_info_decodes` (any prefix of the given length, anything behind) -/
def TtaHyp (h : TrueAudio.Fields) : Prop := h.OK
instance (h : TrueAudio.Fields) : Decidable (TtaHyp h) := by unfold TtaHyp; infer_instance

/-! TAK: `tak_info_decodes` -/
def TakHyp (h : Tak.Fields) : Prop := h.OK
instance (h : Tak.Fields) : Decidable (TakHyp h) := by unfold TakHyp; infer_instance

/-! Musepack SV7: `mpc_sv7_info_decodes_partial` -/
def Mpc7Hyp (h : Musepack.Sv7) (rest : Bytes) : Prop := h.OK ∧ h.trueGapless = 0 ∧ 4 ≤ rest.length
instance (h : Musepack.Sv7) (rest : Bytes) : Decidable (Mpc7Hyp h rest) := by unfold Mpc7Hyp; infer_instance
def mpc7Expect (h : Musepack.Sv7) (rest : Bytes) : Musepack.Info := h.expected (h.build ++ rest).length

/-! Musepack SV8: `mpc_sv8_info_decodes` -/
def Mpc8Hyp (h : Musepack.Sv8) (rest : Bytes) : Prop :=
  h.OK ∧ Musepack.letters (readAt rest 0 2) = true ∧ (h.build ++ rest).length < 2 ^ 62
instance (h : Musepack.Sv8) (rest : Bytes) : Decidable (Mpc8Hyp h rest) := by unfold Mpc8Hyp; infer_instance
def mpc8Expect (h : Musepack.Sv8) (rest : Bytes) : Musepack.Info := h.expected (h.build ++ rest).length

/-! AAC ADTS: `aac_adts_info_decodes_partial` (3..100 frames) and `aac_adts_info_decodes_long_partial` (more) -/
def AdtsHyp (h : Aac.Adts) (rest : Bytes) : Prop := h.OK ∧ h.chanConfig ≠ 0 ∧ rest = []
instance (h : Aac.Adts) (rest : Bytes) : Decidable (AdtsHyp h rest) := by unfold AdtsHyp; infer_instance
def adtsExpect (h : Aac.Adts) : Aac.Info :=
  if h.frames.length ≤ 100 then { Aac.expected h with length := Aac.lengthEstimate h } else Aac.expectedFirst100 h

/-! AAC ADIF: `aac_adif_info_decodes_partial` -/
def AdifHyp (h : Aac.Adif) (rest : Bytes) : Prop := h.OK ∧ (h.bitstreamType = 1 ∨ h.more = []) ∧ rest = []
instance (h : Aac.Adif) (rest : Bytes) : Decidable (AdifHyp h rest) := by
  unfold AdifHyp
  have : Decidable (h.more = []) := by
    cases h.more with
    | nil => exact isTrue rfl
    | cons a b => exact isFalse (by intro hh; cases hh)
  infer_instance

/-! AC-3: `ac3_info_decodes_partial` -/
def Ac3Hyp (h : Ac3.Ac3) (rest : Bytes) : Prop := h.OK ∧ h.timecod1 = none ∧ rest = []
instance (h : Ac3.Ac3) (rest : Bytes) : Decidable (Ac3Hyp h rest) := by unfold Ac3Hyp; infer_instance

/-! E-AC-3: `eac3_info_decodes_partial` -/
def Eac3Hyp (h : Ac3.Eac3) (rest : Bytes) : Prop :=
  h.OK ∧ (h.strmtyp = 1 ∨ (h.strmtyp = 2 ∧ h.blocksCode ≠ 3)) ∧ rest = []
instance (h : Ac3.Eac3) (rest : Bytes) : Decidable (Eac3Hyp h rest) := by unfold Eac3Hyp; infer_instance

end Mutagen.Spec.Hyp
