/-
Spec/Info/Mpeg.lean — an MPEG audio elementary stream as ISO/IEC 11172-3 / 13818-3 have it (frame header:
Spec/Mpeg.lean), in front of it ID3v2 tags (id3.org: "ID3", version, flags, 28-bit syncsafe size, that many
bytes) and junk that does not look like a frame sync, behind it anything.  The first Layer III frame may carry,
behind its side information, a Xing / Info tag (frames, bytes, TOC, quality — Xing's VBR header SDK —, optionally
followed by LAME's extension, http://gabriel.mp3-tech.org/mp3infotag.html) or, 32 bytes behind the header,
Fraunhofer's VBRI header.  Does not mention mutagen's parser.
-/
import MutagenModel.Spec.Mpeg
import MutagenModel.Model.Info.MpegInfo
namespace Mutagen.Spec.Mp3
open Mutagen Mutagen.Info Mutagen.Spec.Mpeg

/-- the fields of the frame header behind the 11 sync bits -/
structure Hdr where
  version : Nat
  layer : Nat
  protection : Nat
  bitrateIndex : Nat
  rateIndex : Nat
  padding : Nat
  priv : Nat
  mode : Nat
  /-- mode extension, copyright, original, emphasis -/
  rest : Nat
deriving DecidableEq, Repr

/-- field widths; version 1, layer 0, rate index 3, bitrate index 15 are reserved, bitrate index 0 is the free
format (no frame length) -/
def Hdr.OK (h : Hdr) : Prop :=
  h.version < 4 ∧ h.version ≠ 1 ∧ 1 ≤ h.layer ∧ h.layer < 4 ∧ h.protection < 2 ∧ 1 ≤ h.bitrateIndex ∧ h.bitrateIndex < 15 ∧
  h.rateIndex < 3 ∧ h.padding < 2 ∧ h.priv < 2 ∧ h.mode < 4 ∧ h.rest < 64

instance (h : Hdr) : Decidable h.OK := by unfold Hdr.OK; infer_instance

def Hdr.bytes (h : Hdr) : Bytes :=
  buildHeader h.version h.layer h.protection h.bitrateIndex h.rateIndex h.padding h.priv h.mode h.rest

/-- 10 × the MPEG version -/
def Hdr.ver10 (h : Hdr) : Nat := match h.version with | 0 => 25 | 2 => 20 | _ => 10
def Hdr.lay (h : Hdr) : Nat := 4 - h.layer
/-- bit/s -/
def Hdr.bitrate (h : Hdr) : Nat := isoBitrate h.ver10 h.lay h.bitrateIndex * 1000
def Hdr.rate (h : Hdr) : Nat := isoRate h.ver10 h.rateIndex
def Hdr.frameLength (h : Hdr) : Nat := isoFrameLength h.ver10 h.lay h.bitrate h.rate h.padding
def Hdr.samples (h : Hdr) : Nat := samplesPerFrame h.ver10 h.lay
/-- bytes between the header and a Xing tag: the Layer III side information -/
def Hdr.sideInfo (h : Hdr) : Nat := sideInfoSize (decide (h.version = 3)) (decide (h.mode = 3))

structure Tag where
  major : Nat
  minor : Nat
  flags : Nat
  body : Bytes
deriving DecidableEq, Repr

def syncsafe (n : Nat) : Bytes :=
  [UInt8.ofNat (n / 2 ^ 21 % 128), UInt8.ofNat (n / 2 ^ 14 % 128), UInt8.ofNat (n / 2 ^ 7 % 128), UInt8.ofNat (n % 128)]

def Tag.render (t : Tag) : Bytes :=
  [0x49, 0x44, 0x33] ++ [UInt8.ofNat t.major, UInt8.ofNat t.minor, UInt8.ofNat t.flags] ++ syncsafe t.body.length ++ t.body

def Tag.OK (t : Tag) : Prop := t.major < 256 ∧ t.minor < 256 ∧ t.flags < 256 ∧ 1 ≤ t.body.length ∧ t.body.length < 2 ^ 28

instance (t : Tag) : Decidable t.OK := by unfold Tag.OK; infer_instance

def renderTags : List Tag → Bytes
  | [] => []
  | t :: r => t.render ++ renderTags r

/-- no byte 0xFF followed by a byte whose top three bits are set -/
def noSync : Bytes → Bool
  | x :: y :: r => !(x == 0xFF && decide (y.toNat / 32 = 7)) && noSync (y :: r)
  | _ => true

/-- what stands in front of the first frame -/
structure Lead where
  tags : List Tag
  junk : Bytes
deriving DecidableEq, Repr

def Lead.render (p : Lead) : Bytes := renderTags p.tags ++ p.junk

/-- the junk does not look like another tag, contains nothing that looks like a frame sync (also not together
with the first byte of the frame), and is shorter than the megabyte in which a frame is looked for -/
def Lead.OK (p : Lead) : Prop :=
  (∀ t ∈ p.tags, t.OK) ∧ p.junk.take 3 ≠ [0x49, 0x44, 0x33] ∧ noSync (p.junk ++ [0xFF]) = true ∧ p.junk.length + 2 ≤ 2 ^ 20

instance (p : Lead) : Decidable p.OK := by unfold Lead.OK; infer_instance

/-- a frame: header and `frameLength − 4` further bytes -/
structure Frame where
  hdr : Hdr
  body : Bytes
deriving DecidableEq, Repr

def Frame.render (fr : Frame) : Bytes := fr.hdr.bytes ++ fr.body

def renderFrames : List Frame → Bytes
  | [] => []
  | fr :: r => fr.render ++ renderFrames r

def isXingMagic (b : Bytes) : Bool := b == [0x58, 0x69, 0x6E, 0x67] || b == [0x49, 0x6E, 0x66, 0x6F]
def isVbriMagic (b : Bytes) : Bool := b == [0x56, 0x42, 0x52, 0x49]

/-- an audio frame (followed by `after`) that carries no VBR header: for Layer III, neither "Xing" / "Info" behind
the side information nor "VBRI" at byte 36 -/
def plainFrame (fr : Frame) (after : Bytes) : Prop :=
  fr.hdr.OK ∧ fr.body.length + 4 = fr.hdr.frameLength ∧
  (fr.hdr.lay = 3 → isXingMagic (readAt (fr.render ++ after) (4 + fr.hdr.sideInfo) 4) = false ∧
                     isVbriMagic (readAt (fr.render ++ after) 36 4) = false)

/-! ### constant bitrate: at least four audio frames -/

structure Cbr where
  lead : Lead
  f1 : Frame
  f2 : Frame
  f3 : Frame
  f4 : Frame
  /-- further frames and whatever follows them -/
  trailing : Bytes
deriving DecidableEq, Repr

def Cbr.build (c : Cbr) : Bytes := c.lead.render ++ (c.f1.render ++ (c.f2.render ++ (c.f3.render ++ (c.f4.render ++ c.trailing))))

def Cbr.OK (c : Cbr) : Prop :=
  c.lead.OK ∧ plainFrame c.f1 (c.f2.render ++ (c.f3.render ++ (c.f4.render ++ c.trailing))) ∧
  plainFrame c.f2 (c.f3.render ++ (c.f4.render ++ c.trailing)) ∧ plainFrame c.f3 (c.f4.render ++ c.trailing) ∧
  plainFrame c.f4 c.trailing

/-- the attributes of the first frame's header -/
def headerInfo (h : Hdr) (offset : Nat) (length : LExpr) : Mp3.Info :=
  { length := length, bitrate := .int h.bitrate, channels := if h.mode = 3 then 1 else 2, sampleRate := h.rate,
    version10 := h.ver10, layer := h.lay, mode := h.mode, crcProtected := decide (h.protection = 0), padding := decide (h.padding = 1),
    sketchy := false, bitrateMode := 0, encoderInfo := [], encoderSettings := [], trackGain := none, trackPeak := none,
    albumGain := none, frameOffset := offset }

/-- without a VBR header the duration is what the size of the stream and the bitrate of the first frame give -/
def Cbr.expected (c : Cbr) : Mp3.Info :=
  headerInfo c.f1.hdr c.lead.render.length
    (.div (.int (8 * ((c.build.length : Int) - (c.lead.render.length : Nat)))) (.flt (.int c.f1.hdr.bitrate)))

/-! ### Xing / Info -/

structure XingTag where
  /-- "Info" instead of "Xing": written by LAME for constant bitrate -/
  isInfo : Bool
  frames : Option Nat
  bytes : Option Nat
  toc : Option Bytes
  quality : Option Nat
deriving DecidableEq, Repr

def XingTag.flags (x : XingTag) : Nat :=
  (if x.frames.isSome then 1 else 0) + (if x.bytes.isSome then 2 else 0) + (if x.toc.isSome then 4 else 0) + (if x.quality.isSome then 8 else 0)

def optBE (v : Option Nat) : Bytes := match v with | some n => toBE 4 n | none => []

def XingTag.render (x : XingTag) : Bytes :=
  (if x.isInfo then [0x49, 0x6E, 0x66, 0x6F] else [0x58, 0x69, 0x6E, 0x67]) ++ toBE 4 x.flags ++ optBE x.frames ++ optBE x.bytes ++
  (x.toc.getD []) ++ optBE x.quality

def XingTag.OK (x : XingTag) : Prop :=
  (∀ n, x.frames = some n → n < 2 ^ 32) ∧ (∀ n, x.bytes = some n → n < 2 ^ 32) ∧ (∀ t, x.toc = some t → t.length = 100) ∧
  (∀ n, x.quality = some n → n < 2 ^ 32)

structure XingStream where
  lead : Lead
  hdr : Hdr
  /-- the side information -/
  side : Bytes
  tag : XingTag
  /-- what follows the tag: not a LAME version string -/
  after : Bytes
deriving DecidableEq, Repr

def XingStream.build (s : XingStream) : Bytes := s.lead.render ++ (s.hdr.bytes ++ (s.side ++ (s.tag.render ++ s.after)))

def XingStream.OK (s : XingStream) : Prop :=
  s.lead.OK ∧ s.hdr.OK ∧ s.hdr.lay = 3 ∧ s.side.length = s.hdr.sideInfo ∧ s.tag.OK ∧
  ¬ ([0x4C, 0x41, 0x4D, 0x45] <+: s.after) ∧ ¬ ([0x4C, 0x33, 0x2E, 0x39, 0x39] <+: s.after)

/-- Xing's header: `frames` frames of `samples` samples each give the duration; `bytes` is the size of the stream
including the frame that carries the tag, `frames` does not count that frame, so the audio data rate is
(bytes − frame length) · 8 · rate / samples.  Without `frames`, the estimate from the size of the stream.
"Info" marks constant bitrate; "Xing" with a quality indicator variable bitrate. -/
def XingStream.expected (s : XingStream) : Mp3.Info :=
  let h := s.hdr
  let off := s.lead.render.length
  let base := headerInfo h off (.div (.int (8 * ((s.build.length : Int) - (off : Nat)))) (.flt (.int h.bitrate)))
  let mode := if s.tag.isInfo then 1 else if s.tag.quality.isSome then 2 else 0
  match s.tag.frames with
  | none => { base with bitrateMode := mode }
  | some n =>
    let samples := h.samples * n
    { base with bitrateMode := mode,
                length := .div (.flt (.int samples)) (.nat h.rate),
                bitrate := match s.tag.bytes with
                  | some b => if samples > 0 then
                      .round (.div (.int ((max 0 ((b : Int) - h.frameLength)) * 8 * h.rate)) (.flt (.int samples)))
                    else .int h.bitrate
                  | none => .int h.bitrate }

/-! ### Xing / Info with LAME's extension -/

/-- the 27 bytes behind the 9-byte version string (http://gabriel.mp3-tech.org/mp3infotag.html) -/
structure LameExt where
  vbrMethod : Nat
  lowpass : Nat
  /-- peak signal amplitude · 2^23 (0: not stored) -/
  peak : Nat
  /-- name code (1 = radio/track), originator, sign, |gain| · 10 of the track replay gain -/
  trackGainType : Nat
  trackGainOrigin : Nat
  trackGainSign : Nat
  trackGainAbs : Nat
  /-- the same for the album gain (name code 2 = audiophile/album) -/
  albumGainType : Nat
  albumGainOrigin : Nat
  albumGainSign : Nat
  albumGainAbs : Nat
  encodingFlags : Nat
  athType : Nat
  bitrate : Nat
  /-- samples the encoder put in front … -/
  delay : Nat
  /-- … and behind the audio -/
  padding : Nat
  misc : Nat
  mp3Gain : Nat
  surround : Nat
  preset : Nat
  musicLength : Nat
  musicCrc : Nat
  tagCrc : Nat
deriving DecidableEq, Repr

/-- everything behind the first byte, as one 208-bit number -/
def LameExt.tail (l : LameExt) : Nat :=
  l.lowpass * 2 ^ 200 + l.peak * 2 ^ 168 + l.trackGainType * 2 ^ 165 + l.trackGainOrigin * 2 ^ 162 +
  l.trackGainSign * 2 ^ 161 + l.trackGainAbs * 2 ^ 152 + l.albumGainType * 2 ^ 149 + l.albumGainOrigin * 2 ^ 146 + l.albumGainSign * 2 ^ 145 +
  l.albumGainAbs * 2 ^ 136 + l.encodingFlags * 2 ^ 132 + l.athType * 2 ^ 128 + l.bitrate * 2 ^ 120 + l.delay * 2 ^ 108 + l.padding * 2 ^ 96 +
  l.misc * 2 ^ 88 + l.mp3Gain * 2 ^ 80 + l.surround * 2 ^ 75 + l.preset * 2 ^ 64 + l.musicLength * 2 ^ 32 + l.musicCrc * 2 ^ 16 + l.tagCrc

/-- tag revision 0 and the VBR method in the first byte, then the other fields -/
def LameExt.render (l : LameExt) : Bytes := toBE 1 l.vbrMethod ++ toBE 26 l.tail

def LameExt.OK (l : LameExt) : Prop :=
  l.vbrMethod < 16 ∧ l.lowpass < 256 ∧ l.peak < 2 ^ 32 ∧ l.trackGainType < 8 ∧ l.trackGainOrigin < 8 ∧ l.trackGainSign < 2 ∧ l.trackGainAbs < 512 ∧
  l.albumGainType < 8 ∧ l.albumGainOrigin < 8 ∧ l.albumGainSign < 2 ∧ l.albumGainAbs < 512 ∧ l.encodingFlags < 16 ∧ l.athType < 16 ∧
  l.bitrate < 256 ∧ l.delay < 4096 ∧ l.padding < 4096 ∧ l.misc < 256 ∧ l.mp3Gain < 256 ∧ l.surround < 8 ∧ l.preset < 2048 ∧
  l.musicLength < 2 ^ 32 ∧ l.musicCrc < 2 ^ 16 ∧ l.tagCrc < 2 ^ 16

instance (l : LameExt) : Decidable l.OK := by unfold LameExt.OK; infer_instance

/-- "LAME", major version digit, ".", two minor version digits, one more character: "r" release of a patch version,
" " or "." release, "a" alpha, "b" beta -/
structure LameVersion where
  major : Nat
  minor : Nat
  flag : UInt8
deriving DecidableEq, Repr

def LameVersion.render (v : LameVersion) : Bytes :=
  [0x4C, 0x41, 0x4D, 0x45, UInt8.ofNat (48 + v.major), 0x2E, UInt8.ofNat (48 + v.minor / 10), UInt8.ofNat (48 + v.minor % 10), v.flag]

/-- the extension exists from 3.90 on -/
def LameVersion.OK (v : LameVersion) : Prop :=
  3 ≤ v.major ∧ v.major ≤ 9 ∧ v.minor < 100 ∧ (v.major = 3 → 90 ≤ v.minor) ∧
  (v.flag = 0x72 ∨ v.flag = 0x20 ∨ v.flag = 0x2E ∨ v.flag = 0x61 ∨ v.flag = 0x62)

instance (v : LameVersion) : Decidable v.OK := by unfold LameVersion.OK; infer_instance

structure LameStream where
  lead : Lead
  hdr : Hdr
  side : Bytes
  tag : XingTag
  version : LameVersion
  ext : LameExt
  after : Bytes
deriving DecidableEq, Repr

def LameStream.build (s : LameStream) : Bytes :=
  s.lead.render ++ (s.hdr.bytes ++ (s.side ++ (s.tag.render ++ (s.version.render ++ (s.ext.render ++ s.after)))))

def LameStream.OK (s : LameStream) : Prop :=
  s.lead.OK ∧ s.hdr.OK ∧ s.hdr.lay = 3 ∧ s.side.length = s.hdr.sideInfo ∧ s.tag.OK ∧ s.version.OK ∧ s.ext.OK

/-- the version as text: "3.99.1+" for "LAME3.99r", "3.98.0" / "3.93.0+" for a release, " (alpha)" / " (beta)" -/
def LameVersion.text (v : LameVersion) : Bytes :=
  Mp3.decimal v.major ++ Mp3.asciiB "." ++ Mp3.decimal v.minor ++
  (if v.flag = 0x61 then Mp3.asciiB " (alpha)" else if v.flag = 0x62 then Mp3.asciiB " (beta)"
   else if v.flag = 0x72 then Mp3.asciiB ".1+"
   else if v.flag = 0x20 then (if v.major > 3 ∨ (v.major = 3 ∧ v.minor > 96) then Mp3.asciiB ".0" else Mp3.asciiB ".0+")
   else Mp3.asciiB ".0+")

/-- a replay gain: ± |gain| / 10 dB -/
def gainExpr (sign abs : Nat) : LExpr :=
  if sign = 1 then .mul (.div (.nat abs) (.flt (.int 10))) (.int (-1)) else .div (.nat abs) (.flt (.int 10))

/-- the fields of the extension, by their meaning; `scale` is the Xing tag's quality (−1: absent), which the
quality figures are derived from -/
def LameExt.decoded (l : LameExt) (scale : Int) : Mp3.Lame :=
  { vbrMethod := l.vbrMethod, lowpass := l.lowpass * 100, quality := (100 - scale) % 10, vbrQuality := (100 - scale) / 10,
    trackPeak := if l.peak = 0 then none else some (.div (.nat l.peak) (.nat (2 ^ 23))),
    trackGain := if l.trackGainType = 1 then some (gainExpr l.trackGainSign l.trackGainAbs) else none,
    albumGain := if l.albumGainType = 2 then some (gainExpr l.albumGainSign l.albumGainAbs) else none,
    encodingFlags := l.encodingFlags, athType := l.athType, bitrate := l.bitrate, delay := l.delay, padding := l.padding,
    presetUsed := l.preset }

/-- the stream information for a given reading `lame` of the extension: the number of samples is frames ·
samples-per-frame less the encoder delay and the padding; the bitrate is computed as for a plain Xing tag; the mode follows
the VBR method (1, 8: CBR; 2, 9: ABR; 3…6: VBR), otherwise the tag's.  `encoderSettings` is a guess of mutagen's own
(`Mp3.guessSettings`), taken over as it is. -/
def LameStream.expectedWith (s : LameStream) (lame : Mp3.Lame) : Mp3.Info :=
  let h := s.hdr
  let off := s.lead.render.length
  let base := headerInfo h off (.div (.int (8 * ((s.build.length : Int) - (off : Nat)))) (.flt (.int h.bitrate)))
  let mode := if lame.vbrMethod = 1 ∨ lame.vbrMethod = 8 then 1 else if lame.vbrMethod = 2 ∨ lame.vbrMethod = 9 then 3
    else if 3 ≤ lame.vbrMethod ∧ lame.vbrMethod ≤ 6 then 2 else if s.tag.isInfo then 1 else 2
  let withLame : Mp3.Info :=
    { base with bitrateMode := mode, encoderInfo := Mp3.asciiB "LAME " ++ s.version.text,
                encoderSettings := Mp3.guessSettings lame s.version.major s.version.minor,
                trackGain := lame.trackGain, trackPeak := lame.trackPeak, albumGain := lame.albumGain }
  match s.tag.frames with
  | none => withLame
  | some n =>
    let samples : Int := (h.samples * n : Nat)
    let audio : Int := samples - lame.delay - lame.padding
    { withLame with
      length := .div (.flt (.int (if audio < 0 then 0 else audio))) (.nat h.rate),
      bitrate := match s.tag.bytes with
        | some b => if samples > 0 then
            .round (.div (.int ((max 0 ((b : Int) - h.frameLength)) * 8 * h.rate)) (.flt (.int samples)))
          else .int h.bitrate
        | none => .int h.bitrate }

/-- what the LAME tag encodes: the extension read by the meaning of its fields (`LameExt.decoded`: the track gain and the
album gain are stored alike, sign included) -/
def LameStream.expected (s : LameStream) : Mp3.Info :=
  s.expectedWith (s.ext.decoded (match s.tag.quality with | some q => q | none => -1))

/-! ### VBRI -/

structure VbriTag where
  delay : Nat
  quality : Nat
  bytes : Nat
  frames : Nat
  tocEntries : Nat
  tocScale : Nat
  /-- 2 or 4 -/
  tocEntrySize : Nat
  tocFramesPerEntry : Nat
  toc : Bytes
deriving DecidableEq, Repr

def VbriTag.render (t : VbriTag) : Bytes :=
  [0x56, 0x42, 0x52, 0x49] ++ toBE 2 1 ++ toBE 2 t.delay ++ toBE 2 t.quality ++ toBE 4 t.bytes ++ toBE 4 t.frames ++ toBE 2 t.tocEntries ++
  toBE 2 t.tocScale ++ toBE 2 t.tocEntrySize ++ toBE 2 t.tocFramesPerEntry ++ t.toc

def VbriTag.OK (t : VbriTag) : Prop :=
  t.delay < 2 ^ 16 ∧ t.quality < 2 ^ 16 ∧ t.bytes < 2 ^ 32 ∧ t.frames < 2 ^ 32 ∧ t.tocEntries < 2 ^ 16 ∧ t.tocScale < 2 ^ 16 ∧
  (t.tocEntrySize = 2 ∨ t.tocEntrySize = 4) ∧ t.tocFramesPerEntry < 2 ^ 16 ∧ t.toc.length = t.tocEntrySize * t.tocEntries

structure VbriStream where
  lead : Lead
  hdr : Hdr
  /-- the 32 bytes between the header and the VBRI header -/
  side : Bytes
  tag : VbriTag
  after : Bytes
deriving DecidableEq, Repr

def VbriStream.build (s : VbriStream) : Bytes := s.lead.render ++ (s.hdr.bytes ++ (s.side ++ (s.tag.render ++ s.after)))

def VbriStream.OK (s : VbriStream) : Prop :=
  s.lead.OK ∧ s.hdr.OK ∧ s.hdr.lay = 3 ∧ s.side.length = 32 ∧ s.tag.OK ∧
  isXingMagic (readAt (s.hdr.bytes ++ s.side) (4 + s.hdr.sideInfo) 4) = false

/-- `frames` frames of `samples` samples; `bytes` bytes in that time -/
def VbriStream.expected (s : VbriStream) : Mp3.Info :=
  let h := s.hdr
  let len : LExpr := .div (.flt (.nat (h.samples * s.tag.frames))) (.nat h.rate)
  { headerInfo h s.lead.render.length len with
    bitrateMode := 2, encoderInfo := Mp3.asciiB "FhG",
    bitrate := if h.samples * s.tag.frames ≠ 0 then .trunc (.div (.nat (s.tag.bytes * 8)) len) else .int h.bitrate }

/-! ### fewer than four frames -/

/-- a stream that stops after one to three frames: behind the last frame no further header, and nowhere a pair of bytes
that looks like a sync except where the frames begin (so that no later sync starts a chain of frames either) -/
structure Short where
  lead : Lead
  frames : List Frame
  trailing : Bytes
deriving DecidableEq, Repr

/-- each frame plain (no VBR header), without a false sync from its second byte up to and including the first byte
behind it; no false sync in what follows the last frame -/
def quietFrames : List Frame → Bytes → Prop
  | [], t => noSync t = true
  | fr :: rest, t =>
    plainFrame fr (renderFrames rest ++ t) ∧ noSync (fr.render.drop 1 ++ (renderFrames rest ++ t).take 1) = true ∧ quietFrames rest t

instance (fr : Frame) (after : Bytes) : Decidable (plainFrame fr after) := by unfold plainFrame; infer_instance

instance decQuietFrames : (fs : List Frame) → (t : Bytes) → Decidable (quietFrames fs t)
  | [], t => by unfold quietFrames; infer_instance
  | fr :: rest, t => by
    unfold quietFrames
    have := decQuietFrames rest t
    infer_instance

def Short.build (s : Short) : Bytes := s.lead.render ++ (renderFrames s.frames ++ s.trailing)

def Short.OK (s : Short) : Prop := s.lead.OK ∧ 1 ≤ s.frames.length ∧ s.frames.length ≤ 3 ∧ quietFrames s.frames s.trailing

instance (s : Short) : Decidable s.OK := by unfold Short.OK; infer_instance

/-- with two or three frames the first frame's header is what there is to report, marked `sketchy`; the duration is the
estimate from the size.  One frame alone is not taken for an MPEG stream (`none`: HeaderNotFoundError). -/
def Short.expected (s : Short) : Option Mp3.Info :=
  match s.frames with
  | f1 :: _ :: _ =>
    some { headerInfo f1.hdr s.lead.render.length
             (.div (.int (8 * ((s.build.length : Int) - (s.lead.render.length : Nat)))) (.flt (.int f1.hdr.bitrate))) with sketchy := true }
  | _ => none

end Mutagen.Spec.Mp3
