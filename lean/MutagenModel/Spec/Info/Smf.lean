/-
Spec/Info/Smf.lean — Standard MIDI File 1.0 (specification side), written from the specification:

  file   = "MThd" u32(6) u16(format) u16(ntrks) u16(division)  then ntrks × ( "MTrk" u32(length) event* )
  event  = delta-time (variable-length quantity) then one of
             channel message  status 0x80…0xEF, one data byte for 0xC_/0xD_, else two; the status byte may be left out
                              ("running status") when the previous event was a channel message with the same status
             sysex            0xF0 | 0xF7, length (VLQ), bytes
             meta             0xFF, type (< 0x80), length (VLQ), bytes;  type 0x51 length 3 = set tempo, µs per quarter
  VLQ    = 7 bits per byte, most significant first, bit 7 set on every byte but the last; at most four bytes
  division: bit 15 clear — ticks per quarter note; bit 15 set — SMPTE frames/ticks per frame.
  format 0: one track; 1: simultaneous tracks, the tempo map in the first; 2: independent sequences.

Length.  With a ticks-per-quarter division a tick lasts tempo / division µs, the tempo being 500000 until a set-tempo
event says otherwise; a track ends with its last event (End of Track), at the sum of all its delta-times; the file lasts
as long as its longest track (format 0, 1).  mutagen refuses SMPTE divisions and format 2 (SMFError) — for SMPTE the
length would be ticks / (fps · ticks-per-frame) without any tempo, for format 2 there is no single length; neither is
given an `expected` here.
-/
import MutagenModel.Model.Info.Smf
set_option linter.unusedVariables false
namespace Mutagen.Spec.Smf
open Mutagen Mutagen.Info

/-- the bytes of a variable-length quantity in front of the last one -/
def vlqHigh (n : Nat) : Bytes :=
  if h : n = 0 then [] else vlqHigh (n / 128) ++ [UInt8.ofNat (128 + n % 128)]
termination_by n
decreasing_by omega

/-- variable-length quantity -/
def vlq (n : Nat) : Bytes := vlqHigh (n / 128) ++ [UInt8.ofNat (n % 128)]

inductive Body
  /-- channel message; `running`: the status byte is left out -/
  | midi (status d1 : Nat) (d2 : Option Nat) (running : Bool)
  | sysex (lead : Nat) (payload : Bytes)
  | metaEv (type : Nat) (payload : Bytes)
  /-- meta event 0x51: microseconds per quarter note -/
  | tempo (us : Nat)
deriving DecidableEq, Repr

structure Event where
  delta : Nat
  body : Body
deriving DecidableEq, Repr

def optByte : Option Nat → Bytes
  | some x => [UInt8.ofNat x]
  | none => []

def Body.render : Body → Bytes
  | .midi status d1 d2 running =>
    (if running then [] else [UInt8.ofNat status]) ++ [UInt8.ofNat d1] ++ optByte d2
  | .sysex lead payload => [UInt8.ofNat lead] ++ vlq payload.length ++ payload
  | .metaEv type payload => [0xFF, UInt8.ofNat type] ++ vlq payload.length ++ payload
  | .tempo us => [0xFF, 0x51, 0x03] ++ toBE 3 us

def Event.render (e : Event) : Bytes := vlq e.delta ++ e.body.render

def renderEvents : List Event → Bytes
  | [] => []
  | e :: r => e.render ++ renderEvents r

/-- a well-formed event, `prev` being the status running status may refer to (`none` after a sysex or meta event, and
at the start of a track) -/
def Event.OK (prev : Option Nat) (e : Event) : Prop :=
  e.delta < 2 ^ 28 ∧
  match e.body with
  | .midi status d1 d2 running =>
    0x80 ≤ status ∧ status < 0xF0 ∧ d1 < 128 ∧
    (match d2 with | some x => x < 128 ∧ status / 16 ≠ 0xC ∧ status / 16 ≠ 0xD | none => status / 16 = 0xC ∨ status / 16 = 0xD) ∧
    (running = true → prev = some status)
  | .sysex lead payload => (lead = 0xF0 ∨ lead = 0xF7) ∧ payload.length < 2 ^ 28
  | .metaEv type payload => type < 128 ∧ type ≠ 0x51 ∧ payload.length < 2 ^ 28
  | .tempo us => us < 2 ^ 24

/-- the running status after an event -/
def nextPrev (prev : Option Nat) (e : Event) : Option Nat :=
  match e.body with
  | .midi status _ _ _ => some status
  | _ => none

def eventsOK : Option Nat → List Event → Prop
  | _, [] => True
  | prev, e :: r => e.OK prev ∧ eventsOK (nextPrev prev e) r

structure File where
  format : Nat
  division : Nat
  tracks : List (List Event)
deriving DecidableEq, Repr

def chunk (ident data : Bytes) : Bytes := ident ++ toBE 4 data.length ++ data

def renderTracks : List (List Event) → Bytes
  | [] => []
  | t :: r => chunk [0x4D, 0x54, 0x72, 0x6B] (renderEvents t) ++ renderTracks r

def File.build (f : File) : Bytes :=
  chunk [0x4D, 0x54, 0x68, 0x64] (toBE 2 f.format ++ toBE 2 f.tracks.length ++ toBE 2 f.division) ++ renderTracks f.tracks

/-- format 0 (one track) or 1, ticks per quarter note, well-formed tracks that fit their length fields -/
def File.OK (f : File) : Prop :=
  (f.format = 0 ∧ f.tracks.length = 1 ∨ f.format = 1 ∧ 1 ≤ f.tracks.length) ∧ f.tracks.length < 2 ^ 16 ∧
  1 ≤ f.division ∧ f.division < 2 ^ 15 ∧
  ∀ t ∈ f.tracks, eventsOK none t ∧ (renderEvents t).length < 2 ^ 32

/-! ### the length -/

/-- where the track ends: the sum of all delta-times -/
def endTick (t : List Event) : Nat := (t.map (·.delta)).sum

/-- the set-tempo events of a track with their times, in file order: `(tick, µs per quarter)` -/
def tempoMapGo : List Event → Nat → List (Nat × Nat)
  | [], _ => []
  | e :: r, tick =>
    match e.body with
    | .tempo us => (tick + e.delta, us) :: tempoMapGo r (tick + e.delta)
    | _ => tempoMapGo r (tick + e.delta)

def tempoMap (t : List Event) : List (Nat × Nat) := tempoMapGo t 0

/-- the stretches of constant tempo up to tick `e`: `(ticks, tempo)`, the first at 500000 µs per quarter, one more for
every tempo change (changes behind `e` give empty stretches) -/
def segmentsGo (e : Nat) : List (Nat × Nat) → Nat → Nat → List (Nat × Nat)
  | [], from_, tempo => [(e - from_, tempo)]
  | (s, us) :: r, from_, tempo => (min s e - from_, tempo) :: segmentsGo e r (min s e) us

def segments (e : Nat) (tm : List (Nat × Nat)) : List (Nat × Nat) := segmentsGo e tm 0 500000

/-- the tempo map that governs a track: its own in format 0, the first track's in format 1 -/
def File.tempoMapFor (f : File) (t : List Event) : List (Nat × Nat) :=
  if f.format = 1 then tempoMap (f.tracks.headD []) else tempoMap t

/-- what the file encodes: per track the stretches of constant tempo up to its end; the length is the largest of
Σ ticks / division · tempo / 10^6 (`Smf.Info.render` writes that down with mutagen's operand order).  Set-tempo events
behind the end of a track give empty stretches; in format 1 set-tempo events in tracks other than the first are not
part of the tempo map. -/
def File.expected (f : File) : Smf.Info :=
  { tickdiv := f.division, tracks := f.tracks.map fun t => segments (endTick t) (f.tempoMapFor t) }

/-! ### decidability (driver, examples) -/

instance (prev : Option Nat) (e : Event) : Decidable (e.OK prev) := by
  unfold Event.OK
  cases e.body with
  | midi st d1 d2 run => cases d2 <;> simp only <;> infer_instance
  | sysex l p => simp only; infer_instance
  | metaEv t p => simp only; infer_instance
  | tempo us => simp only; infer_instance

instance decEventsOK : (prev : Option Nat) → (evs : List Event) → Decidable (eventsOK prev evs)
  | _, [] => by unfold eventsOK; infer_instance
  | prev, e :: r => by
    unfold eventsOK
    have := decEventsOK (nextPrev prev e) r
    infer_instance

instance (f : File) : Decidable f.OK := by unfold File.OK; infer_instance

end Mutagen.Spec.Smf
