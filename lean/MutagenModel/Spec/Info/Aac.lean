/-
Spec/Info/Aac.lean — the ADTS frame header of ISO/IEC 13818-7 / 14496-3 (adts_fixed_header +
adts_variable_header, 56 bits, most significant bit first); nothing here is taken from mutagen's parser.

  syncword 0xFFF (12) · ID 1 · layer 2 ('00') · protection_absent 1 · profile 2 ·
  sampling_frequency_index 4 · private_bit 1 · channel_configuration 3 · original/copy 1 · home 1 ·
  copyright_identification_bit 1 · copyright_identification_start 1 · aac_frame_length 13 (whole frame,
  header included) · adts_buffer_fullness 11 · number_of_raw_data_blocks_in_frame 2,
  then (protection_absent = 0) the error-check data — 2 bytes for one raw data block, 4·n + 4 bytes for
  n + 1 > 1 blocks — and the raw data blocks.  Every raw data block holds 1024 samples per channel.
  channel_configuration 1..7 = 1, 2, 3, 4, 5, 6, 8 channels; 0 = the layout is in a program config
  element inside the raw data.
-/
import MutagenModel.Model.Info.Aac
import MutagenModel.Spec.Tables
namespace Mutagen.Spec.Aac
open Mutagen Mutagen.Info

structure Frame where
  copyrightBits : Nat
  bufferFullness : Nat
  nordbif : Nat
  /-- error-check data and raw data blocks (aac_frame_length = 7 + its length) -/
  body : Bytes

structure Adts where
  id : Nat
  protectionAbsent : Nat
  profile : Nat
  sfIndex : Nat
  privateBit : Nat
  chanConfig : Nat
  original : Nat
  home : Nat
  frames : List Frame

def crcBytes (protectionAbsent nordbif : Nat) : Nat :=
  if protectionAbsent = 1 then 0 else if nordbif = 0 then 2 else 4 * nordbif + 4

def Frame.OK (protectionAbsent : Nat) (fr : Frame) : Prop :=
  fr.copyrightBits < 4 ∧ fr.bufferFullness < 2 ^ 11 ∧ fr.nordbif < 4 ∧ 7 + fr.body.length < 2 ^ 13 ∧
  crcBytes protectionAbsent fr.nordbif ≤ fr.body.length

instance (pa : Nat) (fr : Frame) : Decidable (fr.OK pa) := by unfold Frame.OK; infer_instance

def Adts.OK (h : Adts) : Prop :=
  h.id < 2 ∧ h.protectionAbsent < 2 ∧ h.profile < 4 ∧ h.sfIndex < 13 ∧ h.privateBit < 2 ∧ h.chanConfig < 8 ∧
  h.original < 2 ∧ h.home < 2 ∧ 3 ≤ h.frames.length ∧ ∀ fr ∈ h.frames, fr.OK h.protectionAbsent

instance (h : Adts) : Decidable h.OK := by unfold Adts.OK; infer_instance

/-- the 56 header bits as a number (syncword in the top bits; layer = 0) -/
def headerWord (h : Adts) (fr : Frame) : Nat :=
  0xFFF * 2 ^ 44 + h.id * 2 ^ 43 + h.protectionAbsent * 2 ^ 40 + h.profile * 2 ^ 38 + h.sfIndex * 2 ^ 34 +
    h.privateBit * 2 ^ 33 + h.chanConfig * 2 ^ 30 + h.original * 2 ^ 29 + h.home * 2 ^ 28 + fr.copyrightBits * 2 ^ 26 +
    (7 + fr.body.length) * 2 ^ 13 + fr.bufferFullness * 2 ^ 2 + fr.nordbif

def frameBytes (h : Adts) (fr : Frame) : Bytes := toBE 7 (headerWord h fr) ++ fr.body

def build (h : Adts) : Bytes := h.frames.flatMap (frameBytes h)

def channelsOf (chanConfig : Nat) : Nat := [0, 1, 2, 3, 4, 5, 6, 8].getD chanConfig 0

def rate (h : Adts) : Nat := Spec.Tables.aacFreqs.getD h.sfIndex 0

def samples (h : Adts) : Nat := (h.frames.map fun fr => (fr.nordbif + 1) * 1024).sum

/-- bits of the raw data blocks (frame minus header and error-check data) -/
def rawBits (h : Adts) : Int :=
  (h.frames.map fun fr => (8 * (fr.body.length : Int) - 8 * crcBytes h.protectionAbsent fr.nordbif)).sum

/-- rate, channels, the bit rate of the raw data (`num // den`), and the duration `samples / rate` -/
def expected (h : Adts) : Aac.Info :=
  { channels := channelsOf h.chanConfig, sampleRate := rate h, bitrate := ⟨rawBits h * rate h, samples h⟩,
    length := ⟨samples h, rate h⟩, adif := false }

/-- mutagen documents `length` for ADTS as a guess: the samples of the frames it looked at, scaled by
(file size - 1) over the bytes those frames occupy; for a file that consists of the frames only:
`samples · (N - 1) / (N · rate)` with `N` the file size -/
def lengthEstimate (h : Adts) : Ratio :=
  ⟨(samples h : Int) * (((build h).length : Int) - 1), (((build h).length * rate h : Nat) : Int)⟩

/-! mutagen looks at the first 100 frames only -/

def samplesL (frs : List Frame) : Nat := (frs.map fun fr => (fr.nordbif + 1) * 1024).sum

def rawBitsL (protectionAbsent : Nat) (frs : List Frame) : Int :=
  (frs.map fun fr => (8 * (fr.body.length : Int) - 8 * crcBytes protectionAbsent fr.nordbif)).sum

/-- what `AACInfo` reports for a stream of any length ≥ 3: rate and channels of the fixed header, bit rate and the
`length` guess from the first 100 frames: `samples₁₀₀ · (N - 1) / (bytes₁₀₀ · rate)` (N = file size) -/
def expectedFirst100 (h : Adts) : Aac.Info :=
  let ex := h.frames.take 100
  { channels := channelsOf h.chanConfig, sampleRate := rate h,
    bitrate := ⟨rawBitsL h.protectionAbsent ex * rate h, samplesL ex⟩,
    length := ⟨(samplesL ex : Int) * (((build h).length : Int) - 1), (((ex.flatMap (frameBytes h)).length * rate h : Nat) : Int)⟩,
    adif := false }

end Mutagen.Spec.Aac

/-! ## ADIF (ISO/IEC 13818-7 adif_header(), program_config_element()), most significant bit first -/
namespace Mutagen.Spec.Aac
open Mutagen Mutagen.Info

/-- an optional field behind its "present" flag -/
def optField (w : Nat) : Option Nat → List Bool
  | none => natToBits 1 0
  | some v => natToBits 1 1 ++ natToBits w v

def optFieldOK (w : Nat) : Option Nat → Prop
  | none => True
  | some v => v < 2 ^ w
instance (w : Nat) (o : Option Nat) : Decidable (optFieldOK w o) := by cases o <;> simp only [optFieldOK] <;> infer_instance

/-- byte_alignment(): zero bits up to the next byte boundary, `pos` bits behind a byte boundary -/
def alignPad (pos : Nat) : List Bool := List.replicate ((8 - pos % 8) % 8) false

/-- a front / side / back channel element: is_cpe, tag_select -/
structure Elem where
  isCpe : Nat
  tag : Nat

def elemBits : List Elem → List Bool
  | [] => []
  | e :: es => natToBits 1 e.isCpe ++ (natToBits 4 e.tag ++ elemBits es)

def tagBits : List Nat → List Bool
  | [] => []
  | t :: ts => natToBits 4 t ++ tagBits ts

/-- valid_cc elements: cc_element_is_ind_sw, tag_select -/
def ccBits : List (Nat × Nat) → List Bool
  | [] => []
  | c :: cs => natToBits 1 c.1 ++ (natToBits 4 c.2 ++ ccBits cs)

structure Pce where
  tag : Nat
  objectType : Nat
  sfIndex : Nat
  front : List Elem
  side : List Elem
  back : List Elem
  lfe : List Nat
  assoc : List Nat
  cc : List (Nat × Nat)
  monoMixdown : Option Nat
  stereoMixdown : Option Nat
  /-- matrix_mixdown_idx (2) + pseudo_surround_enable (1) -/
  matrixMixdown : Option Nat
  comment : Bytes

def Pce.OK (p : Pce) : Prop :=
  p.tag < 2 ^ 4 ∧ p.objectType < 2 ^ 2 ∧ p.sfIndex < 13 ∧ p.front.length < 2 ^ 4 ∧ p.side.length < 2 ^ 4 ∧ p.back.length < 2 ^ 4 ∧
  p.lfe.length < 2 ^ 2 ∧ p.assoc.length < 2 ^ 3 ∧ p.cc.length < 2 ^ 4 ∧
  (∀ e ∈ p.front ++ (p.side ++ p.back), e.isCpe < 2 ∧ e.tag < 2 ^ 4) ∧ (∀ t ∈ p.lfe, t < 2 ^ 4) ∧ (∀ t ∈ p.assoc, t < 2 ^ 4) ∧
  (∀ c ∈ p.cc, c.1 < 2 ∧ c.2 < 2 ^ 4) ∧ optFieldOK 4 p.monoMixdown ∧ optFieldOK 4 p.stereoMixdown ∧ optFieldOK 3 p.matrixMixdown ∧
  p.comment.length < 2 ^ 8

instance (p : Pce) : Decidable p.OK := by unfold Pce.OK; infer_instance

def Pce.elems (p : Pce) : List Elem := p.front ++ (p.side ++ p.back)

/-- everything in front of byte_alignment() -/
def Pce.fixedBits (p : Pce) : List Bool :=
  natToBits 4 p.tag ++ (natToBits 2 p.objectType ++ (natToBits 4 p.sfIndex ++ (natToBits 4 p.front.length ++
    (natToBits 4 p.side.length ++ (natToBits 4 p.back.length ++ (natToBits 2 p.lfe.length ++ (natToBits 3 p.assoc.length ++
    (natToBits 4 p.cc.length ++ (optField 4 p.monoMixdown ++ (optField 4 p.stereoMixdown ++ (optField 3 p.matrixMixdown ++
    (elemBits p.elems ++ (tagBits p.lfe ++ (tagBits p.assoc ++ ccBits p.cc))))))))))))))

/-- program_config_element() starting `pos` bits behind a byte boundary -/
def Pce.bits (pos : Nat) (p : Pce) : List Bool :=
  p.fixedBits ++ (alignPad (pos + p.fixedBits.length) ++ (natToBits 8 p.comment.length ++ bytesToBits p.comment))

/-- channels of a configuration: one per single element, two per pair, one per LFE -/
def Pce.channels (p : Pce) : Nat := (p.elems.map fun e => 1 + e.isCpe).sum + p.lfe.length

structure Adif where
  copyrightId : Option Nat
  originalCopy : Nat
  home : Nat
  /-- 0 = constant rate (buffer fullness in front of every program config element), 1 = variable rate -/
  bitstreamType : Nat
  bitrate : Nat
  firstFullness : Nat
  first : Pce
  /-- further program config elements with their buffer fullness -/
  more : List (Nat × Pce)
  payload : Bytes

def Adif.OK (h : Adif) : Prop :=
  optFieldOK 72 h.copyrightId ∧ h.originalCopy < 2 ∧ h.home < 2 ∧ h.bitstreamType < 2 ∧ h.bitrate < 2 ^ 23 ∧
  h.firstFullness < 2 ^ 20 ∧ h.first.OK ∧ h.more.length < 2 ^ 4 ∧ ∀ x ∈ h.more, x.1 < 2 ^ 20 ∧ x.2.OK

instance (h : Adif) : Decidable h.OK := by unfold Adif.OK; infer_instance

def fullnessBits (bitstreamType fullness : Nat) : List Bool := if bitstreamType = 0 then natToBits 20 fullness else []

/-- the further program config elements, the first one starting `pos` bits behind a byte boundary -/
def morePceBits (bitstreamType : Nat) : Nat → List (Nat × Pce) → List Bool
  | _, [] => []
  | pos, x :: xs =>
    let b := fullnessBits bitstreamType x.1 ++ x.2.bits (pos + (fullnessBits bitstreamType x.1).length)
    b ++ morePceBits bitstreamType (pos + b.length) xs

def Adif.headBits (h : Adif) : List Bool :=
  optField 72 h.copyrightId ++ (natToBits 1 h.originalCopy ++ (natToBits 1 h.home ++ (natToBits 1 h.bitstreamType ++
    (natToBits 23 h.bitrate ++ (natToBits 4 h.more.length ++ fullnessBits h.bitstreamType h.firstFullness)))))

def Adif.bits (h : Adif) : List Bool :=
  let b1 := h.headBits ++ h.first.bits h.headBits.length
  b1 ++ morePceBits h.bitstreamType b1.length h.more

def Adif.build (h : Adif) : Bytes :=
  [0x41, 0x44, 0x49, 0x46] ++ (bitsToBytes (h.bits ++ alignPad h.bits.length) ++ h.payload)

/-- rate and channels of the first program config element, the bit rate field, and as `length` mutagen's documented
guess: the bits behind the header over the bit rate -/
def Adif.expected (h : Adif) : Aac.Info :=
  { channels := h.first.channels, sampleRate := Spec.Tables.aacFreqs.getD h.first.sfIndex 0, bitrate := ⟨h.bitrate, 1⟩,
    length := if h.bitrate ≠ 0 then ⟨8 * (h.payload.length : Int), h.bitrate⟩ else ⟨0, 1⟩, adif := true }

end Mutagen.Spec.Aac
