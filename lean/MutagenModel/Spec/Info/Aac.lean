/-
Spec/Info/Aac.lean — the ADTS frame header of ISO/IEC 13818-7 / 14496-3 (adts_fixed_header +
adts_variable_header, 56 bits, most significant bit first); nothing here is taken from mutagen's parser.

  syncword 0xFFF (12) · ID 1 · layer 2 ('00') · protection_absent 1 · profile 2 ·
  sampling_frequency_index 4 · private_bit 1 · channel_configuration 3 · original/copy 1 · home 1 ·
  copyright_identification_bit 1 · copyright_identification_start 1 · aac_frame_length 13 (whole frame,
  header included) · adts_buffer_fullness 11 · number_of_raw_data_blocks_in_frame 2,
  then (protection_absent = 0) the error-check data — 2 bytes for one raw data block, 4·n + 4 bytes for
  n + 1 > 1 blocks — and the raw data blocks.  Every raw data block holds 1024 samples per channel.
  channel_configuration 1..7 = 1, 2, 3, 4, 5, 6, 8 channels; 0 = the layout is in a program config
  element inside the raw data.
-/
import MutagenModel.Model.Info.Aac
import MutagenModel.Spec.Tables
namespace Mutagen.Spec.Aac
open Mutagen Mutagen.Info

structure Frame where
  copyrightBits : Nat
  bufferFullness : Nat
  nordbif : Nat
  /-- error-check data and raw data blocks (aac_frame_length = 7 + its length) -/
  body : Bytes

structure Adts where
  id : Nat
  protectionAbsent : Nat
  profile : Nat
  sfIndex : Nat
  privateBit : Nat
  chanConfig : Nat
  original : Nat
  home : Nat
  frames : List Frame

def crcBytes (protectionAbsent nordbif : Nat) : Nat :=
  if protectionAbsent = 1 then 0 else if nordbif = 0 then 2 else 4 * nordbif + 4

def Frame.OK (protectionAbsent : Nat) (fr : Frame) : Prop :=
  fr.copyrightBits < 4 ∧ fr.bufferFullness < 2 ^ 11 ∧ fr.nordbif < 4 ∧ 7 + fr.body.length < 2 ^ 13 ∧
  crcBytes protectionAbsent fr.nordbif ≤ fr.body.length

instance (pa : Nat) (fr : Frame) : Decidable (fr.OK pa) := by unfold Frame.OK; infer_instance

def Adts.OK (h : Adts) : Prop :=
  h.id < 2 ∧ h.protectionAbsent < 2 ∧ h.profile < 4 ∧ h.sfIndex < 13 ∧ h.privateBit < 2 ∧ h.chanConfig < 8 ∧
  h.original < 2 ∧ h.home < 2 ∧ 3 ≤ h.frames.length ∧ ∀ fr ∈ h.frames, fr.OK h.protectionAbsent

instance (h : Adts) : Decidable h.OK := by unfold Adts.OK; infer_instance

/-- the 56 header bits as a number (syncword in the top bits; layer = 0) -/
def headerWord (h : Adts) (fr : Frame) : Nat :=
  0xFFF * 2 ^ 44 + h.id * 2 ^ 43 + h.protectionAbsent * 2 ^ 40 + h.profile * 2 ^ 38 + h.sfIndex * 2 ^ 34 +
    h.privateBit * 2 ^ 33 + h.chanConfig * 2 ^ 30 + h.original * 2 ^ 29 + h.home * 2 ^ 28 + fr.copyrightBits * 2 ^ 26 +
    (7 + fr.body.length) * 2 ^ 13 + fr.bufferFullness * 2 ^ 2 + fr.nordbif

def frameBytes (h : Adts) (fr : Frame) : Bytes := toBE 7 (headerWord h fr) ++ fr.body

def build (h : Adts) : Bytes := h.frames.flatMap (frameBytes h)

def channelsOf (chanConfig : Nat) : Nat := [0, 1, 2, 3, 4, 5, 6, 8].getD chanConfig 0

def rate (h : Adts) : Nat := Spec.Tables.aacFreqs.getD h.sfIndex 0

def samples (h : Adts) : Nat := (h.frames.map fun fr => (fr.nordbif + 1) * 1024).sum

/-- bits of the raw data blocks (frame minus header and error-check data) -/
def rawBits (h : Adts) : Int :=
  (h.frames.map fun fr => (8 * (fr.body.length : Int) - 8 * crcBytes h.protectionAbsent fr.nordbif)).sum

/-- rate, channels, the bit rate of the raw data (`num // den`), and the duration `samples / rate` -/
def expected (h : Adts) : Aac.Info :=
  { channels := channelsOf h.chanConfig, sampleRate := rate h, bitrate := ⟨rawBits h * rate h, samples h⟩,
    length := ⟨samples h, rate h⟩, adif := false }

/-- mutagen documents `length` for ADTS as a guess: the samples of the frames it looked at, scaled by
(file size - 1) over the bytes those frames occupy; for a file that consists of the frames only:
`samples · (N - 1) / (N · rate)` with `N` the file size -/
def lengthEstimate (h : Adts) : Ratio :=
  ⟨(samples h : Int) * (((build h).length : Int) - 1), (((build h).length * rate h : Nat) : Int)⟩

/-! mutagen looks at the first 100 frames only -/

def samplesL (frs : List Frame) : Nat := (frs.map fun fr => (fr.nordbif + 1) * 1024).sum

def rawBitsL (protectionAbsent : Nat) (frs : List Frame) : Int :=
  (frs.map fun fr => (8 * (fr.body.length : Int) - 8 * crcBytes protectionAbsent fr.nordbif)).sum

/-- what `AACInfo` reports for a stream of any length ≥ 3: rate and channels of the fixed header, bit rate and the
`length` guess from the first 100 frames: `samples₁₀₀ · (N - 1) / (bytes₁₀₀ · rate)` (N = file size) -/
def expectedFirst100 (h : Adts) : Aac.Info :=
  let ex := h.frames.take 100
  { channels := channelsOf h.chanConfig, sampleRate := rate h,
    bitrate := ⟨rawBitsL h.protectionAbsent ex * rate h, samplesL ex⟩,
    length := ⟨(samplesL ex : Int) * (((build h).length : Int) - 1), (((ex.flatMap (frameBytes h)).length * rate h : Nat) : Int)⟩,
    adif := false }

end Mutagen.Spec.Aac
