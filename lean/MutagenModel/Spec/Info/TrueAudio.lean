/-
Spec/Info/TrueAudio.lean — the TTA1 stream header of the "TTA Lossless Audio Codec — format
description": "TTA1" · audio format u16 · channels u16 · bits per sample u16 · sample rate u32 ·
number of samples u32 · CRC-32 of the preceding 18 bytes (22 bytes).  Nothing here is taken
from mutagen's parser.
-/
import MutagenModel.Model.Info.TrueAudio
namespace Mutagen.Spec.TrueAudio
open Mutagen Mutagen.Info

def crcStep (c : Nat) : Nat := if c % 2 = 1 then (c / 2) ^^^ 0xEDB88320 else c / 2

/-- CRC-32 (IEEE 802.3, reflected, as zlib computes it) -/
def crc32 (data : Bytes) : Nat :=
  (data.foldl (fun c b => crcStep (crcStep (crcStep (crcStep (crcStep (crcStep (crcStep (crcStep
    (c ^^^ b.toNat))))))))) 0xFFFFFFFF) ^^^ 0xFFFFFFFF

structure Fields where
  format : Nat
  channels : Nat
  bits : Nat
  rate : Nat
  samples : Nat

def Fields.OK (h : Fields) : Prop :=
  h.format < 2 ^ 16 ∧ h.channels < 2 ^ 16 ∧ h.bits < 2 ^ 16 ∧ 1 ≤ h.rate ∧ h.rate < 2 ^ 32 ∧ h.samples < 2 ^ 32

instance (h : Fields) : Decidable h.OK := by unfold Fields.OK; infer_instance

def tta1 : Bytes := [0x54, 0x54, 0x41, 0x31]

def head (h : Fields) : Bytes :=
  tta1 ++ toLE 2 h.format ++ toLE 2 h.channels ++ toLE 2 h.bits ++ toLE 4 h.rate ++ toLE 4 h.samples

def build (h : Fields) : Bytes := head h ++ toLE 4 (crc32 (head h) % 2 ^ 32)

def expected (h : Fields) : TrueAudio.Info := { sampleRate := h.rate, length := ⟨h.samples, h.rate⟩ }

end Mutagen.Spec.TrueAudio
