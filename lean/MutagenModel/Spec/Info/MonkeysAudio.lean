/-
Spec/Info/MonkeysAudio.lean — the two header generations of Monkey's Audio as the MAC SDK
(APEHeader.h / MACLib.h) declares them; nothing here is taken from mutagen's parser.

Version ≥ 3980:  APE_DESCRIPTOR  cID "MAC " · nVersion u16 · padding u16 · nDescriptorBytes u32 ·
  nHeaderBytes u32 · nSeekTableBytes u32 · nHeaderDataBytes u32 · nAPEFrameDataBytes u32 ·
  nAPEFrameDataBytesHigh u32 · nTerminatingDataBytes u32 · cFileMD5[16]   (52 bytes, then
  nDescriptorBytes - 52 bytes "for future expansion"), followed by
  APE_HEADER  nCompressionLevel u16 · nFormatFlags u16 · nBlocksPerFrame u32 · nFinalFrameBlocks u32 ·
  nTotalFrames u32 · nBitsPerSample u16 · nChannels u16 · nSampleRate u32.

Version < 3980:  APE_HEADER_OLD  cID · nVersion u16 · nCompressionLevel u16 · nFormatFlags u16 ·
  nChannels u16 · nSampleRate u32 · nHeaderBytes u32 · nTerminatingBytes u32 · nTotalFrames u32 ·
  nFinalFrameBlocks u32, then the peak level u32 if flag 4, the seek-element count u32 if flag 16, the
  stored WAV header (nHeaderBytes bytes) unless flag 32.  Sample size: flag 1 → 8 bit, flag 8 → 24
  bit, otherwise 16.  Blocks per frame: 73728·4 from 3.95, 73728 from 3.90 (and from 3.80 at
  compression level 4000 "extra high"), 9216 before.

Number of blocks (samples per channel): (nTotalFrames - 1)·nBlocksPerFrame + nFinalFrameBlocks, 0
for a stream without frames.
-/
import MutagenModel.Model.Info.MonkeysAudio
namespace Mutagen.Spec.MonkeysAudio
open Mutagen Mutagen.Info

def magic : Bytes := [0x4d, 0x41, 0x43, 0x20]

/-- duration of `frames` frames; `⟨0, 1⟩` is the duration 0 of a stream without frames -/
def duration (totalFrames blocksPerFrame finalFrameBlocks rate : Nat) : Ratio :=
  if totalFrames = 0 then ⟨0, 1⟩ else ⟨((totalFrames - 1) * blocksPerFrame + finalFrameBlocks : Nat), rate⟩

/-! ### version ≥ 3980 -/

structure New where
  version : Nat
  padding : Nat
  /-- the descriptor's expansion bytes (nDescriptorBytes = 52 + length) -/
  extra : Bytes
  headerBytes : Nat
  seekTableBytes : Nat
  headerDataBytes : Nat
  frameDataBytes : Nat
  frameDataBytesHigh : Nat
  terminatingBytes : Nat
  md5 : Bytes
  compressionLevel : Nat
  formatFlags : Nat
  blocksPerFrame : Nat
  finalFrameBlocks : Nat
  totalFrames : Nat
  bits : Nat
  channels : Nat
  rate : Nat

def New.OK (h : New) : Prop :=
  3980 ≤ h.version ∧ h.version < 2 ^ 16 ∧ h.padding < 2 ^ 16 ∧ 52 + h.extra.length < 2 ^ 32 ∧
  h.headerBytes < 2 ^ 32 ∧ h.seekTableBytes < 2 ^ 32 ∧ h.headerDataBytes < 2 ^ 32 ∧ h.frameDataBytes < 2 ^ 32 ∧
  h.frameDataBytesHigh < 2 ^ 32 ∧ h.terminatingBytes < 2 ^ 32 ∧ h.md5.length = 16 ∧
  h.compressionLevel < 2 ^ 16 ∧ h.formatFlags < 2 ^ 16 ∧ h.blocksPerFrame < 2 ^ 32 ∧ h.finalFrameBlocks < 2 ^ 32 ∧
  h.totalFrames < 2 ^ 32 ∧ h.bits < 2 ^ 16 ∧ h.channels < 2 ^ 16 ∧ 1 ≤ h.rate ∧ h.rate < 2 ^ 32

instance (h : New) : Decidable h.OK := by unfold New.OK; infer_instance

def New.build (h : New) : Bytes :=
  magic ++ toLE 2 h.version ++ toLE 2 h.padding ++ toLE 4 (52 + h.extra.length) ++ toLE 4 h.headerBytes ++
    toLE 4 h.seekTableBytes ++ toLE 4 h.headerDataBytes ++ toLE 4 h.frameDataBytes ++ toLE 4 h.frameDataBytesHigh ++
    toLE 4 h.terminatingBytes ++ h.md5 ++ h.extra ++
    toLE 2 h.compressionLevel ++ toLE 2 h.formatFlags ++ toLE 4 h.blocksPerFrame ++ toLE 4 h.finalFrameBlocks ++
    toLE 4 h.totalFrames ++ toLE 2 h.bits ++ toLE 2 h.channels ++ toLE 4 h.rate

def New.expected (h : New) : MonkeysAudio.Info :=
  { version := h.version, channels := h.channels, sampleRate := h.rate, bitsPerSample := h.bits,
    length := duration h.totalFrames h.blocksPerFrame h.finalFrameBlocks h.rate }

/-! ### version < 3980 -/

structure Old where
  version : Nat
  compressionLevel : Nat
  /-- nFormatFlags: 1 = 8 bit, 2 = CRC, 4 = has peak level, 8 = 24 bit, 16 = has seek elements, 32 = no stored WAV header -/
  formatFlags : Nat
  channels : Nat
  rate : Nat
  terminatingBytes : Nat
  totalFrames : Nat
  finalFrameBlocks : Nat
  peakLevel : Nat
  seekElements : Nat
  /-- the stored header of the original file (nHeaderBytes = its length; empty with flag 32) -/
  wavHeader : Bytes

def Old.OK (h : Old) : Prop :=
  h.version < 3980 ∧ h.compressionLevel < 2 ^ 16 ∧ h.formatFlags < 2 ^ 16 ∧ h.channels < 2 ^ 16 ∧
  1 ≤ h.rate ∧ h.rate < 2 ^ 32 ∧ h.terminatingBytes < 2 ^ 32 ∧ h.totalFrames < 2 ^ 32 ∧
  h.finalFrameBlocks < 2 ^ 32 ∧ h.peakLevel < 2 ^ 32 ∧ h.seekElements < 2 ^ 32 ∧ h.wavHeader.length < 2 ^ 32 ∧
  (h.formatFlags / 32 % 2 = 1 → h.wavHeader = [])

instance (h : Old) : Decidable h.OK := by unfold Old.OK; infer_instance

def Old.build (h : Old) : Bytes :=
  magic ++ toLE 2 h.version ++ toLE 2 h.compressionLevel ++ toLE 2 h.formatFlags ++ toLE 2 h.channels ++
    toLE 4 h.rate ++ toLE 4 h.wavHeader.length ++ toLE 4 h.terminatingBytes ++ toLE 4 h.totalFrames ++
    toLE 4 h.finalFrameBlocks ++
    (if h.formatFlags / 4 % 2 = 1 then toLE 4 h.peakLevel else []) ++
    (if h.formatFlags / 16 % 2 = 1 then toLE 4 h.seekElements else []) ++ h.wavHeader

def Old.bits (h : Old) : Nat :=
  if h.formatFlags % 2 = 1 then 8 else if h.formatFlags / 8 % 2 = 1 then 24 else 16

def Old.blocksPerFrame (h : Old) : Nat :=
  if h.version ≥ 3950 then 73728 * 4
  else if h.version ≥ 3900 ∨ (h.version ≥ 3800 ∧ h.compressionLevel = 4000) then 73728
  else 9216

def Old.expected (h : Old) : MonkeysAudio.Info :=
  { version := h.version, channels := h.channels, sampleRate := h.rate, bitsPerSample := h.bits,
    length := duration h.totalFrames h.blocksPerFrame h.finalFrameBlocks h.rate }

/-- the canonical 44-byte RIFF/WAVE header of a PCM file (RIFF size · "WAVE" · "fmt " 16 · format 1 ·
channels · rate · byte rate · block align · bits · "data" size) -/
def pcmWavHeader (channels rate bits dataBytes byteRate blockAlign : Nat) : Bytes :=
  [0x52, 0x49, 0x46, 0x46] ++ toLE 4 (36 + dataBytes) ++ [0x57, 0x41, 0x56, 0x45, 0x66, 0x6d, 0x74] ++ [0x20] ++
    toLE 4 16 ++ toLE 2 1 ++ toLE 2 channels ++ toLE 4 rate ++ toLE 4 byteRate ++ toLE 2 blockAlign ++
    toLE 2 bits ++ [0x64, 0x61, 0x74, 0x61] ++ toLE 4 dataBytes

end Mutagen.Spec.MonkeysAudio
