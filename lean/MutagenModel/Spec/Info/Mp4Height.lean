/- Spec/Info/Mp4Height.lean — nesting depth of a box tree (ISO/IEC 14496-12 boxes as `Mp4C.Atom`) -/
import MutagenModel.Model.Container.Mp4
namespace Mutagen.Mp4C

mutual
/-- nesting depth of container atoms -/
def Atom.height : Atom → Nat
  | .leaf _ _ _ => 0
  | .node _ _ _ cs => 1 + heightList cs
def heightList : List Atom → Nat
  | [] => 0
  | a :: r => max a.height (heightList r)
end

end Mutagen.Mp4C
