/- Proofs/DictFile.lean — `FileType` over a refining tag store refines the same dictionary (C16) -/
import MutagenModel.Model.DictFile
import MutagenModel.Proofs.DictK
set_option linter.unusedVariables false
set_option linter.unusedSimpArgs false
set_option linter.unusedSectionVars false
namespace Mutagen.Dict
open Mutagen

section file
variable {S K V : Type} [DecidableEq K] {m : MapImpl S K V} {P : KPolicy K V} {inv : S → Prop}
  {abs : S → RefDict K V}

/-- a plain refinement is a key-dependent one for the policy that ignores the key -/
theorem Refines.toK {P0 : Policy K V} (h : Refines m P0 inv abs) : KRefines m P0.toK inv abs where
  nodup := h.nodup
  keys := h.keys
  get := h.get
  set := h.set
  del := h.del

theorem file_refines_aux (h : KRefines m P inv abs) (s0 : S) (hs0 : inv s0) (ha0 : abs s0 = [])
    (hnorm : ∀ k e, P.norm k = .error e → e = .key) :
    KRefines (fileImpl m (.ok s0)) P (fileInv inv) (fileAbs abs) where
  nodup := fun s hs => by
    cases s with
    | none => exact List.nodup_nil
    | some s => exact h.nodup s hs
  keys := fun s hs => by
    cases s with
    | none => rfl
    | some s => exact h.keys s hs
  get := fun s k hs => by
    cases s with
    | none =>
      simp only [fileImpl, fileAbs, Ref.get, KPolicy.keys]
      cases hn : P.norm k with
      | error e => rw [hnorm k e hn]
      | ok k' => rfl
    | some s => exact h.get s k hs
  set := fun s k v hs => by
    cases s with
    | none =>
      have := h.set s0 k v hs0
      rw [ha0] at this
      simp only [fileImpl, fileAbs]
      cases hset : m.setitem s0 k v with
      | error e =>
        rw [hset] at this
        cases hr : KRef.set P [] k v with
        | error e' => rw [hr] at this; exact this
        | ok r' => rw [hr] at this; exact this.elim
      | ok s' =>
        rw [hset] at this
        cases hr : KRef.set P [] k v with
        | error e' => rw [hr] at this; exact this.elim
        | ok r' => rw [hr] at this; exact this
    | some s =>
      have := h.set s k v hs
      simp only [fileImpl, fileAbs]
      cases hset : m.setitem s k v with
      | error e =>
        rw [hset] at this
        cases hr : KRef.set P (abs s) k v with
        | error e' => rw [hr] at this; exact this
        | ok r' => rw [hr] at this; exact this.elim
      | ok s' =>
        rw [hset] at this
        cases hr : KRef.set P (abs s) k v with
        | error e' => rw [hr] at this; exact this.elim
        | ok r' => rw [hr] at this; exact this
  del := fun s k hs => by
    cases s with
    | none =>
      simp only [fileImpl, fileAbs, Ref.del, KPolicy.keys]
      cases hn : P.norm k with
      | error e => rw [hnorm k e hn]; rfl
      | ok k' => rfl
    | some s =>
      have := h.del s k hs
      simp only [fileImpl, fileAbs]
      cases hdel : m.delitem s k with
      | error e =>
        rw [hdel] at this
        cases hr : Ref.del P.keys (abs s) k with
        | error e' => rw [hr] at this; exact this
        | ok r' => rw [hr] at this; exact this.elim
      | ok s' =>
        rw [hdel] at this
        cases hr : Ref.del P.keys (abs s) k with
        | error e' => rw [hr] at this; exact this.elim
        | ok r' => rw [hr] at this; exact this

/-- `tags is None` and freshly added empty tags answer the four primitives alike -/
theorem file_none_like_fresh_aux (h : KRefines m P inv abs) (s0 : S) (hs0 : inv s0) (ha0 : abs s0 = [])
    (hnorm : ∀ k e, P.norm k = .error e → e = .key) (k : K) (v : V) :
    (fileImpl m (.ok s0)).getitem none k = (fileImpl m (.ok s0)).getitem (some s0) k ∧
    (fileImpl m (.ok s0)).setitem none k v = (fileImpl m (.ok s0)).setitem (some s0) k v ∧
    (fileImpl m (.ok s0)).delitem none k = (fileImpl m (.ok s0)).delitem (some s0) k ∧
    (fileImpl m (.ok s0)).keys none = (fileImpl m (.ok s0)).keys (some s0) := by
  have hf := file_refines_aux h s0 hs0 ha0 hnorm
  refine ⟨?_, rfl, ?_, ?_⟩
  · rw [hf.get none k trivial, hf.get (some s0) k hs0]; simp [fileAbs, ha0]
  · have h1 := hf.del none k trivial
    have h2 := hf.del (some s0) k hs0
    simp only [fileAbs, ha0] at h1 h2
    have hr : Ref.del P.keys ([] : RefDict K V) k = .error .key ∨ ∃ e, Ref.del P.keys ([] : RefDict K V) k = .error e := by
      right
      simp only [Ref.del, KPolicy.keys]
      cases P.norm k with
      | error e => exact ⟨e, rfl⟩
      | ok k' => exact ⟨.key, rfl⟩
    rcases hr with hr | ⟨e, hr⟩
    all_goals
      rw [hr] at h1 h2
      cases hd1 : (fileImpl m (.ok s0)).delitem none k with
      | ok x => rw [hd1] at h1; exact h1.elim
      | error e1 =>
        cases hd2 : (fileImpl m (.ok s0)).delitem (some s0) k with
        | ok x => rw [hd2] at h2; exact h2.elim
        | error e2 =>
          rw [hd1] at h1; rw [hd2] at h2
          simp only [SimStep] at h1 h2
          rw [h1, h2]
  · have := hf.keys (some s0) hs0
    simp only [fileAbs, ha0, keysOf_nil, List.map_nil, List.map_eq_nil_iff] at this
    rw [this]; rfl

end file
end Mutagen.Dict
