/- Proofs/Ogg.lean — lemmas for C15: reassembly invariant of from_packets, lacing round trip -/
import MutagenModel.Model.Ogg
set_option linter.unusedVariables false
namespace Mutagen.Ogg
open Mutagen


def step (acc : List Bytes) (p : Page) : List Bytes :=
  match p.packets with
  | [] => acc
  | f :: rest => if p.continued then extLast acc f ++ rest else acc ++ f :: rest

theorem reasm_append_singleton (acc : List Bytes) (ps : List Page) (p : Page) :
    reasm acc (ps ++ [p]) = step (reasm acc ps) p := by
  induction ps generalizing acc with
  | nil =>
    simp only [List.nil_append, reasm, step]
    cases p.packets with
    | nil => rfl
    | cons f r => simp only [reasm]
  | cons q qs ih =>
    simp only [List.cons_append, reasm]
    split
    · exact ih _
    · split <;> exact ih _

@[simp] theorem extLast_nil (d : Bytes) : extLast [] d = [d] := rfl

@[simp] theorem extLast_concat (l : List Bytes) (x d : Bytes) : extLast (l ++ [x]) d = l ++ [x ++ d] := by
  induction l with
  | nil => rfl
  | cons a r ih =>
    cases r with
    | nil => rfl
    | cons b r' =>
      show a :: extLast (b :: r' ++ [x]) d = _
      rw [ih]; rfl

theorem extLast_extLast (l : List Bytes) (a b : Bytes) : extLast (extLast l a) b = extLast l (a ++ b) := by
  rcases List.eq_nil_or_concat l with rfl | ⟨l', x, rfl⟩
  · show extLast ([] ++ [a]) b = _
    rw [extLast_concat]; rfl
  · rw [List.concat_eq_append, extLast_concat, extLast_concat, extLast_concat, List.append_assoc]

theorem extLast_append_of_ne_nil (xs ys : List Bytes) (d : Bytes) (h : ys ≠ []) :
    extLast (xs ++ ys) d = xs ++ extLast ys d := by
  rcases List.eq_nil_or_concat ys with rfl | ⟨l', x, rfl⟩
  · exact absurd rfl h
  · rw [List.concat_eq_append, ← List.append_assoc, extLast_concat, extLast_concat, List.append_assoc]


structure Inv (s : St) (built : List Bytes) : Prop where
  sem : step (reasm [] s.done) s.cur = built
  cont : s.cur.continued = true → ∃ f rest, s.cur.packets = f :: rest ∧ f ≠ []
  compl : s.cur.complete = true

theorem step_extLast (B : List Bytes) (p : Page) (d : Bytes) (h : p.packets ≠ []) :
    step B { p with packets := extLast p.packets d } = extLast (step B p) d := by
  unfold step
  match hp : p.packets, h with
  | [f], _ =>
    simp only [extLast]
    split
    · simp [extLast_extLast]
    · simp
  | f :: g :: r, _ =>
    simp only [extLast]
    split
    · rw [extLast_append_of_ne_nil _ _ _ (by simp)]
    · rw [show B ++ f :: g :: r = (B ++ [f]) ++ (g :: r) by simp,
        extLast_append_of_ne_nil _ _ _ (by simp)]
      simp


/-- appending data to the last packet of the current page -/
theorem Inv.ext {s : St} {built : List Bytes} (hI : Inv s built) (hne : s.cur.packets ≠ []) (d : Bytes) :
    Inv { s with cur := { s.cur with packets := extLast s.cur.packets d } } (extLast built d) ∧
    extLast s.cur.packets d ≠ [] := by
  have hne' : extLast s.cur.packets d ≠ [] := by
    rcases List.eq_nil_or_concat s.cur.packets with h | ⟨l, x, h⟩
    · exact absurd h hne
    · rw [h, List.concat_eq_append, extLast_concat]; simp
  refine ⟨⟨?_, ?_, hI.compl⟩, hne'⟩
  · show step (reasm [] s.done) { s.cur with packets := extLast s.cur.packets d } = _
    rw [step_extLast _ _ _ hne, hI.sem]
  · intro hc
    obtain ⟨f, rest, hp, hf⟩ := hI.cont hc
    show ∃ f rest, extLast s.cur.packets d = f :: rest ∧ f ≠ []
    rw [hp]
    cases rest with
    | nil => exact ⟨f ++ d, [], rfl, by simp [hf]⟩
    | cons g r => exact ⟨f, extLast (g :: r) d, rfl, hf⟩


theorem step_congr (B : List Bytes) (p q : Page) (h1 : p.packets = q.packets) (h2 : p.continued = q.continued) :
    step B p = step B q := by
  unfold step; rw [h1, h2]

theorem step_concat_nil (B : List Bytes) (p : Page) (q : List Bytes) (hp : p.packets = q ++ [[]])
    (hc : p.continued = true → ∃ f rest, p.packets = f :: rest ∧ f ≠ []) :
    step B p = step B { p with packets := q } ++ [[]] := by
  unfold step
  cases q with
  | nil =>
    simp only [List.nil_append] at hp
    have hnc : p.continued = false := by
      cases hcc : p.continued with
      | false => rfl
      | true =>
        obtain ⟨f, rest, hp', hf⟩ := hc hcc
        rw [hp] at hp'
        injection hp' with h1 h2
        exact absurd h1.symm hf
    simp [hp, hnc]
  | cons f r =>
    simp only [hp, List.cons_append]
    split <;> simp [List.append_assoc]

/-- page break (both variants of the `else` branch) -/
theorem Inv.brk {s : St} {built : List Bytes} (hI : Inv s built) (hne : s.cur.packets ≠ []) (data : Bytes)
    (hd : data ≠ []) (s' : St)
    (hs' : s' =
      match s.cur.packets.getLast? with
        | some l =>
          if l ≠ [] then
            let old := { s.cur with complete := false,
                                    position := if s.cur.packets.length = 1 then -1 else s.cur.position }
            { done := s.done ++ [old],
              cur := { packets := [data], continued := true, sequence := s.cur.sequence + 1 } }
          else
            let old := { s.cur with packets := s.cur.packets.dropLast }
            { done := s.done ++ [old],
              cur := { packets := [data], continued := !old.complete, sequence := s.cur.sequence + 1 } }
        | none => s) :
    Inv s' (extLast built data) ∧ s'.cur.packets ≠ [] := by
  rcases List.eq_nil_or_concat s.cur.packets with h | ⟨q, l, h⟩
  · exact absurd h hne
  · rw [List.concat_eq_append] at h
    have hl : s.cur.packets.getLast? = some l := by rw [h]; simp
    rw [hl] at hs'
    by_cases hle : l = []
    · subst hle
      simp only [ne_eq, not_true_eq_false, ↓reduceIte] at hs'
      subst hs'
      refine ⟨⟨?_, ?_, rfl⟩, by simp⟩
      · simp only [reasm_append_singleton]
        have hdl : s.cur.packets.dropLast = q := by rw [h]; simp
        rw [hdl]
        have := step_concat_nil (reasm [] s.done) s.cur q h hI.cont
        rw [hI.sem] at this
        rw [this]
        simp [step, hI.compl]
      · intro hc
        simp [hI.compl] at hc
    · simp only [ne_eq, hle, not_false_eq_true, ↓reduceIte] at hs'
      subst hs'
      refine ⟨⟨?_, ?_, rfl⟩, by simp⟩
      · simp only [reasm_append_singleton]
        have e : step (reasm [] s.done)
            { s.cur with complete := false,
                         position := if s.cur.packets.length = 1 then -1 else s.cur.position } = built := by
          rw [← hI.sem]; exact step_congr _ _ _ rfl rfl
        rw [e]
        simp [step]
      · intro _
        exact ⟨data, [], rfl, hd⟩


theorem inner_inv (pol : Policy) (chunk wiggle : Nat) (hc : 0 < chunk)
    (s : St) (packet : Bytes) (built : List Bytes)
    (hI : Inv s built) (hne : s.cur.packets ≠ []) :
    Inv (inner pol chunk wiggle hc s packet) (extLast built packet) ∧
    (inner pol chunk wiggle hc s packet).cur.packets ≠ [] := by
  fun_induction inner pol chunk wiggle hc s packet generalizing built with
  | case1 s =>
    -- packet = []
    have : extLast built [] = built := by
      rcases List.eq_nil_or_concat built with rfl | ⟨l, x, rfl⟩
      · -- built = [] is impossible when cur.packets ≠ [] ; but extLast [] [] = [[]]: handle via sem
        exfalso
        have hs := hI.sem
        unfold step at hs
        match hp : s.cur.packets, hne with
        | f :: r, _ =>
          rw [hp] at hs
          simp only at hs
          split at hs
          · have : extLast (reasm [] s.done) f ≠ [] := by
              rcases List.eq_nil_or_concat (reasm [] s.done) with h | ⟨l, x, h⟩
              · rw [h]; simp
              · rw [h, List.concat_eq_append, extLast_concat]; simp
            cases hq : extLast (reasm [] s.done) f with
            | nil => exact this hq
            | cons a b => rw [hq] at hs; simp at hs
          · simp at hs
      · rw [List.concat_eq_append, extLast_concat]; simp
    rw [this]; exact ⟨hI, hne⟩
  | case2 s packet hpk data rest s1 hw =>
    -- last chunk (wiggle room): s1 then extend by rest
    have hdne : data ≠ [] := by
      intro h; apply hpk
      have := congrArg List.length h
      simp only [data, List.length_take, List.length_nil] at this
      cases packet with
      | nil => rfl
      | cons a b => simp at this; omega
    have hsplit : packet = data ++ rest := (List.take_append_drop chunk packet).symm
    have h1 : Inv s1 (extLast built data) ∧ s1.cur.packets ≠ [] := by
      simp only [s1]
      split
      · exact hI.ext hne data
      · exact hI.brk hne data hdne _ rfl
    have h2 := h1.1.ext h1.2 rest
    rw [extLast_extLast, ← hsplit] at h2
    exact h2
  | case3 s packet hpk data rest s1 hw ih =>
    have hdne : data ≠ [] := by
      intro h; apply hpk
      have := congrArg List.length h
      simp only [data, List.length_take, List.length_nil] at this
      cases packet with
      | nil => rfl
      | cons a b => simp at this; omega
    have hsplit : packet = data ++ rest := (List.take_append_drop chunk packet).symm
    have h1 : Inv s1 (extLast built data) ∧ s1.cur.packets ≠ [] := by
      simp only [s1]
      split
      · exact hI.ext hne data
      · exact hI.brk hne data hdne _ rfl
    have h2 := ih (extLast built data) h1.1 h1.2
    rw [extLast_extLast, ← hsplit] at h2
    exact h2


theorem Inv.push {s : St} {built : List Bytes} (hI : Inv s built) :
    Inv { s with cur := { s.cur with packets := s.cur.packets ++ [[]] } } (built ++ [[]]) := by
  have hc' : s.cur.continued = true →
      ∃ f rest, s.cur.packets ++ [[]] = f :: rest ∧ f ≠ [] := by
    intro hc
    obtain ⟨f, r, hp, hf⟩ := hI.cont hc
    exact ⟨f, r ++ [[]], by rw [hp]; rfl, hf⟩
  refine ⟨?_, hc', hI.compl⟩
  have := step_concat_nil (reasm [] s.done)
    { s.cur with packets := s.cur.packets ++ [[]] } s.cur.packets rfl hc'
  rw [this, ← hI.sem]

/-- starting a fresh page between two packets -/
theorem Inv.flush {s : St} {built : List Bytes} (hI : Inv s built) :
    Inv { done := s.done ++ [s.cur], cur := { sequence := s.cur.sequence + 1 } } built := by
  refine ⟨?_, fun h => by simp at h, rfl⟩
  simp only [reasm_append_singleton, hI.sem]
  rfl

theorem outer_inv (pol : Policy) (chunk wiggle : Nat) (hc : 0 < chunk)
    (s : St) (ps : List Bytes) (built : List Bytes) (hI : Inv s built) :
    Inv (outer pol chunk wiggle hc s ps) (built ++ ps) := by
  induction ps generalizing s built with
  | nil => simpa [outer] using hI
  | cons p ps ih =>
    simp only [outer]
    have hf : Inv (if pol.pre s.cur = true ∧ s.cur.packets ≠ [] then
        ({ done := s.done ++ [s.cur], cur := { sequence := s.cur.sequence + 1 } } : St) else s) built := by
      split
      · exact hI.flush
      · exact hI
    have h0 := hf.push
    have h1 := inner_inv pol chunk wiggle hc _ p _ h0 (by simp)
    rw [extLast_concat, List.nil_append] at h1
    have := ih _ _ h1.1
    simpa [List.append_assoc] using this

/-- C15, first sentence: reassembling the pages produced from any packet list gives the packets back,
    for every page-filling policy `fits`, chunk size > 0 and wiggle room. -/
theorem reasm_fromPackets (pol : Policy) (chunk wiggle : Nat) (hc : 0 < chunk)
    (seq : Nat) (ps : List Bytes) :
    reasm [] (fromPacketsWith pol chunk wiggle hc seq ps) = ps := by
  have h0 : Inv { done := [], cur := { sequence := seq } } [] :=
    ⟨rfl, fun h => by simp at h, rfl⟩
  have h := outer_inv pol chunk wiggle hc _ ps [] h0
  simp only [List.nil_append] at h
  unfold fromPacketsWith
  simp only
  split
  · rename_i he
    have := h.sem
    unfold step at this
    rw [he] at this
    exact this
  · rw [reasm_append_singleton]; exact h.sem


theorem unlace_replicate (k total : Nat) (rest : List Nat) :
    unlace total (List.replicate k 255 ++ rest) = unlace (total + 255 * k) rest := by
  induction k generalizing total with
  | zero => simp
  | succ k ih =>
    simp only [List.replicate_succ, List.cons_append, unlace]
    simp only [Nat.lt_irrefl, ↓reduceIte]
    rw [ih]; congr 1; omega

theorem unlace_lace1 (n total : Nat) (rest : List Nat) :
    unlace total (lace1 n ++ rest) = ((total + n) :: (unlace 0 rest).1, (unlace 0 rest).2) := by
  unfold lace1
  rw [List.append_assoc, unlace_replicate]
  simp only [List.singleton_append, unlace]
  have : n % 255 < 255 := Nat.mod_lt _ (by decide)
  simp only [this, ↓reduceIte]
  congr 2
  have := Nat.div_add_mod n 255
  omega

/-- complete pages: every packet length comes back, page is complete -/
theorem unlace_lacing_complete (lens : List Nat) :
    unlace 0 (lacing lens true) = (lens, true) := by
  simp only [lacing, Bool.not_true, Bool.false_and, Bool.false_eq_true, ↓reduceIte]
  induction lens with
  | nil => simp [unlace]
  | cons n r ih =>
    simp only [List.map_cons, List.flatten_cons]
    rw [unlace_lace1, ih]; simp

/-- incomplete pages: last packet a positive multiple of 255 -/
theorem unlace_lacing_incomplete (lens : List Nat) (m : Nat) (hm : 0 < m) :
    unlace 0 (lacing (lens ++ [255 * m]) false) = (lens ++ [255 * m], false) := by
  have hl : lace1 (255 * m) = List.replicate m 255 ++ [0] := by
    simp [lace1, Nat.mul_div_cancel_left]
  have hfl : ((lens ++ [255 * m]).map lace1).flatten = (lens.map lace1).flatten ++ List.replicate m 255 ++ [0] := by
    simp [hl, List.append_assoc]
  simp only [lacing, Bool.not_false, Bool.true_and, hfl]
  simp only [List.getLast?_append, List.getLast?_singleton, Option.some_or, decide_true, ↓reduceIte,
    List.dropLast_concat]
  induction lens with
  | nil =>
    simp only [List.map_nil, List.flatten_nil, List.nil_append]
    have := unlace_replicate m 0 []
    simp only [List.append_nil] at this
    rw [this]
    simp [unlace]; omega
  | cons n r ih =>
    simp only [List.map_cons, List.flatten_cons, List.append_assoc, List.cons_append]
    rw [unlace_lace1]
    simp only [List.append_assoc] at ih
    rw [ih (by simp [hl, List.append_assoc])]; simp

end Mutagen.Ogg
