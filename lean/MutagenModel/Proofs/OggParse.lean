/- Proofs/OggParse.lean — the page parser reads back what the page writer wrote -/
import MutagenModel.Model.Ogg
import MutagenModel.Proofs.IntCodec
import MutagenModel.Proofs.Ogg
set_option linter.unusedVariables false
namespace Mutagen.Ogg
open Mutagen

theorem ofSignedLE_toSignedLE (w : Nat) (hw : 0 < w) (i : Int)
    (h1 : -((256 ^ w / 2 : Nat) : Int) ≤ i) (h2 : i < ((256 ^ w / 2 : Nat) : Int)) :
    ofSignedLE (toSignedLE w i) = i := by
  have heven : 256 ^ w % 2 = 0 := by
    cases w with
    | zero => omega
    | succ n => rw [Nat.pow_succ]; omega
  unfold ofSignedLE toSignedLE
  simp only [length_toLE]
  by_cases hneg : i < 0
  · simp only [hneg, ↓reduceIte]
    have hlt : 256 ^ w - (-i).toNat < 256 ^ w := by omega
    rw [ofLE_toLE w _ hlt]
    have : 2 * (256 ^ w - (-i).toNat) ≥ 256 ^ w := by omega
    simp only [this, ↓reduceIte]
    omega
  · simp only [hneg, ↓reduceIte]
    have hlt : i.toNat < 256 ^ w := by omega
    rw [ofLE_toLE w _ hlt]
    have : ¬ (2 * i.toNat ≥ 256 ^ w) := by omega
    simp only [this, ↓reduceIte]
    omega

theorem lace1_le (n : Nat) : ∀ x ∈ lace1 n, x ≤ 255 := by
  intro x hx
  simp only [lace1, List.mem_append, List.mem_replicate, List.mem_singleton] at hx
  rcases hx with ⟨_, rfl⟩ | rfl
  · omega
  · have := Nat.mod_lt n (by decide : 0 < 255); omega

theorem lacing_le (lens : List Nat) (c : Bool) : ∀ x ∈ lacing lens c, x ≤ 255 := by
  intro x hx
  have hall : ∀ y ∈ (lens.map lace1).flatten, y ≤ 255 := by
    intro y hy
    obtain ⟨l, hl, hyl⟩ := List.mem_flatten.mp hy
    obtain ⟨n, _, rfl⟩ := List.mem_map.mp hl
    exact lace1_le n y hyl
  simp only [lacing] at hx
  split at hx
  · exact hall x (List.dropLast_subset _ hx)
  · exact hall x hx

theorem map_toNat_ofNat_le (l : List Nat) (h : ∀ x ∈ l, x ≤ 255) : (l.map UInt8.ofNat).map UInt8.toNat = l := by
  induction l with
  | nil => rfl
  | cons a r ih =>
    have ha := h a (by simp)
    simp only [List.map_cons, ih (fun x hx => h x (by simp [hx]))]
    congr 1
    simp only [UInt8.toNat_ofNat']; omega

theorem splitLens_flatten (ps : List Bytes) (rest : Bytes) :
    splitLens (ps.map List.length) (ps.flatten ++ rest) = some (ps, rest) := by
  induction ps with
  | nil => simp [splitLens]
  | cons p r ih =>
    simp only [List.map_cons, List.flatten_cons, splitLens, List.append_assoc]
    have h1 : ¬ ((p ++ (r.flatten ++ rest)).length < p.length) := by simp
    simp only [h1, ↓reduceIte, List.drop_left' rfl, ih, List.take_left' rfl]

/-- pages the parser can give back: complete ones, and incomplete ones whose last packet is a
positive multiple of 255 bytes long (the only incomplete pages `from_packets` builds: a chunk of
a packet that continues on the next page) -/
def Canon (p : Page) : Prop :=
  p.complete = true ∨ (p.complete = false ∧ ∃ init m, 0 < m ∧ p.packets.map List.length = init ++ [255 * m])

theorem unlace_lacing (p : Page) (h : Canon p) :
    unlace 0 p.lacing = (p.packets.map List.length, p.complete) := by
  unfold Page.lacing
  rcases h with h | ⟨h, init, m, hm, he⟩
  · rw [h]; exact unlace_lacing_complete _
  · rw [h, he]; exact unlace_lacing_incomplete init m hm

/-- decoding the header type byte -/
theorem flags_decode (c f l : Bool) (hi : Nat) (hhi : hi < 32) :
    let v := (if c then 1 else 0) + (if f then 2 else 0) + (if l then 4 else 0) + 8 * hi
    v < 256 ∧ decide (v % 2 = 1) = c ∧ decide (v / 2 % 2 = 1) = f ∧ decide (v / 4 % 2 = 1) = l ∧ v / 8 = hi := by
  cases c <;> cases f <;> cases l <;> simp <;> omega

/-- THE page round trip: `OggPage(fileobj)` on the bytes `OggPage.write()` produced — followed by
anything — gives the page back, field for field, and leaves the rest -/
theorem parse_render (p : Page) (b rest : Bytes) (hr : p.render = .ok b) (hv : p.version = 0) (hhi : p.flagsHi < 32)
    (hc : Canon p) : parse (b ++ rest) = .ok (p, rest) := by
  unfold Page.render at hr
  split at hr
  · cases hr
  rename_i hlac
  split at hr
  · cases hr
  rename_i hrange
  simp only [Except.ok.injEq] at hr
  have hser : p.serial < 2 ^ 32 := by omega
  have hseq : p.sequence < 2 ^ 32 := by omega
  have hp1 : -(2 ^ 63 : Int) ≤ p.position := by omega
  have hp2 : p.position < (2 ^ 63 : Int) := by omega
  obtain ⟨hfl, hd1, hd2, hd3, hd4⟩ := flags_decode p.continued p.first p.last p.flagsHi hhi
  generalize hcrc : toLE 4 (crc (p.renderWith [0, 0, 0, 0])).toNat = C at hr
  unfold Page.renderWith at hr
  have lC : C.length = 4 := by rw [← hcrc]; simp
  obtain ⟨c1, c2, c3, c4, rfl⟩ : ∃ c1 c2 c3 c4, C = [c1, c2, c3, c4] := by
    match C, lC with
    | [a, b', c, d], _ => exact ⟨a, b', c, d, rfl⟩
  -- the eight position bytes and the two four-byte fields
  generalize hP : toSignedLE 8 p.position = P at hr
  have lP : P.length = 8 := by rw [← hP]; simp [toSignedLE]
  obtain ⟨p1, p2, p3, p4, p5, p6, p7, p8, rfl⟩ : ∃ p1 p2 p3 p4 p5 p6 p7 p8, P = [p1, p2, p3, p4, p5, p6, p7, p8] := by
    match P, lP with
    | [a1, a2, a3, a4, a5, a6, a7, a8], _ => exact ⟨a1, a2, a3, a4, a5, a6, a7, a8, rfl⟩
  generalize hS : toLE 4 p.serial = S at hr
  have lS : S.length = 4 := by rw [← hS]; simp
  obtain ⟨s1, s2, s3, s4, rfl⟩ : ∃ s1 s2 s3 s4, S = [s1, s2, s3, s4] := by
    match S, lS with
    | [a, b', c, d], _ => exact ⟨a, b', c, d, rfl⟩
  generalize hQ : toLE 4 p.sequence = Q at hr
  have lQ : Q.length = 4 := by rw [← hQ]; simp
  obtain ⟨q1, q2, q3, q4, rfl⟩ : ∃ q1 q2 q3 q4, Q = [q1, q2, q3, q4] := by
    match Q, lQ with
    | [a, b', c, d], _ => exact ⟨a, b', c, d, rfl⟩
  have ePos : ofSignedLE [p1, p2, p3, p4, p5, p6, p7, p8] = p.position := by
    rw [← hP]; exact ofSignedLE_toSignedLE 8 (by decide) _ (by simpa using hp1) (by simpa using hp2)
  have eSer : ofLE [s1, s2, s3, s4] = p.serial := by rw [← hS]; exact ofLE_toLE 4 _ (by simpa using hser)
  have eSeq : ofLE [q1, q2, q3, q4] = p.sequence := by rw [← hQ]; exact ofLE_toLE 4 _ (by simpa using hseq)
  subst hr
  unfold parse
  simp only [hv, List.cons_append, List.nil_append, List.isEmpty_cons, Bool.false_eq_true, ↓reduceIte, List.length_cons,
    List.take_succ_cons, List.take_zero, List.drop_succ_cons, List.drop_zero, List.head!, ne_eq, not_true_eq_false,
    List.append_assoc]
  have hverz : (UInt8.ofNat 0).toNat = 0 := rfl
  have hflagsN : (UInt8.ofNat p.flags).toNat = p.flags := by
    simp only [UInt8.toNat_ofNat']; unfold Page.flags; omega
  have hsegN : (UInt8.ofNat p.lacing.length).toNat = p.lacing.length := by
    simp only [UInt8.toNat_ofNat']; omega
  simp only [hverz, hflagsN, hsegN, ePos, eSer, eSeq]
  have hbody : ¬ ((List.map UInt8.ofNat p.lacing ++ (p.packets.flatten ++ rest)).length < p.lacing.length) := by simp
  have htake : (List.map UInt8.ofNat p.lacing ++ (p.packets.flatten ++ rest)).take p.lacing.length = List.map UInt8.ofNat p.lacing :=
    List.take_left' (by simp)
  have hdrop : (List.map UInt8.ofNat p.lacing ++ (p.packets.flatten ++ rest)).drop p.lacing.length = p.packets.flatten ++ rest :=
    List.drop_left' (by simp)
  simp only [List.length_append, List.length_map] at hbody
  simp (config := { decide := false }) only [List.length_append, List.length_map, List.length_cons, hbody, ↓reduceIte] at *
  have hlt : ¬ (p.lacing.length + (p.packets.flatten.length + rest.length) + 1 + 1 + 1 + 1 + 1 + 1 + 1 + 1 + 1 + 1 + 1 + 1 + 1 + 1 + 1 +
      1 + 1 + 1 + 1 + 1 + 1 + 1 + 1 + 1 + 1 + 1 + 1 < 27) := by omega
  rw [if_neg hlt]
  have hT : ¬ (¬ True) := by simp
  have hml : List.map UInt8.toNat (List.map UInt8.ofNat p.lacing) = p.lacing := map_toNat_ofNat_le _ (lacing_le _ _)
  rw [if_neg hT, htake, hdrop, hml, unlace_lacing p hc]
  simp only [splitLens_flatten]
  have e1 : decide (p.flags % 2 = 1) = p.continued := hd1
  have e2 : decide (p.flags / 2 % 2 = 1) = p.first := hd2
  have e3 : decide (p.flags / 4 % 2 = 1) = p.last := hd3
  have e4 : p.flags / 8 = p.flagsHi := hd4
  rw [e1, e2, e3, e4]
  cases p
  simp_all

end Mutagen.Ogg
