/- Proofs/Signal.lean — lemmas for C20 -/
import MutagenModel.Model.Signal
set_option linter.unusedVariables false
namespace Mutagen.Signal
open Mutagen.Generated

/-! ### what the generated handler / block programs do -/

theorem exec_sig_blocked (s : St) (hn : s.nosig = true) (he : s.exited = false) :
    exec s .sig = { s with interrupted := true } := by
  simp [exec, handlerProg, runInstrs, step1, hn, he]

theorem exec_sig_open (s : St) (hn : s.nosig = false) (he : s.exited = false) :
    exec s .sig = { s with interrupted := true, exited := true } := by
  simp [exec, handlerProg, runInstrs, step1, hn, he]

theorem exec_enter (s : St) (he : s.exited = false) : exec s .enter = { s with nosig := true } := by
  simp [exec, blockPre, blockProg, runInstrs, step1, he]

theorem exec_leave (s : St) (he : s.exited = false) :
    exec s .leave = if s.interrupted then { s with nosig := false, exited := true } else { s with nosig := false } := by
  cases hi : s.interrupted <;> simp [exec, blockPost, blockProg, runInstrs, step1, he, hi]

/-! ### runs -/

theorem run_exited (s : St) (t : List Ev) (h : s.exited = true) : run s t = s := by
  cases t <;> simp [run, h]

theorem run_cons (s : St) (e : Ev) (t : List Ev) (h : s.exited = false) : run s (e :: t) = run (exec s e) t := by
  simp [run, h]

theorem run_append (s : St) (a b : List Ev) : run s (a ++ b) = run (run s a) b := by
  induction a generalizing s with
  | nil => rfl
  | cons e a ih =>
    by_cases h : s.exited = true
    · simp [run, h, run_exited]
    · simp only [Bool.not_eq_true] at h
      simp only [List.cons_append, run_cons _ _ _ h, ih]

/-- signals delivered outside a block: the first one terminates the tool at once -/
theorem run_sigs_open (s : St) (k : Nat) (t : List Ev) (hn : s.nosig = false) (he : s.exited = false) (hk : 0 < k) :
    run s (List.replicate k .sig ++ t) = { s with interrupted := true, exited := true } := by
  cases k with
  | zero => omega
  | succ k =>
    simp only [List.replicate_succ, List.cons_append]
    rw [run_cons _ _ _ he, exec_sig_open s hn he, run_exited _ _ rfl]

/-- signals delivered inside a block are only recorded -/
theorem run_sigs_blocked (s : St) (k : Nat) (hn : s.nosig = true) (he : s.exited = false) :
    run s (List.replicate k .sig) = { s with interrupted := s.interrupted || decide (0 < k) } := by
  induction k generalizing s with
  | zero => simp [run]
  | succ k ih =>
    simp only [List.replicate_succ]
    rw [run_cons _ _ _ he, exec_sig_blocked s hn he, ih { s with interrupted := true } hn he]
    simp

/-! ### interleavings -/

theorem Interleave.nil_inv {t : List Ev} (h : Interleave [] t) : t = List.replicate t.length .sig := by
  generalize hp : ([] : List Ev) = p at h
  induction h with
  | nil => rfl
  | sig _ ih => simp [List.replicate_succ, ← ih hp]
  | step _ _ => cases hp

theorem Interleave.cons_inv {e : Ev} {p t : List Ev} (h : Interleave (e :: p) t) :
    ∃ k t', t = List.replicate k .sig ++ e :: t' ∧ Interleave p t' := by
  generalize hq : e :: p = q at h
  induction h with
  | nil => cases hq
  | sig _ ih =>
    obtain ⟨k, t', ht, hi⟩ := ih hq
    exact ⟨k + 1, t', by simp [List.replicate_succ, ht], hi⟩
  | step h' _ =>
    cases hq
    exact ⟨0, _, rfl, h'⟩

theorem Interleave.append_inv {p q t : List Ev} (h : Interleave (p ++ q) t) :
    ∃ t1 t2, t = t1 ++ t2 ∧ Interleave p t1 ∧ Interleave q t2 := by
  generalize hr : p ++ q = r at h
  induction h generalizing p q with
  | nil =>
    have : p = [] ∧ q = [] := by simpa using hr
    exact ⟨[], [], rfl, this.1 ▸ Interleave.nil, this.2 ▸ Interleave.nil⟩
  | sig _ ih =>
    obtain ⟨t1, t2, ht, h1, h2⟩ := ih hr
    exact ⟨.sig :: t1, t2, by simp [ht], Interleave.sig h1, h2⟩
  | @step e p' t' h' ih =>
    cases p with
    | nil =>
      simp only [List.nil_append] at hr
      subst hr
      exact ⟨[], e :: t', rfl, Interleave.nil, Interleave.step h'⟩
    | cons a p'' =>
      simp only [List.cons_append, List.cons.injEq] at hr
      obtain ⟨rfl, hr⟩ := hr
      obtain ⟨t1, t2, ht, h1, h2⟩ := ih hr
      exact ⟨a :: t1, t2, by simp [ht], Interleave.step h1, h2⟩

theorem mem_sig_replicate (k : Nat) : Ev.sig ∈ List.replicate k Ev.sig ↔ 0 < k := by
  cases k <;> simp [List.replicate_succ]

/-- inside the block the body runs to completion under every schedule -/
theorem body_completes (f : Nat) (ks : List Nat) (tr : List Ev) (h : Interleave (ks.map (.op f)) tr)
    (s : St) (hn : s.nosig = true) (he : s.exited = false) :
    (run s tr) = { s with done := s.done ++ ks.map (fun k => (f, k)),
                          interrupted := s.interrupted || decide (Ev.sig ∈ tr) } := by
  generalize hb : ks.map (Ev.op f) = p at h
  induction h generalizing ks s with
  | nil =>
    cases ks with
    | nil => simp [run]
    | cons a b => simp at hb
  | sig _ ih =>
    rw [run_cons _ _ _ he, exec_sig_blocked s hn he, ih ks { s with interrupted := true } hn he hb]
    simp
  | @step e p t _ ih =>
    cases ks with
    | nil => simp at hb
    | cons k ks =>
      simp only [List.map_cons, List.cons.injEq] at hb
      obtain ⟨rfl, hb⟩ := hb
      rw [run_cons _ _ _ he]
      have : exec s (.op f k) = { s with done := s.done ++ [(f, k)] } := rfl
      rw [this, ih ks { s with done := s.done ++ [(f, k)] } hn he hb]
      simp

end Mutagen.Signal

namespace Mutagen.Signal

/-- not interrupted, not blocking, not exited -/
def Open (s : St) : Prop := s.nosig = false ∧ s.interrupted = false ∧ s.exited = false

theorem mem_sig_rep_append (k : Nat) (rest : List Ev) :
    Ev.sig ∈ List.replicate k Ev.sig ++ rest ↔ 0 < k ∨ Ev.sig ∈ rest := by
  simp only [List.mem_append, mem_sig_replicate]

/-- one file's update under any signal schedule: either no signal arrived and the update
ran to completion leaving the handler state as it was, or a signal arrived and the tool has
exited with the file either untouched or completely updated -/
theorem file_step (f n : Nat) (t : List Ev) (h : Interleave (fileProg f n) t) (s : St) (ho : Open s) :
    (Ev.sig ∉ t ∧ run s t = { s with done := s.done ++ fileOps f n }) ∨
    (Ev.sig ∈ t ∧ (run s t).exited = true ∧
      ((run s t).done = s.done ∨ (run s t).done = s.done ++ fileOps f n)) := by
  obtain ⟨hn, hi, he⟩ := ho
  unfold fileProg at h
  simp only [List.cons_append, List.nil_append] at h
  have hdone : s.done ++ List.map (fun k => (f, k)) (List.range n) = s.done ++ fileOps f n := rfl
  -- leading `outside`
  obtain ⟨k0, t1, rfl, h1⟩ := h.cons_inv
  by_cases hk0 : 0 < k0
  · right
    rw [run_sigs_open s k0 _ hn he hk0]
    exact ⟨(mem_sig_rep_append _ _).mpr (Or.inl hk0), rfl, Or.inl rfl⟩
  have hk0' : k0 = 0 := by omega
  subst hk0'
  -- `enter`
  obtain ⟨k1, t2, rfl, h2⟩ := h1.cons_inv
  have r1 : ∀ rest, run s (List.replicate 0 Ev.sig ++ Ev.outside :: rest) = run s rest := by
    intro rest
    simp only [List.replicate_zero, List.nil_append]
    rw [run_cons _ _ _ he]; rfl
  rw [r1]
  by_cases hk1 : 0 < k1
  · right
    rw [run_sigs_open s k1 _ hn he hk1]
    refine ⟨?_, rfl, Or.inl rfl⟩
    simp only [List.replicate_zero, List.nil_append, List.mem_cons, reduceCtorEq, false_or]
    exact (mem_sig_rep_append _ _).mpr (Or.inl hk1)
  have hk1' : k1 = 0 := by omega
  subst hk1'
  -- body, then `leave`, `outside`
  obtain ⟨tb, tl, rfl, hb, hl⟩ := Interleave.append_inv h2
  obtain ⟨k2, t3, rfl, h3⟩ := hl.cons_inv
  obtain ⟨k3, t4, rfl, h4⟩ := h3.cons_inv
  have ht4 := h4.nil_inv
  generalize hk4 : t4.length = k4 at ht4
  subst ht4
  have r2 : run s (List.replicate 0 Ev.sig ++ Ev.enter ::
        (tb ++ (List.replicate k2 Ev.sig ++ Ev.leave :: (List.replicate k3 Ev.sig ++ Ev.outside :: List.replicate k4 Ev.sig)))) =
      run { s with nosig := true, done := s.done ++ fileOps f n,
                   interrupted := decide (Ev.sig ∈ tb) || decide (0 < k2) }
        (Ev.leave :: (List.replicate k3 Ev.sig ++ Ev.outside :: List.replicate k4 Ev.sig)) := by
    simp only [List.replicate_zero, List.nil_append]
    rw [run_cons _ _ _ he, exec_enter s he, run_append,
      body_completes f (List.range n) tb hb { s with nosig := true } rfl he, run_append,
      run_sigs_blocked { s with nosig := true, done := s.done ++ List.map (fun k => (f, k)) (List.range n),
                                interrupted := s.interrupted || decide (Ev.sig ∈ tb) } k2 rfl he]
    simp only [hi, Bool.false_or, hdone]
  rw [r2]
  have memAll : Ev.sig ∈ List.replicate 0 Ev.sig ++ Ev.outside :: (List.replicate 0 Ev.sig ++ Ev.enter ::
        (tb ++ (List.replicate k2 Ev.sig ++ Ev.leave :: (List.replicate k3 Ev.sig ++ Ev.outside :: List.replicate k4 Ev.sig))))
      ↔ (Ev.sig ∈ tb ∨ 0 < k2 ∨ 0 < k3 ∨ 0 < k4) := by
    simp only [List.replicate_zero, List.nil_append, List.mem_cons, reduceCtorEq, false_or, List.mem_append,
      mem_sig_replicate]
  rw [memAll]
  generalize hσ2 : ({ s with nosig := true, done := s.done ++ fileOps f n, interrupted := (decide (Ev.sig ∈ tb) || decide (0 < k2)) } : St) = σ2
  have he2 : σ2.exited = false := by rw [← hσ2]; exact he
  have hd2 : σ2.done = s.done ++ fileOps f n := by rw [← hσ2]
  have hi2 : σ2.interrupted = (decide (Ev.sig ∈ tb) || decide (0 < k2)) := by rw [← hσ2]
  rw [run_cons σ2 _ _ he2, exec_leave σ2 he2]
  by_cases hint : (decide (Ev.sig ∈ tb) || decide (0 < k2)) = true
  · -- a signal arrived inside the block: the update is complete and the tool exits at `leave`
    right
    rw [if_pos (by rw [hi2]; exact hint)]
    rw [run_exited _ _ rfl]
    refine ⟨?_, rfl, Or.inr hd2⟩
    simp only [Bool.or_eq_true, decide_eq_true_eq] at hint
    rcases hint with h' | h'
    · exact Or.inl h'
    · exact Or.inr (Or.inl h')
  · simp only [Bool.not_eq_true] at hint
    have hnb : Ev.sig ∉ tb := by intro hh; simp [hh] at hint
    have hk2 : ¬ 0 < k2 := by intro hz; simp [hz] at hint
    rw [if_neg (by rw [hi2, hint]; simp)]
    generalize hσ3 : ({ σ2 with nosig := false } : St) = σ3
    have he3 : σ3.exited = false := by rw [← hσ3]; exact he2
    have hn3 : σ3.nosig = false := by rw [← hσ3]
    have hd3 : σ3.done = s.done ++ fileOps f n := by rw [← hσ3]; exact hd2
    have hi3 : σ3.interrupted = false := by rw [← hσ3]; simp [hi2, hint]
    by_cases hk3 : 0 < k3
    · right
      rw [run_sigs_open σ3 k3 _ hn3 he3 hk3]
      exact ⟨Or.inr (Or.inr (Or.inl hk3)), rfl, Or.inr hd3⟩
    · have hk3' : k3 = 0 := by omega
      subst hk3'
      simp only [List.replicate_zero, List.nil_append]
      rw [run_cons σ3 _ _ he3]
      have hex : exec σ3 Ev.outside = σ3 := rfl
      rw [hex]
      by_cases hk4' : 0 < k4
      · right
        have := run_sigs_open σ3 k4 [] hn3 he3 hk4'
        simp only [List.append_nil] at this
        rw [this]
        exact ⟨Or.inr (Or.inr (Or.inr hk4')), rfl, Or.inr hd3⟩
      · have hk4'' : k4 = 0 := by omega
        subst hk4''
        left
        refine ⟨by simp [hnb, hk2], ?_⟩
        simp only [List.replicate_zero, run]
        rw [← hσ3, ← hσ2]
        cases s
        simp_all

end Mutagen.Signal
