/-
Proofs/Id3Order.lean — `ID3Tags._write` sorts the rendered frames by `(priority, len(data), HashKey)`
(Model/TagOrder.lean); composition with the tag-level round trip: frames in ANY insertion order are written, and read
back, in the sorted order.
-/
import MutagenModel.Proofs.Id3Bpi
import MutagenModel.Proofs.TagOrder
set_option linter.unusedVariables false
set_option linter.unusedSimpArgs false
namespace Mutagen.C01F
open Mutagen Mutagen.Id3

/-- a frame of the tag dictionary with what `_write` computes for it: the sort key (priority, the bytes `save_frame`
renders, the HashKey) and what it reads back as (`none`: an empty TextFrame, nothing is written) together with the
length of its body -/
structure Entry where
  fv : Val
  key : TagOrder.Frame
  res : Option (Val × Nat)

def EntryOK (E : Id3.Env) (tbl : Table) (en : Entry) : Prop :=
  saveFrame E.subw tbl E.cfg en.fv = .ok en.key.data ∧
    match en.res with
    | some (o, s) => FrameRTS E tbl en.fv o s
    | none => FrameEmpty tbl en.fv

def entryLe (a b : Entry) : Bool := TagOrder.frameLe a.key b.key

/-- the entries in the order `_write` writes them -/
def sortEntries (l : List Entry) : List Entry := l.mergeSort entryLe

theorem saveFrames_entries (E : Id3.Env) (tbl : Table) (l : List Entry) (h : ∀ en ∈ l, EntryOK E tbl en) :
    saveFrames E.subw tbl E.cfg (l.map (·.fv)) = .ok ((l.map (·.key.data)).flatten) := by
  induction l with
  | nil => rfl
  | cons en r ih =>
    have h1 := (h en List.mem_cons_self).1
    have h2 := ih (fun x hx => h x (List.mem_cons_of_mem _ hx))
    simp only [List.map_cons, saveFrames, h1, h2, List.flatten_cons]

theorem tagRTS_entries (E : Id3.Env) (tbl : Table) (l : List Entry) (h : ∀ en ∈ l, EntryOK E tbl en) :
    TagRTS E tbl (l.map (·.fv)) (l.filterMap fun en => en.res.map (·.1)) (l.filterMap fun en => en.res.map (·.2)) := by
  induction l with
  | nil => exact .nil
  | cons en r ih =>
    have h1 := (h en List.mem_cons_self).2
    have h2 := ih (fun x hx => h x (List.mem_cons_of_mem _ hx))
    cases hres : en.res with
    | none =>
      rw [hres] at h1
      simp only [List.map_cons, List.filterMap_cons, hres, Option.map_none]
      exact .empty h1 h2
    | some os =>
      obtain ⟨o, s⟩ := os
      rw [hres] at h1
      simp only [List.map_cons, List.filterMap_cons, hres, Option.map_some]
      exact .frame h1 h2

/-- what `_write` renders is `id3Body` of the keys: the `save_frame` bytes of the sorted entries -/
theorem id3Body_entries (l : List Entry) :
    TagOrder.id3Body (l.map (·.key)) = (((sortEntries l).map (·.key.data))).flatten := by
  unfold TagOrder.id3Body sortEntries
  rw [← List.map_mergeSort (r := entryLe) (s := TagOrder.frameLe) (f := fun en : Entry => en.key) (fun a _ b _ => rfl)]
  simp only [List.map_map]
  rfl

theorem sortEntries_ok (E : Id3.Env) (tbl : Table) (l : List Entry) (h : ∀ en ∈ l, EntryOK E tbl en) :
    ∀ en ∈ sortEntries l, EntryOK E tbl en := by
  intro en hen
  exact h en (List.mem_mergeSort.mp hen)

/-- `determine_bpi` on the frames written for a `TagRTS` tag -/
theorem bpi_of_safe (E : Id3.Env) (tbl : Table) (hv4 : E.cfg.version = 4) (fs os : List Val) (ss : List Nat)
    (h : TagRTS E tbl fs os ss) (frames : Bytes) (hw : saveFrames E.subw tbl E.cfg fs = .ok frames) (p : Nat)
    (hsafe : intWalkSafe (frames.length + p) 0 ss = true) : determineBpi tbl (frames ++ zeros p) = true := by
  obtain ⟨recs, hw', hok, hs⟩ := tagRTS_recs E tbl hv4 fs os ss h
  rw [hw] at hw'; cases hw'
  exact determineBpi_safe tbl recs p hok (by rw [hs]; exact hsafe)

/-- file level with `determine_bpi` discharged -/
theorem id3_saved_file_safe (E : Id3.Env) (hv : E.cfg.version = 3 ∨ E.cfg.version = 4)
    (hh : E.h = { version := E.cfg.version, unsynch := false })
    (L : Id3F.Layout) (hL : L.OK) (fs os : List Val) (ss : List Nat) (hrt : TagRTS E Id3Table.frames fs os ss)
    (frames : Bytes) (hw : saveFrames E.subw Id3Table.frames E.cfg fs = .ok frames)
    (pad : PadChoice) (v1opt : Nat) (blk : Bytes) (p : Nat)
    (hp : getPadding pad ((L.tag.length : Int) - (frames.length + 10 : Nat)) (L.audio.length + L.v1.length) = p)
    (hfit : frames.length + p < 2 ^ 28)
    (hsafe : E.cfg.version = 4 → intWalkSafe (frames.length + p) 0 ss = true) :
    ∃ hd out, Id3F.header E.cfg.version (frames.length + p) = .ok hd ∧
      Id3F.save L.render E.cfg.version frames pad v1opt blk = .ok out ∧
      out = hd ++ frames ++ zeros p ++ L.audio ++ Id3F.newV1 L.v1 v1opt blk ∧
      Id3F.headerSize out = .ok (some (frames.length + p + 10)) ∧
      out.take 6 = Id3F.magicID3 ++ [UInt8.ofNat E.cfg.version, 0, 0] ∧
      readFramesWith E.sub Id3Table.frames E.h ((out.drop 10).take (frames.length + p)) = .ok (os, zeros p) :=
  id3_saved_file E hv hh L hL fs os hrt.toTagRT frames hw pad v1opt blk p hp hfit
    (fun hv4 => bpi_of_safe E _ hv4 fs os ss hrt frames hw p (hsafe hv4))

/-- file level for a tag dictionary in ANY insertion order: what is written is `id3Body` of the keys (the sorted
rendering), what is read back are the non-empty frames in the sorted order -/
theorem id3_saved_file_sorted (E : Id3.Env) (hv : E.cfg.version = 3 ∨ E.cfg.version = 4)
    (hh : E.h = { version := E.cfg.version, unsynch := false })
    (L : Id3F.Layout) (hL : L.OK) (entries : List Entry) (hok : ∀ en ∈ entries, EntryOK E Id3Table.frames en)
    (pad : PadChoice) (v1opt : Nat) (blk : Bytes) (p : Nat)
    (hp : getPadding pad ((L.tag.length : Int) - ((TagOrder.id3Body (entries.map (·.key))).length + 10 : Nat))
      (L.audio.length + L.v1.length) = p)
    (hfit : (TagOrder.id3Body (entries.map (·.key))).length + p < 2 ^ 28)
    (hsafe : E.cfg.version = 4 → intWalkSafe ((TagOrder.id3Body (entries.map (·.key))).length + p) 0
      ((sortEntries entries).filterMap fun en => en.res.map (·.2)) = true) :
    saveFrames E.subw Id3Table.frames E.cfg ((sortEntries entries).map (·.fv)) = .ok (TagOrder.id3Body (entries.map (·.key))) ∧
    ∃ out, Id3F.save L.render E.cfg.version (TagOrder.id3Body (entries.map (·.key))) pad v1opt blk = .ok out ∧
      Id3F.headerSize out = .ok (some ((TagOrder.id3Body (entries.map (·.key))).length + p + 10)) ∧
      readFramesWith E.sub Id3Table.frames E.h ((out.drop 10).take ((TagOrder.id3Body (entries.map (·.key))).length + p)) =
        .ok ((sortEntries entries).filterMap (fun en => en.res.map (·.1)), zeros p) := by
  have hso := sortEntries_ok E _ entries hok
  have hw := saveFrames_entries E _ (sortEntries entries) hso
  rw [← id3Body_entries] at hw
  refine ⟨hw, ?_⟩
  obtain ⟨hd, out, _, hs, _, hsz, _, hr⟩ := id3_saved_file_safe E hv hh L hL _ _ _ (tagRTS_entries E _ _ hso) _ hw pad v1opt blk p hp hfit hsafe
  exact ⟨out, hs, hsz, hr⟩

end Mutagen.C01F
