/- Proofs/Id3Spec.lean — lemmas for C12: validity predicates and one read/write round-trip
lemma per spec kind of Model/Id3Spec.lean, then the frame-level induction; first the round
trips of the text codecs of Model/Id3Text.lean. -/
import MutagenModel.Model.Id3Spec
import MutagenModel.Proofs.IntCodec
import MutagenModel.Props.C14
import MutagenModel.Proofs.Id3Rva
set_option linter.unusedVariables false
set_option linter.unusedSimpArgs false
namespace Mutagen.Id3
open Mutagen

/-! ## text codecs (Model/Id3Text.lean) -/

theorem toNat_b8 (n : Nat) (h : n < 256) : (b8 n).toNat = n := by
  simp [b8, UInt8.toNat_ofNat', Nat.mod_eq_of_lt h]

theorem b8_toNat (x : UInt8) : b8 x.toNat = x := by
  simp [b8]

theorem b8_ne_zero (n : Nat) (h : n < 256) (h0 : n ≠ 0) : b8 n ≠ 0 := by
  intro e
  have := congrArg UInt8.toNat e
  rw [toNat_b8 n h] at this
  simp at this
  exact h0 this

theorem isScalar_iff (c : Nat) : isScalar c = true ↔ c < 0x110000 ∧ ¬ (0xD800 ≤ c ∧ c < 0xE000) := by
  simp [isScalar]; omega

/-! ### Latin-1 -/

theorem map_toNat_b8 (t : Text) (h : ∀ x ∈ t, x < 256) : (t.map b8).map UInt8.toNat = t := by
  induction t with
  | nil => rfl
  | cons x r ih =>
    simp only [List.map_cons, List.cons.injEq]
    exact ⟨toNat_b8 x (h x (by simp)), ih (fun y hy => h y (by simp [hy]))⟩

theorem latin1Encode_ok (t : Text) (h : ∀ x ∈ t, x < 256) : latin1Encode t = .ok (t.map b8) := by
  have : t.all (fun c => decide (c < 256)) = true := by simpa [List.all_eq_true] using h
  simp [latin1Encode, this]

theorem latin1Decode_map (t : Text) (h : ∀ x ∈ t, x < 256) : latin1Decode (t.map b8) = t := by
  simp [latin1Decode, map_toNat_b8 t h]

/-! ### UTF-8 -/

theorem utf8Decode_enc1 (c : Nat) (hc : isScalar c = true) (rest : Bytes) :
    utf8Decode (utf8Enc1 c ++ rest) = consOk c (utf8Decode rest) := by
  obtain ⟨h1, h2⟩ := (isScalar_iff c).mp hc
  unfold utf8Enc1
  split
  · rename_i h
    rw [List.singleton_append, utf8Decode.eq_def]
    simp [toNat_b8 c (by omega), h]
  · split
    · rename_i h0 h
      have e1 := toNat_b8 (0xC0 + c / 64) (by omega)
      have e2 := toNat_b8 (0x80 + c % 64) (by omega)
      simp only [List.cons_append, List.nil_append, utf8Decode, isCont, e1, e2]
      have : ¬ (0xC0 + c / 64 < 0x80) := by omega
      have : ¬ (0xC0 + c / 64 < 0xC2) := by omega
      have : (0xC0 + c / 64 < 0xE0) := by omega
      have hv : c / 64 * 64 + c % 64 = c := by omega
      have g1 : 0x80 ≤ 0x80 + c % 64 := by omega
      have g2 : 0x80 + c % 64 < 0xC0 := by omega
      simp [*]
    · split
      · rename_i h0 h00 h
        have e1 := toNat_b8 (0xE0 + c / 4096) (by omega)
        have e2 := toNat_b8 (0x80 + c / 64 % 64) (by omega)
        have e3 := toNat_b8 (0x80 + c % 64) (by omega)
        simp only [List.cons_append, List.nil_append, utf8Decode, isCont, e1, e2, e3]
        have : ¬ (0xE0 + c / 4096 < 0x80) := by omega
        have : ¬ (0xE0 + c / 4096 < 0xC2) := by omega
        have : ¬ (0xE0 + c / 4096 < 0xE0) := by omega
        have : (0xE0 + c / 4096 < 0xF0) := by omega
        have hv : c / 4096 * 4096 + c / 64 % 64 * 64 + c % 64 = c := by omega
        have g1 : 0x80 ≤ 0x80 + c / 64 % 64 := by omega
        have g2 : 0x80 + c / 64 % 64 < 0xC0 := by omega
        have g3 : 0x80 ≤ 0x80 + c % 64 := by omega
        have g4 : 0x80 + c % 64 < 0xC0 := by omega
        have g5 : ¬ (c < 0x800 ∨ (0xD800 ≤ c ∧ c < 0xE000)) := by omega
        simp [*]
      · rename_i h0 h00 h
        have e1 := toNat_b8 (0xF0 + c / 262144) (by omega)
        have e2 := toNat_b8 (0x80 + c / 4096 % 64) (by omega)
        have e3 := toNat_b8 (0x80 + c / 64 % 64) (by omega)
        have e4 := toNat_b8 (0x80 + c % 64) (by omega)
        simp only [List.cons_append, List.nil_append, utf8Decode, isCont, e1, e2, e3, e4]
        have : ¬ (0xF0 + c / 262144 < 0x80) := by omega
        have : ¬ (0xF0 + c / 262144 < 0xC2) := by omega
        have : ¬ (0xF0 + c / 262144 < 0xE0) := by omega
        have : ¬ (0xF0 + c / 262144 < 0xF0) := by omega
        have : (0xF0 + c / 262144 < 0xF5) := by omega
        have hv : c / 262144 * 262144 + c / 4096 % 64 * 4096 + c / 64 % 64 * 64 + c % 64 = c := by omega
        have g1 : 0x80 ≤ 0x80 + c / 4096 % 64 := by omega
        have g2 : 0x80 + c / 4096 % 64 < 0xC0 := by omega
        have g3 : 0x80 ≤ 0x80 + c / 64 % 64 := by omega
        have g4 : 0x80 + c / 64 % 64 < 0xC0 := by omega
        have g5 : 0x80 ≤ 0x80 + c % 64 := by omega
        have g6 : 0x80 + c % 64 < 0xC0 := by omega
        have g7 : ¬ (c < 0x10000 ∨ c ≥ 0x110000) := by omega
        have g8 : ¬ (1114112 ≤ c) := by omega
        simp [*]

theorem utf8Decode_encodeRaw (t : Text) (h : ∀ x ∈ t, isScalar x = true) :
    utf8Decode (utf8EncodeRaw t) = .ok t := by
  induction t with
  | nil => simp [utf8EncodeRaw, utf8Decode]
  | cons c r ih =>
    simp only [utf8EncodeRaw]
    rw [utf8Decode_enc1 c (h c (by simp)), ih (fun y hy => h y (by simp [hy]))]
    rfl

theorem utf8Encode_ok (t : Text) (h : ∀ x ∈ t, isScalar x = true) : utf8Encode t = .ok (utf8EncodeRaw t) := by
  have : t.all isScalar = true := by simpa [List.all_eq_true] using h
  simp [utf8Encode, this]

theorem utf8Enc1_ne_zero (c : Nat) (hs : isScalar c = true) (h0 : c ≠ 0) : ∀ x ∈ utf8Enc1 c, x ≠ 0 := by
  obtain ⟨h1, h2⟩ := (isScalar_iff c).mp hs
  intro x hx
  unfold utf8Enc1 at hx
  split at hx
  · simp at hx; subst hx; exact b8_ne_zero c (by omega) h0
  · split at hx
    · simp at hx
      rcases hx with rfl | rfl <;> exact b8_ne_zero _ (by omega) (by omega)
    · split at hx
      · simp at hx
        rcases hx with rfl | rfl | rfl <;> exact b8_ne_zero _ (by omega) (by omega)
      · simp at hx
        rcases hx with rfl | rfl | rfl | rfl <;> exact b8_ne_zero _ (by omega) (by omega)

theorem utf8EncodeRaw_ne_zero (t : Text) (h : ∀ x ∈ t, isScalar x = true ∧ x ≠ 0) :
    ∀ x ∈ utf8EncodeRaw t, x ≠ 0 := by
  induction t with
  | nil => simp [utf8EncodeRaw]
  | cons c r ih =>
    intro x hx
    simp only [utf8EncodeRaw, List.mem_append] at hx
    rcases hx with hx | hx
    · exact utf8Enc1_ne_zero c (h c (by simp)).1 (h c (by simp)).2 x hx
    · exact ih (fun y hy => h y (by simp [hy])) x hx

/-! ### UTF-16 -/

theorem unitOf_unitBytes (be : Bool) (u : Nat) (h : u < 65536) (rest : Bytes) :
    ∃ a b, unitBytes be u ++ rest = a :: b :: rest ∧ unitOf be a b = u := by
  have e1 := toNat_b8 (u / 256) (by omega)
  have e2 := toNat_b8 (u % 256) (by omega)
  cases be
  · refine ⟨b8 (u % 256), b8 (u / 256), by simp [unitBytes], ?_⟩
    simp [unitOf, e1, e2]; omega
  · refine ⟨b8 (u / 256), b8 (u % 256), by simp [unitBytes], ?_⟩
    simp [unitOf, e1, e2]; omega

/-- one scalar value other than U+0000, encoded, is scanned back -/
theorem utf16Scan_units (be : Bool) (c : Nat) (hs : isScalar c = true) (h0 : c ≠ 0) (rest : Bytes) :
    utf16Scan be (unitsBytes be (utf16Units c) ++ rest) = consScan c (utf16Scan be rest) := by
  obtain ⟨h1, h2⟩ := (isScalar_iff c).mp hs
  unfold utf16Units
  split
  · rename_i hlt
    obtain ⟨a, b, hab, hu⟩ := unitOf_unitBytes be c (by omega) rest
    simp only [unitsBytes, List.append_nil]
    rw [hab]
    have nh : isHigh c = false := by simp [isHigh]; omega
    have nl : isLow c = false := by simp [isLow]; omega
    rw [utf16Scan.eq_def]
    simp [hu, h0, nh, nl]
  · rename_i hge
    have hhi : 0xD800 + (c - 0x10000) / 0x400 < 65536 := by omega
    have hlo : 0xDC00 + (c - 0x10000) % 0x400 < 65536 := by omega
    obtain ⟨c', d', hcd, hu2⟩ := unitOf_unitBytes be (0xDC00 + (c - 0x10000) % 0x400) hlo rest
    obtain ⟨a, b, hab, hu⟩ := unitOf_unitBytes be (0xD800 + (c - 0x10000) / 0x400) hhi (c' :: d' :: rest)
    simp only [unitsBytes, List.append_nil, List.append_assoc]
    rw [hcd, hab]
    have n0 : ¬ (0xD800 + (c - 0x10000) / 0x400 = 0) := by omega
    have ih : isHigh (0xD800 + (c - 0x10000) / 0x400) = true := by simp [isHigh]; omega
    have il : isLow (0xDC00 + (c - 0x10000) % 0x400) = true := by simp [isLow]; omega
    have hv : 65536 + (c - 65536) / 1024 * 1024 + (c - 65536) % 1024 = c := by omega
    rw [utf16Scan.eq_def]
    simp [hu, hu2, ih, il, hv]

/-- NUL-free text, encoded and followed by the two-byte terminator, is scanned back with the
rest left over -/
theorem utf16Scan_encodeRaw_term (be : Bool) (t : Text) (h : ∀ x ∈ t, isScalar x = true ∧ x ≠ 0)
    (rest : Bytes) :
    utf16Scan be (utf16EncodeRaw be t ++ 0 :: 0 :: rest) = .ok (t, some rest) := by
  induction t with
  | nil =>
    simp only [utf16EncodeRaw, List.nil_append]
    rw [utf16Scan.eq_def]
    cases be <;> simp [unitOf]
  | cons c r ih =>
    simp only [utf16EncodeRaw, List.append_assoc]
    rw [utf16Scan_units be c (h c (by simp)).1 (h c (by simp)).2, ih (fun y hy => h y (by simp [hy]))]
    rfl

/-- … and without a terminator the whole text comes back (`strict=False` path) -/
theorem utf16Scan_encodeRaw (be : Bool) (t : Text) (h : ∀ x ∈ t, isScalar x = true ∧ x ≠ 0) :
    utf16Scan be (utf16EncodeRaw be t) = .ok (t, none) := by
  induction t with
  | nil => simp [utf16EncodeRaw, utf16Scan]
  | cons c r ih =>
    simp only [utf16EncodeRaw]
    have := utf16Scan_units be c (h c (by simp)).1 (h c (by simp)).2 (utf16EncodeRaw be r)
    rw [this, ih (fun y hy => h y (by simp [hy]))]
    rfl

theorem utf16Encode_ok (be : Bool) (t : Text) (h : ∀ x ∈ t, isScalar x = true) :
    utf16Encode be t = .ok (utf16EncodeRaw be t) := by
  have : t.all isScalar = true := by simpa [List.all_eq_true] using h
  simp [utf16Encode, this]

/-! ### splitNul -/

theorem splitNul_append (t rest : Bytes) (h : ∀ x ∈ t, x ≠ 0) : splitNul (t ++ 0 :: rest) = (t, some rest) := by
  induction t with
  | nil => simp [splitNul]
  | cons x r ih =>
    have hx : x ≠ 0 := h x (by simp)
    have hr := ih (fun y hy => h y (by simp [hy]))
    simp [splitNul, hx, hr]

theorem splitNul_none (t : Bytes) (h : ∀ x ∈ t, x ≠ 0) : splitNul t = (t, none) := by
  induction t with
  | nil => simp [splitNul]
  | cons x r ih =>
    have hx : x ≠ 0 := h x (by simp)
    have hr := ih (fun y hy => h y (by simp [hy]))
    simp [splitNul, hx, hr]

theorem map_b8_ne_zero (t : Text) (h : ∀ x ∈ t, x < 256 ∧ x ≠ 0) : ∀ y ∈ t.map b8, y ≠ 0 := by
  intro y hy
  obtain ⟨x, hx, rfl⟩ := List.mem_map.mp hy
  exact b8_ne_zero x (h x hx).1 (h x hx).2

/-! ## integers -/

theorem bchr_ok (n : Nat) (h : n < 256) : bchr (n : Int) = .ok [b8 n] := by
  have h1 : (0 : Int) ≤ (n : Int) := by omega
  have h2 : (n : Int) < 256 := by omega
  simp [bchr, h1, h2]

theorem pow256 (n : Nat) : 2 ^ (8 * n) = 256 ^ n := by
  rw [Nat.pow_mul]

theorem ofBE_eq_bpFromBytes (b : Bytes) : bpFromBytes 8 true b = ofBE b := by
  simp only [bpFromBytes, ofBE, ↓reduceIte]
  generalize b.reverse = l
  induction l with
  | nil => simp [fromLE, ofLE]
  | cons x r ih =>
    simp only [List.map_cons, fromLE, ofLE, ih]
    have := x.toNat_lt
    omega

/-- `packU w` / `ofBE` -/
theorem packU_ok (w n : Nat) (h : n < 256 ^ w) : packU w (n : Int) = .ok (toBE w n) := by
  have h1 : (0 : Int) ≤ (n : Int) := by omega
  have h2 : (n : Int) < ((256 ^ w : Nat) : Int) := by exact_mod_cast h
  unfold packU
  rw [if_pos ⟨h1, h2⟩]
  simp

theorem pow256_pos (w : Nat) : 0 < 256 ^ w := Nat.pow_pos (by decide)

theorem pow256_even (w : Nat) (hw : 0 < w) : 256 ^ w / 2 * 2 = 256 ^ w := by
  cases w with
  | zero => omega
  | succ k =>
    rw [Nat.pow_succ]
    omega

/-- `struct.pack(">b/h")` followed by unpack gives the value back -/
theorem ofSignedBE_toSignedBE (w : Nat) (hw : 0 < w) (i : Int)
    (h1 : -((256 ^ w / 2 : Nat) : Int) ≤ i) (h2 : i < ((256 ^ w / 2 : Nat) : Int)) :
    ofSignedBE (toSignedBE w i) = i := by
  have hp := pow256_pos w
  have he := pow256_even w hw
  unfold toSignedBE ofSignedBE
  by_cases hneg : i < 0
  · have hlt : 256 ^ w - (-i).toNat < 256 ^ w := by omega
    simp only [hneg, ↓reduceIte, length_toBE, ofBE_toBE w _ hlt]
    have : 2 * (256 ^ w - (-i).toNat) ≥ 256 ^ w := by omega
    simp only [this, ↓reduceIte]
    omega
  · have hlt : i.toNat < 256 ^ w := by omega
    simp only [hneg, ↓reduceIte, length_toBE, ofBE_toBE w _ hlt]
    have : ¬ (2 * i.toNat ≥ 256 ^ w) := by omega
    simp only [this, ↓reduceIte]
    omega

theorem packS_ok (w : Nat) (i : Int)
    (h1 : -((256 ^ w / 2 : Nat) : Int) ≤ i) (h2 : i < ((256 ^ w / 2 : Nat) : Int)) :
    packS w i = .ok (toSignedBE w i) := by
  unfold packS
  rw [if_pos ⟨h1, h2⟩]

@[simp] theorem length_toSignedBE (w : Nat) (i : Int) : (toSignedBE w i).length = w := by
  simp [toSignedBE]

/-! ## validity of text -/

/-- text that survives encoding `enc`: no U+0000 (it is the terminator); Latin-1: code
points ≤ 0xFF; UTF-8 / UTF-16: Unicode scalar values -/
def TextOK (enc : Nat) (t : Text) : Prop :=
  ∀ x ∈ t, x ≠ 0 ∧ (if enc = 0 then x < 256 else isScalar x = true)

theorem TextOK.tail {enc : Nat} {x : Nat} {r : Text} (h : TextOK enc (x :: r)) : TextOK enc r :=
  fun y hy => h y (by simp [hy])

theorem allZero_false_of_mem (b : Bytes) (y : UInt8) (hy : y ∈ b) (h0 : y ≠ 0) : allZero b = false := by
  simp only [allZero, List.all_eq_false]
  exact ⟨y, hy, by simpa using h0⟩

theorem allZero_append_left (a b : Bytes) (h : allZero a = false) : allZero (a ++ b) = false := by
  simp only [allZero, List.all_eq_false] at *
  obtain ⟨y, hy, h0⟩ := h
  exact ⟨y, by simp [hy], h0⟩

/-- what `encode_endian` produces for valid text, and that `decode_terminated` undoes it -/
theorem decodeTerminated_encode (enc : Nat) (henc : enc ≤ 3) (t : Text) (ht : TextOK enc t)
    (strict : Bool) (rest : Bytes) :
    ∃ b tm, encodeText enc t = .ok b ∧ termOf enc = .ok tm ∧
      decodeTerminated enc strict (b ++ tm ++ rest) = .ok (t, rest) ∧ tm ≠ [] := by
  have h4 : enc = 0 ∨ enc = 1 ∨ enc = 2 ∨ enc = 3 := by omega
  rcases h4 with rfl | rfl | rfl | rfl
  · -- Latin-1
    have hl : ∀ x ∈ t, x < 256 := fun x hx => by simpa using (ht x hx).2
    have hz : ∀ y ∈ t.map b8, y ≠ 0 := map_b8_ne_zero t (fun x hx => ⟨hl x hx, (ht x hx).1⟩)
    refine ⟨t.map b8, [0], by simp [encodeText, latin1Encode_ok t hl], rfl, ?_, by simp⟩
    have := splitNul_append (t.map b8) rest hz
    simp [decodeTerminated, this, finishTerminated, latin1Decode_map t hl]
  · -- UTF-16 with BOM
    have hs : ∀ x ∈ t, isScalar x = true ∧ x ≠ 0 := fun x hx => ⟨by simpa using (ht x hx).2, (ht x hx).1⟩
    refine ⟨0xFF :: 0xFE :: utf16EncodeRaw false t, [0, 0],
      by simp [encodeText, utf16Encode_ok false t (fun x hx => (hs x hx).1)], rfl, ?_, by simp⟩
    have := utf16Scan_encodeRaw_term false t hs rest
    simp [decodeTerminated, this, finishTerminated]
  · -- UTF-16BE
    have hs : ∀ x ∈ t, isScalar x = true ∧ x ≠ 0 := fun x hx => ⟨by simpa using (ht x hx).2, (ht x hx).1⟩
    refine ⟨utf16EncodeRaw true t, [0, 0],
      by simp [encodeText, utf16Encode_ok true t (fun x hx => (hs x hx).1)], rfl, ?_, by simp⟩
    have := utf16Scan_encodeRaw_term true t hs rest
    simp [decodeTerminated, this, finishTerminated]
  · -- UTF-8
    have hs : ∀ x ∈ t, isScalar x = true ∧ x ≠ 0 := fun x hx => ⟨by simpa using (ht x hx).2, (ht x hx).1⟩
    have hz := utf8EncodeRaw_ne_zero t hs
    refine ⟨utf8EncodeRaw t, [0], by simp [encodeText, utf8Encode_ok t (fun x hx => (hs x hx).1)], rfl, ?_, by simp⟩
    have := splitNul_append (utf8EncodeRaw t) rest hz
    simp [decodeTerminated, this, finishTerminated, utf8Decode_encodeRaw t (fun x hx => (hs x hx).1)]

theorem textFixups_head (enc : Nat) (data : Bytes) : ∃ tl, textFixups enc data = data :: tl := by
  unfold textFixups
  split
  · exact ⟨_, rfl⟩
  · split <;> exact ⟨_, rfl⟩

theorem encNat_le (e : Int) (enc : Nat) (h : encNat e = .ok enc) : enc ≤ 3 := by
  unfold encNat at h
  split at h
  · cases h; omega
  · split at h
    · cases h; omega
    · split at h
      · cases h; omega
      · split at h
        · cases h; omega
        · cases h

theorem ctxEnc_le (c : Ctx) (enc : Nat) (h : ctxEnc c = .ok enc) : enc ≤ 3 := by
  unfold ctxEnc at h
  split at h
  · cases h
  · exact encNat_le _ _ h

/-- the tail condition of `EncodedTextSpec.read` under a v2.2/v2.3 header: what follows the
text must be empty or contain a non-NUL byte, otherwise it is dropped -/
def TailOK (h : Hdr) (rest : Bytes) : Prop := h.version < 4 → rest = [] ∨ allZero rest = false

theorem tailFix (h : Hdr) (rest : Bytes) (ht : TailOK h rest) :
    (if decide (h.version < 4) && allZero rest then ([] : Bytes) else rest) = rest := by
  by_cases hv : h.version < 4
  · rcases ht hv with rfl | hz
    · simp
    · simp [hz]
  · simp [hv]

/-- EncodedTextSpec: valid text written under encoding `enc` (any of the four) and followed
by `rest` is read back, and `rest` is left -/
theorem readEncText_write (h : Hdr) (c : Ctx) (enc : Nat) (hc : ctxEnc c = .ok enc) (t : Text)
    (ht : TextOK enc t) (rest : Bytes) :
    ∃ b, writeEncText c t = .ok b ∧ readEncText h c (b ++ rest) = .ok (t, rest) ∧ b ≠ [] := by
  obtain ⟨b, tm, hb, htm, hdec, hne⟩ := decodeTerminated_encode enc (ctxEnc_le c enc hc) t ht false rest
  refine ⟨b ++ tm, by simp [writeEncText, hc, hb, htm], ?_, by simp [hne]⟩
  obtain ⟨tl, htl⟩ := textFixups_head enc (b ++ tm ++ rest)
  simp only [readEncText, hc, htl, tryDecode, hdec]

/-- the bytes written for a non-empty valid text are not all NUL, whatever follows -/
theorem writeEncText_not_allZero (c : Ctx) (enc : Nat) (hc : ctxEnc c = .ok enc) (t : Text)
    (ht : TextOK enc t) (hne : t ≠ []) (b : Bytes) (hb : writeEncText c t = .ok b) (rest : Bytes) :
    allZero (b ++ rest) = false := by
  apply allZero_append_left
  have h4 : enc = 0 ∨ enc = 1 ∨ enc = 2 ∨ enc = 3 := by have := ctxEnc_le c enc hc; omega
  cases t with
  | nil => exact absurd rfl hne
  | cons x r =>
    have hx := ht x (by simp)
    rcases h4 with rfl | rfl | rfl | rfl
    · have hl : ∀ y ∈ x :: r, y < 256 := fun y hy => by simpa using (ht y hy).2
      simp [writeEncText, hc, encodeText, latin1Encode_ok _ hl, termOf] at hb
      subst hb
      exact allZero_false_of_mem _ (b8 x) (by simp) (b8_ne_zero x (hl x (by simp)) hx.1)
    · have hs : ∀ y ∈ x :: r, isScalar y = true := fun y hy => by simpa using (ht y hy).2
      simp [writeEncText, hc, encodeText, utf16Encode_ok false _ hs, termOf] at hb
      subst hb
      exact allZero_false_of_mem _ 0xFF (by simp) (by decide)
    · have hs : ∀ y ∈ x :: r, isScalar y = true := fun y hy => by simpa using (ht y hy).2
      simp [writeEncText, hc, encodeText, utf16Encode_ok true _ hs, termOf] at hb
      subst hb
      obtain ⟨s1, s2⟩ := (isScalar_iff x).mp (hs x (by simp))
      -- the first code unit of `x` is non-zero, so one of its two bytes is
      by_cases hlt : x < 0x10000
      · by_cases hhi : x / 256 = 0
        · refine allZero_false_of_mem _ (b8 (x % 256)) ?_ (b8_ne_zero _ (by omega) (by omega))
          simp [utf16EncodeRaw, utf16Units, hlt, unitsBytes, unitBytes]
        · refine allZero_false_of_mem _ (b8 (x / 256)) ?_ (b8_ne_zero _ (by omega) hhi)
          simp [utf16EncodeRaw, utf16Units, hlt, unitsBytes, unitBytes]
      · refine allZero_false_of_mem _ (b8 ((0xD800 + (x - 0x10000) / 0x400) / 256)) ?_
          (b8_ne_zero _ (by omega) (by omega))
        simp [utf16EncodeRaw, utf16Units, hlt, unitsBytes, unitBytes]
    · have hs : ∀ y ∈ x :: r, isScalar y = true := fun y hy => by simpa using (ht y hy).2
      simp [writeEncText, hc, encodeText, utf8Encode_ok _ hs, termOf] at hb
      subst hb
      have hz := utf8Enc1_ne_zero x (hs x (by simp)) hx.1
      have hmem : ∃ y, y ∈ utf8Enc1 x := by
        unfold utf8Enc1
        split
        · exact ⟨_, List.mem_cons_self⟩
        · split
          · exact ⟨_, List.mem_cons_self⟩
          · split <;> exact ⟨_, List.mem_cons_self⟩
      obtain ⟨y, hy⟩ := hmem
      exact allZero_false_of_mem _ y (by simp [utf8EncodeRaw, hy]) (hz y hy)

/-! ## the EncodedTextSpec family -/

/-- valid value of a member of the EncodedTextSpec family: valid text; a time stamp must be
a fixed point of mutagen's own parse/format normalisation (`ID3TimeStamp(text).text`) -/
def TextKindOK (enc : Nat) (tk : TextKind) (t : Text) : Prop :=
  TextOK enc t ∧ (tk = .timeStamp → tsNormalize (tsWire t) = .ok t)

theorem tsWire_ok (enc : Nat) (t : Text) (h : TextOK enc t) : TextOK enc (tsWire t) := by
  intro y hy
  simp only [tsWire, List.mem_map] at hy
  obtain ⟨x, hx, rfl⟩ := hy
  have := h x hx
  by_cases h32 : x = 32
  · subst h32
    by_cases he : enc = 0 <;> simp [he, isScalar]
  · simpa [h32] using this

theorem tsWire_ne_nil (t : Text) (h : t ≠ []) : tsWire t ≠ [] := by
  cases t with
  | nil => exact absurd rfl h
  | cons x r => simp [tsWire]

theorem readTextKind_write (h : Hdr) (c : Ctx) (enc : Nat) (hc : ctxEnc c = .ok enc) (tk : TextKind)
    (t : Text) (ht : TextKindOK enc tk t) (rest : Bytes) :
    ∃ b, writeTextKind c tk (.text t) = .ok b ∧ readTextKind h c tk (b ++ rest) = .ok (.text t, rest) ∧
      b ≠ [] ∧ (t ≠ [] → ∀ r, allZero (b ++ r) = false) := by
  by_cases hts : tk = .timeStamp
  · subst hts
    have hw := tsWire_ok enc t ht.1
    obtain ⟨b, hb, hr, hne⟩ := readEncText_write h c enc hc (tsWire t) hw rest
    refine ⟨b, by simp [writeTextKind, hb], by simp [readTextKind, hr, ht.2 rfl], hne, ?_⟩
    intro hn r
    exact writeEncText_not_allZero c enc hc (tsWire t) hw (tsWire_ne_nil t hn) b hb r
  · obtain ⟨b, hb, hr, hne⟩ := readEncText_write h c enc hc t ht.1 rest
    refine ⟨b, ?_, ?_, hne, fun hn r => writeEncText_not_allZero c enc hc t ht.1 hn b hb r⟩
    · cases tk <;> simp_all [writeTextKind]
    · cases tk <;> simp_all [readTextKind]

/-! ## MultiSpec -/

/-- one record of a MultiSpec: one valid text per member spec; under a v2.2/v2.3 header the
texts must be non-empty (an empty one is indistinguishable from padding and is dropped) -/
def RecordOK (h : Hdr) (enc : Nat) : List TextKind → List Val → Prop
  | [], [] => True
  | k :: ks, .text t :: vs => TextKindOK enc k t ∧ (h.version < 4 → t ≠ []) ∧ RecordOK h enc ks vs
  | _, _ => False

theorem readRecord_write (h : Hdr) (c : Ctx) (enc : Nat) (hc : ctxEnc c = .ok enc) (elems : List TextKind)
    (record : List Val) (hrec : RecordOK h enc elems record) (rest : Bytes) :
    ∃ b, writeRecord c elems record = .ok b ∧ readRecord h c elems (b ++ rest) = .ok (record, rest) ∧
      (elems ≠ [] → b ≠ []) ∧ (h.version < 4 → elems ≠ [] → ∀ r, allZero (b ++ r) = false) := by
  induction elems generalizing record with
  | nil =>
    cases record with
    | nil => exact ⟨[], by simp [writeRecord], by simp [readRecord], by simp, by simp⟩
    | cons v vs => simp [RecordOK] at hrec
  | cons k ks ih =>
    cases record with
    | nil => simp [RecordOK] at hrec
    | cons v vs =>
      cases v with
      | text t =>
        obtain ⟨hk, hne23, hrest⟩ := hrec
        obtain ⟨bs, hbs, hrs, hnes, hz⟩ := ih vs hrest
        obtain ⟨b, hb, hr, hne, hnz⟩ := readTextKind_write h c enc hc k t hk (bs ++ rest)
        refine ⟨b ++ bs, by simp [writeRecord, hb, hbs], ?_, by simp [hne], ?_⟩
        · simp only [readRecord, List.append_assoc, hr, hrs]
        · intro hv _ r
          rw [List.append_assoc]
          exact hnz (hne23 hv) (bs ++ r)
      | _ => simp [RecordOK] at hrec

/-- writing `recordVal elems record` the way `MultiSpec.write` does is `writeRecord` -/
theorem writeMulti_one (h : Hdr) (c : Ctx) (enc : Nat) (elems : List TextKind) (hne : elems ≠ [])
    (record : List Val) (hrec : RecordOK h enc elems record) (vs : List Val) (a b : Bytes)
    (ha : writeRecord c elems record = .ok a) (hb : writeMulti c elems vs = .ok b) :
    writeMulti c elems (recordVal elems record :: vs) = .ok (a ++ b) := by
  cases elems with
  | nil => exact absurd rfl hne
  | cons k ks =>
    cases ks with
    | nil =>
      cases record with
      | nil => simp [RecordOK] at hrec
      | cons v r =>
        cases r with
        | nil =>
          cases v with
          | text t =>
            simp only [writeRecord] at ha
            cases hw : writeTextKind c k (.text t) with
            | error e => simp [hw] at ha
            | ok w =>
              simp [hw] at ha
              subst ha
              simp [recordVal, writeMulti, hw, hb]
          | _ => simp [RecordOK] at hrec
        | cons _ _ =>
          cases v <;> simp [RecordOK] at hrec
    | cons k' ks' =>
      cases record with
      | nil => simp [RecordOK] at hrec
      | cons v r =>
        cases r with
        | nil => cases v <;> simp [RecordOK] at hrec
        | cons v' r' => simp [recordVal, writeMulti, ha, hb]

/-- MultiSpec (any non-empty list of member text specs): valid records are read back; the
spec consumes everything, so nothing may follow -/
theorem readMulti_write (h : Hdr) (c : Ctx) (enc : Nat) (hc : ctxEnc c = .ok enc) (elems : List TextKind)
    (hne : elems ≠ []) (recs : List (List Val)) (hrecs : ∀ r ∈ recs, RecordOK h enc elems r) :
    ∃ b, writeMulti c elems (recs.map (recordVal elems)) = .ok b ∧
      readMulti h c elems b = .ok (recs.map (recordVal elems)) ∧ (recs ≠ [] → b ≠ []) ∧
      (h.version < 4 → recs ≠ [] → ∀ r, allZero (b ++ r) = false) := by
  induction recs with
  | nil =>
    refine ⟨[], by simp [writeMulti], ?_, by simp, by simp⟩
    rw [readMulti]; simp
  | cons rec rs ih =>
    obtain ⟨bs, hbs, hrs, hnes, hz⟩ := ih (fun r hr => hrecs r (by simp [hr]))
    have htail : TailOK h bs := by
      intro hv
      cases rs with
      | nil => simp [writeMulti] at hbs; subst hbs; exact Or.inl rfl
      | cons _ _ => exact Or.inr (by simpa using hz hv (by simp) [])
    obtain ⟨b, hb, hr, hneb, hzb⟩ := readRecord_write h c enc hc elems rec (hrecs rec (by simp)) bs
    refine ⟨b ++ bs, ?_, ?_, by simp [hneb hne], ?_⟩
    · simp only [List.map_cons]
      exact writeMulti_one h c enc elems hne rec (hrecs rec (by simp)) _ b bs hb hbs
    · rw [readMulti]
      have h1 : ¬ (b ++ bs = []) := by simp [hneb hne]
      have h2 : bs.length < (b ++ bs).length := by
        have : b.length ≠ 0 := by simpa using hneb hne
        simp; omega
      have hst : stripZeroTail h bs = bs := tailFix h bs htail
      simp only [h1, ↓reduceIte, hr, hst, h2, ↓reduceDIte, hrs, List.map_cons]
    · intro hv _ r
      rw [List.append_assoc]
      exact hzb hv hne (bs ++ r)

/-! ## Latin1TextSpec / Latin1TextListSpec -/

def Latin1OK (t : Text) : Prop := ∀ x ∈ t, x < 256 ∧ x ≠ 0

theorem readLatin1_write (t : Text) (ht : Latin1OK t) (rest : Bytes) :
    ∃ b, writeLatin1 (.text t) = .ok b ∧ readLatin1 (b ++ rest) = (t, rest) ∧ b ≠ [] := by
  have hl : ∀ x ∈ t, x < 256 := fun x hx => (ht x hx).1
  refine ⟨t.map b8 ++ [0], by simp [writeLatin1, latin1Encode_ok t hl], ?_, by simp⟩
  have := splitNul_append (t.map b8) rest (map_b8_ne_zero t ht)
  simp [readLatin1, this, latin1Decode_map t hl]

theorem readLatin1N_write (ts : List Text) (hts : ∀ t ∈ ts, Latin1OK t) (rest : Bytes) :
    ∃ b, writeLatin1s (ts.map Val.text) = .ok b ∧
      readLatin1N ts.length (b ++ rest) = (ts.map Val.text, rest) := by
  induction ts with
  | nil => exact ⟨[], by simp [writeLatin1s], by simp [readLatin1N]⟩
  | cons t r ih =>
    obtain ⟨bs, hbs, hrs⟩ := ih (fun x hx => hts x (by simp [hx]))
    obtain ⟨b, hb, hr, _⟩ := readLatin1_write t (hts t (by simp)) (bs ++ rest)
    refine ⟨b ++ bs, by simp [writeLatin1s, hb, hbs], ?_⟩
    simp only [List.length_cons, readLatin1N, List.append_assoc, hr, hrs, List.map_cons]

/-! ## SynchronizedTextSpec -/

/-- `(text, time)` entries: valid text, time a 32-bit unsigned integer -/
def SyncOK (enc : Nat) (es : List (Text × Nat)) : Prop := ∀ e ∈ es, TextOK enc e.1 ∧ e.2 < 256 ^ 4

def syncVal (e : Text × Nat) : Val := .list [.text e.1, .int (e.2 : Int)]

theorem take_app {α} (a b : List α) (n : Nat) (h : a.length = n) : (a ++ b).take n = a := by
  subst h; simp

theorem drop_app {α} (a b : List α) (n : Nat) (h : a.length = n) : (a ++ b).drop n = b := by
  subst h; simp

theorem writeSyncText_cons (c : Ctx) (t : Text) (n : Nat) (vs : List Val) (a bs : Bytes) (hn : n < 256 ^ 4)
    (ha : writeEncText c t = .ok a) (hbs : writeSyncText c vs = .ok bs) :
    writeSyncText c (.list [.text t, .int (n : Int)] :: vs) = .ok (a ++ toBE 4 n ++ bs) := by
  have hp := packU_ok 4 n hn
  rw [writeSyncText]
  simp only [textIntPair]
  rw [ha, hp, hbs]

theorem readSyncText_write (c : Ctx) (enc : Nat) (hc : ctxEnc c = .ok enc) (es : List (Text × Nat))
    (hes : SyncOK enc es) :
    ∃ b, writeSyncText c (es.map syncVal) = .ok b ∧ readSyncText enc b = .ok (es.map syncVal) ∧
      (es ≠ [] → b ≠ []) := by
  induction es with
  | nil =>
    refine ⟨[], by simp [writeSyncText], ?_, by simp⟩
    rw [readSyncText]; simp
  | cons e r ih =>
    obtain ⟨bs, hbs, hrs, _⟩ := ih (fun x hx => hes x (by simp [hx]))
    obtain ⟨ht, htime⟩ := hes e (by simp)
    obtain ⟨b, tm, hb, htm, hdec, hne⟩ :=
      decodeTerminated_encode enc (ctxEnc_le c enc hc) e.1 ht true (toBE 4 e.2 ++ bs)
    refine ⟨b ++ tm ++ toBE 4 e.2 ++ bs, ?_, ?_, by simp [hne]⟩
    · simp only [List.map_cons]
      rw [show syncVal e = .list [.text e.1, .int (e.2 : Int)] from rfl]
      exact writeSyncText_cons c e.1 e.2 _ (b ++ tm) bs htime (by simp [writeEncText, hc, hb, htm]) hbs
    · rw [readSyncText]
      have h1 : ¬ (b ++ tm ++ toBE 4 e.2 ++ bs = []) := by simp [hne]
      have hdec' : decodeTerminated enc true (b ++ tm ++ toBE 4 e.2 ++ bs) = .ok (e.1, toBE 4 e.2 ++ bs) := by
        simpa [List.append_assoc] using hdec
      have h2 : ¬ ((toBE 4 e.2 ++ bs).length < 4) := by simp
      have h3 : (toBE 4 e.2 ++ bs).drop 4 = bs := drop_app _ _ 4 (by simp)
      have h4 : (toBE 4 e.2 ++ bs).take 4 = toBE 4 e.2 := take_app _ _ 4 (by simp)
      have h5 : bs.length < (b ++ tm ++ toBE 4 e.2 ++ bs).length := by simp; omega
      simp only [h1, ↓reduceIte, hdec', h2, h3, h4, h5, ↓reduceDIte, hrs, ofBE_toBE 4 e.2 htime,
        List.map_cons, syncVal]

/-! ## KeyEventSpec -/

def KeyOK (es : List (Int × Nat)) : Prop := ∀ e ∈ es, -128 ≤ e.1 ∧ e.1 < 128 ∧ e.2 < 256 ^ 4

def keyVal (e : Int × Nat) : Val := .list [.int e.1, .int (e.2 : Int)]

theorem toBE4_cases (n : Nat) : ∃ a b c d, toBE 4 n = [a, b, c, d] := by
  have h : (toBE 4 n).length = 4 := length_toBE 4 n
  match hm : toBE 4 n, h with
  | [a, b, c, d], _ => exact ⟨a, b, c, d, rfl⟩

theorem toSignedBE1_cases (i : Int) : ∃ a, toSignedBE 1 i = [a] := by
  have h : (toSignedBE 1 i).length = 1 := length_toSignedBE 1 i
  match hm : toSignedBE 1 i, h with
  | [a], _ => exact ⟨a, rfl⟩

theorem toSignedBE2_cases (i : Int) : ∃ a b, toSignedBE 2 i = [a, b] := by
  have h : (toSignedBE 2 i).length = 2 := length_toSignedBE 2 i
  match hm : toSignedBE 2 i, h with
  | [a, b], _ => exact ⟨a, b, rfl⟩

theorem toBE2_cases (n : Nat) : ∃ a b, toBE 2 n = [a, b] := by
  have h : (toBE 2 n).length = 2 := length_toBE 2 n
  match hm : toBE 2 n, h with
  | [a, b], _ => exact ⟨a, b, rfl⟩

theorem writeKeyEvents_cons (ty : Int) (n : Nat) (vs : List Val) (bs : Bytes) (hn : n < 256 ^ 4)
    (h1 : -128 ≤ ty) (h2 : ty < 128) (hbs : writeKeyEvents vs = .ok bs) :
    writeKeyEvents (.list [.int ty, .int (n : Int)] :: vs) = .ok (toSignedBE 1 ty ++ toBE 4 n ++ bs) := by
  have p1 := packS_ok 1 ty (by simpa using h1) (by simpa using h2)
  have p2 := packU_ok 4 n hn
  rw [writeKeyEvents]
  simp only [intIntPair]
  rw [p1, p2, hbs]

theorem readKeyEvents_write (es : List (Int × Nat)) (hes : KeyOK es) :
    ∃ b, writeKeyEvents (es.map keyVal) = .ok b ∧ readKeyEvents b = (es.map keyVal, []) ∧
      (es ≠ [] → b ≠ []) := by
  induction es with
  | nil => exact ⟨[], by simp [writeKeyEvents], by simp [readKeyEvents], by simp⟩
  | cons e r ih =>
    obtain ⟨bs, hbs, hrs, _⟩ := ih (fun x hx => hes x (by simp [hx]))
    obtain ⟨h1, h2, h3⟩ := hes e (by simp)
    obtain ⟨a, ha⟩ := toSignedBE1_cases e.1
    obtain ⟨b, c, d, f, hb⟩ := toBE4_cases e.2
    have hs : ofSignedBE [a] = e.1 := by
      rw [← ha]; exact ofSignedBE_toSignedBE 1 (by decide) e.1 (by simpa using h1) (by simpa using h2)
    have hu : ofBE [b, c, d, f] = e.2 := by rw [← hb]; exact ofBE_toBE 4 e.2 h3
    refine ⟨a :: b :: c :: d :: f :: bs, ?_, ?_, by simp⟩
    · simp only [List.map_cons]
      rw [show keyVal e = .list [.int e.1, .int (e.2 : Int)] from rfl]
      rw [writeKeyEvents_cons e.1 e.2 _ bs h3 h1 h2 hbs, ha, hb]
      simp
    · simp only [readKeyEvents, hrs, hs, hu, List.map_cons]
      rfl

/-! ## VolumeAdjustmentSpec / VolumePeakSpec (wire integers) -/

theorem readVolAdj_write (n : Int) (h1 : -32768 ≤ n) (h2 : n ≤ 32767) (rest : Bytes) :
    ∃ b, writeVolAdj (.int n) = .ok b ∧ readVolAdj (b ++ rest) = .ok (.int n, rest) ∧ b ≠ [] := by
  obtain ⟨a, b, hab⟩ := toSignedBE2_cases n
  have hs : ofSignedBE [a, b] = n := by
    rw [← hab]; exact ofSignedBE_toSignedBE 2 (by decide) n (by simp; omega) (by simp; omega)
  refine ⟨[a, b], by simp [writeVolAdj, h1, h2, hab], ?_, by simp⟩
  simp [readVolAdj, hs]

/-- the peak comes back as the numerator `n * 2^16` of a fraction over `2^31 - 1`
(written: `n / 2^15`) -/
theorem readVolPeak_write (n : Nat) (h : n ≤ 65535) (rest : Bytes) :
    ∃ b, writeVolPeak (.int n) = .ok b ∧ readVolPeak (b ++ rest) = .ok (.int ((n * 65536 : Nat) : Int), rest) ∧
      b ≠ [] := by
  obtain ⟨a, b, hab⟩ := toBE2_cases n
  have hu : ofBE [a, b] = n := by rw [← hab]; exact ofBE_toBE 2 n (by simp; omega)
  have h1 : (0 : Int) ≤ (n : Int) := by omega
  have h2 : (n : Int) ≤ 65535 := by omega
  refine ⟨[0x10, a, b], by simp [writeVolPeak, h1, h2, hab], ?_, by simp⟩
  simp [readVolPeak, hu]

/-! ## StringSpec / FrameIDSpec -/

theorem readString_write (n : Nat) (t : Text) (hlen : t.length = n) (ht : ∀ x ∈ t, x < 128) (rest : Bytes) :
    ∃ b, writeString n (.text t) = .ok b ∧ readString n (b ++ rest) = .ok (.text t, rest) ∧ (0 < n → b ≠ []) := by
  have hall : t.all (fun c => decide (c < 128)) = true := by simpa [List.all_eq_true] using ht
  have hl : ∀ x ∈ t, x < 256 := fun x hx => by have := ht x hx; omega
  have htake : (t.map b8 ++ zeros n).take n = t.map b8 := take_app _ _ n (by simp [hlen])
  refine ⟨t.map b8, by simp [writeString, hall, htake], ?_, ?_⟩
  · have h1 : (t.map b8 ++ rest).take n = t.map b8 := take_app _ _ n (by simp [hlen])
    have h2 : (t.map b8 ++ rest).drop n = rest := drop_app _ _ n (by simp [hlen])
    have h3 : (t.map b8).all (fun x => decide (x.toNat < 128)) = true := by
      simp only [List.all_eq_true, List.mem_map, decide_eq_true_eq]
      rintro y ⟨x, hx, rfl⟩
      rw [toNat_b8 x (hl x hx)]; exact ht x hx
    simp [readString, h1, h2, h3, map_toNat_b8 t hl]
  · intro hn
    cases t with
    | nil => simp at hlen; omega
    | cons _ _ => simp

/-! ## SizedIntegerSpec / IntegerSpec -/

theorem readSized_write (n v : Nat) (h : v < 256 ^ n) (rest : Bytes) :
    ∃ b, bpToStr (v : Int) 8 true (n : Int) 4 = .ok b ∧ b.length = n ∧ bpFromBytes 8 true ((b ++ rest).take n) = v ∧
      (b ++ rest).drop n = rest := by
  obtain ⟨b, hb, hlen, hv, _⟩ := Mutagen.C14.to_str_roundtrip v n 8 4 true (by decide) (by rw [pow256]; exact h)
  refine ⟨b, hb, hlen, ?_, ?_⟩
  · rw [take_app b rest n hlen]; exact hv
  · exact drop_app b rest n hlen

theorem readInteger_write (v : Nat) :
    ∃ b, bpToStr (v : Int) 8 true (-1) 4 = .ok b ∧ bpFromBytes 8 true b = v ∧ b ≠ [] := by
  obtain ⟨b, hb, hlen, hv, _⟩ := Mutagen.C14.to_str_growing_roundtrip v 8 4 true (by decide) (by decide)
  refine ⟨b, hb, hv, ?_⟩
  intro he; subst he; simp at hlen

/-! ## VolumeAdjustmentsSpec (EQU2) -/

/-- frequencies strictly increasing (so the list is what `sorted(dict.items())` returns) -/
def Inc : List (Nat × Int) → Prop
  | [] => True
  | [_] => True
  | p :: q :: r => p.1 < q.1 ∧ Inc (q :: r)

def AdjOK (ps : List (Nat × Int)) : Prop :=
  Inc ps ∧ ∀ p ∈ ps, p.1 < 256 ^ 2 ∧ -32768 ≤ p.2 ∧ p.2 < 32768

def toII (p : Nat × Int) : Int × Int := ((p.1 : Int), p.2)

theorem Inc.tail {p : Nat × Int} {r : List (Nat × Int)} (h : Inc (p :: r)) : Inc r := by
  cases r with
  | nil => trivial
  | cons q r' => exact h.2

theorem adjPairs_map (ps : List (Nat × Int)) : adjPairs (ps.map adjVal) = .ok (ps.map toII) := by
  induction ps with
  | nil => simp [adjPairs]
  | cons p r ih =>
    simp only [List.map_cons]
    rw [show adjVal p = .list [.int (p.1 : Int), .int p.2] from rfl, adjPairs]
    simp only [intIntPair, ih]
    rfl

theorem sortPairs_inc (ps : List (Nat × Int)) (h : Inc ps) : sortPairs (ps.map toII) = ps.map toII := by
  induction ps with
  | nil => rfl
  | cons p r ih =>
    simp only [List.map_cons, sortPairs, ih h.tail]
    cases r with
    | nil => rfl
    | cons q r' =>
      have hlt : (p.1 : Int) < (q.1 : Int) := by have := h.1; omega
      simp [insertPair, pairLe, toII, hlt]

theorem writeAdjPairs_read (ps : List (Nat × Int)) (h : ∀ p ∈ ps, p.1 < 256 ^ 2 ∧ -32768 ≤ p.2 ∧ p.2 < 32768) :
    ∃ b, writeAdjPairs (ps.map toII) = .ok b ∧ readAdjPairs b = (ps, []) ∧ (ps ≠ [] → b ≠ []) := by
  induction ps with
  | nil => exact ⟨[], by simp [writeAdjPairs], by simp [readAdjPairs], by simp⟩
  | cons p r ih =>
    obtain ⟨bs, hbs, hrs, _⟩ := ih (fun x hx => h x (by simp [hx]))
    obtain ⟨h1, h2, h3⟩ := h p (by simp)
    obtain ⟨a, b, hab⟩ := toBE2_cases p.1
    obtain ⟨c, d, hcd⟩ := toSignedBE2_cases p.2
    have hu : ofBE [a, b] = p.1 := by rw [← hab]; exact ofBE_toBE 2 p.1 h1
    have hs : ofSignedBE [c, d] = p.2 := by
      rw [← hcd]; exact ofSignedBE_toSignedBE 2 (by decide) p.2 (by simp; omega) (by simp; omega)
    have p1 := packU_ok 2 p.1 h1
    have p2 := packS_ok 2 p.2 (by simp; omega) (by simp; omega)
    refine ⟨a :: b :: c :: d :: bs, ?_, ?_, by simp⟩
    · simp only [List.map_cons]
      rw [show toII p = ((p.1 : Int), p.2) from rfl, writeAdjPairs, p1, p2, hbs, hab, hcd]
      simp
    · simp only [readAdjPairs, hrs, hu, hs]

theorem upsert_append (k : Nat) (v : Int) (acc : List (Nat × Int)) (h : ∀ q ∈ acc, q.1 < k) :
    upsert k v acc = acc ++ [(k, v)] := by
  induction acc with
  | nil => rfl
  | cons q r ih =>
    have hq : q.1 < k := h q (by simp)
    have h1 : ¬ (k < q.1) := by omega
    have h2 : ¬ (k = q.1) := by omega
    obtain ⟨qk, qv⟩ := q
    simp only at hq h1 h2
    simp [upsert, h1, h2, ih (fun x hx => h x (by simp [hx]))]

theorem foldl_upsert (ps acc : List (Nat × Int)) (hinc : Inc ps)
    (hacc : ∀ p ∈ ps, ∀ q ∈ acc, q.1 < p.1) :
    ps.foldl (fun acc p => upsert p.1 p.2 acc) acc = acc ++ ps := by
  induction ps generalizing acc with
  | nil => simp
  | cons p r ih =>
    simp only [List.foldl_cons]
    rw [upsert_append p.1 p.2 acc (hacc p (by simp))]
    rw [ih (acc ++ [(p.1, p.2)]) hinc.tail ?_]
    · simp
    · intro p' hp' q hq
      -- every later key is larger than `p`'s, which is larger than everything in `acc`
      have hlt : ∀ (l : List (Nat × Int)) (x : Nat × Int), Inc (x :: l) → ∀ y ∈ l, x.1 < y.1 := by
        intro l
        induction l with
        | nil => intro x _ y hy; simp at hy
        | cons z l' ihl =>
          intro x hx y hy
          rcases List.mem_cons.mp hy with rfl | hy
          · exact hx.1
          · have := ihl z hx.2 y hy
            have := hx.1
            omega
      have hp := hlt r p hinc p' hp'
      rcases List.mem_append.mp hq with hq | hq
      · have := hacc p (by simp) q hq; omega
      · simp at hq; subst hq; exact hp

theorem readVolAdjs_write (ps : List (Nat × Int)) (h : AdjOK ps) :
    ∃ b, adjPairs (ps.map adjVal) = .ok (ps.map toII) ∧ writeAdjPairs (sortPairs (ps.map toII)) = .ok b ∧
      readVolAdjs b = (.list (ps.map adjVal), []) ∧ (ps ≠ [] → b ≠ []) := by
  obtain ⟨b, hb, hr, hne⟩ := writeAdjPairs_read ps h.2
  refine ⟨b, adjPairs_map ps, by rw [sortPairs_inc ps h.1, hb], ?_, hne⟩
  simp [readVolAdjs, hr, foldl_upsert ps [] h.1 (by simp)]

/-! ## ASPIIndexSpec -/

def natVal (n : Nat) : Val := .int (n : Int)

theorem writeUnits_read (size : Nat) (vs : List Nat) (h : ∀ v ∈ vs, v < 256 ^ size) :
    ∃ b, writeUnits size (vs.map natVal) = .ok b ∧ b.length = vs.length * size ∧
      readUnits size vs.length b = vs.map natVal := by
  induction vs with
  | nil => exact ⟨[], by simp [writeUnits], by simp, by simp [readUnits]⟩
  | cons v r ih =>
    obtain ⟨bs, hbs, hlen, hrs⟩ := ih (fun x hx => h x (by simp [hx]))
    have hp := packU_ok size v (h v (by simp))
    refine ⟨toBE size v ++ bs, ?_, ?_, ?_⟩
    · simp only [List.map_cons]
      rw [show natVal v = .int (v : Int) from rfl, writeUnits, hp, hbs]
    · simp [hlen, Nat.succ_mul]; omega
    · simp only [List.length_cons, readUnits, take_app _ bs size (length_toBE size v),
        drop_app _ bs size (length_toBE size v), ofBE_toBE size v (h v (by simp)), hrs, List.map_cons]
      rfl

theorem readAspi_write (c : Ctx) (b : Int) (hb : b = 8 ∨ b = 16) (vs : List Nat)
    (hcb : c.aspiB = some b) (hcn : c.aspiN = some (vs.length : Int))
    (h : ∀ v ∈ vs, v < 256 ^ (if b = 16 then 2 else 1)) (rest : Bytes) :
    ∃ d, writeAspi c (.list (vs.map natVal)) = .ok d ∧
      readAspi c (d ++ rest) = .ok (.list (vs.map natVal), rest) ∧ (vs ≠ [] → d ≠ []) := by
  obtain ⟨d, hd, hlen, hr⟩ := writeUnits_read (if b = 16 then 2 else 1) vs h
  have hb' : b = 16 ∨ b = 8 := hb.symm
  refine ⟨d, by simp [writeAspi, hcb, hcn, hb', hd], ?_, ?_⟩
  · have ht : (d ++ rest).take (vs.length * (if b = 16 then 2 else 1)) = d := take_app _ _ _ hlen
    have hdr : (d ++ rest).drop (vs.length * (if b = 16 then 2 else 1)) = rest := drop_app _ _ _ hlen
    simp [readAspi, hcb, hcn, hb', ht, hdr, hlen, hr]
  · intro hne he
    rw [he] at hlen
    cases vs with
    | nil => exact hne rfl
    | cons v r =>
      have hsz : 0 < (if b = 16 then 2 else 1 : Nat) := by split <;> omega
      have hpos := Nat.mul_pos (by omega : 0 < r.length + 1) hsz
      simp only [List.length_nil, List.length_cons] at hlen
      omega

/-! ## one lemma for every spec kind -/

/-- what a spec-level round trip is relative to: the nested-frame reader/writer, the save
configuration and the header of the tag being read -/
structure Env where
  sub : Hdr → Bytes → Except PyErr (List Val × Bytes)
  subw : Cfg → List Val → Except PyErr Bytes
  cfg : Cfg
  h : Hdr

/-- specs that consume all remaining data (or leave only an unusable tail) -/
def greedy : SpecKind → Bool
  | .binary | .integer | .multi _ | .syncText | .keyEvent | .volAdjs | .frames | .rva _ => true
  | _ => false

def isEncText : SpecKind → Bool
  | .encText _ => true
  | _ => false

/-- valid non-degenerate values of each spec kind (`c` = the attributes of the frame).
`RVASpec` has no general theorem (`False` here); nested frames are valid when the nested
writer/reader pair round-trips on them. -/
def Valid (E : Env) (c : Ctx) (k : SpecKind) (v : Val) : Prop :=
  match k with
  | .byte | .pictureType | .ctocFlags | .channel => ∃ n : Nat, v = .int (n : Int) ∧ n < 256
  | .encoding => ∃ n : Nat, v = .int (n : Int) ∧ n ≤ 3
  | .string n | .frameId n => ∃ t, v = .text t ∧ t.length = n ∧ 0 < n ∧ ∀ x ∈ t, x < 128
  | .binary => ∃ b, v = .bytes b
  | .encText tk => ∃ enc t, v = .text t ∧ ctxEnc c = .ok enc ∧ TextKindOK enc tk t
  | .multi elems => elems ≠ [] ∧ ∃ enc recs, ctxEnc c = .ok enc ∧ v = .list (recs.map (recordVal elems)) ∧
      recs ≠ [] ∧ ∀ r ∈ recs, RecordOK E.h enc elems r
  | .latin1Text => ∃ t, v = .text t ∧ Latin1OK t
  | .latin1List => ∃ ts : List Text, v = .list (ts.map Val.text) ∧ ts.length < 256 ∧ ∀ t ∈ ts, Latin1OK t
  | .sizedInt n => ∃ m : Nat, v = .int (m : Int) ∧ m < 256 ^ n ∧ 0 < n
  | .integer => ∃ m : Nat, v = .int (m : Int)
  | .volAdj => ∃ i : Int, v = .int i ∧ -32768 ≤ i ∧ i ≤ 32767
  | .volPeak => ∃ m : Nat, v = .int (m : Int) ∧ m ≤ 65535
  | .syncText => ∃ enc es, ctxEnc c = .ok enc ∧ v = .list (es.map syncVal) ∧ es ≠ [] ∧ SyncOK enc es
  | .keyEvent => ∃ es, v = .list (es.map keyVal) ∧ es ≠ [] ∧ KeyOK es
  | .volAdjs => ∃ ps, v = .list (ps.map adjVal) ∧ ps ≠ [] ∧ AdjOK ps
  | .aspiIndex => ∃ (b : Int) (vs : List Nat), (b = 8 ∨ b = 16) ∧ c.aspiB = some b ∧
      c.aspiN = some (vs.length : Int) ∧ v = .list (vs.map natVal) ∧ vs ≠ [] ∧
      ∀ x ∈ vs, x < 256 ^ (if b = 16 then 2 else 1)
  | .frames => ∃ fs b, v = .list fs ∧ E.subw E.cfg fs = .ok b ∧ E.sub { E.h with unsynch := false } b = .ok (fs, [])
  | .rva m => ∃ vals : List Int, v = .list (vals.map Val.int) ∧ RvaOK m vals

/-- what `read` returns for a written value: the value itself, except that a peak written
as `n/2^15` comes back as `(n·2^16)/(2^31-1)` -/
def normVal (k : SpecKind) (v : Val) : Val :=
  match k, v with
  | .volPeak, .int i => .int (i * 65536)
  | _, _ => v

def RestOK (h : Hdr) (k : SpecKind) (rest : Bytes) : Prop :=
  greedy k = true → rest = []

section unfold
variable (sub : Hdr → Bytes → Except PyErr (List Val × Bytes)) (subw : Cfg → List Val → Except PyErr Bytes)
  (cfg : Cfg) (h : Hdr) (c : Ctx) (v : Val) (d : Bytes)
theorem writeSpec_byte : writeSpec subw cfg .byte c v = writeByteVal v := rfl
theorem writeSpec_pictureType : writeSpec subw cfg .pictureType c v = writeByteVal v := rfl
theorem writeSpec_ctocFlags : writeSpec subw cfg .ctocFlags c v = writeByteVal v := rfl
theorem writeSpec_channel : writeSpec subw cfg .channel c v = writeByteVal v := rfl
theorem writeSpec_encoding : writeSpec subw cfg .encoding c v = writeByteVal v := rfl
theorem writeSpec_string (n : Nat) : writeSpec subw cfg (.string n) c v = writeString n v := rfl
theorem writeSpec_frameId (n : Nat) : writeSpec subw cfg (.frameId n) c v = writeString n v := rfl
theorem writeSpec_binary (b : Bytes) : writeSpec subw cfg .binary c (.bytes b) = .ok b := rfl
theorem writeSpec_encText (tk : TextKind) : writeSpec subw cfg (.encText tk) c v = writeTextKind c tk v := rfl
theorem writeSpec_multi (e : List TextKind) (vs : List Val) :
    writeSpec subw cfg (.multi e) c (.list vs) = writeMulti c e vs := rfl
theorem writeSpec_latin1Text : writeSpec subw cfg .latin1Text c v = writeLatin1 v := rfl
theorem writeSpec_latin1List (vs : List Val) (a b : Bytes) (ha : bchr vs.length = .ok a) (hb : writeLatin1s vs = .ok b) :
    writeSpec subw cfg .latin1List c (.list vs) = .ok (a ++ b) := by
  unfold writeSpec
  simp only [ha, hb]
theorem writeSpec_sizedInt (n : Nat) (i : Int) :
    writeSpec subw cfg (.sizedInt n) c (.int i) = bpToStr i 8 true n 4 := rfl
theorem writeSpec_integer (i : Int) : writeSpec subw cfg .integer c (.int i) = bpToStr i 8 true (-1) 4 := rfl
theorem writeSpec_volAdj : writeSpec subw cfg .volAdj c v = writeVolAdj v := rfl
theorem writeSpec_volPeak : writeSpec subw cfg .volPeak c v = writeVolPeak v := rfl
theorem writeSpec_syncText (vs : List Val) : writeSpec subw cfg .syncText c (.list vs) = writeSyncText c vs := rfl
theorem writeSpec_keyEvent (vs : List Val) : writeSpec subw cfg .keyEvent c (.list vs) = writeKeyEvents vs := rfl
theorem writeSpec_volAdjs (vs : List Val) (ps : List (Int × Int)) (hp : adjPairs vs = .ok ps) :
    writeSpec subw cfg .volAdjs c (.list vs) = writeAdjPairs (sortPairs ps) := by
  unfold writeSpec
  simp only [hp]
theorem writeSpec_aspiIndex : writeSpec subw cfg .aspiIndex c v = writeAspi c v := rfl
theorem writeSpec_frames (fs : List Val) : writeSpec subw cfg .frames c (.list fs) = subw cfg fs := rfl

theorem readSpec_byte (i : Int) (r : Bytes) (hb : readByte d = .ok (i, r)) : readSpec sub h .byte c d = .ok (.int i, r) := by
  simp only [readSpec, hb]
theorem readSpec_pictureType (i : Int) (r : Bytes) (hb : readByte d = .ok (i, r)) :
    readSpec sub h .pictureType c d = .ok (.int i, r) := by simp only [readSpec, hb]
theorem readSpec_ctocFlags (i : Int) (r : Bytes) (hb : readByte d = .ok (i, r)) :
    readSpec sub h .ctocFlags c d = .ok (.int i, r) := by simp only [readSpec, hb]
theorem readSpec_channel (i : Int) (r : Bytes) (hb : readByte d = .ok (i, r)) :
    readSpec sub h .channel c d = .ok (.int i, r) := by simp only [readSpec, hb]
theorem readSpec_encoding (i : Int) (r : Bytes) (hb : readByte d = .ok (i, r)) (hi : i ≤ 3) :
    readSpec sub h .encoding c d = .ok (.int i, r) := by simp only [readSpec, hb, hi, ↓reduceIte]
theorem readSpec_string (n : Nat) : readSpec sub h (.string n) c d = readString n d := rfl
theorem readSpec_frameId (n : Nat) : readSpec sub h (.frameId n) c d = readString n d := rfl
theorem readSpec_binary : readSpec sub h .binary c d = .ok (.bytes d, []) := rfl
theorem readSpec_encText (tk : TextKind) : readSpec sub h (.encText tk) c d = readTextKind h c tk d := rfl
theorem readSpec_multi (e : List TextKind) (vs : List Val) (hm : readMulti h c e d = .ok vs) :
    readSpec sub h (.multi e) c d = .ok (.list vs, []) := by simp only [readSpec, hm]
theorem readSpec_latin1Text : readSpec sub h .latin1Text c d = .ok (.text (readLatin1 d).1, (readLatin1 d).2) := rfl
theorem readSpec_latin1List (n : Int) (r : Bytes) (hb : readByte d = .ok (n, r)) :
    readSpec sub h .latin1List c d = .ok (.list (readLatin1N n.toNat r).1, (readLatin1N n.toNat r).2) := by
  simp only [readSpec, hb]
theorem readSpec_sizedInt (n : Nat) :
    readSpec sub h (.sizedInt n) c d = .ok (.int (bpFromBytes 8 true (d.take n)), d.drop n) := rfl
theorem readSpec_integer : readSpec sub h .integer c d = .ok (.int (bpFromBytes 8 true d), []) := rfl
theorem readSpec_volAdj : readSpec sub h .volAdj c d = readVolAdj d := rfl
theorem readSpec_volPeak : readSpec sub h .volPeak c d = readVolPeak d := rfl
theorem readSpec_syncText (enc : Nat) (vs : List Val) (hc : ctxEnc c = .ok enc) (hs : readSyncText enc d = .ok vs) :
    readSpec sub h .syncText c d = .ok (.list vs, []) := by simp only [readSpec, hc, hs]
theorem readSpec_keyEvent : readSpec sub h .keyEvent c d = .ok (.list (readKeyEvents d).1, (readKeyEvents d).2) := rfl
theorem readSpec_volAdjs : readSpec sub h .volAdjs c d = .ok (readVolAdjs d) := rfl
theorem readSpec_aspiIndex : readSpec sub h .aspiIndex c d = readAspi c d := rfl
theorem readSpec_frames (fs : List Val) (r : Bytes) (hs : sub { h with unsynch := false } d = .ok (fs, r)) :
    readSpec sub h .frames c d = .ok (.list fs, r) := by simp only [readSpec, hs]
end unfold

/-- THE spec-level round trip: for every spec kind with a `Valid` value (all kinds of the
frame table; `RVASpec`: `RvaOK`, Proofs/Id3Rva.lean), what `write` produces, followed by `rest`, is read back as
the same value (`normVal`: the peak in its read-side scale) leaving `rest`; a spec without
`handle_nodata` writes at least one byte. -/
theorem read_write (E : Env) (c : Ctx) (k : SpecKind) (v : Val) (hv : Valid E c k v) (rest : Bytes)
    (hr : RestOK E.h k rest) :
    ∃ b, writeSpec E.subw E.cfg k c v = .ok b ∧
      readSpec E.sub E.h k c (b ++ rest) = .ok (normVal k v, rest) ∧ (handleNoData k = false → b ≠ []) := by
  have byteCase : ∀ n : Nat, n < 256 → ∃ b, writeByteVal (.int (n : Int)) = .ok b ∧
      readByte (b ++ rest) = .ok ((n : Int), rest) ∧ b ≠ [] := by
    intro n hn
    exact ⟨[b8 n], by simp [writeByteVal, bchr_ok n hn], by simp [readByte, toNat_b8 n hn], by simp⟩
  cases k with
  | byte =>
    obtain ⟨n, rfl, hn⟩ := hv
    obtain ⟨b, h1, h2, h3⟩ := byteCase n hn
    exact ⟨b, by rw [writeSpec_byte, h1], by rw [readSpec_byte _ _ _ _ _ _ h2]; rfl, fun _ => h3⟩
  | pictureType =>
    obtain ⟨n, rfl, hn⟩ := hv
    obtain ⟨b, h1, h2, h3⟩ := byteCase n hn
    exact ⟨b, by rw [writeSpec_pictureType, h1], by rw [readSpec_pictureType _ _ _ _ _ _ h2]; rfl, fun _ => h3⟩
  | ctocFlags =>
    obtain ⟨n, rfl, hn⟩ := hv
    obtain ⟨b, h1, h2, h3⟩ := byteCase n hn
    exact ⟨b, by rw [writeSpec_ctocFlags, h1], by rw [readSpec_ctocFlags _ _ _ _ _ _ h2]; rfl, fun _ => h3⟩
  | channel =>
    obtain ⟨n, rfl, hn⟩ := hv
    obtain ⟨b, h1, h2, h3⟩ := byteCase n hn
    exact ⟨b, by rw [writeSpec_channel, h1], by rw [readSpec_channel _ _ _ _ _ _ h2]; rfl, fun _ => h3⟩
  | encoding =>
    obtain ⟨n, rfl, hn⟩ := hv
    obtain ⟨b, h1, h2, h3⟩ := byteCase n (by omega)
    have : (n : Int) ≤ 3 := by omega
    exact ⟨b, by rw [writeSpec_encoding, h1], by rw [readSpec_encoding _ _ _ _ _ _ h2 this]; rfl, fun _ => h3⟩
  | string n =>
    obtain ⟨t, rfl, hlen, hn, ht⟩ := hv
    obtain ⟨b, h1, h2, h3⟩ := readString_write n t hlen ht rest
    exact ⟨b, by rw [writeSpec_string, h1], by rw [readSpec_string, h2]; rfl, fun _ => h3 hn⟩
  | frameId n =>
    obtain ⟨t, rfl, hlen, hn, ht⟩ := hv
    obtain ⟨b, h1, h2, h3⟩ := readString_write n t hlen ht rest
    exact ⟨b, by rw [writeSpec_frameId, h1], by rw [readSpec_frameId, h2]; rfl, fun _ => h3 hn⟩
  | binary =>
    obtain ⟨b, rfl⟩ := hv
    have : rest = [] := hr rfl
    subst this
    exact ⟨b, by rw [writeSpec_binary], by rw [readSpec_binary]; simp [normVal], by simp [handleNoData]⟩
  | encText tk =>
    obtain ⟨enc, t, rfl, hc, ht⟩ := hv
    obtain ⟨b, h1, h2, h3, _⟩ := readTextKind_write E.h c enc hc tk t ht rest
    exact ⟨b, by rw [writeSpec_encText, h1], by rw [readSpec_encText, h2]; rfl, fun _ => h3⟩
  | multi elems =>
    obtain ⟨hne, enc, recs, hc, rfl, hrne, hrecs⟩ := hv
    have : rest = [] := hr rfl
    subst this
    obtain ⟨b, h1, h2, h3, _⟩ := readMulti_write E.h c enc hc elems hne recs hrecs
    exact ⟨b, by rw [writeSpec_multi, h1], by rw [List.append_nil, readSpec_multi _ _ _ _ _ _ h2]; rfl, fun _ => h3 hrne⟩
  | latin1Text =>
    obtain ⟨t, rfl, ht⟩ := hv
    obtain ⟨b, h1, h2, h3⟩ := readLatin1_write t ht rest
    exact ⟨b, by rw [writeSpec_latin1Text, h1], by rw [readSpec_latin1Text, h2]; rfl, fun _ => h3⟩
  | latin1List =>
    obtain ⟨ts, rfl, hlen, hts⟩ := hv
    obtain ⟨bs, h1, h2⟩ := readLatin1N_write ts hts rest
    have hb := bchr_ok ts.length hlen
    have hlen' : (ts.map Val.text).length = ts.length := by simp
    refine ⟨[b8 ts.length] ++ bs, ?_, ?_, fun _ => by simp⟩
    · exact writeSpec_latin1List _ _ _ _ _ _ (by rw [hlen']; exact hb) h1
    · have hrb : readByte ([b8 ts.length] ++ bs ++ rest) = .ok ((ts.length : Int), bs ++ rest) := by
        simp [readByte, toNat_b8 ts.length hlen]
      rw [readSpec_latin1List _ _ _ _ _ _ hrb]
      simp [h2, normVal]
  | sizedInt n =>
    obtain ⟨m, rfl, hm, hn⟩ := hv
    obtain ⟨b, h1, hlen, h2, h3⟩ := readSized_write n m hm rest
    refine ⟨b, by rw [writeSpec_sizedInt, h1], by rw [readSpec_sizedInt, h2, h3]; rfl, fun _ => ?_⟩
    intro he; subst he; simp at hlen; omega
  | integer =>
    obtain ⟨m, rfl⟩ := hv
    have : rest = [] := hr rfl
    subst this
    obtain ⟨b, h1, h2, h3⟩ := readInteger_write m
    exact ⟨b, by rw [writeSpec_integer, h1], by rw [List.append_nil, readSpec_integer, h2]; rfl, fun _ => h3⟩
  | volAdj =>
    obtain ⟨i, rfl, hlo, hhi⟩ := hv
    obtain ⟨b, h1, h2, h3⟩ := readVolAdj_write i hlo hhi rest
    exact ⟨b, by rw [writeSpec_volAdj, h1], by rw [readSpec_volAdj, h2]; rfl, fun _ => h3⟩
  | volPeak =>
    obtain ⟨m, rfl, hm⟩ := hv
    obtain ⟨b, h1, h2, h3⟩ := readVolPeak_write m hm rest
    refine ⟨b, by rw [writeSpec_volPeak, h1], ?_, fun _ => h3⟩
    rw [readSpec_volPeak, h2]
    simp [normVal]
  | syncText =>
    obtain ⟨enc, es, hc, rfl, hne, hes⟩ := hv
    have : rest = [] := hr rfl
    subst this
    obtain ⟨b, h1, h2, h3⟩ := readSyncText_write c enc hc es hes
    exact ⟨b, by rw [writeSpec_syncText, h1], by rw [List.append_nil, readSpec_syncText _ _ _ _ enc _ hc h2]; rfl,
      fun _ => h3 hne⟩
  | keyEvent =>
    obtain ⟨es, rfl, hne, hes⟩ := hv
    have : rest = [] := hr rfl
    subst this
    obtain ⟨b, h1, h2, h3⟩ := readKeyEvents_write es hes
    exact ⟨b, by rw [writeSpec_keyEvent, h1], by rw [List.append_nil, readSpec_keyEvent, h2]; rfl, fun _ => h3 hne⟩
  | volAdjs =>
    obtain ⟨ps, rfl, hne, hps⟩ := hv
    have : rest = [] := hr rfl
    subst this
    obtain ⟨b, h0, h1, h2, h3⟩ := readVolAdjs_write ps hps
    exact ⟨b, by rw [writeSpec_volAdjs _ _ _ _ _ h0, h1], by rw [List.append_nil, readSpec_volAdjs, h2]; rfl,
      fun _ => h3 hne⟩
  | aspiIndex =>
    obtain ⟨b, vs, hb, hcb, hcn, rfl, hne, hvs⟩ := hv
    obtain ⟨d, h1, h2, h3⟩ := readAspi_write c b hb vs hcb hcn hvs rest
    exact ⟨d, by rw [writeSpec_aspiIndex, h1], by rw [readSpec_aspiIndex, h2]; rfl, fun _ => h3 hne⟩
  | frames =>
    obtain ⟨fs, b, rfl, hw, hrd⟩ := hv
    have : rest = [] := hr rfl
    subst this
    exact ⟨b, by rw [writeSpec_frames, hw], by rw [List.append_nil, readSpec_frames _ _ _ _ _ _ hrd]; rfl,
      by simp [handleNoData]⟩
  | rva m =>
    obtain ⟨vals, rfl, hok⟩ := hv
    have : rest = [] := hr rfl
    subst this
    obtain ⟨b, h1, h2, h3⟩ := readRva_writeRva m vals hok
    exact ⟨b, h1, by rw [List.append_nil]; exact h2, fun _ => h3⟩

/-! ## the frame level: `_writeData` / `_readData` -/

def usesEnc : SpecKind → Bool
  | .encText _ | .multi _ | .syncText => true
  | _ => false

def usesAspi : SpecKind → Bool
  | .aspiIndex => true
  | _ => false

def setsEnc (s : FieldSpec) : Bool := decide (s.name = "encoding")
def setsAspi (s : FieldSpec) : Bool := decide (s.name = "N") || decide (s.name = "b")

/-- THE structural condition the frame round trip needs, on the spec list
`_framespec ++ _optionalspec` of a class:
* a spec that consumes the rest of the data (`greedy`) is the last one;
* from a spec that reads `frame.encoding` on, no spec is named `encoding` (so the attribute
  has its final value when the spec is read), likewise `N`/`b` for `ASPIIndexSpec`;
* a `VolumePeakSpec` is not named `encoding`, `N` or `b` (its read value is rescaled). -/
def structOK : List FieldSpec → Bool
  | [] => true
  | s :: ss =>
    (!greedy s.kind || ss.isEmpty) &&
    (!usesEnc s.kind || (s :: ss).all (fun x => !setsEnc x)) &&
    (!usesAspi s.kind || (s :: ss).all (fun x => !setsAspi x)) &&
    (!(s.kind == .volPeak) || (!setsEnc s && !setsAspi s)) &&
    structOK ss

def normVals : List FieldSpec → List Val → List Val
  | s :: ss, v :: vs => normVal s.kind v :: normVals ss vs
  | _, _ => []

/-- every value valid with respect to the attributes set by the fields before it -/
def FieldsValid (E : Env) : Ctx → List FieldSpec → List Val → Prop
  | c, s :: ss, v :: vs => Valid E c s.kind v ∧ FieldsValid E (ctxUpdate c s.name (normVal s.kind v)) ss vs
  | _, _, _ => True

/-! ### the writers depend on the frame attributes only through the ones they use -/

theorem ctxEnc_congr (c c' : Ctx) (h : c.enc = c'.enc) : ctxEnc c = ctxEnc c' := by
  unfold ctxEnc; rw [h]

theorem writeEncText_congr (c c' : Ctx) (h : c.enc = c'.enc) (t : Text) : writeEncText c t = writeEncText c' t := by
  unfold writeEncText; rw [ctxEnc_congr c c' h]

theorem writeTextKind_congr (c c' : Ctx) (h : c.enc = c'.enc) (k : TextKind) (v : Val) :
    writeTextKind c k v = writeTextKind c' k v := by
  cases v <;> cases k <;> simp [writeTextKind, writeEncText_congr c c' h]

theorem writeRecord_congr (c c' : Ctx) (h : c.enc = c'.enc) (ks : List TextKind) (vs : List Val) :
    writeRecord c ks vs = writeRecord c' ks vs := by
  induction ks generalizing vs with
  | nil => cases vs <;> simp [writeRecord]
  | cons k ks ih =>
    cases vs with
    | nil => simp [writeRecord]
    | cons v vs => simp only [writeRecord, writeTextKind_congr c c' h, ih]

theorem writeMulti_congr (c c' : Ctx) (h : c.enc = c'.enc) (ks : List TextKind) (vs : List Val) :
    writeMulti c ks vs = writeMulti c' ks vs := by
  induction vs with
  | nil => simp [writeMulti]
  | cons v vs ih =>
    simp only [writeMulti, ih, writeTextKind_congr c c' h, writeRecord_congr c c' h]

theorem writeSyncText_congr (c c' : Ctx) (h : c.enc = c'.enc) (vs : List Val) :
    writeSyncText c vs = writeSyncText c' vs := by
  induction vs with
  | nil => simp [writeSyncText]
  | cons v vs ih => simp only [writeSyncText, ih, writeEncText_congr c c' h]

theorem writeAspi_congr (c c' : Ctx) (h1 : c.aspiN = c'.aspiN) (h2 : c.aspiB = c'.aspiB) (v : Val) :
    writeAspi c v = writeAspi c' v := by
  unfold writeAspi; rw [h1, h2]

theorem writeSpec_congr (subw : Cfg → List Val → Except PyErr Bytes) (cfg : Cfg) (k : SpecKind) (c c' : Ctx) (v : Val)
    (he : usesEnc k = true → c.enc = c'.enc)
    (ha : usesAspi k = true → c.aspiN = c'.aspiN ∧ c.aspiB = c'.aspiB) :
    writeSpec subw cfg k c v = writeSpec subw cfg k c' v := by
  cases k with
  | encText tk => rw [writeSpec_encText, writeSpec_encText, writeTextKind_congr c c' (he rfl)]
  | multi e =>
    cases v with
    | list vs => rw [writeSpec_multi, writeSpec_multi, writeMulti_congr c c' (he rfl)]
    | _ => rfl
  | syncText =>
    cases v with
    | list vs => rw [writeSpec_syncText, writeSpec_syncText, writeSyncText_congr c c' (he rfl)]
    | _ => rfl
  | aspiIndex => rw [writeSpec_aspiIndex, writeSpec_aspiIndex, writeAspi_congr c c' (ha rfl).1 (ha rfl).2]
  | _ => rfl

/-! ### attributes that no later spec sets keep their value -/

theorem ctxUpdate_enc (c : Ctx) (name : String) (v : Val) (h : ¬ name = "encoding") :
    (ctxUpdate c name v).enc = c.enc := by
  unfold ctxUpdate
  cases v with
  | int i =>
    simp only [h, ↓reduceIte]
    split
    · rfl
    · split <;> rfl
  | _ => rfl

theorem ctxUpdate_aspi (c : Ctx) (name : String) (v : Val) (h1 : ¬ name = "N") (h2 : ¬ name = "b") :
    (ctxUpdate c name v).aspiN = c.aspiN ∧ (ctxUpdate c name v).aspiB = c.aspiB := by
  unfold ctxUpdate
  cases v with
  | int i =>
    simp only [h1, h2, ↓reduceIte]
    split <;> exact ⟨rfl, rfl⟩
  | _ => exact ⟨rfl, rfl⟩

theorem frameCtx_enc (specs : List FieldSpec) (vals : List Val) (c : Ctx)
    (h : specs.all (fun x => !setsEnc x) = true) : (frameCtx specs vals c).enc = c.enc := by
  induction specs generalizing vals c with
  | nil => cases vals <;> rfl
  | cons s ss ih =>
    cases vals with
    | nil => rfl
    | cons v vs =>
      simp only [List.all_cons, Bool.and_eq_true, setsEnc, Bool.not_eq_true', decide_eq_false_iff_not] at h
      simp only [frameCtx]
      rw [ih vs _ h.2, ctxUpdate_enc c s.name v h.1]

theorem frameCtx_aspi (specs : List FieldSpec) (vals : List Val) (c : Ctx)
    (h : specs.all (fun x => !setsAspi x) = true) :
    (frameCtx specs vals c).aspiN = c.aspiN ∧ (frameCtx specs vals c).aspiB = c.aspiB := by
  induction specs generalizing vals c with
  | nil => cases vals <;> exact ⟨rfl, rfl⟩
  | cons s ss ih =>
    cases vals with
    | nil => exact ⟨rfl, rfl⟩
    | cons v vs =>
      simp only [List.all_cons, Bool.and_eq_true, setsAspi, Bool.not_eq_true', Bool.or_eq_false_iff,
        decide_eq_false_iff_not] at h
      simp only [frameCtx]
      have h0 := ctxUpdate_aspi c s.name v h.1.1 h.1.2
      have h1 := ih vs (ctxUpdate c s.name v) h.2
      exact ⟨h1.1.trans h0.1, h1.2.trans h0.2⟩

theorem ctxUpdate_norm (c : Ctx) (s : FieldSpec) (v : Val)
    (h : (s.kind == .volPeak) = true → setsEnc s = false ∧ setsAspi s = false) :
    ctxUpdate c s.name (normVal s.kind v) = ctxUpdate c s.name v := by
  by_cases hk : s.kind = .volPeak
  · have := h (by simp [hk])
    simp only [setsEnc, setsAspi, decide_eq_false_iff_not, Bool.or_eq_false_iff] at this
    obtain ⟨h1, h2, h3⟩ := this
    rw [hk]
    cases v with
    | int i => simp [normVal, ctxUpdate, h1, h2, h3]
    | _ => rfl
  · have : normVal s.kind v = v := by
      unfold normVal
      split
      · rename_i hk'; exact absurd hk' hk
      · rfl
    rw [this]

/-- THE induction over the spec list: the values written one after the other (`writeOpt`:
as many as there are values) are read back by the optional-spec reader, which stops when
the data is used up. -/
theorem readOpt_writeOpt (E : Env) (specs : List FieldSpec) :
    ∀ (vals : List Val) (cr cw : Ctx), vals.length ≤ specs.length → structOK specs = true →
      FieldsValid E cr specs vals →
      (∀ hlt : vals.length < specs.length, handleNoData (specs[vals.length]).kind = false) →
      cw = frameCtx specs vals cr →
      ∃ b, writeOpt E.subw E.cfg cw specs vals = .ok b ∧
        readOpt E.sub E.h cr specs b = .ok (normVals specs vals, []) := by
  induction specs with
  | nil =>
    intro vals cr cw hlen _ _ _ _
    cases vals with
    | nil => exact ⟨[], by simp [writeOpt], by simp [readOpt, normVals]⟩
    | cons _ _ => simp at hlen
  | cons s ss ih =>
    intro vals cr cw hlen hst hval hcomp hcw
    cases vals with
    | nil =>
      have hnd := hcomp (by simp)
      simp only [List.length_nil, List.getElem_cons_zero] at hnd
      exact ⟨[], by simp [writeOpt], by simp [readOpt, hnd, normVals]⟩
    | cons v vs =>
      simp only [structOK, Bool.and_eq_true, Bool.or_eq_true, Bool.not_eq_true'] at hst
      obtain ⟨⟨⟨⟨hgr, henc⟩, haspi⟩, hpk⟩, hst'⟩ := hst
      obtain ⟨hv, hvals⟩ := hval
      have hnorm : ctxUpdate cr s.name (normVal s.kind v) = ctxUpdate cr s.name v := by
        apply ctxUpdate_norm
        intro hk
        rcases hpk with hpk | hpk
        · rw [hk] at hpk; cases hpk
        · simpa using hpk
      have hcw' : cw = frameCtx ss vs (ctxUpdate cr s.name (normVal s.kind v)) := by
        rw [hnorm, hcw]; rfl
      have hlen' : vs.length ≤ ss.length := by simpa using hlen
      have hcomp' : ∀ hlt : vs.length < ss.length, handleNoData (ss[vs.length]).kind = false := by
        intro hlt
        have := hcomp (by simpa using hlt)
        simpa using this
      obtain ⟨bs, hbs, hrs⟩ := ih vs _ cw hlen' hst' hvals hcomp' hcw'
      -- what follows this spec
      have hrest : RestOK E.h s.kind bs := by
        intro hg
        rcases hgr with hgr | hgr
        · rw [hg] at hgr; cases hgr
        · have : ss = [] := by simpa using hgr
          subst this
          have : vs = [] := by cases vs with
            | nil => rfl
            | cons _ _ => simp at hlen'
          subst this
          simpa [writeOpt] using hbs.symm
      obtain ⟨b, hb, hr, hne⟩ := read_write E cr s.kind v hv bs hrest
      -- the writer sees the final attributes; they agree with the ones read so far where used
      have hcong : writeSpec E.subw E.cfg s.kind cw v = writeSpec E.subw E.cfg s.kind cr v := by
        apply writeSpec_congr
        · intro hu
          rcases henc with henc | henc
          · rw [hu] at henc; cases henc
          · rw [hcw]; exact frameCtx_enc (s :: ss) (v :: vs) cr henc
        · intro hu
          rcases haspi with haspi | haspi
          · rw [hu] at haspi; cases haspi
          · rw [hcw]; exact frameCtx_aspi (s :: ss) (v :: vs) cr haspi
      refine ⟨b ++ bs, by simp [writeOpt, hcong, hb, hbs], ?_⟩
      have hgo : (!(b ++ bs).isEmpty || handleNoData s.kind) = true := by
        cases hh : handleNoData s.kind with
        | true => simp
        | false =>
          have := hne hh
          cases b with
          | nil => exact absurd rfl this
          | cons _ _ => simp
      simp only [readOpt, hgo, ↓reduceIte, hr, hrs, normVals]

/-! ### `_writeData` / `_readData` split the list into required and optional specs -/

theorem writeReq_writeOpt (subw : Cfg → List Val → Except PyErr Bytes) (cfg : Cfg) (c : Ctx)
    (req opt : List FieldSpec) :
    ∀ (vals : List Val) (B : Bytes), req.length ≤ vals.length →
      writeOpt subw cfg c (req ++ opt) vals = .ok B →
      ∃ b bo, writeReq subw cfg c req vals = .ok (b, vals.drop req.length) ∧
        writeOpt subw cfg c opt (vals.drop req.length) = .ok bo ∧ B = b ++ bo := by
  induction req with
  | nil =>
    intro vals B _ h
    exact ⟨[], B, by simp [writeReq], by simpa using h, by simp⟩
  | cons s ss ih =>
    intro vals B hlen h
    cases vals with
    | nil => simp at hlen
    | cons v vs =>
      simp only [List.cons_append, writeOpt] at h
      cases hw : writeSpec subw cfg s.kind c v with
      | error e => simp [hw] at h
      | ok b1 =>
        simp only [hw] at h
        cases hw2 : writeOpt subw cfg c (ss ++ opt) vs with
        | error e => simp [hw2] at h
        | ok bs =>
          simp only [hw2, Except.ok.injEq] at h
          obtain ⟨b, bo, h1, h2, h3⟩ := ih vs bs (by simpa using hlen) hw2
          refine ⟨b1 ++ b, bo, ?_, by simpa using h2, by rw [← h, h3]; simp⟩
          simp [writeReq, hw, h1]

theorem readReq_readOpt (sub : Hdr → Bytes → Except PyErr (List Val × Bytes)) (h : Hdr)
    (req opt : List FieldSpec) :
    ∀ (c : Ctx) (d : Bytes) (vs : List Val) (d' : Bytes), req.length ≤ vs.length →
      readOpt sub h c (req ++ opt) d = .ok (vs, d') →
      ∃ vs1 vs2 dm c1, readReq sub h c req d = .ok (vs1, dm, c1) ∧
        readOpt sub h c1 opt dm = .ok (vs2, d') ∧ vs = vs1 ++ vs2 := by
  induction req with
  | nil =>
    intro c d vs d' _ hr
    exact ⟨[], vs, d, c, by simp [readReq], by simpa using hr, by simp⟩
  | cons s ss ih =>
    intro c d vs d' hlen hr
    simp only [List.cons_append, readOpt] at hr
    by_cases hgo : (!d.isEmpty || handleNoData s.kind) = true
    · simp only [hgo, ↓reduceIte] at hr
      cases hrs : readSpec sub h s.kind c d with
      | error e => simp [hrs] at hr
      | ok r =>
        obtain ⟨v, d1⟩ := r
        simp only [hrs] at hr
        cases hro : readOpt sub h (ctxUpdate c s.name v) (ss ++ opt) d1 with
        | error e => simp [hro] at hr
        | ok r2 =>
          obtain ⟨vs', d2⟩ := r2
          simp only [hro, Except.ok.injEq, Prod.mk.injEq] at hr
          obtain ⟨hvs, hd⟩ := hr
          subst hvs; subst hd
          obtain ⟨vs1, vs2, dm, c1, h1, h2, h3⟩ := ih _ d1 vs' d2 (by simpa using hlen) hro
          exact ⟨v :: vs1, vs2, dm, c1, by simp [readReq, hgo, hrs, h1], h2, by simp [h3]⟩
    · simp only [hgo] at hr
      simp at hr
      obtain ⟨hvs, _⟩ := hr
      subst hvs
      simp at hlen

theorem length_normVals (specs : List FieldSpec) (vals : List Val) (h : vals.length ≤ specs.length) :
    (normVals specs vals).length = vals.length := by
  induction specs generalizing vals with
  | nil => cases vals with
    | nil => rfl
    | cons _ _ => simp at h
  | cons s ss ih =>
    cases vals with
    | nil => rfl
    | cons v vs => simp [normVals, ih vs (by simpa using h)]

/-- frame-level round trip (`Frame._writeData` then `Frame._readData`), proved by
`readOpt_writeOpt` (induction over the spec list).  `vals'` is what is actually written:
`vals` itself for a v2.4 configuration, the `_get_v23_frame` conversion of `vals` for v2.3. -/
theorem readFrame_writeFrame (E : Env) (cls : FrameClass) (vals vals' : List Val)
    (hpre : (if E.cfg.version = 3 then toV23 E.cfg.sep (cls.required ++ cls.optional) vals else .ok vals) = .ok vals')
    (hstruct : structOK (cls.required ++ cls.optional) = true)
    (hlen1 : cls.required.length ≤ vals'.length) (hlen2 : vals'.length ≤ (cls.required ++ cls.optional).length)
    (hvalid : FieldsValid E (initCtx cls.required {}) (cls.required ++ cls.optional) vals')
    (hcomp : ∀ hlt : vals'.length < (cls.required ++ cls.optional).length,
      handleNoData ((cls.required ++ cls.optional)[vals'.length]).kind = false) :
    ∃ b, writeFrame E.subw E.cfg cls vals = .ok b ∧
      readFrame E.sub E.h cls b = .ok (normVals (cls.required ++ cls.optional) vals', []) := by
  obtain ⟨B, hw, hr⟩ := readOpt_writeOpt E (cls.required ++ cls.optional) vals' (initCtx cls.required {}) _
    hlen2 hstruct hvalid hcomp rfl
  obtain ⟨b, bo, h1, h2, h3⟩ := writeReq_writeOpt E.subw E.cfg _ cls.required cls.optional vals' B hlen1 hw
  obtain ⟨vs1, vs2, dm, c1, r1, r2, r3⟩ := readReq_readOpt E.sub E.h cls.required cls.optional _ B _ []
    (by rw [length_normVals _ _ hlen2]; exact hlen1) hr
  refine ⟨B, ?_, ?_⟩
  · simp only [writeFrame, hpre, h1, h2, h3]
  · simp only [readFrame, r1, r2, r3]

/-- `_get_v23_frame` changes nothing when no separator is configured and every encoding is
Latin-1 or UTF-16 -/
def V23Stable : List FieldSpec → List Val → Prop
  | s :: ss, v :: vs =>
    (s.kind = .encoding → v = .int 0 ∨ v = .int 1) ∧ V23Stable ss vs
  | _, _ => True

theorem toV23_stable (specs : List FieldSpec) (vals : List Val) (hlen : vals.length ≤ specs.length)
    (h : V23Stable specs vals) : toV23 none specs vals = .ok vals := by
  induction specs generalizing vals with
  | nil => cases vals with
    | nil => rfl
    | cons _ _ => simp at hlen
  | cons s ss ih =>
    cases vals with
    | nil => rfl
    | cons v vs =>
      obtain ⟨h1, h2⟩ := h
      have hv : validate23 none s.kind v = .ok v := by
        cases hk : s.kind with
        | encoding =>
          cases v with
          | int i => rcases h1 hk with hv | hv <;> (cases hv; simp [validate23])
          | _ => rfl
        | multi e =>
          cases e with
          | nil => cases v <;> rfl
          | cons tk r =>
            cases r with
            | nil =>
              cases v with
              | list l => by_cases ht : tk = .timeStamp <;> simp [validate23, ht]
              | _ => rfl
            | cons _ _ => cases v <;> rfl
        | _ => cases v <;> rfl
      simp only [toV23, hv, ih vs (by simpa using hlen) h2]

/-! ## input framing: `_fromData` with the unsynchronisation / data-length flags -/

theorem fromDataBytes_plain (h : Hdr) (hu : h.unsynch = false) (d : Bytes) : fromDataBytes h 0 d = d := by
  unfold fromDataBytes
  split
  · simp [hasFlag, FLAG24_COMPRESS, FLAG24_DATALEN, FLAG24_UNSYNCH, hu]
  · rfl

theorem fromDataBytes_unsynch (h : Hdr) (hv : h.version ≥ 4) (d : Bytes) :
    fromDataBytes h FLAG24_UNSYNCH (unsynchEncode d) = d := by
  have := Mutagen.C14.unsynch_roundtrip d
  simp [fromDataBytes, hv, hasFlag, FLAG24_COMPRESS, FLAG24_DATALEN, FLAG24_UNSYNCH, this]

theorem fromDataBytes_datalen (h : Hdr) (hv : h.version ≥ 4) (hu : h.unsynch = false) (l4 d : Bytes)
    (hl : l4.length = 4) : fromDataBytes h FLAG24_DATALEN (l4 ++ d) = d := by
  simp [fromDataBytes, hv, hasFlag, FLAG24_COMPRESS, FLAG24_DATALEN, FLAG24_UNSYNCH, hu, drop_app l4 d 4 hl]

theorem fromDataBytes_unsynch_datalen (h : Hdr) (hv : h.version ≥ 4) (l4 d : Bytes) (hl : l4.length = 4) :
    fromDataBytes h (FLAG24_UNSYNCH + FLAG24_DATALEN) (l4 ++ unsynchEncode d) = d := by
  have := Mutagen.C14.unsynch_roundtrip d
  simp [fromDataBytes, hv, hasFlag, FLAG24_COMPRESS, FLAG24_DATALEN, FLAG24_UNSYNCH, drop_app l4 _ 4 hl, this]

theorem fromData_congr (sub : Hdr → Bytes → Except PyErr (List Val × Bytes)) (h : Hdr) (cls : FrameClass)
    (hv : h.version ≥ 4) (f1 f2 : Nat) (d1 d2 : Bytes)
    (he1 : hasFlag f1 FLAG24_ENCRYPT = false) (hc1 : hasFlag f1 FLAG24_COMPRESS = false)
    (he2 : hasFlag f2 FLAG24_ENCRYPT = false) (hc2 : hasFlag f2 FLAG24_COMPRESS = false)
    (hd : fromDataBytes h f1 d1 = fromDataBytes h f2 d2) :
    fromData sub h cls f1 d1 = fromData sub h cls f2 d2 := by
  have h3 : ¬ h.version = 3 := by omega
  simp only [fromData, hv, ↓reduceIte, he1, hc1, he2, hc2, hd, h3, false_and, Bool.false_eq_true]

theorem structOK_greedy (specs : List FieldSpec) (h : structOK specs = true) (pre : List FieldSpec)
    (s : FieldSpec) (post : List FieldSpec) (he : specs = pre ++ s :: post) (hp : post ≠ []) :
    greedy s.kind = false := by
  induction pre generalizing specs with
  | nil =>
    subst he
    simp only [List.nil_append, structOK, Bool.and_eq_true, Bool.or_eq_true, Bool.not_eq_true'] at h
    rcases h.1.1.1.1 with hg | hg
    · exact hg
    · cases post with
      | nil => exact absurd rfl hp
      | cons _ _ => simp at hg
  | cons p pre ih =>
    subst he
    simp only [List.cons_append, structOK, Bool.and_eq_true] at h
    exact ih _ h.2 rfl


theorem Table.find_mem (tbl : Table) (nb : Bytes) (h : (tbl.find nb).isSome = true) : (tbl.find nb).get! ∈ tbl := by
  cases hf : tbl.find nb with
  | none => simp [hf] at h
  | some c => exact List.mem_of_find?_eq_some hf

end Mutagen.Id3
