/- Proofs/Id3Spec.lean — lemmas for C12: validity predicates and one read/write round-trip
lemma per spec kind of Model/Id3Spec.lean, then the frame-level induction. -/
import MutagenModel.Model.Id3Spec
import MutagenModel.Proofs.Id3Text
import MutagenModel.Proofs.IntCodec
import MutagenModel.Props.C14
set_option linter.unusedVariables false
set_option linter.unusedSimpArgs false
namespace Mutagen.Id3
open Mutagen

/-! ## integers -/

theorem bchr_ok (n : Nat) (h : n < 256) : bchr (n : Int) = .ok [b8 n] := by
  have h1 : (0 : Int) ≤ (n : Int) := by omega
  have h2 : (n : Int) < 256 := by omega
  simp [bchr, h1, h2]

theorem pow256 (n : Nat) : 2 ^ (8 * n) = 256 ^ n := by
  rw [Nat.pow_mul]

theorem ofBE_eq_bpFromBytes (b : Bytes) : bpFromBytes 8 true b = ofBE b := by
  simp only [bpFromBytes, ofBE, ↓reduceIte]
  generalize b.reverse = l
  induction l with
  | nil => simp [fromLE, ofLE]
  | cons x r ih =>
    simp only [List.map_cons, fromLE, ofLE, ih]
    have := x.toNat_lt
    omega

/-- `packU w` / `ofBE` -/
theorem packU_ok (w n : Nat) (h : n < 256 ^ w) : packU w (n : Int) = .ok (toBE w n) := by
  have h1 : (0 : Int) ≤ (n : Int) := by omega
  have h2 : (n : Int) < ((256 ^ w : Nat) : Int) := by exact_mod_cast h
  unfold packU
  rw [if_pos ⟨h1, h2⟩]
  simp

theorem pow256_pos (w : Nat) : 0 < 256 ^ w := Nat.pow_pos (by decide)

theorem pow256_even (w : Nat) (hw : 0 < w) : 256 ^ w / 2 * 2 = 256 ^ w := by
  cases w with
  | zero => omega
  | succ k =>
    rw [Nat.pow_succ]
    omega

/-- `struct.pack(">b/h")` followed by unpack gives the value back -/
theorem ofSignedBE_toSignedBE (w : Nat) (hw : 0 < w) (i : Int)
    (h1 : -((256 ^ w / 2 : Nat) : Int) ≤ i) (h2 : i < ((256 ^ w / 2 : Nat) : Int)) :
    ofSignedBE (toSignedBE w i) = i := by
  have hp := pow256_pos w
  have he := pow256_even w hw
  unfold toSignedBE ofSignedBE
  by_cases hneg : i < 0
  · have hlt : 256 ^ w - (-i).toNat < 256 ^ w := by omega
    simp only [hneg, ↓reduceIte, length_toBE, ofBE_toBE w _ hlt]
    have : 2 * (256 ^ w - (-i).toNat) ≥ 256 ^ w := by omega
    simp only [this, ↓reduceIte]
    omega
  · have hlt : i.toNat < 256 ^ w := by omega
    simp only [hneg, ↓reduceIte, length_toBE, ofBE_toBE w _ hlt]
    have : ¬ (2 * i.toNat ≥ 256 ^ w) := by omega
    simp only [this, ↓reduceIte]
    omega

theorem packS_ok (w : Nat) (i : Int)
    (h1 : -((256 ^ w / 2 : Nat) : Int) ≤ i) (h2 : i < ((256 ^ w / 2 : Nat) : Int)) :
    packS w i = .ok (toSignedBE w i) := by
  unfold packS
  rw [if_pos ⟨h1, h2⟩]

@[simp] theorem length_toSignedBE (w : Nat) (i : Int) : (toSignedBE w i).length = w := by
  simp [toSignedBE]

/-! ## validity of text -/

/-- text that survives encoding `enc`: no U+0000 (it is the terminator); Latin-1: code
points ≤ 0xFF; UTF-8 / UTF-16: Unicode scalar values -/
def TextOK (enc : Nat) (t : Text) : Prop :=
  ∀ x ∈ t, x ≠ 0 ∧ (if enc = 0 then x < 256 else isScalar x = true)

theorem TextOK.tail {enc : Nat} {x : Nat} {r : Text} (h : TextOK enc (x :: r)) : TextOK enc r :=
  fun y hy => h y (by simp [hy])

theorem allZero_false_of_mem (b : Bytes) (y : UInt8) (hy : y ∈ b) (h0 : y ≠ 0) : allZero b = false := by
  simp only [allZero, List.all_eq_false]
  exact ⟨y, hy, by simpa using h0⟩

theorem allZero_append_left (a b : Bytes) (h : allZero a = false) : allZero (a ++ b) = false := by
  simp only [allZero, List.all_eq_false] at *
  obtain ⟨y, hy, h0⟩ := h
  exact ⟨y, by simp [hy], h0⟩

/-- what `encode_endian` produces for valid text, and that `decode_terminated` undoes it -/
theorem decodeTerminated_encode (enc : Nat) (henc : enc ≤ 3) (t : Text) (ht : TextOK enc t)
    (strict : Bool) (rest : Bytes) :
    ∃ b tm, encodeText enc t = .ok b ∧ termOf enc = .ok tm ∧
      decodeTerminated enc strict (b ++ tm ++ rest) = .ok (t, rest) ∧ tm ≠ [] := by
  have h4 : enc = 0 ∨ enc = 1 ∨ enc = 2 ∨ enc = 3 := by omega
  rcases h4 with rfl | rfl | rfl | rfl
  · -- Latin-1
    have hl : ∀ x ∈ t, x < 256 := fun x hx => by simpa using (ht x hx).2
    have hz : ∀ y ∈ t.map b8, y ≠ 0 := map_b8_ne_zero t (fun x hx => ⟨hl x hx, (ht x hx).1⟩)
    refine ⟨t.map b8, [0], by simp [encodeText, latin1Encode_ok t hl], rfl, ?_, by simp⟩
    have := splitNul_append (t.map b8) rest hz
    simp [decodeTerminated, this, finishTerminated, latin1Decode_map t hl]
  · -- UTF-16 with BOM
    have hs : ∀ x ∈ t, isScalar x = true ∧ x ≠ 0 := fun x hx => ⟨by simpa using (ht x hx).2, (ht x hx).1⟩
    refine ⟨0xFF :: 0xFE :: utf16EncodeRaw false t, [0, 0],
      by simp [encodeText, utf16Encode_ok false t (fun x hx => (hs x hx).1)], rfl, ?_, by simp⟩
    have := utf16Scan_encodeRaw_term false t hs rest
    simp [decodeTerminated, this, finishTerminated]
  · -- UTF-16BE
    have hs : ∀ x ∈ t, isScalar x = true ∧ x ≠ 0 := fun x hx => ⟨by simpa using (ht x hx).2, (ht x hx).1⟩
    refine ⟨utf16EncodeRaw true t, [0, 0],
      by simp [encodeText, utf16Encode_ok true t (fun x hx => (hs x hx).1)], rfl, ?_, by simp⟩
    have := utf16Scan_encodeRaw_term true t hs rest
    simp [decodeTerminated, this, finishTerminated]
  · -- UTF-8
    have hs : ∀ x ∈ t, isScalar x = true ∧ x ≠ 0 := fun x hx => ⟨by simpa using (ht x hx).2, (ht x hx).1⟩
    have hz := utf8EncodeRaw_ne_zero t hs
    refine ⟨utf8EncodeRaw t, [0], by simp [encodeText, utf8Encode_ok t (fun x hx => (hs x hx).1)], rfl, ?_, by simp⟩
    have := splitNul_append (utf8EncodeRaw t) rest hz
    simp [decodeTerminated, this, finishTerminated, utf8Decode_encodeRaw t (fun x hx => (hs x hx).1)]

theorem textFixups_head (enc : Nat) (data : Bytes) : ∃ tl, textFixups enc data = data :: tl := by
  unfold textFixups
  split
  · exact ⟨_, rfl⟩
  · split <;> exact ⟨_, rfl⟩

theorem encNat_le (e : Int) (enc : Nat) (h : encNat e = .ok enc) : enc ≤ 3 := by
  unfold encNat at h
  split at h
  · cases h; omega
  · split at h
    · cases h; omega
    · split at h
      · cases h; omega
      · split at h
        · cases h; omega
        · cases h

theorem ctxEnc_le (c : Ctx) (enc : Nat) (h : ctxEnc c = .ok enc) : enc ≤ 3 := by
  unfold ctxEnc at h
  split at h
  · cases h
  · exact encNat_le _ _ h

/-- the tail condition of `EncodedTextSpec.read` under a v2.2/v2.3 header: what follows the
text must be empty or contain a non-NUL byte, otherwise it is dropped -/
def TailOK (h : Hdr) (rest : Bytes) : Prop := h.version < 4 → rest = [] ∨ allZero rest = false

theorem tailFix (h : Hdr) (rest : Bytes) (ht : TailOK h rest) :
    (if decide (h.version < 4) && allZero rest then ([] : Bytes) else rest) = rest := by
  by_cases hv : h.version < 4
  · rcases ht hv with rfl | hz
    · simp
    · simp [hz]
  · simp [hv]

/-- EncodedTextSpec: valid text written under encoding `enc` (any of the four) and followed
by `rest` is read back, and `rest` is left -/
theorem readEncText_write (h : Hdr) (c : Ctx) (enc : Nat) (hc : ctxEnc c = .ok enc) (t : Text)
    (ht : TextOK enc t) (rest : Bytes) (htail : TailOK h rest) :
    ∃ b, writeEncText c t = .ok b ∧ readEncText h c (b ++ rest) = .ok (t, rest) ∧ b ≠ [] := by
  obtain ⟨b, tm, hb, htm, hdec, hne⟩ := decodeTerminated_encode enc (ctxEnc_le c enc hc) t ht false rest
  refine ⟨b ++ tm, by simp [writeEncText, hc, hb, htm], ?_, by simp [hne]⟩
  obtain ⟨tl, htl⟩ := textFixups_head enc (b ++ tm ++ rest)
  simp only [readEncText, hc, htl, tryDecode, hdec, tailFix h rest htail]

/-- the bytes written for a non-empty valid text are not all NUL, whatever follows -/
theorem writeEncText_not_allZero (c : Ctx) (enc : Nat) (hc : ctxEnc c = .ok enc) (t : Text)
    (ht : TextOK enc t) (hne : t ≠ []) (b : Bytes) (hb : writeEncText c t = .ok b) (rest : Bytes) :
    allZero (b ++ rest) = false := by
  apply allZero_append_left
  have h4 : enc = 0 ∨ enc = 1 ∨ enc = 2 ∨ enc = 3 := by have := ctxEnc_le c enc hc; omega
  cases t with
  | nil => exact absurd rfl hne
  | cons x r =>
    have hx := ht x (by simp)
    rcases h4 with rfl | rfl | rfl | rfl
    · have hl : ∀ y ∈ x :: r, y < 256 := fun y hy => by simpa using (ht y hy).2
      simp [writeEncText, hc, encodeText, latin1Encode_ok _ hl, termOf] at hb
      subst hb
      exact allZero_false_of_mem _ (b8 x) (by simp) (b8_ne_zero x (hl x (by simp)) hx.1)
    · have hs : ∀ y ∈ x :: r, isScalar y = true := fun y hy => by simpa using (ht y hy).2
      simp [writeEncText, hc, encodeText, utf16Encode_ok false _ hs, termOf] at hb
      subst hb
      exact allZero_false_of_mem _ 0xFF (by simp) (by decide)
    · have hs : ∀ y ∈ x :: r, isScalar y = true := fun y hy => by simpa using (ht y hy).2
      simp [writeEncText, hc, encodeText, utf16Encode_ok true _ hs, termOf] at hb
      subst hb
      obtain ⟨s1, s2⟩ := (isScalar_iff x).mp (hs x (by simp))
      -- the first code unit of `x` is non-zero, so one of its two bytes is
      by_cases hlt : x < 0x10000
      · by_cases hhi : x / 256 = 0
        · refine allZero_false_of_mem _ (b8 (x % 256)) ?_ (b8_ne_zero _ (by omega) (by omega))
          simp [utf16EncodeRaw, utf16Units, hlt, unitsBytes, unitBytes]
        · refine allZero_false_of_mem _ (b8 (x / 256)) ?_ (b8_ne_zero _ (by omega) hhi)
          simp [utf16EncodeRaw, utf16Units, hlt, unitsBytes, unitBytes]
      · refine allZero_false_of_mem _ (b8 ((0xD800 + (x - 0x10000) / 0x400) / 256)) ?_
          (b8_ne_zero _ (by omega) (by omega))
        simp [utf16EncodeRaw, utf16Units, hlt, unitsBytes, unitBytes]
    · have hs : ∀ y ∈ x :: r, isScalar y = true := fun y hy => by simpa using (ht y hy).2
      simp [writeEncText, hc, encodeText, utf8Encode_ok _ hs, termOf] at hb
      subst hb
      have hz := utf8Enc1_ne_zero x (hs x (by simp)) hx.1
      have hmem : ∃ y, y ∈ utf8Enc1 x := by
        unfold utf8Enc1
        split
        · exact ⟨_, List.mem_cons_self⟩
        · split
          · exact ⟨_, List.mem_cons_self⟩
          · split <;> exact ⟨_, List.mem_cons_self⟩
      obtain ⟨y, hy⟩ := hmem
      exact allZero_false_of_mem _ y (by simp [utf8EncodeRaw, hy]) (hz y hy)

end Mutagen.Id3
