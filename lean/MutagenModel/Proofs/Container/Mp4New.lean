/- Proofs/Container/Mp4New.lean — `__save_new` on layouts: a `moov` without `udta`, a `moov.udta` without `meta.ilst` -/
import MutagenModel.Proofs.Container.Mp4Patched
set_option linter.unusedVariables false
namespace Mutagen.Mp4C
open Mutagen

theorem child?_none_of_noName (l : List Atom) (nm : Bytes) (h : noName l nm) (base : Nat) : child? (annotList base l) nm = none := by
  have := child?_skip l nm h base []
  simpa [child?] using this

theorem annot_dataoffset (n : Bytes) (w : Bool) (s : Bytes) (cs : List Atom) (pos : Nat) :
    ((Atom.node n w s cs).annot pos).dataoffset = pos + hdrLen w := by
  simp [Atom.annot, PAtom.dataoffset]

theorem fill_frame_wf {fr : Frame} {r : List Frame} {h : Hole} {mid : List Atom} (hw : wfList (fill (fr :: r) h mid)) :
    fr.skip.length = skipSize fr.name ∧ wfList (fill r h mid) := by
  simp only [fill, wfList_append, wfList, Atom.wf, and_true] at hw
  exact ⟨hw.1.2.2.2.1, hw.1.2.2.2.2.2⟩

theorem skip_moov : skipSize nMoov = 0 := by decide
theorem skip_udta : skipSize nUdta = 0 := by decide

/-- the region of `__save_new`: nothing is replaced, the new atoms go to the start of the innermost frame's children,
and the frames are the atoms whose sizes change -/
theorem regionOf_new (N : NewLayout) (hok : N.OK) :
    regionOf (annotList 0 N.top) = some { offset := N.offset, length := 0, parents := frameAtoms 0 N.frames N.hole [] } ∧
    (path? (annotList 0 N.top) ilstPath).isSome = false ∧
    (∃ fr, (frameAtoms 0 N.frames N.hole []).getLast? = some fr ∧ (fr.name = nUdta ↔ N.frames.length = 2)) := by
  obtain ⟨hwf, hdep, hcase⟩ := hok
  rcases hcase with ⟨hfr, hno⟩ | ⟨hfr, hno⟩
  · -- moov without udta
    match hF : N.frames, hfr with
    | [f1], hfr =>
      simp only [framesNamed] at hfr
      have hsk : f1.skip.length = 0 := by
        have := (fill_frame_wf (fr := f1) (r := []) (h := N.hole) (mid := []) (by unfold NewLayout.top at hwf; rw [hF] at hwf; exact hwf)).1
        rw [this, hfr.1, skip_moov]
      have hfrn : framesNamed [f1] [nMoov] := by simp only [framesNamed]; exact ⟨hfr.1, hfr.2.1, trivial⟩
      have hkids : ∀ rest, path? (annotList (innerBase 0 [f1]) (N.hole.pre ++ [] ++ N.hole.post)) (nUdta :: rest) = none := by
        intro rest
        simp only [NewLayout.hole, List.nil_append, path?]
        rw [child?_none_of_noName N.kids nUdta hno]
      have p4 : path? (annotList 0 (fill [f1] N.hole [])) [nMoov, nUdta, nMeta, nIlst] = none := by
        have := path?_fill [f1] [nMoov] [nUdta, nMeta, nIlst] N.hole [] 0 hfrn
        rw [show ([nMoov] ++ [nUdta, nMeta, nIlst] : List Bytes) = [nMoov, nUdta, nMeta, nIlst] from rfl] at this
        rw [this, hkids]; rfl
      have p2 : path? (annotList 0 (fill [f1] N.hole [])) [nMoov, nUdta] = none := by
        have := path?_fill [f1] [nMoov] [nUdta] N.hole [] 0 hfrn
        rw [show ([nMoov] ++ [nUdta] : List Bytes) = [nMoov, nUdta] from rfl] at this
        rw [this, hkids]; rfl
      have p1 : path? (annotList 0 (fill [f1] N.hole [])) [nMoov] = some (frameAtoms 0 [f1] N.hole []) := by
        have := path?_fill [f1] [nMoov] [] N.hole [] 0 hfrn
        rw [show ([nMoov] ++ [] : List Bytes) = [nMoov] from rfl] at this
        rw [this]; simp [path?]
      unfold regionOf NewLayout.top NewLayout.offset ilstPath
      rw [hF]
      refine ⟨?_, ?_, ?_⟩
      · have hpre : N.hole.pre = [] := rfl
        simp only [p4, p2, p1, frameAtoms, holeOffset, hpre, sizeList, Nat.add_zero, annot_dataoffset, hsk]
      · simp only [p4, Option.isSome_none]
      · refine ⟨(Atom.node f1.name f1.wide f1.skip (fill [] N.hole [])).annot (0 + sizeList f1.pre), rfl, ?_⟩
        rw [annot_name]
        simp only [Atom.name, hfr.1, List.length_singleton]
        constructor
        · intro h; exact absurd h (by decide)
        · intro h; cases h
  · match hF : N.frames, hfr with
    | [f1, f2], hfr =>
      simp only [framesNamed] at hfr
      have hwf1 : wfList (fill (f1 :: [f2]) N.hole []) := by unfold NewLayout.top at hwf; rw [hF] at hwf; exact hwf
      have hsk2 : f2.skip.length = 0 := by
        have := (fill_frame_wf (fill_frame_wf hwf1).2).1
        rw [this, hfr.2.2.1, skip_udta]
      have hfrn : framesNamed [f1, f2] [nMoov, nUdta] := by
        simp only [framesNamed]; exact ⟨hfr.1, hfr.2.1, hfr.2.2.1, hfr.2.2.2.1, trivial⟩
      rw [hF] at hno
      have hnone : path? (annotList (innerBase 0 [f1, f2]) (N.hole.pre ++ [] ++ N.hole.post)) [nMeta, nIlst] = none := by
        simp only [NewLayout.hole, List.nil_append]
        cases hq : path? (annotList (innerBase 0 [f1, f2]) N.kids) [nMeta, nIlst] with
        | none => rfl
        | some l => rw [hq] at hno; simp at hno
      have p4 : path? (annotList 0 (fill [f1, f2] N.hole [])) [nMoov, nUdta, nMeta, nIlst] = none := by
        have := path?_fill [f1, f2] [nMoov, nUdta] [nMeta, nIlst] N.hole [] 0 hfrn
        rw [show ([nMoov, nUdta] ++ [nMeta, nIlst] : List Bytes) = [nMoov, nUdta, nMeta, nIlst] from rfl] at this
        rw [this, hnone]; rfl
      have p2 : path? (annotList 0 (fill [f1, f2] N.hole [])) [nMoov, nUdta] = some (frameAtoms 0 [f1, f2] N.hole []) := by
        have := path?_fill [f1, f2] [nMoov, nUdta] [] N.hole [] 0 hfrn
        rw [show ([nMoov, nUdta] ++ [] : List Bytes) = [nMoov, nUdta] from rfl] at this
        rw [this]; simp [path?]
      unfold regionOf NewLayout.top NewLayout.offset ilstPath
      rw [hF]
      refine ⟨?_, ?_, ?_⟩
      · have hpre : N.hole.pre = [] := rfl
        simp only [p4, p2, frameAtoms, holeOffset, hpre, sizeList, Nat.add_zero, annot_dataoffset, hsk2]
      · simp only [p4, Option.isSome_none]
      · refine ⟨(Atom.node f2.name f2.wide f2.skip (fill [] N.hole [])).annot
          (0 + sizeList f1.pre + hdrLen f1.wide + f1.skip.length + sizeList f2.pre), rfl, ?_⟩
        rw [annot_name]
        simp [Atom.name, hfr.2.2.1]

theorem renderAtom_node (n s : Bytes) (cs : List Atom) (h : (Atom.node n false s cs).wf) :
    renderAtom n (s ++ renderList cs) = (Atom.node n false s cs).render := by
  simp only [Atom.wf] at h
  obtain ⟨_, _, _, hfit, hcs⟩ := h
  have hl := length_renderList cs hcs
  simp only [Bool.false_eq_true, ↓reduceIte, hdrLen] at hfit
  unfold renderAtom
  have hc : (s ++ renderList cs).length + 8 ≤ 0xFFFFFFFF := by simp [hl]; omega
  rw [if_pos hc]
  have e : (s ++ renderList cs).length + 8 = hdrLen false + s.length + sizeList cs := by
    simp only [List.length_append, hl, hdrLen]; simp; omega
  rw [e]
  simp only [Atom.render, header, Bool.false_eq_true, ↓reduceIte, List.append_assoc]

theorem hdlrAtom_eq : hdlrAtom = hdlrLeaf.render := by decide

/-- what `__save_new` inserts is the rendering of the new atoms (when they fit 32-bit size fields) -/
theorem newData_render (N : NewLayout) (items : List Atom) (pad : PadChoice) (hfit : wfList (N.saved items pad))
    (fr : PAtom) (parents : List PAtom) (hlast : parents.getLast? = some fr) (hname : fr.name = nUdta ↔ N.frames.length = 2) :
    newData (ilstData items) pad (N.render.length - N.offset) parents = renderList (N.newAtoms items pad) := by
  have hmid := (framesOk_of_wf N.frames N.hole (N.newAtoms items pad) hfit).2
  unfold newData
  simp only [hlast]
  have hmeta : ∀ (hm : (newMeta items (N.newPadding items pad)).wf),
      renderAtom nMeta (zeros 4 ++ hdlrAtom ++ ilstData items ++ freeAtom (getPadding pad
        (-(((zeros 4 ++ hdlrAtom ++ ilstData items).length : Nat) : Int)) (N.render.length - N.offset))) =
        (newMeta items (N.newPadding items pad)).render := by
    intro hm
    rw [freeAtom_render, hdlrAtom_eq]
    have := renderAtom_node nMeta (zeros 4) _ hm
    simp only [renderList, List.append_nil, ilstData, NewLayout.newPadding, hdlrAtom_eq, List.append_assoc] at this ⊢
    exact this
  unfold NewLayout.newAtoms at hmid ⊢
  by_cases h2 : N.frames.length = 2
  · simp only [h2, ↓reduceIte] at hmid ⊢
    simp only [wfList] at hmid
    have : ¬ (fr.name ≠ nUdta) := by simp [hname.mpr h2]
    rw [if_neg this, hmeta hmid.1]
    simp [renderList]
  · simp only [h2, ↓reduceIte] at hmid ⊢
    simp only [wfList] at hmid
    have hne : fr.name ≠ nUdta := fun h => h2 (hname.mp h)
    rw [if_pos hne]
    have hu := hmid.1
    have hm : (newMeta items (N.newPadding items pad)).wf := by
      simp only [Atom.wf, wfList] at hu; exact hu.2.2.2.2.1
    rw [hmeta hm]
    have := renderAtom_node nUdta [] _ hu
    simp only [renderList, List.append_nil, List.nil_append] at this ⊢
    exact this

/-- `MP4Tags.save` (`__save_new`) on a file without tags, all of it: the new `meta` (inside a new `udta` when `moov` has
none) is inserted in front of the other children, the size fields of `moov` (and `udta`) hold their new extents, and the
visited offset tables are patched; the result is a well-formed tree the strict walker reads back -/
theorem saveTags_new (mem : Bool) (N : NewLayout) (hok : N.OK) (items : List Atom) (pad : PadChoice)
    (hfit : wfList (N.saved items pad)) (htab : N.TablesOK items pad) :
    saveTags mem N.render (ilstData items) pad = (none, renderList (N.savedPatched items pad)) ∧
      wfList (N.savedPatched items pad) ∧ walk (renderList (N.savedPatched items pad)) = some (N.savedPatched items pad) ∧
      sizeList (N.savedPatched items pad) = sizeList N.top + sizeList (N.newAtoms items pad) := by
  obtain ⟨hR, hnone, fr, hlast, hname⟩ := regionOf_new N hok
  obtain ⟨hwf, hdep, _⟩ := hok
  have hlen : N.render.length = lenIn N.frames N.hole 0 := by
    unfold NewLayout.render NewLayout.top at *
    rw [length_renderList _ hwf, sizeList_fill]; rfl
  have hin : ¬ N.render.length < N.offset := by
    have := holeOffset_le N.frames N.hole 0 0
    unfold NewLayout.offset; rw [hlen]; omega
  have hin0 : ¬ N.render.length < N.offset + 0 := by omega
  have hsteps0 : saveTags mem N.render (ilstData items) pad =
      runSteps (parentSteps (frameAtoms 0 N.frames N.hole []) ((sizeList (N.newAtoms items pad) : Int) - (0 : Nat)) ++
        offsetSteps (annotList 0 N.top) ((sizeList (N.newAtoms items pad) : Int) - (0 : Nat)) N.offset 0)
        (splice N.render N.offset 0 (renderList (N.newAtoms items pad))) := by
    unfold saveTags
    rw [show parse N.render = .ok (annotList 0 N.top) from parse_render N.top hwf hdep]
    simp only [hR, hnone, Bool.false_eq_true, ↓reduceIte, hin]
    rw [saveAtZ_eq_saveAt, newData_render N items pad hfit fr _ hlast hname]
    unfold saveAt
    have hml := (framesOk_of_wf N.frames N.hole (N.newAtoms items pad) hfit).2
    simp only [hin0, ↓reduceIte, length_renderList _ hml]
  have hpos : (sizeList (N.newAtoms items pad) : Int) - (0 : Nat) ≠ 0 := by
    have : 8 ≤ sizeList (N.newAtoms items pad) := by
      unfold NewLayout.newAtoms
      split <;> simp only [sizeList, Nat.add_zero] <;> exact Atom.size_ge _
    omega
  have hps := parent_sizes_within N.frames N.hole [] (N.newAtoms items pad) [] [] hwf hfit
  simp only [List.nil_append, List.append_nil, List.length_nil, renderList, sizeList] at hps
  have hoffs : (frameAtoms 0 N.frames N.hole []).map (·.offset) = frameOffsets 0 N.frames := frameAtoms_offsets _ _ _ _
  rw [← hoffs] at hps
  have hpar := parentSteps_updateParents (frameAtoms 0 N.frames N.hole []) _ hpos _ _ hps
  have hmoov : ∃ m, child? (annotList 0 N.top) nMoov = some m := by
    cases hc : child? (annotList 0 N.top) nMoov with
    | some m => exact ⟨m, rfl⟩
    | none =>
      exfalso
      unfold regionOf at hR
      simp only [path?, hc] at hR
      cases hR
  obtain ⟨m, hm⟩ := hmoov
  have hdelta : N.delta items pad = (sizeList (N.newAtoms items pad) : Int) - (0 : Nat) := by
    unfold NewLayout.delta; simp
  have hsteps : offsetSteps (annotList 0 N.top) ((sizeList (N.newAtoms items pad) : Int) - (0 : Nat)) N.offset 0 =
      (N.visitedTables items pad).map (tableStep (N.delta items pad) N.offset) := by
    unfold NewLayout.visitedTables offsetSteps
    rw [hdelta]
    simp only [hpos, ↓reduceIte, hm]
  obtain ⟨h1, h2, h3⟩ := runTables (N.delta items pad) N.offset (N.visitedTables items pad) (N.saved items pad) hfit htab
  refine ⟨?_, h2, walk_render _ h2, ?_⟩
  · rw [hsteps0, runSteps_append, hsteps]
    unfold NewLayout.render NewLayout.top NewLayout.offset
    rw [hpar]
    exact h1
  · unfold NewLayout.savedPatched
    rw [h3]
    unfold NewLayout.saved NewLayout.top
    rw [sizeList_fill, sizeList_fill]
    have := lenIn_shift N.frames N.hole 0 (sizeList (N.newAtoms items pad)) (sizeList (N.newAtoms items pad)) (by simp)
    simp only [sizeList] at this ⊢
    omega

end Mutagen.Mp4C
