/- Proofs/Container/Mp4Cap.lean — MP4Tags.save as a program over the file object: what it leaves on a device with finite
capacity (C19), which exceptions leave it under arbitrary faults (C06), and that it refines the pure model -/
import MutagenModel.Proofs.Container.Mp4Total
import MutagenModel.Proofs.FileOpsCap
import MutagenModel.Proofs.OkAgree
import MutagenModel.Model.Container.Mp4M
set_option linter.unusedVariables false
namespace Mutagen.Mp4C
open Mutagen

/-! ### A. the bookkeeping steps in an environment without injected faults (any capacity) -/

/-- the program `m` does to the file what the pure step `p` does to the bytes: same outcome; on an exception the
bytes are as before the step -/
def StepRefines (e : Env) (m : FileM Unit) (p : Bytes → Except PyErr Bytes) : Prop :=
  ∀ s : FS, (∀ g, p s.data = .ok g → ∃ s', m e s = (.ok (), s') ∧ s'.data = g) ∧
    (∀ x, p s.data = .error x → ∃ s', m e s = (.error x, s') ∧ s'.data = s.data)

theorem length_readAt_le (g : Bytes) (p n : Nat) (h : 0 < (readAt g p n).length) :
    p + (readAt g p n).length ≤ g.length := by
  rw [length_readAt'] at h ⊢; omega

theorem patchSizeM_q {e : Env} (hq : Quiet e) (off : Nat) (delta : Int) :
    StepRefines e (patchSizeM off delta) (fun g => patchSize g off delta) := by
  intro s
  unfold patchSizeM patchSize
  simp only [bind_run, fseek_q hq, fread_q hq]
  generalize hs32 : readAt s.data off 4 = s32
  by_cases h4 : s32.length < 4
  · simp only [h4, ↓reduceIte, raise_run]
    exact ⟨fun g h => (by cases h), fun x h => by cases h; exact ⟨_, rfl, rfl⟩⟩
  · have hl4 : s32.length = 4 := by
      have : s32.length ≤ 4 := by rw [← hs32, length_readAt']; omega
      omega
    have hin : off + 4 ≤ s.data.length := by
      have := length_readAt_le s.data off 4 (by rw [hs32]; omega)
      rw [hs32] at this; omega
    simp only [hl4, Nat.lt_irrefl, ↓reduceIte]
    by_cases h1 : ofBE s32 = 1
    · simp only [h1, ↓reduceIte, bind_run, fread_q hq]
      generalize hr : readAt s.data (off + 4) 12 = r
      by_cases h8 : (List.drop 4 r).length < 8
      · simp only [h8, ↓reduceIte, raise_run]
        exact ⟨fun g h => (by cases h), fun x h => by cases h; exact ⟨_, rfl, rfl⟩⟩
      · simp only [h8, ↓reduceIte, bind_run, fseek_q hq]
        have hin2 : off + 16 ≤ s.data.length := by
          have hl : r.length = 12 := by
            have : r.length ≤ 12 := by rw [← hr, length_readAt']; omega
            simp only [List.length_drop] at h8; omega
          have := length_readAt_le s.data (off + 4) 12 (by rw [hr]; omega)
          rw [hr] at this; omega
        cases hp : packBE 8 ((ofBE (List.drop 4 r) : Int) + delta) .mutagen with
        | error x =>
          simp only [raise_run]
          exact ⟨fun g h => (by cases h), fun y h => by cases h; exact ⟨_, rfl, rfl⟩⟩
        | ok b =>
          have hb := packBE_length _ _ _ _ hp
          simp only
          rw [fwrite_q_inside hq b _ (by show off + 8 + b.length ≤ s.data.length; omega)]
          refine ⟨fun g h => ?_, fun x h => by cases h⟩
          cases h
          exact ⟨_, rfl, writeData_inside _ _ _ (by show off + 8 ≤ s.data.length; omega)⟩
    · simp only [h1, ↓reduceIte]
      by_cases h0 : ofBE s32 = 0
      · simp only [h0, ↓reduceIte, pure_run]
        exact ⟨fun g h => by cases h; exact ⟨_, rfl, rfl⟩, fun x h => by cases h⟩
      · simp only [h0, ↓reduceIte, bind_run, fseek_q hq]
        cases hp : packBE 4 ((ofBE s32 : Int) + delta) .mutagen with
        | error x =>
          simp only [raise_run]
          exact ⟨fun g h => (by cases h), fun y h => by cases h; exact ⟨_, rfl, rfl⟩⟩
        | ok b =>
          have hb := packBE_length _ _ _ _ hp
          simp only
          rw [fwrite_q_inside hq b _ (by show off + b.length ≤ s.data.length; omega)]
          refine ⟨fun g h => ?_, fun x h => by cases h⟩
          cases h
          exact ⟨_, rfl, writeData_inside _ _ _ (by show off ≤ s.data.length; omega)⟩

theorem seekZ_neg (p : Int) (h : p < 0) (e : Env) (s : FS) : seekZ p e s = (.error .value, s) := by
  simp [seekZ, h]

theorem seekZ_q {e : Env} (hq : Quiet e) (p : Int) (h : ¬ p < 0) (s : FS) :
    seekZ p e s = (.ok (), { data := s.data, pos := p.toNat, ops := s.ops + 1, log := .seek p.toNat :: s.log }) := by
  simp [seekZ, h, fseek_q hq]

theorem offsetTableM_q {e : Env} (hq : Quiet e) (w : Nat) (p : Int) (hp : ¬ p < 0) (n : Nat) (delta : Int) (o : Nat) :
    StepRefines e (offsetTableM w p n delta o) (fun g => offsetTableAt g w p.toNat n delta o) := by
  intro s
  unfold offsetTableM offsetTableAt
  simp only [bind_run, seekZ_q hq p hp, fread_q hq]
  generalize hd : readAt s.data p.toNat n = data
  by_cases h4 : (List.take 4 data).length < 4
  · simp only [h4, ↓reduceIte, raise_run]
    exact ⟨fun g h => (by cases h), fun x h => by cases h; exact ⟨_, rfl, rfl⟩⟩
  · simp only [h4, ↓reduceIte]
    by_cases hb' : ¬ (List.drop 4 data).length = ofBE (List.take 4 data) * w
    · simp only [ne_eq, hb', not_false_eq_true, ↓reduceIte, raise_run]
      exact ⟨fun g h => (by cases h), fun x h => by cases h; exact ⟨_, rfl, rfl⟩⟩
    · have hb := Decidable.not_not.mp hb'
      simp only [ne_eq, hb, not_true_eq_false, ↓reduceIte, bind_run, fseek_q hq]
      have hdl : 4 ≤ data.length := by simp only [List.length_take] at h4; omega
      have hin := length_readAt_le s.data p.toNat n (by rw [hd]; omega)
      rw [hd] at hin
      have henc : (encodeEntries w (List.map Int.toNat (List.map (patchEntry o delta)
          (entriesOf w (ofBE (List.take 4 data)) (List.drop 4 data))))).length = data.length - 4 := by
        rw [length_encodeEntries, List.length_map, List.length_map, length_entriesOf]
        rw [Nat.mul_comm, ← hb, List.length_drop]
      generalize List.map (patchEntry o delta) (entriesOf w (ofBE (List.take 4 data)) (List.drop 4 data)) = es at henc ⊢
      cases hany : es.any fun v => decide (v < 0 ∨ v ≥ ((256 ^ w : Nat) : Int))
      · simp only [Bool.false_eq_true, ↓reduceIte]
        rw [fwrite_q_inside hq _ _ (by show p.toNat + 4 + _ ≤ s.data.length; rw [henc]; omega)]
        refine ⟨fun g h => ?_, fun x h => by cases h⟩
        cases h
        exact ⟨_, rfl, writeData_inside _ _ _ (by show p.toNat + 4 ≤ s.data.length; omega)⟩
      · simp only [↓reduceIte, raise_run]
        exact ⟨fun g h => (by cases h), fun x h => by cases h; exact ⟨_, rfl, rfl⟩⟩

theorem tfhdM_q {e : Env} (hq : Quiet e) (p : Int) (hp : ¬ p < 0) (n : Nat) (delta : Int) (o : Nat) :
    StepRefines e (tfhdM p n delta o) (fun g => tfhdAt g p.toNat n delta o) := by
  intro s
  unfold tfhdM tfhdAt
  simp only [bind_run, seekZ_q hq p hp, fread_q hq]
  generalize hd : readAt s.data p.toNat n = data
  by_cases h3 : (List.take 3 data).length < 3
  · simp only [h3, ↓reduceIte, raise_run]
    exact ⟨fun g h => (by cases h), fun x h => by cases h; exact ⟨_, rfl, rfl⟩⟩
  · simp only [h3, ↓reduceIte]
    by_cases hodd : ofBE (List.take 3 data) % 2 = 1
    · simp only [hodd, ↓reduceIte]
      by_cases h8 : (List.take 8 (List.drop 7 data)).length < 8
      · simp only [h8, ↓reduceIte, raise_run]
        exact ⟨fun g h => (by cases h), fun x h => by cases h; exact ⟨_, rfl, rfl⟩⟩
      · simp only [h8, ↓reduceIte, bind_run, fseek_q hq]
        have hdl : 15 ≤ data.length := by simp only [List.length_take, List.length_drop] at h8; omega
        have hin := length_readAt_le s.data p.toNat n (by rw [hd]; omega)
        rw [hd] at hin
        cases hpk : packBE 8 (patchEntry o delta (ofBE (List.take 8 (List.drop 7 data)))) .mutagen with
        | error x =>
          simp only [raise_run]
          exact ⟨fun g h => (by cases h), fun y h => by cases h; exact ⟨_, rfl, rfl⟩⟩
        | ok b =>
          have hb := packBE_length _ _ _ _ hpk
          simp only
          rw [fwrite_q_inside hq b _ (by show p.toNat + 7 + b.length ≤ s.data.length; omega)]
          refine ⟨fun g h => ?_, fun x h => by cases h⟩
          cases h
          exact ⟨_, rfl, writeData_inside _ _ _ (by show p.toNat + 7 ≤ s.data.length; omega)⟩
    · simp only [hodd, ↓reduceIte, pure_run]
      exact ⟨fun g h => by cases h; exact ⟨_, rfl, rfl⟩, fun x h => by cases h⟩

theorem tableStepM_q {e : Env} (hq : Quiet e) (delta : Int) (o : Nat) (t : Nat × PAtom) :
    StepRefines e (tableStepM delta o t) (tableStepZ true delta o t) := by
  by_cases hp : seekPos delta o t < 0
  · intro s
    unfold tableStepM tableStepZ
    simp only [hp, ↓reduceIte, negSeek]
    refine ⟨fun g h => (by cases h), fun x h => ?_⟩
    cases h
    split
    · unfold tfhdM; simp only [bind_run, seekZ_neg _ hp]; exact ⟨_, rfl, rfl⟩
    · unfold offsetTableM; simp only [bind_run, seekZ_neg _ hp]; exact ⟨_, rfl, rfl⟩
  · unfold tableStepM tableStepZ
    simp only [hp, ↓reduceIte]
    split
    · exact tfhdM_q hq _ hp _ _ _
    · exact offsetTableM_q hq _ _ hp _ _ _

/-- the i-th program refines the i-th pure step -/
inductive Refs (e : Env) : List (FileM Unit) → List (Bytes → Except PyErr Bytes) → Prop
  | nil : Refs e [] []
  | cons {m p ms ps} : StepRefines e m p → Refs e ms ps → Refs e (m :: ms) (p :: ps)

/-- running refined steps one after the other is `runSteps` on the bytes -/
theorem stepsM_refines {e : Env} : ∀ (ms : List (FileM Unit)) (ps : List (Bytes → Except PyErr Bytes)),
    Refs e ms ps → ∀ s : FS,
      ∃ s', stepsM ms e s = (toExcept (runSteps ps s.data).1, s') ∧ s'.data = (runSteps ps s.data).2 := by
  intro ms ps h
  induction h with
  | nil => intro s; exact ⟨s, rfl, rfl⟩
  | @cons m p ms ps hmp _ ih =>
    intro s
    simp only [stepsM, bind_run, runSteps]
    cases hp : p s.data with
    | error x =>
      obtain ⟨s1, h1, h2⟩ := (hmp s).2 x hp
      rw [h1]
      exact ⟨s1, rfl, h2⟩
    | ok g =>
      obtain ⟨s1, h1, h2⟩ := (hmp s).1 g hp
      rw [h1]
      simp only
      obtain ⟨s2, h3, h4⟩ := ih s1
      rw [h2] at h3 h4
      exact ⟨s2, h3, h4⟩

theorem refs_map {e : Env} {α : Type} (l : List α)
    (f : α → FileM Unit) (g : α → Bytes → Except PyErr Bytes) (h : ∀ a, StepRefines e (f a) (g a)) :
    Refs e (l.map f) (l.map g) := by
  induction l with
  | nil => exact .nil
  | cons a r ih => exact .cons (h a) ih

theorem refs_append {e : Env} {a1 a2 : List (FileM Unit)} {b1 b2 : List (Bytes → Except PyErr Bytes)}
    (h1 : Refs e a1 b1) (h2 : Refs e a2 b2) : Refs e (a1 ++ a2) (b1 ++ b2) := by
  induction h1 with
  | nil => exact h2
  | cons h _ ih => exact .cons h ih

/-- `__update_parents` + `__update_offsets` on the file do what the pure steps do to the bytes -/
theorem bookkeepingM_q {e : Env} (hq : Quiet e) (parents atoms : List PAtom) (delta : Int) (o len : Nat) (s : FS) :
    ∃ s', bookkeepingM parents atoms delta o len e s =
        (toExcept (runSteps (parentSteps parents delta ++ offsetStepsZ true atoms delta o len) s.data).1, s') ∧
      s'.data = (runSteps (parentSteps parents delta ++ offsetStepsZ true atoms delta o len) s.data).2 := by
  unfold bookkeepingM
  apply stepsM_refines
  apply refs_append
  · unfold parentStepsM parentSteps
    split
    · exact .nil
    · exact refs_map _ _ _ fun a => patchSizeM_q hq a.offset delta
  · unfold offsetStepsM offsetStepsZ
    split
    · exact .nil
    · cases hc : child? atoms nMoov with
      | none =>
        refine .cons ?_ .nil
        intro s
        exact ⟨fun g h => (by cases h), fun x h => by cases h; exact ⟨_, rfl, rfl⟩⟩
      | some m => exact refs_map _ _ _ fun t => tableStepM_q hq delta o t

/-! ### B. the whole save on a device with finite capacity -/

theorem getSize_q {e : Env} (hq : Quiet e) (s : FS) :
    ∃ s', getSize e s = (.ok s.data.length, s') ∧ s'.data = s.data := by
  unfold getSize
  simp only [bind_run, ftell_q hq, tryFinally, fseekEnd_q hq, fseek_q hq]
  exact ⟨_, rfl, rfl⟩

/-- `seek(off); write(new)` over a middle part of the same length -/
theorem overwrite_mid {e : Env} (hq : Quiet e) (A M Z new : Bytes) (hM : M.length = new.length) (s : FS)
    (hs : s.data = A ++ M ++ Z) :
    ∃ s', (do fseek A.length; fwrite new : FileM Unit) e s = (.ok (), s') ∧ s'.data = A ++ new ++ Z := by
  simp only [bind_run, fseek_q hq]
  rw [fwrite_q_inside hq new _ (by show A.length + new.length ≤ s.data.length; rw [hs]; simp; omega)]
  refine ⟨_, rfl, ?_⟩
  show writeData s.data A.length new = _
  rw [writeData_inside _ _ _ (by rw [hs]; simp), hs]
  exact writeAt_mid A M Z new hM

/-- `resize_bytes(old -> len(new), off); seek(off); write(new)`: ENOSPC with the file untouched, or the region replaced -/
theorem replace_q {e : Env} (hq : Quiet e) (C : Prop) (B : Nat) (off old : Nat) (new : Bytes) (s : FS)
    (ho : off + old ≤ s.data.length) (k : FileM Unit)
    (hres : (∃ s' gap, resizeBytes B old new.length off e s = (.ok (), s') ∧ gap.length = new.length - old ∧
        s'.data = s.data.take off ++ (s.data.drop off).take (min old new.length) ++ gap ++ s.data.drop (off + old)) ∨
      (C ∧ ∃ s', resizeBytes B old new.length off e s = (.error .enospc, s') ∧ s'.data = s.data)) :
    (C ∧ ∃ s', (do resizeBytes B old new.length off; fseek off; fwrite new; k : FileM Unit) e s = (.error .enospc, s') ∧
      s'.data = s.data) ∨
    (∃ s1, s1.data = splice s.data off old new ∧
      (do resizeBytes B old new.length off; fseek off; fwrite new; k : FileM Unit) e s = k e s1) := by
  rcases hres with ⟨s1, gap, hr, hg, hd⟩ | ⟨hC, s1, hr, hd⟩
  · right
    have hA : (s.data.take off).length = off := by simp; omega
    have hM : ((s.data.drop off).take (min old new.length) ++ gap).length = new.length := by
      simp only [List.length_append, List.length_take, List.length_drop, hg]; omega
    obtain ⟨s2, h2, hd2⟩ := overwrite_mid hq (s.data.take off) _ (s.data.drop (off + old)) new hM s1
      (by rw [hd]; simp only [List.append_assoc])
    rw [hA] at h2
    refine ⟨s2, by rw [hd2]; rfl, ?_⟩
    simp only [bind_run, hr]
    simp only [bind_run] at h2
    cases hfs : fseek off e s1 with
    | mk r1 s1' =>
      rw [hfs] at h2
      cases r1 with
      | error x => simp at h2
      | ok u =>
        simp only at h2 ⊢
        rw [h2]
  · left
    simp only [bind_run, hr]
    exact ⟨hC, s1, rfl, hd⟩

/-- `insert_bytes(len(new), off); seek(off); write(new)` -/
theorem insert_q {e : Env} (hq : Quiet e) (C : Prop) (B : Nat) (off : Nat) (new : Bytes) (s : FS)
    (ho : off ≤ s.data.length) (k : FileM Unit)
    (hres : (∃ s', insertBytes B new.length off e s = (.ok (), s') ∧
        s'.data = s.data.take off ++ readAt (s.data ++ zeros new.length) off new.length ++ s.data.drop off) ∨
      (C ∧ ∃ s', insertBytes B new.length off e s = (.error .enospc, s') ∧ s'.data = s.data)) :
    (C ∧ ∃ s', (do insertBytes B new.length off; fseek off; fwrite new; k : FileM Unit) e s = (.error .enospc, s') ∧
      s'.data = s.data) ∨
    (∃ s1, s1.data = splice s.data off 0 new ∧
      (do insertBytes B new.length off; fseek off; fwrite new; k : FileM Unit) e s = k e s1) := by
  rcases hres with ⟨s1, hr, hd⟩ | ⟨hC, s1, hr, hd⟩
  · right
    have hA : (s.data.take off).length = off := by simp; omega
    have hM : (readAt (s.data ++ zeros new.length) off new.length).length = new.length := by
      apply length_readAt; simp; omega
    obtain ⟨s2, h2, hd2⟩ := overwrite_mid hq (s.data.take off) _ (s.data.drop off) new hM s1 hd
    rw [hA] at h2
    refine ⟨s2, by rw [hd2]; simp [splice], ?_⟩
    simp only [bind_run, hr]
    simp only [bind_run] at h2
    cases hfs : fseek off e s1 with
    | mk r1 s1' =>
      rw [hfs] at h2
      cases r1 with
      | error x => simp at h2
      | ok u =>
        simp only at h2 ⊢
        rw [h2]
  · left
    simp only [bind_run, hr]
    exact ⟨hC, s1, rfl, hd⟩

/-- the common core of `saveTagsM_q` (any capacity: `C = True`) and `saveTagsM_clean` (no capacity limit: `C = False`):
`hres` / `hins` say what resize_bytes / insert_bytes do in the environment -/
theorem saveTagsM_core {e : Env} (hq : Quiet e) (C : Prop) (B : Nat)
    (hres : ∀ (old new off : Nat) (s : FS), off + old ≤ s.data.length →
      (∃ s' gap, resizeBytes B old new off e s = (.ok (), s') ∧ gap.length = new - old ∧
        s'.data = s.data.take off ++ (s.data.drop off).take (min old new) ++ gap ++ s.data.drop (off + old)) ∨
      (C ∧ ∃ s', resizeBytes B old new off e s = (.error .enospc, s') ∧ s'.data = s.data))
    (hins : ∀ (size off : Nat) (s : FS), off ≤ s.data.length →
      (∃ s', insertBytes B size off e s = (.ok (), s') ∧
        s'.data = s.data.take off ++ readAt (s.data ++ zeros size) off size ++ s.data.drop off) ∨
      (C ∧ ∃ s', insertBytes B size off e s = (.error .enospc, s') ∧ s'.data = s.data))
    (ilstData : Bytes) (pad : PadChoice) (s : FS) :
    (C ∧ ∃ s', saveTagsM B ilstData pad e s = (.error .enospc, s') ∧ s'.data = s.data) ∨
    (∃ s', saveTagsM B ilstData pad e s = (toExcept (saveTags true s.data ilstData pad).1, s') ∧
      s'.data = (saveTags true s.data ilstData pad).2) := by
  unfold saveTagsM saveTags
  simp only [bind_run, peek]
  cases hp : parse s.data with
  | error x => right; exact ⟨s, rfl, rfl⟩
  | ok atoms =>
    simp only []
    rcases regionOf_spec atoms (parse_good s.data atoms hp) with ⟨hm, hr⟩ | ⟨R, hr, hm, hcase⟩
    · right; rw [hr]; exact ⟨s, rfl, rfl⟩
    · rw [hr]
      simp only []
      obtain ⟨sg, hg, hgd⟩ := getSize_q hq s
      by_cases hex : (path? atoms ilstPath).isSome = true
      · simp only [hex, ↓reduceIte, bind_run, hg]
        by_cases hb : s.data.length < R.offset + R.length
        · right
          simp only [hb, ↓reduceIte, raise_run]
          exact ⟨sg, rfl, hgd⟩
        · simp only [hb, ↓reduceIte]
          generalize hnew : existingData ilstData pad (s.data.length - (R.offset + R.length)) R.length = new
          rcases replace_q hq C B R.offset R.length new sg (by rw [hgd]; omega)
            (bookkeepingM R.parents atoms ((new.length : Int) - R.length) R.offset R.length)
            (hres _ _ _ sg (by rw [hgd]; omega)) with
            ⟨hC, s1, h1, hd1⟩ | ⟨s1, hd1, h1⟩
          · left
            simp only [bind_run] at h1 ⊢
            exact ⟨hC, s1, h1, by rw [hd1, hgd]⟩
          · right
            simp only [bind_run] at h1 ⊢
            rw [h1]
            obtain ⟨s2, h2, hd2⟩ := bookkeepingM_q hq R.parents atoms ((new.length : Int) - R.length) R.offset R.length s1
            refine ⟨s2, ?_, ?_⟩
            · rw [h2, hd1, hgd]
              unfold saveAtZ
              simp only [hb, ↓reduceIte]
            · rw [hd2, hd1, hgd]
              unfold saveAtZ
              simp only [hb, ↓reduceIte]
      · simp only [hex, Bool.false_eq_true, ↓reduceIte, bind_run, hg]
        rcases hcase with hc | ⟨h0, hle⟩
        · exact absurd hc hex
        · have hnl : ¬ s.data.length < R.offset := by omega
          simp only [hnl, ↓reduceIte]
          generalize hnew : newData ilstData pad (s.data.length - R.offset) R.parents = new
          rcases insert_q hq C B R.offset new sg (by rw [hgd]; omega)
            (bookkeepingM R.parents atoms ((new.length : Int) - (0 : Nat)) R.offset 0)
            (hins _ _ sg (by rw [hgd]; omega)) with
            ⟨hC, s1, h1, hd1⟩ | ⟨s1, hd1, h1⟩
          · left
            simp only [bind_run] at h1 ⊢
            exact ⟨hC, s1, h1, by rw [hd1, hgd]⟩
          · right
            simp only [bind_run] at h1 ⊢
            rw [h1]
            obtain ⟨s2, h2, hd2⟩ := bookkeepingM_q hq R.parents atoms ((new.length : Int) - (0 : Nat)) R.offset 0 s1
            have hb0 : ¬ s.data.length < R.offset + 0 := by omega
            refine ⟨s2, ?_, ?_⟩
            · rw [h2, hd1, hgd]
              unfold saveAtZ
              simp only [hb0, ↓reduceIte]
            · rw [hd2, hd1, hgd]
              unfold saveAtZ
              simp only [hb0, ↓reduceIte]

/-- MP4Tags.save on a device of ANY capacity (no injected faults): either ENOSPC with the file byte-identical to
before — it can only come from the enlargement, which is first and is rolled back — or exactly the outcome and the bytes
of the pure model `saveTags` (which include: MP4MetadataError after the region was replaced, when a size field or an
offset table cannot be patched) -/
theorem saveTagsM_q {e : Env} (hq : Quiet e) (B : Nat) (hB : 0 < B) (ilstData : Bytes) (pad : PadChoice) (s : FS) :
    (∃ s', saveTagsM B ilstData pad e s = (.error .enospc, s') ∧ s'.data = s.data) ∨
    (∃ s', saveTagsM B ilstData pad e s = (toExcept (saveTags true s.data ilstData pad).1, s') ∧
      s'.data = (saveTags true s.data ilstData pad).2) := by
  rcases saveTagsM_core hq True B
    (fun old new off s ho => (resizeBytes_q hq B hB old new off s ho).imp id fun h => ⟨trivial, h⟩)
    (fun size off s ho => (insertBytes_q hq B hB size off s ho).imp id fun h => ⟨trivial, h⟩) ilstData pad s with
    ⟨_, h⟩ | h
  · exact Or.inl h
  · exact Or.inr h

theorem clean_quiet' : Quiet Env.clean := ⟨fun _ => rfl, fun _ => rfl⟩

/-- refinement: without faults and without a capacity limit the program leaves exactly what the pure model says -/
theorem saveTagsM_clean (B : Nat) (hB : 0 < B) (ilstData : Bytes) (pad : PadChoice) (s : FS) :
    ∃ s', saveTagsM B ilstData pad Env.clean s = (toExcept (saveTags true s.data ilstData pad).1, s') ∧
      s'.data = (saveTags true s.data ilstData pad).2 := by
  rcases saveTagsM_core clean_quiet' False B
    (fun old new off s ho => Or.inl (resizeBytes_clean B hB old new off s ho))
    (fun size off s ho => Or.inl (insertBytes_clean B hB size off s ho)) ilstData pad s with
    ⟨hf, _⟩ | h
  · exact hf.elim
  · exact h

/-! ### C. arbitrary fault environments: which exceptions leave, and what a normal return means -/

/-- MutagenError, or what the file primitives raise (an injected exception, ENOSPC, ValueError, IOError, `diverge`) -/
def MP (e : Env) (x : PyErr) : Prop := x = .mutagen ∨ PrimErr e x

theorem rSeek (p : Nat) : Raises MP (fseek p) := (Raises.fseek p).weaken fun _ _ h => Or.inr (inj_prim h)
theorem rRead (n : Nat) : Raises MP (fread n) := (Raises.fread n).weaken fun _ _ h => Or.inr (inj_prim h)
theorem rWrite (b : Bytes) : Raises MP (fwrite b) :=
  (Raises.fwrite b).weaken fun _ x hx => Or.inr (hx.elim inj_prim (fun h => h ▸ prim_enospc _))
theorem rMut {α : Type} : Raises MP (raise .mutagen : FileM α) := Raises.raise _ fun _ => Or.inl rfl
theorem rSeekZ (p : Int) : Raises MP (seekZ p) := by
  unfold seekZ
  split
  · exact Raises.raise _ fun e => Or.inr (prim_value e)
  · exact rSeek _

theorem rPack (w : Nat) (v : Int) : Raises MP
    (match packBE w v .mutagen with
      | .error x => raise x
      | .ok b => fwrite b : FileM Unit) := by
  cases hp : packBE w v .mutagen with
  | error x =>
    have := packBE_error _ _ _ _ hp
    subst this
    exact rMut
  | ok b => exact rWrite b

theorem raises_patchSizeM (off : Nat) (delta : Int) : Raises MP (patchSizeM off delta) := by
  unfold patchSizeM
  apply Raises.bind (rSeek _); intro _
  apply Raises.bind (rRead _); intro s32
  split
  · exact rMut
  · split
    · apply Raises.bind (rRead _); intro r
      simp only []
      split
      · exact rMut
      · apply Raises.bind (rSeek _); intro _
        exact rPack _ _
    · split
      · exact Raises.pure _ _
      · apply Raises.bind (rSeek _); intro _
        exact rPack _ _

theorem raises_offsetTableM (w : Nat) (p : Int) (n : Nat) (delta : Int) (o : Nat) : Raises MP (offsetTableM w p n delta o) := by
  unfold offsetTableM
  apply Raises.bind (rSeekZ _); intro _
  apply Raises.bind (rRead _); intro data
  split
  · exact rMut
  · simp only []
    split
    · exact rMut
    · apply Raises.bind (rSeek _); intro _
      split
      · exact rMut
      · exact rWrite _

theorem raises_tfhdM (p : Int) (n : Nat) (delta : Int) (o : Nat) : Raises MP (tfhdM p n delta o) := by
  unfold tfhdM
  apply Raises.bind (rSeekZ _); intro _
  apply Raises.bind (rRead _); intro data
  split
  · exact rMut
  · split
    · simp only []
      split
      · exact rMut
      · apply Raises.bind (rSeek _); intro _
        exact rPack _ _
    · exact Raises.pure _ _

theorem raises_tableStepM (delta : Int) (o : Nat) (t : Nat × PAtom) : Raises MP (tableStepM delta o t) := by
  unfold tableStepM
  split
  · exact raises_tfhdM _ _ _ _
  · exact raises_offsetTableM _ _ _ _ _

theorem raises_stepsM (P : Env → PyErr → Prop) : ∀ (ms : List (FileM Unit)), (∀ m ∈ ms, Raises P m) → Raises P (stepsM ms)
  | [], _ => Raises.pure _ _
  | m :: r, h => by
    unfold stepsM
    exact Raises.bind (h m List.mem_cons_self) fun _ => raises_stepsM P r fun m' hm' => h m' (List.mem_cons_of_mem _ hm')

theorem raises_bookkeepingM (parents atoms : List PAtom) (delta : Int) (o len : Nat) (hm : (child? atoms nMoov).isSome) :
    Raises MP (bookkeepingM parents atoms delta o len) := by
  unfold bookkeepingM
  apply raises_stepsM
  intro m hmem
  rcases List.mem_append.mp hmem with h | h
  · unfold parentStepsM at h
    split at h
    · cases h
    · obtain ⟨a, _, rfl⟩ := List.mem_map.mp h
      exact raises_patchSizeM _ _
  · unfold offsetStepsM at h
    split at h
    · cases h
    · split at h
      · rename_i hn; rw [hn] at hm; cases hm
      · obtain ⟨t, _, rfl⟩ := List.mem_map.mp h
        exact raises_tableStepM _ _ _

theorem rPrim {α : Type} {m : FileM α} (h : Raises PrimErr m) : Raises MP m := h.weaken fun _ _ hx => Or.inr hx

/-- MP4Tags.save under ANY fault environment raises only `error` (MP4MetadataError, AtomError) or what the file
primitives raise -/
theorem raises_saveTagsM (B : Nat) (ilstData : Bytes) (pad : PadChoice) : Raises MP (saveTagsM B ilstData pad) := by
  intro e s err s' h
  unfold saveTagsM at h
  simp only [bind_run, peek] at h
  cases hp : parse s.data with
  | error x =>
    rw [hp] at h
    simp only [raise_run, Prod.mk.injEq, Except.error.injEq] at h
    exact Or.inl (h.1 ▸ parse_clean _ _ hp)
  | ok atoms =>
    rw [hp] at h
    simp only [] at h
    rcases regionOf_spec atoms (parse_good s.data atoms hp) with ⟨hm, hr⟩ | ⟨R, hr, hm, hcase⟩
    · rw [hr] at h
      simp only [raise_run, Prod.mk.injEq, Except.error.injEq] at h
      exact Or.inl h.1.symm
    · rw [hr] at h
      simp only [] at h
      have hbk : ∀ d o l, Raises MP (bookkeepingM R.parents atoms d o l) := fun d o l => raises_bookkeepingM _ _ _ _ _ hm
      split at h
      · have hr1 : Raises MP (do
            let size ← getSize
            if size < R.offset + R.length then raise .mutagen
            else do
              let new := existingData ilstData pad (size - (R.offset + R.length)) R.length
              resizeBytes B R.length new.length R.offset
              fseek R.offset
              fwrite new
              bookkeepingM R.parents atoms ((new.length : Int) - R.length) R.offset R.length : FileM Unit) := by
          apply Raises.bind (rPrim Raises.getSize); intro size
          split
          · exact rMut
          · apply Raises.bind (rPrim (Raises.resizeBytes _ _ _ _)); intro _
            apply Raises.bind (rSeek _); intro _
            apply Raises.bind (rWrite _); intro _
            exact hbk _ _ _
        exact hr1 e s err s' h
      · have hr2 : Raises MP (do
            let size ← getSize
            let data := newData ilstData pad (size - R.offset) R.parents
            insertBytes B data.length R.offset
            fseek R.offset
            fwrite data
            bookkeepingM R.parents atoms ((data.length : Int) - (0 : Nat)) R.offset 0 : FileM Unit) := by
          apply Raises.bind (rPrim Raises.getSize); intro size
          apply Raises.bind (rPrim (Raises.insertBytes _ _ _)); intro _
          apply Raises.bind (rSeek _); intro _
          apply Raises.bind (rWrite _); intro _
          exact hbk _ _ _
        exact hr2 e s err s' h

theorem okAgree_getSize : OkAgree getSize := by
  unfold getSize
  apply OkAgree.bind OkAgree.ftell; intro old
  exact OkAgree.tryFinally (OkAgree.bind OkAgree.fseekEnd fun _ => OkAgree.ftell) (OkAgree.fseek _)

theorem okAgree_seekZ (p : Int) : OkAgree (seekZ p) := by
  unfold seekZ
  split
  · exact OkAgree.raise _
  · exact OkAgree.fseek _

theorem okAgree_pack (w : Nat) (v : Int) : OkAgree
    (match packBE w v .mutagen with
      | .error x => raise x
      | .ok b => fwrite b : FileM Unit) := by
  cases packBE w v .mutagen with
  | error x => exact OkAgree.raise _
  | ok b => exact OkAgree.fwrite b

theorem okAgree_patchSizeM (off : Nat) (delta : Int) : OkAgree (patchSizeM off delta) := by
  unfold patchSizeM
  apply OkAgree.bind (OkAgree.fseek _); intro _
  apply OkAgree.bind (OkAgree.fread _); intro s32
  split
  · exact OkAgree.raise _
  · split
    · apply OkAgree.bind (OkAgree.fread _); intro r
      simp only []
      split
      · exact OkAgree.raise _
      · apply OkAgree.bind (OkAgree.fseek _); intro _
        exact okAgree_pack _ _
    · split
      · exact OkAgree.pure _
      · apply OkAgree.bind (OkAgree.fseek _); intro _
        exact okAgree_pack _ _

theorem okAgree_offsetTableM (w : Nat) (p : Int) (n : Nat) (delta : Int) (o : Nat) : OkAgree (offsetTableM w p n delta o) := by
  unfold offsetTableM
  apply OkAgree.bind (okAgree_seekZ _); intro _
  apply OkAgree.bind (OkAgree.fread _); intro data
  split
  · exact OkAgree.raise _
  · simp only []
    split
    · exact OkAgree.raise _
    · apply OkAgree.bind (OkAgree.fseek _); intro _
      split
      · exact OkAgree.raise _
      · exact OkAgree.fwrite _

theorem okAgree_tfhdM (p : Int) (n : Nat) (delta : Int) (o : Nat) : OkAgree (tfhdM p n delta o) := by
  unfold tfhdM
  apply OkAgree.bind (okAgree_seekZ _); intro _
  apply OkAgree.bind (OkAgree.fread _); intro data
  split
  · exact OkAgree.raise _
  · split
    · simp only []
      split
      · exact OkAgree.raise _
      · apply OkAgree.bind (OkAgree.fseek _); intro _
        exact okAgree_pack _ _
    · exact OkAgree.pure _

theorem okAgree_stepsM : ∀ (ms : List (FileM Unit)), (∀ m ∈ ms, OkAgree m) → OkAgree (stepsM ms)
  | [], _ => OkAgree.pure _
  | m :: r, h => by
    unfold stepsM
    exact OkAgree.bind (h m List.mem_cons_self) fun _ => okAgree_stepsM r fun m' hm' => h m' (List.mem_cons_of_mem _ hm')

theorem okAgree_bookkeepingM (parents atoms : List PAtom) (delta : Int) (o len : Nat) :
    OkAgree (bookkeepingM parents atoms delta o len) := by
  unfold bookkeepingM
  apply okAgree_stepsM
  intro m hmem
  rcases List.mem_append.mp hmem with h | h
  · unfold parentStepsM at h
    split at h
    · cases h
    · obtain ⟨a, _, rfl⟩ := List.mem_map.mp h
      exact okAgree_patchSizeM _ _
  · unfold offsetStepsM at h
    split at h
    · cases h
    · split at h
      · simp only [List.mem_singleton] at h; subst h; exact OkAgree.raise _
      · obtain ⟨t, _, rfl⟩ := List.mem_map.mp h
        unfold tableStepM
        split
        · exact okAgree_tfhdM _ _ _ _
        · exact okAgree_offsetTableM _ _ _ _ _

/-- a normal return of MP4Tags.save means no injected fault fired -/
theorem okAgree_saveTagsM (B : Nat) (ilstData : Bytes) (pad : PadChoice) : OkAgree (saveTagsM B ilstData pad) := by
  unfold saveTagsM
  have hpeek : OkAgree peek := by
    intro e s a s' h
    simpa [peek] using h
  apply OkAgree.bind hpeek; intro f
  split
  · exact OkAgree.raise _
  · split
    · exact OkAgree.raise _
    · split
      · apply OkAgree.bind okAgree_getSize; intro size
        split
        · exact OkAgree.raise _
        · apply OkAgree.bind (OkAgree.resizeBytes _ _ _ _); intro _
          apply OkAgree.bind (OkAgree.fseek _); intro _
          apply OkAgree.bind (OkAgree.fwrite _); intro _
          exact okAgree_bookkeepingM _ _ _ _ _
      · apply OkAgree.bind okAgree_getSize; intro size
        apply OkAgree.bind (OkAgree.insertBytes _ _ _); intro _
        apply OkAgree.bind (OkAgree.fseek _); intro _
        apply OkAgree.bind (OkAgree.fwrite _); intro _
        exact okAgree_bookkeepingM _ _ _ _ _

/-- success means written: a normal return of MP4Tags.save — whatever the environment would have injected elsewhere,
on a device of any capacity, as long as reads are not short — means the pure model finished without an exception and
the file holds exactly its result -/
theorem saveTagsM_ok_means_written (B : Nat) (hB : 0 < B) (ilstData : Bytes) (pad : PadChoice) (e : Env)
    (hshort : ∀ i, e.shortAt i = none) (s s' : FS) (h : saveTagsM B ilstData pad e s = (.ok (), s')) :
    (saveTags true s.data ilstData pad).1 = none ∧ s'.data = (saveTags true s.data ilstData pad).2 := by
  have h' := okAgree_saveTagsM B ilstData pad e s () s' h
  have hq : Quiet e.noFaults := ⟨fun _ => rfl, hshort⟩
  rcases saveTagsM_q hq B hB ilstData pad s with ⟨s2, hr, _⟩ | ⟨s2, hr, hd⟩
  · rw [hr] at h'; injection h' with h1 _; cases h1
  · rw [hr] at h'
    injection h' with h1 h2
    refine ⟨?_, by rw [← h2]; exact hd⟩
    cases hx : (saveTags true s.data ilstData pad).1 with
    | none => rfl
    | some x => rw [hx] at h1; cases h1

/-! ### D. the entry point: `@convert_error(IOError, error)` -/

theorem convertError_ok {α : Type} (src : PyErr → Bool) (dst : PyErr) (m : FileM α) (e : Env) (s s' : FS) (a : α)
    (h : convertError src dst m e s = (.ok a, s')) : m e s = (.ok a, s') := by
  unfold convertError at h
  cases hm : m e s with
  | mk r s1 =>
    rw [hm] at h
    cases r with
    | ok b => exact h
    | error x =>
      simp only at h
      split at h <;> cases h

theorem convertError_of_ok {α : Type} (src : PyErr → Bool) (dst : PyErr) (m : FileM α) (e : Env) (s s' : FS) (a : α)
    (h : m e s = (.ok a, s')) : convertError src dst m e s = (.ok a, s') := by
  unfold convertError; rw [h]

theorem convertError_of_err {α : Type} (src : PyErr → Bool) (dst : PyErr) (m : FileM α) (e : Env) (s s' : FS) (x : PyErr)
    (h : m e s = (.error x, s')) :
    convertError src dst m e s = (.error (if src x then dst else x), s') := by
  unfold convertError; rw [h]; simp only; split <;> rfl

/-- the entry point on a device of any capacity: MutagenError with the file byte-identical to before (ENOSPC during the
enlargement), or the outcome and bytes of the pure model -/
theorem saveEntryM_q {e : Env} (hq : Quiet e) (B : Nat) (hB : 0 < B) (ilstData : Bytes) (pad : PadChoice) (s : FS) :
    (∃ s', saveEntryM B ilstData pad e s = (.error .mutagen, s') ∧ s'.data = s.data) ∨
    (∃ s', saveEntryM B ilstData pad e s = (toExcept (saveTags true s.data ilstData pad).1, s') ∧
      s'.data = (saveTags true s.data ilstData pad).2) := by
  rcases saveTagsM_q hq B hB ilstData pad s with ⟨s1, h1, hd⟩ | ⟨s1, h1, hd⟩
  · left
    refine ⟨s1, ?_, hd⟩
    unfold saveEntryM
    rw [convertError_of_err _ _ _ _ _ _ _ h1]
    rfl
  · right
    refine ⟨s1, ?_, hd⟩
    unfold saveEntryM
    cases hx : (saveTags true s.data ilstData pad).1 with
    | none =>
      rw [hx] at h1
      exact convertError_of_ok _ _ _ _ _ _ _ h1
    | some x =>
      have hxm : x = .mutagen :=
        saveTags_clean true s.data ilstData pad x (saveTags true s.data ilstData pad).2 (by rw [← hx])
      subst hxm
      rw [hx] at h1
      rw [convertError_of_err _ _ _ _ _ _ _ h1]
      rfl

end Mutagen.Mp4C
