/-
Proofs/Container/OggRead.lean — reading back what was saved (C01 for the Ogg formats): mutagen's own
comment reader (`VComment.load` at byte level: `loadVC`; the codecs' comment constructors: `readComment`)
and the strict readers (`readAll` for pages, `Vorbis.decode` for the comment) on the bytes `save` wrote.
-/
import MutagenModel.Proofs.Container.OggInjectCap
import MutagenModel.Proofs.Vorbis
set_option linter.unusedVariables false
namespace Mutagen.OggInj
open Mutagen Mutagen.Ogg

/-! ### mutagen's own comment reader on what `VComment.write` wrote -/

theorem validKey_facts (k : Bytes) (h : validKey k = true) : Vorbis.eqSign ∉ k ∧ (k.all fun b => decide (b.toNat < 128)) = true := by
  simp only [validKey, Bool.and_eq_true, Bool.not_eq_eq_eq_not, Bool.not_true, List.all_eq_true, decide_eq_true_eq] at h
  constructor
  · intro hm; exact (h.2 _ hm).2 rfl
  · simp only [List.all_eq_true, decide_eq_true_eq]
    intro b hb; have := (h.2 b hb).1.2; omega

theorem loadComments_encode (cs : List (Bytes × Bytes)) (h : ∀ kv ∈ cs, Vorbis.CommentOK kv ∧ validKey kv.1 = true) (i : Nat)
    (tail : Bytes) : loadComments cs.length i ((cs.map Vorbis.encodeComment).flatten ++ tail) = some (some (cs, tail)) := by
  induction cs generalizing i with
  | nil => simp [loadComments]
  | cons kv r ih =>
    obtain ⟨hok, hvk⟩ := h kv (by simp)
    obtain ⟨hne, hascii⟩ := validKey_facts kv.1 hvk
    have h4 : (toLE 4 (kv.1 ++ [Vorbis.eqSign] ++ kv.2).length).length = 4 := length_toLE' 4 _
    have hlt : (kv.1 ++ [Vorbis.eqSign] ++ kv.2).length < 256 ^ 4 := by
      have := hok.2; simp only [List.length_append, List.length_cons, List.length_nil] ; omega
    have hshape : ((kv :: r).map Vorbis.encodeComment).flatten ++ tail =
        toLE 4 (kv.1 ++ [Vorbis.eqSign] ++ kv.2).length ++ ((kv.1 ++ [Vorbis.eqSign] ++ kv.2) ++ ((r.map Vorbis.encodeComment).flatten ++ tail)) := by
      simp [Vorbis.encodeComment, List.append_assoc]
    rw [hshape]
    simp only [List.length_cons, loadComments]
    have hl : ¬ ((toLE 4 (kv.1 ++ [Vorbis.eqSign] ++ kv.2).length ++ ((kv.1 ++ [Vorbis.eqSign] ++ kv.2) ++
        ((r.map Vorbis.encodeComment).flatten ++ tail))).length < 4) := by simp
    have e1 : (toLE 4 (kv.1 ++ [Vorbis.eqSign] ++ kv.2).length ++ ((kv.1 ++ [Vorbis.eqSign] ++ kv.2) ++
        ((r.map Vorbis.encodeComment).flatten ++ tail))).take 4 = toLE 4 (kv.1 ++ [Vorbis.eqSign] ++ kv.2).length := by
      rw [← h4]; exact Vorbis.take_append_len _ _
    have e2 : (toLE 4 (kv.1 ++ [Vorbis.eqSign] ++ kv.2).length ++ ((kv.1 ++ [Vorbis.eqSign] ++ kv.2) ++
        ((r.map Vorbis.encodeComment).flatten ++ tail))).drop 4 =
        (kv.1 ++ [Vorbis.eqSign] ++ kv.2) ++ ((r.map Vorbis.encodeComment).flatten ++ tail) := by
      rw [← h4]; exact Vorbis.drop_append_len _ _
    rw [if_neg hl]
    simp only [e1, e2, ofLE_toLE 4 _ hlt, Vorbis.take_append_len, Vorbis.drop_append_len,
      Vorbis.splitEq_append kv.1 kv.2 hne, hascii, Bool.not_true, Bool.false_eq_true, ↓reduceIte,
      ih (fun x hx => h x (by simp [hx])) (i + 1), hvk]

/-- `VComment.load` reads back what `VComment.write` wrote — vendor string, every comment in order —
and stops exactly behind it (behind the framing bit where there is one), whatever follows: for a vendor
string and a number of comments that fit 32 bits, comments that fit 32 bits, valid keys -/
theorem loadVC_encode (vendor : Bytes) (cs : List (Bytes × Bytes)) (framing : Bool) (rest : Bytes)
    (hv : vendor.length < 256 ^ 4) (hn : cs.length < 256 ^ 4) (h : ∀ kv ∈ cs, Vorbis.CommentOK kv ∧ validKey kv.1 = true) :
    loadVC (Vorbis.encode vendor cs framing ++ rest) framing = .ok (vendor, cs, rest) := by
  unfold loadVC Vorbis.encode
  have h4 : (toLE 4 vendor.length).length = 4 := length_toLE' 4 _
  have h4' : (toLE 4 cs.length).length = 4 := length_toLE' 4 _
  generalize hT : (if framing then [1] else ([] : Bytes)) ++ rest = T
  have hshape : toLE 4 vendor.length ++ vendor ++ toLE 4 cs.length ++ (cs.map Vorbis.encodeComment).flatten ++
      (if framing then [1] else []) ++ rest =
      toLE 4 vendor.length ++ (vendor ++ (toLE 4 cs.length ++ ((cs.map Vorbis.encodeComment).flatten ++ T))) := by
    rw [← hT]; simp only [List.append_assoc]
  rw [hshape]
  have hl : ¬ ((toLE 4 vendor.length ++ (vendor ++ (toLE 4 cs.length ++ ((cs.map Vorbis.encodeComment).flatten ++ T)))).length < 4) := by
    simp [h4]
  have e1 : (toLE 4 vendor.length ++ (vendor ++ (toLE 4 cs.length ++ ((cs.map Vorbis.encodeComment).flatten ++ T)))).take 4 =
      toLE 4 vendor.length := by rw [← h4]; exact Vorbis.take_append_len _ _
  have e2 : (toLE 4 vendor.length ++ (vendor ++ (toLE 4 cs.length ++ ((cs.map Vorbis.encodeComment).flatten ++ T)))).drop 4 =
      vendor ++ (toLE 4 cs.length ++ ((cs.map Vorbis.encodeComment).flatten ++ T)) := by rw [← h4]; exact Vorbis.drop_append_len _ _
  simp only [hl, ↓reduceIte, e1, e2, ofLE_toLE 4 _ hv, Vorbis.take_append_len, Vorbis.drop_append_len]
  have hl2 : ¬ ((toLE 4 cs.length ++ ((cs.map Vorbis.encodeComment).flatten ++ T)).length < 4) := by simp [h4']
  have e3 : (toLE 4 cs.length ++ ((cs.map Vorbis.encodeComment).flatten ++ T)).take 4 = toLE 4 cs.length := by
    rw [← h4']; exact Vorbis.take_append_len _ _
  have e4 : (toLE 4 cs.length ++ ((cs.map Vorbis.encodeComment).flatten ++ T)).drop 4 = (cs.map Vorbis.encodeComment).flatten ++ T := by
    rw [← h4']; exact Vorbis.drop_append_len _ _
  simp only [hl2, ↓reduceIte, e3, e4, ofLE_toLE 4 _ hn, loadComments_encode cs h 0 T]
  cases framing
  · simp at hT; simp [hT]
  · simp only [↓reduceIte]
    rw [← hT]
    simp

/-! ### the comment constructors' page loop on a file of good pages -/

/-- the constructors' loop (`readLoop`) on the pages `Y` that follow the position: pages of other
serials are skipped, pages of the serial are collected while they leave their only packet open, up to
and including the first one that does not -/
theorem readLoop_pages (f : Bytes) (ser : Nat) (Y : List Page) (A R : Bytes) (fuel : Nat) (acc opens : List Page) (cl : Page)
    (rest : List Page) (hf : f = A ++ renderPages Y ++ R) (hY : ∀ p ∈ Y, Good p)
    (hs : stream ser Y = opens ++ cl :: rest) (ho : ∀ p ∈ opens, closed p = false) (hc : closed cl = true)
    (hfuel : Y.length < fuel) :
    readLoop f ser fuel acc A.length = .ok (acc ++ opens ++ [cl]) := by
  induction Y generalizing A fuel acc opens with
  | nil => simp [stream] at hs
  | cons y r ih =>
    cases fuel with
    | zero => simp at hfuel
    | succ fuel =>
      have hgy := hY y (by simp)
      have hf' : f = A ++ rb y ++ (renderPages r ++ R) := by rw [hf]; simp [List.append_assoc]
      simp only [readLoop, readPage_at f A _ y hgy hf']
      by_cases hser : y.serial = ser
      · simp only [hser, ↓reduceIte]
        have hs' : y :: stream ser r = opens ++ cl :: rest := by
          simpa [stream, List.filter_cons, hser] using hs
        cases opens with
        | nil =>
          simp only [List.nil_append, List.cons.injEq] at hs'
          obtain ⟨rfl, _⟩ := hs'
          have : (y.complete || decide (y.packets.length > 1)) = true := hc
          simp [this]
        | cons o os =>
          simp only [List.cons_append, List.cons.injEq] at hs'
          obtain ⟨rfl, hs''⟩ := hs'
          have hopen : (y.complete || decide (y.packets.length > 1)) = false := ho y (by simp)
          simp only [hopen, Bool.false_eq_true, ↓reduceIte]
          have := ih (A ++ rb y) fuel (acc ++ [y]) os (by rw [hf]; simp [List.append_assoc])
            (fun p hp => hY p (by simp [hp])) hs'' (fun p hp => ho p (by simp [hp])) (by simp at hfuel; omega)
          simp only [List.length_append, length_rb] at this
          rw [this]; simp [List.append_assoc]
      · simp only [hser, ↓reduceIte]
        have hs' : stream ser r = opens ++ cl :: rest := by
          simpa [stream, List.filter_cons, hser] using hs
        have := ih (A ++ rb y) fuel acc opens (by rw [hf]; simp [List.append_assoc])
          (fun p hp => hY p (by simp [hp])) hs' ho (by simp at hfuel; omega)
        simp only [List.length_append, length_rb] at this
        exact this

/-! ### the first packet of a stream: what the constructors' run holds -/

/-- a stream of pages with consistent flags whose last page is complete has a first page that does not
leave its only packet open -/
theorem exists_first_closed (S : List Page) (hne : S ≠ []) (hlast : ∀ l, S.getLast? = some l → l.complete = true) :
    ∃ opens cl rest, S = opens ++ cl :: rest ∧ (∀ p ∈ opens, closed p = false) ∧ closed cl = true := by
  induction S with
  | nil => exact absurd rfl hne
  | cons p r ih =>
    by_cases hc : closed p = true
    · exact ⟨[], p, r, rfl, by simp, hc⟩
    · have hc' : closed p = false := by simpa using hc
      cases r with
      | nil =>
        exfalso
        have := hlast p rfl
        simp [closed, this] at hc'
      | cons q r' =>
        obtain ⟨opens, cl, rest, h1, h2, h3⟩ := ih (by simp) (fun l hl => hlast l (by simpa [List.getLast?_cons_cons] using hl))
        refine ⟨p :: opens, cl, rest, by rw [h1]; rfl, ?_, h3⟩
        intro x hx
        simp only [List.mem_cons] at hx
        rcases hx with rfl | hx
        · exact hc'
        · exact h2 x hx

/-- `to_packets` on the run the constructor collected gives, first, the first packet of the whole stream
(pages of one serial, consecutive numbers, consistent continuation flags) -/
theorem run_first_packet (ser : Nat) (opens : List Page) (cl : Page) (rest : List Page) (x : Bytes) (xs : List Bytes)
    (hser : ∀ p ∈ opens ++ cl :: rest, p.serial = ser)
    (hseq : ∃ a, (opens ++ cl :: rest).map (·.sequence) = List.range' a (opens ++ cl :: rest).length)
    (hcont : contOK false (opens ++ cl :: rest)) (hc : closed cl = true)
    (hfirst : ∀ p, (opens ++ [cl]).head? = some p → p.packets ≠ [])
    (hre : reasm [] (opens ++ cl :: rest) = x :: xs) :
    ∃ ys, toPackets (opens ++ [cl]) false = .ok (x :: ys) := by
  have hsplit : opens ++ cl :: rest = (opens ++ [cl]) ++ rest := by simp
  rw [hsplit, contOK_append] at hcont
  obtain ⟨hc1, hc2⟩ := hcont
  obtain ⟨a, hsq⟩ := hseq
  rw [hsplit] at hsq hre
  obtain ⟨hsq1, _⟩ := range'_split _ _ _ _ hsq
  -- to_packets succeeds on the run and gives its reassembly
  obtain ⟨p0, r0, hrun⟩ : ∃ p0 r0, opens ++ [cl] = p0 :: r0 := by
    cases opens with
    | nil => exact ⟨cl, [], rfl⟩
    | cons o os => exact ⟨o, os ++ [cl], rfl⟩
  have hp0c : p0.continued = false := by rw [hrun] at hc1; exact hc1.1
  have hser0 : ∀ p ∈ opens ++ [cl], p.serial = p0.serial := by
    intro p hp
    have h1 := hser p (by rw [hsplit]; simp [List.mem_append] at hp ⊢; rcases hp with hp | hp <;> simp [hp])
    have h2 := hser p0 (by rw [hsplit, hrun]; simp)
    rw [h1, h2]
  have hsq0 : (opens ++ [cl]).map (·.sequence) = List.range' p0.sequence (opens ++ [cl]).length := by
    have : p0.sequence = a := by
      rw [hrun] at hsq1; simp [List.range'_succ] at hsq1; exact hsq1.1
    rw [this]; exact hsq1
  have htp : toPackets (opens ++ [cl]) false = .ok (reasm [] (opens ++ [cl])) := by
    rw [hrun] at hser0 hsq0 hc1 ⊢
    simp only [toPackets, Bool.false_and, Bool.false_eq_true, ↓reduceIte, hp0c, Bool.not_false, Bool.and_false]
    exact toPacketsLoop_eq p0.serial (p0 :: r0) p0.sequence [] false hser0 hsq0 hc1 (by simp)
  rw [htp]
  rw [reasm_append] at hre
  -- the reassembly of the run is not empty and its first packet is sealed
  generalize hZ : reasm [] (opens ++ [cl]) = Z at hre ⊢
  cases Z with
  | nil =>
    -- the first page holds data
    exfalso
    rw [hrun, reasm_cons] at hZ
    exact reasm_ne_nil _ r0 (step_ne_nil [] p0 (hfirst p0 (by rw [hrun]; rfl))) hZ
  | cons z zs =>
    refine ⟨zs, ?_⟩
    congr 2
    cases zs with
    | nil =>
      have hlen := length_reasm_ge_last [] opens cl
      rw [hZ] at hlen
      simp only [List.length_cons, List.length_nil, Nat.zero_add] at hlen
      have hcomp : cl.complete = true := by
        simp only [closed, Bool.or_eq_true, decide_eq_true_eq] at hc
        rcases hc with hc | hc
        · exact hc
        · omega
      rw [endC_append_singleton, hcomp] at hc2
      have := reasm_fresh [z] rest (startsFresh_of_contOK _ hc2)
      rw [this] at hre
      simp only [List.singleton_append, List.cons.injEq] at hre
      exact hre.1
    | cons z2 zs2 =>
      have := reasm_prefix [z] (z2 :: zs2) rest (by simp)
      simp only [List.singleton_append] at this
      rw [this] at hre
      simp only [List.cons.injEq] at hre
      exact hre.1


/-! ### the saved file, read by the comment constructor -/

theorem contOK_head (c : Bool) (S : List Page) (h : contOK c S) (hh : ∀ p, S.head? = some p → p.continued = false) :
    contOK false S := by
  cases S with
  | nil => trivial
  | cons p r => exact ⟨hh p rfl, h.2.1, h.2.2⟩

theorem last_prepare_complete (o0 oL : Page) (new : List Page) (hne : new ≠ []) (h : contOK o0.continued new)
    (hl : oL.complete = false → ∀ l, new.getLast? = some l → l.packets ≠ []) :
    ∀ l, (prepare o0 oL new).getLast? = some l → l.complete = oL.complete := by
  intro l hl'
  obtain ⟨_, h2⟩ := contOK_prepare o0 oL new hne h hl
  rcases List.eq_nil_or_concat (prepare o0 oL new) with he | ⟨i, x, he⟩
  · rw [he] at hl'; simp at hl'
  · rw [he, List.concat_eq_append] at hl' h2
    simp at hl'; subst hl'
    rw [endC_append_singleton] at h2
    simpa using h2

/-- the comment constructor of Vorbis / Speex / Theora / Ogg FLAC run on the saved file from a position
`pos` in front of the run (behind the identification page) with no page of the stream in between: it
collects the new run up to the page on which the new comment packet ends and hands that packet's
bytes behind the codec prefix to `VComment.load` -/
theorem readLoop_after (c : Codec) (L : Layout) (h : L.OK c) (hfresh : L.c1.continued = false)
    (hflags : contOK false (stream L.serial L.pages))
    (a : Nat) (hnum : (stream L.serial L.pages).map (·.sequence) = List.range' a (stream L.serial L.pages).length)
    (hend : ∀ l, (stream L.serial L.pages).getLast? = some l → l.complete = true)
    (pre1 pre2 : List Page) (hpre : L.pre = pre1 ++ pre2) (hpre2 : ∀ p ∈ pre2, p.serial ≠ L.serial)
    (old0 new0 : Bytes) (others : List Bytes) (new : List Page)
    (hpk : toPackets L.oldPages false = .ok (old0 :: others))
    (hnew : newPages c (new0 :: others) L.oldPages = .ok new)
    (hseq : L.c1.sequence + new.length + (L.post.filter (·.serial = L.serial)).length ≤ 2 ^ 32)
    (hhead : ∀ p, new.head? = some p → p.packets ≠ []) :
    ∃ run ys, readLoop (renderPages (L.after new)) L.serial ((renderPages (L.after new)).length + 1) [] (renderPages pre1).length =
        .ok run ∧ toPackets run false = .ok (new0 :: ys) := by
  have hs := streamOK_of_contOK c L h hfresh hflags
  have hf := facts_of_edit c L h hs old0 new0 others new hpk hnew
  have hgood := (readAll_after c L h _ new hf hseq).1
  have hne : L.slots ≠ [] := by intro he; have := h.chain; rw [he] at this; exact this
  -- the stream from `pos` on: the new run, then the pages behind it
  generalize hT : stream L.serial (if L.slots.length ≠ new.length then renum L.serial (L.c1.sequence + new.length) L.post else L.post) = T
  have hst := stream_after c L h new
  rw [hT] at hst
  obtain ⟨Y, hY⟩ : ∃ Y, L.after new = pre1 ++ Y := by
    refine ⟨pre2 ++ splicePages (fitPages L.slots.length (prepare L.c1 L.cK new)) L.slots ++
      (if L.slots.length ≠ new.length then renum L.serial (L.c1.sequence + new.length) L.post else L.post), ?_⟩
    simp [Layout.after, hpre, List.append_assoc]
  have hSY : stream L.serial Y = prepare L.c1 L.cK new ++ T := by
    have h1 : stream L.serial (L.after new) = stream L.serial pre1 ++ stream L.serial Y := by rw [hY, stream_append]
    rw [hst, hpre, stream_append, stream_of_none _ pre2 hpre2, List.append_nil, List.append_assoc] at h1
    exact (List.append_cancel_left h1).symm
  have hprep_ne : prepare L.c1 L.cK new ≠ [] := by
    intro he; have := length_prepare L.c1 L.cK new; rw [he] at this
    exact hf.ne (List.eq_nil_of_length_eq_zero this.symm)
  -- flags, numbers and the end of the stream after the edit
  have hcont := contOK_after c L h _ new hf hflags
  have hseqs := seq_after c L h new a hnum
  have hlastT : ∀ l, T.getLast? = some l → l.complete = true := by
    intro l hl
    have hk : (stream L.serial L.post).map (fun p => p.complete) = T.map (fun p => p.complete) := by
      rw [← hT]
      split
      · have := congrArg (List.map (fun x : Bool × Bool × List Nat => x.2.1)) (key_stream_renum L.serial (L.c1.sequence + new.length) L.post)
        simpa [List.map_map, Function.comp_def] using this
      · rfl
    have e := congrArg List.getLast? hk
    rw [List.getLast?_map, List.getLast?_map, hl] at e
    cases hg : (stream L.serial L.post).getLast? with
    | none => rw [hg] at e; simp at e
    | some q =>
      rw [hg] at e
      simp only [Option.map_some, Option.some.injEq] at e
      rw [← e]
      apply hend q
      rw [stream_pages c L h, List.getLast?_append, hg]; rfl
  have hlastS : ∀ l, (prepare L.c1 L.cK new ++ T).getLast? = some l → l.complete = true := by
    intro l hl
    rw [List.getLast?_append] at hl
    cases hg : T.getLast? with
    | some q => rw [hg] at hl; simp at hl; subst hl; exact hlastT q hg
    | none =>
      rw [hg] at hl
      simp only [Option.none_or] at hl
      have hTnil : T = [] := by simpa using hg
      rw [last_prepare_complete L.c1 L.cK new hf.ne hf.cont hf.lastpk l hl]
      -- nothing of the stream behind the run: its last old page was the stream's last page
      have hpostnil : stream L.serial L.post = [] := by
        have hk : (stream L.serial L.post).length = T.length := by
          rw [← hT]; split
          · exact (seq_stream_renum _ _ _).2.symm
          · rfl
        rw [hTnil] at hk
        exact List.eq_nil_of_length_eq_zero hk
      apply hend L.cK
      rw [stream_pages c L h, hpostnil, List.append_nil, List.getLast?_append, last_oldPages L hne]; rfl
  obtain ⟨opens, cl, rest, hdec, hopen, hclosed⟩ := exists_first_closed (prepare L.c1 L.cK new ++ T)
    (by simp [hprep_ne]) hlastS
  -- the loop on the bytes
  have hloop := readLoop_pages (renderPages (L.after new)) L.serial Y (renderPages pre1) [] ((renderPages (L.after new)).length + 1)
    [] opens cl rest (by rw [hY]; simp [renderPages_append])
    (fun p hp => hgood p (by rw [hY]; simp [hp])) (by rw [hSY, hdec]) hopen hclosed
    (by have := length_renderPages_ge (L.after new); rw [hY] at this ⊢; simp only [List.length_append] at this ⊢; omega)
  simp only [List.nil_append] at hloop
  refine ⟨opens ++ [cl], ?_⟩
  -- the first packet of the stream from the run on is the new comment packet
  have hheadc : ∀ p, (prepare L.c1 L.cK new ++ T).head? = some p → p.continued = false := by
    intro p hp
    cases hpn : prepare L.c1 L.cK new with
    | nil => exact absurd hpn hprep_ne
    | cons q qs =>
      rw [hpn] at hp; simp at hp; subst hp
      have := (contOK_prepare L.c1 L.cK new hf.ne hf.cont hf.lastpk).1
      rw [hpn] at this
      rw [this.1]; exact hfresh
  have hcontS : contOK false (prepare L.c1 L.cK new ++ T) := by
    rw [hst, List.append_assoc, contOK_append] at hcont
    exact contOK_head _ _ hcont.2 hheadc
  have hserS : ∀ p ∈ prepare L.c1 L.cK new ++ T, p.serial = L.serial := by
    intro p hp
    have : p ∈ stream L.serial Y := by rw [hSY]; exact hp
    simp only [stream, List.mem_filter, decide_eq_true_eq] at this
    exact this.2
  have hseqS : ∃ b, (prepare L.c1 L.cK new ++ T).map (·.sequence) = List.range' b (prepare L.c1 L.cK new ++ T).length := by
    rw [hst, List.append_assoc] at hseqs
    exact ⟨_, (range'_split _ _ _ _ hseqs).2⟩
  have hcar := carries_of new _ L.c1 L.cK hf.carries hf.fresh hf.head
  have hre : ∃ xs, reasm [] (prepare L.c1 L.cK new ++ T) = new0 :: xs := by
    rw [reasm_append, hcar, List.nil_append]
    by_cases ho : others = []
    · subst ho
      -- the run's last page is complete, what follows starts a packet
      obtain ⟨i, hi⟩ := oldPages_snoc L hne
      have hcl := chain_last_closed L.slots h.chain i L.cK hi
      have hold : reasm [] L.oldPages = [old0] := (toPackets_ok _ _ _ (head_oldPages L hne) hfresh hpk).symm
      have hlen : L.cK.packets.length ≤ 1 := by
        have := length_reasm_ge_last [] i L.cK
        rw [← hi, hold] at this
        simpa using this
      have hcomp : L.cK.complete = true := by
        simp only [closed, Bool.or_eq_true, decide_eq_true_eq] at hcl
        rcases hcl with hcl | hcl
        · exact hcl
        · omega
      have hpost := hs.post
      rw [hcomp] at hpost
      have hTf : startsFresh T = true := by
        rw [← hT]; split
        · exact startsFresh_of_contOK _ (contOK_stream_renum _ _ _ _ hpost)
        · exact startsFresh_of_contOK _ hpost
      exact ⟨_, by rw [reasm_fresh [new0] T hTf]; rfl⟩
    · have := reasm_prefix [new0] others T ho
      exact ⟨_, by simpa using this⟩
  obtain ⟨xs, hre⟩ := hre
  have hfirst : ∀ p, (opens ++ [cl]).head? = some p → p.packets ≠ [] := by
    intro p hp
    have hsame : (opens ++ [cl]).head? = (prepare L.c1 L.cK new ++ T).head? := by
      rw [hdec]; cases opens <;> rfl
    rw [hsame] at hp
    cases hpn : prepare L.c1 L.cK new with
    | nil => exact absurd hpn hprep_ne
    | cons q qs =>
      rw [hpn] at hp; simp at hp; subst hp
      have hq : q ∈ prepare L.c1 L.cK new := by rw [hpn]; simp
      -- the head of `prepare` has the packets of the head of `new`
      have hsd := sameData_prepare L.c1 L.cK new hf.head
      cases hnw : new with
      | nil => exact absurd hnw hf.ne
      | cons n0 nr =>
        rw [hpn, hnw] at hsd
        simp only [SameData, List.map_cons, List.cons.injEq, Prod.mk.injEq] at hsd
        rw [hsd.1.1]; exact hhead n0 (by rw [hnw]; rfl)
  rw [hdec] at hcontS hserS hseqS hre
  obtain ⟨ys, hys⟩ := run_first_packet L.serial opens cl rest new0 xs hserS hseqS hcontS hclosed hfirst hre
  exact ⟨ys, hloop, hys⟩


/-! ### the shape of the new comment packet -/

/-- how many bytes the codec's comment constructor strips in front of the Vorbis comment: the codec
prefix; for Ogg FLAC the 4-byte metadata block header -/
def Codec.stripLen : Codec → Nat
  | .vorbis => 7 | .opus => 8 | .speex => 0 | .theora => 7 | .flac => 4

/-- the new packet is: `stripLen` bytes (codec prefix / block header), the rendered comment, and a tail
(zero padding; Opus: the preserved data; Ogg FLAC: nothing) -/
theorem newPacket_shape (c : Codec) (old0 vc padData : Bytes) (pad : PadChoice) (fsize : Nat) (new0 : Bytes)
    (hflac : c = .flac → old0 ≠ []) (h : newPacket c old0 vc padData pad fsize = .ok new0) :
    ∃ hd tail, new0 = hd ++ vc ++ tail ∧ hd.length = c.stripLen ∧
      (c = .flac → tail = [] ∧ hd = old0.take 1 ++ toBE 3 vc.length) ∧
      (c ≠ .flac → hd = c.commentPrefix ∧ (tail = padData ∨ ∃ p, tail = zeros p)) := by
  cases c with
  | flac =>
    simp only [newPacket] at h
    split at h
    · cases h
    · simp only [Except.ok.injEq] at h
      have h1 : (old0.take 1).length = 1 := by
        cases old0 with
        | nil => exact absurd rfl (hflac rfl)
        | cons a b => simp
      refine ⟨old0.take 1 ++ toBE 3 vc.length, [], by rw [← h]; simp, ?_, fun _ => ⟨rfl, rfl⟩, fun hh => absurd rfl hh⟩
      simp [h1, toBE, Codec.stripLen]
  | vorbis =>
    simp only [newPacket, reduceCtorEq, false_and, ↓reduceIte, Except.ok.injEq] at h
    exact ⟨_, _, h.symm, rfl, (fun hh => by cases hh), fun _ => ⟨rfl, Or.inr ⟨_, rfl⟩⟩⟩
  | theora =>
    simp only [newPacket, reduceCtorEq, false_and, ↓reduceIte, Except.ok.injEq] at h
    exact ⟨_, _, h.symm, rfl, (fun hh => by cases hh), fun _ => ⟨rfl, Or.inr ⟨_, rfl⟩⟩⟩
  | speex =>
    simp only [newPacket, reduceCtorEq, false_and, ↓reduceIte, Except.ok.injEq] at h
    exact ⟨_, _, h.symm, rfl, (fun hh => by cases hh), fun _ => ⟨rfl, Or.inr ⟨_, rfl⟩⟩⟩
  | opus =>
    simp only [newPacket, true_and] at h
    split at h
    · simp only [Except.ok.injEq] at h
      exact ⟨_, _, h.symm, rfl, (fun hh => by cases hh), fun _ => ⟨rfl, Or.inl rfl⟩⟩
    · simp only [Except.ok.injEq] at h
      exact ⟨_, _, h.symm, rfl, (fun hh => by cases hh), fun _ => ⟨rfl, Or.inr ⟨_, rfl⟩⟩⟩

/-- (a) mutagen's own reader on the saved file — Vorbis, Speex, Theora, Ogg FLAC: the comment
constructor, started behind the identification page, followed by `VComment.load` returns exactly the
vendor string and the comments that were saved (and, as the rest, the padding) -/
theorem readTags_after (c : Codec) (hc : c ≠ .opus) (L : Layout) (h : L.OK c) (hfresh : L.c1.continued = false)
    (hflags : contOK false (stream L.serial L.pages))
    (a : Nat) (hnum : (stream L.serial L.pages).map (·.sequence) = List.range' a (stream L.serial L.pages).length)
    (hend : ∀ l, (stream L.serial L.pages).getLast? = some l → l.complete = true)
    (pre1 pre2 : List Page) (hpre : L.pre = pre1 ++ pre2) (hpre2 : ∀ p ∈ pre2, p.serial ≠ L.serial)
    (vendor : Bytes) (cs : List (Bytes × Bytes)) (hv : vendor.length < 256 ^ 4) (hn : cs.length < 256 ^ 4)
    (hcs : ∀ kv ∈ cs, Vorbis.CommentOK kv ∧ validKey kv.1 = true)
    (padData : Bytes) (pad : PadChoice) (old0 new0 : Bytes) (others : List Bytes) (new : List Page)
    (hpk : toPackets L.oldPages false = .ok (old0 :: others)) (hflac : c = .flac → old0 ≠ [])
    (hnp : newPacket c old0 (Vorbis.encode vendor cs c.framing) padData pad L.render.length = .ok new0)
    (hnew : newPages c (new0 :: others) L.oldPages = .ok new)
    (hseq : L.c1.sequence + new.length + (L.post.filter (·.serial = L.serial)).length ≤ 2 ^ 32)
    (hhead : ∀ p, new.head? = some p → p.packets ≠ []) :
    ∃ rest, readTags c (renderPages (L.after new)) L.serial (renderPages pre1).length = .ok (vendor, cs, rest) := by
  obtain ⟨run, ys, hloop, htp⟩ := readLoop_after c L h hfresh hflags a hnum hend pre1 pre2 hpre hpre2 old0 new0 others new
    hpk hnew hseq hhead
  obtain ⟨hd, tail, hshape, hlen, _, _⟩ := newPacket_shape c old0 _ padData pad _ new0 hflac hnp
  have hdrop : new0.drop c.stripLen = Vorbis.encode vendor cs c.framing ++ tail := by
    rw [hshape, List.append_assoc, ← hlen]; exact List.drop_left' rfl
  have hload := loadVC_encode vendor cs c.framing tail hv hn hcs
  refine ⟨tail, ?_⟩
  unfold readTags readComment
  cases c with
  | opus => exact absurd rfl hc
  | vorbis =>
    simp only [hloop, htp]
    have : new0.drop 7 = new0.drop Codec.vorbis.stripLen := rfl
    rw [this, hdrop]; exact hload
  | theora =>
    simp only [hloop, htp]
    have : new0.drop 7 = new0.drop Codec.theora.stripLen := rfl
    rw [this, hdrop]; exact hload
  | speex =>
    simp only [hloop, htp]
    have : new0 = new0.drop Codec.speex.stripLen := rfl
    rw [this, hdrop]; exact hload
  | flac =>
    simp only [hloop, htp]
    have : new0.drop 4 = new0.drop Codec.flac.stripLen := rfl
    rw [this, hdrop]; exact hload

/-- (b) the independent reading: the strict page reader reads the saved bytes back into the pages
`L.after new`; the edited stream's packets, reassembled from those pages, are the old ones with the new
comment packet in the place of the old; and the strict Vorbis-comment decoder applied to that packet
behind the codec prefix (Ogg FLAC: behind the block header) returns exactly the vendor string and the
comments — all five codecs -/
theorem strict_after (c : Codec) (L : Layout) (h : L.OK c) (hfresh : L.c1.continued = false)
    (hflags : contOK false (stream L.serial L.pages))
    (vendor : Bytes) (cs : List (Bytes × Bytes)) (hv : vendor.length < 256 ^ 4) (hn : cs.length < 256 ^ 4)
    (hcs : ∀ kv ∈ cs, Vorbis.CommentOK kv)
    (padData : Bytes) (pad : PadChoice) (old0 new0 : Bytes) (others : List Bytes) (new : List Page)
    (hpk : toPackets L.oldPages false = .ok (old0 :: others)) (hflac : c = .flac → old0 ≠ [])
    (hnp : newPacket c old0 (Vorbis.encode vendor cs c.framing) padData pad L.render.length = .ok new0)
    (hnew : newPages c (new0 :: others) L.oldPages = .ok new)
    (hseq : L.c1.sequence + new.length + (L.post.filter (·.serial = L.serial)).length ≤ 2 ^ 32) :
    save c L.render (Vorbis.encode vendor cs c.framing) padData pad = .ok (renderPages (L.after new)) ∧
    readAll ((renderPages (L.after new)).length + 1) (renderPages (L.after new)) = some (L.after new) ∧
    (∃ before behind, reasm [] (stream L.serial L.pages) = before ++ old0 :: behind ∧
      reasm [] (stream L.serial (L.after new)) = before ++ new0 :: behind) ∧
    Vorbis.decode (new0.drop c.stripLen) c.framing = some (vendor, cs) := by
  have hs := streamOK_of_contOK c L h hfresh hflags
  have hf := facts_of_edit c L h hs old0 new0 others new hpk hnew
  obtain ⟨h1, _, h3⟩ := save_spec c L h hs _ padData pad old0 new0 others new hpk hnp hnew hseq
  obtain ⟨hd, tail, hshape, hlen, _, _⟩ := newPacket_shape c old0 _ padData pad _ new0 hflac hnp
  refine ⟨h1, (readAll_after c L h _ new hf hseq).2, h3, ?_⟩
  have hdrop : new0.drop c.stripLen = Vorbis.encode vendor cs c.framing ++ tail := by
    rw [hshape, List.append_assoc, ← hlen]; exact List.drop_left' rfl
  rw [hdrop]
  exact Vorbis.decode_encode vendor cs c.framing tail hv hn hcs


/-! ### every page `from_packets` builds holds a packet (real page sizes) -/

/-- a page that holds nothing but a packet just begun takes the next chunk: its size is 27 or 28 bytes
and the chunk needs at most 255 lacing values -/
theorem fits_fresh (D : Nat) (hD : 28 < D) (p : Page) (hp : p.packets = [[]]) (data : Bytes) (hd : data.length ≤ 64770) :
    (policy D).fits p data = true := by
  have hsz : p.size ≤ 28 := by
    have := lacing_length_le p
    simp only [Page.size, hp, laceCount, List.map_cons, List.map_nil, List.length_nil, Nat.zero_div, List.sum_cons,
      List.sum_nil] at this ⊢
    omega
  simp only [policy, Bool.and_eq_true, decide_eq_true_eq, hp, lacings, List.getLast?_singleton, List.dropLast_singleton,
    laceCount_nil, List.length_nil, Nat.zero_add]
  omega

structure InvN (s : St) : Prop where
  done : ∀ p ∈ s.done, p.packets ≠ []

theorem inner_invN (D chunk wiggle : Nat) (hc : 0 < chunk) (hD : 28 < D) (hch : chunk ≤ 64770) (s : St) (packet : Bytes)
    (h : InvN s) (hne : s.cur.packets ≠ []) :
    InvN (inner (policy D) chunk wiggle hc s packet) ∧ (inner (policy D) chunk wiggle hc s packet).cur.packets ≠ [] := by
  have extLast_ne : ∀ (ps : List Bytes) (d : Bytes), extLast ps d ≠ [] := by
    intro ps d
    rcases List.eq_nil_or_concat ps with h' | ⟨q, l, h'⟩
    · subst h'; simp
    · rw [h', List.concat_eq_append, extLast_concat]; simp
  have step1 : ∀ (s : St) (data : Bytes), InvN s → s.cur.packets ≠ [] → data.length ≤ 64770 →
      let s1 : St :=
        if (policy D).fits s.cur data then
          { s with cur := { s.cur with packets := extLast s.cur.packets data } }
        else
          match s.cur.packets.getLast? with
          | some l =>
            if l ≠ [] then
              let old := { s.cur with complete := false,
                                      position := if s.cur.packets.length = 1 then -1 else s.cur.position }
              { done := s.done ++ [old],
                cur := { packets := [data], continued := true, sequence := s.cur.sequence + 1 } }
            else
              let old := { s.cur with packets := s.cur.packets.dropLast }
              { done := s.done ++ [old],
                cur := { packets := [data], continued := !old.complete, sequence := s.cur.sequence + 1 } }
          | none => s
      InvN s1 ∧ s1.cur.packets ≠ [] := by
    intro s data h hne hd
    simp only
    split
    · exact ⟨⟨h.done⟩, extLast_ne _ _⟩
    · rename_i hfit
      split
      · rename_i l hl
        split
        · refine ⟨⟨?_⟩, by simp⟩
          intro p hp
          rcases List.mem_append.mp hp with hp | hp
          · exact h.done p hp
          · simp only [List.mem_singleton] at hp; subst hp; exact hne
        · rename_i hle
          have hle' : l = [] := Classical.not_not.mp hle
          refine ⟨⟨?_⟩, by simp⟩
          intro p hp
          rcases List.mem_append.mp hp with hp | hp
          · exact h.done p hp
          · simp only [List.mem_singleton] at hp; subst hp
            simp only
            -- the page is not just the empty packet that was begun: that one would have fitted
            rcases List.eq_nil_or_concat s.cur.packets with hh | ⟨q, x, hh⟩
            · exact absurd hh hne
            · rw [List.concat_eq_append] at hh
              have hx : x = l := by rw [hh] at hl; simpa using hl
              rw [hh, List.dropLast_concat]
              intro hq
              apply hfit
              exact fits_fresh D hD s.cur (by rw [hh, hq, hx, hle']; rfl) data hd
      · exact ⟨h, hne⟩
  fun_induction inner (policy D) chunk wiggle hc s packet with
  | case1 s => exact ⟨h, hne⟩
  | case2 s packet hpk data rest s1 hw =>
    have h1' : InvN s1 ∧ s1.cur.packets ≠ [] := step1 s data h hne (by
      show (List.take chunk packet).length ≤ 64770
      simp only [List.length_take]; omega)
    exact ⟨⟨h1'.1.done⟩, extLast_ne _ _⟩
  | case3 s packet hpk data rest s1 hw ih =>
    have h1' : InvN s1 ∧ s1.cur.packets ≠ [] := step1 s data h hne (by
      show (List.take chunk packet).length ≤ 64770
      simp only [List.length_take]; omega)
    exact ih h1'.1 h1'.2

theorem outer_invN (D chunk wiggle : Nat) (hc : 0 < chunk) (hD : 28 < D) (hch : chunk ≤ 64770) (s : St) (ps : List Bytes)
    (h : InvN s) : InvN (outer (policy D) chunk wiggle hc s ps) := by
  induction ps generalizing s with
  | nil => simpa [outer] using h
  | cons p ps ih =>
    simp only [outer]
    apply ih
    have hf : InvN (if (policy D).pre s.cur = true ∧ s.cur.packets ≠ [] then
        ({ done := s.done ++ [s.cur], cur := { sequence := s.cur.sequence + 1 } } : St) else s) := by
      split
      · rename_i hpre
        refine ⟨?_⟩
        intro q hq
        rcases List.mem_append.mp hq with hq | hq
        · exact h.done q hq
        · simp only [List.mem_singleton] at hq; subst hq; exact hpre.2
      · exact h
    generalize hsf : (if (policy D).pre s.cur = true ∧ s.cur.packets ≠ [] then
        ({ done := s.done ++ [s.cur], cur := { sequence := s.cur.sequence + 1 } } : St) else s) = sf at hf
    exact (inner_invN D chunk wiggle hc hD hch
      { done := sf.done, cur := { sf.cur with packets := sf.cur.packets ++ [[]] } } p ⟨hf.done⟩ (by simp)).1

/-- every page `from_packets` builds with a page size above 28 (the default is 4096) holds at least one
packet -/
theorem fromPacketsWith_nonempty (D chunk wiggle : Nat) (hc : 0 < chunk) (hD : 28 < D) (hch : chunk ≤ 64770) (seq : Nat)
    (P : List Bytes) : ∀ p ∈ fromPacketsWith (policy D) chunk wiggle hc seq P, p.packets ≠ [] := by
  have h := outer_invN D chunk wiggle hc hD hch { done := [], cur := { sequence := seq } } P ⟨by simp⟩
  intro p hp
  simp only [fromPacketsWith] at hp
  split at hp
  · exact h.done p hp
  · rename_i hcur
    rcases List.mem_append.mp hp with hp | hp
    · exact h.done p hp
    · simp only [List.mem_singleton] at hp; subst hp; exact hcur


/-! ### the first new page holds data: no hypothesis needed -/

/-- the first page of the comment packet's run holds a packet -/
theorem c1_packets_ne (c : Codec) (L : Layout) (h : L.OK c) (hold : reasm [] L.oldPages ≠ []) : L.c1.packets ≠ [] := by
  intro hp
  have hne : L.slots ≠ [] := by intro he; have := h.chain; rw [he] at this; exact this
  have hg := good_c1 c L h
  have hcomp : L.c1.complete = true := by
    cases hcc : L.c1.complete with
    | true => rfl
    | false =>
      rcases hg.canon with hcn | ⟨_, init, m, _, he⟩
      · rw [hcn] at hcc; cases hcc
      · rw [hp] at he; simp at he
  cases hs : L.slots with
  | nil => exact absurd hs hne
  | cons s m =>
    have e1 : L.c1 = s.1 := by simp [Layout.c1, Layout.oldPages, hs]
    cases m with
    | nil =>
      have : L.oldPages = [s.1] := by simp [Layout.oldPages, hs]
      rw [this, ← e1] at hold
      simp [reasm, hp] at hold
    | cons t m =>
      have := h.chain
      rw [hs] at this
      have hcl : closed s.1 = false := this.1
      rw [← e1] at hcl
      simp [closed, hcomp] at hcl

/-- whichever way `_from_packets_try_preserve` lays the new packets out, the first page it returns
holds a packet (`from_packets` with the default sizes never emits an empty page; the copy of the
old layout gives the first page as many packets as the old first page had) -/
theorem new_head_nonempty (c : Codec) (L : Layout) (h : L.OK c) (hfresh : L.c1.continued = false)
    (old0 new0 : Bytes) (others : List Bytes) (new : List Page)
    (hpk : toPackets L.oldPages false = .ok (old0 :: others))
    (hnew : newPages c (new0 :: others) L.oldPages = .ok new) :
    ∀ p, new.head? = some p → p.packets ≠ [] := by
  have hne : L.slots ≠ [] := by intro he; have := h.chain; rw [he] at this; exact this
  obtain ⟨r, hr⟩ := oldPages_eq L hne
  have hold : reasm [] L.oldPages = old0 :: others := (toPackets_ok _ _ _ (head_oldPages L hne) hfresh hpk).symm
  have hc1 := c1_packets_ne c L h (by rw [hold]; simp)
  rw [hr] at hpk hnew
  rcases newPages_ok c L.c1 r (new0 :: others) (old0 :: others) hpk with h1 | ⟨_, htot, h2⟩
  · rw [h1] at hnew
    simp only [Except.ok.injEq] at hnew
    intro p hp
    apply fromPacketsWith_nonempty Generated.oggDefaultSize (Generated.oggDefaultSize / 255 * 255) Generated.oggWiggleRoom
      (by decide) (by decide) (by decide) L.c1.sequence (new0 :: others) p
    rw [hnew]; exact List.mem_of_mem_head? hp
  · rw [h2] at hnew
    simp only [Except.ok.injEq] at hnew
    intro p hp
    have hsp := (copyLayout_spec (L.c1 :: r) (new0 :: others).flatten (by omega)).1
    rw [hnew] at hsp
    cases hn : new with
    | nil => rw [hn] at hp; simp at hp
    | cons q qs =>
      rw [hn] at hp hsp
      simp only [List.head?_cons, Option.some.injEq] at hp
      subst hp
      simp only [List.map_cons, List.cons.injEq, shape, Prod.mk.injEq] at hsp
      intro he
      rw [he] at hsp
      have := hsp.1.1
      simp at this
      exact hc1 this

/-! ### the first packet of a page and the packet reassembled from it -/

theorem extLast_head (a : Bytes) (as : List Bytes) (d : Bytes) : ∃ z zs, extLast (a :: as) d = z :: zs ∧ a <+: z := by
  cases as with
  | nil => exact ⟨a ++ d, [], rfl, List.prefix_append a d⟩
  | cons b r => exact ⟨a, extLast (b :: r) d, rfl, List.prefix_refl a⟩

/-- reassembly only ever extends the first packet it was handed -/
theorem reasm_head_prefix (ps : List Page) (a : Bytes) (as : List Bytes) :
    ∃ z zs, reasm (a :: as) ps = z :: zs ∧ a <+: z := by
  induction ps generalizing a as with
  | nil => exact ⟨a, as, rfl, List.prefix_refl a⟩
  | cons p r ih =>
    simp only [reasm]
    split
    · exact ih a as
    · rename_i f rest _
      split
      · obtain ⟨z, zs, he, hp⟩ := extLast_head a as f
        rw [he, List.cons_append]
        obtain ⟨z', zs', he', hp'⟩ := ih z (zs ++ rest)
        exact ⟨z', zs', he', List.IsPrefix.trans hp hp'⟩
      · rw [List.cons_append]; exact ih a _

theorem extLast_head2 (a b : Bytes) (as : List Bytes) (d : Bytes) : ∃ b' as', extLast (a :: b :: as) d = a :: b' :: as' := by
  cases as with
  | nil => exact ⟨b ++ d, [], rfl⟩
  | cons c r =>
    obtain ⟨z, zs, he, _⟩ := extLast_head b (c :: r) d
    exact ⟨z, zs, by simp only [extLast] at he ⊢; rw [he]⟩

/-- a first packet with another one behind it is finished -/
theorem reasm_head_fixed (ps : List Page) (a b : Bytes) (as : List Bytes) :
    ∃ zs, reasm (a :: b :: as) ps = a :: zs := by
  induction ps generalizing b as with
  | nil => exact ⟨_, rfl⟩
  | cons p r ih =>
    simp only [reasm]
    split
    · exact ih b as
    · rename_i f rest _
      split
      · obtain ⟨b', as', he⟩ := extLast_head2 a b as f
        rw [he]; exact ih b' (as' ++ rest)
      · exact ih b (as ++ f :: rest)

/-- the first packet on a page that starts a packet is the whole reassembled packet, or it is at
least 255 bytes of it -/
theorem head_packet (y : Page) (r : List Page) (hcan : Canon y) (hcont : contOK false (y :: r)) (x : Bytes) (xs : List Bytes)
    (hp : y.packets = x :: xs) (z : Bytes) (zs : List Bytes) (hre : reasm [] (y :: r) = z :: zs) :
    x = z ∨ (255 ≤ x.length ∧ x <+: z) := by
  have hc : y.continued = false := hcont.1
  simp only [reasm, hp, hc, Bool.false_eq_true, ↓reduceIte, List.nil_append] at hre
  rcases hcan with hcomp | ⟨hinc, init, m, hm, he⟩
  · have hr : contOK false r := by have := hcont.2.2; rw [hcomp] at this; exact this
    rw [reasm_fresh _ r (startsFresh_of_contOK r hr)] at hre
    simp only [List.cons_append, List.cons.injEq] at hre
    exact Or.inl hre.1
  · cases xs with
    | nil =>
      right
      rw [hp] at he
      have hx : x.length = 255 * m := by
        cases init with
        | nil => simpa using he
        | cons i is =>
          have := congrArg List.length he
          simp at this
      obtain ⟨z', zs', he', hpre⟩ := reasm_head_prefix r x []
      rw [he'] at hre
      simp only [List.cons.injEq] at hre
      rw [← hre.1]
      exact ⟨by omega, hpre⟩
    | cons b bs =>
      obtain ⟨zs', he'⟩ := reasm_head_fixed r x b bs
      rw [he'] at hre
      simp only [List.cons.injEq] at hre
      exact Or.inl hre.1

/-! ### the stream behind the edit, page by page -/

/-- after the edit the pages of the stream from the comment packet's first page on are: some pages
that leave their only packet open, then one that does not, and `to_packets` of these is the new
comment packet followed by what else ends on the last of them -/
theorem run_after (c : Codec) (L : Layout) (h : L.OK c) (hfresh : L.c1.continued = false)
    (hflags : contOK false (stream L.serial L.pages))
    (a : Nat) (hnum : (stream L.serial L.pages).map (·.sequence) = List.range' a (stream L.serial L.pages).length)
    (hend : ∀ l, (stream L.serial L.pages).getLast? = some l → l.complete = true)
    (old0 new0 : Bytes) (others : List Bytes) (new : List Page)
    (hpk : toPackets L.oldPages false = .ok (old0 :: others))
    (hnew : newPages c (new0 :: others) L.oldPages = .ok new)
    (hseq : L.c1.sequence + new.length + (L.post.filter (·.serial = L.serial)).length ≤ 2 ^ 32) :
    ∃ opens cl rest ys, prepare L.c1 L.cK new ++
        stream L.serial (if L.slots.length ≠ new.length then renum L.serial (L.c1.sequence + new.length) L.post else L.post) =
          opens ++ cl :: rest ∧
      (∀ p ∈ opens, closed p = false) ∧ closed cl = true ∧ toPackets (opens ++ [cl]) false = .ok (new0 :: ys) ∧
      (∀ y, (opens ++ [cl]).head? = some y → ∃ x xs, y.packets = x :: xs ∧ (x = new0 ∨ (255 ≤ x.length ∧ x <+: new0))) ∧
      contOK false (opens ++ cl :: rest) ∧
      (∃ b, (opens ++ cl :: rest).map (·.sequence) = List.range' b (opens ++ cl :: rest).length) := by
  have hhead := new_head_nonempty c L h hfresh old0 new0 others new hpk hnew
  have hs := streamOK_of_contOK c L h hfresh hflags
  have hf := facts_of_edit c L h hs old0 new0 others new hpk hnew
  have hgood := (readAll_after c L h _ new hf hseq).1
  have hne : L.slots ≠ [] := by intro he; have := h.chain; rw [he] at this; exact this
  -- the stream from `pos` on: the new run, then the pages behind it
  generalize hT : stream L.serial (if L.slots.length ≠ new.length then renum L.serial (L.c1.sequence + new.length) L.post else L.post) = T
  have hst := stream_after c L h new
  rw [hT] at hst
  have hprep_ne : prepare L.c1 L.cK new ≠ [] := by
    intro he; have := length_prepare L.c1 L.cK new; rw [he] at this
    exact hf.ne (List.eq_nil_of_length_eq_zero this.symm)
  -- flags, numbers and the end of the stream after the edit
  have hcont := contOK_after c L h _ new hf hflags
  have hseqs := seq_after c L h new a hnum
  have hlastT : ∀ l, T.getLast? = some l → l.complete = true := by
    intro l hl
    have hk : (stream L.serial L.post).map (fun p => p.complete) = T.map (fun p => p.complete) := by
      rw [← hT]
      split
      · have := congrArg (List.map (fun x : Bool × Bool × List Nat => x.2.1)) (key_stream_renum L.serial (L.c1.sequence + new.length) L.post)
        simpa [List.map_map, Function.comp_def] using this
      · rfl
    have e := congrArg List.getLast? hk
    rw [List.getLast?_map, List.getLast?_map, hl] at e
    cases hg : (stream L.serial L.post).getLast? with
    | none => rw [hg] at e; simp at e
    | some q =>
      rw [hg] at e
      simp only [Option.map_some, Option.some.injEq] at e
      rw [← e]
      apply hend q
      rw [stream_pages c L h, List.getLast?_append, hg]; rfl
  have hlastS : ∀ l, (prepare L.c1 L.cK new ++ T).getLast? = some l → l.complete = true := by
    intro l hl
    rw [List.getLast?_append] at hl
    cases hg : T.getLast? with
    | some q => rw [hg] at hl; simp at hl; subst hl; exact hlastT q hg
    | none =>
      rw [hg] at hl
      simp only [Option.none_or] at hl
      have hTnil : T = [] := by simpa using hg
      rw [last_prepare_complete L.c1 L.cK new hf.ne hf.cont hf.lastpk l hl]
      -- nothing of the stream behind the run: its last old page was the stream's last page
      have hpostnil : stream L.serial L.post = [] := by
        have hk : (stream L.serial L.post).length = T.length := by
          rw [← hT]; split
          · exact (seq_stream_renum _ _ _).2.symm
          · rfl
        rw [hTnil] at hk
        exact List.eq_nil_of_length_eq_zero hk
      apply hend L.cK
      rw [stream_pages c L h, hpostnil, List.append_nil, List.getLast?_append, last_oldPages L hne]; rfl
  obtain ⟨opens, cl, rest, hdec, hopen, hclosed⟩ := exists_first_closed (prepare L.c1 L.cK new ++ T)
    (by simp [hprep_ne]) hlastS
  -- the first packet of the stream from the run on is the new comment packet
  have hheadc : ∀ p, (prepare L.c1 L.cK new ++ T).head? = some p → p.continued = false := by
    intro p hp
    cases hpn : prepare L.c1 L.cK new with
    | nil => exact absurd hpn hprep_ne
    | cons q qs =>
      rw [hpn] at hp; simp at hp; subst hp
      have := (contOK_prepare L.c1 L.cK new hf.ne hf.cont hf.lastpk).1
      rw [hpn] at this
      rw [this.1]; exact hfresh
  have hcontS : contOK false (prepare L.c1 L.cK new ++ T) := by
    rw [hst, List.append_assoc, contOK_append] at hcont
    exact contOK_head _ _ hcont.2 hheadc
  have hserS : ∀ p ∈ prepare L.c1 L.cK new ++ T, p.serial = L.serial := by
    intro p hp
    have : p ∈ stream L.serial (L.after new) := by rw [hst, List.append_assoc]; exact List.mem_append_right _ hp
    simp only [stream, List.mem_filter, decide_eq_true_eq] at this
    exact this.2
  have hseqS : ∃ b, (prepare L.c1 L.cK new ++ T).map (·.sequence) = List.range' b (prepare L.c1 L.cK new ++ T).length := by
    rw [hst, List.append_assoc] at hseqs
    exact ⟨_, (range'_split _ _ _ _ hseqs).2⟩
  have hcar := carries_of new _ L.c1 L.cK hf.carries hf.fresh hf.head
  have hre : ∃ xs, reasm [] (prepare L.c1 L.cK new ++ T) = new0 :: xs := by
    rw [reasm_append, hcar, List.nil_append]
    by_cases ho : others = []
    · subst ho
      -- the run's last page is complete, what follows starts a packet
      obtain ⟨i, hi⟩ := oldPages_snoc L hne
      have hcl := chain_last_closed L.slots h.chain i L.cK hi
      have hold : reasm [] L.oldPages = [old0] := (toPackets_ok _ _ _ (head_oldPages L hne) hfresh hpk).symm
      have hlen : L.cK.packets.length ≤ 1 := by
        have := length_reasm_ge_last [] i L.cK
        rw [← hi, hold] at this
        simpa using this
      have hcomp : L.cK.complete = true := by
        simp only [closed, Bool.or_eq_true, decide_eq_true_eq] at hcl
        rcases hcl with hcl | hcl
        · exact hcl
        · omega
      have hpost := hs.post
      rw [hcomp] at hpost
      have hTf : startsFresh T = true := by
        rw [← hT]; split
        · exact startsFresh_of_contOK _ (contOK_stream_renum _ _ _ _ hpost)
        · exact startsFresh_of_contOK _ hpost
      exact ⟨_, by rw [reasm_fresh [new0] T hTf]; rfl⟩
    · have := reasm_prefix [new0] others T ho
      exact ⟨_, by simpa using this⟩
  obtain ⟨xs, hre⟩ := hre
  have hfirst : ∀ p, (opens ++ [cl]).head? = some p → p.packets ≠ [] := by
    intro p hp
    have hsame : (opens ++ [cl]).head? = (prepare L.c1 L.cK new ++ T).head? := by
      rw [hdec]; cases opens <;> rfl
    rw [hsame] at hp
    cases hpn : prepare L.c1 L.cK new with
    | nil => exact absurd hpn hprep_ne
    | cons q qs =>
      rw [hpn] at hp; simp at hp; subst hp
      have hq : q ∈ prepare L.c1 L.cK new := by rw [hpn]; simp
      -- the head of `prepare` has the packets of the head of `new`
      have hsd := sameData_prepare L.c1 L.cK new hf.head
      cases hnw : new with
      | nil => exact absurd hnw hf.ne
      | cons n0 nr =>
        rw [hpn, hnw] at hsd
        simp only [SameData, List.map_cons, List.cons.injEq, Prod.mk.injEq] at hsd
        rw [hsd.1.1]; exact hhead n0 (by rw [hnw]; rfl)
  have hdec0 := hdec
  rw [hdec] at hcontS hserS hseqS hre
  obtain ⟨ys, hys⟩ := run_first_packet L.serial opens cl rest new0 xs hserS hseqS hcontS hclosed hfirst hre
  refine ⟨opens, cl, rest, ys, hdec0, hopen, hclosed, hys, ?_, hcontS, hseqS⟩
  intro y hy
  have hyne := hfirst y hy
  cases hpk' : y.packets with
  | nil => exact absurd hpk' hyne
  | cons x xs' =>
    refine ⟨x, xs', rfl, ?_⟩
    have hsame : (opens ++ [cl]).head? = (opens ++ cl :: rest).head? := by cases opens <;> rfl
    rw [hsame] at hy
    cases hS : opens ++ cl :: rest with
    | nil => rw [hS] at hy; simp at hy
    | cons q r =>
      rw [hS] at hy hcontS hre
      simp only [List.head?_cons, Option.some.injEq] at hy
      subst hy
      have hq : q ∈ prepare L.c1 L.cK new := by
        have : (prepare L.c1 L.cK new ++ T).head? = some q := by rw [hdec0, hS]; rfl
        cases hpn : prepare L.c1 L.cK new with
        | nil => exact absurd hpn hprep_ne
        | cons q' qs => rw [hpn] at this; simp at this; rw [this]; simp
      exact head_packet q r (hf.canon q hq) hcontS x xs' hpk' new0 xs hre


/-! ### the Opus reader: `scanFrom` to the first "OpusTags" page, then `collect` -/

/-- `collect` started on an open page appends the stream's pages up to the first closed one -/
theorem collect_pages (f : Bytes) (ser : Nat) (Y : List Page) (A R : Bytes) (fuel : Nat) (acc : List Rd) (last : Page)
    (opens : List Page) (cl : Page) (rest : List Page) (hf : f = A ++ renderPages Y ++ R) (hY : ∀ p ∈ Y, Good p)
    (hs : stream ser Y = opens ++ cl :: rest) (ho : ∀ p ∈ opens, closed p = false) (hc : closed cl = true)
    (hlast : closed last = false) (hfuel : Y.length + 1 < fuel) :
    ∃ rs, collect f ser fuel acc last A.length = .ok rs ∧ rs.map (·.page) = acc.map (·.page) ++ opens ++ [cl] := by
  induction Y generalizing A fuel acc last opens with
  | nil => simp [stream] at hs
  | cons y r ih =>
    cases fuel with
    | zero => simp at hfuel
    | succ fuel =>
      have hgy := hY y (by simp)
      have hf' : f = A ++ rb y ++ (renderPages r ++ R) := by rw [hf]; simp [List.append_assoc]
      have hl : (last.complete || decide (last.packets.length > 1)) = false := hlast
      simp only [collect, hl, Bool.false_eq_true, ↓reduceIte, readPage_at f A _ y hgy hf']
      by_cases hser : y.serial = ser
      · simp only [hser, ↓reduceIte]
        have hs' : y :: stream ser r = opens ++ cl :: rest := by
          simpa [stream, List.filter_cons, hser] using hs
        cases opens with
        | nil =>
          simp only [List.nil_append, List.cons.injEq] at hs'
          obtain ⟨rfl, _⟩ := hs'
          have hcy : (y.complete || decide (y.packets.length > 1)) = true := hc
          cases fuel with
          | zero => simp at hfuel
          | succ fuel =>
            simp only [collect, hcy, ↓reduceIte]
            exact ⟨_, rfl, by simp⟩
        | cons o os =>
          simp only [List.cons_append, List.cons.injEq] at hs'
          obtain ⟨rfl, hs''⟩ := hs'
          have hopen : closed y = false := ho y (by simp)
          obtain ⟨rs, h1, h2⟩ := ih (A ++ rb y) fuel (acc ++ [⟨y, A.length⟩]) y os (by rw [hf]; simp [List.append_assoc])
            (fun p hp => hY p (by simp [hp])) hs'' (fun p hp => ho p (by simp [hp])) hopen (by simp at hfuel; omega)
          simp only [List.length_append, length_rb] at h1
          exact ⟨rs, h1, by rw [h2]; simp [List.append_assoc]⟩
      · simp only [hser, ↓reduceIte]
        have hs' : stream ser r = opens ++ cl :: rest := by
          simpa [stream, List.filter_cons, hser] using hs
        obtain ⟨rs, h1, h2⟩ := ih (A ++ rb y) fuel acc last opens (by rw [hf]; simp [List.append_assoc])
          (fun p hp => hY p (by simp [hp])) hs' ho hlast (by simp at hfuel; omega)
        simp only [List.length_append, length_rb] at h1
        exact ⟨rs, h1, h2⟩

/-- a list of pages up to the first page of a stream -/
theorem split_first_of_stream (ser : Nat) (Y : List Page) (s0 : Page) (S : List Page) (hs : stream ser Y = s0 :: S) :
    ∃ skip Y', Y = skip ++ s0 :: Y' ∧ (∀ p ∈ skip, p.serial ≠ ser) ∧ stream ser Y' = S := by
  induction Y with
  | nil => simp [stream] at hs
  | cons y r ih =>
    by_cases hser : y.serial = ser
    · have hs' : y :: stream ser r = s0 :: S := by simpa [stream, List.filter_cons, hser] using hs
      simp only [List.cons.injEq] at hs'
      obtain ⟨rfl, h2⟩ := hs'
      exact ⟨[], r, rfl, by simp, h2⟩
    · have hs' : stream ser r = s0 :: S := by simpa [stream, List.filter_cons, hser] using hs
      obtain ⟨skip, Y', h1, h2, h3⟩ := ih hs'
      refine ⟨y :: skip, Y', by rw [h1]; rfl, ?_, h3⟩
      intro p hp
      simp only [List.mem_cons] at hp
      rcases hp with rfl | hp
      · exact hser
      · exact h2 p hp

/-- the Opus way of finding the comment pages, on pages: from a position in front of the stream's pages
`opens ++ cl :: rest` (`opens` open, `cl` closed) whose first page starts with "OpusTags", the pages
found are `opens ++ [cl]` -/
theorem opus_pages (f : Bytes) (ser : Nat) (Y : List Page) (A R : Bytes) (opens : List Page) (cl : Page) (rest : List Page)
    (hf : f = A ++ renderPages Y ++ R) (hY : ∀ p ∈ Y, Good p)
    (hs : stream ser Y = opens ++ cl :: rest) (ho : ∀ p ∈ opens, closed p = false) (hc : closed cl = true)
    (hmagic : ∀ y, (opens ++ [cl]).head? = some y → startsWith magicOpusTags y = true) (fuel : Nat) (hfuel : Y.length + 2 < fuel) :
    ∃ r next rs, scanFrom f (fun p => decide (p.serial = ser) && startsWith magicOpusTags p) fuel A.length = .ok (r, next) ∧
      collect f r.page.serial fuel [r] r.page next = .ok rs ∧ rs.map (·.page) = opens ++ [cl] := by
  obtain ⟨s0, S, hS⟩ : ∃ s0 S, opens ++ cl :: rest = s0 :: S := by cases opens <;> simp
  rw [hS] at hs
  obtain ⟨skip, Y', hY', hskip, hstr⟩ := split_first_of_stream ser Y s0 S hs
  have hs0 : s0.serial = ser := by
    have : s0 ∈ stream ser Y := by rw [hs]; simp
    simp only [stream, List.mem_filter, decide_eq_true_eq] at this
    exact this.2
  have hhead : (opens ++ [cl]).head? = some s0 := by
    cases opens with
    | nil => simp at hS ⊢; exact hS.1
    | cons o os => simp at hS ⊢; exact hS.1
  have hf1 : f = A ++ renderPages skip ++ rb s0 ++ (renderPages Y' ++ R) := by
    rw [hf, hY']; simp [renderPages_append, List.append_assoc]
  have hlen : Y.length = skip.length + 1 + Y'.length := by rw [hY']; simp; omega
  have hscan := scanFrom_pages f (fun p => decide (p.serial = ser) && startsWith magicOpusTags p) skip s0 A _ fuel hf1
    (fun p hp => ⟨hY p (by rw [hY']; simp [hp]), by simp [hskip p hp]⟩) (hY s0 (by rw [hY']; simp))
    (by simp [hs0, hmagic s0 hhead]) (by omega)
  refine ⟨⟨s0, A.length + (renderPages skip).length⟩, A.length + (renderPages skip).length + s0.size, ?_⟩
  cases opens with
  | nil =>
    simp only [List.nil_append, List.cons.injEq] at hS
    obtain ⟨rfl, _⟩ := hS
    have hcy : (cl.complete || decide (cl.packets.length > 1)) = true := hc
    cases fuel with
    | zero => simp at hfuel
    | succ fuel =>
      refine ⟨[⟨cl, A.length + (renderPages skip).length⟩], hscan, ?_, by simp⟩
      simp only [collect, hcy, ↓reduceIte]
  | cons o os =>
    simp only [List.cons_append, List.cons.injEq] at hS
    obtain ⟨rfl, hS2⟩ := hS
    obtain ⟨rs, h1, h2⟩ := collect_pages f ser Y' (A ++ renderPages skip ++ rb o) R fuel [⟨o, A.length + (renderPages skip).length⟩] o os cl rest
      (by rw [hf1]; simp [List.append_assoc]) (fun p hp => hY p (by rw [hY']; simp [hp])) (by rw [hstr, ← hS2])
      (fun p hp => ho p (by simp [hp])) hc (ho o (by simp)) (by omega)
    refine ⟨rs, hscan, ?_, by rw [h2]; simp⟩
    simp only [List.length_append, length_rb] at h1
    rw [hs0]; exact h1

theorem length_renderPages_ge3 (ps : List Page) : 3 * ps.length ≤ (renderPages ps).length := by
  induction ps with
  | nil => simp
  | cons p r ih =>
    simp only [renderPages_cons, List.length_cons, List.length_append, length_rb]
    have : 27 ≤ p.size := by simp only [Page.size]; omega
    omega

/-- the comment constructor of each of the five codecs, started behind the identification page of the
saved file, finds the new comment packet and strips the codec's prefix from it -/
theorem readComment_after (c : Codec) (L : Layout) (h : L.OK c) (hfresh : L.c1.continued = false)
    (hflags : contOK false (stream L.serial L.pages))
    (a : Nat) (hnum : (stream L.serial L.pages).map (·.sequence) = List.range' a (stream L.serial L.pages).length)
    (hend : ∀ l, (stream L.serial L.pages).getLast? = some l → l.complete = true)
    (pre1 pre2 : List Page) (hpre : L.pre = pre1 ++ pre2) (hpre2 : ∀ p ∈ pre2, p.serial ≠ L.serial)
    (old0 new0 : Bytes) (others : List Bytes) (new : List Page)
    (hpk : toPackets L.oldPages false = .ok (old0 :: others))
    (hnew : newPages c (new0 :: others) L.oldPages = .ok new)
    (hseq : L.c1.sequence + new.length + (L.post.filter (·.serial = L.serial)).length ≤ 2 ^ 32)
    (hmagic : c = .opus → magicOpusTags <+: new0) :
    readComment c (renderPages (L.after new)) L.serial (renderPages pre1).length = .ok (new0.drop c.stripLen) := by
  have hs := streamOK_of_contOK c L h hfresh hflags
  have hf := facts_of_edit c L h hs old0 new0 others new hpk hnew
  have hgood := (readAll_after c L h _ new hf hseq).1
  obtain ⟨opens, cl, rest, ys, hdec, hopen, hclosed, htp, hx, _, _⟩ :=
    run_after c L h hfresh hflags a hnum hend old0 new0 others new hpk hnew hseq
  generalize hT : stream L.serial (if L.slots.length ≠ new.length then renum L.serial (L.c1.sequence + new.length) L.post else L.post) = T at hdec
  have hst := stream_after c L h new
  rw [hT] at hst
  obtain ⟨Y, hY⟩ : ∃ Y, L.after new = pre1 ++ Y := by
    refine ⟨pre2 ++ splicePages (fitPages L.slots.length (prepare L.c1 L.cK new)) L.slots ++
      (if L.slots.length ≠ new.length then renum L.serial (L.c1.sequence + new.length) L.post else L.post), ?_⟩
    simp [Layout.after, hpre, List.append_assoc]
  have hSY : stream L.serial Y = opens ++ cl :: rest := by
    have h1 : stream L.serial (L.after new) = stream L.serial pre1 ++ stream L.serial Y := by rw [hY, stream_append]
    rw [hst, hpre, stream_append, stream_of_none _ pre2 hpre2, List.append_nil, List.append_assoc] at h1
    rw [← hdec]; exact (List.append_cancel_left h1).symm
  have hfile : renderPages (L.after new) = renderPages pre1 ++ renderPages Y ++ [] := by rw [hY]; simp [renderPages_append]
  have hgY : ∀ p ∈ Y, Good p := fun p hp => hgood p (by rw [hY]; simp [hp])
  have hYne : Y ≠ [] := by intro he; rw [he] at hSY; simp [stream] at hSY
  have hlen3 := length_renderPages_ge3 Y
  have hlenY : 0 < Y.length := List.length_pos_iff.mpr hYne
  have hfl : (renderPages (L.after new)).length = (renderPages pre1).length + (renderPages Y).length := by
    rw [hfile]; simp
  unfold readComment
  by_cases hc : c = .opus
  · subst hc
    have hm : ∀ y, (opens ++ [cl]).head? = some y → startsWith magicOpusTags y = true := by
      intro y hy
      obtain ⟨x, xs, hp, hcase⟩ := hx y hy
      have hmg := hmagic rfl
      simp only [startsWith, hp, List.isPrefixOf_iff_prefix]
      rcases hcase with rfl | ⟨hl, hpre'⟩
      · exact hmg
      · exact List.prefix_of_prefix_length_le hmg hpre' (by simp [magicOpusTags]; omega)
    obtain ⟨r, next, rs, h1, h2, h3⟩ := opus_pages (renderPages (L.after new)) L.serial Y (renderPages pre1) [] opens cl rest
      hfile hgY hSY hopen hclosed hm ((renderPages (L.after new)).length + 1) (by omega)
    simp only [h1, h2, h3, htp]
    rfl
  · have hloop := readLoop_pages (renderPages (L.after new)) L.serial Y (renderPages pre1) [] ((renderPages (L.after new)).length + 1)
      [] opens cl rest hfile hgY hSY hopen hclosed (by omega)
    simp only [List.nil_append] at hloop
    cases c with
    | opus => exact absurd rfl hc
    | vorbis => simp only [hloop, htp]; rfl
    | theora => simp only [hloop, htp]; rfl
    | speex => simp only [hloop, htp]; rfl
    | flac => simp only [hloop, htp]; rfl

/-- (a) mutagen's own reader on the saved file, all five codecs: the comment constructor, started behind
the identification page, followed by `VComment.load` returns exactly the vendor string and the comments
that were saved (and, as the rest, the padding; Opus: the preserved data) -/
theorem readTags_saved (c : Codec) (L : Layout) (h : L.OK c) (hfresh : L.c1.continued = false)
    (hflags : contOK false (stream L.serial L.pages))
    (a : Nat) (hnum : (stream L.serial L.pages).map (·.sequence) = List.range' a (stream L.serial L.pages).length)
    (hend : ∀ l, (stream L.serial L.pages).getLast? = some l → l.complete = true)
    (pre1 pre2 : List Page) (hpre : L.pre = pre1 ++ pre2) (hpre2 : ∀ p ∈ pre2, p.serial ≠ L.serial)
    (vendor : Bytes) (cs : List (Bytes × Bytes)) (hv : vendor.length < 256 ^ 4) (hn : cs.length < 256 ^ 4)
    (hcs : ∀ kv ∈ cs, Vorbis.CommentOK kv ∧ validKey kv.1 = true)
    (padData : Bytes) (pad : PadChoice) (old0 new0 : Bytes) (others : List Bytes) (new : List Page)
    (hpk : toPackets L.oldPages false = .ok (old0 :: others)) (hflac : c = .flac → old0 ≠ [])
    (hnp : newPacket c old0 (Vorbis.encode vendor cs c.framing) padData pad L.render.length = .ok new0)
    (hnew : newPages c (new0 :: others) L.oldPages = .ok new)
    (hseq : L.c1.sequence + new.length + (L.post.filter (·.serial = L.serial)).length ≤ 2 ^ 32) :
    ∃ rest, readTags c (renderPages (L.after new)) L.serial (renderPages pre1).length = .ok (vendor, cs, rest) := by
  obtain ⟨hd, tail, hshape, hlen, _, hpfx⟩ := newPacket_shape c old0 _ padData pad _ new0 hflac hnp
  have hdrop : new0.drop c.stripLen = Vorbis.encode vendor cs c.framing ++ tail := by
    rw [hshape, List.append_assoc, ← hlen]; exact List.drop_left' rfl
  have hmagic : c = .opus → magicOpusTags <+: new0 := by
    intro hc
    have := (hpfx (by rw [hc]; simp)).1
    rw [hshape, this, hc, List.append_assoc]
    exact List.prefix_append _ _
  have hrc := readComment_after c L h hfresh hflags a hnum hend pre1 pre2 hpre hpre2 old0 new0 others new hpk hnew hseq hmagic
  refine ⟨tail, ?_⟩
  unfold readTags
  rw [hrc, hdrop]
  exact loadVC_encode vendor cs c.framing tail hv hn hcs


/-! ### the run the second save finds -/

theorem length_extLast (acc : List Bytes) (d : Bytes) (h : acc ≠ []) : (extLast acc d).length = acc.length := by
  induction acc with
  | nil => exact absurd rfl h
  | cons a r ih =>
    cases r with
    | nil => rfl
    | cons b r' => simp only [extLast, List.length_cons] at ih ⊢; rw [ih (by simp)]

/-- continuation pages that all leave their only packet open add no packet -/
theorem reasm_open_len (ps : List Page) (acc : List Bytes) (hacc : acc ≠ []) (hc : contOK true ps)
    (ho : ∀ p ∈ ps, closed p = false) : (reasm acc ps).length = acc.length := by
  induction ps generalizing acc with
  | nil => rfl
  | cons p r ih =>
    have hop := ho p (by simp)
    simp only [closed, Bool.or_eq_false_iff, decide_eq_false_iff_not] at hop
    have hcomp := hop.1
    have hne := hc.2.1 hcomp
    have hcont := hc.1
    have hr : contOK true r := by have := hc.2.2; rw [hcomp] at this; exact this
    cases hp : p.packets with
    | nil => exact absurd hp hne
    | cons f rest =>
      have hrest : rest = [] := by
        cases rest with
        | nil => rfl
        | cons _ _ => rw [hp] at hop; simp at hop
      subst hrest
      simp only [reasm, hp, hcont, ↓reduceIte, List.append_nil]
      rw [ih (extLast acc f) (by intro he; have := length_extLast acc f hacc; rw [he] at this; simp at this; exact hacc (List.eq_nil_of_length_eq_zero this.symm))
        hr (fun q hq => ho q (by simp [hq])), length_extLast acc f hacc]

/-- a run that starts a packet and whose pages all leave their only packet open holds one packet -/
theorem reasm_all_open (ps : List Page) (hne : ps ≠ []) (hc : contOK false ps) (ho : ∀ p ∈ ps, closed p = false) :
    (reasm [] ps).length = 1 := by
  cases ps with
  | nil => exact absurd rfl hne
  | cons p r =>
    have hop := ho p (by simp)
    simp only [closed, Bool.or_eq_false_iff, decide_eq_false_iff_not] at hop
    have hcomp := hop.1
    have hpne := hc.2.1 hcomp
    have hr : contOK true r := by have := hc.2.2; rw [hcomp] at this; exact this
    cases hp : p.packets with
    | nil => exact absurd hp hpne
    | cons f rest =>
      have hrest : rest = [] := by
        cases rest with
        | nil => rfl
        | cons _ _ => rw [hp] at hop; simp at hop
      subst hrest
      simp only [reasm, hp, hc.1, Bool.false_eq_true, ↓reduceIte, List.nil_append]
      rw [reasm_open_len r [f] (by simp) hr (fun q hq => ho q (by simp [hq]))]; rfl

/-- a list with a closed page: the open pages in front of the first closed one -/
theorem first_closed_of_mem (S : List Page) (h : ∃ p ∈ S, closed p = true) :
    ∃ opens cl rest, S = opens ++ cl :: rest ∧ (∀ p ∈ opens, closed p = false) ∧ closed cl = true := by
  induction S with
  | nil => obtain ⟨p, hp, _⟩ := h; simp at hp
  | cons p r ih =>
    by_cases hc : closed p = true
    · exact ⟨[], p, r, rfl, by simp, hc⟩
    · have : ∃ q ∈ r, closed q = true := by
        obtain ⟨q, hq, hqc⟩ := h
        simp only [List.mem_cons] at hq
        rcases hq with rfl | hq
        · exact absurd hqc hc
        · exact ⟨q, hq, hqc⟩
      obtain ⟨o, cl, rest, he, ho, hcl⟩ := ih this
      refine ⟨p :: o, cl, rest, by rw [he]; rfl, ?_, hcl⟩
      intro q hq
      simp only [List.mem_cons] at hq
      rcases hq with rfl | hq
      · simpa using hc
      · exact ho q hq

theorem first_closed_unique (o1 o2 : List Page) (c1 c2 : Page) (r1 r2 : List Page)
    (he : o1 ++ c1 :: r1 = o2 ++ c2 :: r2) (h1 : ∀ p ∈ o1, closed p = false) (h2 : ∀ p ∈ o2, closed p = false)
    (hc1 : closed c1 = true) (hc2 : closed c2 = true) : o1 = o2 ∧ c1 = c2 ∧ r1 = r2 := by
  induction o1 generalizing o2 with
  | nil =>
    cases o2 with
    | nil => simp at he; exact ⟨rfl, he.1, he.2⟩
    | cons a b =>
      simp at he
      have := h2 a (by simp)
      rw [← he.1, hc1] at this; cases this
  | cons a b ih =>
    cases o2 with
    | nil =>
      simp at he
      have := h1 a (by simp)
      rw [he.1, hc2] at this; cases this
    | cons a' b' =>
      simp only [List.cons_append, List.cons.injEq] at he
      obtain ⟨h3, h4, h5⟩ := ih b' he.2 (fun p hp => h1 p (by simp [hp])) (fun p hp => h2 p (by simp [hp]))
      exact ⟨by rw [he.1, h3], h4, h5⟩

/-- pages that start with a page of the stream, cut into the run up to the first closed page of the
stream — each page of it with the foreign pages behind it, none behind the last — and the rest -/
theorem reslice (ser : Nat) (opens : List Page) (cl : Page) (rest : List Page) (Z : List Page) (z0 : Page) (Z0 : List Page)
    (hZ : Z = z0 :: Z0) (hz0 : z0.serial = ser) (hs : stream ser Z = opens ++ cl :: rest)
    (ho : ∀ p ∈ opens, closed p = false) (hc : closed cl = true) :
    ∃ (m : List Slot) (post : List Page), Z = slotPages m ++ post ∧ m.map (·.1) = opens ++ [cl] ∧ Chain m ∧
      (∀ s ∈ m, ∀ p ∈ s.2, p ∈ Z ∧ p.serial ≠ ser) ∧ stream ser post = rest ∧ (∀ p ∈ post, p ∈ Z) := by
  induction opens generalizing Z z0 Z0 with
  | nil =>
    subst hZ
    have hs' : z0 :: stream ser Z0 = cl :: rest := by simpa [stream, List.filter_cons, hz0] using hs
    simp only [List.cons.injEq] at hs'
    obtain ⟨rfl, h2⟩ := hs'
    refine ⟨[(z0, [])], Z0, by simp [slotPages], rfl, ⟨hc, rfl⟩, by simp, h2, fun p hp => by simp [hp]⟩
  | cons o os ih =>
    subst hZ
    have hs' : z0 :: stream ser Z0 = o :: (os ++ cl :: rest) := by simpa [stream, List.filter_cons, hz0] using hs
    simp only [List.cons.injEq] at hs'
    obtain ⟨rfl, h2⟩ := hs'
    obtain ⟨s1, S1, hS1⟩ : ∃ s1 S1, os ++ cl :: rest = s1 :: S1 := by cases os <;> simp
    rw [hS1] at h2
    obtain ⟨skip, Y', hY', hskip, hstr⟩ := split_first_of_stream ser Z0 s1 S1 h2
    have hs1 : s1.serial = ser := by
      have : s1 ∈ stream ser Z0 := by rw [h2]; simp
      simp only [stream, List.mem_filter, decide_eq_true_eq] at this
      exact this.2
    obtain ⟨m1, post, e1, e2, e3, e4, e5, e6⟩ := ih (s1 :: Y') s1 Y' rfl hs1
      (by simp only [stream, List.filter_cons, hs1, decide_true, ↓reduceIte]; rw [hS1]; congr 1)
      (fun p hp => ho p (by simp [hp]))
    refine ⟨(z0, skip) :: m1, post, ?_, by simp [e2], ?_, ?_, e5, ?_⟩
    · rw [hY', slotPages_cons, e1]; simp [List.append_assoc]
    · cases m1 with
      | nil => exact absurd e3 (by simp [Chain])
      | cons t m' => exact ⟨ho z0 (by simp), e3⟩
    · intro s hs p hp
      simp only [List.mem_cons] at hs
      rcases hs with rfl | hs
      · exact ⟨by rw [hY']; simp [hp], hskip p hp⟩
      · have := e4 s hs p hp
        exact ⟨by rw [hY']; simp; right; right; simpa using this.1, this.2⟩
    · intro p hp
      have := e6 p hp
      rw [hY']; simp; right; right; simpa using this


/-! ### the second save: the first save's output as a layout again -/

theorem fitPages_head (k : Nat) (hk : 0 < k) (p : Page) (r : List Page) : ∃ x ds, fitPages k (p :: r) = (p :: x) :: ds := by
  unfold fitPages
  split
  · exact ⟨[], _, rfl⟩
  · by_cases h1 : k = 1
    · subst h1; exact ⟨r, [], by simp⟩
    · obtain ⟨j, rfl⟩ : ∃ j, k = j + 2 := ⟨k - 2, by omega⟩
      exact ⟨[], _, rfl⟩

/-- the codec finds the new first page where it found the old one -/
theorem startOK_transfer (c : Codec) (hc : c ≠ .flac) (pre : List Page) (c1 y : Page) (hser : y.serial = c1.serial)
    (hmag : c ≠ .speex → startsWith c.commentPrefix y = true) (h : StartOK c pre c1) : StartOK c pre y := by
  cases c with
  | flac => exact absurd rfl hc
  | vorbis =>
    obtain ⟨p1, hd, p2, e, a1, a2, a3, a4, _⟩ := h
    exact ⟨p1, hd, p2, e, a1, a2, a3, by rw [hser]; exact a4, hmag (by decide)⟩
  | theora =>
    obtain ⟨p1, hd, p2, e, a1, a2, a3, a4, _⟩ := h
    exact ⟨p1, hd, p2, e, a1, a2, a3, by rw [hser]; exact a4, hmag (by decide)⟩
  | opus =>
    obtain ⟨p1, hd, p2, e, a1, a2, a3, a4, a5, a6, a7, _⟩ := h
    exact ⟨p1, hd, p2, e, a1, a2, a3, a4, a5, a6, by rw [hser]; exact a7, hmag (by decide)⟩
  | speex =>
    obtain ⟨p1, hd, p2, e, a1, a2, a3, a4⟩ := h
    exact ⟨p1, hd, p2, e, a1, a2, a3, by rw [hser]; exact a4⟩

/-- the first closed page of the stream behind the edit is one of the new pages -/
theorem closed_in_prepare (c : Codec) (L : Layout) (h : L.OK c) (hs : L.StreamOK) (old0 new0 : Bytes) (others : List Bytes)
    (new : List Page) (hpk : toPackets L.oldPages false = .ok (old0 :: others))
    (hf : NewFacts L (new0 :: others) new) : ∃ p ∈ prepare L.c1 L.cK new, closed p = true := by
  have hne : L.slots ≠ [] := by intro he; have := h.chain; rw [he] at this; exact this
  have hprep_ne : prepare L.c1 L.cK new ≠ [] := by
    intro he; have := length_prepare L.c1 L.cK new; rw [he] at this
    exact hf.ne (List.eq_nil_of_length_eq_zero this.symm)
  apply Classical.byContradiction
  intro hno
  have hopen : ∀ p ∈ prepare L.c1 L.cK new, closed p = false := by
    intro p hp
    cases hcp : closed p with
    | false => rfl
    | true => exact absurd ⟨p, hp, hcp⟩ hno
  have hcont : contOK false (prepare L.c1 L.cK new) := by
    have := (contOK_prepare L.c1 L.cK new hf.ne hf.cont hf.lastpk).1
    rw [hs.fresh] at this; exact this
  have hlen := reasm_all_open _ hprep_ne hcont hopen
  rw [carries_of new _ L.c1 L.cK hf.carries hf.fresh hf.head] at hlen
  simp only [List.nil_append, List.length_cons] at hlen
  have hothers : others = [] := List.eq_nil_of_length_eq_zero (by omega)
  -- the last new page is open, so the old last page was incomplete and held two packets
  obtain ⟨l, hl⟩ : ∃ l, (prepare L.c1 L.cK new).getLast? = some l := by
    cases hg : (prepare L.c1 L.cK new).getLast? with
    | none => simp at hg; exact absurd hg hprep_ne
    | some l => exact ⟨l, rfl⟩
  have hlc := last_prepare_complete L.c1 L.cK new hf.ne hf.cont hf.lastpk l hl
  have hlo := hopen l (List.mem_of_getLast? hl)
  simp only [closed, Bool.or_eq_false_iff] at hlo
  rw [hlc] at hlo
  obtain ⟨i, hi⟩ := oldPages_snoc L hne
  have hcl := chain_last_closed L.slots h.chain i L.cK hi
  simp only [closed, hlo.1, Bool.false_or, decide_eq_true_eq] at hcl
  have hold : reasm [] L.oldPages = old0 :: others := (toPackets_ok _ _ _ (head_oldPages L hne) hs.fresh hpk).symm
  have := length_reasm_ge_last [] i L.cK
  rw [← hi, hold, hothers] at this
  simp at this; omega

/-- the output of a save is a well-formed, tidy layout again: same pages in front, the run of the
second save is the new pages up to the first closed one, its first packet is the new comment packet -/
theorem second_layout (c : Codec) (hc : c ≠ .flac) (L : Layout) (h : L.OK c) (hfresh : L.c1.continued = false)
    (hflags : contOK false (stream L.serial L.pages))
    (a : Nat) (hnum : (stream L.serial L.pages).map (·.sequence) = List.range' a (stream L.serial L.pages).length)
    (hend : ∀ l, (stream L.serial L.pages).getLast? = some l → l.complete = true)
    (old0 new0 : Bytes) (others : List Bytes) (new : List Page)
    (hpk : toPackets L.oldPages false = .ok (old0 :: others))
    (hnew : newPages c (new0 :: others) L.oldPages = .ok new)
    (hseq : L.c1.sequence + new.length + (L.post.filter (·.serial = L.serial)).length ≤ 2 ^ 32)
    (hprefix : c.commentPrefix <+: new0) :
    ∃ L' : Layout, L'.pages = L.after new ∧ L'.OK c ∧ L'.StreamOK ∧ L'.Tidy ∧
      ∃ ys, toPackets L'.oldPages false = .ok (new0 :: ys) := by
  have hs := streamOK_of_contOK c L h hfresh hflags
  have hf := facts_of_edit c L h hs old0 new0 others new hpk hnew
  have hgood := (readAll_after c L h _ new hf hseq).1
  have hne : L.slots ≠ [] := by intro he; have := h.chain; rw [he] at this; exact this
  obtain ⟨opens, cl, rest, ys, hdec, hopen, hclosed, htp, hx, hcontS, hseqS⟩ :=
    run_after c L h hfresh hflags a hnum hend old0 new0 others new hpk hnew hseq
  generalize hT : stream L.serial (if L.slots.length ≠ new.length then renum L.serial (L.c1.sequence + new.length) L.post else L.post) = T at hdec
  have hst := stream_after c L h new
  rw [hT] at hst
  -- the run ends inside the new pages
  obtain ⟨o', c', r', he', ho', hc'⟩ := first_closed_of_mem _ (closed_in_prepare c L h hs old0 new0 others new hpk hf)
  have huniq := first_closed_unique o' opens c' cl (r' ++ T) rest (by rw [← hdec, he']; simp) ho' hopen hc' hclosed
  obtain ⟨rfl, rfl, _⟩ := huniq
  -- the pages behind `pre`
  generalize hZ : splicePages (fitPages L.slots.length (prepare L.c1 L.cK new)) L.slots ++
      (if L.slots.length ≠ new.length then renum L.serial (L.c1.sequence + new.length) L.post else L.post) = Z
  have hafter : L.after new = L.pre ++ Z := by rw [← hZ]; simp [Layout.after, List.append_assoc]
  have hSZ : stream L.serial Z = o' ++ c' :: rest := by
    have h1 : stream L.serial (L.after new) = stream L.serial L.pre ++ stream L.serial Z := by rw [hafter, stream_append]
    rw [hst, List.append_assoc] at h1
    rw [← hdec]; exact (List.append_cancel_left h1).symm
  obtain ⟨y, X', hX⟩ : ∃ y X', o' ++ [c'] = y :: X' := by cases o' <;> simp
  have hyprep : ∃ B, prepare L.c1 L.cK new = y :: (X' ++ B) := by
    refine ⟨r', ?_⟩
    rw [he', ← List.cons_append, ← hX]; simp
  obtain ⟨B, hB⟩ := hyprep
  have hymem : y ∈ prepare L.c1 L.cK new := by rw [hB]; simp
  have hyser : y.serial = L.serial := serial_prepare L.c1 L.cK new y hymem
  obtain ⟨Z0, hZ0⟩ : ∃ Z0, Z = y :: Z0 := by
    cases hsl : L.slots with
    | nil => exact absurd hsl hne
    | cons s m =>
      obtain ⟨x, ds, hfit⟩ := fitPages_head (s :: m).length (by simp) y (X' ++ B)
      rw [← hZ, hsl, hB, hfit]
      exact ⟨_, rfl⟩
  obtain ⟨m, post, e1, e2, e3, e4, e5, e6⟩ := reslice L.serial o' c' rest Z y Z0 hZ0 hyser hSZ hopen hclosed
  have hmemZ : ∀ p ∈ Z, Good p := fun p hp => hgood p (by rw [hafter]; simp [hp])
  have hXmem : ∀ p ∈ o' ++ [c'], p ∈ Z ∧ p.serial = L.serial ∧ p ∈ prepare L.c1 L.cK new := by
    intro p hp
    have h1 : p ∈ stream L.serial Z := by
      rw [hSZ]; simp only [List.mem_append, List.mem_cons, List.not_mem_nil, or_false] at hp ⊢
      rcases hp with hp | hp
      · exact Or.inl hp
      · exact Or.inr (Or.inl hp)
    have h2 : p ∈ prepare L.c1 L.cK new := by
      rw [he']; simp only [List.mem_append, List.mem_cons, List.not_mem_nil, or_false] at hp ⊢
      rcases hp with hp | hp
      · exact Or.inl hp
      · exact Or.inr (Or.inl hp)
    simp only [stream, List.mem_filter, decide_eq_true_eq] at h1
    exact ⟨h1.1, h1.2, h2⟩
  -- the layout
  let L' : Layout := ⟨L.pre, m, post⟩
  have hold' : L'.oldPages = o' ++ [c'] := e2
  have hc1' : L'.c1 = y := by show L'.oldPages.headD {} = y; rw [hold', hX]; rfl
  have hcK' : L'.cK = c' := by show L'.oldPages.getLastD {} = c'; rw [hold']; simp
  have hser' : L'.serial = L.serial := by show L'.c1.serial = L.serial; rw [hc1']; exact hyser
  have hyhead : (o' ++ [c']).head? = some y := by rw [hX]; rfl
  have hycont : y.continued = false := by
    have : o' ++ c' :: rest = y :: (X' ++ rest) := by
      have := congrArg (· ++ rest) hX
      simpa [List.append_assoc] using this
    rw [this] at hcontS; exact hcontS.1
  refine ⟨L', ?_, ?_, ?_, ?_, ys, by rw [hold']; exact htp⟩
  · show L.pre ++ slotPages m ++ post = L.after new
    rw [hafter, e1, List.append_assoc]
  · refine ⟨h.pre, ?_, e3, fun p hp => hmemZ p (e6 p hp), ?_⟩
    · intro s hsm
      have hs1 : s.1 ∈ o' ++ [c'] := by rw [← e2]; exact List.mem_map_of_mem hsm
      have := hXmem s.1 hs1
      refine ⟨hmemZ _ this.1, by rw [hser']; exact this.2.1, ?_⟩
      intro p hp
      have := e4 s hsm p hp
      exact ⟨hmemZ p this.1, by rw [hser']; exact this.2⟩
    · show StartOK c L.pre L'.c1
      rw [hc1']
      apply startOK_transfer c hc L.pre L.c1 y hyser _ h.start
      intro hsp
      obtain ⟨x, xs, hp, hcase⟩ := hx y hyhead
      simp only [startsWith, hp, List.isPrefixOf_iff_prefix]
      rcases hcase with rfl | ⟨hl, hpre'⟩
      · exact hprefix
      · exact List.prefix_of_prefix_length_le hprefix hpre' (by
          have : c.commentPrefix.length ≤ 8 := by cases c <;> decide
          omega)
  · have hsplit := (contOK_append false o' (c' :: rest)).mp hcontS
    refine ⟨by rw [hc1']; exact hycont, ?_, ?_⟩
    · show contOK L'.c1.continued L'.oldPages
      rw [hc1', hycont, hold']
      exact (contOK_append false o' [c']).mpr ⟨hsplit.1, hsplit.2.1, hsplit.2.2.1, trivial⟩
    · show contOK (!L'.cK.complete) (stream L'.serial post)
      rw [hcK', hser', e5]; exact hsplit.2.2.2
  · have hpfirst := first_prepare' L.c1 L.cK new hf.ne (fun p hp => (hf.dflt p hp).2.2.1)
    have hplast := last_prepare' L.c1 L.cK new hf.ne (fun p hp => (hf.dflt p hp).2.2.2)
    refine ⟨?_, ?_, ?_, ?_⟩
    · intro o ho
      rw [hold'] at ho
      obtain ⟨q, hq, _, _, hfl, _⟩ := prepare_mem L.c1 L.cK new o (hXmem o ho).2.2
      rw [hfl]; exact (hf.dflt q hq).2.1
    · show L'.oldPages.map (·.sequence) = List.range' L'.c1.sequence L'.oldPages.length
      rw [hold', hc1']
      obtain ⟨b, hb⟩ := hseqS
      have e : o' ++ c' :: rest = (o' ++ [c']) ++ rest := by simp
      rw [e] at hb
      have h1 := (range'_split _ _ _ _ hb).1
      have hbe : y.sequence = b := by
        rw [hX] at h1
        simp only [List.map_cons, List.length_cons, List.range'_succ, List.cons.injEq] at h1
        exact h1.1
      rw [hbe]; exact h1
    · intro o ho
      rw [hold', hX, List.tail_cons] at ho
      rw [hB, List.map_cons, List.cons.injEq] at hpfirst
      have : o.first ∈ (X' ++ B).map (·.first) := List.mem_map_of_mem (by simp [ho])
      rw [hpfirst.2] at this
      exact List.eq_of_mem_replicate this
    · intro o ho
      rw [hold', List.dropLast_concat] at ho
      have hmem : o ∈ (prepare L.c1 L.cK new).dropLast := by
        rw [he', List.dropLast_append_of_ne_nil (by simp)]; simp [ho]
      have : o.last ∈ ((prepare L.c1 L.cK new).dropLast).map (·.last) := List.mem_map_of_mem hmem
      rw [List.map_dropLast, hplast, List.dropLast_concat] at this
      exact List.eq_of_mem_replicate this


/-- C07, two saves: when the second save builds the comment packet the first one wrote (`hfix`), it
returns the first save's output byte for byte -/
theorem save_twice (c : Codec) (hc : c ≠ .flac) (L : Layout) (h : L.OK c) (hfresh : L.c1.continued = false)
    (hflags : contOK false (stream L.serial L.pages))
    (a : Nat) (hnum : (stream L.serial L.pages).map (·.sequence) = List.range' a (stream L.serial L.pages).length)
    (hend : ∀ l, (stream L.serial L.pages).getLast? = some l → l.complete = true)
    (vc padData : Bytes) (pad : PadChoice) (old0 new0 : Bytes) (others : List Bytes) (new : List Page)
    (hpk : toPackets L.oldPages false = .ok (old0 :: others))
    (hnp : newPacket c old0 vc padData pad L.render.length = .ok new0)
    (hnew : newPages c (new0 :: others) L.oldPages = .ok new)
    (hseq : L.c1.sequence + new.length + (L.post.filter (·.serial = L.serial)).length ≤ 2 ^ 32)
    (hfix : newPacket c new0 vc padData pad (renderPages (L.after new)).length = .ok new0) :
    save c L.render vc padData pad = .ok (renderPages (L.after new)) ∧
    save c (renderPages (L.after new)) vc padData pad = .ok (renderPages (L.after new)) := by
  have hs := streamOK_of_contOK c L h hfresh hflags
  refine ⟨(save_spec c L h hs vc padData pad old0 new0 others new hpk hnp hnew hseq).1, ?_⟩
  obtain ⟨hd, tail, hshape, _, _, hpfx⟩ := newPacket_shape c old0 vc padData pad _ new0 (fun hf => absurd hf hc) hnp
  have hprefix : c.commentPrefix <+: new0 := by
    rw [hshape, (hpfx hc).1, List.append_assoc]; exact List.prefix_append _ _
  obtain ⟨L', hpages, hok, hst, htidy, ys, htp⟩ := second_layout c hc L h hfresh hflags a hnum hend old0 new0 others new hpk hnew hseq hprefix
  have hr : L'.render = renderPages (L.after new) := by unfold Layout.render; rw [hpages]
  have := save_unchanged c hc L' hok hst htidy vc padData pad new0 ys htp (by rw [hr]; exact hfix)
  rw [hr] at this; exact this


end Mutagen.OggInj
