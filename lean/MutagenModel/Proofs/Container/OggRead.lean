/-
Proofs/Container/OggRead.lean — reading back what was saved (C01 for the Ogg formats): mutagen's own
comment reader (`VComment.load` at byte level: `loadVC`; the codecs' comment constructors: `readComment`)
and the strict readers (`readAll` for pages, `Vorbis.decode` for the comment) on the bytes `save` wrote.
-/
import MutagenModel.Proofs.Container.OggInjectCap
import MutagenModel.Proofs.Vorbis
set_option linter.unusedVariables false
namespace Mutagen.OggInj
open Mutagen Mutagen.Ogg

/-! ### mutagen's own comment reader on what `VComment.write` wrote -/

theorem validKey_facts (k : Bytes) (h : validKey k = true) : Vorbis.eqSign ∉ k ∧ (k.all fun b => decide (b.toNat < 128)) = true := by
  simp only [validKey, Bool.and_eq_true, Bool.not_eq_eq_eq_not, Bool.not_true, List.all_eq_true, decide_eq_true_eq] at h
  constructor
  · intro hm; exact (h.2 _ hm).2 rfl
  · simp only [List.all_eq_true, decide_eq_true_eq]
    intro b hb; have := (h.2 b hb).1.2; omega

theorem loadComments_encode (cs : List (Bytes × Bytes)) (h : ∀ kv ∈ cs, Vorbis.CommentOK kv ∧ validKey kv.1 = true) (i : Nat)
    (tail : Bytes) : loadComments cs.length i ((cs.map Vorbis.encodeComment).flatten ++ tail) = some (some (cs, tail)) := by
  induction cs generalizing i with
  | nil => simp [loadComments]
  | cons kv r ih =>
    obtain ⟨hok, hvk⟩ := h kv (by simp)
    obtain ⟨hne, hascii⟩ := validKey_facts kv.1 hvk
    have h4 : (toLE 4 (kv.1 ++ [Vorbis.eqSign] ++ kv.2).length).length = 4 := length_toLE' 4 _
    have hlt : (kv.1 ++ [Vorbis.eqSign] ++ kv.2).length < 256 ^ 4 := by
      have := hok.2; simp only [List.length_append, List.length_cons, List.length_nil] ; omega
    have hshape : ((kv :: r).map Vorbis.encodeComment).flatten ++ tail =
        toLE 4 (kv.1 ++ [Vorbis.eqSign] ++ kv.2).length ++ ((kv.1 ++ [Vorbis.eqSign] ++ kv.2) ++ ((r.map Vorbis.encodeComment).flatten ++ tail)) := by
      simp [Vorbis.encodeComment, List.append_assoc]
    rw [hshape]
    simp only [List.length_cons, loadComments]
    have hl : ¬ ((toLE 4 (kv.1 ++ [Vorbis.eqSign] ++ kv.2).length ++ ((kv.1 ++ [Vorbis.eqSign] ++ kv.2) ++
        ((r.map Vorbis.encodeComment).flatten ++ tail))).length < 4) := by simp
    have e1 : (toLE 4 (kv.1 ++ [Vorbis.eqSign] ++ kv.2).length ++ ((kv.1 ++ [Vorbis.eqSign] ++ kv.2) ++
        ((r.map Vorbis.encodeComment).flatten ++ tail))).take 4 = toLE 4 (kv.1 ++ [Vorbis.eqSign] ++ kv.2).length := by
      rw [← h4]; exact Vorbis.take_append_len _ _
    have e2 : (toLE 4 (kv.1 ++ [Vorbis.eqSign] ++ kv.2).length ++ ((kv.1 ++ [Vorbis.eqSign] ++ kv.2) ++
        ((r.map Vorbis.encodeComment).flatten ++ tail))).drop 4 =
        (kv.1 ++ [Vorbis.eqSign] ++ kv.2) ++ ((r.map Vorbis.encodeComment).flatten ++ tail) := by
      rw [← h4]; exact Vorbis.drop_append_len _ _
    rw [if_neg hl]
    simp only [e1, e2, ofLE_toLE 4 _ hlt, Vorbis.take_append_len, Vorbis.drop_append_len,
      Vorbis.splitEq_append kv.1 kv.2 hne, hascii, Bool.not_true, Bool.false_eq_true, ↓reduceIte,
      ih (fun x hx => h x (by simp [hx])) (i + 1), hvk]

/-- `VComment.load` reads back what `VComment.write` wrote — vendor string, every comment in order —
and stops exactly behind it (behind the framing bit where there is one), whatever follows: for a vendor
string and a number of comments that fit 32 bits, comments that fit 32 bits, valid keys -/
theorem loadVC_encode (vendor : Bytes) (cs : List (Bytes × Bytes)) (framing : Bool) (rest : Bytes)
    (hv : vendor.length < 256 ^ 4) (hn : cs.length < 256 ^ 4) (h : ∀ kv ∈ cs, Vorbis.CommentOK kv ∧ validKey kv.1 = true) :
    loadVC (Vorbis.encode vendor cs framing ++ rest) framing = .ok (vendor, cs, rest) := by
  unfold loadVC Vorbis.encode
  have h4 : (toLE 4 vendor.length).length = 4 := length_toLE' 4 _
  have h4' : (toLE 4 cs.length).length = 4 := length_toLE' 4 _
  generalize hT : (if framing then [1] else ([] : Bytes)) ++ rest = T
  have hshape : toLE 4 vendor.length ++ vendor ++ toLE 4 cs.length ++ (cs.map Vorbis.encodeComment).flatten ++
      (if framing then [1] else []) ++ rest =
      toLE 4 vendor.length ++ (vendor ++ (toLE 4 cs.length ++ ((cs.map Vorbis.encodeComment).flatten ++ T))) := by
    rw [← hT]; simp only [List.append_assoc]
  rw [hshape]
  have hl : ¬ ((toLE 4 vendor.length ++ (vendor ++ (toLE 4 cs.length ++ ((cs.map Vorbis.encodeComment).flatten ++ T)))).length < 4) := by
    simp [h4]
  have e1 : (toLE 4 vendor.length ++ (vendor ++ (toLE 4 cs.length ++ ((cs.map Vorbis.encodeComment).flatten ++ T)))).take 4 =
      toLE 4 vendor.length := by rw [← h4]; exact Vorbis.take_append_len _ _
  have e2 : (toLE 4 vendor.length ++ (vendor ++ (toLE 4 cs.length ++ ((cs.map Vorbis.encodeComment).flatten ++ T)))).drop 4 =
      vendor ++ (toLE 4 cs.length ++ ((cs.map Vorbis.encodeComment).flatten ++ T)) := by rw [← h4]; exact Vorbis.drop_append_len _ _
  simp only [hl, ↓reduceIte, e1, e2, ofLE_toLE 4 _ hv, Vorbis.take_append_len, Vorbis.drop_append_len]
  have hl2 : ¬ ((toLE 4 cs.length ++ ((cs.map Vorbis.encodeComment).flatten ++ T)).length < 4) := by simp [h4']
  have e3 : (toLE 4 cs.length ++ ((cs.map Vorbis.encodeComment).flatten ++ T)).take 4 = toLE 4 cs.length := by
    rw [← h4']; exact Vorbis.take_append_len _ _
  have e4 : (toLE 4 cs.length ++ ((cs.map Vorbis.encodeComment).flatten ++ T)).drop 4 = (cs.map Vorbis.encodeComment).flatten ++ T := by
    rw [← h4']; exact Vorbis.drop_append_len _ _
  simp only [hl2, ↓reduceIte, e3, e4, ofLE_toLE 4 _ hn, loadComments_encode cs h 0 T]
  cases framing
  · simp at hT; simp [hT]
  · simp only [↓reduceIte]
    rw [← hT]
    simp

/-! ### the comment constructors' page loop on a file of good pages -/

/-- the constructors' loop (`readLoop`) on the pages `Y` that follow the position: pages of other
serials are skipped, pages of the serial are collected while they leave their only packet open, up to
and including the first one that does not -/
theorem readLoop_pages (f : Bytes) (ser : Nat) (Y : List Page) (A R : Bytes) (fuel : Nat) (acc opens : List Page) (cl : Page)
    (rest : List Page) (hf : f = A ++ renderPages Y ++ R) (hY : ∀ p ∈ Y, Good p)
    (hs : stream ser Y = opens ++ cl :: rest) (ho : ∀ p ∈ opens, closed p = false) (hc : closed cl = true)
    (hfuel : Y.length < fuel) :
    readLoop f ser fuel acc A.length = .ok (acc ++ opens ++ [cl]) := by
  induction Y generalizing A fuel acc opens with
  | nil => simp [stream] at hs
  | cons y r ih =>
    cases fuel with
    | zero => simp at hfuel
    | succ fuel =>
      have hgy := hY y (by simp)
      have hf' : f = A ++ rb y ++ (renderPages r ++ R) := by rw [hf]; simp [List.append_assoc]
      simp only [readLoop, readPage_at f A _ y hgy hf']
      by_cases hser : y.serial = ser
      · simp only [hser, ↓reduceIte]
        have hs' : y :: stream ser r = opens ++ cl :: rest := by
          simpa [stream, List.filter_cons, hser] using hs
        cases opens with
        | nil =>
          simp only [List.nil_append, List.cons.injEq] at hs'
          obtain ⟨rfl, _⟩ := hs'
          have : (y.complete || decide (y.packets.length > 1)) = true := hc
          simp [this]
        | cons o os =>
          simp only [List.cons_append, List.cons.injEq] at hs'
          obtain ⟨rfl, hs''⟩ := hs'
          have hopen : (y.complete || decide (y.packets.length > 1)) = false := ho y (by simp)
          simp only [hopen, Bool.false_eq_true, ↓reduceIte]
          have := ih (A ++ rb y) fuel (acc ++ [y]) os (by rw [hf]; simp [List.append_assoc])
            (fun p hp => hY p (by simp [hp])) hs'' (fun p hp => ho p (by simp [hp])) (by simp at hfuel; omega)
          simp only [List.length_append, length_rb] at this
          rw [this]; simp [List.append_assoc]
      · simp only [hser, ↓reduceIte]
        have hs' : stream ser r = opens ++ cl :: rest := by
          simpa [stream, List.filter_cons, hser] using hs
        have := ih (A ++ rb y) fuel acc opens (by rw [hf]; simp [List.append_assoc])
          (fun p hp => hY p (by simp [hp])) hs' ho (by simp at hfuel; omega)
        simp only [List.length_append, length_rb] at this
        exact this

/-! ### the first packet of a stream: what the constructors' run holds -/

/-- a stream of pages with consistent flags whose last page is complete has a first page that does not
leave its only packet open -/
theorem exists_first_closed (S : List Page) (hne : S ≠ []) (hlast : ∀ l, S.getLast? = some l → l.complete = true) :
    ∃ opens cl rest, S = opens ++ cl :: rest ∧ (∀ p ∈ opens, closed p = false) ∧ closed cl = true := by
  induction S with
  | nil => exact absurd rfl hne
  | cons p r ih =>
    by_cases hc : closed p = true
    · exact ⟨[], p, r, rfl, by simp, hc⟩
    · have hc' : closed p = false := by simpa using hc
      cases r with
      | nil =>
        exfalso
        have := hlast p rfl
        simp [closed, this] at hc'
      | cons q r' =>
        obtain ⟨opens, cl, rest, h1, h2, h3⟩ := ih (by simp) (fun l hl => hlast l (by simpa [List.getLast?_cons_cons] using hl))
        refine ⟨p :: opens, cl, rest, by rw [h1]; rfl, ?_, h3⟩
        intro x hx
        simp only [List.mem_cons] at hx
        rcases hx with rfl | hx
        · exact hc'
        · exact h2 x hx

/-- `to_packets` on the run the constructor collected gives, first, the first packet of the whole stream
(pages of one serial, consecutive numbers, consistent continuation flags) -/
theorem run_first_packet (ser : Nat) (opens : List Page) (cl : Page) (rest : List Page) (x : Bytes) (xs : List Bytes)
    (hser : ∀ p ∈ opens ++ cl :: rest, p.serial = ser)
    (hseq : ∃ a, (opens ++ cl :: rest).map (·.sequence) = List.range' a (opens ++ cl :: rest).length)
    (hcont : contOK false (opens ++ cl :: rest)) (hc : closed cl = true)
    (hfirst : ∀ p, (opens ++ [cl]).head? = some p → p.packets ≠ [])
    (hre : reasm [] (opens ++ cl :: rest) = x :: xs) :
    ∃ ys, toPackets (opens ++ [cl]) false = .ok (x :: ys) := by
  have hsplit : opens ++ cl :: rest = (opens ++ [cl]) ++ rest := by simp
  rw [hsplit, contOK_append] at hcont
  obtain ⟨hc1, hc2⟩ := hcont
  obtain ⟨a, hsq⟩ := hseq
  rw [hsplit] at hsq hre
  obtain ⟨hsq1, _⟩ := range'_split _ _ _ _ hsq
  -- to_packets succeeds on the run and gives its reassembly
  obtain ⟨p0, r0, hrun⟩ : ∃ p0 r0, opens ++ [cl] = p0 :: r0 := by
    cases opens with
    | nil => exact ⟨cl, [], rfl⟩
    | cons o os => exact ⟨o, os ++ [cl], rfl⟩
  have hp0c : p0.continued = false := by rw [hrun] at hc1; exact hc1.1
  have hser0 : ∀ p ∈ opens ++ [cl], p.serial = p0.serial := by
    intro p hp
    have h1 := hser p (by rw [hsplit]; simp [List.mem_append] at hp ⊢; rcases hp with hp | hp <;> simp [hp])
    have h2 := hser p0 (by rw [hsplit, hrun]; simp)
    rw [h1, h2]
  have hsq0 : (opens ++ [cl]).map (·.sequence) = List.range' p0.sequence (opens ++ [cl]).length := by
    have : p0.sequence = a := by
      rw [hrun] at hsq1; simp [List.range'_succ] at hsq1; exact hsq1.1
    rw [this]; exact hsq1
  have htp : toPackets (opens ++ [cl]) false = .ok (reasm [] (opens ++ [cl])) := by
    rw [hrun] at hser0 hsq0 hc1 ⊢
    simp only [toPackets, Bool.false_and, Bool.false_eq_true, ↓reduceIte, hp0c, Bool.not_false, Bool.and_false]
    exact toPacketsLoop_eq p0.serial (p0 :: r0) p0.sequence [] false hser0 hsq0 hc1 (by simp)
  rw [htp]
  rw [reasm_append] at hre
  -- the reassembly of the run is not empty and its first packet is sealed
  generalize hZ : reasm [] (opens ++ [cl]) = Z at hre ⊢
  cases Z with
  | nil =>
    -- the first page holds data
    exfalso
    rw [hrun, reasm_cons] at hZ
    exact reasm_ne_nil _ r0 (step_ne_nil [] p0 (hfirst p0 (by rw [hrun]; rfl))) hZ
  | cons z zs =>
    refine ⟨zs, ?_⟩
    congr 2
    cases zs with
    | nil =>
      have hlen := length_reasm_ge_last [] opens cl
      rw [hZ] at hlen
      simp only [List.length_cons, List.length_nil, Nat.zero_add] at hlen
      have hcomp : cl.complete = true := by
        simp only [closed, Bool.or_eq_true, decide_eq_true_eq] at hc
        rcases hc with hc | hc
        · exact hc
        · omega
      rw [endC_append_singleton, hcomp] at hc2
      have := reasm_fresh [z] rest (startsFresh_of_contOK _ hc2)
      rw [this] at hre
      simp only [List.singleton_append, List.cons.injEq] at hre
      exact hre.1
    | cons z2 zs2 =>
      have := reasm_prefix [z] (z2 :: zs2) rest (by simp)
      simp only [List.singleton_append] at this
      rw [this] at hre
      simp only [List.cons.injEq] at hre
      exact hre.1


/-! ### the saved file, read by the comment constructor -/

theorem contOK_head (c : Bool) (S : List Page) (h : contOK c S) (hh : ∀ p, S.head? = some p → p.continued = false) :
    contOK false S := by
  cases S with
  | nil => trivial
  | cons p r => exact ⟨hh p rfl, h.2.1, h.2.2⟩

theorem last_prepare_complete (o0 oL : Page) (new : List Page) (hne : new ≠ []) (h : contOK o0.continued new)
    (hl : oL.complete = false → ∀ l, new.getLast? = some l → l.packets ≠ []) :
    ∀ l, (prepare o0 oL new).getLast? = some l → l.complete = oL.complete := by
  intro l hl'
  obtain ⟨_, h2⟩ := contOK_prepare o0 oL new hne h hl
  rcases List.eq_nil_or_concat (prepare o0 oL new) with he | ⟨i, x, he⟩
  · rw [he] at hl'; simp at hl'
  · rw [he, List.concat_eq_append] at hl' h2
    simp at hl'; subst hl'
    rw [endC_append_singleton] at h2
    simpa using h2

/-- the comment constructor of Vorbis / Speex / Theora / Ogg FLAC run on the saved file from a position
`pos` in front of the run (behind the identification page) with no page of the stream in between: it
collects the new run up to the page on which the new comment packet ends and hands that packet's
bytes behind the codec prefix to `VComment.load` -/
theorem readLoop_after (c : Codec) (L : Layout) (h : L.OK c) (hfresh : L.c1.continued = false)
    (hflags : contOK false (stream L.serial L.pages))
    (a : Nat) (hnum : (stream L.serial L.pages).map (·.sequence) = List.range' a (stream L.serial L.pages).length)
    (hend : ∀ l, (stream L.serial L.pages).getLast? = some l → l.complete = true)
    (pre1 pre2 : List Page) (hpre : L.pre = pre1 ++ pre2) (hpre2 : ∀ p ∈ pre2, p.serial ≠ L.serial)
    (old0 new0 : Bytes) (others : List Bytes) (new : List Page)
    (hpk : toPackets L.oldPages false = .ok (old0 :: others))
    (hnew : newPages c (new0 :: others) L.oldPages = .ok new)
    (hseq : L.c1.sequence + new.length + (L.post.filter (·.serial = L.serial)).length ≤ 2 ^ 32)
    (hhead : ∀ p, new.head? = some p → p.packets ≠ []) :
    ∃ run ys, readLoop (renderPages (L.after new)) L.serial ((renderPages (L.after new)).length + 1) [] (renderPages pre1).length =
        .ok run ∧ toPackets run false = .ok (new0 :: ys) := by
  have hs := streamOK_of_contOK c L h hfresh hflags
  have hf := facts_of_edit c L h hs old0 new0 others new hpk hnew
  have hgood := (readAll_after c L h _ new hf hseq).1
  have hne : L.slots ≠ [] := by intro he; have := h.chain; rw [he] at this; exact this
  -- the stream from `pos` on: the new run, then the pages behind it
  generalize hT : stream L.serial (if L.slots.length ≠ new.length then renum L.serial (L.c1.sequence + new.length) L.post else L.post) = T
  have hst := stream_after c L h new
  rw [hT] at hst
  obtain ⟨Y, hY⟩ : ∃ Y, L.after new = pre1 ++ Y := by
    refine ⟨pre2 ++ splicePages (fitPages L.slots.length (prepare L.c1 L.cK new)) L.slots ++
      (if L.slots.length ≠ new.length then renum L.serial (L.c1.sequence + new.length) L.post else L.post), ?_⟩
    simp [Layout.after, hpre, List.append_assoc]
  have hSY : stream L.serial Y = prepare L.c1 L.cK new ++ T := by
    have h1 : stream L.serial (L.after new) = stream L.serial pre1 ++ stream L.serial Y := by rw [hY, stream_append]
    rw [hst, hpre, stream_append, stream_of_none _ pre2 hpre2, List.append_nil, List.append_assoc] at h1
    exact (List.append_cancel_left h1).symm
  have hprep_ne : prepare L.c1 L.cK new ≠ [] := by
    intro he; have := length_prepare L.c1 L.cK new; rw [he] at this
    exact hf.ne (List.eq_nil_of_length_eq_zero this.symm)
  -- flags, numbers and the end of the stream after the edit
  have hcont := contOK_after c L h _ new hf hflags
  have hseqs := seq_after c L h new a hnum
  have hlastT : ∀ l, T.getLast? = some l → l.complete = true := by
    intro l hl
    have hk : (stream L.serial L.post).map (fun p => p.complete) = T.map (fun p => p.complete) := by
      rw [← hT]
      split
      · have := congrArg (List.map (fun x : Bool × Bool × List Nat => x.2.1)) (key_stream_renum L.serial (L.c1.sequence + new.length) L.post)
        simpa [List.map_map, Function.comp_def] using this
      · rfl
    have e := congrArg List.getLast? hk
    rw [List.getLast?_map, List.getLast?_map, hl] at e
    cases hg : (stream L.serial L.post).getLast? with
    | none => rw [hg] at e; simp at e
    | some q =>
      rw [hg] at e
      simp only [Option.map_some, Option.some.injEq] at e
      rw [← e]
      apply hend q
      rw [stream_pages c L h, List.getLast?_append, hg]; rfl
  have hlastS : ∀ l, (prepare L.c1 L.cK new ++ T).getLast? = some l → l.complete = true := by
    intro l hl
    rw [List.getLast?_append] at hl
    cases hg : T.getLast? with
    | some q => rw [hg] at hl; simp at hl; subst hl; exact hlastT q hg
    | none =>
      rw [hg] at hl
      simp only [Option.none_or] at hl
      have hTnil : T = [] := by simpa using hg
      rw [last_prepare_complete L.c1 L.cK new hf.ne hf.cont hf.lastpk l hl]
      -- nothing of the stream behind the run: its last old page was the stream's last page
      have hpostnil : stream L.serial L.post = [] := by
        have hk : (stream L.serial L.post).length = T.length := by
          rw [← hT]; split
          · exact (seq_stream_renum _ _ _).2.symm
          · rfl
        rw [hTnil] at hk
        exact List.eq_nil_of_length_eq_zero hk
      apply hend L.cK
      rw [stream_pages c L h, hpostnil, List.append_nil, List.getLast?_append, last_oldPages L hne]; rfl
  obtain ⟨opens, cl, rest, hdec, hopen, hclosed⟩ := exists_first_closed (prepare L.c1 L.cK new ++ T)
    (by simp [hprep_ne]) hlastS
  -- the loop on the bytes
  have hloop := readLoop_pages (renderPages (L.after new)) L.serial Y (renderPages pre1) [] ((renderPages (L.after new)).length + 1)
    [] opens cl rest (by rw [hY]; simp [renderPages_append])
    (fun p hp => hgood p (by rw [hY]; simp [hp])) (by rw [hSY, hdec]) hopen hclosed
    (by have := length_renderPages_ge (L.after new); rw [hY] at this ⊢; simp only [List.length_append] at this ⊢; omega)
  simp only [List.nil_append] at hloop
  refine ⟨opens ++ [cl], ?_⟩
  -- the first packet of the stream from the run on is the new comment packet
  have hheadc : ∀ p, (prepare L.c1 L.cK new ++ T).head? = some p → p.continued = false := by
    intro p hp
    cases hpn : prepare L.c1 L.cK new with
    | nil => exact absurd hpn hprep_ne
    | cons q qs =>
      rw [hpn] at hp; simp at hp; subst hp
      have := (contOK_prepare L.c1 L.cK new hf.ne hf.cont hf.lastpk).1
      rw [hpn] at this
      rw [this.1]; exact hfresh
  have hcontS : contOK false (prepare L.c1 L.cK new ++ T) := by
    rw [hst, List.append_assoc, contOK_append] at hcont
    exact contOK_head _ _ hcont.2 hheadc
  have hserS : ∀ p ∈ prepare L.c1 L.cK new ++ T, p.serial = L.serial := by
    intro p hp
    have : p ∈ stream L.serial Y := by rw [hSY]; exact hp
    simp only [stream, List.mem_filter, decide_eq_true_eq] at this
    exact this.2
  have hseqS : ∃ b, (prepare L.c1 L.cK new ++ T).map (·.sequence) = List.range' b (prepare L.c1 L.cK new ++ T).length := by
    rw [hst, List.append_assoc] at hseqs
    exact ⟨_, (range'_split _ _ _ _ hseqs).2⟩
  have hcar := carries_of new _ L.c1 L.cK hf.carries hf.fresh hf.head
  have hre : ∃ xs, reasm [] (prepare L.c1 L.cK new ++ T) = new0 :: xs := by
    rw [reasm_append, hcar, List.nil_append]
    by_cases ho : others = []
    · subst ho
      -- the run's last page is complete, what follows starts a packet
      obtain ⟨i, hi⟩ := oldPages_snoc L hne
      have hcl := chain_last_closed L.slots h.chain i L.cK hi
      have hold : reasm [] L.oldPages = [old0] := (toPackets_ok _ _ _ (head_oldPages L hne) hfresh hpk).symm
      have hlen : L.cK.packets.length ≤ 1 := by
        have := length_reasm_ge_last [] i L.cK
        rw [← hi, hold] at this
        simpa using this
      have hcomp : L.cK.complete = true := by
        simp only [closed, Bool.or_eq_true, decide_eq_true_eq] at hcl
        rcases hcl with hcl | hcl
        · exact hcl
        · omega
      have hpost := hs.post
      rw [hcomp] at hpost
      have hTf : startsFresh T = true := by
        rw [← hT]; split
        · exact startsFresh_of_contOK _ (contOK_stream_renum _ _ _ _ hpost)
        · exact startsFresh_of_contOK _ hpost
      exact ⟨_, by rw [reasm_fresh [new0] T hTf]; rfl⟩
    · have := reasm_prefix [new0] others T ho
      exact ⟨_, by simpa using this⟩
  obtain ⟨xs, hre⟩ := hre
  have hfirst : ∀ p, (opens ++ [cl]).head? = some p → p.packets ≠ [] := by
    intro p hp
    have hsame : (opens ++ [cl]).head? = (prepare L.c1 L.cK new ++ T).head? := by
      rw [hdec]; cases opens <;> rfl
    rw [hsame] at hp
    cases hpn : prepare L.c1 L.cK new with
    | nil => exact absurd hpn hprep_ne
    | cons q qs =>
      rw [hpn] at hp; simp at hp; subst hp
      have hq : q ∈ prepare L.c1 L.cK new := by rw [hpn]; simp
      -- the head of `prepare` has the packets of the head of `new`
      have hsd := sameData_prepare L.c1 L.cK new hf.head
      cases hnw : new with
      | nil => exact absurd hnw hf.ne
      | cons n0 nr =>
        rw [hpn, hnw] at hsd
        simp only [SameData, List.map_cons, List.cons.injEq, Prod.mk.injEq] at hsd
        rw [hsd.1.1]; exact hhead n0 (by rw [hnw]; rfl)
  rw [hdec] at hcontS hserS hseqS hre
  obtain ⟨ys, hys⟩ := run_first_packet L.serial opens cl rest new0 xs hserS hseqS hcontS hclosed hfirst hre
  exact ⟨ys, hloop, hys⟩


/-! ### the shape of the new comment packet -/

/-- how many bytes the codec's comment constructor strips in front of the Vorbis comment: the codec
prefix; for Ogg FLAC the 4-byte metadata block header -/
def Codec.stripLen : Codec → Nat
  | .vorbis => 7 | .opus => 8 | .speex => 0 | .theora => 7 | .flac => 4

/-- the new packet is: `stripLen` bytes (codec prefix / block header), the rendered comment, and a tail
(zero padding; Opus: the preserved data; Ogg FLAC: nothing) -/
theorem newPacket_shape (c : Codec) (old0 vc padData : Bytes) (pad : PadChoice) (fsize : Nat) (new0 : Bytes)
    (hflac : c = .flac → old0 ≠ []) (h : newPacket c old0 vc padData pad fsize = .ok new0) :
    ∃ hd tail, new0 = hd ++ vc ++ tail ∧ hd.length = c.stripLen ∧
      (c = .flac → tail = [] ∧ hd = old0.take 1 ++ toBE 3 vc.length) ∧
      (c ≠ .flac → hd = c.commentPrefix ∧ (tail = padData ∨ ∃ p, tail = zeros p)) := by
  cases c with
  | flac =>
    simp only [newPacket] at h
    split at h
    · cases h
    · simp only [Except.ok.injEq] at h
      have h1 : (old0.take 1).length = 1 := by
        cases old0 with
        | nil => exact absurd rfl (hflac rfl)
        | cons a b => simp
      refine ⟨old0.take 1 ++ toBE 3 vc.length, [], by rw [← h]; simp, ?_, fun _ => ⟨rfl, rfl⟩, fun hh => absurd rfl hh⟩
      simp [h1, toBE, Codec.stripLen]
  | vorbis =>
    simp only [newPacket, reduceCtorEq, false_and, ↓reduceIte, Except.ok.injEq] at h
    exact ⟨_, _, h.symm, rfl, (fun hh => by cases hh), fun _ => ⟨rfl, Or.inr ⟨_, rfl⟩⟩⟩
  | theora =>
    simp only [newPacket, reduceCtorEq, false_and, ↓reduceIte, Except.ok.injEq] at h
    exact ⟨_, _, h.symm, rfl, (fun hh => by cases hh), fun _ => ⟨rfl, Or.inr ⟨_, rfl⟩⟩⟩
  | speex =>
    simp only [newPacket, reduceCtorEq, false_and, ↓reduceIte, Except.ok.injEq] at h
    exact ⟨_, _, h.symm, rfl, (fun hh => by cases hh), fun _ => ⟨rfl, Or.inr ⟨_, rfl⟩⟩⟩
  | opus =>
    simp only [newPacket, true_and] at h
    split at h
    · simp only [Except.ok.injEq] at h
      exact ⟨_, _, h.symm, rfl, (fun hh => by cases hh), fun _ => ⟨rfl, Or.inl rfl⟩⟩
    · simp only [Except.ok.injEq] at h
      exact ⟨_, _, h.symm, rfl, (fun hh => by cases hh), fun _ => ⟨rfl, Or.inr ⟨_, rfl⟩⟩⟩

/-- (a) mutagen's own reader on the saved file — Vorbis, Speex, Theora, Ogg FLAC: the comment
constructor, started behind the identification page, followed by `VComment.load` returns exactly the
vendor string and the comments that were saved (and, as the rest, the padding) -/
theorem readTags_after (c : Codec) (hc : c ≠ .opus) (L : Layout) (h : L.OK c) (hfresh : L.c1.continued = false)
    (hflags : contOK false (stream L.serial L.pages))
    (a : Nat) (hnum : (stream L.serial L.pages).map (·.sequence) = List.range' a (stream L.serial L.pages).length)
    (hend : ∀ l, (stream L.serial L.pages).getLast? = some l → l.complete = true)
    (pre1 pre2 : List Page) (hpre : L.pre = pre1 ++ pre2) (hpre2 : ∀ p ∈ pre2, p.serial ≠ L.serial)
    (vendor : Bytes) (cs : List (Bytes × Bytes)) (hv : vendor.length < 256 ^ 4) (hn : cs.length < 256 ^ 4)
    (hcs : ∀ kv ∈ cs, Vorbis.CommentOK kv ∧ validKey kv.1 = true)
    (padData : Bytes) (pad : PadChoice) (old0 new0 : Bytes) (others : List Bytes) (new : List Page)
    (hpk : toPackets L.oldPages false = .ok (old0 :: others)) (hflac : c = .flac → old0 ≠ [])
    (hnp : newPacket c old0 (Vorbis.encode vendor cs c.framing) padData pad L.render.length = .ok new0)
    (hnew : newPages c (new0 :: others) L.oldPages = .ok new)
    (hseq : L.c1.sequence + new.length + (L.post.filter (·.serial = L.serial)).length ≤ 2 ^ 32)
    (hhead : ∀ p, new.head? = some p → p.packets ≠ []) :
    ∃ rest, readTags c (renderPages (L.after new)) L.serial (renderPages pre1).length = .ok (vendor, cs, rest) := by
  obtain ⟨run, ys, hloop, htp⟩ := readLoop_after c L h hfresh hflags a hnum hend pre1 pre2 hpre hpre2 old0 new0 others new
    hpk hnew hseq hhead
  obtain ⟨hd, tail, hshape, hlen, _, _⟩ := newPacket_shape c old0 _ padData pad _ new0 hflac hnp
  have hdrop : new0.drop c.stripLen = Vorbis.encode vendor cs c.framing ++ tail := by
    rw [hshape, List.append_assoc, ← hlen]; exact List.drop_left' rfl
  have hload := loadVC_encode vendor cs c.framing tail hv hn hcs
  refine ⟨tail, ?_⟩
  unfold readTags readComment
  cases c with
  | opus => exact absurd rfl hc
  | vorbis =>
    simp only [hloop, htp]
    have : new0.drop 7 = new0.drop Codec.vorbis.stripLen := rfl
    rw [this, hdrop]; exact hload
  | theora =>
    simp only [hloop, htp]
    have : new0.drop 7 = new0.drop Codec.theora.stripLen := rfl
    rw [this, hdrop]; exact hload
  | speex =>
    simp only [hloop, htp]
    have : new0 = new0.drop Codec.speex.stripLen := rfl
    rw [this, hdrop]; exact hload
  | flac =>
    simp only [hloop, htp]
    have : new0.drop 4 = new0.drop Codec.flac.stripLen := rfl
    rw [this, hdrop]; exact hload

/-- (b) the independent reading: the strict page reader reads the saved bytes back into the pages
`L.after new`; the edited stream's packets, reassembled from those pages, are the old ones with the new
comment packet in the place of the old; and the strict Vorbis-comment decoder applied to that packet
behind the codec prefix (Ogg FLAC: behind the block header) returns exactly the vendor string and the
comments — all five codecs -/
theorem strict_after (c : Codec) (L : Layout) (h : L.OK c) (hfresh : L.c1.continued = false)
    (hflags : contOK false (stream L.serial L.pages))
    (vendor : Bytes) (cs : List (Bytes × Bytes)) (hv : vendor.length < 256 ^ 4) (hn : cs.length < 256 ^ 4)
    (hcs : ∀ kv ∈ cs, Vorbis.CommentOK kv)
    (padData : Bytes) (pad : PadChoice) (old0 new0 : Bytes) (others : List Bytes) (new : List Page)
    (hpk : toPackets L.oldPages false = .ok (old0 :: others)) (hflac : c = .flac → old0 ≠ [])
    (hnp : newPacket c old0 (Vorbis.encode vendor cs c.framing) padData pad L.render.length = .ok new0)
    (hnew : newPages c (new0 :: others) L.oldPages = .ok new)
    (hseq : L.c1.sequence + new.length + (L.post.filter (·.serial = L.serial)).length ≤ 2 ^ 32) :
    save c L.render (Vorbis.encode vendor cs c.framing) padData pad = .ok (renderPages (L.after new)) ∧
    readAll ((renderPages (L.after new)).length + 1) (renderPages (L.after new)) = some (L.after new) ∧
    (∃ before behind, reasm [] (stream L.serial L.pages) = before ++ old0 :: behind ∧
      reasm [] (stream L.serial (L.after new)) = before ++ new0 :: behind) ∧
    Vorbis.decode (new0.drop c.stripLen) c.framing = some (vendor, cs) := by
  have hs := streamOK_of_contOK c L h hfresh hflags
  have hf := facts_of_edit c L h hs old0 new0 others new hpk hnew
  obtain ⟨h1, _, h3⟩ := save_spec c L h hs _ padData pad old0 new0 others new hpk hnp hnew hseq
  obtain ⟨hd, tail, hshape, hlen, _, _⟩ := newPacket_shape c old0 _ padData pad _ new0 hflac hnp
  refine ⟨h1, (readAll_after c L h _ new hf hseq).2, h3, ?_⟩
  have hdrop : new0.drop c.stripLen = Vorbis.encode vendor cs c.framing ++ tail := by
    rw [hshape, List.append_assoc, ← hlen]; exact List.drop_left' rfl
  rw [hdrop]
  exact Vorbis.decode_encode vendor cs c.framing tail hv hn hcs


end Mutagen.OggInj
