/- Proofs/Container/AsfCap.lean — ASF.save / ASF.delete on the file object: quiet environments with
arbitrary device capacity (C19, refinement of the pure model), arbitrary fault environments (C06) -/
import MutagenModel.Model.Container.AsfM
import MutagenModel.Proofs.Container.AsfTotal
import MutagenModel.Proofs.FileOpsCap
import MutagenModel.Proofs.OkAgree
set_option linter.unusedVariables false
namespace Mutagen.Asf
open Mutagen

/-! ### quiet environments: no injected fault, no short read; capacity and leak arbitrary -/

theorem writeData_nil (d : Bytes) (pos : Nat) (h : pos ≤ d.length) : writeData d pos [] = d := by
  rw [writeData_inside _ _ _ h]
  simp [writeAt]

/-- verify_fileobj does not touch the file -/
theorem verifyFileobj_q {e : Env} (hq : Quiet e) (s : FS) (hp : s.pos ≤ s.data.length) :
    ∃ s', verifyFileobj e s = (.ok (), s') ∧ s'.data = s.data ∧ s'.pos = s.pos := by
  unfold verifyFileobj tryCatch
  have hr : (readAt s.data s.pos 0).length = 0 := by simp [readAt]
  simp only [bind_run, fread_q hq, hr, Nat.add_zero]
  rw [fwrite_q_inside hq [] _ (by simpa using hp)]
  exact ⟨_, rfl, writeData_nil _ _ hp, rfl⟩

/-- get_size: the length of the file; position restored -/
theorem getSize_q {e : Env} (hq : Quiet e) (s : FS) :
    ∃ s', getSize e s = (.ok s.data.length, s') ∧ s'.data = s.data ∧ s'.pos = s.pos := by
  unfold getSize tryFinally
  simp only [bind_run, ftell_q hq, fseekEnd_q hq, fseek_q hq]
  exact ⟨_, rfl, rfl, rfl⟩

theorem renderFull_concat_err {d : Dist} {objs : List Obj} {fl av : Nat} {pad : PadChoice} {x : PyErr}
    (h : concatMapE (renderObj d) (objs.filter fun o => !o.isPad) = .error x) : renderFull d objs fl av pad = .error x := by
  unfold renderFull; simp only [h]

/-- render_full on the file object: the pure `renderFull` at the length of the file; the file and
the position are as before -/
theorem renderFullM_q {e : Env} (hq : Quiet e) (d : Dist) (objs : List Obj) (av : Nat) (pad : PadChoice) (s : FS) :
    ∃ s', renderFullM d objs av pad e s = (renderFull d objs s.data.length av pad, s') ∧ s'.data = s.data ∧ s'.pos = s.pos := by
  unfold renderFullM
  cases hc : concatMapE (renderObj d) (objs.filter fun o => !o.isPad) with
  | error x =>
    simp only [raise_run]
    exact ⟨s, by rw [renderFull_concat_err hc], rfl, rfl⟩
  | ok b =>
    obtain ⟨s1, h1, hd, hpos⟩ := getSize_q hq s
    simp only [bind_run, h1]
    cases hr : renderFull d objs s.data.length av pad with
    | error x => exact ⟨s1, by simp only [raise_run], hd, hpos⟩
    | ok data => exact ⟨s1, by simp only [pure_run], hd, hpos⟩

theorem renderFull_ok_le {d : Dist} {objs : List Obj} {fl av : Nat} {pad : PadChoice} {data : Bytes}
    (h : renderFull d objs fl av pad = .ok data) : av ≤ fl := by
  unfold renderFull at h
  simp only [] at h
  split at h
  · cases h
  · split at h
    · cases h
    · omega

/-- `resize_bytes(old, len(new), 0); seek(0); write(new)` on a device that may run full: the first
`old` bytes are replaced by `new`, or ENOSPC with the file untouched -/
theorem replaceHead_q {e : Env} (hq : Quiet e) (B : Nat) (hB : 0 < B) (old : Nat) (new : Bytes) (s : FS) (ho : old ≤ s.data.length) :
    (∃ s', (do resizeBytes B old new.length 0; fseek 0; fwrite new : FileM Unit) e s = (.ok (), s') ∧
      s'.data = new ++ s.data.drop old) ∨
    (∃ s', (do resizeBytes B old new.length 0; fseek 0; fwrite new : FileM Unit) e s = (.error .enospc, s') ∧ s'.data = s.data) := by
  rcases resizeBytes_q hq B hB old new.length 0 s (by omega) with ⟨s1, gap, hr, hg, hd⟩ | ⟨s1, hr, hd⟩
  · left
    have hr' : resizeBytes B (old : Int) (new.length : Int) 0 e s = (.ok (), s1) := hr
    simp only [List.take_zero, List.nil_append, List.drop_zero, Nat.zero_add] at hd
    have hlen : new.length ≤ s1.data.length := by
      rw [hd]; simp only [List.length_append, List.length_take, List.length_drop, hg]; omega
    simp only [bind_run, hr', fseek_q hq]
    rw [fwrite_q_inside hq new _ (by simpa using hlen)]
    refine ⟨_, rfl, ?_⟩
    show writeData s1.data 0 new = _
    rw [writeData_inside _ _ _ (by omega), hd]
    have hmid : (s.data.take (min old new.length) ++ gap).length = new.length := by
      simp only [List.length_append, List.length_take, hg]; omega
    have := writeAt_mid [] (s.data.take (min old new.length) ++ gap) (s.data.drop old) new hmid
    simpa using this
  · right
    have hr' : resizeBytes B (old : Int) (new.length : Int) 0 e s = (.error .enospc, s1) := hr
    simp only [bind_run, hr']
    exact ⟨s1, rfl, hd⟩

/-- THE theorem about the body of ASF.save on the file object, for every file, every tree, every
capacity: it ends as the pure `saveTree` says — the same exception with the file untouched, or the
new bytes — or, instead of the new bytes, ENOSPC with the file byte-identical to before
(the last step — resize, seek, write — is a parameter: with or without a capacity limit) -/
theorem saveBody_gen {e : Env} (hq : Quiet e) (Q : Prop) (B : Nat)
    (hrep : ∀ (old : Nat) (new : Bytes) (s : FS), old ≤ s.data.length →
      (∃ s', (do resizeBytes B old new.length 0; fseek 0; fwrite new : FileM Unit) e s = (.ok (), s') ∧ s'.data = new ++ s.data.drop old) ∨
      (Q ∧ ∃ s', (do resizeBytes B old new.length 0; fseek 0; fwrite new : FileM Unit) e s = (.error .enospc, s') ∧ s'.data = s.data))
    (objs : List Obj) (tags : List Tag) (pad : PadChoice) (s : FS) (hp : s.pos = 0) :
    match saveTree objs s.data tags pad with
    | .error x => ∃ s', saveBody B objs tags pad e s = (.error x, s') ∧ s'.data = s.data
    | .ok (out, _) =>
      (∃ s', saveBody B objs tags pad e s = (.ok (), s') ∧ s'.data = out) ∨
      (Q ∧ ∃ s', saveBody B objs tags pad e s = (.error .enospc, s') ∧ s'.data = s.data) := by
  unfold saveBody saveTree
  cases hd : distribute tags with
  | error x => exact ⟨s, rfl, rfl⟩
  | ok d =>
    simp only [bind_run, fread_q hq, hp]
    have hread : readAt s.data 0 30 = s.data.take 30 := by simp [readAt]
    rw [hread]
    unfold parseSize
    simp only []
    by_cases hbad : (s.data.take 30).length ≠ 30 ∨ (s.data.take 30).take 16 ≠ gHeader
    · rw [if_pos hbad, if_pos hbad]
      exact ⟨_, rfl, rfl⟩
    · rw [if_neg hbad, if_neg hbad]
      simp only [bind_run]
      generalize hold : ofLE (((s.data.take 30).drop 16).take 8) = oldSize
      generalize hs1 : ({ data := s.data, pos := 0 + (s.data.take 30).length, ops := s.ops + 1, log := Op.read 30 :: s.log } : FS) = s1
      have hs1d : s1.data = s.data := by rw [← hs1]
      obtain ⟨s2, hrf, hd2, _⟩ := renderFullM_q hq d (addMissing objs) oldSize pad s1
      rw [hs1d] at hrf
      unfold tryCatch
      simp only [hrf]
      cases hr : renderFull d (addMissing objs) s.data.length oldSize pad with
      | error x =>
        simp only []
        by_cases hx : x = .struct_
        · subst hx
          exact ⟨s2, by simp [structToMutagen], by rw [hd2, hs1d]⟩
        · have h1 : (x == PyErr.struct_) = false := by simpa using hx
          have h2 : structToMutagen x = x := by simp [structToMutagen, hx]
          simp only [h1, Bool.false_eq_true, ↓reduceIte, h2]
          exact ⟨s2, rfl, by rw [hd2, hs1d]⟩
      | ok data =>
        simp only []
        have hle : oldSize ≤ s2.data.length := by rw [hd2, hs1d]; exact renderFull_ok_le hr
        rcases hrep oldSize data s2 hle with ⟨s3, h3, hd3⟩ | ⟨hQ, s3, h3, hd3⟩
        · left
          exact ⟨s3, h3, by rw [hd3, hd2, hs1d]⟩
        · right
          exact ⟨hQ, s3, h3, by rw [hd3, hd2, hs1d]⟩

/-- the body of ASF.save for every capacity -/
theorem saveBody_q {e : Env} (hq : Quiet e) (B : Nat) (hB : 0 < B) (objs : List Obj) (tags : List Tag) (pad : PadChoice)
    (s : FS) (hp : s.pos = 0) :
    match saveTree objs s.data tags pad with
    | .error x => ∃ s', saveBody B objs tags pad e s = (.error x, s') ∧ s'.data = s.data
    | .ok (out, _) =>
      (∃ s', saveBody B objs tags pad e s = (.ok (), s') ∧ s'.data = out) ∨
      (∃ s', saveBody B objs tags pad e s = (.error .enospc, s') ∧ s'.data = s.data) := by
  have := saveBody_gen hq True B (fun old new s ho => by
    rcases replaceHead_q hq B hB old new s ho with h | h
    · exact Or.inl h
    · exact Or.inr ⟨trivial, h⟩) objs tags pad s hp
  cases hst : saveTree objs s.data tags pad with
  | error x => rw [hst] at this; exact this
  | ok r =>
    rw [hst] at this
    rcases this with h | ⟨_, h⟩
    · exact Or.inl h
    · exact Or.inr h

theorem clean_quiet : Quiet Env.clean := ⟨fun _ => rfl, fun _ => rfl⟩

/-- … and without a capacity limit: exactly the pure result -/
theorem saveBody_clean (B : Nat) (hB : 0 < B) (objs : List Obj) (tags : List Tag) (pad : PadChoice) (s : FS) (hp : s.pos = 0) :
    match saveTree objs s.data tags pad with
    | .error x => ∃ s', saveBody B objs tags pad Env.clean s = (.error x, s') ∧ s'.data = s.data
    | .ok (out, _) => ∃ s', saveBody B objs tags pad Env.clean s = (.ok (), s') ∧ s'.data = out := by
  have := saveBody_gen clean_quiet False B (fun old new s ho => by
    obtain ⟨s', h1, h2⟩ := replaceRegion_clean B hB 0 old new s (by omega)
    refine Or.inl ⟨s', h1, ?_⟩
    simpa using h2) objs tags pad s hp
  cases hst : saveTree objs s.data tags pad with
  | error x => rw [hst] at this; exact this
  | ok r =>
    rw [hst] at this
    rcases this with h | ⟨hf, _⟩
    · exact h
    · exact absurd hf id

/-! ### the entry points -/

theorem convertError_run (src : PyErr → Bool) (dst : PyErr) (m : FileM α) (e : Env) (s : FS) :
    convertError src dst m e s = match m e s with
      | (.ok a, s') => (.ok a, s')
      | (.error err, s') => if src err then (.error dst, s') else (.error err, s') := rfl

/-- ASF.save on the file object, every capacity: as the pure `saveTree` says, or ENOSPC — which
leaves the entry point as `error` (a MutagenError) — with the file byte-identical to before -/
theorem saveM_q {e : Env} (hq : Quiet e) (B : Nat) (hB : 0 < B) (objs : List Obj) (tags : List Tag) (pad : PadChoice)
    (s : FS) (hp : s.pos = 0) :
    match saveTree objs s.data tags pad with
    | .error x => ∃ s', saveM B objs tags pad e s = (.error x, s') ∧ s'.data = s.data
    | .ok (out, _) =>
      (∃ s', saveM B objs tags pad e s = (.ok (), s') ∧ s'.data = out) ∨
      (∃ s', saveM B objs tags pad e s = (.error .mutagen, s') ∧ s'.data = s.data) := by
  obtain ⟨s0, hv, hd0, hp0⟩ := verifyFileobj_q hq s (by omega)
  have hb := saveBody_q hq B hB objs tags pad s0 (by rw [hp0, hp])
  rw [hd0] at hb
  unfold saveM
  rw [convertError_run]
  simp only [bind_run, hv]
  cases hst : saveTree objs s.data tags pad with
  | error x =>
    rw [hst] at hb
    obtain ⟨s', h1, h2⟩ := hb
    simp only [h1]
    have hx : x.isIO = false := by
      rcases saveTree_err hst with rfl | rfl <;> rfl
    simp only [hx, Bool.false_eq_true, ↓reduceIte]
    exact ⟨s', rfl, h2⟩
  | ok r =>
    obtain ⟨out, t⟩ := r
    rw [hst] at hb
    simp only [] at hb ⊢
    rcases hb with ⟨s', h1, h2⟩ | ⟨s', h1, h2⟩
    · left; simp only [h1]; exact ⟨s', rfl, h2⟩
    · right; simp only [h1]; exact ⟨s', by simp [PyErr.isIO], h2⟩

/-- ASF.delete on the file object, every capacity -/
theorem deleteM_q {e : Env} (hq : Quiet e) (B : Nat) (hB : 0 < B) (objs : List Obj) (s : FS) (hp : s.pos = 0) :
    match saveTree objs s.data [] padZero with
    | .error x => ∃ s', deleteM B objs e s = (.error x, s') ∧ s'.data = s.data
    | .ok (out, _) =>
      (∃ s', deleteM B objs e s = (.ok (), s') ∧ s'.data = out) ∨
      (∃ s', deleteM B objs e s = (.error .mutagen, s') ∧ s'.data = s.data) := by
  obtain ⟨s0, hv, hd0, hp0⟩ := verifyFileobj_q hq s (by omega)
  have hb := saveM_q hq B hB objs [] padZero s0 (by rw [hp0, hp])
  rw [hd0] at hb
  unfold deleteM
  simp only [bind_run, hv]
  exact hb

/-- ASF.save on the file object without faults and without a capacity limit: exactly the pure model -/
theorem saveM_clean (B : Nat) (hB : 0 < B) (objs : List Obj) (tags : List Tag) (pad : PadChoice) (s : FS) (hp : s.pos = 0) :
    match saveTree objs s.data tags pad with
    | .error x => ∃ s', saveM B objs tags pad Env.clean s = (.error x, s') ∧ s'.data = s.data
    | .ok (out, _) => ∃ s', saveM B objs tags pad Env.clean s = (.ok (), s') ∧ s'.data = out := by
  obtain ⟨s0, hv, hd0, hp0⟩ := verifyFileobj_q clean_quiet s (by omega)
  have hb := saveBody_clean B hB objs tags pad s0 (by rw [hp0, hp])
  rw [hd0] at hb
  unfold saveM
  rw [convertError_run]
  simp only [bind_run, hv]
  cases hst : saveTree objs s.data tags pad with
  | error x =>
    rw [hst] at hb
    obtain ⟨s', h1, h2⟩ := hb
    simp only [h1]
    have hx : x.isIO = false := by
      rcases saveTree_err hst with rfl | rfl <;> rfl
    simp only [hx, Bool.false_eq_true, ↓reduceIte]
    exact ⟨s', rfl, h2⟩
  | ok r =>
    obtain ⟨out, t⟩ := r
    rw [hst] at hb
    obtain ⟨s', h1, h2⟩ := hb
    simp only [h1]
    exact ⟨s', rfl, h2⟩

theorem deleteM_clean (B : Nat) (hB : 0 < B) (objs : List Obj) (s : FS) (hp : s.pos = 0) :
    match saveTree objs s.data [] padZero with
    | .error x => ∃ s', deleteM B objs Env.clean s = (.error x, s') ∧ s'.data = s.data
    | .ok (out, _) => ∃ s', deleteM B objs Env.clean s = (.ok (), s') ∧ s'.data = out := by
  obtain ⟨s0, hv, hd0, hp0⟩ := verifyFileobj_q clean_quiet s (by omega)
  have hb := saveM_clean B hB objs [] padZero s0 (by rw [hp0, hp])
  rw [hd0] at hb
  unfold deleteM
  simp only [bind_run, hv]
  exact hb

/-! ### arbitrary fault environments: what can be raised -/

/-- what the body of ASF.save raises by itself -/
def AsfErr (e : Env) (x : PyErr) : Prop := x = .mutagen ∨ x = .unicode ∨ PrimErr e x

theorem Raises.ofExcept {P : Env → PyErr → Prop} {α : Type} (r : Except PyErr α) (h : ∀ e x, r = .error x → P e x) :
    Raises P (match r with | .error x => Mutagen.raise x | .ok a => pure a : FileM α) := by
  intro e s err s' hm
  cases r with
  | error x =>
    simp only [raise_run, Prod.mk.injEq, Except.error.injEq] at hm
    exact hm.1 ▸ h e x rfl
  | ok a => simp at hm

theorem raises_renderFullM (tags : List Tag) (objs : List Obj) (av : Nat) (pad : PadChoice) :
    Raises (fun e x => x = .struct_ ∨ AsfErr e x) (renderFullM (distPure tags) objs av pad) := by
  intro e s err s' h
  unfold renderFullM at h
  cases hc : concatMapE (renderObj (distPure tags)) (objs.filter fun o => !o.isPad) with
  | error x =>
    rw [hc] at h
    simp only [raise_run, Prod.mk.injEq, Except.error.injEq] at h
    have := concatMapE_err (fun e => e = .unicode ∨ e = .struct_) _ _
      (fun o _ e he => renderObj_err (distPure_cd_text tags) he) hc
    rw [← h.1]
    rcases this with h1 | h1
    · exact Or.inr (Or.inr (Or.inl h1))
    · exact Or.inl h1
  | ok b =>
    rw [hc] at h
    simp only [bind_run] at h
    cases hg : getSize e s with
    | mk r s1 =>
      rw [hg] at h
      cases r with
      | error x =>
        simp only [Prod.mk.injEq, Except.error.injEq] at h
        exact Or.inr (Or.inr (Or.inr (h.1 ▸ Raises.getSize e s x s1 hg)))
      | ok n =>
        simp only at h
        cases hr : renderFull (distPure tags) objs n av pad with
        | error x =>
          rw [hr] at h
          simp only [raise_run, Prod.mk.injEq, Except.error.injEq] at h
          rw [← h.1]
          rcases renderFull_err (distPure_cd_text tags) hr with h1 | h1 | h1
          · exact Or.inr (Or.inl h1)
          · exact Or.inr (Or.inr (Or.inl h1))
          · exact Or.inl h1
        | ok data => rw [hr] at h; simp at h

theorem raises_renderWrapped (tags : List Tag) (objs : List Obj) (av : Nat) (pad : PadChoice) :
    Raises AsfErr (tryCatch (renderFullM (distPure tags) objs av pad) (fun e => e == .struct_) (fun _ => Mutagen.raise .mutagen)) := by
  intro e s err s' h
  unfold tryCatch at h
  cases hb : renderFullM (distPure tags) objs av pad e s with
  | mk r s1 =>
    rw [hb] at h
    cases r with
    | ok a => simp at h
    | error x =>
      simp only at h
      by_cases hx : x = .struct_
      · subst hx
        simp only [beq_self_eq_true, ↓reduceIte, raise_run, Prod.mk.injEq, Except.error.injEq] at h
        exact Or.inl h.1.symm
      · have h1 : (x == PyErr.struct_) = false := by simpa using hx
        simp only [h1, Bool.false_eq_true, ↓reduceIte, Prod.mk.injEq, Except.error.injEq] at h
        rcases raises_renderFullM tags objs av pad e s x s1 hb with h2 | h2
        · exact absurd h2 hx
        · exact h.1 ▸ h2

theorem asfErr_prim {e : Env} {x : PyErr} (h : PrimErr e x) : AsfErr e x := Or.inr (Or.inr h)

theorem raises_saveBody (B : Nat) (objs : List Obj) (tags : List Tag) (pad : PadChoice) :
    Raises AsfErr (saveBody B objs tags pad) := by
  unfold saveBody
  cases hd : distribute tags with
  | error x =>
    intro e s err s' h
    simp only [raise_run, Prod.mk.injEq, Except.error.injEq] at h
    exact Or.inr (Or.inl (h.1 ▸ distribute_err hd))
  | ok d =>
    have := distribute_ok hd
    subst this
    simp only []
    apply Raises.bind ((Raises.fread _).weaken fun _ _ h => asfErr_prim (inj_prim h)); intro header
    apply Raises.ite
    · exact Raises.raise _ (fun _ => Or.inl rfl)
    · apply Raises.bind (raises_renderWrapped tags _ _ pad); intro data
      apply Raises.bind ((Raises.resizeBytes _ _ _ _).weaken fun _ _ h => asfErr_prim h); intro _
      apply Raises.bind ((Raises.fseek _).weaken fun _ _ h => asfErr_prim (inj_prim h)); intro _
      exact (Raises.fwrite _).weaken fun _ x hx => asfErr_prim (hx.elim inj_prim (fun h => h ▸ prim_enospc _))

theorem raises_verify : Raises (fun _ x => x = .value) verifyFileobj := by
  intro e s err s' h
  unfold verifyFileobj tryCatch at h
  cases hb : (do let _ ← fread 0; fwrite [] : FileM Unit) e s with
  | mk r s1 =>
    rw [hb] at h
    cases r with
    | ok a => simp at h
    | error x =>
      simp only [↓reduceIte, raise_run, Prod.mk.injEq, Except.error.injEq] at h
      exact h.1.symm

/-- ASF.save under ANY fault environment: `error` (a MutagenError), or a non-I/O exception: ValueError
(verify_fileobj, argument checks), UnicodeEncodeError (caller tags), an injected non-I/O exception, or
the BUFFER_SIZE = 0 marker -/
theorem raises_saveM (B : Nat) (objs : List Obj) (tags : List Tag) (pad : PadChoice) :
    Raises (fun e x => x = .mutagen ∨ ((x = .value ∨ AsfErr e x) ∧ x.isIO = false)) (saveM B objs tags pad) := by
  unfold saveM
  apply Raises.convertError
  apply Raises.bind (raises_verify.weaken fun _ _ h => Or.inl h); intro _
  exact (raises_saveBody B objs tags pad).weaken fun _ _ h => Or.inr h

theorem raises_deleteM (B : Nat) (objs : List Obj) :
    Raises (fun e x => x = .mutagen ∨ ((x = .value ∨ AsfErr e x) ∧ x.isIO = false)) (deleteM B objs) := by
  unfold deleteM
  apply Raises.bind (raises_verify.weaken fun _ _ h => Or.inr ⟨Or.inl h, by rw [h]; rfl⟩); intro _
  exact raises_saveM B objs [] padZero

/-! ### a normal return means: no fault fired, everything written -/

theorem OkAgree.getSize' : OkAgree getSize := by
  unfold getSize
  apply OkAgree.bind OkAgree.ftell; intro old
  exact OkAgree.tryFinally (OkAgree.bind OkAgree.fseekEnd fun _ => OkAgree.ftell) (OkAgree.fseek _)

theorem okAgree_renderFullM (d : Dist) (objs : List Obj) (av : Nat) (pad : PadChoice) : OkAgree (renderFullM d objs av pad) := by
  unfold renderFullM
  cases hc : concatMapE (renderObj d) (objs.filter fun o => !o.isPad) with
  | error x => exact OkAgree.raise x
  | ok b =>
    simp only []
    apply OkAgree.bind OkAgree.getSize'; intro n
    cases renderFull d objs n av pad with
    | error x => exact OkAgree.raise x
    | ok data => exact OkAgree.pure data

theorem okAgree_convertError (src : PyErr → Bool) (dst : PyErr) {m : FileM α} (hm : OkAgree m) : OkAgree (convertError src dst m) := by
  intro e s a s' h
  rw [convertError_run] at h ⊢
  cases hms : m e s with
  | mk r s1 =>
    rw [hms] at h
    cases r with
    | ok b => rw [hm e s b s1 hms]; exact h
    | error x => simp only at h; split at h <;> simp at h

theorem okAgree_verify : OkAgree verifyFileobj := by
  unfold verifyFileobj
  apply OkAgree.tryCatch
  · exact OkAgree.bind (OkAgree.fread 0) fun _ => OkAgree.fwrite []
  · intro x e s a s' h; simp at h

theorem okAgree_saveBody (B : Nat) (objs : List Obj) (tags : List Tag) (pad : PadChoice) : OkAgree (saveBody B objs tags pad) := by
  unfold saveBody
  cases hd : distribute tags with
  | error x => exact OkAgree.raise x
  | ok d =>
    simp only []
    apply OkAgree.bind (OkAgree.fread _); intro header
    split
    · exact OkAgree.raise _
    · apply OkAgree.bind
      · apply OkAgree.tryCatch (okAgree_renderFullM d _ _ pad)
        intro x e s a s' h; simp at h
      · intro data
        apply OkAgree.bind (OkAgree.resizeBytes _ _ _ _); intro _
        apply OkAgree.bind (OkAgree.fseek _); intro _
        exact OkAgree.fwrite _

theorem okAgree_saveM (B : Nat) (objs : List Obj) (tags : List Tag) (pad : PadChoice) : OkAgree (saveM B objs tags pad) := by
  unfold saveM
  apply okAgree_convertError
  exact OkAgree.bind okAgree_verify fun _ => okAgree_saveBody B objs tags pad

theorem okAgree_deleteM (B : Nat) (objs : List Obj) : OkAgree (deleteM B objs) := by
  unfold deleteM
  exact OkAgree.bind okAgree_verify fun _ => okAgree_saveM B objs [] padZero

/-- success means written: a normal return of ASF.save — whatever the environment would have injected
elsewhere, on a device of any capacity, as long as reads are not short — leaves exactly what the pure
model computes -/
theorem saveM_ok_means_written (B : Nat) (hB : 0 < B) (objs : List Obj) (tags : List Tag) (pad : PadChoice) (e : Env)
    (hshort : ∀ i, e.shortAt i = none) (s s' : FS) (hp : s.pos = 0) (h : saveM B objs tags pad e s = (.ok (), s')) :
    ∃ t, saveTree objs s.data tags pad = .ok (s'.data, t) := by
  have h' := okAgree_saveM B objs tags pad e s () s' h
  have hq : Quiet e.noFaults := ⟨fun _ => rfl, hshort⟩
  have := saveM_q hq B hB objs tags pad s hp
  cases hst : saveTree objs s.data tags pad with
  | error x =>
    rw [hst] at this
    obtain ⟨s2, h2, _⟩ := this
    rw [h2] at h'; injection h' with h1 _; cases h1
  | ok r =>
    obtain ⟨out, t⟩ := r
    rw [hst] at this
    simp only [] at this
    rcases this with ⟨s2, h2, hd⟩ | ⟨s2, h2, _⟩
    · rw [h2] at h'
      injection h' with _ h3
      exact ⟨t, by rw [← h3, hd]⟩
    · rw [h2] at h'; injection h' with h1 _; cases h1

theorem deleteM_ok_means_written (B : Nat) (hB : 0 < B) (objs : List Obj) (e : Env)
    (hshort : ∀ i, e.shortAt i = none) (s s' : FS) (hp : s.pos = 0) (h : deleteM B objs e s = (.ok (), s')) :
    ∃ t, saveTree objs s.data [] padZero = .ok (s'.data, t) := by
  have h' := okAgree_deleteM B objs e s () s' h
  have hq : Quiet e.noFaults := ⟨fun _ => rfl, hshort⟩
  have := deleteM_q hq B hB objs s hp
  cases hst : saveTree objs s.data [] padZero with
  | error x =>
    rw [hst] at this
    obtain ⟨s2, h2, _⟩ := this
    rw [h2] at h'; injection h' with h1 _; cases h1
  | ok r =>
    obtain ⟨out, t⟩ := r
    rw [hst] at this
    simp only [] at this
    rcases this with ⟨s2, h2, hd⟩ | ⟨s2, h2, _⟩
    · rw [h2] at h'
      injection h' with _ h3
      exact ⟨t, by rw [← h3, hd]⟩
    · rw [h2] at h'; injection h' with h1 _; cases h1

end Mutagen.Asf
