/- Proofs/Container/Dsf.lean — save/delete of DSF files on well-formed layouts, and the strict reader -/
import MutagenModel.Model.Container.Dsf
import MutagenModel.Proofs.Container.Id3File
import MutagenModel.Proofs.IntCodec
import MutagenModel.Proofs.Padding
set_option linter.unusedVariables false
namespace Mutagen.Dsf
open Mutagen

/-! ### reading pieces of concatenations -/

theorem readAt_left (X Y : Bytes) (o n : Nat) (h : o + n ≤ X.length) : readAt (X ++ Y) o n = readAt X o n := by
  unfold readAt
  rw [List.drop_append_of_le_length (by omega), List.take_append_of_le_length (by simp; omega)]

theorem readAt_right (X Y : Bytes) (k o n : Nat) (hk : k = X.length + o) : readAt (X ++ Y) k n = readAt Y o n := by
  unfold readAt
  subst hk
  rw [List.drop_append]
  have : X.drop (X.length + o) = [] := List.drop_eq_nil_of_le (by omega)
  simp [this]

theorem readAt_zero_left (X Y : Bytes) (n : Nat) (h : X.length = n) : readAt (X ++ Y) 0 n = X := by
  unfold readAt
  simp [List.take_left' h]

@[simp] theorem length_dsdChunk (t p : Nat) : (dsdChunk t p).length = 28 := by
  simp [dsdChunk, magicDSD]

theorem dsd_take4 (t p : Nat) : (dsdChunk t p).take 4 = magicDSD := by
  simp [dsdChunk, List.append_assoc, magicDSD]

theorem dsd_size (t p : Nat) : ((dsdChunk t p).drop 4).take 8 = toLE 8 dsdSize := by
  simp [dsdChunk, List.append_assoc, magicDSD, List.take_left' (length_toLE 8 dsdSize)]

theorem dsd_total (t p : Nat) : ((dsdChunk t p).drop 12).take 8 = toLE 8 t := by
  have : (magicDSD ++ toLE 8 dsdSize).length = 12 := by simp [magicDSD]
  unfold dsdChunk
  rw [List.append_assoc (magicDSD ++ toLE 8 dsdSize), List.drop_left' this, List.take_left' (length_toLE 8 t)]

theorem dsd_pointer (t p : Nat) : ((dsdChunk t p).drop 20).take 8 = toLE 8 p := by
  have : (magicDSD ++ toLE 8 dsdSize ++ toLE 8 t).length = 20 := by simp [magicDSD]
  unfold dsdChunk
  rw [List.drop_left' this]
  simp [List.take_of_length_le]

theorem loadDsd_render (t p : Nat) (rest : Bytes) (ht : t < 2 ^ 64) (hp : p < 2 ^ 63) :
    loadDsd (dsdChunk t p ++ rest) = .ok ⟨t, p⟩ := by
  unfold loadDsd
  have h28 : (dsdChunk t p ++ rest).take dsdSize = dsdChunk t p := List.take_left' (length_dsdChunk t p)
  simp only [h28, length_dsdChunk, dsd_take4, dsd_size, dsd_total, dsd_pointer]
  rw [ofLE_toLE 8 dsdSize (by decide), ofLE_toLE 8 t (by simpa using ht), ofLE_toLE 8 p (by omega)]
  have : ¬ p > 2 ^ 63 - 1 := by omega
  simp [dsdSize, this]

theorem writeDsd_render (t p : Nat) (rest : Bytes) (t' p' : Nat) (ht : t' < 2 ^ 64) (hp : p' < 2 ^ 64) :
    writeDsd (dsdChunk t p ++ rest) ⟨t', p'⟩ = .ok (dsdChunk t' p' ++ rest) := by
  unfold writeDsd
  have : ¬ (t' ≥ 2 ^ 64 ∨ p' ≥ 2 ^ 64) := by omega
  simp only [this, ↓reduceIte, writeAt, length_dsdChunk, List.take_zero, List.nil_append, Nat.zero_add]
  rw [List.drop_left' (length_dsdChunk t p)]


/-! ### save -/

/-- `saveAt` spelled out on a file `DSD chunk ++ mid ++ tg` whose pointer is the position of `tg` and
where `ID3Header` finds `tg` to be a whole tag (or finds nothing and `tg` is empty) -/
theorem saveAt_eq (t q : Nat) (mid tg : Bytes) (ho : Option Nat) (vmaj : Nat) (hvm : vmaj = 3 ∨ vmaj = 4)
    (frames : Bytes) (pad : PadChoice)
    (hh : Id3F.headerSize tg = .ok ho) (hlen : ho.getD 0 = tg.length) (p : Nat)
    (hp : getPadding pad ((tg.length : Int) - (frames.length + 10 : Nat)) 0 = p)
    (hd : Bytes) (hhd : Id3F.header vmaj (frames.length + p) = .ok hd) (hd10 : hd.length = 10)
    (hsize : 28 + mid.length + 10 + frames.length + p < 2 ^ 64) (hfit : frames.length + p < 2 ^ 28) :
    saveAt (dsdChunk t q ++ mid ++ tg) (28 + mid.length) vmaj frames pad =
      .ok (dsdChunk (28 + mid.length + (10 + frames.length + p)) (28 + mid.length) ++ mid ++ (hd ++ frames ++ zeros p)) := by
  have hpre : (dsdChunk t q ++ mid).length = 28 + mid.length := by simp
  unfold saveAt
  rw [List.drop_left' hpre, hh]
  simp only [hlen]
  have h0 : ¬ (vmaj ≠ 3 ∧ vmaj ≠ 4) := by omega
  rw [if_neg h0]
  have hfl : (dsdChunk t q ++ mid ++ tg).length = 28 + mid.length + tg.length := by simp; omega
  have htr : ((dsdChunk t q ++ mid ++ tg).length : Int) - ((28 + mid.length : Nat) : Int) - (tg.length : Int) = 0 := by
    rw [hfl]; omega
  rw [htr]
  simp only [Int.lt_irrefl, ↓reduceIte, Int.toNat_zero, hp]
  have h3 : ¬ ((p : Int) < 0) := by omega
  rw [if_neg h3]
  have h5 : ¬ (frames.length > 2 ^ 28 - 1) := by omega
  rw [if_neg h5]
  have hmin : min (p : Int).toNat (2 ^ 28 - 1 - frames.length) = p := by
    rw [Int.toNat_natCast]; omega
  simp only [hmin, hhd]
  have hwt : writeTrunc (dsdChunk t q ++ mid ++ tg) (28 + mid.length) (hd ++ frames ++ zeros p) =
      dsdChunk t q ++ (mid ++ (hd ++ frames ++ zeros p)) := by
    unfold writeTrunc
    rw [List.take_left' hpre, hfl]
    have : 28 + mid.length - (28 + mid.length + tg.length) = 0 := by omega
    simp [this, zeros]
  rw [hwt]
  have hl2 : (dsdChunk t q ++ (mid ++ (hd ++ frames ++ zeros p))).length = 28 + mid.length + (10 + frames.length + p) := by
    simp [hd10]; omega
  rw [hl2, writeDsd_render t q _ _ _ (by omega) (by omega)]
  simp [List.append_assoc]

/-! ### layouts -/

/-- the fmt chunk: 52 bytes, id "fmt ", size field 52, format version 1, format id 0 (DSD raw) -/
structure FmtOK (fmt : Bytes) : Prop where
  len : fmt.length = fmtSize
  magic : fmt.take 4 = magicFmt
  size : ofLE ((fmt.drop 4).take 8) = fmtSize
  version : ofLE ((fmt.drop 12).take 4) = 1
  formatId : ofLE ((fmt.drop 16).take 4) = 0

/-- the data chunk: id "data", a size field that covers the 12 header bytes and the sample data -/
structure DataOK (d : Bytes) : Prop where
  len : dataHdr ≤ d.length
  magic : d.take 4 = magicData
  size : ofLE ((d.drop 4).take 8) = d.length

/-- a well-formed DSF file: the three chunks, the tag region empty or a flag-less ID3v2.2/3/4 header
followed by the body it announces, and a size that is a possible file offset -/
structure Layout.OK (L : Layout) : Prop where
  fmt : FmtOK L.fmt
  data : DataOK L.data
  tag : Id3F.TagOK L.tag
  size : L.total < 2 ^ 63

/-- the layout with another tag region -/
def Layout.withTag (L : Layout) (t : Bytes) : Layout := { L with tag := t }

@[simp] theorem tagPos_withTag (L : Layout) (t : Bytes) : (L.withTag t).tagPos = L.tagPos := rfl
@[simp] theorem tag_withTag (L : Layout) (t : Bytes) : (L.withTag t).tag = t := rfl
@[simp] theorem fmt_withTag (L : Layout) (t : Bytes) : (L.withTag t).fmt = L.fmt := rfl
@[simp] theorem data_withTag (L : Layout) (t : Bytes) : (L.withTag t).data = L.data := rfl
@[simp] theorem withTag_withTag (L : Layout) (t u : Bytes) : (L.withTag t).withTag u = L.withTag u := rfl
theorem withTag_self (L : Layout) : L.withTag L.tag = L := rfl

theorem length_render (L : Layout) : L.render.length = L.total := by
  simp [Layout.render, Layout.total, Layout.tagPos, dsdSize]; omega

/-- `ID3Header` on the tag region of a layout -/
theorem headerSize_tagOK (t : Bytes) (h : Id3F.TagOK t) :
    ∃ ho, Id3F.headerSize t = .ok ho ∧ ho.getD 0 = t.length ∧ (t ≠ [] → ho = some t.length) := by
  rcases h with rfl | ⟨vmaj, hd, body, hv, hn, hh, rfl⟩
  · exact ⟨none, Id3F.headerSize_none [] (Or.inl (by simp)), rfl, fun h => absurd rfl h⟩
  · obtain ⟨a, b, c, d, h1, _⟩ := Id3F.header_ok vmaj body.length hn
    have hl : (hd ++ body).length = body.length + 10 := by
      rw [h1] at hh; cases hh; simp [Id3F.magicID3]
    exact ⟨some (body.length + 10), Id3F.headerSize_tag vmaj body.length hv hd body hn hh, by simp [hl], fun _ => by rw [hl]⟩

/-- the new tag region is a well-formed one -/
theorem newTag_ok (vmaj : Nat) (hvm : vmaj = 3 ∨ vmaj = 4) (frames : Bytes) (p : Nat) (hfit : frames.length + p < 2 ^ 28)
    (hd : Bytes) (hhd : Id3F.header vmaj (frames.length + p) = .ok hd) :
    Id3F.TagOK (hd ++ frames ++ zeros p) ∧ hd.length = 10 := by
  obtain ⟨a, b, c, d, h1, _⟩ := Id3F.header_ok vmaj (frames.length + p) hfit
  have hl : hd.length = 10 := by rw [h1] at hhd; cases hhd; simp [Id3F.magicID3]
  refine ⟨Or.inr ⟨vmaj, hd, frames ++ zeros p, by omega, by simpa using hfit, by simpa using hhd, by simp⟩, hl⟩

theorem withTag_ok (L : Layout) (h : L.OK) (t : Bytes) (ht : Id3F.TagOK t) (hs : L.tagPos + t.length < 2 ^ 63) :
    (L.withTag t).OK := ⟨h.fmt, h.data, ht, hs⟩

theorem tagPos_pos (L : Layout) : L.tagPos ≠ 0 := by simp [Layout.tagPos, dsdSize]

/-- THE save theorem: on a well-formed layout `_DSFID3.save` yields the same layout with the tag region
replaced by: a new header whose size field is `frames + padding`, the frames, `p` zero bytes — where
`p` is what the padding callback (or the default policy) answered when it was offered
`len(old tag) - (len(frames) + 10)` and told that nothing follows.  Pointer and total size are those of
the new layout. -/
theorem save_layout (L : Layout) (h : L.OK) (vmaj : Nat) (hvm : vmaj = 3 ∨ vmaj = 4) (frames : Bytes) (pad : PadChoice)
    (p : Nat) (hp : getPadding pad ((L.tag.length : Int) - (frames.length + 10 : Nat)) 0 = p)
    (hfit : frames.length + p < 2 ^ 28) :
    ∃ hd, Id3F.header vmaj (frames.length + p) = .ok hd ∧ hd.length = 10 ∧
      save L.render vmaj frames pad = .ok (L.withTag (hd ++ frames ++ zeros p)).render := by
  obtain ⟨a, b, c, d, hhd, _⟩ := Id3F.header_ok vmaj (frames.length + p) hfit
  have hd10 : (Id3F.magicID3 ++ [UInt8.ofNat vmaj, 0, 0] ++ [a, b, c, d]).length = 10 := by simp [Id3F.magicID3]
  refine ⟨_, hhd, hd10, ?_⟩
  generalize Id3F.magicID3 ++ [UInt8.ofNat vmaj, 0, 0] ++ [a, b, c, d] = hd at hhd hd10
  obtain ⟨ho, hho, hlen, _⟩ := headerSize_tagOK L.tag h.tag
  have htot := h.size
  have htp : L.tagPos = 28 + (L.fmt ++ L.data).length := by simp [Layout.tagPos, dsdSize]; omega
  have hsz : 28 + (L.fmt ++ L.data).length + 10 + frames.length + p < 2 ^ 64 := by
    have : L.tagPos ≤ L.total := by simp [Layout.total]
    omega
  have hnew : (L.withTag (hd ++ frames ++ zeros p)).render =
      dsdChunk (28 + (L.fmt ++ L.data).length + (10 + frames.length + p)) (28 + (L.fmt ++ L.data).length) ++
        (L.fmt ++ L.data) ++ (hd ++ frames ++ zeros p) := by
    have hne : hd ++ frames ++ zeros p ≠ [] := by
      intro e
      have := congrArg List.length e
      simp [hd10] at this
    simp only [Layout.render, Layout.total, Layout.pointer, tag_withTag, tagPos_withTag, hne, ↓reduceIte, fmt_withTag,
      data_withTag, htp]
    simp [hd10, List.append_assoc]
    congr 1
    omega
  rw [hnew]
  unfold save
  have hr : L.render = dsdChunk L.total L.pointer ++ (L.fmt ++ L.data) ++ L.tag := by
    simp [Layout.render, List.append_assoc]
  have hpl : L.pointer < 2 ^ 63 := by
    unfold Layout.pointer
    split
    · decide
    · have : L.tagPos ≤ L.total := by simp [Layout.total]
      omega
  rw [hr, List.append_assoc, loadDsd_render _ _ _ (by omega) hpl]
  simp only []
  by_cases ht : L.tag = []
  · have hp0 : L.pointer = 0 := by simp [Layout.pointer, ht]
    have hfl : (dsdChunk L.total 0 ++ (L.fmt ++ L.data ++ [])).length = 28 + (L.fmt ++ L.data).length := by simp
    simp only [hp0, ht, ↓reduceIte, hfl]
    rw [writeDsd_render _ _ _ _ _ (by omega) (by omega)]
    simp only []
    have := saveAt_eq L.total (28 + (L.fmt ++ L.data).length) (L.fmt ++ L.data) [] ho vmaj hvm frames pad
      (by rw [← ht]; exact hho) (by rw [hlen, ht]) p (by simpa [ht] using hp) hd hhd hd10 hsz hfit
    simpa [List.append_assoc] using this
  · have hpp : L.pointer = 28 + (L.fmt ++ L.data).length := by simp [Layout.pointer, ht, htp]
    have hne : ¬ (28 + (L.fmt ++ L.data).length = 0) := by omega
    simp only [hpp, hne, ↓reduceIte]
    have := saveAt_eq L.total (28 + (L.fmt ++ L.data).length) (L.fmt ++ L.data) L.tag ho vmaj hvm frames pad
      hho hlen p hp hd hhd hd10 hsz hfit
    simpa [List.append_assoc] using this


/-! ### delete -/

theorem loadFmt_ok (fmt : Bytes) (h : FmtOK fmt) : loadFmt fmt = .ok () := by
  unfold loadFmt
  simp [h.len, h.magic, h.size, h.version, h.formatId]

theorem loadData_ok (d : Bytes) (h : DataOK d) : loadData (d.take dataHdr) = .ok () := by
  unfold loadData
  have hl := h.len
  have h1 : (d.take dataHdr).length = dataHdr := by simp [List.length_take]; omega
  have h2 : (d.take dataHdr).take 4 = d.take 4 := by simp [List.take_take, dataHdr]
  have h3 : ((d.take dataHdr).drop 4).take 8 = (d.drop 4).take 8 := by
    rw [List.drop_take]; simp [List.take_take, dataHdr]
  have h4 : ¬ d.length < dataHdr := by omega
  simp [h1, h2, h3, h.magic, h.size, h4]

/-- what the two chunk loaders of `delete` read from a rendered layout -/
theorem reads_render (t q : Nat) (L : Layout) (h : L.OK) :
    readAt (dsdChunk t q ++ L.fmt ++ L.data ++ L.tag) dsdSize fmtSize = L.fmt ∧
    readAt (dsdChunk t q ++ L.fmt ++ L.data ++ L.tag) (dsdSize + fmtSize) dataHdr = L.data.take dataHdr := by
  have hf : L.fmt.length = 52 := h.fmt.len
  have hd : 12 ≤ L.data.length := h.data.len
  constructor
  · rw [List.append_assoc, List.append_assoc, readAt_right (dsdChunk t q) _ dsdSize 0 fmtSize (by simp [dsdSize])]
    exact readAt_zero_left _ _ _ hf
  · rw [List.append_assoc (dsdChunk t q ++ L.fmt), readAt_right (dsdChunk t q ++ L.fmt) _ (dsdSize + fmtSize) 0 dataHdr
      (by simp [dsdSize, fmtSize, hf])]
    rw [readAt_left _ _ _ _ (by simp [dataHdr]; omega)]
    simp [readAt]

/-- THE delete theorem: on a well-formed layout `delete` leaves the three chunks, pointer 0 and the
total size of what is left — the layout without its tag region -/
theorem delete_layout (L : Layout) (h : L.OK) : delete L.render = .ok (L.withTag []).render := by
  have hle : L.tagPos ≤ L.total := by simp [Layout.total]
  have hpl : L.pointer < 2 ^ 63 := by
    unfold Layout.pointer
    split
    · decide
    · have := h.size; omega
  obtain ⟨r1, r2⟩ := reads_render L.total L.pointer L h
  unfold delete
  have hr : L.render = dsdChunk L.total L.pointer ++ (L.fmt ++ L.data ++ L.tag) := by
    simp [Layout.render, List.append_assoc]
  rw [show loadDsd L.render = .ok ⟨L.total, L.pointer⟩ by
    rw [hr]; exact loadDsd_render _ _ _ (by have := h.size; omega) hpl]
  simp only [Layout.render, r1, r2, loadFmt_ok _ h.fmt, loadData_ok _ h.data]
  by_cases ht : L.tag = []
  · have hp0 : L.pointer = 0 := by simp [Layout.pointer, ht]
    have : L.withTag [] = L := by cases L; simp_all [Layout.withTag]
    simp [hp0, this]
  · have hpp : L.pointer = L.tagPos := by simp [Layout.pointer, ht]
    have hne := tagPos_pos L
    simp only [hpp, ne_eq, hne, not_false_eq_true, ↓reduceIte]
    rw [List.append_assoc, List.append_assoc, writeDsd_render _ _ _ _ _ (by have := h.size; omega) (by decide)]
    simp only []
    have hl : (dsdChunk L.tagPos 0 ++ (L.fmt ++ L.data)).length = L.tagPos := by
      simp [Layout.tagPos, dsdSize]; omega
    rw [show dsdChunk L.tagPos 0 ++ (L.fmt ++ (L.data ++ L.tag)) = (dsdChunk L.tagPos 0 ++ (L.fmt ++ L.data)) ++ L.tag by
      simp [List.append_assoc], List.take_left' hl]
    simp [Layout.total, Layout.pointer, List.append_assoc]

/-! ### the strict reader -/

theorem readFile_layout (L : Layout) (h : L.OK) : readFile L.render = some L := by
  have hf : L.fmt.length = 52 := h.fmt.len
  have hd : 12 ≤ L.data.length := h.data.len
  have hlen := length_render L
  have hpos : L.tagPos = 80 + L.data.length := by simp [Layout.tagPos, dsdSize, hf]
  have htot : L.total = 80 + L.data.length + L.tag.length := by simp [Layout.total, hpos]
  have hsz := h.size
  have hpl : L.pointer < 2 ^ 63 := by
    unfold Layout.pointer
    split
    · decide
    · omega
  -- the fields of the DSD chunk
  have hr : L.render = dsdChunk L.total L.pointer ++ (L.fmt ++ L.data ++ L.tag) := by
    simp [Layout.render, List.append_assoc]
  have e0 : L.render.take 4 = magicDSD := by
    rw [hr, List.take_append_of_le_length (by simp)]; exact dsd_take4 _ _
  have e1 : readAt L.render 4 8 = toLE 8 dsdSize := by
    rw [hr, readAt_left _ _ _ _ (by simp)]; exact dsd_size _ _
  have e2 : readAt L.render 12 8 = toLE 8 L.total := by
    rw [hr, readAt_left _ _ _ _ (by simp)]; exact dsd_total _ _
  have e3 : readAt L.render 20 8 = toLE 8 L.pointer := by
    rw [hr, readAt_left _ _ _ _ (by simp)]; exact dsd_pointer _ _
  -- the fmt chunk
  have hrf : L.render = dsdChunk L.total L.pointer ++ (L.fmt ++ (L.data ++ L.tag)) := by
    simp [Layout.render, List.append_assoc]
  have f0 : readAt L.render 28 4 = magicFmt := by
    rw [hrf, readAt_right _ _ 28 0 4 (by simp), readAt_left _ _ _ _ (by omega)]
    simpa [readAt] using h.fmt.magic
  have f1 : readAt L.render 32 8 = (L.fmt.drop 4).take 8 := by
    rw [hrf, readAt_right _ _ 32 4 8 (by simp), readAt_left _ _ _ _ (by omega)]; rfl
  have f2 : readAt L.render 40 4 = (L.fmt.drop 12).take 4 := by
    rw [hrf, readAt_right _ _ 40 12 4 (by simp), readAt_left _ _ _ _ (by omega)]; rfl
  have f3 : readAt L.render 44 4 = (L.fmt.drop 16).take 4 := by
    rw [hrf, readAt_right _ _ 44 16 4 (by simp), readAt_left _ _ _ _ (by omega)]; rfl
  have f4 : readAt L.render 28 fmtSize = L.fmt := by
    rw [hrf, readAt_right _ _ 28 0 fmtSize (by simp)]; exact readAt_zero_left _ _ _ hf
  -- the data chunk
  have hrd : L.render = (dsdChunk L.total L.pointer ++ L.fmt) ++ (L.data ++ L.tag) := by
    simp [Layout.render, List.append_assoc]
  have hpre : (dsdChunk L.total L.pointer ++ L.fmt).length = 80 := by simp [hf]
  have d0 : readAt L.render 80 4 = magicData := by
    rw [hrd, readAt_right _ _ 80 0 4 (by simp [hpre]), readAt_left _ _ _ _ (by omega)]
    simpa [readAt] using h.data.magic
  have d1 : readAt L.render 84 8 = (L.data.drop 4).take 8 := by
    rw [hrd, readAt_right _ _ 84 4 8 (by simp [hpre]), readAt_left _ _ _ _ (by omega)]; rfl
  have d2 : readAt L.render 80 L.data.length = L.data := by
    rw [hrd, readAt_right _ _ 80 0 _ (by simp [hpre])]; exact readAt_zero_left _ _ _ rfl
  have d3 : L.render.drop (80 + L.data.length) = L.tag := by
    rw [show L.render = (dsdChunk L.total L.pointer ++ L.fmt ++ L.data) ++ L.tag by simp [Layout.render]]
    exact List.drop_left' (by simp [hf]; omega)
  unfold readFile
  simp only [e0, e1, e2, e3, f0, f1, f2, f3, f4, d0, d1, hlen, h.fmt.size, h.fmt.version, h.fmt.formatId, h.data.size,
    ofLE_toLE 8 dsdSize (by decide), ofLE_toLE 8 L.total (by omega), ofLE_toLE 8 L.pointer (by omega), d2]
  have c0 : ¬ L.total < dsdSize + fmtSize + dataHdr := by show ¬ L.total < 28 + 52 + 12; omega
  have c1 : ¬ (L.data.length < dataHdr ∨ L.total < 80 + L.data.length) := by show ¬ (L.data.length < 12 ∨ _); omega
  simp only [c0, c1, ne_eq, not_true_eq_false, ↓reduceIte]
  by_cases ht : L.tag = []
  · have hp0 : L.pointer = 0 := by simp [Layout.pointer, ht]
    have : L.total = 80 + L.data.length := by simp [htot, ht]
    simp only [hp0, ↓reduceIte, this]
    cases L; simp_all
  · have hpp : L.pointer = 80 + L.data.length := by simp [Layout.pointer, ht, hpos]
    have hne : ¬ (80 + L.data.length = 0) := by omega
    obtain ⟨ho, hho, _, hsome⟩ := headerSize_tagOK L.tag h.tag
    have : L.total - (80 + L.data.length) = L.tag.length := by omega
    simp only [hpp, hne, ↓reduceIte, not_true_eq_false, d3, hho, hsome ht, this]

/-! ### what is where in a rendered layout -/

theorem render_eq (L : Layout) :
    L.render = magicDSD ++ toLE 8 dsdSize ++ toLE 8 L.total ++ toLE 8 L.pointer ++ L.fmt ++ L.data ++ L.tag := rfl

/-- the first 12 bytes: chunk id and chunk size -/
theorem render_take12 (L : Layout) : L.render.take 12 = magicDSD ++ toLE 8 dsdSize := by
  have : (magicDSD ++ toLE 8 dsdSize).length = 12 := by simp [magicDSD]
  rw [render_eq]
  simp only [List.append_assoc]
  rw [← List.append_assoc magicDSD]
  exact List.take_left' this

/-- the fmt and data chunk follow the 28-byte DSD chunk -/
theorem render_chunks (L : Layout) : readAt L.render 28 (L.fmt.length + L.data.length) = L.fmt ++ L.data := by
  rw [show L.render = dsdChunk L.total L.pointer ++ ((L.fmt ++ L.data) ++ L.tag) by simp [Layout.render, List.append_assoc],
    readAt_right _ _ 28 0 _ (by simp)]
  exact readAt_zero_left _ _ _ (by simp)

theorem total_field (L : Layout) (h : L.total < 2 ^ 64) : ofLE (readAt L.render 12 8) = L.total := by
  rw [show L.render = dsdChunk L.total L.pointer ++ (L.fmt ++ L.data ++ L.tag) by simp [Layout.render, List.append_assoc],
    readAt_left _ _ _ _ (by simp)]
  show ofLE (((dsdChunk L.total L.pointer).drop 12).take 8) = _
  rw [dsd_total, ofLE_toLE 8 _ (by simpa using h)]

theorem pointer_field (L : Layout) (h : L.pointer < 2 ^ 64) : ofLE (readAt L.render 20 8) = L.pointer := by
  rw [show L.render = dsdChunk L.total L.pointer ++ (L.fmt ++ L.data ++ L.tag) by simp [Layout.render, List.append_assoc],
    readAt_left _ _ _ _ (by simp)]
  show ofLE (((dsdChunk L.total L.pointer).drop 20).take 8) = _
  rw [dsd_pointer, ofLE_toLE 8 _ (by simpa using h)]

theorem drop_tagPos (L : Layout) : L.render.drop L.tagPos = L.tag := by
  rw [show L.render = (dsdChunk L.total L.pointer ++ L.fmt ++ L.data) ++ L.tag by simp [Layout.render]]
  exact List.drop_left' (by simp [Layout.tagPos, dsdSize]; omega)

theorem take_tagPos (L : Layout) : L.render.take L.tagPos = dsdChunk L.total L.pointer ++ L.fmt ++ L.data := by
  rw [show L.render = (dsdChunk L.total L.pointer ++ L.fmt ++ L.data) ++ L.tag by simp [Layout.render]]
  exact List.take_left' (by simp [Layout.tagPos, dsdSize]; omega)

theorem header_length (vmaj n : Nat) (hd : Bytes) (hn : n < 2 ^ 28) (hh : Id3F.header vmaj n = .ok hd) : hd.length = 10 := by
  obtain ⟨a, b, c, d, h1, _⟩ := Id3F.header_ok vmaj n hn
  rw [h1] at hh; cases hh; simp [Id3F.magicID3]

theorem without_ok (L : Layout) (h : L.OK) : (L.withTag []).OK :=
  withTag_ok L h [] (Or.inl rfl) (by have := h.size; simp [Layout.total] at this ⊢; omega)

theorem pointer_withTag (L : Layout) (t : Bytes) (ht : t ≠ []) : (L.withTag t).pointer = L.tagPos := by
  simp [Layout.pointer, ht]

theorem total_withTag (L : Layout) (t : Bytes) : (L.withTag t).total = L.tagPos + t.length := rfl


/-- a small well-formed file: mono DSD64 fmt chunk, two sample bytes, a v2.4 tag with a 2-byte body -/
def exampleLayout : Layout :=
  ⟨magicFmt ++ toLE 8 52 ++ toLE 4 1 ++ toLE 4 0 ++ toLE 4 1 ++ toLE 4 1 ++ toLE 4 2822400 ++ toLE 4 1 ++ toLE 8 16 ++ toLE 4 4096 ++ toLE 4 0,
   magicData ++ toLE 8 14 ++ [0x69, 0x69],
   [0x49, 0x44, 0x33, 4, 0, 0, 0, 0, 0, 2] ++ [7, 7]⟩

theorem exampleLayout_ok : exampleLayout.OK := by
  refine ⟨⟨by decide +kernel, by decide +kernel, by decide +kernel, by decide +kernel, by decide +kernel⟩,
    ⟨by decide +kernel, by decide +kernel, by decide +kernel⟩,
    Or.inr ⟨4, [0x49, 0x44, 0x33, 4, 0, 0, 0, 0, 0, 2], [7, 7], by decide, by decide, by decide +kernel, rfl⟩,
    by decide +kernel⟩


/-! ### the reader is strict -/

theorem take_add_readAt (f : Bytes) (a b : Nat) : f.take (a + b) = f.take a ++ readAt f a b := by
  unfold readAt; exact List.take_add

theorem length_readAt (f : Bytes) (a b : Nat) (h : a + b ≤ f.length) : (readAt f a b).length = b := by
  unfold readAt; simp [List.length_take, List.length_drop]; omega

theorem toLE_of_ofLE (b : Bytes) (n w : Nat) (hl : b.length = w) (h : ofLE b = n) : toLE w n = b := by
  rw [← hl, ← h]; exact toLE_ofLE b

theorem headerSize_some_ne_nil (t : Bytes) (k : Nat) (h : Id3F.headerSize t = .ok (some k)) : t ≠ [] := by
  intro e
  have hn : Id3F.headerSize [] = .ok none := Id3F.headerSize_none [] (Or.inl (by decide))
  rw [e, hn] at h
  cases h

/-- the reader is strict: whatever it accepts is, byte for byte, the rendering of what it returns -/
theorem readFile_sound (f : Bytes) (L : Layout) (h : readFile f = some L) : L.render = f := by
  unfold readFile at h
  by_cases c0 : f.length < dsdSize + fmtSize + dataHdr
  · rw [if_pos c0] at h; cases h
  rw [if_neg c0] at h
  by_cases c1 : f.take 4 ≠ magicDSD
  · rw [if_pos c1] at h; cases h
  rw [if_neg c1] at h
  by_cases c2 : ofLE (readAt f 4 8) ≠ dsdSize
  · rw [if_pos c2] at h; cases h
  rw [if_neg c2] at h
  by_cases c3 : ofLE (readAt f 12 8) ≠ f.length
  · rw [if_pos c3] at h; cases h
  rw [if_neg c3] at h
  by_cases c4 : readAt f 28 4 ≠ magicFmt
  · rw [if_pos c4] at h; cases h
  rw [if_neg c4] at h
  by_cases c5 : ofLE (readAt f 32 8) ≠ fmtSize
  · rw [if_pos c5] at h; cases h
  rw [if_neg c5] at h
  by_cases c6 : ofLE (readAt f 40 4) ≠ 1
  · rw [if_pos c6] at h; cases h
  rw [if_neg c6] at h
  by_cases c7 : ofLE (readAt f 44 4) ≠ 0
  · rw [if_pos c7] at h; cases h
  rw [if_neg c7] at h
  by_cases c8 : readAt f 80 4 ≠ magicData
  · rw [if_pos c8] at h; cases h
  rw [if_neg c8] at h
  dsimp only at h
  by_cases c9 : ofLE (readAt f 84 8) < dataHdr ∨ f.length < 80 + ofLE (readAt f 84 8)
  · rw [if_pos c9] at h; cases h
  rw [if_neg c9] at h
  have hlen : 92 ≤ f.length := by simp [dsdSize, fmtSize, dataHdr] at c0; omega
  have c1' : f.take 4 = magicDSD := by simpa using c1
  have c2' : ofLE (readAt f 4 8) = 28 := by simpa [dsdSize] using c2
  have c3' : ofLE (readAt f 12 8) = f.length := by simpa using c3
  have hn : 12 ≤ ofLE (readAt f 84 8) ∧ 80 + ofLE (readAt f 84 8) ≤ f.length := by
    simp [dataHdr] at c9; omega
  generalize ofLE (readAt f 84 8) = n at h hn
  -- the first 28 bytes are the DSD chunk with the fields as read
  have h28 : f.take 28 = dsdChunk f.length (ofLE (readAt f 20 8)) := by
    rw [show (28 : Nat) = 4 + 8 + 8 + 8 from rfl, take_add_readAt, take_add_readAt, take_add_readAt, c1']
    unfold dsdChunk
    rw [toLE_of_ofLE (readAt f 4 8) dsdSize 8 (length_readAt f 4 8 (by omega)) c2',
      toLE_of_ofLE (readAt f (4 + 8) 8) f.length 8 (length_readAt f _ 8 (by omega)) c3',
      toLE_of_ofLE (readAt f (4 + 8 + 8) 8) _ 8 (length_readAt f _ 8 (by omega)) rfl]
  have hsplit : f = f.take 28 ++ readAt f 28 fmtSize ++ readAt f 80 n ++ f.drop (80 + n) := by
    have e1 : f.take 28 ++ readAt f 28 fmtSize = f.take 80 := (take_add_readAt f 28 52).symm
    have e2 : f.take 80 ++ readAt f 80 n = f.take (80 + n) := (take_add_readAt f 80 n).symm
    rw [e1, e2, List.take_append_drop]
  have hl1 : (readAt f 28 fmtSize).length = 52 := length_readAt f 28 52 (by omega)
  have hl2 : (readAt f 80 n).length = n := length_readAt f 80 n (by omega)
  split at h
  · rename_i hp0
    split at h
    · rename_i hfl
      cases h
      have hd : f.drop (80 + n) = [] := List.drop_eq_nil_of_le (by omega)
      have ht : (Layout.mk (readAt f 28 fmtSize) (readAt f 80 n) []).total = f.length := by
        simp [Layout.total, Layout.tagPos, dsdSize, hl1, hl2]; omega
      conv => rhs; rw [hsplit]
      simp only [Layout.render, ht, Layout.pointer, ↓reduceIte, h28, hp0, hd]
    · cases h
  · rename_i hp0
    split at h; · cases h
    split at h; · cases h
    rename_i hp1 hhs
    have hp1' : ofLE (readAt f 20 8) = 80 + n := by simpa using hp1
    rw [hp1'] at h hhs h28
    cases h
    have hhs' : Id3F.headerSize (f.drop (80 + n)) = .ok (some (f.length - (80 + n))) := by simpa using hhs
    have hne := headerSize_some_ne_nil _ _ hhs'
    have hpos : (Layout.mk (readAt f 28 fmtSize) (readAt f 80 n) (f.drop (80 + n))).tagPos = 80 + n := by
      simp [Layout.tagPos, dsdSize, hl1, hl2]
    have ht : (Layout.mk (readAt f 28 fmtSize) (readAt f 80 n) (f.drop (80 + n))).total = f.length := by
      simp only [Layout.total, hpos, List.length_drop]; omega
    conv => rhs; rw [hsplit]
    simp only [Layout.render, ht, Layout.pointer, hpos, h28, hne, ↓reduceIte]

end Mutagen.Dsf
