/- Proofs/Container/FlacLoad.lean — FLAC.load as a program over the file object: never writes, ends, raises only `error`
under arbitrary faults and short reads, and is the pure `load` on a quiet device -/
import MutagenModel.Model.Container.FlacLoad
import MutagenModel.Proofs.Container.IffLoad
import MutagenModel.Proofs.FlacBlocks
set_option linter.unusedVariables false
namespace Mutagen.FlacL
open Mutagen Mutagen.FlacB Mutagen.Iff

/-! ### three judgements, one rule per construct: bytes untouched (`Pres`, Proofs/Container/IffLoad.lean), position
never moves back on a normal return (`Adv`), what is raised (`Raises`) -/

def Adv (m : FileM α) : Prop := ∀ e s a s', m e s = (.ok a, s') → s.pos ≤ s'.pos

theorem Adv.pure (a : α) : Adv (pure a : FileM α) := by
  intro e s b s' h; simp only [pure_run, Prod.mk.injEq] at h; rw [← h.2]; exact Nat.le_refl _
theorem Adv.raise (x : PyErr) : Adv (raise x : FileM α) := by intro e s b s' h; simp at h
theorem Adv.bind {m : FileM α} {f : α → FileM β} (hm : Adv m) (hf : ∀ a, Adv (f a)) : Adv (m >>= f) := by
  intro e s b s' h
  simp only [bind_run] at h
  cases hms : m e s with
  | mk r1 s1 =>
    rw [hms] at h
    cases r1 with
    | ok a => exact Nat.le_trans (hm e s a s1 hms) (hf a e s1 b s' h)
    | error x => simp at h
theorem Adv.ite {c : Prop} [Decidable c] {m n : FileM α} (hm : Adv m) (hn : Adv n) : Adv (if c then m else n) := by
  split <;> assumption
theorem Adv.ftell : Adv ftell := by
  intro e s p s' h; have := (ftell_ok e s s' p h).2; omega
theorem Adv.fread (n : Nat) : Adv (fread n) := by
  intro e s b s' h; have := (fread_ok_pos n e s s' b h).1; omega

theorem fread_ok_bound (n : Nat) (e : Env) (s s1 : FS) (b : Bytes) (h : fread n e s = (.ok b, s1)) :
    b.length ≤ s.data.length - s.pos ∧ s1.data = s.data := by
  refine ⟨?_, Pres.fread n e s _ s1 h⟩
  unfold fread Mutagen.tick at h
  cases hfa : e.failAt s.ops with
  | some x => simp [hfa] at h
  | none =>
    simp only [hfa, Prod.mk.injEq, Except.ok.injEq] at h
    rw [← h.1]
    simp only [readAt, List.length_take, List.length_drop]
    omega

/-- a strict read that returns: exactly `n` bytes were there -/
theorem sreadM_ok (n : Nat) (e : Env) (s s' : FS) (b : Bytes) (h : sreadM n e s = (.ok b, s')) :
    s'.pos = s.pos + n ∧ n ≤ s.data.length - s.pos ∧ s'.data = s.data := by
  unfold sreadM at h
  simp only [bind_run] at h
  cases hf : fread n e s with
  | mk r1 s1 =>
    rw [hf] at h
    cases r1 with
    | error x => simp at h
    | ok d =>
      obtain ⟨hp, _⟩ := fread_ok_pos n e s s1 d hf
      obtain ⟨hb, hd⟩ := fread_ok_bound n e s s1 d hf
      simp only at h
      split at h
      · simp at h
      · rename_i hl
        simp only [pure_run, Prod.mk.injEq] at h
        have hl' : d.length = n := by simpa using hl
        rw [← h.2]
        exact ⟨by rw [hp, hl'], by rw [← hl']; exact hb, hd⟩

theorem Adv.sreadM (n : Nat) : Adv (sreadM n) := by
  intro e s b s' h; have := (sreadM_ok n e s s' b h).1; omega

theorem pres_sreadM (n : Nat) : Pres (sreadM n) := by
  unfold FlacL.sreadM
  exact Pres.bind (Pres.fread n) fun _ => Pres.ite (Pres.bind (Pres.raise _) fun _ => Pres.pure _) (Pres.pure _)

/-- the module's `error`, or an exception the environment injected -/
def FErr (e : Env) (x : PyErr) : Prop := x = .mutagen ∨ Injected e x
theorem finj {e : Env} {x : PyErr} (h : Injected e x) : FErr e x := Or.inr h

theorem raises_sreadM (n : Nat) : Raises FErr (sreadM n) := by
  unfold FlacL.sreadM
  exact Raises.bind ((Raises.fread n).weaken fun _ _ => finj) fun _ =>
    Raises.ite (Raises.bind (Raises.raise _ fun _ => Or.inl rfl) fun _ => Raises.pure _ _) (Raises.pure _ _)

/-- all three at once -/
structure Fine (m : FileM α) : Prop where
  pres : Pres m
  adv : Adv m
  raises : Raises FErr m

theorem Fine.pure (a : α) : Fine (pure a : FileM α) := ⟨Pres.pure a, Adv.pure a, Raises.pure _ a⟩
theorem Fine.bind {m : FileM α} {f : α → FileM β} (hm : Fine m) (hf : ∀ a, Fine (f a)) : Fine (m >>= f) :=
  ⟨Pres.bind hm.pres fun a => (hf a).pres, Adv.bind hm.adv fun a => (hf a).adv, Raises.bind hm.raises fun a => (hf a).raises⟩
theorem Fine.ite {c : Prop} [Decidable c] {m n : FileM α} (hm : Fine m) (hn : Fine n) : Fine (if c then m else n) := by
  split <;> assumption
theorem Fine.ite' {c : Prop} [Decidable c] {m n : FileM α} (hm : c → Fine m) (hn : ¬ c → Fine n) : Fine (if c then m else n) := by
  split
  · rename_i h; exact hm h
  · rename_i h; exact hn h
theorem Fine.raiseM : Fine (raise .mutagen : FileM α) := ⟨Pres.raise _, Adv.raise _, Raises.raise _ fun _ => Or.inl rfl⟩
theorem Fine.sreadM (n : Nat) : Fine (sreadM n) := ⟨pres_sreadM n, Adv.sreadM n, raises_sreadM n⟩
theorem Fine.ftell : Fine ftell := ⟨Pres.ftell, Adv.ftell, Raises.ftell.weaken fun _ _ => finj⟩

theorem Fine.liftE (r : Except PyErr α) (h : ∀ x, r = .error x → x = .mutagen) : Fine (liftE r) := by
  unfold FlacL.liftE
  cases r with
  | ok a => exact Fine.pure a
  | error x => rw [h x rfl]; exact Fine.raiseM

theorem fine_vcItemsM (n : Nat) (acc : Bytes) : Fine (vcItemsM n acc) := by
  induction n generalizing acc with
  | zero => exact Fine.pure _
  | succ k ih => unfold vcItemsM; exact (Fine.sreadM 4).bind fun _ => (Fine.sreadM _).bind fun _ => ih _

theorem fine_vcM : Fine vcM := by
  unfold vcM
  exact Fine.ftell.bind fun _ => Fine.ftell.bind fun _ => (Fine.sreadM 4).bind fun _ => (Fine.sreadM _).bind fun _ =>
    (Fine.sreadM 4).bind fun _ => (fine_vcItemsM _ _).bind fun _ => Fine.ftell.bind fun _ => Fine.ftell.bind fun _ => Fine.pure _

theorem fine_pictureM : Fine pictureM := by
  unfold pictureM
  exact Fine.ftell.bind fun _ => (Fine.sreadM 8).bind fun _ => (Fine.sreadM _).bind fun _ => (Fine.sreadM 4).bind fun _ =>
    (Fine.sreadM _).bind fun _ => (Fine.sreadM 20).bind fun _ => (Fine.sreadM _).bind fun _ => Fine.ftell.bind fun _ => Fine.pure _

theorem siLoad_err (d : Bytes) (x : PyErr) (h : Flac.siLoad d = .error x) : x = .mutagen := by
  unfold Flac.siLoad at h
  split at h
  · cases h; rfl
  · split at h
    · split at h
      · cases h; rfl
      · cases h
    · cases h; rfl

theorem fine_readBodyM (code size : Nat) : Fine (readBodyM code size) := by
  unfold readBodyM
  refine Fine.ite' (fun _ => fine_vcM.bind fun _ => Fine.pure _) fun h4 => Fine.ite (fine_pictureM.bind fun _ => Fine.pure _) ?_
  refine (Fine.sreadM size).bind fun d => ?_
  by_cases h0 : code = 0
  · rw [if_pos h0]
    exact (Fine.liftE _ (siLoad_err d)).bind fun _ => Fine.pure _
  · rw [if_neg h0]
    exact (Fine.liftE _ (fun x hx => C04_body d code h0 h4 x hx)).bind fun _ => Fine.pure _
where
  C04_body (d : Bytes) (code : Nat) (h0 : code ≠ 0) (h4 : code ≠ 4) (x : PyErr) (hx : loadBody code d.length d = .error x) : x = .mutagen := by
    unfold loadBody at hx
    rw [if_neg (by omega)] at hx
    split at hx
    · exact ((loadPictureS_total d).bnd fun _ => OnlyM.ok _) x hx
    · refine ((OnlyM.rd d.length d).bnd fun dd => ?_) x hx
      split
      · exact (OnlyM.ok _ : OnlyM (loadPadding dd.1)).bnd fun _ => OnlyM.ok _
      · split
        · exact (loadSeekTable_total _).bnd fun _ => OnlyM.ok _
        · split
          · exact (loadCueSheet_total _).bnd fun _ => OnlyM.ok _
          · exact (OnlyM.ok _ : OnlyM (loadGeneric dd.1)).bnd fun _ => OnlyM.ok _

theorem fine_readBlockM : Fine readBlockM := by
  unfold readBlockM
  exact (Fine.sreadM 1).bind fun _ => (Fine.sreadM 3).bind fun _ => (fine_readBodyM _ _).bind fun _ => Fine.pure _

/-- a block that was read took at least its four header bytes, and they were there -/
theorem readBlockM_progress (e : Env) (s s' : FS) (r : LBlock × Bool) (h : readBlockM e s = (.ok r, s')) :
    s'.data = s.data ∧ s'.data.length - s'.pos + 4 ≤ s.data.length - s.pos := by
  have hd := fine_readBlockM.pres e s _ s' h
  refine ⟨hd, ?_⟩
  unfold readBlockM at h
  simp only [bind_run] at h
  cases h1 : sreadM 1 e s with
  | mk r1 s1 =>
    rw [h1] at h
    cases r1 with
    | error x => simp at h
    | ok b1 =>
      obtain ⟨p1, l1, d1⟩ := sreadM_ok 1 e s s1 b1 h1
      simp only at h
      cases h2 : sreadM 3 e s1 with
      | mk r2 s2 =>
        rw [h2] at h
        cases r2 with
        | error x => simp at h
        | ok b3 =>
          obtain ⟨p2, l2, d2⟩ := sreadM_ok 3 e s1 s2 b3 h2
          simp only at h
          cases h3 : readBodyM (ofBE b1 % 128) (ofBE b3) e s2 with
          | mk r3 s3 =>
            rw [h3] at h
            cases r3 with
            | error x => simp at h
            | ok blk =>
              have ha := (fine_readBodyM _ _).adv e s2 blk s3 h3
              simp only [pure_run, Prod.mk.injEq] at h
              rw [← h.2] at hd ⊢
              rw [hd]
              rw [d1] at l2
              omega

/-- the block loop ends under every environment: with fuel above the number of bytes left it never runs out -/
theorem readBlocksM_fine (fuel : Nat) (cue seek : Bool) :
    Pres (readBlocksM fuel cue seek) ∧
    ∀ e s err s', s.data.length - s.pos < fuel → readBlocksM fuel cue seek e s = (.error err, s') → FErr e err := by
  induction fuel generalizing cue seek with
  | zero => exact ⟨by unfold readBlocksM; exact Pres.raise _, fun e s err s' hf _ => by omega⟩
  | succ k ih =>
    constructor
    · unfold readBlocksM
      refine Pres.bind fine_readBlockM.pres fun r => Pres.ite (Pres.raise _) (Pres.ite (Pres.pure _) ?_)
      exact Pres.bind (ih _ _).1 fun _ => Pres.pure _
    · intro e s err s' hf h
      unfold readBlocksM at h
      simp only [bind_run] at h
      cases hb : readBlockM e s with
      | mk r1 s1 =>
        rw [hb] at h
        cases r1 with
        | error x =>
          simp only [Prod.mk.injEq, Except.error.injEq] at h
          exact h.1 ▸ fine_readBlockM.raises e s x s1 hb
        | ok r =>
          obtain ⟨hd, hprog⟩ := readBlockM_progress e s s1 r hb
          simp only at h
          split at h
          · simp only [raise_run, Prod.mk.injEq, Except.error.injEq] at h
            exact h.1 ▸ Or.inl rfl
          · split at h
            · simp at h
            · simp only [bind_run] at h
              cases hr : readBlocksM k (cue || r.1.code == 5) (seek || r.1.code == 3) e s1 with
              | mk r2 s2 =>
                rw [hr] at h
                cases r2 with
                | error x =>
                  simp only [Prod.mk.injEq, Except.error.injEq] at h
                  exact h.1 ▸ (ih _ _).2 e s1 x s2 (by omega) hr
                | ok l => simp at h

theorem pres_checkHeaderM : Pres checkHeaderM := by
  unfold checkHeaderM
  refine Pres.bind (pres_sreadM 4) fun h => Pres.ite (Pres.pure _) (Pres.ite ?_ (Pres.raise _))
  exact Pres.bind (pres_sreadM 6) fun _ => Pres.bind (Pres.fseek _) fun _ => Pres.bind (pres_sreadM 4) fun _ =>
    Pres.ite (Pres.pure _) (Pres.raise _)

theorem raises_checkHeaderM : Raises FErr checkHeaderM := by
  unfold checkHeaderM
  refine Raises.bind (raises_sreadM 4) fun h => Raises.ite (Raises.pure _ _) (Raises.ite ?_ (Raises.raise _ fun _ => Or.inl rfl))
  exact Raises.bind (raises_sreadM 6) fun _ => Raises.bind ((Raises.fseek _).weaken fun _ _ => finj) fun _ =>
    Raises.bind (raises_sreadM 4) fun _ => Raises.ite (Raises.pure _ _) (Raises.raise _ fun _ => Or.inl rfl)

theorem pres_loadM : Pres loadM := by
  unfold loadM ghostLength
  refine Pres.bind (Pres.tryCatch (Pres.bind (Pres.fread 0) fun _ => Pres.pure _) fun _ => Pres.raise _) fun _ =>
    Pres.bind pres_checkHeaderM fun _ => Pres.bind (by intro e s r s' h; simp only [Prod.mk.injEq] at h; rw [← h.2]) fun n =>
    Pres.bind (readBlocksM_fine _ _ _).1 fun bs => Pres.ite (Pres.ite ?_ (Pres.pure _)) (Pres.raise _)
  exact Pres.bind Pres.ftell fun _ => Pres.bind Pres.fseekEnd fun _ => Pres.bind Pres.ftell fun _ => Pres.pure _

/-- what `loadM` can raise: the module's `error`, an injected exception, or the ValueError `verify_fileobj` makes of an
injected exception -/
def LErr (e : Env) (x : PyErr) : Prop := FErr e x ∨ (x = .value ∧ ∃ y, Injected e y)

theorem raises_loadM : Raises LErr loadM := by
  intro e s err s' h
  unfold loadM at h
  simp only [bind_run] at h
  cases hv : tryCatch (do let _ ← fread 0; Pure.pure () : FileM Unit) (fun _ => true) (fun _ => raise .value) e s with
  | mk r0 s0 =>
    rw [hv] at h
    cases r0 with
    | error x =>
      simp only [Prod.mk.injEq, Except.error.injEq] at h
      -- the handler ran: the body raised an injected exception
      unfold Mutagen.tryCatch at hv
      cases hb : (do let _ ← fread 0; Pure.pure () : FileM Unit) e s with
      | mk rb sb =>
        rw [hb] at hv
        cases rb with
        | ok u => simp at hv
        | error y =>
          have hy : Injected e y :=
            (Raises.bind (Raises.fread 0) fun _ => Raises.pure _ _ : Raises Injected (do let _ ← fread 0; Pure.pure () : FileM Unit)) e s y sb hb
          simp only [↓reduceIte, raise_run, Prod.mk.injEq, Except.error.injEq] at hv
          exact h.1 ▸ hv.1 ▸ Or.inr ⟨rfl, y, hy⟩
    | ok u =>
      simp only at h
      cases hc : checkHeaderM e s0 with
      | mk r1 s1 =>
        rw [hc] at h
        cases r1 with
        | error x =>
          simp only [Prod.mk.injEq, Except.error.injEq] at h
          exact h.1 ▸ Or.inl (raises_checkHeaderM e s0 x s1 hc)
        | ok hdr =>
          simp only [ghostLength] at h
          cases hr : readBlocksM (s1.data.length + 1) false false e s1 with
          | mk r2 s2 =>
            rw [hr] at h
            cases r2 with
            | error x =>
              simp only [Prod.mk.injEq, Except.error.injEq] at h
              exact h.1 ▸ Or.inl ((readBlocksM_fine _ _ _).2 e s1 x s2 (by omega) hr)
            | ok bs =>
              simp only at h
              have hrest : Raises FErr (if bs.any isStreamInfo = true then
                  (if hasLength bs = true then (do let start ← ftell; fseekEnd; let size ← ftell; Pure.pure (⟨bs, some (size - start)⟩ : Loaded))
                   else Pure.pure ⟨bs, none⟩) else raise .mutagen : FileM Loaded) := by
                refine Raises.ite (Raises.ite ?_ (Raises.pure _ _)) (Raises.raise _ fun _ => Or.inl rfl)
                exact Raises.bind (Raises.ftell.weaken fun _ _ => finj) fun _ => Raises.bind (Raises.fseekEnd.weaken fun _ _ => finj) fun _ =>
                  Raises.bind (Raises.ftell.weaken fun _ _ => finj) fun _ => Raises.pure _ _
              exact Or.inl (hrest e s2 err s' h)


/-! ### without faults: the pure model -/

/-- in environment `e` the program does to the file position what the pure stream function does to the stream: the
same value and the rest of the stream, or the same exception; the bytes stay -/
def Sim (e : Env) (m : FileM α) (p : Bytes → Except PyErr (α × Bytes)) : Prop :=
  ∀ s, ∃ s', s'.data = s.data ∧
    match p (s.data.drop s.pos) with
    | .ok (a, rest) => m e s = (.ok a, s') ∧ s.data.drop s'.pos = rest
    | .error x => m e s = (.error x, s')

theorem Sim.congr {e : Env} {m : FileM α} {p q : Bytes → Except PyErr (α × Bytes)} (h : ∀ b, p b = q b) (hs : Sim e m p) : Sim e m q := by
  intro s; obtain ⟨s', h1, h2⟩ := hs s; rw [h] at h2; exact ⟨s', h1, h2⟩

theorem Sim.pure {e : Env} (a : α) : Sim e (pure a : FileM α) (fun b => .ok (a, b)) := fun s => ⟨s, rfl, rfl, rfl⟩

theorem Sim.bind {e : Env} {m : FileM α} {f : α → FileM β} {p : Bytes → Except PyErr (α × Bytes)} {g : α → Bytes → Except PyErr (β × Bytes)}
    (hm : Sim e m p) (hf : ∀ a, Sim e (f a) (g a)) : Sim e (m >>= f) (fun b => bnd (p b) fun x => g x.1 x.2) := by
  intro s
  obtain ⟨s1, d1, h1⟩ := hm s
  cases hp : p (s.data.drop s.pos) with
  | error x =>
    rw [hp] at h1
    refine ⟨s1, d1, ?_⟩
    simp only [hp, bnd_error, bind_run, h1]
  | ok ar =>
    obtain ⟨a, rest⟩ := ar
    rw [hp] at h1
    obtain ⟨hrun, hrest⟩ := h1
    obtain ⟨s2, d2, h2⟩ := hf a s1
    rw [d1, hrest] at h2
    refine ⟨s2, by rw [d2, d1], ?_⟩
    simp only [hp, bnd_ok, bind_run, hrun]
    cases hg : g a rest with
    | error x => rw [hg] at h2; exact h2
    | ok br =>
      obtain ⟨b, r2⟩ := br
      rw [hg] at h2
      exact ⟨h2.1, h2.2⟩

theorem Sim.ite {e : Env} {c : Prop} [Decidable c] {m n : FileM α} {p q : Bytes → Except PyErr (α × Bytes)}
    (hm : Sim e m p) (hn : Sim e n q) : Sim e (if c then m else n) (fun b => if c then p b else q b) := by
  split
  · exact hm
  · exact hn

theorem Sim.raise {e : Env} (x : PyErr) : Sim e (raise x : FileM α) (fun _ => .error x) := fun s => ⟨s, rfl, rfl⟩

theorem Sim.sreadM {e : Env} (hq : Quiet e) (n : Nat) : Sim e (sreadM n) (rd n) := by
  intro s
  unfold FlacL.sreadM rd
  simp only [bind_run, fread_q hq, readAt]
  have hdl : (s.data.drop s.pos).length = s.data.length - s.pos := List.length_drop
  by_cases hl : (s.data.drop s.pos).length < n
  · rw [if_pos hl]
    have : ((s.data.drop s.pos).take n).length ≠ n := by rw [List.length_take]; omega
    simp only [this, ↓reduceIte, ne_eq, not_false_eq_true, raise_run]
    refine ⟨_, ?_, rfl⟩
    rfl
  · rw [if_neg hl]
    have hlen : ((s.data.drop s.pos).take n).length = n := by rw [List.length_take]; omega
    simp only [hlen, ne_eq, not_true_eq_false, ↓reduceIte, pure_run]
    refine ⟨_, ?_, rfl, ?_⟩
    · rfl
    · simp only [List.drop_drop]

/-- a `tell` whose result is not used -/
theorem Sim.tellThen {e : Env} (hq : Quiet e) {k : FileM α} {p : Bytes → Except PyErr (α × Bytes)} (hk : Sim e k p) :
    Sim e (ftell >>= fun _ => k) p := by
  intro s
  simp only [bind_run, ftell_q hq]
  exact hk { s with ops := s.ops + 1, log := .tell :: s.log }

theorem Sim.liftE {e : Env} (r : Except PyErr α) : Sim e (liftE r) (fun b => bnd r fun a => .ok (a, b)) := by
  cases r with
  | ok a => exact Sim.pure a
  | error x => exact Sim.raise x

theorem sim_vcItemsM {e : Env} (hq : Quiet e) (n : Nat) (acc : Bytes) : Sim e (vcItemsM n acc) (vcItems n acc) := by
  induction n generalizing acc with
  | zero => exact Sim.pure acc
  | succ k ih =>
    unfold vcItemsM
    refine Sim.congr (fun b => ?_) ((Sim.sreadM hq 4).bind fun l => (Sim.sreadM hq (ofLE l)).bind fun v => ih (acc ++ l ++ v))
    rfl

theorem sim_vcM {e : Env} (hq : Quiet e) : Sim e vcM vcSkip := by
  unfold vcM
  refine Sim.tellThen hq (Sim.tellThen hq ?_)
  refine Sim.congr (fun b => ?_) ((Sim.sreadM hq 4).bind fun l => (Sim.sreadM hq (ofLE l)).bind fun v => (Sim.sreadM hq 4).bind fun c =>
    ((sim_vcItemsM hq (ofLE c) (l ++ v ++ c)).bind fun raw => Sim.tellThen hq (Sim.tellThen hq (Sim.pure raw))))
  unfold vcSkip
  cases h1 : rd 4 b with
  | error x => rfl
  | ok p =>
    simp only [bnd_ok]
    cases h2 : rd (ofLE p.1) p.2 with
    | error x => rfl
    | ok q =>
      simp only [bnd_ok]
      cases h3 : rd 4 q.2 with
      | error x => rfl
      | ok r =>
        simp only [bnd_ok]
        cases vcItems (ofLE r.1) (p.1 ++ q.1 ++ r.1) r.2 with
        | error x => rfl
        | ok z => rfl

theorem sim_pictureM {e : Env} (hq : Quiet e) : Sim e pictureM loadPictureS := by
  unfold pictureM
  refine Sim.tellThen hq ?_
  refine Sim.congr (fun b => ?_) ((Sim.sreadM hq 8).bind fun h1 => (Sim.sreadM hq _).bind fun m => (Sim.sreadM hq 4).bind fun h2 =>
    (Sim.sreadM hq _).bind fun ds => (Sim.sreadM hq 20).bind fun h3 => (Sim.sreadM hq _).bind fun data =>
    Sim.tellThen hq (Sim.pure (⟨ofBE (h1.take 4), decodeReplace m, decodeReplace ds, ofBE (h3.take 4), ofBE ((h3.drop 4).take 4),
        ofBE ((h3.drop 8).take 4), ofBE ((h3.drop 12).take 4), data⟩ : Picture)))
  rfl

theorem sim_readBodyM {e : Env} (hq : Quiet e) (code size : Nat) : Sim e (readBodyM code size) (readBody code size) := by
  unfold readBodyM
  refine Sim.congr (fun b => ?_) (Sim.ite ((sim_vcM hq).bind fun raw => Sim.pure (⟨4, .vc raw⟩ : LBlock))
    (Sim.ite ((sim_pictureM hq).bind fun p => Sim.pure (⟨6, .other (.picture p)⟩ : LBlock))
      ((Sim.sreadM hq size).bind fun d => Sim.ite ((Sim.liftE (Flac.siLoad d)).bind fun s => Sim.pure (⟨0, .streaminfo s⟩ : LBlock))
        ((Sim.liftE (loadBody code d.length d)).bind fun r => Sim.pure (⟨code, .other r.1⟩ : LBlock)))))
  unfold readBody
  split
  · rfl
  · split
    · rfl
    · cases rd size b with
      | error x => rfl
      | ok d =>
        simp only [bnd_ok]
        split
        · cases Flac.siLoad d.1 <;> rfl
        · cases loadBody code d.1.length d.1 <;> rfl

theorem sim_readBlockM {e : Env} (hq : Quiet e) : Sim e readBlockM readBlock := by
  unfold readBlockM
  refine Sim.congr (fun b => ?_) ((Sim.sreadM hq 1).bind fun b1 => (Sim.sreadM hq 3).bind fun b3 =>
    (sim_readBodyM hq (ofBE b1 % 128) (ofBE b3)).bind fun blk => Sim.pure (blk, decide (ofBE b1 ≥ 128)))
  rfl

theorem readBlocks_succ (k : Nat) (cue seek : Bool) (b : Bytes) :
    readBlocks (k + 1) cue seek b = bnd (readBlock b) fun r =>
      if (r.1.1.code = 5 ∧ cue = true) ∨ (r.1.1.code = 3 ∧ seek = true) then .error .mutagen
      else if r.1.2 then .ok ([r.1.1], r.2)
      else bnd (readBlocks k (cue || r.1.1.code == 5) (seek || r.1.1.code == 3) r.2) fun t => .ok (r.1.1 :: t.1, t.2) := rfl

theorem sim_readBlocksM {e : Env} (hq : Quiet e) (fuel : Nat) (cue seek : Bool) :
    Sim e (readBlocksM fuel cue seek) (readBlocks fuel cue seek) := by
  induction fuel generalizing cue seek with
  | zero => unfold readBlocksM; exact Sim.congr (fun b => rfl) (Sim.raise .diverge)
  | succ k ih =>
    unfold readBlocksM
    refine Sim.congr (fun b => ?_) ((sim_readBlockM hq).bind fun r =>
      Sim.ite (c := (r.1.code = 5 ∧ cue = true) ∨ (r.1.code = 3 ∧ seek = true)) (Sim.raise .mutagen)
        (Sim.ite (c := r.2 = true) (Sim.pure [r.1]) ((ih (cue || r.1.code == 5) (seek || r.1.code == 3)).bind fun t => Sim.pure (r.1 :: t))))
    rw [readBlocks_succ]

/-- `__check_header` from the start of the file -/
theorem checkHeaderM_q {e : Env} (hq : Quiet e) (s : FS) (hp : s.pos = 0) :
    ∃ s', s'.data = s.data ∧
      match checkHeader s.data with
      | .ok (n, rest) => checkHeaderM e s = (.ok n, s') ∧ s.data.drop s'.pos = rest
      | .error x => checkHeaderM e s = (.error x, s') := by
  unfold checkHeaderM checkHeader
  obtain ⟨s1, d1, h1⟩ := Sim.sreadM hq 4 s
  rw [hp, List.drop_zero] at h1
  cases hr : rd 4 s.data with
  | error x => rw [hr] at h1; exact ⟨s1, d1, by simp only [bnd_error, bind_run, h1]⟩
  | ok p1 =>
    rw [hr] at h1
    obtain ⟨hrun1, hrest1⟩ := h1
    simp only [bnd_ok, bind_run, hrun1]
    by_cases hm : p1.1 = magic
    · simp only [hm, ↓reduceIte, pure_run]
      exact ⟨s1, d1, rfl, hrest1⟩
    · simp only [hm, ↓reduceIte]
      by_cases hi : p1.1.take 3 = id3
      · simp only [hi, ↓reduceIte, bind_run]
        obtain ⟨s2, d2, h2⟩ := Sim.sreadM hq 6 s1
        rw [d1, hrest1] at h2
        cases hr2 : rd 6 p1.2 with
        | error x => rw [hr2] at h2; exact ⟨s2, by rw [d2, d1], by simp only [bnd_error, h2]⟩
        | ok q =>
          rw [hr2] at h2
          simp only [bnd_ok, h2.1, fseek_q hq]
          have e2 : s2.data = s.data := by rw [d2, d1]
          rw [e2]
          obtain ⟨s3, d3, h3⟩ := Sim.sreadM hq 4
            { data := s.data, pos := 14 + bpFromBytes 7 true (q.1.drop 2) - 4, ops := s2.ops + 1, log := .seek (14 + bpFromBytes 7 true (q.1.drop 2) - 4) :: s2.log }
          simp only [] at d3 h3
          cases hr3 : rd 4 (s.data.drop (14 + bpFromBytes 7 true (q.1.drop 2) - 4)) with
          | error x => rw [hr3] at h3; exact ⟨s3, d3, by simp only [bnd_error, h3]⟩
          | ok r =>
            rw [hr3] at h3
            simp only [bnd_ok, h3.1]
            by_cases hm2 : r.1 = magic
            · simp only [hm2, ↓reduceIte, pure_run]; exact ⟨s3, d3, rfl, h3.2⟩
            · simp only [hm2, ↓reduceIte, raise_run]; exact ⟨s3, d3, rfl⟩
      · simp only [hi, ↓reduceIte, raise_run]
        exact ⟨s1, d1, rfl⟩

/-- without faults, from the start of the file, `loadM` computes the pure `load` of the bytes — for every byte string -/
theorem loadM_q {e : Env} (hq : Quiet e) (s : FS) (hp : s.pos = 0) :
    ∃ s', s'.data = s.data ∧ loadM e s = (load s.data, s') := by
  unfold loadM load
  have h1 : (do let _ ← fread 0; Pure.pure () : FileM Unit) e s =
      (.ok (), { data := s.data, pos := s.pos + (readAt s.data s.pos 0).length, ops := s.ops + 1, log := .read 0 :: s.log }) := by
    simp only [bind_run, fread_q hq, pure_run]
  have hr0 : (readAt s.data s.pos 0).length = 0 := by simp [readAt]
  simp only [bind_run, tryCatch_ok _ _ _ e s _ () h1]
  obtain ⟨s1, d1, hc⟩ := checkHeaderM_q hq { data := s.data, pos := s.pos + (readAt s.data s.pos 0).length, ops := s.ops + 1, log := .read 0 :: s.log }
    (by simp only []; rw [hr0, hp])
  simp only [] at d1 hc
  cases hch : checkHeader s.data with
  | error x => rw [hch] at hc; simp only [hc, bnd_error]; exact ⟨s1, d1, rfl⟩
  | ok hd =>
    obtain ⟨n, rest⟩ := hd
    rw [hch] at hc
    simp only [hc.1, bnd_ok, ghostLength, d1]
    obtain ⟨s2, d2, hb⟩ := sim_readBlocksM hq (s.data.length + 1) false false s1
    rw [d1, hc.2] at hb
    cases hrb : readBlocks (s.data.length + 1) false false rest with
    | error x => rw [hrb] at hb; simp only [hb, bnd_error]; exact ⟨s2, by rw [d2, d1], rfl⟩
    | ok br =>
      obtain ⟨bs, rest2⟩ := br
      rw [hrb] at hb
      simp only [hb.1, bnd_ok]
      by_cases hsi : bs.any isStreamInfo = true
      · simp only [hsi, ↓reduceIte]
        by_cases hl : hasLength bs = true
        · simp only [hl, ↓reduceIte, bind_run, ftell_q hq, fseekEnd_q hq, pure_run]
          have hlen2 : s2.data.length - s2.pos = rest2.length := by
            have := hb.2
            rw [← this, List.length_drop, d2, d1]
          rw [hlen2]
          exact ⟨{ data := s2.data, pos := s2.data.length, ops := s2.ops + 1 + 1 + 1, log := .tell :: .seekEnd :: .tell :: s2.log },
            by simp only []; rw [d2, d1], rfl⟩
        · simp only [hl, Bool.false_eq_true, ↓reduceIte, pure_run]
          exact ⟨s2, by rw [d2, d1], rfl⟩
      · simp only [hsi, Bool.false_eq_true, ↓reduceIte, raise_run]
        exact ⟨s2, by rw [d2, d1], rfl⟩


end Mutagen.FlacL
