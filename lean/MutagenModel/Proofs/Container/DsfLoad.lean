/- Proofs/Container/DsfLoad.lean — `DSF(fileobj)` as a file-operation program: what it can raise under arbitrary
faults, that it never writes, and that without faults it is the pure `Dsf.loadX` on every byte string -/
import MutagenModel.Model.Container.DsfLoadM
import MutagenModel.Proofs.Container.DsfCap
set_option linter.unusedVariables false
namespace Mutagen.Dsf
open Mutagen

/-! ### what load can raise -/

/-- the module's error, `verify_fileobj`'s ValueError, an exception the environment injected, or the IOError of
a short `read_full` (converted at the entry point) -/
def LoadErr (e : Env) (x : PyErr) : Prop := x = .mutagen ∨ x = .value ∨ Injected e x ∨ x = .io

theorem loadErr_inj {e : Env} {x : PyErr} (h : Injected e x) : LoadErr e x := Or.inr (Or.inr (Or.inl h))
theorem loadErr_mutagen (e : Env) : LoadErr e .mutagen := Or.inl rfl
theorem loadErr_value (e : Env) : LoadErr e .value := Or.inr (Or.inl rfl)
theorem loadErr_io (e : Env) : LoadErr e .io := Or.inr (Or.inr (Or.inr rfl))

theorem lraises_verifyReadM : Raises LoadErr verifyReadM := by
  unfold verifyReadM
  apply Raises.tryCatch
  · exact Raises.bind ((Raises.fread 0).weaken fun _ _ => loadErr_inj) (fun _ => Raises.pure _ _)
  · intro e x _ _ s err s' h
    simp only [raise_run, Prod.mk.injEq, Except.error.injEq] at h
    exact h.1 ▸ loadErr_value e

theorem lraises_loadDsdM : Raises LoadErr loadDsdM := by
  unfold loadDsdM
  apply Raises.bind (Raises.ftell.weaken fun _ _ => loadErr_inj); intro off
  apply Raises.bind ((Raises.fread _).weaken fun _ _ => loadErr_inj); intro d
  cases hl : loadDsd d with
  | error x => simp only []; exact Raises.raise _ (fun e => loadDsd_err _ _ hl ▸ loadErr_mutagen e)
  | ok hd => exact Raises.pure _ _

theorem lraises_readFull (n : Int) : Raises LoadErr (readFull n) := by
  unfold readFull
  apply Raises.guardThen _ _ _ loadErr_value
  apply Raises.bind ((Raises.fread _).weaken fun _ _ => loadErr_inj); intro d
  apply Raises.guardThen _ _ _ loadErr_io
  exact Raises.pure _ _

theorem lraises_fseekBack4 : Raises LoadErr fseekBack4 := by
  intro e s err s' h
  exact loadErr_inj (Raises.fseek _ e s err s' h)

theorem lraises_fseekEndBack (n : Nat) : Raises LoadErr (fseekEndBack n) :=
  Raises.bind ((Raises.tick _).weaken fun _ _ => loadErr_inj) (fun _ => by intro e s err s' h; cases h)

theorem lraises_findV1M : Raises LoadErr findV1M := by
  unfold findV1M
  apply Raises.bind (Raises.ftell.weaken fun _ _ => loadErr_inj); intro _
  apply Raises.bind (lraises_fseekEndBack _); intro _
  apply Raises.bind ((Raises.fread _).weaken fun _ _ => loadErr_inj); intro _
  exact Raises.bind ((Raises.fseek _).weaken fun _ _ => loadErr_inj) (fun _ => Raises.pure _ _)

theorem lraises_id3HeaderFullM : Raises LoadErr id3HeaderFullM := by
  unfold id3HeaderFullM
  refine (Raises.convertError PyErr.isIO .mutagen (P := LoadErr) ?_).weaken ?_
  · apply Raises.bind ((Raises.fread _).weaken fun _ _ => loadErr_inj); intro d
    repeat' apply Raises.ite
    all_goals first
      | exact Raises.pure _ _
      | exact Raises.raise _ loadErr_mutagen
      | skip
    all_goals
      apply Raises.bind (lraises_readFull _); intro x
      repeat' apply Raises.ite
      all_goals first
        | exact Raises.raise _ loadErr_mutagen
        | exact Raises.bind (lraises_readFull _) (fun _ => Raises.pure _ _)
        | exact Raises.bind lraises_fseekBack4 (fun _ => Raises.bind (lraises_readFull _) (fun _ => Raises.pure _ _))
  · intro e x hx
    rcases hx with rfl | ⟨h, _⟩
    · exact loadErr_mutagen e
    · exact h

theorem lraises_headM : Raises LoadErr headM := by
  unfold headM
  apply Raises.bind lraises_verifyReadM; intro _
  apply Raises.bind lraises_loadDsdM; intro _
  apply Raises.bind (Raises.ftell.weaken fun _ _ => loadErr_inj); intro _
  apply Raises.bind ((Raises.fread _).weaken fun _ _ => loadErr_inj); intro d1
  cases h1 : loadFmt d1 with
  | error x => simp only []; exact Raises.raise _ (fun e => loadFmt_err _ _ h1 ▸ loadErr_mutagen e)
  | ok u =>
    simp only []
    apply Raises.bind (Raises.ftell.weaken fun _ _ => loadErr_inj); intro _
    apply Raises.bind ((Raises.fread _).weaken fun _ _ => loadErr_inj); intro d2
    cases h2 : loadData d2 with
    | error x => simp only []; exact Raises.raise _ (fun e => loadData_err _ _ h2 ▸ loadErr_mutagen e)
    | ok u2 =>
      simp only []
      apply Raises.bind lraises_verifyReadM; intro _
      apply Raises.bind ((Raises.fseek _).weaken fun _ _ => loadErr_inj); intro _
      apply Raises.bind lraises_loadDsdM; intro oh
      apply Raises.ite
      · exact Raises.pure _ _
      apply Raises.bind ((Raises.fseek _).weaken fun _ _ => loadErr_inj); intro _
      apply Raises.bind lraises_id3HeaderFullM; intro r
      match r with
      | .error .unsupported => exact Raises.pure _ _
      | .error .noHeader => exact Raises.pure _ _
      | .error .bad => exact Raises.pure _ _
      | .ok hd =>
        simp only []
        apply Raises.ite
        · exact Raises.raise _ loadErr_mutagen
        · refine Raises.bind ((Raises.convertError PyErr.isIO .mutagen (lraises_readFull _)).weaken ?_) (fun _ => Raises.pure _ _)
          intro e x hx
          rcases hx with rfl | ⟨h, _⟩
          · exact loadErr_mutagen e
          · exact h

theorem lraises_finishM (h : Loaded) : Raises LoadErr (finishM h) := by
  cases h with
  | noTag => exact Raises.pure _ _
  | searchV1 u =>
    unfold finishM
    apply Raises.bind lraises_findV1M; intro v
    cases v with
    | none =>
      simp only []
      apply Raises.ite
      · exact Raises.raise _ loadErr_mutagen
      · exact Raises.pure _ _
    | some n => exact Raises.pure _ _
  | tag b =>
    unfold finishM
    exact Raises.bind lraises_findV1M (fun _ => Raises.pure _ _)

theorem lraises_loadM : Raises LoadErr loadM := Raises.bind lraises_headM lraises_finishM

/-- with I/O faults only, what leaves `DSF(fileobj)` is MutagenError or `verify_fileobj`'s ValueError -/
theorem loadEntry_io_faults (e : Env) (hio : ∀ i x, e.failAt i = some x → x.isIO = true) (s s' : FS) (x : PyErr)
    (h : loadEntry e s = (.error x, s')) : x = .mutagen ∨ x = .value := by
  rcases Raises.convertError PyErr.isIO .mutagen lraises_loadM e s x s' h with h1 | ⟨h2, hn⟩
  · exact Or.inl h1
  · rcases h2 with h2 | h2 | ⟨i, hi⟩ | h2
    · exact Or.inl h2
    · exact Or.inr h2
    · have := hio i x hi; rw [this] at hn; cases hn
    · subst h2; cases hn

/-! ### load never writes -/

/-- the program leaves the bytes of the file as they are, whatever happens -/
def NoWrite (m : FileM α) : Prop := ∀ e s r s', m e s = (r, s') → s'.data = s.data

theorem NoWrite.pure (a : α) : NoWrite (pure a : FileM α) := by
  intro e s r s' h; simp only [pure_run, Prod.mk.injEq] at h; rw [← h.2]

theorem NoWrite.raise (x : PyErr) : NoWrite (raise x : FileM α) := by
  intro e s r s' h; simp only [raise_run, Prod.mk.injEq] at h; rw [← h.2]

theorem NoWrite.bind {m : FileM α} {f : α → FileM β} (hm : NoWrite m) (hf : ∀ a, NoWrite (f a)) : NoWrite (m >>= f) := by
  intro e s r s' h
  simp only [bind_run] at h
  cases hms : m e s with
  | mk r1 s1 =>
    rw [hms] at h
    cases r1 with
    | ok a => rw [hf a e s1 r s' h, hm e s _ s1 hms]
    | error x => simp only [Prod.mk.injEq] at h; rw [← h.2, hm e s _ s1 hms]

theorem NoWrite.ite {c : Prop} [Decidable c] {m n : FileM α} (hm : NoWrite m) (hn : NoWrite n) :
    NoWrite (if c then m else n) := by split <;> assumption

theorem NoWrite.tick (o : Op) : NoWrite (tick o) := by
  intro e s r s' h
  unfold Mutagen.tick at h
  split at h <;> (simp only [Prod.mk.injEq] at h; rw [← h.2])

theorem NoWrite.fseek (p : Nat) : NoWrite (fseek p) :=
  NoWrite.bind (NoWrite.tick _) (fun _ => by intro e s r s' h; simp only [Prod.mk.injEq] at h; rw [← h.2])
theorem NoWrite.ftell : NoWrite ftell :=
  NoWrite.bind (NoWrite.tick _) (fun _ => by intro e s r s' h; simp only [Prod.mk.injEq] at h; rw [← h.2])
theorem NoWrite.fseekEndBack (n : Nat) : NoWrite (fseekEndBack n) :=
  NoWrite.bind (NoWrite.tick _) (fun _ => by intro e s r s' h; simp only [Prod.mk.injEq] at h; rw [← h.2])
theorem NoWrite.fseekBack4 : NoWrite fseekBack4 := fun e s r s' h => NoWrite.fseek _ e s r s' h

theorem NoWrite.fread (n : Nat) : NoWrite (fread n) := by
  intro e s r s' h
  unfold Mutagen.fread at h
  simp only at h
  cases ht : Mutagen.tick (.read n) e s with
  | mk r1 s1 =>
    rw [ht] at h
    have := NoWrite.tick _ e s r1 s1 ht
    cases r1 with
    | ok u => simp only [Prod.mk.injEq] at h; rw [← h.2]; exact this
    | error x => simp only [Prod.mk.injEq] at h; rw [← h.2]; exact this

theorem NoWrite.tryCatch {body : FileM α} {pred : PyErr → Bool} {handler : PyErr → FileM α}
    (hb : NoWrite body) (hh : ∀ x, NoWrite (handler x)) : NoWrite (tryCatch body pred handler) := by
  intro e s r s' h
  unfold Mutagen.tryCatch at h
  cases hbs : body e s with
  | mk r1 s1 =>
    rw [hbs] at h
    have h1 := hb e s r1 s1 hbs
    cases r1 with
    | ok a => simp only [Prod.mk.injEq] at h; rw [← h.2, h1]
    | error x =>
      simp only at h
      split at h
      · rw [hh x e s1 r s' h, h1]
      · simp only [Prod.mk.injEq] at h; rw [← h.2, h1]

theorem NoWrite.convertError (src : PyErr → Bool) (dst : PyErr) {m : FileM α} (hm : NoWrite m) :
    NoWrite (convertError src dst m) := by
  intro e s r s' h
  unfold Mutagen.convertError at h
  cases hms : m e s with
  | mk r1 s1 =>
    rw [hms] at h
    have h1 := hm e s r1 s1 hms
    cases r1 with
    | ok a => simp only [Prod.mk.injEq] at h; rw [← h.2, h1]
    | error x => simp only at h; split at h <;> (simp only [Prod.mk.injEq] at h; rw [← h.2, h1])

theorem NoWrite.readFull (n : Int) : NoWrite (readFull n) := by
  unfold Mutagen.readFull
  apply NoWrite.ite
  · exact NoWrite.bind (NoWrite.raise _) (fun _ => NoWrite.bind (NoWrite.fread _) (fun d => by
      apply NoWrite.ite
      · exact NoWrite.bind (NoWrite.raise _) (fun _ => NoWrite.pure _)
      · exact NoWrite.pure _))
  · exact NoWrite.bind (NoWrite.fread _) (fun d => by
      apply NoWrite.ite
      · exact NoWrite.bind (NoWrite.raise _) (fun _ => NoWrite.pure _)
      · exact NoWrite.pure _)


theorem noWrite_verifyReadM : NoWrite verifyReadM :=
  NoWrite.tryCatch (NoWrite.bind (NoWrite.fread 0) (fun _ => NoWrite.pure _)) (fun _ => NoWrite.raise _)

theorem noWrite_loadDsdM : NoWrite loadDsdM := by
  unfold loadDsdM
  apply NoWrite.bind NoWrite.ftell; intro off
  apply NoWrite.bind (NoWrite.fread _); intro d
  cases loadDsd d with
  | error x => exact NoWrite.raise _
  | ok hd => exact NoWrite.pure _

theorem noWrite_findV1M : NoWrite findV1M := by
  unfold findV1M
  apply NoWrite.bind NoWrite.ftell; intro _
  apply NoWrite.bind (NoWrite.fseekEndBack _); intro _
  apply NoWrite.bind (NoWrite.fread _); intro _
  exact NoWrite.bind (NoWrite.fseek _) (fun _ => NoWrite.pure _)

theorem noWrite_id3HeaderFullM : NoWrite id3HeaderFullM := by
  unfold id3HeaderFullM
  apply NoWrite.convertError
  apply NoWrite.bind (NoWrite.fread _); intro d
  repeat' apply NoWrite.ite
  all_goals first
    | exact NoWrite.pure _
    | exact NoWrite.raise _
    | skip
  all_goals
    apply NoWrite.bind (NoWrite.readFull _); intro x
    repeat' apply NoWrite.ite
    all_goals first
      | exact NoWrite.raise _
      | exact NoWrite.bind (NoWrite.readFull _) (fun _ => NoWrite.pure _)
      | exact NoWrite.bind NoWrite.fseekBack4 (fun _ => NoWrite.bind (NoWrite.readFull _) (fun _ => NoWrite.pure _))

theorem noWrite_headM : NoWrite headM := by
  unfold headM
  apply NoWrite.bind noWrite_verifyReadM; intro _
  apply NoWrite.bind noWrite_loadDsdM; intro _
  apply NoWrite.bind NoWrite.ftell; intro _
  apply NoWrite.bind (NoWrite.fread _); intro d1
  cases loadFmt d1 with
  | error x => exact NoWrite.raise _
  | ok u =>
    simp only []
    apply NoWrite.bind NoWrite.ftell; intro _
    apply NoWrite.bind (NoWrite.fread _); intro d2
    cases loadData d2 with
    | error x => exact NoWrite.raise _
    | ok u2 =>
      simp only []
      apply NoWrite.bind noWrite_verifyReadM; intro _
      apply NoWrite.bind (NoWrite.fseek _); intro _
      apply NoWrite.bind noWrite_loadDsdM; intro oh
      apply NoWrite.ite
      · exact NoWrite.pure _
      apply NoWrite.bind (NoWrite.fseek _); intro _
      apply NoWrite.bind noWrite_id3HeaderFullM; intro r
      match r with
      | .error .unsupported => exact NoWrite.pure _
      | .error .noHeader => exact NoWrite.pure _
      | .error .bad => exact NoWrite.pure _
      | .ok hd =>
        simp only []
        apply NoWrite.ite
        · exact NoWrite.raise _
        · exact NoWrite.bind (NoWrite.convertError _ _ (NoWrite.readFull _)) (fun _ => NoWrite.pure _)

theorem noWrite_finishM (h : Loaded) : NoWrite (finishM h) := by
  cases h with
  | noTag => exact NoWrite.pure _
  | searchV1 u =>
    unfold finishM
    apply NoWrite.bind noWrite_findV1M; intro v
    cases v with
    | none =>
      simp only []
      apply NoWrite.ite
      · exact NoWrite.raise _
      · exact NoWrite.pure _
    | some n => exact NoWrite.pure _
  | tag b =>
    unfold finishM
    exact NoWrite.bind noWrite_findV1M (fun _ => NoWrite.pure _)

theorem noWrite_loadEntry : NoWrite loadEntry :=
  NoWrite.convertError _ _ (NoWrite.bind noWrite_headM noWrite_finishM)


/-! ### without faults: the pure load, on every byte string -/

theorem verifyReadM_q {e : Env} (hq : Quiet e) (s : FS) :
    ∃ s1, verifyReadM e s = (.ok (), s1) ∧ s1.data = s.data ∧ s1.pos = s.pos := by
  unfold verifyReadM
  simp only [tryCatch, bind_run, fread_q hq, pure_run]
  exact ⟨_, rfl, rfl, by simp [readAt]⟩

/-- `read_full(n)` in a quiet environment: the bytes, or IOError when the file ends before -/
theorem readFull_q' {e : Env} (hq : Quiet e) (n : Nat) (s : FS) :
    ∃ s1, readFull (n : Int) e s =
        ((if (readAt s.data s.pos n).length ≠ n then .error .io else .ok (readAt s.data s.pos n)), s1) ∧
      s1.data = s.data ∧ s1.pos = s.pos + (readAt s.data s.pos n).length := by
  unfold readFull
  have h0 : ¬ ((n : Int) < 0) := by omega
  simp only [h0, ↓reduceIte, bind_run, fread_q hq, Int.toNat_natCast]
  by_cases hl : (readAt s.data s.pos n).length ≠ n
  · simp only [hl, ↓reduceIte, ne_eq, not_false_eq_true]; exact ⟨_, rfl, rfl, rfl⟩
  · simp only [hl, ↓reduceIte, pure_run]; exact ⟨_, rfl, rfl, rfl⟩

theorem loadDsdM_any {e : Env} (hq : Quiet e) (s : FS) :
    ∃ s1, loadDsdM e s = ((match loadDsd (readAt s.data s.pos dsdSize) with
        | .error x => .error x | .ok h => .ok (s.pos, h)), s1) ∧
      s1.data = s.data ∧ s1.pos = s.pos + (readAt s.data s.pos dsdSize).length := by
  unfold loadDsdM
  simp only [bind_run, ftell_q hq, fread_q hq]
  cases loadDsd (readAt s.data s.pos dsdSize) with
  | error x => exact ⟨_, rfl, rfl, rfl⟩
  | ok h => exact ⟨_, rfl, rfl, rfl⟩

theorem loadDsd_read (f : Bytes) : loadDsd (readAt f 0 dsdSize) = loadDsd f := by
  unfold loadDsd readAt
  simp only [List.drop_zero, List.take_take, Nat.min_self]

theorem loadDsd_ok_len (f : Bytes) (h : Dsd) (hl : loadDsd f = .ok h) : (readAt f 0 dsdSize).length = 28 := by
  unfold loadDsd at hl
  simp only [] at hl
  split at hl
  · cases hl
  · rename_i c; simpa [readAt, dsdSize] using c

theorem loadFmt_ok_len (d : Bytes) (u : Unit) (hl : loadFmt d = .ok u) : d.length = 52 := by
  unfold loadFmt at hl
  split at hl
  · cases hl
  · rename_i c; simpa [fmtSize] using c

theorem loadData_ok_len (d : Bytes) (u : Unit) (hl : loadData d = .ok u) : d.length = 12 := by
  unfold loadData at hl
  split at hl
  · cases hl
  · rename_i c; simpa [dataHdr] using c

theorem v1Of_eq (f : Bytes) : v1Of (f.drop (f.length - 131)) = Id3F.findV1 f := by
  have h : (f.drop (f.length - 131)).drop ((f.drop (f.length - 131)).length - 131) = f.drop (f.length - 131) := by
    have : (f.drop (f.length - 131)).length - 131 = 0 := by simp; omega
    rw [this, List.drop_zero]
  unfold v1Of Id3F.findV1
  simp only [h]

/-- `find_id3v1` in a quiet environment: what `Id3F.findV1` says about the file; position restored -/
theorem findV1M_q {e : Env} (hq : Quiet e) (s : FS) :
    ∃ s1, findV1M e s = (.ok (Id3F.findV1 s.data), s1) ∧ s1.data = s.data ∧ s1.pos = s.pos := by
  unfold findV1M fseekEndBack
  simp only [bind_run, ftell_q hq, tick_q hq, fread_q hq, fseek_q hq, pure_run]
  have : readAt s.data (s.data.length - 131) 131 = s.data.drop (s.data.length - 131) := by
    unfold readAt
    exact List.take_of_length_le (by simp; omega)
  rw [this, v1Of_eq]
  exact ⟨_, rfl, rfl, rfl⟩


/-- what `ID3.load` skips behind the 10 header bytes -/
def skipOf (hd : Hdr) : Nat := match hd.ext with | some n => 4 + n | none => 0

/-- `ID3Header` run on the file in a quiet environment is `id3Header` on what follows the position -/
theorem id3HeaderFullM_q {e : Env} (hq : Quiet e) (s : FS) :
    ∃ s1, id3HeaderFullM e s = ((match id3Header (s.data.drop s.pos) with
        | .error .bad => .error .mutagen
        | .error x => .ok (.error x)
        | .ok hd => .ok (.ok hd)), s1) ∧ s1.data = s.data ∧
      (∀ hd, id3Header (s.data.drop s.pos) = .ok hd → s1.pos = s.pos + 10 + skipOf hd) := by
  unfold id3HeaderFullM convertError id3Header
  simp only [bind_run, fread_q hq]
  have hd0 : (s.data.drop s.pos).take 10 = readAt s.data s.pos 10 := rfl
  rw [hd0]
  generalize hdd : readAt s.data s.pos 10 = d
  by_cases c0 : d.length ≠ 10
  · rw [if_pos c0, if_pos c0]; exact ⟨_, rfl, rfl, fun hd h => by cases h⟩
  rw [if_neg c0, if_neg c0]
  have c0' : d.length = 10 := by simpa using c0
  by_cases c1 : d.take 3 ≠ Id3F.magicID3
  · rw [if_pos c1, if_pos c1]; exact ⟨_, rfl, rfl, fun hd h => by cases h⟩
  rw [if_neg c1, if_neg c1]
  by_cases c2 : (d.getD 3 0).toNat ≠ 2 ∧ (d.getD 3 0).toNat ≠ 3 ∧ (d.getD 3 0).toNat ≠ 4
  · rw [if_pos c2, if_pos c2]; exact ⟨_, rfl, rfl, fun hd h => by cases h⟩
  rw [if_neg c2, if_neg c2]
  by_cases c3 : (!(d.drop 6).all fun x => decide (x.toNat < 128)) = true
  · rw [if_pos c3, if_pos c3]; exact ⟨_, rfl, rfl, fun hd h => by cases h⟩
  rw [if_neg c3, if_neg c3]
  by_cases c4 : (d.getD 3 0).toNat = 4 ∧ (d.getD 5 0).toNat % 16 ≠ 0
  · rw [if_pos c4, if_pos c4]; exact ⟨_, rfl, rfl, fun hd h => by cases h⟩
  rw [if_neg c4, if_neg c4]
  by_cases c5 : (d.getD 3 0).toNat = 3 ∧ (d.getD 5 0).toNat % 32 ≠ 0
  · rw [if_pos c5, if_pos c5]; exact ⟨_, rfl, rfl, fun hd h => by cases h⟩
  rw [if_neg c5, if_neg c5]
  by_cases c6 : (d.getD 5 0).toNat / 64 % 2 = 1
  · rw [if_pos c6, if_pos c6]
    -- the extended header
    simp only [bind_run]
    obtain ⟨s2, r2, d2, p2⟩ := readFull_q' hq 4
      { data := s.data, pos := s.pos + d.length, ops := s.ops + 1, log := Op.read 10 :: s.log }
    have hx : readAt s.data (s.pos + d.length) 4 = ((s.data.drop s.pos).drop 10).take 4 := by
      unfold readAt; rw [c0', List.drop_drop]
    simp only [hx] at r2 p2
    rw [show ((4 : Nat) : Int) = 4 from rfl] at r2
    rw [r2]
    unfold Id3F.extHeader
    simp only []
    generalize ((s.data.drop s.pos).drop 10).take 4 = x at r2 p2 ⊢
    by_cases cx : x.length ≠ 4
    · rw [if_pos cx, if_pos cx]; exact ⟨_, rfl, d2, fun hd h => by cases h⟩
    rw [if_neg cx, if_neg cx]
    have cx' : x.length = 4 := by simpa using cx
    simp only []
    by_cases cf : Generated.frameIds.contains x = true
    · rw [if_pos cf, if_pos cf]
      simp only [bind_run, fseekBack4, fseek_q hq, cf, ↓reduceIte]
      obtain ⟨s3, r3, d3, p3⟩ := readFull_q' hq 0
        { data := s2.data, pos := s2.pos - 4, ops := s2.ops + 1, log := Op.seek (s2.pos - 4) :: s2.log }
      have : (readAt s2.data (s2.pos - 4) 0).length = 0 := by simp [readAt]
      simp only [this, ne_eq, not_true_eq_false, ↓reduceIte] at r3 p3
      rw [show ((0 : Nat) : Int) = 0 from rfl] at r3
      rw [r3]
      refine ⟨_, rfl, by rw [d3]; exact d2, fun hd h => ?_⟩
      cases h
      show s3.pos = _
      rw [p3]; show s2.pos - 4 + 0 = _
      rw [p2, cx', c0']; simp [skipOf]
    rw [if_neg cf, if_neg cf]
    by_cases cv : (d.getD 3 0).toNat = 4
    · rw [if_pos cv, if_pos cv]
      by_cases ca : (!x.all fun b => decide (b.toNat < 128)) = true
      · rw [if_pos ca, if_pos ca]; exact ⟨_, rfl, d2, fun hd h => by cases h⟩
      rw [if_neg ca, if_neg ca]
      by_cases cb : bpFromBytes 7 true x < 4
      · rw [if_pos cb, if_pos cb]; exact ⟨_, rfl, d2, fun hd h => by cases h⟩
      rw [if_neg cb, if_neg cb]
      simp only [bind_run]
      obtain ⟨s3, r3, d3, p3⟩ := readFull_q' hq (bpFromBytes 7 true x - 4) s2
      rw [r3]
      have hpos2 : s2.pos = s.pos + 14 := by rw [p2, cx', c0']
      have hlen : (readAt s2.data s2.pos (bpFromBytes 7 true x - 4)).length ≠ bpFromBytes 7 true x - 4 ↔
          ((s.data.drop s.pos).drop 14).length < bpFromBytes 7 true x - 4 := by
        rw [d2, hpos2]; unfold readAt
        rw [List.drop_drop]
        simp only [List.length_take, List.length_drop]; omega
      by_cases cl : ((s.data.drop s.pos).drop 14).length < bpFromBytes 7 true x - 4
      · rw [if_pos (hlen.mpr cl), if_pos cl]; exact ⟨_, rfl, by rw [d3]; exact d2, fun hd h => by cases h⟩
      · rw [if_neg (fun h => cl (hlen.mp h)), if_neg cl]
        simp only [cf, cv, ↓reduceIte]
        refine ⟨_, rfl, by rw [d3]; exact d2, fun hd h => ?_⟩
        cases h
        show s3.pos = _
        have : (readAt s2.data s2.pos (bpFromBytes 7 true x - 4)).length = bpFromBytes 7 true x - 4 := by
          exact Decidable.of_not_not (fun h => cl (hlen.mp h))
        rw [p3, this, hpos2]; simp [skipOf]; omega
    · rw [if_neg cv, if_neg cv]
      simp only [bind_run]
      obtain ⟨s3, r3, d3, p3⟩ := readFull_q' hq (bpFromBytes 8 true x) s2
      rw [r3]
      have hpos2 : s2.pos = s.pos + 14 := by rw [p2, cx', c0']
      have hlen : (readAt s2.data s2.pos (bpFromBytes 8 true x)).length ≠ bpFromBytes 8 true x ↔
          ((s.data.drop s.pos).drop 14).length < bpFromBytes 8 true x := by
        rw [d2, hpos2]; unfold readAt
        rw [List.drop_drop]
        simp only [List.length_take, List.length_drop]; omega
      by_cases cl : ((s.data.drop s.pos).drop 14).length < bpFromBytes 8 true x
      · rw [if_pos (hlen.mpr cl), if_pos cl]; exact ⟨_, rfl, by rw [d3]; exact d2, fun hd h => by cases h⟩
      · rw [if_neg (fun h => cl (hlen.mp h)), if_neg cl]
        simp only [cf, cv, ↓reduceIte]
        refine ⟨_, rfl, by rw [d3]; exact d2, fun hd h => ?_⟩
        cases h
        show s3.pos = _
        have : (readAt s2.data s2.pos (bpFromBytes 8 true x)).length = bpFromBytes 8 true x := by
          exact Decidable.of_not_not (fun h => cl (hlen.mp h))
        rw [p3, this, hpos2]; simp [skipOf]; omega
  · rw [if_neg c6, if_neg c6]
    refine ⟨_, rfl, rfl, fun hd h => ?_⟩
    cases h
    show s.pos + d.length = _
    rw [c0']; simp [skipOf]


/-- the first part of `DSF(fileobj)` without faults, on EVERY byte string: the pure `Dsf.load`, file unchanged -/
theorem headM_q {e : Env} (hq : Quiet e) (s : FS) (h0 : s.pos = 0) :
    ∃ s1, headM e s = (load s.data, s1) ∧ s1.data = s.data := by
  unfold headM load
  simp only [bind_run]
  obtain ⟨s1, r1, d1, p1⟩ := verifyReadM_q hq s
  rw [r1]; simp only []
  obtain ⟨s2, r2, d2, p2⟩ := loadDsdM_any hq s1
  rw [p1, h0] at p2
  rw [r2, p1, h0, d1, loadDsd_read]
  cases hl : loadDsd s.data with
  | error x => exact ⟨_, rfl, by rw [d2, d1]⟩
  | ok h =>
    simp only []
    have l28 := loadDsd_ok_len _ _ hl
    rw [d1, l28] at p2
    simp only [ftell_q hq, fread_q hq, p2, d2, d1]
    rw [show (0 + 28 : Nat) = dsdSize from rfl]
    cases h1 : loadFmt (readAt s.data dsdSize fmtSize) with
    | error x => exact ⟨_, rfl, rfl⟩
    | ok u =>
      simp only [bind_run, ftell_q hq, fread_q hq, loadFmt_ok_len _ _ h1]
      rw [show (dsdSize + 52 : Nat) = dsdSize + fmtSize from rfl]
      cases h2 : loadData (readAt s.data (dsdSize + fmtSize) dataHdr) with
      | error x => exact ⟨_, rfl, rfl⟩
      | ok u2 =>
        simp only [bind_run]
        obtain ⟨s3, r3, d3, p3⟩ := verifyReadM_q hq
          { data := s.data, pos := dsdSize + fmtSize + (readAt s.data (dsdSize + fmtSize) dataHdr).length,
            ops := s2.ops + 1 + 1 + 1 + 1, log := Op.read dataHdr :: Op.tell :: Op.read fmtSize :: Op.tell :: s2.log }
        rw [r3]; simp only [fseek_q hq]
        obtain ⟨s4, r4, d4, p4⟩ := loadDsdM_any hq { data := s3.data, pos := 0, ops := s3.ops + 1, log := Op.seek 0 :: s3.log }
        have d3' : s3.data = s.data := d3
        have e4 : loadDsd (readAt s3.data 0 dsdSize) = .ok h := by rw [d3', loadDsd_read, hl]
        dsimp only at r4
        rw [e4] at r4
        rw [r4]; simp only []
        have d4' : s4.data = s.data := by rw [d4]; exact d3'
        by_cases hp : h.pointer = 0
        · rw [if_pos hp, if_pos hp]; exact ⟨_, rfl, d4'⟩
        rw [if_neg hp, if_neg hp]
        simp only [bind_run, fseek_q hq]
        obtain ⟨s5, r5, d5, p5⟩ := id3HeaderFullM_q hq
          { data := s4.data, pos := h.pointer, ops := s4.ops + 1, log := Op.seek h.pointer :: s4.log }
        dsimp only at r5 p5 d5
        have hdrop : s4.data.drop h.pointer = s.data.drop h.pointer := by rw [d4']
        rw [hdrop] at r5 p5
        have d5' : s5.data = s.data := by rw [d5]; exact d4'
        rw [r5]
        cases hh : id3Header (s.data.drop h.pointer) with
        | error x =>
          cases x with
          | noHeader => exact ⟨_, rfl, d5'⟩
          | unsupported => exact ⟨_, rfl, d5'⟩
          | bad => exact ⟨_, rfl, d5'⟩
        | ok hd =>
          have p5' := p5 hd hh
          obtain ⟨sz, ext⟩ := hd
          cases ext
          all_goals
            simp only [skipOf] at p5'
            simp only []
            split
            · exact ⟨_, rfl, d5'⟩
            · simp only [bind_run, convertError]
              obtain ⟨s6, r6, d6, p6⟩ := readFull_q' hq _ s5
              rw [d5', p5'] at r6
              split at r6
              · rename_i hl6
                rw [r6, if_pos hl6]; exact ⟨_, rfl, by rw [d6, d5']⟩
              · rename_i hl6
                rw [r6, if_neg hl6]; exact ⟨_, rfl, by rw [d6, d5']⟩

/-- `DSF(fileobj)` without faults, on every byte string: the pure `Dsf.loadX`, file unchanged -/
theorem loadM_q {e : Env} (hq : Quiet e) (s : FS) (h0 : s.pos = 0) :
    ∃ s1, loadM e s = (loadX s.data, s1) ∧ s1.data = s.data := by
  unfold loadM loadX
  simp only [bind_run]
  obtain ⟨s1, r1, d1⟩ := headM_q hq s h0
  rw [r1]
  cases hl : load s.data with
  | error x => exact ⟨_, rfl, d1⟩
  | ok L =>
    cases L with
    | noTag => exact ⟨_, rfl, d1⟩
    | searchV1 u =>
      obtain ⟨s2, r2, d2, _⟩ := findV1M_q hq s1
      simp only [finishM, bind_run, r2, d1]
      cases Id3F.findV1 s.data with
      | none =>
        simp only []
        cases u with
        | true => exact ⟨_, rfl, by rw [d2, d1]⟩
        | false => exact ⟨_, rfl, by rw [d2, d1]⟩
      | some n => exact ⟨_, rfl, by rw [d2, d1]⟩
    | tag b =>
      obtain ⟨s2, r2, d2, _⟩ := findV1M_q hq s1
      simp only [finishM, bind_run, r2, d1]
      exact ⟨_, rfl, by rw [d2, d1]⟩


/-! ### a short read taken for "no header" -/

/-- the `read(10)` of `ID3Header`: when this call is not failed but cut to fewer than 10 bytes, `ID3Header` raises
ID3NoHeaderError — whatever the file holds there ("too small"), and nothing else is read -/
theorem id3HeaderFullM_short (e : Env) (s : FS) (k : Nat) (hf : e.failAt s.ops = none) (hs : e.shortAt s.ops = some k)
    (hk : k < 10) : ∃ s1, id3HeaderFullM e s = (.ok (.error .noHeader), s1) ∧ s1.ops = s.ops + 1 := by
  unfold id3HeaderFullM convertError
  simp only [bind_run, fread, tick, hf, hs]
  have hl : (readAt s.data s.pos (min k 10)).length ≠ 10 := by
    unfold readAt; simp only [List.length_take]; omega
  rw [if_pos hl]
  exact ⟨_, rfl, rfl⟩

end Mutagen.Dsf
