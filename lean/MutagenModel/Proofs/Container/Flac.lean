/- Proofs/Container/Flac.lean — lemmas about the FLAC container model -/
import MutagenModel.Model.Container.Flac
import MutagenModel.Proofs.FileOps
import MutagenModel.Proofs.IntCodec
import MutagenModel.Proofs.Padding
set_option linter.unusedVariables false
namespace Mutagen.FlacC
open Mutagen

theorem parse_renderBlock (last : Bool) (b : Block) (hb : b.ok) (tail : Bytes) :
    ∃ h s2 s1 s0, renderBlock b last ++ tail = h :: s2 :: s1 :: s0 :: (b.data ++ tail) ∧
      ofBE [s2, s1, s0] = b.data.length ∧ h.toNat % 128 = b.code ∧ (h.toNat ≥ 128 ↔ last = true) := by
  obtain ⟨ht, hl⟩ := hb
  have h3 : (toBE 3 b.data.length).length = 3 := length_toBE _ _
  match hq : toBE 3 b.data.length, h3 with
  | [s2, s1, s0], _ =>
    refine ⟨UInt8.ofNat (b.code + (if last then 128 else 0)), s2, s1, s0, ?_, ?_, ?_, ?_⟩
    · simp [renderBlock, blockHeader, hq]
    · rw [← hq]; exact ofBE_toBE 3 _ (by simpa using hl)
    · cases last <;> simp [UInt8.toNat_ofNat'] <;> omega
    · cases last <;> simp [UInt8.toNat_ofNat'] <;> omega

/-- the strict walker reads back exactly the rendered blocks and stops at the audio -/
theorem walkBlocks_render (bs : List Block) (hne : bs ≠ []) (hok : ∀ b ∈ bs, b.ok) (audio : Bytes)
    (fuel : Nat) (hf : bs.length ≤ fuel) :
    walkBlocks fuel (renderBlocks bs ++ audio) = some (bs, audio) := by
  induction bs generalizing fuel with
  | nil => exact absurd rfl hne
  | cons b r ih =>
    cases fuel with
    | zero => simp at hf
    | succ fuel =>
      cases r with
      | nil =>
        obtain ⟨h, s2, s1, s0, e, hs, ht, hl⟩ := parse_renderBlock true b (hok b (by simp)) audio
        simp only [renderBlocks]
        rw [e]
        simp only [walkBlocks, hs]
        have : ¬ (b.data ++ audio).length < b.data.length := by simp
        simp [ht, hl.mpr rfl]
      | cons c r' =>
        obtain ⟨h, s2, s1, s0, e, hs, ht, hl⟩ :=
          parse_renderBlock false b (hok b (by simp)) (renderBlocks (c :: r') ++ audio)
        have ih' := ih (by simp) (fun x hx => hok x (by simp [hx])) fuel (by simp at hf ⊢; omega)
        simp only [renderBlocks, List.append_assoc] at *
        rw [e]
        simp only [walkBlocks, hs]
        have hnl : ¬ (h.toNat ≥ 128) := fun hh => by simpa using hl.mp hh
        have : ¬ (b.data ++ (renderBlocks (c :: r') ++ audio)).length < b.data.length := by simp
        simp [ht, hnl, ih']

theorem length_renderBlock (b : Block) (last : Bool) : (renderBlock b last).length = 4 + b.data.length := by
  simp [renderBlock, blockHeader]; omega

theorem length_renderBlocks (bs : List Block) :
    (renderBlocks bs).length = (bs.map fun b => 4 + b.data.length).sum := by
  induction bs with
  | nil => rfl
  | cons b r ih =>
    cases r with
    | nil => simp [renderBlocks, length_renderBlock]
    | cons c r' =>
      simp only [renderBlocks, List.length_append, length_renderBlock, List.map_cons, List.sum_cons] at *
      rw [ih]

theorem le_length_renderBlocks (bs : List Block) : bs.length ≤ (renderBlocks bs).length := by
  rw [length_renderBlocks]
  induction bs with
  | nil => simp
  | cons b r ih => simp only [List.length_cons, List.map_cons, List.sum_cons]; omega

/-- `walk ∘ render = id` on well-formed layouts without an ID3 prefix -/
theorem walk_render (L : Layout) (hpre : L.pre = []) (hne : L.blocks ≠ []) (hok : ∀ b ∈ L.blocks, b.ok) :
    walk (render L) = some L := by
  have hid : id3PrefixLen (render L) = 0 := by
    simp [id3PrefixLen, render, hpre, magic]
  unfold walk
  simp only [hid, Nat.zero_add, List.drop_zero]
  have h4 : (render L).take 4 = magic := by simp [render, hpre, magic]
  have hd4 : (render L).drop 4 = renderBlocks L.blocks ++ L.audio := by simp [render, hpre, magic]
  simp only [h4, ne_eq, not_true_eq_false, ↓reduceIte, hd4]
  rw [walkBlocks_render L.blocks hne hok L.audio _ (by
    have := le_length_renderBlocks L.blocks
    simp only [render, List.length_append]; omega)]
  simp only [List.take_zero]
  cases L; simp_all

/-! ### writing -/

def concatPlain (bs : List Block) : Bytes := (bs.map fun b => renderBlock b false).flatten

theorem writeAll_ok (bs : List Block) (h : ∀ b ∈ bs, b.data.length ≤ maxSize) :
    writeAll bs = .ok (concatPlain bs) := by
  induction bs with
  | nil => rfl
  | cons b r ih =>
    have hb : ¬ b.data.length > maxSize := by have := h b (by simp); omega
    simp [writeAll, writeBlock, hb, ih (fun x hx => h x (by simp [hx])), concatPlain]

theorem renderBlocks_snoc (bs : List Block) (p : Block) :
    renderBlocks (bs ++ [p]) = concatPlain bs ++ renderBlock p true := by
  induction bs with
  | nil => simp [renderBlocks, concatPlain]
  | cons b r ih =>
    cases r with
    | nil => simp [renderBlocks, concatPlain]
    | cons c r' =>
      simp only [List.cons_append, renderBlocks] at ih ⊢
      rw [ih]; simp [concatPlain]

/-- `_writeblocks` renders exactly the new block list (when no block is too long) -/
theorem writeBlocks_ok (blocks : List Block) (available contSize : Nat) (pad : PadChoice)
    (h : ∀ b ∈ blocks, b.data.length ≤ maxSize) :
    writeBlocks blocks available contSize pad = .ok (renderBlocks (newBlocks blocks available contSize pad)) := by
  unfold writeBlocks newBlocks
  simp only [List.dropLast_concat, List.getLast?_append, List.getLast?_singleton, Option.some_or]
  rw [writeAll_ok _ (fun b hb => h b (List.mem_filter.mp hb).1)]
  generalize (getPadding pad _ contSize) = want
  have hz : ¬ (zeros (min want.toNat maxSize)).length > maxSize := by
    simp only [length_zeros]; omega
  simp only [writeBlock, hz, ↓reduceIte, renderBlocks_snoc]

end Mutagen.FlacC

namespace Mutagen.FlacC

theorem render_msave (L : Layout) (blocks : List Block) (pad : PadChoice) :
    render (msave L blocks false pad) =
      L.pre ++ magic ++ renderBlocks (newBlocks blocks (renderBlocks L.blocks).length L.audio.length pad) ++ L.audio := by
  simp [render, msave]

/-- FLAC._save on the file bytes of a layout yields the bytes of the saved layout -/
theorem saveM_clean (B : Nat) (hB : 0 < B) (L : Layout) (blocks : List Block) (pad : PadChoice)
    (hsz : ∀ b ∈ blocks, b.data.length ≤ maxSize) (s : FS) (hs : s.data = render L) :
    ∃ s', saveM B L blocks pad Env.clean s = (.ok (), s') ∧ s'.data = render (msave L blocks false pad) := by
  unfold saveM
  simp only [writeBlocks_ok blocks _ _ pad hsz]
  generalize hdata : renderBlocks (newBlocks blocks (renderBlocks L.blocks).length L.audio.length pad) = data
  have hlen : L.pre.length + 4 + (renderBlocks L.blocks).length ≤ s.data.length := by
    rw [hs]; simp [render, magic]; omega
  obtain ⟨s1, gap, hr, hg, hd⟩ := resizeBytes_clean B hB (renderBlocks L.blocks).length data.length
    (L.pre.length + 4) s hlen
  simp only [bind_run, hr, fseek_clean, fwrite_clean]
  refine ⟨_, rfl, ?_⟩
  rw [render_msave, hdata]
  -- shape of the file after the resize: pre ++ magic ++ M ++ audio with |M| = |data|
  have htake : s.data.take (L.pre.length + 4) = L.pre ++ magic := by
    rw [hs]; simp only [render, List.append_assoc]
    rw [← List.append_assoc L.pre magic, List.take_left' (by simp [magic])]
  have hdrop : s.data.drop (L.pre.length + 4 + (renderBlocks L.blocks).length) = L.audio := by
    rw [hs]; simp only [render]
    rw [List.drop_left' (by simp [magic]; omega)]
  rw [htake, hdrop] at hd
  generalize hM : (s.data.drop (L.pre.length + 4)).take (min (renderBlocks L.blocks).length data.length) ++ gap = M at hd
  have hMl : M.length = data.length := by
    rw [← hM]
    have : (s.data.drop (L.pre.length + 4)).length = (renderBlocks L.blocks).length + L.audio.length := by
      rw [hs]; simp [render, magic]
    simp only [List.length_append, List.length_take, this, hg]; omega
  have hd' : s1.data = L.pre ++ magic ++ M ++ L.audio := by
    rw [hd, ← hM]; simp only [List.append_assoc]
  show writeData (writeData s1.data (L.pre.length + 4 - 4) magic) (L.pre.length + 4 - 4 + magic.length) data = _
  have e1 : L.pre.length + 4 - 4 = L.pre.length := by omega
  have e2 : L.pre.length + magic.length = (L.pre ++ magic).length := by simp
  rw [e1, hd']
  have hin1 : L.pre.length ≤ (L.pre ++ magic ++ M ++ L.audio).length := by
    simp only [List.length_append]; omega
  rw [writeData_inside _ _ _ hin1]
  have w1 : writeAt (L.pre ++ magic ++ M ++ L.audio) L.pre.length magic = L.pre ++ magic ++ M ++ L.audio := by
    have := writeAt_mid L.pre magic (M ++ L.audio) magic rfl
    simp only [List.append_assoc] at this ⊢
    exact this
  rw [w1, e2]
  have hin : (L.pre ++ magic).length ≤ (L.pre ++ magic ++ M ++ L.audio).length := by
    simp only [List.length_append]; omega
  rw [writeData_inside _ _ _ hin]
  exact writeAt_mid (L.pre ++ magic) M L.audio data hMl

theorem filter_pad_newBlocks (kept : List Block) (p : Block) (hk : ∀ b ∈ kept, b.code ≠ padCode)
    (hp : p.code = padCode) :
    (kept ++ [p]).filter (·.code != padCode) = kept := by
  rw [List.filter_append]
  have h1 : kept.filter (·.code != padCode) = kept := by
    apply List.filter_eq_self.mpr
    intro b hb; simpa using hk b hb
  simp [h1, hp]

end Mutagen.FlacC

namespace Mutagen.FlacC

/-- a layout the strict walker accepts and mutagen can re-save -/
structure Good (L : Layout) : Prop where
  pre : L.pre = []
  ne : L.blocks ≠ []
  ok : ∀ b ∈ L.blocks, b.code < 127 ∧ b.data.length ≤ maxSize

theorem Good.blocksOk {L : Layout} (h : Good L) : ∀ b ∈ L.blocks, b.ok := by
  intro b hb
  have := h.ok b hb
  exact ⟨this.1, by have : maxSize = 2 ^ 24 - 1 := by decide
                    omega⟩

def keep (b : Block) : Bool := b.code != vcCode && b.code != padCode

theorem newBlocks_ne (blocks : List Block) (a c : Nat) (pad : PadChoice) : newBlocks blocks a c pad ≠ [] := by
  simp [newBlocks]

theorem newBlocks_ok (blocks : List Block) (a c : Nat) (pad : PadChoice)
    (h : ∀ b ∈ blocks, b.code < 127 ∧ b.data.length ≤ maxSize) :
    ∀ b ∈ newBlocks blocks a c pad, b.code < 127 ∧ b.data.length ≤ maxSize := by
  intro b hb
  simp only [newBlocks, List.mem_append, List.mem_filter, List.mem_singleton] at hb
  rcases hb with hb | hb
  · exact h b hb.1
  · subst hb
    refine ⟨by show padCode < 127; decide, ?_⟩
    simp only [length_zeros]; omega

theorem msave_good (L : Layout) (hL : Good L) (blocks : List Block) (pad : PadChoice)
    (h : ∀ b ∈ blocks, b.code < 127 ∧ b.data.length ≤ maxSize) : Good (msave L blocks false pad) :=
  ⟨by simp [msave, hL.pre], by simp [msave, newBlocks_ne], by simpa [msave] using newBlocks_ok blocks _ _ pad h⟩

theorem foreign_msave (L : Layout) (blocks : List Block) (pad : PadChoice)
    (hk : blocks.filter keep = L.blocks.filter keep) :
    foreign (msave L blocks false pad) = foreign L := by
  simp only [foreign, msave, newBlocks, Bool.false_eq_true, ↓reduceIte, Prod.mk.injEq, true_and, and_true]
  rw [List.filter_append]
  generalize (getPadding pad _ _) = want
  have hz : List.filter (fun b => b.code != vcCode && b.code != padCode)
      [({ code := padCode, data := zeros (min want.toNat maxSize) } : Block)] = [] := by
    simp [padCode]
  rw [hz, List.append_nil, List.filter_filter]
  have e : (fun a : Block => (a.code != vcCode && a.code != padCode) && (a.code != padCode)) = keep := by
    funext a; simp only [keep]; cases (a.code != padCode) <;> simp
  rw [e]; exact hk

/-- C02/C03 for FLAC at the level of bytes: saving writes a file the independent walker
accepts, whose foreign parts (everything but Vorbis comment and padding blocks) are the old ones -/
theorem save_walk_foreign (B : Nat) (hB : 0 < B) (L : Layout) (hL : Good L) (blocks : List Block) (pad : PadChoice)
    (h : ∀ b ∈ blocks, b.code < 127 ∧ b.data.length ≤ maxSize)
    (hk : blocks.filter keep = L.blocks.filter keep) (s : FS) (hs : s.data = render L) :
    ∃ s' L', saveM B L blocks pad Env.clean s = (.ok (), s') ∧ walk s'.data = some L' ∧
      foreign L' = foreign L ∧ Good L' := by
  obtain ⟨s', hr, hd⟩ := saveM_clean B hB L blocks pad (fun b hb => (h b hb).2) s hs
  have hg := msave_good L hL blocks pad h
  refine ⟨s', msave L blocks false pad, hr, ?_, foreign_msave L blocks pad hk, hg⟩
  rw [hd]
  exact walk_render _ hg.pre hg.ne hg.blocksOk

theorem sum_append_singleton (l : List Nat) (x : Nat) : (l ++ [x]).sum = l.sum + x := by
  simp [List.sum_append]

/-- C09 for FLAC: the padding in the saved file is the callback's answer (capped by the block
size limit, a negative answer counting as 0), where the callback is handed
`available − needed` and the size of the audio that follows -/
theorem padding_obeyed (L : Layout) (blocks : List Block) (pad : PadChoice) :
    let kept := blocks.filter (·.code != padCode)
    let needed : Nat := (kept.map fun b => 4 + b.data.length).sum + 4
    let info_padding : Int := ((renderBlocks L.blocks).length : Int) - needed
    paddingOf (msave L blocks false pad) = min (getPadding pad info_padding L.audio.length).toNat maxSize := by
  simp only [paddingOf, msave, newBlocks, Bool.false_eq_true, ↓reduceIte, Nat.add_zero]
  rw [List.filter_append]
  have h1 : (blocks.filter (·.code != padCode)).filter (·.code == padCode) = [] := by
    rw [List.filter_filter]
    apply List.filter_eq_nil_iff.mpr
    intro b _; cases hc : (b.code == padCode) <;> simp_all
  rw [h1]
  simp [padCode]

theorem length_render (L : Layout) :
    (render L).length = L.pre.length + 4 + (renderBlocks L.blocks).length + L.audio.length := by
  simp [render, magic]; omega

/-- C09: answering with the offered padding (when it is non-negative and within the block
limit) leaves the file length — hence the position of every audio byte — unchanged -/
theorem keep_is_inplace (L : Layout) (blocks : List Block) (f : Int → Nat → Int)
    (hf : ∀ p n, f p n = p)
    (hfit : (((blocks.filter (·.code != padCode)).map fun b => 4 + b.data.length).sum + 4 : Nat) ≤ (renderBlocks L.blocks).length)
    (hmax : (renderBlocks L.blocks).length - (((blocks.filter (·.code != padCode)).map fun b => 4 + b.data.length).sum + 4) ≤ maxSize) :
    (render (msave L blocks false (.callback f))).length = (render L).length := by
  rw [length_render, length_render]
  simp only [msave, Bool.false_eq_true, ↓reduceIte, Nat.add_zero]
  rw [length_renderBlocks (newBlocks _ _ _ _)]
  simp only [newBlocks, getPadding, hf, List.map_append, List.map_cons, List.map_nil, length_zeros,
    sum_append_singleton]
  omega

end Mutagen.FlacC

namespace Mutagen.FlacC
open Generated in
/-- C07 for FLAC: saving what was just saved (default padding policy) changes nothing -/
theorem resave_idempotent (L : Layout) (blocks : List Block)
    (hmax : defaultPadding (((renderBlocks L.blocks).length : Int) -
        ((((blocks.filter (·.code != padCode)).map fun b => 4 + b.data.length).sum + 4 : Nat) : Int)) L.audio.length ≤ maxSize) :
    let L1 := msave L blocks false .default
    msave L1 L1.blocks false .default = L1 := by
  intro L1
  have hL1 : L1 = msave L blocks false .default := rfl
  generalize hwant : defaultPadding (((renderBlocks L.blocks).length : Int) -
        ((((blocks.filter (·.code != padCode)).map fun b => 4 + b.data.length).sum + 4 : Nat) : Int)) L.audio.length = want at hmax
  have hw0 : 0 ≤ want := by rw [← hwant]; exact defaultPadding_nonneg _ _
  have hb1 : L1.blocks = blocks.filter (·.code != padCode) ++ [{ code := padCode, data := zeros want.toNat }] := by
    have hmin : min want.toNat maxSize = want.toNat := by omega
    simp only [hL1, msave, newBlocks, getPadding, Bool.false_eq_true, ↓reduceIte, Nat.add_zero, hwant, hmin]
  have hkept : L1.blocks.filter (·.code != padCode) = blocks.filter (·.code != padCode) := by
    rw [hb1]
    apply filter_pad_newBlocks
    · intro b hb; simpa using (List.mem_filter.mp hb).2
    · rfl
  have havail : ((renderBlocks L1.blocks).length : Int) -
      ((((L1.blocks.filter (·.code != padCode)).map fun b => 4 + b.data.length).sum + 4 : Nat) : Int) = want := by
    rw [hkept, length_renderBlocks, hb1]
    simp only [List.map_append, List.map_cons, List.map_nil, length_zeros, sum_append_singleton]
    omega
  have hidem : defaultPadding want L.audio.length = want := by
    rw [← hwant]; exact defaultPadding_idempotent _ _
  have haud : L1.audio = L.audio := rfl
  have hpre : L1.pre = L.pre := rfl
  show msave L1 L1.blocks false .default = L1
  conv => rhs; rw [hL1]
  simp only [msave, newBlocks, getPadding, Bool.false_eq_true, ↓reduceIte, Nat.add_zero, hkept, haud, hpre]
  rw [hkept] at havail
  rw [havail, hidem, hwant]

/-- what FLAC.delete leaves: the foreign blocks and one empty padding block -/
def delBlocks (blocks : List Block) : List Block := blocks.filter keep ++ [{ code := padCode, data := [] }]

theorem newBlocks_delete (blocks : List Block) (a c : Nat) :
    newBlocks (blocks.filter (·.code != vcCode)) a c (.callback fun _ _ => 0) = delBlocks blocks := by
  simp only [newBlocks, getPadding, delBlocks, List.filter_filter]
  have e : (fun a : Block => a.code != padCode && a.code != vcCode) = keep := by
    funext a; simp only [keep]; cases (a.code != vcCode) <;> cases (a.code != padCode) <;> rfl
  rw [e]; rfl

theorem keep_delBlocks (blocks : List Block) : (delBlocks blocks).filter keep = blocks.filter keep := by
  simp only [delBlocks, List.filter_append, List.filter_filter, Bool.and_self]
  simp [keep, padCode, vcCode]
  rfl

theorem mdelete_blocks (L : Layout) (blocks : List Block) : (mdelete L blocks).blocks = delBlocks blocks := by
  simp only [mdelete, msave, newBlocks_delete]

/-- C08 for FLAC: after delete no Vorbis comment block and no padding payload remain, the
foreign blocks and the audio are untouched, and deleting again changes nothing -/
theorem delete_clears (L : Layout) :
    let D := mdelete L L.blocks
    (D.blocks.filter (·.code == vcCode) = []) ∧ paddingOf D = 0 ∧ foreign D = foreign L ∧
      mdelete D D.blocks = D := by
  intro D
  have hb : D.blocks = delBlocks L.blocks := mdelete_blocks L L.blocks
  refine ⟨?_, ?_, ?_, ?_⟩
  · rw [hb]
    simp only [delBlocks, List.filter_append, List.filter_filter, List.append_eq_nil_iff]
    constructor
    · apply List.filter_eq_nil_iff.mpr
      intro b _
      simp only [keep, Bool.and_eq_true, not_and]
      cases hc : (b.code == vcCode) <;> simp_all
    · simp [padCode, vcCode]
  · simp only [paddingOf, hb, delBlocks, List.filter_append, List.filter_filter]
    have : List.filter (fun a => a.code == padCode && keep a) L.blocks = [] := by
      apply List.filter_eq_nil_iff.mpr
      intro b _
      simp only [keep]
      cases hc : (b.code == padCode) <;> simp_all
    rw [this]; simp [padCode]
  · show (D.pre, D.blocks.filter keep, D.audio) = (L.pre, L.blocks.filter keep, L.audio)
    rw [hb, keep_delBlocks]; rfl
  · have h1 : (mdelete D D.blocks).blocks = D.blocks := by
      rw [mdelete_blocks, hb]
      show (delBlocks L.blocks).filter keep ++ _ = _
      rw [keep_delBlocks]; rfl
    have h2 : (mdelete D D.blocks).pre = D.pre := rfl
    have h3 : (mdelete D D.blocks).audio = D.audio := rfl
    cases hD' : mdelete D D.blocks
    cases hD'' : D
    simp_all

end Mutagen.FlacC

namespace Mutagen.FlacC

/-- an edit of the tags as mutagen's FLAC type performs it -/
inductive Op
  | save (vc : Bytes) (pad : PadChoice)   -- set the Vorbis comment payload and save
  | delete                                 -- FLAC.delete / flac.delete

/-- `self.tags` is the first Vorbis comment block (added at the end if there is none) -/
def setFirstVC : List Block → Bytes → List Block
  | [], v => [{ code := vcCode, data := v }]
  | b :: r, v => if b.code == vcCode then { code := vcCode, data := v } :: r else b :: setFirstVC r v

def step (L : Layout) : Op → Layout
  | .save v pad => msave L (setFirstVC L.blocks v) false pad
  | .delete => mdelete L L.blocks

def Op.ok : Op → Prop
  | .save v _ => v.length ≤ maxSize
  | .delete => True

theorem keep_setFirstVC (bs : List Block) (v : Bytes) : (setFirstVC bs v).filter keep = bs.filter keep := by
  induction bs with
  | nil => simp [setFirstVC, keep, vcCode]
  | cons b r ih =>
    simp only [setFirstVC]
    split
    · rename_i h
      have h' : b.code = vcCode := by simpa using h
      have hb : keep b = false := by simp [keep, h']
      have hv : keep { code := vcCode, data := v } = false := by simp [keep]
      simp [List.filter_cons, hb, hv]
    · simp [List.filter_cons, ih]

theorem setFirstVC_ok (bs : List Block) (v : Bytes) (hv : v.length ≤ maxSize)
    (h : ∀ b ∈ bs, b.code < 127 ∧ b.data.length ≤ maxSize) :
    ∀ b ∈ setFirstVC bs v, b.code < 127 ∧ b.data.length ≤ maxSize := by
  induction bs with
  | nil =>
    intro b hb
    simp only [setFirstVC, List.mem_singleton] at hb
    subst hb; exact ⟨by show vcCode < 127; decide, hv⟩
  | cons x r ih =>
    intro b hb
    simp only [setFirstVC] at hb
    split at hb
    · rcases List.mem_cons.mp hb with rfl | hb
      · exact ⟨by show vcCode < 127; decide, hv⟩
      · exact h b (List.mem_cons_of_mem _ hb)
    · rcases List.mem_cons.mp hb with rfl | hb
      · exact h _ (List.mem_cons_self)
      · exact ih (fun y hy => h y (List.mem_cons_of_mem _ hy)) b hb

theorem step_good (L : Layout) (hL : Good L) (op : Op) (hop : op.ok) :
    Good (step L op) ∧ (step L op).blocks.filter keep = L.blocks.filter keep ∧
      (step L op).pre = L.pre ∧ (step L op).audio = L.audio := by
  cases op with
  | save v pad =>
    have hok := setFirstVC_ok L.blocks v hop hL.ok
    refine ⟨msave_good L hL _ pad hok, ?_, rfl, rfl⟩
    have := foreign_msave L (setFirstVC L.blocks v) pad (keep_setFirstVC _ _)
    simp only [foreign, Prod.mk.injEq] at this
    exact this.2.1
  | delete =>
    have hok : ∀ b ∈ L.blocks.filter (·.code != vcCode), b.code < 127 ∧ b.data.length ≤ maxSize :=
      fun b hb => hL.ok b (List.mem_filter.mp hb).1
    refine ⟨msave_good L hL _ _ hok, ?_, rfl, rfl⟩
    show (mdelete L L.blocks).blocks.filter keep = _
    rw [mdelete_blocks, keep_delBlocks]

/-- C03 for FLAC: after ANY finite history of saves (any comment payload that fits a block,
any padding choice) and deletes, the file is accepted by the strict walker (exactly the
final block flagged last, all sizes equal to extents), and its foreign blocks, prefix and
audio are those of the original file -/
theorem history (L : Layout) (hL : Good L) (ops : List Op) (hops : ∀ op ∈ ops, op.ok) :
    let L' := ops.foldl step L
    Good L' ∧ walk (render L') = some L' ∧ L'.blocks.filter keep = L.blocks.filter keep ∧
      L'.pre = L.pre ∧ L'.audio = L.audio := by
  induction ops generalizing L with
  | nil => exact ⟨hL, walk_render L hL.pre hL.ne hL.blocksOk, rfl, rfl, rfl⟩
  | cons op ops ih =>
    obtain ⟨g, k, p, a⟩ := step_good L hL op (hops op (List.mem_cons_self))
    have := ih (step L op) g (fun o ho => hops o (List.mem_cons_of_mem _ ho))
    simp only [List.foldl_cons]
    obtain ⟨g', w', k', p', a'⟩ := this
    exact ⟨g', w', k'.trans k, p'.trans p, a'.trans a⟩

end Mutagen.FlacC
