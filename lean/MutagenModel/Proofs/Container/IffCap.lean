/- Proofs/Container/IffCap.lean — the file-object programs of Model/Container/IffM.lean: on a quiet device of any
capacity (C19), under arbitrary faults (C06) -/
import MutagenModel.Model.Container.IffM
import MutagenModel.Proofs.Container.IffTotal
import MutagenModel.Proofs.FileOpsCap
import MutagenModel.Proofs.OkAgree
set_option linter.unusedVariables false
namespace Mutagen.Iff
open Mutagen

theorem clean_quiet : Quiet Env.clean := ⟨fun _ => rfl, fun _ => rfl⟩

/-! ### calls that do not change the file -/

/-- in environment `e` the program returns normally from every state and leaves the bytes alone -/
def Probe (e : Env) (m : FileM α) : Prop := ∀ s, ∃ a s', m e s = (.ok a, s') ∧ s'.data = s.data

theorem Probe.bind {e : Env} {m : FileM α} {f : α → FileM β} (hm : Probe e m) (hf : ∀ a, Probe e (f a)) :
    Probe e (m >>= f) := by
  intro s
  obtain ⟨a, s1, h1, d1⟩ := hm s
  obtain ⟨b, s2, h2, d2⟩ := hf a s1
  exact ⟨b, s2, by simp only [bind_run, h1, h2], by rw [d2, d1]⟩

theorem Probe.pure {e : Env} (a : α) : Probe e (pure a : FileM α) := fun s => ⟨a, s, rfl, rfl⟩

theorem Probe.fseek {e : Env} (hq : Quiet e) (p : Nat) : Probe e (fseek p) := fun s => ⟨(), _, fseek_q hq p s, rfl⟩
theorem Probe.fseekEnd {e : Env} (hq : Quiet e) : Probe e fseekEnd := fun s => ⟨(), _, fseekEnd_q hq s, rfl⟩
theorem Probe.ftell {e : Env} (hq : Quiet e) : Probe e ftell := fun s => ⟨_, _, ftell_q hq s, rfl⟩
theorem Probe.fflush {e : Env} (hq : Quiet e) : Probe e fflush := fun s => ⟨(), _, fflush_q hq s, rfl⟩
theorem Probe.fread {e : Env} (hq : Quiet e) (n : Nat) : Probe e (fread n) := fun s => ⟨_, _, fread_q hq n s, rfl⟩

/-- running a probe in front of something else -/
theorem Probe.then {e : Env} {m : FileM α} {f : α → FileM β} (hm : Probe e m) (s : FS) :
    ∃ a s1, s1.data = s.data ∧ (m >>= f) e s = f a e s1 := by
  obtain ⟨a, s1, h1, d1⟩ := hm s
  exact ⟨a, s1, d1, by simp only [bind_run, h1]⟩

theorem probe_rootM {e : Env} (hq : Quiet e) (d : Dialect) : Probe e (rootM d) := by
  unfold rootM
  exact (Probe.fseek hq 0).bind fun _ => (Probe.fread hq _).bind fun _ => (Probe.ftell hq).bind fun _ =>
    (Probe.fread hq _).bind fun _ => Probe.pure ()

theorem probe_walkM {e : Env} (hq : Quiet e) (d : Dialect) (o : Nat) (cs : List Chunk) : Probe e (walkM d o cs) := by
  induction cs generalizing o with
  | nil => exact Probe.pure ()
  | cons c r ih =>
    unfold walkM
    refine (Probe.fseek hq o).bind fun _ => (Probe.fread hq _).bind fun _ => (Probe.ftell hq).bind fun _ => Probe.bind ?_ fun _ => ih _
    split
    · split
      · exact (Probe.fread hq _).bind fun _ => Probe.pure ()
      · exact Probe.pure ()
    · exact Probe.pure ()

theorem probe_subchunksM {e : Env} (hq : Quiet e) (d : Dialect) (cs : List Chunk) : Probe e (subchunksM d cs) := by
  unfold subchunksM
  exact (Probe.fseekEnd hq).bind fun _ => (Probe.ftell hq).bind fun _ => probe_walkM hq d _ cs

/-- `verify_fileobj` on a file object whose position is inside the file -/
theorem verifyM_q {e : Env} (hq : Quiet e) (s : FS) (hp : s.pos ≤ s.data.length) :
    ∃ s', verifyM e s = (.ok (), s') ∧ s'.data = s.data := by
  unfold verifyM
  have h1 : (do let _ ← fread 0; Pure.pure () : FileM Unit) e s =
      (.ok (), { data := s.data, pos := s.pos + (readAt s.data s.pos 0).length, ops := s.ops + 1, log := .read 0 :: s.log }) := by
    simp only [bind_run, fread_q hq, pure_run]
  have hr0 : (readAt s.data s.pos 0).length = 0 := by simp [readAt]
  simp only [bind_run, tryCatch_ok _ _ _ e s _ () h1]
  have h2 := fwrite_q_inside hq [] { data := s.data, pos := s.pos + (readAt s.data s.pos 0).length, ops := s.ops + 1, log := .read 0 :: s.log }
    (by simp [hr0]; exact hp)
  rw [tryCatch_ok _ _ _ e _ _ () h2]
  refine ⟨_, rfl, ?_⟩
  show writeData s.data (s.pos + (readAt s.data s.pos 0).length) [] = s.data
  rw [hr0, writeData_inside _ _ _ (by omega)]
  simp [writeAt]

/-! ### the writing steps on a quiet device -/

theorem updateSizeM_q {e : Env} (hq : Quiet e) (d : Dialect) (off : Nat) (n : Int) (m : Nat) (hn : n = m)
    (hm : m < 256 ^ d.sizeW) (s : FS) (hl : off + hs d ≤ s.data.length) :
    ∃ s', updateSizeM d off n e s = (.ok (), s') ∧ s'.data = writeAt s.data (off + 4) (enc d m) := by
  unfold updateSizeM
  subst hn
  have h0 : ¬ ((m : Int) < 0 ∨ (m : Int) ≥ ((256 ^ d.sizeW : Nat) : Int)) := by omega
  simp only [bind_run, fseek_q hq, h0, ↓reduceIte, Int.toNat_natCast]
  rw [fwrite_q_inside hq _ _ (by simp [hs] at hl ⊢; omega)]
  refine ⟨_, rfl, ?_⟩
  show writeData s.data (off + 4) (enc d m) = _
  rw [writeData_inside _ _ _ (by simp [hs] at hl; omega)]

theorem writeAt_nil (f : Bytes) (pos : Nat) : writeAt f pos [] = f := by simp [writeAt]

theorem writeAt_append (f : Bytes) (pos : Nat) (a b : Bytes) (h : pos + a.length + b.length ≤ f.length) :
    writeAt (writeAt f pos a) (pos + a.length) b = writeAt f pos (a ++ b) := by
  have e : f = f.take pos ++ (f.drop pos).take a.length ++ ((f.drop (pos + a.length)).take b.length ++ f.drop (pos + a.length + b.length)) := by
    have d1 : f.drop (pos + a.length + b.length) = (f.drop (pos + a.length)).drop b.length := by simp [List.drop_drop]
    have d2 : f.drop (pos + a.length) = (f.drop pos).drop a.length := by simp [List.drop_drop]
    rw [List.append_assoc, d1, List.take_append_drop, d2, List.take_append_drop, List.take_append_drop]
  have l1 : (f.take pos).length = pos := by simp [List.length_take]; omega
  have l2 : ((f.drop pos).take a.length).length = a.length := by simp [List.length_take]; omega
  have l3 : ((f.drop (pos + a.length)).take b.length).length = b.length := by simp [List.length_take]; omega
  generalize f.take pos = P at e l1
  generalize (f.drop pos).take a.length = M1 at e l2
  generalize (f.drop (pos + a.length)).take b.length = M2 at e l3
  generalize f.drop (pos + a.length + b.length) = R at e
  rw [e, writeAt_mid P M1 _ a pos l1 l2]
  have e2 : P ++ a ++ (M2 ++ R) = (P ++ a) ++ M2 ++ R := by simp only [List.append_assoc]
  rw [e2, writeAt_mid (P ++ a) M2 R b (pos + a.length) (by simp [l1]) l3]
  have e3 : P ++ M1 ++ (M2 ++ R) = P ++ (M1 ++ M2) ++ R := by simp only [List.append_assoc]
  rw [e3, writeAt_mid P (M1 ++ M2) R (a ++ b) pos l1 (by simp [l2, l3])]
  simp only [List.append_assoc]

theorem writeChunkM_q {e : Env} (hq : Quiet e) (d : Dialect) (off : Nat) (data : Bytes) (s : FS)
    (hl : off + hs d + data.length + data.length % 2 ≤ s.data.length) :
    ∃ s', writeChunkM d off data e s = (.ok (), s') ∧
      s'.data = writeAt s.data (off + hs d) (data ++ zeros (data.length % 2)) := by
  unfold writeChunkM
  simp only [bind_run, fseek_q hq]
  rw [fwrite_q_inside hq _ _ (by simp only []; omega)]
  simp only []
  have hw : writeData s.data (off + hs d) data = writeAt s.data (off + hs d) data := writeData_inside _ _ _ (by omega)
  by_cases hodd : data.length % 2 = 1
  · rw [if_pos hodd]
    simp only [bind_run, fseek_q hq]
    have hlen : (writeData s.data (off + hs d) data).length = s.data.length := length_writeData_inside _ _ _ (by omega)
    rw [fwrite_q_inside hq _ _ (by simp only [hlen, List.length_cons, List.length_nil]; omega)]
    refine ⟨_, rfl, ?_⟩
    show writeData (writeData s.data (off + hs d) data) (off + hs d + data.length) [0] = _
    rw [writeData_inside _ _ _ (by omega), hw, hodd]
    exact writeAt_append s.data (off + hs d) data [0] (by simp; omega)
  · rw [if_neg hodd]
    have h0 : data.length % 2 = 0 := by omega
    refine ⟨_, rfl, ?_⟩
    show writeData s.data (off + hs d) data = _
    rw [hw, h0]; simp [zeros]

theorem prepareM_q {e : Env} (hq : Quiet e) (start available vmaj : Nat) (hvm : vmaj = 3 ∨ vmaj = 4) (frames : Bytes)
    (pad : PadZ) (s : FS) (p : Nat)
    (hp : getPaddingZ pad ((available : Int) - (frames.length + 10 : Nat)) ((s.data.length : Int) - start - available) = p)
    (hfit : frames.length + p < 2 ^ 28) :
    ∃ hdr s', Id3F.header vmaj (frames.length + p) = .ok hdr ∧ hdr.length = 10 ∧
      prepareM start available vmaj frames pad e s = (.ok (hdr ++ frames ++ zeros p), s') ∧ s'.data = s.data := by
  obtain ⟨x1, x2, x3, x4, hhd, _⟩ := Id3F.header_ok vmaj (frames.length + p) hfit
  have hrun : prepareM start available vmaj frames pad e s =
      (.ok (Id3F.magicID3 ++ [UInt8.ofNat vmaj, 0, 0] ++ [x1, x2, x3, x4] ++ frames ++ zeros p),
        { data := s.data, pos := s.data.length, ops := s.ops + 1 + 1, log := .tell :: .seekEnd :: s.log }) := by
    unfold prepareM
    have h0 : ¬ (vmaj ≠ 3 ∧ vmaj ≠ 4) := by omega
    have h1 : ¬ ((p : Int) < 0) := by omega
    have h2 : ¬ (frames.length > 2 ^ 28 - 1) := by omega
    have h3 : min (p : Int).toNat (2 ^ 28 - 1 - frames.length) = p := by omega
    simp only [h0, ↓reduceIte, bind_run, fseekEnd_q hq, ftell_q hq, hp, h1, h2, h3, hhd, pure_run]
  exact ⟨_, _, hhd, by simp [Id3F.magicID3], hrun, rfl⟩

/-- `chunk.resize(len(data)); chunk.write(data)` -/
def chunkSteps (d : Dialect) (B : Nat) (off n rootSize : Nat) (data : Bytes) : FileM Unit := do
  resizeChunkM d B off n rootSize data.length
  writeChunkM d off data

theorem saveChunkM_eq (d : Dialect) (B : Nat) (off n rootSize vmaj : Nat) (frames : Bytes) (pad : PadZ) :
    saveChunkM d B off n rootSize vmaj frames pad =
      (prepareM (off + hs d) n vmaj frames pad >>= fun data => chunkSteps d B off n rootSize data) := rfl

/-- `chunk.resize(len(data)); chunk.write(data)` on a rendered file, device of any capacity: the growth of the chunk
comes before every write — either everything goes through and the file is the rendering with the new chunk, or
ENOSPC is raised and no byte has changed -/
theorem chunkSteps_q {e : Env} (hq : Quiet e) (d : Dialect) (hd : d.WF) (B : Nat) (hB : 0 < B) (name : Bytes)
    (hname : name.length = 4) (bs as : List Chunk) (c : Chunk) (hc4 : c.id.length = 4) (hpad : c.pad.length = c.data.length % 2)
    (data : Bytes)
    (hroot : 4 + ((renderChunks d bs).length + (hs d + data.length + data.length % 2) + (renderChunks d as).length) < 256 ^ d.sizeW)
    (s : FS) (hsd : s.data = renderFile d name (bs ++ c :: as)) :
    (∃ s', chunkSteps d B (hs d + nameSize + (renderChunks d bs).length) c.data.length
        (nameSize + (renderChunks d (bs ++ c :: as)).length) data e s = (.ok (), s') ∧
        s'.data = renderFile d name (bs ++ tagChunk c.id data :: as)) ∨
    (∃ s', chunkSteps d B (hs d + nameSize + (renderChunks d bs).length) c.data.length
        (nameSize + (renderChunks d (bs ++ c :: as)).length) data e s = (.error .enospc, s') ∧
        s'.data = s.data ∧ e ≠ Env.clean) := by
  have hcs := length_chunks_split d bs c as hc4
  have hcs' : (renderChunks d (bs ++ tagChunk c.id data :: as)).length =
      (renderChunks d bs).length + (hs d + data.length + data.length % 2) + (renderChunks d as).length := by
    rw [length_chunks_split d bs (tagChunk c.id data) as hc4]; simp [tagChunk]
  have hflen : s.data.length = hs d + (4 + ((renderChunks d bs).length + (hs d + c.data.length + c.pad.length) + (renderChunks d as).length)) := by
    rw [hsd, length_renderFile d hd, hcs, hname]
  -- the file in parts
  have hsplit := renderFile_split d name bs c as
  generalize hr0 : name.length + (renderChunks d (bs ++ c :: as)).length = r0 at hsplit
  have hP : (d.rootId ++ enc d r0 ++ (name ++ renderChunks d bs ++ c.id) ++ enc d c.data.length).length =
      hs d + nameSize + (renderChunks d bs).length + hs d := by
    simp only [List.length_append, length_enc, hd.1, hname, hc4, hs, nameSize]; omega
  unfold chunkSteps resizeChunkM
  simp only [bind_run, fseekEnd_q hq, ftell_q hq]
  have hold : min (c.data.length + c.data.length % 2) (s.data.length - (hs d + nameSize + (renderChunks d bs).length + hs d)) =
      c.data.length + c.data.length % 2 := by
    rw [hflen]; simp only [nameSize]; omega
  rw [hold]
  rcases resizeBytes_q hq B hB (c.data.length + c.data.length % 2) (data.length + data.length % 2)
      (hs d + nameSize + (renderChunks d bs).length + hs d)
      { data := s.data, pos := s.data.length, ops := s.ops + 1 + 1, log := .tell :: .seekEnd :: s.log }
      (by simp only [hflen, nameSize]; omega) with ⟨s1, gap, hr, hg, hd1⟩ | ⟨s1, hr, hd1⟩
  · left
    simp only [hr]
    -- the resized file
    simp only [] at hd1
    rw [hsd, hsplit] at hd1
    have e1 : d.rootId ++ enc d r0 ++ (name ++ renderChunks d bs ++ c.id) ++ enc d c.data.length ++ (c.data ++ c.pad) ++ renderChunks d as =
        (d.rootId ++ enc d r0 ++ (name ++ renderChunks d bs ++ c.id) ++ enc d c.data.length) ++ ((c.data ++ c.pad) ++ renderChunks d as) := by
      simp only [List.append_assoc]
    rw [e1, List.take_left' hP, List.drop_left' hP] at hd1
    have e2 : (d.rootId ++ enc d r0 ++ (name ++ renderChunks d bs ++ c.id) ++ enc d c.data.length ++ (c.data ++ c.pad ++ renderChunks d as)).drop
        (hs d + nameSize + (renderChunks d bs).length + hs d + (c.data.length + c.data.length % 2)) = renderChunks d as := by
      rw [← List.append_assoc]
      exact List.drop_left' (by simp only [List.length_append, hP, hpad])
    rw [e2] at hd1
    generalize hM : ((c.data ++ c.pad ++ renderChunks d as).take (min (c.data.length + c.data.length % 2) (data.length + data.length % 2)) ++ gap) = M at hd1
    have hMl : M.length = data.length + data.length % 2 := by
      rw [← hM]; simp only [List.length_append, List.length_take, hg, hpad]; omega
    have hd1' : s1.data = d.rootId ++ enc d r0 ++ (name ++ renderChunks d bs ++ c.id) ++ enc d c.data.length ++ M ++ renderChunks d as := by
      rw [hd1, ← hM]; simp only [List.append_assoc]
    have hl1 : s1.data.length = hs d + nameSize + (renderChunks d bs).length + hs d + (data.length + data.length % 2) + (renderChunks d as).length := by
      rw [hd1']; simp only [List.length_append, hP, hMl]
    have hB' : (name ++ renderChunks d bs ++ c.id).length = nameSize + (renderChunks d bs).length + 4 := by
      simp [hname, hc4, nameSize]; omega
    -- chunk size field
    obtain ⟨s2, h2, hd2⟩ := updateSizeM_q hq d (hs d + nameSize + (renderChunks d bs).length) (data.length : Int) data.length rfl
      (by omega) s1 (by rw [hl1]; omega)
    simp only [h2]
    have hd2' : s2.data = d.rootId ++ enc d r0 ++ (name ++ renderChunks d bs ++ c.id) ++ enc d data.length ++ M ++ renderChunks d as := by
      rw [hd2, hd1']
      have : d.rootId ++ enc d r0 ++ (name ++ renderChunks d bs ++ c.id) ++ enc d c.data.length ++ M ++ renderChunks d as =
          (d.rootId ++ enc d r0 ++ (name ++ renderChunks d bs ++ c.id)) ++ enc d c.data.length ++ (M ++ renderChunks d as) := by
        simp only [List.append_assoc]
      rw [this, writeAt_mid _ _ _ _ _ (by simp only [List.length_append, length_enc, hd.1, hB', hs, nameSize]; omega) (by simp)]
      simp only [List.append_assoc]
    -- root size field
    have hl2 : s2.data.length = s1.data.length := by rw [hd2', hd1']; simp only [List.length_append, length_enc]
    obtain ⟨s3, h3, hd3⟩ := updateSizeM_q hq d 0
      (((nameSize + (renderChunks d (bs ++ c :: as)).length : Nat) : Int) +
        (((hs d + data.length + data.length % 2 : Nat) : Int) - ((hs d + c.data.length + c.data.length % 2 : Nat) : Int)))
      (name.length + (renderChunks d (bs ++ tagChunk c.id data :: as)).length)
      (by rw [hcs, hcs', hname, hpad]; simp only [nameSize]; omega) (by rw [hcs', hname]; omega) s2 (by rw [hl2, hl1]; omega)
    simp only [h3]
    generalize hr1 : name.length + (renderChunks d (bs ++ tagChunk c.id data :: as)).length = r1 at hd3
    have hd3' : s3.data = d.rootId ++ enc d r1 ++ (name ++ renderChunks d bs ++ c.id) ++ enc d data.length ++ M ++ renderChunks d as := by
      rw [hd3, hd2']
      have : d.rootId ++ enc d r0 ++ (name ++ renderChunks d bs ++ c.id) ++ enc d data.length ++ M ++ renderChunks d as =
          d.rootId ++ enc d r0 ++ ((name ++ renderChunks d bs ++ c.id) ++ enc d data.length ++ M ++ renderChunks d as) := by
        simp only [List.append_assoc]
      rw [this, writeAt_mid _ _ _ _ _ (by simp [hd.1]) (by simp)]
      simp only [List.append_assoc]
    -- flush, then the data and the pad byte
    simp only [fflush_q hq]
    obtain ⟨s4, h4, hd4⟩ := writeChunkM_q hq d (hs d + nameSize + (renderChunks d bs).length) data
      { data := s3.data, pos := s3.pos, ops := s3.ops + 1, log := .flush :: s3.log }
      (by simp only []; rw [hd3']; simp only [List.length_append, length_enc, hd.1, hB', hMl, hs, nameSize]; omega)
    rw [h4]
    refine ⟨s4, rfl, ?_⟩
    rw [hd4]
    simp only []
    rw [hd3', writeAt_mid _ M _ _ _ (by simp only [List.length_append, length_enc, hd.1, hB', hs, nameSize]; omega)
      (by simp [hMl])]
    rw [renderFile_split d name bs (tagChunk c.id data) as, hr1]
    simp only [tagChunk, List.append_assoc]
  · right
    simp only [hr]
    refine ⟨s1, rfl, hd1, ?_⟩
    intro he
    subst he
    obtain ⟨s9, _, hok, _⟩ := resizeBytes_clean B hB (c.data.length + c.data.length % 2) (data.length + data.length % 2)
      (hs d + nameSize + (renderChunks d bs).length + hs d)
      { data := s.data, pos := s.data.length, ops := s.ops + 1 + 1, log := .tell :: .seekEnd :: s.log }
      (by simp only [hflen, nameSize]; omega)
    rw [hok] at hr; cases hr


theorem updateSizeM_q_eq {e : Env} (hq : Quiet e) (d : Dialect) (off : Nat) (n : Int) (m : Nat) (hn : n = m)
    (hm : m < 256 ^ d.sizeW) (s : FS) (hl : off + hs d ≤ s.data.length) :
    updateSizeM d off n e s = (.ok (), ({ data := writeAt s.data (off + 4) (enc d m), pos := off + 4 + (enc d m).length, ops := s.ops + 1 + 1, log := Op.write (enc d m).length :: Op.seek (off + 4) :: s.log } : FS)) := by
  unfold updateSizeM
  subst hn
  have h0 : ¬ ((m : Int) < 0 ∨ (m : Int) ≥ ((256 ^ d.sizeW : Nat) : Int)) := by omega
  simp only [bind_run, fseek_q hq, h0, ↓reduceIte, Int.toNat_natCast]
  rw [fwrite_q_inside hq _ _ (by simp [hs] at hl ⊢; omega)]
  simp only []
  rw [writeData_inside _ _ _ (by simp [hs] at hl; omega)]

/-- what follows the parsing calls in `saveM` -/
def saveRestM (d : Dialect) (B : Nat) (L : Layout) (vmaj : Nat) (frames : Bytes) (pad : PadZ) : FileM Unit :=
  match L.id3 with
  | some c =>
    saveChunkM d B (hs d + nameSize + (renderChunks d L.before).length) c.data.length
      (nameSize + (renderChunks d L.chunks).length) vmaj frames pad
  | none =>
    insertM d B (nameSize + (renderChunks d L.chunks).length) >>= fun _ =>
    saveChunkM d B (hs d + (nameSize + (renderChunks d L.chunks).length)) 0 (nameSize + (renderChunks d L.chunks).length + hs d) vmaj frames pad

theorem saveM_eq (d : Dialect) (B : Nat) (L : Layout) (vmaj : Nat) (frames : Bytes) (pad : PadZ) :
    saveM d B L vmaj frames pad =
      (verifyM >>= fun _ => rootM d >>= fun _ => subchunksM d L.chunks >>= fun _ => saveRestM d B L vmaj frames pad) := by
  unfold saveM saveRestM
  cases L.id3 <;> rfl

/-- the calls in front of the first change (`verify_fileobj`, root chunk, sub-chunk walk) go through on a quiet device
and leave the bytes alone -/
theorem prefix_q {e : Env} (hq : Quiet e) (d : Dialect) (cs : List Chunk) (rest : FileM Unit) (s : FS) (hp : s.pos ≤ s.data.length) :
    ∃ s3, s3.data = s.data ∧
      (verifyM >>= fun _ => rootM d >>= fun _ => subchunksM d cs >>= fun _ => rest) e s = rest e s3 := by
  obtain ⟨s1, h1, d1⟩ := verifyM_q hq s hp
  obtain ⟨_, s2, h2, d2⟩ := probe_rootM hq d s1
  obtain ⟨_, s3, h3, d3⟩ := probe_subchunksM hq d cs s2
  refine ⟨s3, by rw [d3, d2, d1], ?_⟩
  simp only [bind_run, h1, h2, h3]

/-- `insert_chunk` on a rendered file: `insert_bytes` comes first — ENOSPC there leaves the file as it was —, the rest
writes inside the file: the file gets an empty ID3 chunk behind the others -/
theorem insertM_q {e : Env} (hq : Quiet e) (d : Dialect) (hd : d.WF) (B : Nat) (hB : 0 < B) (name : Bytes) (hname : name.length = 4)
    (cs : List Chunk) (hroot : 4 + ((renderChunks d cs).length + hs d) < 256 ^ d.sizeW) (s : FS) (hsd : s.data = renderFile d name cs) :
    (∃ s', insertM d B (nameSize + (renderChunks d cs).length) e s = (.ok (), s') ∧ s'.data = renderFile d name (cs ++ [freshChunk d])) ∨
    (∃ s', insertM d B (nameSize + (renderChunks d cs).length) e s = (.error .enospc, s') ∧ s'.data = s.data ∧ e ≠ Env.clean) := by
  have hflen : s.data.length = hs d + (nameSize + (renderChunks d cs).length) := by
    rw [hsd, length_renderFile d hd, hname]; rfl
  unfold insertM
  simp only [bind_run, fseekEnd_q hq, ftell_q hq]
  rcases insertBytes_q hq B hB (hs d) (hs d + (nameSize + (renderChunks d cs).length))
      { data := s.data, pos := s.data.length, ops := s.ops + 1 + 1, log := .tell :: .seekEnd :: s.log } (by simp only [hflen]; omega)
      with ⟨s1, hr, hd1⟩ | ⟨s1, hr, hd1⟩
  · left
    simp only [hr]
    simp only [] at hd1
    rw [← hflen, List.take_length, List.drop_length, List.append_nil] at hd1
    generalize hG : readAt (s.data ++ zeros (hs d)) s.data.length (hs d) = G at hd1
    have hGl : G.length = hs d := by
      rw [← hG]; exact length_readAt _ _ _ (by simp)
    simp only [fseek_q hq]
    have hl1 : s1.data.length = s.data.length + hs d := by rw [hd1]; simp [hGl]
    rw [fwrite_q_inside hq _ _ (by simp only [List.length_append, length_enc, hd.2.2.2.1, hl1, hflen, hs]; omega)]
    simp only []
    have hw : writeData s1.data (hs d + (nameSize + (renderChunks d cs).length)) (d.newId ++ enc d 0) = s.data ++ (d.newId ++ enc d 0) := by
      rw [writeData_inside _ _ _ (by rw [hl1, hflen]; omega), hd1]
      have := writeAt_mid s.data G [] (d.newId ++ enc d 0) (hs d + (nameSize + (renderChunks d cs).length)) hflen
        (by simp [hGl, hd.2.2.2.1, hs])
      simpa using this
    rw [hw]
    simp only [fread_q hq, ftell_q hq]
    rw [updateSizeM_q_eq hq d 0 (((nameSize + (renderChunks d cs).length : Nat) : Int) + ((hs d : Nat) : Int))
      (name.length + (renderChunks d (cs ++ [freshChunk d])).length)
      (by simp [renderChunks_append, renderChunks, length_render_fresh d hd, hname, nameSize]; omega)
      (by simp [renderChunks_append, renderChunks, length_render_fresh d hd, hname]; omega) _
      (by simp only [List.length_append, hflen]; omega)]
    simp only [fflush_q hq]
    refine ⟨_, rfl, ?_⟩
    simp only []
    rw [hsd]
    have e1 : renderFile d name cs ++ (d.newId ++ enc d 0) =
        d.rootId ++ enc d (name.length + (renderChunks d cs).length) ++ (name ++ renderChunks d cs ++ (d.newId ++ enc d 0)) := by
      simp [renderFile, List.append_assoc]
    rw [e1, writeAt_mid _ _ _ _ _ (by simp [hd.1]) (by simp)]
    simp [renderFile, renderChunks_append, renderChunks, Chunk.render, freshChunk, List.append_assoc]
  · right
    simp only [hr]
    refine ⟨s1, rfl, hd1, ?_⟩
    intro he
    subst he
    obtain ⟨s9, hok, _⟩ := insertBytes_clean B hB (hs d) (hs d + (nameSize + (renderChunks d cs).length))
      { data := s.data, pos := s.data.length, ops := s.ops + 1 + 1, log := .tell :: .seekEnd :: s.log } (by simp only [hflen]; omega)
    rw [hok] at hr; cases hr


/-- `save` over an existing ID3 chunk on a device of any capacity: it completes with the layout `save_layout` describes,
or raises ENOSPC with the file byte-identical -/
theorem saveM_tagged_q {e : Env} (hq : Quiet e) (d : Dialect) (hd : d.WF) (B : Nat) (hB : 0 < B) (L : Layout) (h : L.OK d)
    (c : Chunk) (hid : L.id3 = some c) (vmaj : Nat) (hvm : vmaj = 3 ∨ vmaj = 4) (frames : Bytes) (pad : PadZ) (p : Nat)
    (hp : getPaddingZ pad ((c.data.length : Int) - (frames.length + 10 : Nat)) ((c.pad.length + (renderChunks d L.after).length : Nat) : Int) = p)
    (hfit : frames.length + p < 2 ^ 28) (hroot : 4 + L.newExtent d (10 + frames.length + p) < 256 ^ d.sizeW)
    (s : FS) (hsd : s.data = L.render d) (hpos : s.pos ≤ s.data.length) :
    ∃ hdr, Id3F.header vmaj (frames.length + p) = .ok hdr ∧ hdr.length = 10 ∧
      ((∃ s', saveM d B L vmaj frames pad e s = (.ok (), s') ∧ s'.data = (L.withTag d (hdr ++ frames ++ zeros p)).render d) ∨
       (∃ s', saveM d B L vmaj frames pad e s = (.error .enospc, s') ∧ s'.data = s.data ∧ e ≠ Env.clean)) := by
  have hc := h.id3 c hid
  have hcs := chunks_some L c hid
  rw [saveM_eq]
  obtain ⟨s3, d3, hrun⟩ := prefix_q hq d L.chunks (saveRestM d B L vmaj frames pad) s hpos
  rw [hrun]
  unfold saveRestM
  simp only [hid, saveChunkM_eq]
  have hs3 : s3.data = renderFile d L.formType (L.before ++ c :: L.after) := by rw [d3, hsd, Layout.render, hcs]
  have hlen : s3.data.length = hs d + (4 + ((renderChunks d L.before).length + (hs d + c.data.length + c.pad.length) + (renderChunks d L.after).length)) := by
    rw [hs3, length_renderFile d hd, length_chunks_split d _ c _ hc.1.1.1, h.name.1]
  obtain ⟨hdr, s4, hhd, h10, hprep, d4⟩ := prepareM_q hq (hs d + nameSize + (renderChunks d L.before).length + hs d) c.data.length vmaj hvm
    frames pad s3 p (by rw [← hp, hlen]; congr 1; simp only [nameSize]; omega) hfit
  refine ⟨hdr, hhd, h10, ?_⟩
  simp only [bind_run, hprep]
  have hl : (hdr ++ frames ++ zeros p).length = 10 + frames.length + p := by simp [h10]; omega
  unfold Layout.newExtent at hroot
  rw [hcs]
  rcases chunkSteps_q hq d hd B hB L.formType h.name.1 L.before L.after c hc.1.1.1 hc.1.2 (hdr ++ frames ++ zeros p)
      (by rw [hl]; exact hroot) s4 (by rw [d4, hs3]) with ⟨s5, h5, d5⟩ | ⟨s5, h5, d5, hne⟩
  · left
    refine ⟨s5, h5, ?_⟩
    rw [d5]
    simp [Layout.render, Layout.withTag, Layout.chunks, Layout.id3Id, hid]
  · right
    exact ⟨s5, h5, by rw [d5, d4, d3], hne⟩

/-- `save` into a file without an ID3 chunk on a device of any capacity: it completes; or ENOSPC strikes while the
empty chunk is inserted and the file is byte-identical; or ENOSPC strikes while the (already inserted, empty) chunk is
enlarged and the file is the original with an empty ID3 chunk behind the other chunks — every other chunk in place,
the root size right -/
theorem saveM_untagged_q {e : Env} (hq : Quiet e) (d : Dialect) (hd : d.WF) (B : Nat) (hB : 0 < B) (L : Layout) (h : L.OK d)
    (hid : L.id3 = none) (vmaj : Nat) (hvm : vmaj = 3 ∨ vmaj = 4) (frames : Bytes) (pad : PadZ) (p : Nat)
    (hp : getPaddingZ pad ((0 : Int) - (frames.length + 10 : Nat)) 0 = p)
    (hfit : frames.length + p < 2 ^ 28) (hroot : 4 + L.newExtent d (10 + frames.length + p) < 256 ^ d.sizeW)
    (s : FS) (hsd : s.data = L.render d) (hpos : s.pos ≤ s.data.length) :
    ∃ hdr, Id3F.header vmaj (frames.length + p) = .ok hdr ∧ hdr.length = 10 ∧
      ((∃ s', saveM d B L vmaj frames pad e s = (.ok (), s') ∧ s'.data = (L.withTag d (hdr ++ frames ++ zeros p)).render d) ∨
       (∃ s', saveM d B L vmaj frames pad e s = (.error .enospc, s') ∧ s'.data = s.data ∧ e ≠ Env.clean) ∨
       (∃ s', saveM d B L vmaj frames pad e s = (.error .enospc, s') ∧ s'.data = (L.withTag d []).render d ∧ e ≠ Env.clean)) := by
  have ha := h.afterNone hid
  have hcs := chunks_none L hid ha
  unfold Layout.newExtent at hroot
  simp only [ha, renderChunks, List.length_nil, Nat.add_zero] at hroot
  rw [saveM_eq]
  obtain ⟨s3, d3, hrun⟩ := prefix_q hq d L.chunks (saveRestM d B L vmaj frames pad) s hpos
  rw [hrun]
  unfold saveRestM
  simp only [hid, saveChunkM_eq, hcs]
  have hs3 : s3.data = renderFile d L.formType L.before := by rw [d3, hsd, Layout.render, hcs]
  have hfr := fresh_ok d hd
  have hwt0 : (L.withTag d []).render d = renderFile d L.formType (L.before ++ [freshChunk d]) := by
    simp [Layout.render, Layout.withTag, Layout.chunks, Layout.id3Id, hid, ha, tagChunk, freshChunk, zeros]
  obtain ⟨x1, x2, x3, x4, hhd0, _⟩ := Id3F.header_ok vmaj (frames.length + p) hfit
  refine ⟨_, hhd0, by simp [Id3F.magicID3], ?_⟩
  generalize hHDR : Id3F.magicID3 ++ [UInt8.ofNat vmaj, 0, 0] ++ [x1, x2, x3, x4] = HDR at hhd0
  have h10 : HDR.length = 10 := by rw [← hHDR]; simp [Id3F.magicID3]
  rcases insertM_q hq d hd B hB L.formType h.name.1 L.before (by omega) s3 hs3 with ⟨s4, h4, d4⟩ | ⟨s4, h4, d4, hne⟩
  · simp only [bind_run, h4]
    have hlen : s4.data.length = hs d + (nameSize + (renderChunks d L.before).length) + hs d := by
      rw [d4, length_renderFile d hd, renderChunks_append, h.name.1]
      simp [renderChunks, length_render_fresh d hd, nameSize]; omega
    obtain ⟨hdr, s5, hhd, _, hprep, d5⟩ := prepareM_q hq (hs d + (nameSize + (renderChunks d L.before).length) + hs d) 0 vmaj hvm
      frames pad s4 p (by rw [← hp, hlen]; congr 1; omega) hfit
    rw [hhd0] at hhd; cases hhd
    simp only [hprep]
    have hl : (HDR ++ frames ++ zeros p).length = 10 + frames.length + p := by simp [h10]; omega
    have e1 : hs d + (nameSize + (renderChunks d L.before).length) = hs d + nameSize + (renderChunks d L.before).length := by omega
    have e2 : nameSize + (renderChunks d L.before).length + hs d = nameSize + (renderChunks d (L.before ++ [freshChunk d])).length := by
      simp [renderChunks_append, renderChunks, length_render_fresh d hd]; omega
    rcases chunkSteps_q hq d hd B hB L.formType h.name.1 L.before [] (freshChunk d) hfr.1.1 hfr.2 (HDR ++ frames ++ zeros p)
        (by rw [hl]; simpa [renderChunks] using hroot) s5 (by rw [d5, d4]) with ⟨s6, h6, d6⟩ | ⟨s6, h6, d6, hne⟩
    · left
      simp only [fresh_data, List.length_nil] at h6
      rw [e1, e2]
      refine ⟨s6, h6, ?_⟩
      rw [d6]
      simp [Layout.render, Layout.withTag, Layout.chunks, Layout.id3Id, hid, ha, freshChunk]
    · right; right
      simp only [fresh_data, List.length_nil] at h6
      rw [e1, e2]
      exact ⟨s6, h6, by rw [d6, d5, d4, hwt0], hne⟩
  · right; left
    simp only [bind_run, h4]
    exact ⟨s4, rfl, by rw [d4, d3], hne⟩


/-! ### arbitrary fault environments (C06) -/

/-- what can leave the file-object programs: the module's `error`, or what the primitives raise (an injected
exception, ENOSPC, ValueError, IOError of `read_full`, the BUFFER_SIZE = 0 marker) -/
def IffErr (e : Env) (x : PyErr) : Prop := x = .mutagen ∨ PrimErr e x

theorem inj_iff {e : Env} {x : PyErr} (h : Injected e x) : IffErr e x := Or.inr (inj_prim h)
theorem prim_iff {e : Env} {x : PyErr} (h : PrimErr e x) : IffErr e x := Or.inr h

theorem raises_fwrite (b : Bytes) : Raises IffErr (fwrite b) :=
  (Raises.fwrite b).weaken fun _ x hx => Or.inr (hx.elim inj_prim (fun h => h ▸ prim_enospc _))

theorem raises_verifyM : Raises IffErr verifyM := by
  unfold verifyM
  refine Raises.bind (Raises.tryCatch (Raises.bind ((Raises.fread 0).weaken fun _ _ => inj_iff) fun _ => Raises.pure _ _) ?_) fun _ =>
    Raises.tryCatch (raises_fwrite []) ?_
  all_goals
    intro e x _ _ s err s' h
    simp only [raise_run, Prod.mk.injEq, Except.error.injEq] at h
    exact h.1 ▸ prim_iff (prim_value e)

theorem raises_rootM (d : Dialect) : Raises IffErr (rootM d) := by
  unfold rootM
  exact Raises.bind ((Raises.fseek 0).weaken fun _ _ => inj_iff) fun _ =>
    Raises.bind ((Raises.fread _).weaken fun _ _ => inj_iff) fun _ =>
    Raises.bind (Raises.ftell.weaken fun _ _ => inj_iff) fun _ =>
    Raises.bind ((Raises.fread _).weaken fun _ _ => inj_iff) fun _ => Raises.pure _ _

theorem raises_walkM (d : Dialect) (o : Nat) (cs : List Chunk) : Raises IffErr (walkM d o cs) := by
  induction cs generalizing o with
  | nil => exact Raises.pure _ _
  | cons c r ih =>
    unfold walkM
    refine Raises.bind ((Raises.fseek o).weaken fun _ _ => inj_iff) fun _ =>
      Raises.bind ((Raises.fread _).weaken fun _ _ => inj_iff) fun _ =>
      Raises.bind (Raises.ftell.weaken fun _ _ => inj_iff) fun _ => Raises.bind ?_ fun _ => ih _
    split
    · split
      · exact Raises.bind ((Raises.fread _).weaken fun _ _ => inj_iff) fun _ => Raises.pure _ _
      · exact Raises.pure _ _
    · exact Raises.pure _ _

theorem raises_subchunksM (d : Dialect) (cs : List Chunk) : Raises IffErr (subchunksM d cs) := by
  unfold subchunksM
  exact Raises.bind (Raises.fseekEnd.weaken fun _ _ => inj_iff) fun _ =>
    Raises.bind (Raises.ftell.weaken fun _ _ => inj_iff) fun _ => raises_walkM d _ cs

theorem raises_updateSizeM (d : Dialect) (off : Nat) (n : Int) : Raises IffErr (updateSizeM d off n) := by
  unfold updateSizeM
  exact Raises.bind ((Raises.fseek _).weaken fun _ _ => inj_iff) fun _ =>
    Raises.ite (Raises.raise .mutagen fun _ => Or.inl rfl) (raises_fwrite _)

theorem raises_hdr (vmaj n : Nat) (frames : Bytes) (padN : Nat) :
    Raises IffErr (match Id3F.header vmaj n with
      | .error e => raise e
      | .ok hd => (pure (hd ++ frames ++ zeros padN) : FileM Bytes)) := by
  split
  · rename_i x hx
    exact Raises.raise x fun e => by rw [header_error _ _ _ hx]; exact prim_iff (prim_value e)
  · exact Raises.pure _ _

theorem raises_prepareM (start available vmaj : Nat) (frames : Bytes) (pad : PadZ) :
    Raises IffErr (prepareM start available vmaj frames pad) := by
  unfold prepareM
  apply Raises.guardThen _ _ _ (fun e => prim_iff (prim_value e))
  refine Raises.bind (Raises.fseekEnd.weaken fun _ _ => inj_iff) fun _ =>
    Raises.bind (Raises.ftell.weaken fun _ _ => inj_iff) fun size => ?_
  dsimp only
  refine Raises.ite (Raises.bind (Raises.raise _ fun _ => Or.inl rfl) fun _ => ?_) ?_
  all_goals refine Raises.ite (Raises.bind (Raises.raise _ fun _ => Or.inl rfl) fun _ => ?_) ?_
  all_goals exact raises_hdr _ _ _ _

theorem raises_resizeChunkM (d : Dialect) (B off n rootSize N : Nat) : Raises IffErr (resizeChunkM d B off n rootSize N) := by
  unfold resizeChunkM
  exact Raises.bind (Raises.fseekEnd.weaken fun _ _ => inj_iff) fun _ =>
    Raises.bind (Raises.ftell.weaken fun _ _ => inj_iff) fun _ =>
    Raises.bind ((Raises.resizeBytes _ _ _ _).weaken fun _ _ => prim_iff) fun _ =>
    Raises.bind (raises_updateSizeM _ _ _) fun _ => Raises.bind (raises_updateSizeM _ _ _) fun _ =>
    Raises.fflush.weaken fun _ _ => inj_iff

theorem raises_writeChunkM (d : Dialect) (off : Nat) (data : Bytes) : Raises IffErr (writeChunkM d off data) := by
  unfold writeChunkM
  refine Raises.bind ((Raises.fseek _).weaken fun _ _ => inj_iff) fun _ => Raises.bind (raises_fwrite _) fun _ => ?_
  split
  · exact Raises.bind ((Raises.fseek _).weaken fun _ _ => inj_iff) fun _ => raises_fwrite _
  · exact Raises.pure _ _

theorem raises_saveChunkM (d : Dialect) (B off n rootSize vmaj : Nat) (frames : Bytes) (pad : PadZ) :
    Raises IffErr (saveChunkM d B off n rootSize vmaj frames pad) := by
  unfold saveChunkM
  exact Raises.bind (raises_prepareM _ _ _ _ _) fun _ => Raises.bind (raises_resizeChunkM _ _ _ _ _ _) fun _ => raises_writeChunkM _ _ _

theorem raises_insertM (d : Dialect) (B rootSize : Nat) : Raises IffErr (insertM d B rootSize) := by
  unfold insertM
  exact Raises.bind (Raises.fseekEnd.weaken fun _ _ => inj_iff) fun _ =>
    Raises.bind (Raises.ftell.weaken fun _ _ => inj_iff) fun _ =>
    Raises.bind ((Raises.insertBytes _ _ _).weaken fun _ _ => prim_iff) fun _ =>
    Raises.bind ((Raises.fseek _).weaken fun _ _ => inj_iff) fun _ => Raises.bind (raises_fwrite _) fun _ =>
    Raises.bind ((Raises.fseek _).weaken fun _ _ => inj_iff) fun _ =>
    Raises.bind ((Raises.fread _).weaken fun _ _ => inj_iff) fun _ =>
    Raises.bind (Raises.ftell.weaken fun _ _ => inj_iff) fun _ =>
    Raises.bind (raises_updateSizeM _ _ _) fun _ => Raises.fflush.weaken fun _ _ => inj_iff

/-- `save` raises only the module's `error` or what the file primitives raise -/
theorem raises_saveM (d : Dialect) (B : Nat) (L : Layout) (vmaj : Nat) (frames : Bytes) (pad : PadZ) :
    Raises IffErr (saveM d B L vmaj frames pad) := by
  rw [saveM_eq]
  refine Raises.bind raises_verifyM fun _ => Raises.bind (raises_rootM d) fun _ => Raises.bind (raises_subchunksM d _) fun _ => ?_
  unfold saveRestM
  split
  · exact raises_saveChunkM _ _ _ _ _ _ _ _
  · exact Raises.bind (raises_insertM _ _ _) fun _ => raises_saveChunkM _ _ _ _ _ _ _ _

theorem raises_deleteChunkM (d : Dialect) (B off n rootSize : Nat) : Raises IffErr (deleteChunkM d B off n rootSize) := by
  unfold deleteChunkM
  exact Raises.bind (Raises.fseekEnd.weaken fun _ _ => inj_iff) fun _ =>
    Raises.bind (Raises.ftell.weaken fun _ _ => inj_iff) fun _ =>
    Raises.bind ((Raises.deleteBytes _ _ _).weaken fun _ _ => prim_iff) fun _ =>
    Raises.bind (raises_updateSizeM _ _ _) fun _ => Raises.fflush.weaken fun _ _ => inj_iff

theorem raises_deleteM (d : Dialect) (B : Nat) (L : Layout) : Raises IffErr (deleteM d B L) := by
  unfold deleteM
  refine Raises.bind raises_verifyM fun _ => Raises.bind (raises_rootM d) fun _ => Raises.bind (raises_subchunksM d _) fun _ => ?_
  split
  · exact raises_deleteChunkM _ _ _ _ _
  · exact Raises.pure _ _


theorem raises_deleteWaveMethodM (d : Dialect) (B : Nat) (L : Layout) : Raises IffErr (deleteWaveMethodM d B L) := by
  unfold deleteWaveMethodM
  exact Raises.bind raises_verifyM fun _ => raises_deleteM d B L

theorem OkAgree.ite' {c : Prop} [Decidable c] {m n : FileM α} (hm : OkAgree m) (hn : OkAgree n) : OkAgree (if c then m else n) := by
  split <;> assumption

theorem ok_verifyM : OkAgree verifyM := by
  unfold verifyM
  refine OkAgree.bind (OkAgree.tryCatch (OkAgree.bind (OkAgree.fread 0) fun _ => OkAgree.pure _) ?_) fun _ =>
    OkAgree.tryCatch (OkAgree.fwrite []) ?_
  all_goals
    intro x e s a s' h
    simp at h

theorem ok_rootM (d : Dialect) : OkAgree (rootM d) := by
  unfold rootM
  exact OkAgree.bind (OkAgree.fseek 0) fun _ => OkAgree.bind (OkAgree.fread _) fun _ => OkAgree.bind OkAgree.ftell fun _ =>
    OkAgree.bind (OkAgree.fread _) fun _ => OkAgree.pure _

theorem ok_walkM (d : Dialect) (o : Nat) (cs : List Chunk) : OkAgree (walkM d o cs) := by
  induction cs generalizing o with
  | nil => exact OkAgree.pure _
  | cons c r ih =>
    unfold walkM
    refine OkAgree.bind (OkAgree.fseek o) fun _ => OkAgree.bind (OkAgree.fread _) fun _ => OkAgree.bind OkAgree.ftell fun _ =>
      OkAgree.bind ?_ fun _ => ih _
    split
    · split
      · exact OkAgree.bind (OkAgree.fread _) fun _ => OkAgree.pure _
      · exact OkAgree.pure _
    · exact OkAgree.pure _

theorem ok_subchunksM (d : Dialect) (cs : List Chunk) : OkAgree (subchunksM d cs) := by
  unfold subchunksM
  exact OkAgree.bind OkAgree.fseekEnd fun _ => OkAgree.bind OkAgree.ftell fun _ => ok_walkM d _ cs

theorem ok_updateSizeM (d : Dialect) (off : Nat) (n : Int) : OkAgree (updateSizeM d off n) := by
  unfold updateSizeM
  exact OkAgree.bind (OkAgree.fseek _) fun _ => OkAgree.ite' (OkAgree.raise _) (OkAgree.fwrite _)

theorem ok_hdr (vmaj n : Nat) (frames : Bytes) (padN : Nat) :
    OkAgree (match Id3F.header vmaj n with
      | .error e => raise e
      | .ok hd => (pure (hd ++ frames ++ zeros padN) : FileM Bytes)) := by
  split
  · exact OkAgree.raise _
  · exact OkAgree.pure _

theorem ok_prepareM (start available vmaj : Nat) (frames : Bytes) (pad : PadZ) :
    OkAgree (prepareM start available vmaj frames pad) := by
  unfold prepareM
  apply OkAgree.guardThen
  refine OkAgree.bind OkAgree.fseekEnd fun _ => OkAgree.bind OkAgree.ftell fun size => ?_
  dsimp only
  refine OkAgree.ite' (OkAgree.bind (OkAgree.raise _) fun _ => ?_) ?_
  all_goals refine OkAgree.ite' (OkAgree.bind (OkAgree.raise _) fun _ => ?_) ?_
  all_goals exact ok_hdr _ _ _ _

theorem ok_resizeChunkM (d : Dialect) (B off n rootSize N : Nat) : OkAgree (resizeChunkM d B off n rootSize N) := by
  unfold resizeChunkM
  exact OkAgree.bind OkAgree.fseekEnd fun _ => OkAgree.bind OkAgree.ftell fun _ =>
    OkAgree.bind (OkAgree.resizeBytes _ _ _ _) fun _ => OkAgree.bind (ok_updateSizeM _ _ _) fun _ =>
    OkAgree.bind (ok_updateSizeM _ _ _) fun _ => OkAgree.fflush

theorem ok_writeChunkM (d : Dialect) (off : Nat) (data : Bytes) : OkAgree (writeChunkM d off data) := by
  unfold writeChunkM
  refine OkAgree.bind (OkAgree.fseek _) fun _ => OkAgree.bind (OkAgree.fwrite _) fun _ => ?_
  split
  · exact OkAgree.bind (OkAgree.fseek _) fun _ => OkAgree.fwrite _
  · exact OkAgree.pure _

theorem ok_saveChunkM (d : Dialect) (B off n rootSize vmaj : Nat) (frames : Bytes) (pad : PadZ) :
    OkAgree (saveChunkM d B off n rootSize vmaj frames pad) := by
  unfold saveChunkM
  exact OkAgree.bind (ok_prepareM _ _ _ _ _) fun _ => OkAgree.bind (ok_resizeChunkM _ _ _ _ _ _) fun _ => ok_writeChunkM _ _ _

theorem ok_insertM (d : Dialect) (B rootSize : Nat) : OkAgree (insertM d B rootSize) := by
  unfold insertM
  exact OkAgree.bind OkAgree.fseekEnd fun _ => OkAgree.bind OkAgree.ftell fun _ =>
    OkAgree.bind (OkAgree.insertBytes _ _ _) fun _ => OkAgree.bind (OkAgree.fseek _) fun _ => OkAgree.bind (OkAgree.fwrite _) fun _ =>
    OkAgree.bind (OkAgree.fseek _) fun _ => OkAgree.bind (OkAgree.fread _) fun _ => OkAgree.bind OkAgree.ftell fun _ =>
    OkAgree.bind (ok_updateSizeM _ _ _) fun _ => OkAgree.fflush

theorem ok_saveM (d : Dialect) (B : Nat) (L : Layout) (vmaj : Nat) (frames : Bytes) (pad : PadZ) :
    OkAgree (saveM d B L vmaj frames pad) := by
  rw [saveM_eq]
  refine OkAgree.bind ok_verifyM fun _ => OkAgree.bind (ok_rootM d) fun _ => OkAgree.bind (ok_subchunksM d _) fun _ => ?_
  unfold saveRestM
  split
  · exact ok_saveChunkM _ _ _ _ _ _ _ _
  · exact OkAgree.bind (ok_insertM _ _ _) fun _ => ok_saveChunkM _ _ _ _ _ _ _ _

theorem ok_deleteChunkM (d : Dialect) (B off n rootSize : Nat) : OkAgree (deleteChunkM d B off n rootSize) := by
  unfold deleteChunkM
  exact OkAgree.bind OkAgree.fseekEnd fun _ => OkAgree.bind OkAgree.ftell fun _ =>
    OkAgree.bind (OkAgree.deleteBytes _ _ _) fun _ => OkAgree.bind (ok_updateSizeM _ _ _) fun _ => OkAgree.fflush

theorem ok_deleteM (d : Dialect) (B : Nat) (L : Layout) : OkAgree (deleteM d B L) := by
  unfold deleteM
  refine OkAgree.bind ok_verifyM fun _ => OkAgree.bind (ok_rootM d) fun _ => OkAgree.bind (ok_subchunksM d _) fun _ => ?_
  split
  · exact ok_deleteChunkM _ _ _ _ _
  · exact OkAgree.pure _

theorem ok_deleteWaveMethodM (d : Dialect) (B : Nat) (L : Layout) : OkAgree (deleteWaveMethodM d B L) := by
  unfold deleteWaveMethodM
  exact OkAgree.bind ok_verifyM fun _ => ok_deleteM d B L

/-- `delete` on a quiet device (any capacity: nothing grows): the ID3 chunk is cut out, the root size follows -/
theorem deleteM_q {e : Env} (hq : Quiet e) (d : Dialect) (hd : d.WF) (B : Nat) (hB : 0 < B) (L : Layout) (h : L.OK d)
    (s : FS) (hsd : s.data = L.render d) (hpos : s.pos ≤ s.data.length) :
    ∃ s', deleteM d B L e s = (.ok (), s') ∧ s'.data = L.without.render d := by
  unfold deleteM
  obtain ⟨s1, h1, d1⟩ := verifyM_q hq s hpos
  obtain ⟨_, s2, h2, d2⟩ := probe_rootM hq d s1
  obtain ⟨_, s3, h3, d3⟩ := probe_subchunksM hq d L.chunks s2
  simp only [bind_run, h1, h2, h3]
  have hs3 : s3.data = L.render d := by rw [d3, d2, d1, hsd]
  cases hid : L.id3 with
  | none =>
    simp only [pure_run]
    refine ⟨s3, rfl, ?_⟩
    rw [hs3]
    simp [Layout.render, Layout.without, Layout.chunks, hid, h.afterNone hid]
  | some c =>
    simp only []
    have hc := h.id3 c hid
    have hcs := chunks_some L c hid
    have hc4 := hc.1.1.1
    have hsplit := length_chunks_split d L.before c L.after hc4
    have hlen : s3.data.length = hs d + (4 + ((renderChunks d L.before).length + (hs d + c.data.length + c.pad.length) + (renderChunks d L.after).length)) := by
      rw [hs3, Layout.render, hcs, length_renderFile d hd, hsplit, h.name.1]
    unfold deleteChunkM
    simp only [bind_run, fseekEnd_q hq, ftell_q hq]
    have hact : min (c.data.length + c.data.length % 2) (s3.data.length - (hs d + nameSize + (renderChunks d L.before).length + hs d)) =
        c.data.length + c.data.length % 2 := by
      rw [hlen, hc.1.2]; simp only [nameSize]; omega
    rw [hact]
    obtain ⟨s4, h4, d4⟩ := deleteBytes_q hq B hB (hs d + (c.data.length + c.data.length % 2)) (hs d + nameSize + (renderChunks d L.before).length)
      { data := s3.data, pos := s3.data.length, ops := s3.ops + 1 + 1, log := .tell :: .seekEnd :: s3.log }
      (by simp only [hlen, hc.1.2, nameSize]; omega)
    simp only [h4]
    simp only [] at d4
    have e : s3.data = (d.rootId ++ enc d (L.formType.length + (renderChunks d (L.before ++ c :: L.after)).length) ++ L.formType ++ renderChunks d L.before) ++
        c.render d ++ renderChunks d L.after := by
      rw [hs3, Layout.render, hcs]
      simp [renderFile, renderChunks_append, renderChunks, List.append_assoc]
    have hP : (d.rootId ++ enc d (L.formType.length + (renderChunks d (L.before ++ c :: L.after)).length) ++ L.formType ++ renderChunks d L.before).length =
        hs d + nameSize + (renderChunks d L.before).length := by
      simp only [List.length_append, length_enc, hd.1, h.name.1, hs, nameSize]
    have hM : (c.render d).length = hs d + (c.data.length + c.data.length % 2) := by
      rw [length_render d c hc4, hc.1.2]; omega
    rw [e, take_mid _ _ _ _ hP, drop_mid _ _ _ _ _ hP hM] at d4
    have hl4 : s4.data.length = hs d + nameSize + (renderChunks d L.before).length + (renderChunks d L.after).length := by
      rw [d4]; simp only [List.length_append, hP]
    rw [updateSizeM_q_eq hq d 0 _ (L.formType.length + (renderChunks d (L.before ++ L.after)).length)
      (by rw [hcs, hsplit, renderChunks_append, h.name.1, hc.1.2]; simp only [List.length_append, nameSize]; omega)
      (by have := h.size; rw [hcs, hsplit] at this; rw [renderChunks_append, h.name.1]; simp only [List.length_append]; omega)
      s4 (by rw [hl4]; simp only [nameSize]; omega)]
    simp only [fflush_q hq]
    refine ⟨_, rfl, ?_⟩
    simp only []
    rw [d4]
    have e3 : d.rootId ++ enc d (L.formType.length + (renderChunks d (L.before ++ c :: L.after)).length) ++ L.formType ++ renderChunks d L.before ++ renderChunks d L.after =
        d.rootId ++ enc d (L.formType.length + (renderChunks d (L.before ++ c :: L.after)).length) ++ (L.formType ++ renderChunks d L.before ++ renderChunks d L.after) := by
      simp only [List.append_assoc]
    rw [e3, writeAt_mid _ _ _ _ _ hd.1 (by simp)]
    simp [Layout.render, Layout.without, Layout.chunks, renderFile, renderChunks_append, List.append_assoc]


end Mutagen.Iff
