/- Proofs/Container/IffTotal.lean — the IFF model on EVERY byte string: load, delete and save end in a
result or in MutagenError (helper lemmas for Props/C04_Iff.lean) -/
import MutagenModel.Proofs.Container.Iff
set_option linter.unusedVariables false
namespace Mutagen.Iff
open Mutagen

/-! ### the parsers -/

theorem parseAt_clean (d : Dialect) (f : Bytes) (o : Nat) (e : PyErr) (h : parseAt d f o = .error e) : e = .mutagen := by
  unfold parseAt at h
  simp only [] at h
  split at h
  · cases h
  · split at h
    · cases h
    · split at h
      · cases h
      · split at h
        · cases h
        · split at h
          · cases h
          · cases h; rfl

theorem parseAt_offset (d : Dialect) (f : Bytes) (o : Nat) (r : Rec) (h : parseAt d f o = .ok (some r)) : r.offset = o := by
  unfold parseAt at h
  simp only [] at h
  split at h
  · cases h
  · split at h
    · cases h
    · split at h
      · cases h; rfl
      · split at h
        · cases h
        · split at h
          · cases h; rfl
          · cases h

/-- a parsed header lies inside the file -/
theorem parseAt_inside (d : Dialect) (f : Bytes) (o : Nat) (r : Rec) (h : parseAt d f o = .ok (some r)) : o + hs d ≤ f.length := by
  unfold parseAt at h
  simp only [] at h
  split at h
  · cases h
  · rename_i hl
    simp only [readAt, List.length_take, List.length_drop, hs] at hl ⊢
    omega

theorem parseRoot_clean (d : Dialect) (f : Bytes) (e : PyErr) (h : parseRoot d f = .error e) : e = .mutagen := by
  unfold parseRoot at h
  split at h
  · rename_i e' he; cases h; exact parseAt_clean d f 0 _ he
  · cases h; rfl
  · split at h
    · cases h; rfl
    · split at h
      · cases h
      · split at h
        · cases h; rfl
        · cases h

theorem parseRoot_inside (d : Dialect) (f : Bytes) (rs : Nat) (h : parseRoot d f = .ok rs) : hs d ≤ f.length := by
  unfold parseRoot at h
  split at h
  · cases h
  · cases h
  · rename_i r hr
    have := parseAt_inside d f 0 r hr
    omega

/-- the sub-chunk loop never runs out of fuel when it is given the distance to its end, and nothing but
MutagenError escapes from it -/
theorem walkFrom_clean (d : Dialect) (f : Bytes) (endOff : Nat) (fuel next : Nat) (hfuel : endOff - next ≤ fuel)
    (e : PyErr) (h : walkFrom d f endOff fuel next = .error e) : e = .mutagen := by
  induction fuel generalizing next with
  | zero =>
    unfold walkFrom at h
    split at h
    · omega
    · cases h
  | succ k ih =>
    unfold walkFrom at h
    split at h
    · rename_i hlt
      split at h
      · rename_i e' he; cases h; exact parseAt_clean d f next _ he
      · cases h
      · rename_i r hr
        have ho := parseAt_offset d f next r hr
        split at h
        · rename_i e' he
          cases h
          refine ih (r.offset + r.size d) ?_ he
          simp only [Rec.size, hs, ho]; omega
        · cases h
    · cases h

theorem walk_clean (d : Dialect) (f : Bytes) (rootSize : Nat) (e : PyErr) (h : walk d f rootSize = .error e) : e = .mutagen := by
  unfold walk at h
  refine walkFrom_clean d f _ _ _ ?_ e h
  unfold actual; omega

theorem updateSize_clean (d : Dialect) (f : Bytes) (off old : Nat) (diff : Int) (e : PyErr)
    (h : updateSize d f off old diff = .error e) : e = .mutagen := by
  unfold updateSize at h
  simp only [] at h
  split at h
  · cases h; rfl
  · cases h

theorem length_writeAt (f buf : Bytes) (pos : Nat) (h : pos + buf.length ≤ f.length) : (writeAt f pos buf).length = f.length := by
  simp only [writeAt, List.length_append, List.length_take, List.length_drop]; omega

theorem updateSize_length (d : Dialect) (f : Bytes) (off old : Nat) (diff : Int) (f' : Bytes) (n : Nat)
    (hl : off + hs d ≤ f.length) (h : updateSize d f off old diff = .ok (f', n)) : f'.length = f.length := by
  unfold updateSize at h
  simp only [] at h
  split at h
  · cases h
  · cases h
    exact length_writeAt _ _ _ (by simp [hs] at hl ⊢; omega)

/-! ### load and delete -/

theorem locate_clean (d : Dialect) (f : Bytes) (e : PyErr) (h : locate d f = .error e) : e = .mutagen := by
  unfold locate at h
  split at h
  · rename_i e' he; cases h; exact parseRoot_clean d f _ he
  · split at h
    · rename_i e' he; cases h; exact walk_clean d f _ _ he
    · cases h

theorem delete_clean (d : Dialect) (f : Bytes) (e : PyErr) (h : delete d f = .error e) : e = .mutagen := by
  unfold delete at h
  split at h
  · rename_i e' he; cases h; exact parseRoot_clean d f _ he
  · split at h
    · rename_i e' he; cases h; exact walk_clean d f _ _ he
    · split at h
      · cases h
      · simp only [] at h
        split at h
        · rename_i e' he; cases h; exact updateSize_clean _ _ _ _ _ _ he
        · cases h

/-! ### the insertion -/

/-- `insertPrep` after the walk -/
def prepCore (d : Dialect) (f : Bytes) (rootSize : Nat) (recs0 : List Rec) : Except PyErr (Bytes × Nat × Nat × List Rec) :=
  let next0 := hs d + actual f (hs d) rootSize
  match recs0.getLast? with
  | none => .ok (f, rootSize, next0, recs0)
  | some last =>
    let lastEnd := last.offset + last.size d
    if lastEnd > next0 then
      let f' := if lastEnd = f.length + 1 then f ++ [0] else f
      if lastEnd ≤ f'.length then
        if lastEnd > hs d + rootSize then
          match updateSize d f' 0 rootSize ((lastEnd : Int) - (hs d + rootSize : Nat)) with
          | .error e => .error e
          | .ok (f'', rs') => .ok (f'', rs', lastEnd, recs0)
        else .ok (f', rootSize, lastEnd, recs0)
      else .ok (f', rootSize, next0, recs0)
    else .ok (f, rootSize, next0, recs0)

theorem insertPrep_eq (d : Dialect) (f : Bytes) (rootSize : Nat) (recs : List Rec) :
    insertPrep d f rootSize recs =
      match (if recs.isEmpty then walk d f rootSize else .ok recs) with
      | .error e => .error e
      | .ok recs0 => prepCore d f rootSize recs0 := rfl

theorem prepCore_spec (d : Dialect) (f : Bytes) (rootSize : Nat) (recs0 : List Rec) (hf : hs d ≤ f.length) :
    (∀ e, prepCore d f rootSize recs0 = .error e → e = .mutagen) ∧
    (∀ fa rsA next r0, prepCore d f rootSize recs0 = .ok (fa, rsA, next, r0) → next ≤ fa.length ∧ hs d ≤ fa.length) := by
  have hnext0 : hs d + actual f (hs d) rootSize ≤ f.length := by unfold actual; omega
  unfold prepCore
  simp only []
  cases hl : recs0.getLast? with
  | none =>
    simp only []
    refine ⟨fun e h => ?_, fun fa rsA next r0 h => ?_⟩
    · cases h
    · cases h; exact ⟨hnext0, hf⟩
  | some last =>
    simp only []
    by_cases h1 : last.offset + last.size d > hs d + actual f (hs d) rootSize
    · rw [if_pos h1]
      generalize hfp : (if last.offset + last.size d = f.length + 1 then f ++ [0] else f) = f'
      have hlen : f.length ≤ f'.length := by
        rw [← hfp]; split <;> simp
      by_cases h2 : last.offset + last.size d ≤ f'.length
      · rw [if_pos h2]
        by_cases h3 : last.offset + last.size d > hs d + rootSize
        · rw [if_pos h3]
          cases hu : updateSize d f' 0 rootSize (((last.offset + last.size d : Nat) : Int) - ((hs d + rootSize : Nat) : Int)) with
          | error e0 =>
            simp only []
            refine ⟨fun e h => ?_, fun _ _ _ _ h => ?_⟩
            · cases h; exact updateSize_clean _ _ _ _ _ _ hu
            · cases h
          | ok x =>
            obtain ⟨f'', rs'⟩ := x
            simp only []
            refine ⟨fun e h => (by cases h), fun fa rsA next r0 h => ?_⟩
            cases h
            have := updateSize_length d f' 0 _ _ _ _ (by omega) hu
            rw [this]; exact ⟨h2, by omega⟩
        · rw [if_neg h3]
          refine ⟨fun e h => ?_, fun fa rsA next r0 h => ?_⟩
          · cases h
          · cases h; exact ⟨h2, by omega⟩
      · rw [if_neg h2]
        refine ⟨fun e h => ?_, fun fa rsA next r0 h => ?_⟩
        · cases h
        · cases h; exact ⟨by omega, by omega⟩
    · rw [if_neg h1]
      refine ⟨fun e h => ?_, fun fa rsA next r0 h => ?_⟩
      · cases h
      · cases h; exact ⟨hnext0, hf⟩

/-- `insert_chunk` up to the place of the new chunk: only MutagenError escapes, and the place is inside the file -/
theorem insertPrep_spec (d : Dialect) (f : Bytes) (rootSize : Nat) (recs : List Rec) (hf : hs d ≤ f.length) :
    (∀ e, insertPrep d f rootSize recs = .error e → e = .mutagen) ∧
    (∀ fa rsA next recs0, insertPrep d f rootSize recs = .ok (fa, rsA, next, recs0) → next ≤ fa.length ∧ hs d ≤ fa.length) := by
  rw [insertPrep_eq]
  cases hw : (if recs.isEmpty then walk d f rootSize else .ok recs) with
  | error e0 =>
    simp only []
    refine ⟨fun e h => ?_, fun _ _ _ _ h => (by cases h)⟩
    cases h
    split at hw
    · exact walk_clean d f _ _ hw
    · cases hw
  | ok recs0 =>
    simp only []
    exact prepCore_spec d f rootSize recs0 hf

/-- the header `insert_chunk` has just written is parsed back as the dialect's ID3 chunk -/
theorem parseAt_inserted (d : Dialect) (hd : d.WF) (f : Bytes) (next : Nat) (hn : next ≤ f.length) :
    parseAt d (f.take next ++ (d.newId ++ enc d 0) ++ f.drop next) next = .ok (some ⟨d.key, next, 0⟩) := by
  have := parseAt_chunk d (f.take next) (f.drop next) (freshChunk d) (fresh_ok d hd).1
  have hl : (f.take next).length = next := by simp [List.length_take]; omega
  rw [hl, show recOf next (freshChunk d) = ⟨d.key, next, 0⟩ by simp [recOf, sid_fresh d hd, fresh_data]] at this
  simpa [Chunk.render, freshChunk, List.append_assoc] using this

theorem find_append_last (ids : List Bytes) (rs : List Rec) (c : Rec) (h : ids.contains c.id = true) :
    ∃ r, find ids (rs ++ [c]) = some r := by
  unfold find
  cases hq : List.find? (fun r => ids.contains r.id) (rs ++ [c]) with
  | some r => exact ⟨r, rfl⟩
  | none =>
    rw [List.find?_eq_none] at hq
    exact absurd h (hq c (by simp))

/-- `insert_chunk`: only MutagenError escapes, and the list it leaves contains a chunk with the key `save` asks for -/
theorem insertChunk_spec (d : Dialect) (hd : d.WF) (f : Bytes) (rootSize : Nat) (recs : List Rec) (hf : hs d ≤ f.length) :
    (∀ e, insertChunk d f rootSize recs = .error e → e = .mutagen) ∧
    (∀ f1 rs1 recs1, insertChunk d f rootSize recs = .ok (f1, rs1, recs1) → ∃ r, find [d.key] recs1 = some r) := by
  obtain ⟨hp1, hp2⟩ := insertPrep_spec d f rootSize recs hf
  unfold insertChunk
  cases hprep : insertPrep d f rootSize recs with
  | error e0 =>
    exact ⟨fun e h => (by cases h; exact hp1 _ hprep), fun _ _ _ h => (by cases h)⟩
  | ok x =>
    obtain ⟨fa, rsA, next, recs0⟩ := x
    obtain ⟨hn, _⟩ := hp2 fa rsA next recs0 hprep
    simp only []
    unfold insertAt
    simp only [parseAt_inserted d hd fa next hn]
    constructor
    · intro e h
      split at h
      · rename_i e' he; cases h; exact updateSize_clean _ _ _ _ _ _ he
      · split at h
        · rename_i e' he
          cases h
          split at he
          · exact walk_clean _ _ _ _ he
          · cases he
        · cases h
    · intro f1 rs1 recs1 h
      split at h
      · cases h
      · split at h
        · cases h
        · cases h
          exact find_append_last [d.key] _ ⟨d.key, next, 0⟩ (by simp)

/-! ### save -/

theorem save_eq_saveWith (d : Dialect) (f : Bytes) (vmaj : Nat) (frames : Bytes) (pad : PadChoice) :
    save d f vmaj frames pad = saveWith d f fun f1 rs c => saveAt d f1 rs c vmaj frames pad := rfl

/-- the part of `save` that does not depend on what happens after the lookup: parse errors and the failures
of `insert_chunk` are MutagenError, and the lookup after an insertion succeeds (no KeyError) -/
theorem saveWith_clean (d : Dialect) (hd : d.WF) (f : Bytes) (sa : Bytes → Nat → Rec → Except PyErr Bytes)
    (hsa : ∀ f1 rs c e, sa f1 rs c = .error e → e = .mutagen) (e : PyErr) (h : saveWith d f sa = .error e) : e = .mutagen := by
  unfold saveWith at h
  split at h
  · rename_i e' he; cases h; exact parseRoot_clean d f _ he
  · rename_i rs hrs
    have hf := parseRoot_inside d f rs hrs
    split at h
    · rename_i e' he; cases h; exact walk_clean d f _ _ he
    · rename_i recs _
      split at h
      · exact hsa _ _ _ _ h
      · obtain ⟨hi1, hi2⟩ := insertChunk_spec d hd f rs recs hf
        split at h
        · rename_i e' he; cases h; exact hi1 _ he
        · rename_i f1 rs1 recs1 hins
          obtain ⟨r, hr⟩ := hi2 f1 rs1 recs1 hins
          rw [hr] at h
          exact hsa _ _ _ _ h

/-- … in `saveWith`, whatever else it answers, `sa` is the only source of other error classes -/
theorem saveWith_error (d : Dialect) (hd : d.WF) (f : Bytes) (sa : Bytes → Nat → Rec → Except PyErr Bytes) (e : PyErr)
    (h : saveWith d f sa = .error e) : e = .mutagen ∨ ∃ f1 rs c, sa f1 rs c = .error e := by
  unfold saveWith at h
  split at h
  · rename_i e' he; cases h; exact Or.inl (parseRoot_clean d f _ he)
  · rename_i rs hrs
    have hf := parseRoot_inside d f rs hrs
    split at h
    · rename_i e' he; cases h; exact Or.inl (walk_clean d f _ _ he)
    · rename_i recs _
      split at h
      · exact Or.inr ⟨_, _, _, h⟩
      · obtain ⟨hi1, hi2⟩ := insertChunk_spec d hd f rs recs hf
        split at h
        · rename_i e' he; cases h; exact Or.inl (hi1 _ he)
        · rename_i f1 rs1 recs1 hins
          obtain ⟨r, hr⟩ := hi2 f1 rs1 recs1 hins
          rw [hr] at h
          exact Or.inr ⟨_, _, _, h⟩

/-- once the padding is known only MutagenError is left: the capped tag always fits the 28-bit size field -/
theorem saveTail_clean (d : Dialect) (f : Bytes) (rootSize : Nat) (c : Rec) (vmaj : Nat) (frames : Bytes) (np : Int)
    (e : PyErr) (h : saveTail d f rootSize c vmaj frames np = .error e) : e = .mutagen := by
  unfold saveTail at h
  simp only [] at h
  split at h
  · cases h; rfl
  · split at h
    · cases h; rfl
    · rename_i hneg hbig
      obtain ⟨x1, x2, x3, x4, hhd, _⟩ := Id3F.header_ok vmaj (frames.length + min np.toNat (2 ^ 28 - 1 - frames.length)) (by omega)
      rw [hhd] at h
      simp only [] at h
      split at h
      · rename_i e' he; cases h; exact updateSize_clean _ _ _ _ _ _ he
      · split at h
        · rename_i e' he; cases h; exact updateSize_clean _ _ _ _ _ _ he
        · cases h

theorem saveAtZ_clean (d : Dialect) (f : Bytes) (rootSize : Nat) (c : Rec) (vmaj : Nat) (hvm : vmaj = 3 ∨ vmaj = 4)
    (frames : Bytes) (pad : PadZ) (e : PyErr)
    (h : saveAtZ d f rootSize c vmaj frames pad = .error e) : e = .mutagen := by
  unfold saveAtZ at h
  have h0 : ¬ (vmaj ≠ 3 ∧ vmaj ≠ 4) := by omega
  rw [if_neg h0] at h
  exact saveTail_clean d f rootSize c vmaj frames _ e h

/-! ### `saveZ` extends `save` -/

theorem defaultPaddingZ_nat (padding : Int) (size : Nat) :
    defaultPaddingZ padding (size : Int) = Generated.defaultPadding padding size := by
  unfold defaultPaddingZ Generated.defaultPadding
  simp only [Int.natCast_ediv]
  rfl

theorem getPaddingZ_nat (pad : PadChoice) (padding : Int) (size : Nat) :
    getPaddingZ pad.toZ padding (size : Int) = getPadding pad padding size := by
  cases pad with
  | default => exact defaultPaddingZ_nat padding size
  | callback cb => simp [getPaddingZ, PadChoice.toZ, getPadding]

/-- what `BitPaddedInt.to_str(n, width=4)` raised for `n ≥ 2^28` (earlier code): ValueError -/
theorem header_too_wide (vmaj n : Nat) (hn : 2 ^ 28 ≤ n) : Id3F.header vmaj n = .error .value := by
  unfold Id3F.header bpToStr
  have h0 : ¬ ((n : Int) < 0) := by omega
  rw [if_neg h0]
  simp only []
  have h1 : ¬ ((4 : Int) = -1) := by decide
  have h2 : ¬ ((4 : Int) < 0) := by decide
  rw [if_neg h1, if_neg h2]
  have h3 : digitsLE 7 (4 : Int).toNat (n : Int).toNat = none := by
    show digitsLE 7 4 n = none
    simp only [digitsLE, Option.map_eq_none_iff]
    have : n / 2 ^ 7 / 2 ^ 7 / 2 ^ 7 / 2 ^ 7 ≠ 0 := by omega
    simp [this]
  rw [h3]

/-- `saveAt` against `saveAtZ`: the same function, except where `saveAt` answers `notImplemented` (the ID3 chunk's
declared data reaches beyond the end of the file) or ValueError (wrong `v2_version` — then `saveAtZ` does, too —, or a
tag beyond the 28-bit size field, which the current code handles) -/
theorem saveAt_rel_saveAtZ (d : Dialect) (f : Bytes) (rootSize : Nat) (c : Rec) (vmaj : Nat) (frames : Bytes) (pad : PadChoice) :
    (saveAt d f rootSize c vmaj frames pad = .error .notImplemented ∨ saveAt d f rootSize c vmaj frames pad = .error .value) ∨
      saveAt d f rootSize c vmaj frames pad = saveAtZ d f rootSize c vmaj frames pad.toZ := by
  unfold saveAt saveAtZ
  by_cases hv : vmaj ≠ 3 ∧ vmaj ≠ 4
  · right; rw [if_pos hv, if_pos hv]
  · rw [if_neg hv, if_neg hv]
    simp only []
    by_cases ht : ((f.length : Int) - ((c.offset + hs d : Nat) : Int) - (c.dataSize : Int)) < 0
    · left; left; rw [if_pos ht]
    · rw [if_neg ht]
      have hz : ((f.length : Int) - ((c.offset + hs d : Nat) : Int) - (c.dataSize : Int)) =
          ((((f.length : Int) - ((c.offset + hs d : Nat) : Int) - (c.dataSize : Int)).toNat : Nat) : Int) := by omega
      rw [show getPaddingZ pad.toZ ((c.dataSize : Int) - ((frames.length + 10 : Nat) : Int))
          ((f.length : Int) - ((c.offset + hs d : Nat) : Int) - (c.dataSize : Int)) =
          getPadding pad ((c.dataSize : Int) - ((frames.length + 10 : Nat) : Int))
            ((f.length : Int) - ((c.offset + hs d : Nat) : Int) - (c.dataSize : Int)).toNat by
        rw [← getPaddingZ_nat, ← hz]]
      generalize getPadding pad ((c.dataSize : Int) - ((frames.length + 10 : Nat) : Int))
        ((f.length : Int) - ((c.offset + hs d : Nat) : Int) - (c.dataSize : Int)).toNat = np
      unfold saveTail
      simp only []
      by_cases hneg : np < 0
      · right; rw [if_pos hneg, if_pos hneg]
      · rw [if_neg hneg, if_neg hneg]
        by_cases hfit : frames.length + np.toNat < 2 ^ 28
        · right
          have hb : ¬ (frames.length > 2 ^ 28 - 1) := by omega
          have hm : min np.toNat (2 ^ 28 - 1 - frames.length) = np.toNat := by omega
          rw [if_neg hb, hm]
        · left; right
          rw [header_too_wide vmaj _ (by omega)]

/-- two ways of finishing `save` that agree except where the first gives an answer in `X` give the same result
unless the result of the first is in `X` -/
theorem saveWith_congr (d : Dialect) (f : Bytes) (sa1 sa2 : Bytes → Nat → Rec → Except PyErr Bytes) (X : Except PyErr Bytes → Prop)
    (hx : ∀ f1 rs c, X (sa1 f1 rs c) ∨ sa1 f1 rs c = sa2 f1 rs c) :
    X (saveWith d f sa1) ∨ saveWith d f sa1 = saveWith d f sa2 := by
  unfold saveWith
  cases parseRoot d f with
  | error e => right; rfl
  | ok rs =>
    simp only []
    cases walk d f rs with
    | error e => right; rfl
    | ok recs =>
      simp only []
      cases find d.loadIds recs with
      | some c => exact hx _ _ _
      | none =>
        simp only []
        cases insertChunk d f rs recs with
        | error e => right; rfl
        | ok y =>
          obtain ⟨f1, rs1, recs1⟩ := y
          simp only []
          cases find [d.key] recs1 with
          | none => right; rfl
          | some c => exact hx _ _ _

/-- what `BitPaddedInt.to_str(n, width=4)` can raise: ValueError ("Value too wide") -/
theorem header_error (vmaj n : Nat) (e : PyErr) (h : Id3F.header vmaj n = .error e) : e = .value := by
  unfold Id3F.header at h
  split at h
  · cases h
  · rename_i e' he
    cases h
    unfold bpToStr at he
    have h0 : ¬ ((n : Int) < 0) := by omega
    rw [if_neg h0] at he
    simp only [] at he
    have h1 : ¬ ((4 : Int) = -1) := by decide
    have h2 : ¬ ((4 : Int) < 0) := by decide
    rw [if_neg h1, if_neg h2] at he
    split at he
    · rename_i e'' hle
      cases he
      split at hle
      · cases hle; rfl
      · cases hle
    · split at he
      · rename_i e'' hb
        cases he
        unfold digitsToBytes at hb
        split at hb
        · cases hb
        · cases hb; rfl
      · cases he

/-- without any assumption on the arguments: ValueError for a wrong `v2_version` is the only other class `saveAtZ` can end in -/
theorem saveAtZ_classes (d : Dialect) (f : Bytes) (rootSize : Nat) (c : Rec) (vmaj : Nat) (frames : Bytes) (pad : PadZ) (e : PyErr)
    (h : saveAtZ d f rootSize c vmaj frames pad = .error e) : e = .mutagen ∨ (e = .value ∧ vmaj ≠ 3 ∧ vmaj ≠ 4) := by
  by_cases hv : vmaj ≠ 3 ∧ vmaj ≠ 4
  · unfold saveAtZ at h
    rw [if_pos hv] at h
    cases h; exact Or.inr ⟨rfl, hv⟩
  · exact Or.inl (saveAtZ_clean d f rootSize c vmaj (by omega) frames pad e h)

end Mutagen.Iff
