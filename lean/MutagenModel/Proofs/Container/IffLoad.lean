/- Proofs/Container/IffLoad.lean — the load program of Model/Container/IffLoadM.lean: never writes, raises only MutagenError
under arbitrary faults and short reads, and is the pure `locate` on a quiet device -/
import MutagenModel.Model.Container.IffLoadM
import MutagenModel.Proofs.Container.IffCap
set_option linter.unusedVariables false
namespace Mutagen.Iff
open Mutagen

/-! ### programs that never change the bytes -/

/-- whatever the environment and the outcome, the bytes of the file are what they were -/
def Pres (m : FileM α) : Prop := ∀ e s r s', m e s = (r, s') → s'.data = s.data

theorem Pres.pure (a : α) : Pres (pure a : FileM α) := by
  intro e s r s' h; simp only [pure_run, Prod.mk.injEq] at h; rw [← h.2]
theorem Pres.raise (x : PyErr) : Pres (raise x : FileM α) := by
  intro e s r s' h; simp only [raise_run, Prod.mk.injEq] at h; rw [← h.2]
theorem Pres.bind {m : FileM α} {f : α → FileM β} (hm : Pres m) (hf : ∀ a, Pres (f a)) : Pres (m >>= f) := by
  intro e s r s' h
  simp only [bind_run] at h
  cases hms : m e s with
  | mk r1 s1 =>
    rw [hms] at h
    have d1 := hm e s r1 s1 hms
    cases r1 with
    | ok a => rw [hf a e s1 r s' h, d1]
    | error x => simp only [Prod.mk.injEq] at h; rw [← h.2, d1]
theorem Pres.ite {c : Prop} [Decidable c] {m n : FileM α} (hm : Pres m) (hn : Pres n) : Pres (if c then m else n) := by
  split <;> assumption
theorem Pres.tick (o : Op) : Pres (tick o) := by
  intro e s r s' h
  unfold Mutagen.tick at h
  split at h <;> (simp only [Prod.mk.injEq] at h; rw [← h.2])
theorem Pres.fseek (p : Nat) : Pres (fseek p) :=
  Pres.bind (Pres.tick _) fun _ => by intro e s r s' h; simp only [Prod.mk.injEq] at h; rw [← h.2]
theorem Pres.fseekEnd : Pres fseekEnd :=
  Pres.bind (Pres.tick _) fun _ => by intro e s r s' h; simp only [Prod.mk.injEq] at h; rw [← h.2]
theorem Pres.ftell : Pres ftell :=
  Pres.bind (Pres.tick _) fun _ => by intro e s r s' h; simp only [Prod.mk.injEq] at h; rw [← h.2]
theorem Pres.fread (n : Nat) : Pres (fread n) := by
  intro e s r s' h
  unfold Mutagen.fread at h
  cases ht : Mutagen.tick (.read n) e s with
  | mk r1 s1 =>
    have d1 := Pres.tick _ e s r1 s1 ht
    rw [ht] at h
    cases r1 with
    | ok u => simp only [Prod.mk.injEq] at h; rw [← h.2]; exact d1
    | error x => simp only [Prod.mk.injEq] at h; rw [← h.2]; exact d1
theorem Pres.tryCatch {body : FileM α} {pred : PyErr → Bool} {handler : PyErr → FileM α} (hb : Pres body) (hh : ∀ x, Pres (handler x)) :
    Pres (tryCatch body pred handler) := by
  intro e s r s' h
  unfold Mutagen.tryCatch at h
  cases hbs : body e s with
  | mk r1 s1 =>
    rw [hbs] at h
    have d1 := hb e s r1 s1 hbs
    cases r1 with
    | ok a => simp only [Prod.mk.injEq] at h; rw [← h.2, d1]
    | error x =>
      simp only at h
      split at h
      · rw [hh x e s1 r s' h, d1]
      · simp only [Prod.mk.injEq] at h; rw [← h.2, d1]
theorem Pres.convertError {m : FileM α} (src : PyErr → Bool) (dst : PyErr) (hm : Pres m) : Pres (convertError src dst m) := by
  intro e s r s' h
  unfold Mutagen.convertError at h
  cases hms : m e s with
  | mk r1 s1 =>
    rw [hms] at h
    have d1 := hm e s r1 s1 hms
    cases r1 with
    | ok a => simp only [Prod.mk.injEq] at h; rw [← h.2, d1]
    | error x =>
      simp only at h
      split at h <;> (simp only [Prod.mk.injEq] at h; rw [← h.2, d1])

theorem pres_parseChunkM (d : Dialect) : Pres (parseChunkM d) := by
  unfold parseChunkM
  refine Pres.bind (Pres.fread _) fun h => Pres.ite (Pres.pure _) ?_
  split
  · exact Pres.pure _
  · refine Pres.bind Pres.ftell fun off => ?_
    split
    · exact Pres.pure _
    · exact Pres.ite (Pres.pure _) (Pres.ite (Pres.bind (Pres.fread _) fun _ => Pres.ite (Pres.pure _) (Pres.raise _)) (Pres.pure _))

theorem pres_rootParseM (d : Dialect) : Pres (rootParseM d) := by
  unfold rootParseM
  refine Pres.bind (Pres.fseek 0) fun _ => Pres.bind (pres_parseChunkM d) fun r => ?_
  split
  · exact Pres.raise _
  · refine Pres.ite (Pres.raise _) ?_
    split
    · exact Pres.pure _
    · exact Pres.ite (Pres.raise _) (Pres.pure _)

theorem pres_walkLoopM (d : Dialect) (endOff fuel next : Nat) : Pres (walkLoopM d endOff fuel next) := by
  induction fuel generalizing next with
  | zero => unfold walkLoopM; exact Pres.ite (Pres.raise _) (Pres.pure _)
  | succ k ih =>
    unfold walkLoopM
    refine Pres.ite (Pres.bind (Pres.fseek _) fun _ => Pres.bind (pres_parseChunkM d) fun r => ?_) (Pres.pure _)
    split
    · exact Pres.pure _
    · exact Pres.bind (ih _) fun _ => Pres.pure _

theorem pres_subchunksWalkM (d : Dialect) (rs : Nat) : Pres (subchunksWalkM d rs) := by
  unfold subchunksWalkM
  exact Pres.bind Pres.fseekEnd fun _ => Pres.bind Pres.ftell fun _ => pres_walkLoopM d _ _ _

theorem pres_locateM (d : Dialect) : Pres (locateM d) := by
  unfold locateM
  exact Pres.bind (pres_rootParseM d) fun _ => Pres.bind (pres_subchunksWalkM d _) fun _ =>
    Pres.ite (Pres.bind (pres_subchunksWalkM d _) fun _ => Pres.pure _) (Pres.pure _)

theorem pres_loadM (d : Dialect) : Pres (loadM d) := by
  unfold loadM verifyReadM preLoadHeaderM
  refine Pres.bind (Pres.tryCatch (Pres.bind (Pres.fread 0) fun _ => Pres.pure _) fun _ => Pres.raise _) fun _ =>
    Pres.bind (pres_locateM d) fun r => ?_
  split
  · exact Pres.raise _
  · exact Pres.bind (Pres.fseek _) fun _ => Pres.pure _

theorem pres_loadEntry (d : Dialect) : Pres (loadEntry d) := Pres.convertError _ _ (pres_loadM d)

/-! ### arbitrary faults and short reads: what can be raised -/

/-- the module's `error`, or an exception the environment injected -/
def LoadErr (e : Env) (x : PyErr) : Prop := x = .mutagen ∨ Injected e x

theorem fread_ok_pos (n : Nat) (e : Env) (s s1 : FS) (b : Bytes) (h : fread n e s = (.ok b, s1)) :
    s1.pos = s.pos + b.length ∧ b.length ≤ n := by
  unfold fread Mutagen.tick at h
  cases hfa : e.failAt s.ops with
  | some x => simp [hfa] at h
  | none =>
    simp only [hfa, Prod.mk.injEq, Except.ok.injEq] at h
    obtain ⟨h1, h2⟩ := h
    subst h1; subst h2
    refine ⟨rfl, ?_⟩
    simp only [readAt, List.length_take, Nat.min_def]
    repeat' split
    all_goals omega

theorem ftell_ok (e : Env) (s s1 : FS) (p : Nat) (h : ftell e s = (.ok p, s1)) : p = s.pos ∧ s1.pos = s.pos := by
  unfold ftell Mutagen.tick at h
  simp only [bind_run] at h
  cases hfa : e.failAt s.ops with
  | some x => simp [hfa] at h
  | none =>
    simp only [hfa, Prod.mk.injEq, Except.ok.injEq] at h
    obtain ⟨h1, h2⟩ := h
    subst h1; subst h2
    exact ⟨rfl, rfl⟩

theorem fseek_ok (p : Nat) (e : Env) (s s1 : FS) (h : fseek p e s = (.ok (), s1)) : s1.pos = p := by
  unfold fseek Mutagen.tick at h
  simp only [bind_run] at h
  cases hfa : e.failAt s.ops with
  | some x => simp [hfa] at h
  | none =>
    simp only [hfa, Prod.mk.injEq] at h
    rw [← h.2]

/-- the chunk `parse` returns starts where the file position was: `offset = tell() - HEADER_SIZE` after a complete header read -/
theorem parseChunkM_offset (d : Dialect) (e : Env) (s s' : FS) (r : Rec) (nm : Bytes)
    (h : parseChunkM d e s = (.ok (some (r, nm)), s')) : r.offset = s.pos := by
  unfold parseChunkM at h
  simp only [bind_run] at h
  cases hf : fread (hs d) e s with
  | mk r1 s1 =>
    rw [hf] at h
    cases r1 with
    | error x => cases h
    | ok hdr =>
      obtain ⟨hp1, hle⟩ := fread_ok_pos _ _ _ _ _ hf
      simp only at h
      by_cases hlen : hdr.length < hs d
      · rw [if_pos hlen] at h; simp at h
      · rw [if_neg hlen] at h
        cases hc : chunkId (hdr.take 4) with
        | none => rw [hc] at h; simp at h
        | some id =>
          rw [hc] at h
          simp only [bind_run] at h
          cases ht : ftell e s1 with
          | mk r2 s2 =>
            rw [ht] at h
            cases r2 with
            | error x => cases h
            | ok p =>
              obtain ⟨hp2, _⟩ := ftell_ok _ _ _ _ ht
              have hoff : p - hs d = s.pos := by rw [hp2, hp1]; omega
              simp only at h
              cases hl : d.containers.lookup id with
              | none =>
                rw [hl] at h
                simp only [pure_run, Prod.mk.injEq, Except.ok.injEq, Option.some.injEq] at h
                rw [← h.1.1]; exact hoff
              | some ns =>
                rw [hl] at h
                simp only at h
                split at h
                · simp at h
                · split at h
                  · simp only [bind_run] at h
                    cases hn : fread ns e s2 with
                    | mk r3 s3 =>
                      rw [hn] at h
                      cases r3 with
                      | error x => cases h
                      | ok name =>
                        simp only at h
                        split at h
                        · simp only [pure_run, Prod.mk.injEq, Except.ok.injEq, Option.some.injEq] at h
                          rw [← h.1.1]; exact hoff
                        · simp at h
                  · simp only [pure_run, Prod.mk.injEq, Except.ok.injEq, Option.some.injEq] at h
                    rw [← h.1.1]; exact hoff

theorem raises_parseChunkM (d : Dialect) : Raises LoadErr (parseChunkM d) := by
  have inj : ∀ e x, Injected e x → LoadErr e x := fun _ _ h => Or.inr h
  unfold parseChunkM
  refine Raises.bind ((Raises.fread _).weaken inj) fun h => Raises.ite (Raises.pure _ _) ?_
  split
  · exact Raises.pure _ _
  · refine Raises.bind (Raises.ftell.weaken inj) fun off => ?_
    split
    · exact Raises.pure _ _
    · exact Raises.ite (Raises.pure _ _) (Raises.ite (Raises.bind ((Raises.fread _).weaken inj) fun _ =>
        Raises.ite (Raises.pure _ _) (Raises.raise _ fun _ => Or.inl rfl)) (Raises.pure _ _))

theorem raises_rootParseM (d : Dialect) : Raises LoadErr (rootParseM d) := by
  unfold rootParseM
  refine Raises.bind ((Raises.fseek 0).weaken fun _ _ h => Or.inr h) fun _ => Raises.bind (raises_parseChunkM d) fun r => ?_
  split
  · exact Raises.raise _ fun _ => Or.inl rfl
  · refine Raises.ite (Raises.raise _ fun _ => Or.inl rfl) ?_
    split
    · exact Raises.pure _ _
    · exact Raises.ite (Raises.raise _ fun _ => Or.inl rfl) (Raises.pure _ _)

/-- the loop of `subchunks()` ends: every round starts behind the previous one, so the fuel (the distance to the end)
is never used up — under every fault environment -/
theorem raises_walkLoopM (d : Dialect) (endOff fuel next : Nat) (hfuel : endOff - next ≤ fuel) :
    Raises LoadErr (walkLoopM d endOff fuel next) := by
  induction fuel generalizing next with
  | zero =>
    unfold walkLoopM
    have : ¬ (next < endOff) := by omega
    rw [if_neg this]; exact Raises.pure _ _
  | succ k ih =>
    intro e s err s' h
    unfold walkLoopM at h
    split at h
    · rename_i hlt
      simp only [bind_run] at h
      cases hs1 : fseek next e s with
      | mk r1 s1 =>
        rw [hs1] at h
        cases r1 with
        | error x =>
          simp only [Prod.mk.injEq, Except.error.injEq] at h
          exact h.1 ▸ Or.inr (Raises.fseek next e s x s1 hs1)
        | ok u =>
          have hpos := fseek_ok next e s s1 hs1
          simp only at h
          cases hp : parseChunkM d e s1 with
          | mk r2 s2 =>
            rw [hp] at h
            cases r2 with
            | error x =>
              simp only [Prod.mk.injEq, Except.error.injEq] at h
              exact h.1 ▸ raises_parseChunkM d e s1 x s2 hp
            | ok res =>
              cases res with
              | none => simp at h
              | some rn =>
                obtain ⟨r, nm⟩ := rn
                have hoff := parseChunkM_offset d e s1 s2 r nm hp
                simp only [bind_run] at h
                cases hw : walkLoopM d endOff k (r.offset + r.size d) e s2 with
                | mk r3 s3 =>
                  rw [hw] at h
                  cases r3 with
                  | error x =>
                    simp only [Prod.mk.injEq, Except.error.injEq] at h
                    refine h.1 ▸ ih (r.offset + r.size d) ?_ e s2 x s3 hw
                    rw [hoff, hpos]; simp only [Rec.size, hs]; omega
                  | ok l => simp at h
    · simp at h

theorem raises_subchunksWalkM (d : Dialect) (rs : Nat) : Raises LoadErr (subchunksWalkM d rs) := by
  unfold subchunksWalkM
  refine Raises.bind (Raises.fseekEnd.weaken fun _ _ h => Or.inr h) fun _ => Raises.bind (Raises.ftell.weaken fun _ _ h => Or.inr h) fun size => ?_
  exact raises_walkLoopM d _ _ _ (by simp only [hs, nameSize]; omega)

theorem raises_locateM (d : Dialect) : Raises LoadErr (locateM d) := by
  unfold locateM
  exact Raises.bind (raises_rootParseM d) fun _ => Raises.bind (raises_subchunksWalkM d _) fun _ =>
    Raises.ite (Raises.bind (raises_subchunksWalkM d _) fun _ => Raises.pure _ _) (Raises.pure _ _)

/-- `loadM`: the module's `error`, ValueError (from `verify_fileobj` only), or an injected exception -/
theorem raises_loadM (d : Dialect) : Raises (fun e x => x = .value ∨ LoadErr e x) (loadM d) := by
  unfold loadM verifyReadM preLoadHeaderM
  refine Raises.bind (Raises.tryCatch (Raises.bind ((Raises.fread 0).weaken fun _ _ h => Or.inr (Or.inr h)) fun _ => Raises.pure _ _) ?_) fun _ =>
    Raises.bind ((raises_locateM d).weaken fun _ _ h => Or.inr h) fun r => ?_
  · intro e x _ _ s err s' h
    simp only [raise_run, Prod.mk.injEq, Except.error.injEq] at h
    exact h.1 ▸ Or.inl rfl
  · split
    · exact Raises.raise _ fun _ => Or.inr (Or.inl rfl)
    · exact Raises.bind ((Raises.fseek _).weaken fun _ _ h => Or.inr (Or.inr h)) fun _ => Raises.pure _ _


/-! ### without faults: the pure model -/

/-- the container name `parse` read for the chunk (nothing for a plain chunk or `name_size = 0`) -/
def chunkName (d : Dialect) (f : Bytes) (r : Rec) : Bytes :=
  match d.containers.lookup r.id with
  | some ns => if ns > 0 then readAt f (r.offset + hs d) ns else []
  | none => []

/-- the result of `parseChunkM` that corresponds to a result of the pure `parseAt` -/
def liftParse (d : Dialect) (f : Bytes) : Except PyErr (Option Rec) → Except PyErr (Option (Rec × Bytes))
  | .ok none => .ok none
  | .ok (some r) => .ok (some (r, chunkName d f r))
  | .error x => .error x

theorem parseChunkM_q {e : Env} (hq : Quiet e) (d : Dialect) (s : FS) :
    ∃ s', s'.data = s.data ∧ parseChunkM d e s = (liftParse d s.data (parseAt d s.data s.pos), s') := by
  unfold parseChunkM parseAt
  simp only [bind_run, fread_q hq]
  by_cases hlen : (readAt s.data s.pos (hs d)).length < hs d
  · simp only [if_pos hlen, pure_run, liftParse]
    (refine ⟨_, ?_, rfl⟩; rfl)
  · have hl : (readAt s.data s.pos (hs d)).length = hs d := by
      have : (readAt s.data s.pos (hs d)).length ≤ hs d := by simp [readAt, List.length_take]; omega
      omega
    simp only [if_neg hlen]
    cases hc : chunkId ((readAt s.data s.pos (hs d)).take 4) with
    | none => simp only [pure_run, liftParse]; (refine ⟨_, ?_, rfl⟩; rfl)
    | some id =>
      simp only [bind_run, ftell_q hq, hl, Nat.add_sub_cancel]
      cases hk : d.containers.lookup id with
      | none =>
        simp only [pure_run, liftParse, chunkName, hk]
        (refine ⟨_, ?_, rfl⟩; rfl)
      | some ns =>
        simp only
        by_cases hn : dec d ((readAt s.data s.pos (hs d)).drop 4) < ns
        · simp only [if_pos hn, pure_run, liftParse]; (refine ⟨_, ?_, rfl⟩; rfl)
        · simp only [if_neg hn]
          by_cases hns : ns > 0
          · simp only [if_pos hns, bind_run, fread_q hq]
            by_cases hasc : (readAt s.data (s.pos + hs d) ns).all (fun b => decide (b.toNat < 128)) = true
            · simp only [hasc, ↓reduceIte, pure_run, liftParse, chunkName, hk, hns]
              (refine ⟨_, ?_, rfl⟩; rfl)
            · simp only [hasc, Bool.false_eq_true, ↓reduceIte, raise_run, liftParse]
              (refine ⟨_, ?_, rfl⟩; rfl)
          · have h0 : ns = 0 := by omega
            subst h0
            simp only [if_neg hns, pure_run, readAt, List.take_zero, List.all_nil, ↓reduceIte, liftParse, chunkName, hk]
            (refine ⟨_, ?_, rfl⟩; rfl)

theorem rootParseM_q {e : Env} (hq : Quiet e) (d : Dialect) (hd : d.WF) (s : FS) :
    ∃ s', s'.data = s.data ∧ rootParseM d e s = (parseRoot d s.data, s') := by
  unfold rootParseM parseRoot
  simp only [bind_run, fseek_q hq]
  obtain ⟨s1, d1, h1⟩ := parseChunkM_q hq d { data := s.data, pos := 0, ops := s.ops + 1, log := .seek 0 :: s.log }
  simp only [] at d1 h1
  rw [h1]
  cases hp : parseAt d s.data 0 with
  | error x => simp only [liftParse]; exact ⟨_, d1, rfl⟩
  | ok o =>
    cases o with
    | none => simp only [liftParse, raise_run]; exact ⟨_, d1, rfl⟩
    | some r =>
      simp only [liftParse]
      by_cases hid : r.id ≠ d.rootId
      · simp only [if_pos hid, raise_run]; exact ⟨_, d1, rfl⟩
      · simp only [if_neg hid]
        have hid' : r.id = d.rootId := by simpa using hid
        have hoff : r.offset = 0 := by
          have := parseAt_offset d s.data 0 r hp; exact this
        cases hft : d.formType with
        | none => simp only [pure_run]; exact ⟨_, d1, rfl⟩
        | some t =>
          have hname : chunkName d s.data r = readAt s.data (hs d) nameSize := by
            simp [chunkName, hid', hd.2.2.1, hoff, nameSize]
          simp only [hname]
          by_cases hne : readAt s.data (hs d) nameSize ≠ t
          · simp only [if_pos hne, raise_run]; exact ⟨_, d1, rfl⟩
          · simp only [if_neg hne, pure_run]; exact ⟨_, d1, rfl⟩

theorem walkLoopM_q {e : Env} (hq : Quiet e) (d : Dialect) (endOff fuel next : Nat) (s : FS) :
    ∃ s', s'.data = s.data ∧ walkLoopM d endOff fuel next e s = (walkFrom d s.data endOff fuel next, s') := by
  induction fuel generalizing next s with
  | zero =>
    unfold walkLoopM walkFrom
    split
    · (refine ⟨_, ?_, rfl⟩; rfl)
    · (refine ⟨_, ?_, rfl⟩; rfl)
  | succ k ih =>
    unfold walkLoopM walkFrom
    split
    · simp only [bind_run, fseek_q hq]
      obtain ⟨s1, d1, h1⟩ := parseChunkM_q hq d { data := s.data, pos := next, ops := s.ops + 1, log := .seek next :: s.log }
      simp only [] at d1 h1
      rw [h1]
      cases hp : parseAt d s.data next with
      | error x => simp only [liftParse]; exact ⟨_, d1, rfl⟩
      | ok o =>
        cases o with
        | none => simp only [liftParse, pure_run]; exact ⟨_, d1, rfl⟩
        | some r =>
          simp only [liftParse, bind_run]
          obtain ⟨s2, d2, h2⟩ := ih (r.offset + r.size d) s1
          rw [h2, d1]
          cases walkFrom d s.data endOff k (r.offset + r.size d) with
          | error x => exact ⟨_, by rw [d2, d1], rfl⟩
          | ok l => simp only [pure_run]; exact ⟨_, by rw [d2, d1], rfl⟩
    · (refine ⟨_, ?_, rfl⟩; rfl)

theorem subchunksWalkM_q {e : Env} (hq : Quiet e) (d : Dialect) (rs : Nat) (s : FS) :
    ∃ s', s'.data = s.data ∧ subchunksWalkM d rs e s = (walk d s.data rs, s') := by
  unfold subchunksWalkM walk actual
  simp only [bind_run, fseekEnd_q hq, ftell_q hq]
  exact walkLoopM_q hq d _ _ _ { data := s.data, pos := s.data.length, ops := s.ops + 1 + 1, log := .tell :: .seekEnd :: s.log }

/-- without faults `locateM` computes the pure `locate` of the bytes, for every byte string -/
theorem locateM_q {e : Env} (hq : Quiet e) (d : Dialect) (hd : d.WF) (s : FS) :
    ∃ s', s'.data = s.data ∧ locateM d e s = (locate d s.data, s') := by
  unfold locateM locate
  obtain ⟨s1, d1, h1⟩ := rootParseM_q hq d hd s
  simp only [bind_run, h1]
  cases hr : parseRoot d s.data with
  | error x => exact ⟨_, d1, rfl⟩
  | ok rs =>
    simp only
    obtain ⟨s2, d2, h2⟩ := subchunksWalkM_q hq d rs s1
    rw [h2, d1]
    cases hw : walk d s.data rs with
    | error x => exact ⟨_, by rw [d2, d1], rfl⟩
    | ok l1 =>
      simp only
      by_cases hc : l1.isEmpty = true ∧ d.loadIds.length > 1
      · rw [if_pos hc]
        obtain ⟨s3, d3, h3⟩ := subchunksWalkM_q hq d rs s2
        simp only [bind_run, h3, d2, d1, hw, pure_run]
        have : l1 = [] := by simpa using hc.1
        subst this
        exact ⟨_, by rw [d3, d2, d1], by simp [find]⟩
      · rw [if_neg hc]
        simp only [pure_run]
        exact ⟨_, by rw [d2, d1], rfl⟩


/-- what the tag class constructor does with the bytes up to the ID3 header, as a pure function: the offset of the ID3
data, or MutagenError (no ID3 chunk: ID3NoHeaderError; a file that is not of the type: `error`) -/
def loadPure (d : Dialect) (f : Bytes) : Except PyErr Nat :=
  match locate d f with
  | .error x => .error x
  | .ok none => .error .mutagen
  | .ok (some c) => .ok (c.offset + hs d)

theorem loadM_q {e : Env} (hq : Quiet e) (d : Dialect) (hd : d.WF) (s : FS) :
    ∃ s', s'.data = s.data ∧ loadM d e s = (loadPure d s.data, s') := by
  unfold loadM verifyReadM preLoadHeaderM loadPure
  have h1 : (do let _ ← fread 0; Pure.pure () : FileM Unit) e s =
      (.ok (), { data := s.data, pos := s.pos + (readAt s.data s.pos 0).length, ops := s.ops + 1, log := .read 0 :: s.log }) := by
    simp only [bind_run, fread_q hq, pure_run]
  simp only [bind_run, tryCatch_ok _ _ _ e s _ () h1]
  obtain ⟨s2, d2, h2⟩ := locateM_q hq d hd { data := s.data, pos := s.pos + (readAt s.data s.pos 0).length, ops := s.ops + 1, log := .read 0 :: s.log }
  simp only [] at d2 h2
  rw [h2]
  cases locate d s.data with
  | error x => exact ⟨_, d2, rfl⟩
  | ok o =>
    cases o with
    | none => simp only [raise_run]; exact ⟨_, d2, rfl⟩
    | some c => simp only [bind_run, fseek_q hq, pure_run]; (refine ⟨_, ?_, rfl⟩; exact d2)

/-- a header read that comes back short — by whatever amount, at whichever chunk — is taken for the end of the chunk list
(EmptyChunk): no exception, the walk ends -/
theorem parseChunkM_short (d : Dialect) (e : Env) (s : FS) (k : Nat) (hf : e.failAt s.ops = none) (hk : e.shortAt s.ops = some k)
    (hlt : k < hs d) : ∃ s', parseChunkM d e s = (.ok none, s') := by
  unfold parseChunkM
  have hr : ∃ b s1, fread (hs d) e s = (.ok b, s1) ∧ b.length < hs d := by
    have hrun : fread (hs d) e s = (.ok (readAt s.data s.pos (min k (hs d))),
        { data := s.data, pos := s.pos + (readAt s.data s.pos (min k (hs d))).length, ops := s.ops + 1, log := .read (hs d) :: s.log }) := by
      unfold fread Mutagen.tick
      simp only [hf, hk]
    refine ⟨_, _, hrun, ?_⟩
    simp only [readAt, List.length_take, Nat.min_def]
    repeat' split
    all_goals omega
  obtain ⟨b, s1, h1, h2⟩ := hr
  simp only [bind_run, h1, if_pos h2, pure_run]
  exact ⟨_, rfl⟩

end Mutagen.Iff
