/- Proofs/Container/ApeFile.lean — save/delete of APEv2-tagged files on well-formed layouts -/
import MutagenModel.Model.Container.ApeFile
import MutagenModel.Proofs.Ape
set_option linter.unusedVariables false
namespace Mutagen.ApeF
open Mutagen

theorem readAt_append_right (a b : Bytes) (k n : Nat) : readAt (a ++ b) (a.length + k) n = readAt b k n := by
  unfold readAt
  rw [List.drop_append]
  have : a.drop (a.length + k) = [] := List.drop_eq_nil_of_le (by omega)
  rw [this, List.nil_append, show a.length + k - a.length = k by omega]

theorem readAt_left (a b : Bytes) (n : Nat) (h : n ≤ a.length) : readAt (a ++ b) 0 n = a.take n := by
  unfold readAt
  simp only [List.drop_zero]
  rw [List.take_append_of_le_length h]

/-- the 32-byte footer the writer produces, as `locate` reads it -/
theorem footer_fields (size count : Nat) (hs : size < 256 ^ 4) :
    let F := Ape.headerOrFooter size count Ape.hasHeader
    readAt F 0 8 = apeMagic ∧ (readAt F 8 16).length = 16 ∧
      ofLE (((readAt F 8 16).drop 4).take 4) = size ∧ ofLE ((readAt F 8 16).drop 12) = Ape.hasHeader := by
  obtain ⟨a1, a2, a3, a4, h1⟩ := Ape.toLE4 2000
  obtain ⟨b1, b2, b3, b4, h2⟩ := Ape.toLE4 size
  obtain ⟨c1, c2, c3, c4, h3⟩ := Ape.toLE4 count
  obtain ⟨d1, d2, d3, d4, h4⟩ := Ape.toLE4 Ape.hasHeader
  have e2 := ofLE_toLE 4 size hs
  have e4 := ofLE_toLE 4 Ape.hasHeader (by decide)
  rw [h2] at e2; rw [h4] at e4
  simp only [Ape.headerOrFooter, Ape.preamble, h1, h2, h3, h4, apeMagic, readAt, zeros]
  refine ⟨rfl, rfl, ?_, ?_⟩
  · exact e2
  · exact e4

/-- the audio in front of the tag does not end in something `__fix_brokenness` would take for a
left-over header: 24 bytes before the tag there is no "APETAGEX" (vacuous for an empty audio part) -/
def AudioOK (audio tag : Bytes) : Prop := audio = [] ∨ isApeAt (audio ++ tag) (audio.length - 24) = false

theorem fixBroken_stays (f : Bytes) (start : Nat) (h : start = 0 ∨ isApeAt f (start - 24) = false) (fuel : Nat) :
    fixBroken f fuel start = start := by
  cases fuel with
  | zero => rfl
  | succ n =>
    unfold fixBroken
    rcases h with h | h
    · simp [h]
    · by_cases h0 : start = 0
      · simp [h0]
      · by_cases h24 : start < 24
        · simp [h0, h24]
        · simp [h0, h24, h]

/-- `_APEv2Data` on `audio ++ tag` where `tag` is what `APEv2.save` writes: the tag is found by its
footer, starts where the audio ends and ends with the file -/
theorem locate_tag (audio : Bytes) (items : List Ape.Item) (hs : ((items.map Ape.encodeItem).flatten).length + 32 < 256 ^ 4)
    (ha : AudioOK audio (Ape.encodeTag items)) :
    locate (audio ++ Ape.encodeTag items) =
      .ok (some { start := audio.length, endd := (audio ++ Ape.encodeTag items).length, isAtStart := false }) := by
  simp only [Ape.encodeTag] at ha ⊢
  generalize hB : (items.map Ape.encodeItem).flatten = body at hs ha ⊢
  generalize hH : Ape.headerOrFooter (body.length + 32) items.length (Ape.hasHeader + Ape.isHeader) = H at ha ⊢
  have lH : H.length = 32 := by rw [← hH]; exact Ape.hf_length _ _ _
  obtain ⟨f1, f2, f3, f4⟩ := footer_fields (body.length + 32) items.length hs
  generalize hF : Ape.headerOrFooter (body.length + 32) items.length Ape.hasHeader = F at f1 f2 f3 f4 ha ⊢
  have lF : F.length = 32 := by rw [← hF]; exact Ape.hf_length _ _ _
  -- the file as prefix ++ footer
  have hsplit : audio ++ (H ++ body ++ F) = (audio ++ H ++ body) ++ F := by simp [List.append_assoc]
  have hlen : (audio ++ (H ++ body ++ F)).length = (audio ++ H ++ body).length + 32 := by
    rw [hsplit, List.length_append, lF]
  have hP : (audio ++ H ++ body).length = audio.length + 32 + body.length := by simp [lH]; omega
  unfold locate findMetadata
  simp only []
  rw [if_neg (by rw [hlen]; omega)]
  have hp1 : (audio ++ (H ++ body ++ F)).length - 32 = (audio ++ H ++ body).length + 0 := by rw [hlen]; omega
  have hape : isApeAt (audio ++ (H ++ body ++ F)) ((audio ++ (H ++ body ++ F)).length - 32) = true := by
    unfold isApeAt
    rw [hp1, hsplit, readAt_append_right, f1]; simp
  rw [if_pos hape]
  simp only []
  have hd : readAt (audio ++ (H ++ body ++ F)) ((audio ++ (H ++ body ++ F)).length - 32 + 8) 16 = readAt F 8 16 := by
    rw [hlen, show (audio ++ H ++ body).length + 32 - 32 + 8 = (audio ++ H ++ body).length + 8 by omega, hsplit,
      readAt_append_right]
  rw [hd]
  have c1 : ¬ ((readAt F 8 16).length ≠ 16) := by omega
  rw [if_neg c1, f3, f4]
  have hend : (audio ++ (H ++ body ++ F)).length - 32 + 32 = (audio ++ (H ++ body ++ F)).length := by rw [hlen]; omega
  rw [hend]
  have c2 : ¬ ((audio ++ (H ++ body ++ F)).length < body.length + 32) := by rw [hlen, hP]; omega
  rw [if_neg c2]
  have hdata : (audio ++ (H ++ body ++ F)).length - (body.length + 32) = audio.length + 32 := by rw [hlen, hP]; omega
  have hflag : Ape.hasHeader / hasHeaderFlag % 2 = 1 := by decide
  have c3 : ¬ (Ape.hasHeader / hasHeaderFlag % 2 = 1 ∧ (audio ++ (H ++ body ++ F)).length - (body.length + 32) < 32) := by
    rw [hdata]; omega
  rw [if_neg c3]
  have c3' : ¬ (body.length + 32 < 32) := by omega
  rw [if_neg c3']
  simp only [hflag, ↓reduceIte, hdata, Nat.add_sub_cancel]
  have hfix : fixBroken (audio ++ (H ++ body ++ F)) audio.length audio.length = audio.length := by
    apply fixBroken_stays
    rcases ha with ha | ha
    · left; simp [ha]
    · right; exact ha
  rw [hfix]

/-- THE theorems for the APEv2 family: saving over an existing tag leaves exactly the audio followed
by the new tag; deleting leaves exactly the audio -/
theorem save_over_tag (audio : Bytes) (items : List Ape.Item) (newTag : Bytes)
    (hs : ((items.map Ape.encodeItem).flatten).length + 32 < 256 ^ 4) (ha : AudioOK audio (Ape.encodeTag items)) :
    save (audio ++ Ape.encodeTag items) newTag = .ok (audio ++ newTag) := by
  unfold save
  rw [locate_tag audio items hs ha]
  simp only [Bool.false_eq_true, ↓reduceIte, List.take_left' rfl]

theorem delete_tag (audio : Bytes) (items : List Ape.Item)
    (hs : ((items.map Ape.encodeItem).flatten).length + 32 < 256 ^ 4) (ha : AudioOK audio (Ape.encodeTag items)) :
    delete (audio ++ Ape.encodeTag items) = .ok audio := by
  unfold delete
  rw [locate_tag audio items hs ha]
  have : ¬ ((audio ++ Ape.encodeTag items).length > (audio ++ Ape.encodeTag items).length ∨
      (audio ++ Ape.encodeTag items).length < audio.length) := by simp
  simp only [this, ↓reduceIte, List.take_left' rfl, List.drop_length, List.append_nil]

/-- a file in which `_APEv2Data` finds nothing gets the tag appended, byte for byte; deleting changes nothing -/
theorem save_untagged (f newTag : Bytes) (h : locate f = .ok none) : save f newTag = .ok (f ++ newTag) := by
  unfold save; rw [h]

theorem delete_untagged (f : Bytes) (h : locate f = .ok none) : delete f = .ok f := by
  unfold delete; rw [h]

/-! ### the same with an ID3v1 block behind the tag -/

/-- an ID3v1 block as `__find_metadata` needs it: 128 bytes starting with "TAG", whose last 32 bytes
do not start with "APETAGEX" -/
def V1OK (v1 : Bytes) : Prop := v1.length = 128 ∧ v1.take 3 = tagMagic ∧ isApeAt v1 96 = false

theorem locate_tag_v1 (audio v1 : Bytes) (items : List Ape.Item)
    (hs : ((items.map Ape.encodeItem).flatten).length + 32 < 256 ^ 4)
    (ha : audio = [] ∨ isApeAt (audio ++ Ape.encodeTag items ++ v1) (audio.length - 24) = false) (hv : V1OK v1) :
    locate (audio ++ Ape.encodeTag items ++ v1) =
      .ok (some { start := audio.length, endd := (audio ++ Ape.encodeTag items).length, isAtStart := false }) := by
  obtain ⟨lv, tv, av⟩ := hv
  simp only [Ape.encodeTag] at ha ⊢
  generalize hB : (items.map Ape.encodeItem).flatten = body at hs ha ⊢
  generalize hH : Ape.headerOrFooter (body.length + 32) items.length (Ape.hasHeader + Ape.isHeader) = H at ha ⊢
  have lH : H.length = 32 := by rw [← hH]; exact Ape.hf_length _ _ _
  obtain ⟨f1, f2, f3, f4⟩ := footer_fields (body.length + 32) items.length hs
  generalize hF : Ape.headerOrFooter (body.length + 32) items.length Ape.hasHeader = F at f1 f2 f3 f4 ha ⊢
  have lF : F.length = 32 := by rw [← hF]; exact Ape.hf_length _ _ _
  -- P = everything before the footer
  generalize hPdef : audio ++ H ++ body = P
  have hP : P.length = audio.length + 32 + body.length := by rw [← hPdef]; simp [lH]; omega
  have hfile : audio ++ (H ++ body ++ F) ++ v1 = (P ++ F) ++ v1 := by rw [← hPdef]; simp [List.append_assoc]
  have hfile2 : audio ++ (H ++ body ++ F) = P ++ F := by rw [← hPdef]; simp [List.append_assoc]
  rw [hfile] at ha ⊢
  rw [hfile2]
  have hn : ((P ++ F) ++ v1).length = P.length + 160 := by simp [lF, lv]
  unfold locate findMetadata
  simp only []
  rw [if_neg (by rw [hn]; omega)]
  -- no footer in the last 32 bytes (they belong to the ID3v1 block)
  have hnot : isApeAt ((P ++ F) ++ v1) (((P ++ F) ++ v1).length - 32) = false := by
    have : ((P ++ F) ++ v1).length - 32 = (P ++ F).length + 96 := by simp [lF, lv]
    unfold isApeAt at av ⊢
    rw [this, readAt_append_right]; exact av
  rw [if_neg (by rw [hnot]; simp)]
  have c1 : ¬ (((P ++ F) ++ v1).length < 128) := by rw [hn]; omega
  rw [if_neg c1]
  have htag : readAt ((P ++ F) ++ v1) (((P ++ F) ++ v1).length - 128) 3 = tagMagic := by
    have : ((P ++ F) ++ v1).length - 128 = (P ++ F).length + 0 := by simp [lF, lv]
    rw [this, readAt_append_right]
    unfold readAt; simpa using tv
  rw [if_neg (by rw [htag]; simp)]
  rw [if_neg (by rw [hn]; omega)]
  have hp2 : ((P ++ F) ++ v1).length - 125 - 35 = P.length + 0 := by rw [hn]; omega
  have hape : isApeAt ((P ++ F) ++ v1) (((P ++ F) ++ v1).length - 125 - 35) = true := by
    unfold isApeAt
    rw [hp2, List.append_assoc, readAt_append_right]
    have : readAt (F ++ v1) 0 8 = readAt F 0 8 := by
      unfold readAt; simp only [List.drop_zero]; rw [List.take_append_of_le_length (by omega)]
    rw [this, f1]; simp
  rw [if_pos hape]
  simp only []
  have hd : readAt ((P ++ F) ++ v1) (((P ++ F) ++ v1).length - 125 - 35 + 8) 16 = readAt F 8 16 := by
    rw [hp2, List.append_assoc, show P.length + 0 + 8 = P.length + 8 by omega, readAt_append_right]
    unfold readAt
    rw [List.drop_append_of_le_length (by omega), List.take_append_of_le_length (by simp [lF])]
  rw [hd]
  have c2 : ¬ ((readAt F 8 16).length ≠ 16) := by omega
  rw [if_neg c2, f3, f4]
  have hend : ((P ++ F) ++ v1).length - 125 - 35 + 32 = (P ++ F).length := by rw [hn]; simp [lF]
  rw [hend]
  have lPF : (P ++ F).length = audio.length + 64 + body.length := by simp [lF, hP]; omega
  have c3 : ¬ ((P ++ F).length < body.length + 32) := by rw [lPF]; omega
  rw [if_neg c3]
  have hdata : (P ++ F).length - (body.length + 32) = audio.length + 32 := by rw [lPF]; omega
  have hflag : Ape.hasHeader / hasHeaderFlag % 2 = 1 := by decide
  have c4 : ¬ (Ape.hasHeader / hasHeaderFlag % 2 = 1 ∧ (P ++ F).length - (body.length + 32) < 32) := by rw [hdata]; omega
  rw [if_neg c4]
  have c4' : ¬ (body.length + 32 < 32) := by omega
  rw [if_neg c4']
  simp only [hflag, ↓reduceIte, hdata, Nat.add_sub_cancel]
  have hfix : fixBroken ((P ++ F) ++ v1) audio.length audio.length = audio.length := by
    apply fixBroken_stays
    rcases ha with ha | ha
    · left; simp [ha]
    · right; exact ha
  rw [hfix]

/-- APEv2 save with an ID3v1 block behind the old tag: the block is removed together with the old
tag ("Delete an ID3v1 tag if present, too") — the result is the audio and the new tag -/
theorem save_over_tag_v1 (audio v1 : Bytes) (items : List Ape.Item) (newTag : Bytes)
    (hs : ((items.map Ape.encodeItem).flatten).length + 32 < 256 ^ 4)
    (ha : audio = [] ∨ isApeAt (audio ++ Ape.encodeTag items ++ v1) (audio.length - 24) = false) (hv : V1OK v1) :
    save (audio ++ Ape.encodeTag items ++ v1) newTag = .ok (audio ++ newTag) := by
  unfold save
  rw [locate_tag_v1 audio v1 items hs ha hv]
  simp only [Bool.false_eq_true, ↓reduceIte]
  rw [List.append_assoc, List.take_left' rfl]

/-- APEv2 delete with an ID3v1 block behind the tag: the tag goes, the block stays -/
theorem delete_tag_v1 (audio v1 : Bytes) (items : List Ape.Item)
    (hs : ((items.map Ape.encodeItem).flatten).length + 32 < 256 ^ 4)
    (ha : audio = [] ∨ isApeAt (audio ++ Ape.encodeTag items ++ v1) (audio.length - 24) = false) (hv : V1OK v1) :
    delete (audio ++ Ape.encodeTag items ++ v1) = .ok (audio ++ v1) := by
  unfold delete
  rw [locate_tag_v1 audio v1 items hs ha hv]
  have c : ¬ ((audio ++ Ape.encodeTag items).length > (audio ++ Ape.encodeTag items ++ v1).length ∨
      (audio ++ Ape.encodeTag items).length < audio.length) := by simp
  simp only [c, ↓reduceIte]
  rw [List.append_assoc, List.take_left' rfl, ← List.append_assoc, List.drop_left' rfl]

end Mutagen.ApeF
