/-
Proofs/Container/OggInjectTotal.lean — Ogg comment injection on ARBITRARY bytes (C04): what
`OggPage(fileobj)` returns whatever it is given, that the page-reading loops always end (the fuel is
never used up), which exception classes `_inject` / `save` / `delete` and the comment constructors
can end in, and under which conditions only MutagenError is left.
-/
import MutagenModel.Proofs.Container.OggInject
set_option linter.unusedVariables false
namespace Mutagen.OggInj
open Mutagen Mutagen.Ogg

/-! ### what `OggPage(fileobj)` returns, for any bytes -/

/-- number of lacing values `OggPage.write` produces for packet lengths `lens` -/
def laceLen (lens : List Nat) (complete : Bool) : Nat := (Ogg.lacing lens complete).length

theorem flatten_lace_ne (n : Nat) (r : List Nat) : ((n :: r).map lace1).flatten ≠ [] := by
  simp [lace1]

theorem lacing_cons (n : Nat) (r : List Nat) (k : Bool) (hr : r ≠ []) :
    Ogg.lacing (n :: r) k = lace1 n ++ Ogg.lacing r k := by
  obtain ⟨m, r', rfl⟩ : ∃ m r', r = m :: r' := by
    cases r with
    | nil => exact absurd rfl hr
    | cons m r' => exact ⟨m, r', rfl⟩
  have hne := flatten_lace_ne m r'
  simp only [Ogg.lacing]
  rw [show ((n :: m :: r').map lace1).flatten = lace1 n ++ ((m :: r').map lace1).flatten by simp,
    getLast?_append_ne _ _ hne]
  by_cases hcond : (!k && decide ((((m :: r').map lace1).flatten).getLast? = some 0)) = true
  · rw [if_pos hcond, if_pos hcond, List.dropLast_append_of_ne_nil hne]
  · rw [if_neg hcond, if_neg hcond]

/-- the lacing values written for what `unlace` read are as many as were read -/
theorem laceLen_unlace (segs : List Nat) (hs : ∀ x ∈ segs, x ≤ 255) (j : Nat) :
    laceLen (unlace (255 * j) segs).1 (unlace (255 * j) segs).2 = j + segs.length := by
  induction segs generalizing j with
  | nil =>
    simp only [unlace]
    split
    · rename_i h
      have hj : 0 < j := by omega
      simp only [laceLen, Ogg.lacing, List.map_cons, List.map_nil, List.flatten_cons, List.flatten_nil, List.append_nil,
        Bool.not_false, Bool.true_and, lace1, Nat.mul_div_cancel_left _ (by decide : 0 < 255), Nat.mul_mod_right]
      simp
    · rename_i h
      have : j = 0 := by omega
      subst this; rfl
  | cons c r ih =>
    have hc := hs c (by simp)
    simp only [unlace]
    split
    · rename_i hlt
      have ih0 := ih (fun x hx => hs x (by simp [hx])) 0
      simp only [Nat.mul_zero, Nat.zero_add] at ih0
      generalize hu : unlace 0 r = u at ih0 ⊢
      obtain ⟨ls, k⟩ := u
      simp only at ih0 ⊢
      by_cases hls : ls = []
      · subst hls
        -- nothing follows: the page ends with this packet
        have hk : r = [] → k = true := by
          intro hr; subst hr; simp [unlace] at hu; exact hu
        have hr : r = [] := by
          cases r with
          | nil => rfl
          | cons a b =>
            exfalso
            simp only [laceLen, Ogg.lacing, List.map_nil, List.flatten_nil, List.getLast?_nil] at ih0
            simp at ih0
        subst hr
        have := hk rfl; subst this
        simp only [laceLen, Ogg.lacing, List.map_cons, List.map_nil, List.flatten_cons, List.flatten_nil, List.append_nil,
          Bool.not_true, Bool.false_and, Bool.false_eq_true, ↓reduceIte, lace1, List.length_append, List.length_replicate,
          List.length_cons, List.length_nil]
        omega
      · simp only [laceLen] at ih0 ⊢
        rw [lacing_cons _ _ _ hls, List.length_append, ih0]
        simp only [lace1, List.length_append, List.length_replicate, List.length_cons, List.length_nil]
        omega
    · rename_i hge
      have hc' : c = 255 := by omega
      subst hc'
      have := ih (fun x hx => hs x (by simp [hx])) (j + 1)
      rw [show 255 * j + 255 = 255 * (j + 1) by omega, this]
      simp; omega

theorem laceLen_unlace' (segs : List Nat) (hs : ∀ x ∈ segs, x ≤ 255) (j : Nat) :
    (Ogg.lacing (unlace (255 * j) segs).1 (unlace (255 * j) segs).2).length = j + segs.length :=
  laceLen_unlace segs hs j

theorem splitLens_spec (lens : List Nat) (d : Bytes) (ps : List Bytes) (rest : Bytes) (h : splitLens lens d = some (ps, rest)) :
    ps.map List.length = lens ∧ lens.sum + rest.length = d.length := by
  induction lens generalizing d ps with
  | nil => simp [splitLens] at h; obtain ⟨rfl, rfl⟩ := h; simp
  | cons n r ih =>
    simp only [splitLens] at h
    split at h
    · cases h
    · rename_i hn
      split at h
      · cases h
      · rename_i ps' rest' hs
        simp only [Option.some.injEq, Prod.mk.injEq] at h
        obtain ⟨rfl, rfl⟩ := h
        obtain ⟨h1, h2⟩ := ih _ _ hs
        simp only [List.map_cons, List.length_take, h1, List.sum_cons, List.length_drop] at h2 ⊢
        exact ⟨by congr 1; omega, by omega⟩

theorem unlace_incomplete (segs : List Nat) (t : Nat) (h : (unlace t segs).2 = false) : (unlace t segs).1 ≠ [] := by
  induction segs generalizing t with
  | nil =>
    simp only [unlace] at h ⊢
    split
    · simp
    · rename_i hh; rw [if_neg hh] at h; cases h
  | cons c r ih =>
    simp only [unlace] at h ⊢
    split
    · simp
    · rename_i hh; rw [if_neg hh] at h; exact ih _ h

theorem ofSignedLE_range (b : Bytes) (hl : b.length = 8) : -(2 ^ 63 : Int) ≤ ofSignedLE b ∧ ofSignedLE b < (2 ^ 63 : Int) := by
  have h := ofLE_lt b
  rw [hl] at h
  unfold ofSignedLE
  rw [hl]
  simp only
  split <;> omega

/-- every page `OggPage(fileobj)` returns: it took exactly `page.size` bytes, its fields fit the
header again (it can be written, with any page number below 2³²), and an incomplete page holds
a packet -/
theorem parse_ok (d : Bytes) (p : Page) (rest : Bytes) (h : parse d = .ok (p, rest)) :
    p.size + rest.length = d.length ∧ Renderable p ∧ p.version = 0 ∧ (p.complete = false → p.packets ≠ []) := by
  unfold parse at h
  split at h
  · cases h
  rename_i hne
  split at h
  · cases h
  rename_i hlen
  simp only at h
  split at h
  · cases h
  split at h
  · cases h
  rename_i hver
  split at h
  · cases h
  rename_i hseg
  generalize hu : unlace 0 (List.map UInt8.toNat (List.take ((List.drop 26 (List.take 27 d)).head!.toNat) (List.drop 27 d))) = u at h
  obtain ⟨lens, complete⟩ := u
  simp only at h
  split at h
  · cases h
  rename_i packets rest' hsp
  simp only [Except.ok.injEq, Prod.mk.injEq] at h
  obtain ⟨hp, rfl⟩ := h
  have ePk : p.packets = packets := by rw [← hp]
  have eCo : p.complete = complete := by rw [← hp]
  have eSe : p.serial = ofLE (List.take 4 (List.drop 14 (List.take 27 d))) := by rw [← hp]
  have eSq : p.sequence = ofLE (List.take 4 (List.drop 18 (List.take 27 d))) := by rw [← hp]
  have ePo : p.position = ofSignedLE (List.take 8 (List.drop 6 (List.take 27 d))) := by rw [← hp]
  have eVe : p.version = (List.drop 4 (List.take 27 d)).head!.toNat := by rw [← hp]
  have eFl : p.flags = (List.drop 5 (List.take 27 d)).head!.toNat := by
    rw [← hp]
    simp only [Page.flags]
    have := (List.drop 5 (List.take 27 d)).head!.toNat_lt
    generalize (List.drop 5 (List.take 27 d)).head!.toNat = F at *
    simp only [decide_eq_true_eq]
    split <;> split <;> split <;> omega
  clear hp
  obtain ⟨hs1, hs2⟩ := splitLens_spec _ _ _ _ hsp
  -- the segment table
  generalize hS : (List.drop 26 (List.take 27 d)).head!.toNat = S at *
  have hS255 : S ≤ 255 := by
    rw [← hS]
    have := (List.drop 26 (List.take 27 d)).head!.toNat_lt
    omega
  have hsegs : ∀ x ∈ List.map UInt8.toNat (List.take S (List.drop 27 d)), x ≤ 255 := by
    intro x hx
    obtain ⟨b, _, rfl⟩ := List.mem_map.mp hx
    have := b.toNat_lt; omega
  have hlace := laceLen_unlace' _ hsegs 0
  rw [Nat.mul_zero, hu] at hlace
  simp only [Nat.zero_add, List.length_map, List.length_take, List.length_drop] at hlace
  have hS' : min S (d.length - 27) = S := by
    simp only [List.length_drop, Nat.not_lt] at hseg; omega
  rw [hS'] at hlace
  have hlacing : p.lacing.length = S := by
    simp only [Page.lacing, ePk, eCo, hs1]; exact hlace
  have h27 : (List.take 27 d).length = 27 := by simp only [List.length_take]; omega
  have hver' : (List.drop 4 (List.take 27 d)).head!.toNat = 0 := Classical.not_not.mp hver
  refine ⟨?_, ⟨?_, ?_, ?_, ?_, ?_, ?_⟩, ?_, ?_⟩
  · simp only [Page.size, hlacing, ePk, hs1]
    simp only [List.length_drop, List.length_take] at hs2 ⊢
    omega
  · rw [hlacing]; exact hS255
  · rw [eSe]
    have := ofLE_lt (List.take 4 (List.drop 14 (List.take 27 d)))
    simp only [List.length_take, List.length_drop, h27] at this
    simpa using this
  · rw [eSq]
    have := ofLE_lt (List.take 4 (List.drop 18 (List.take 27 d)))
    simp only [List.length_take, List.length_drop, h27] at this
    simpa using this
  · rw [eVe, hver']; decide
  · rw [eFl]; exact (List.drop 5 (List.take 27 d)).head!.toNat_lt
  · rw [ePo]; exact ofSignedLE_range _ (by simp only [List.length_take, List.length_drop, h27]; omega)
  · rw [eVe]; exact hver'
  · intro hc
    rw [eCo] at hc
    subst hc
    have := unlace_incomplete _ 0 (by rw [hu])
    rw [hu] at this
    simp only at this
    intro hpk
    rw [ePk] at hpk
    rw [hpk] at hs1
    exact this (by simpa using hs1.symm)

/-! ### reading pages from arbitrary bytes: the loops end -/

theorem readPage_err (f : Bytes) (pos : Nat) (e : PyErr) (h : readPage f pos = .error e) : e = .eof ∨ e = .mutagen := by
  unfold readPage at h
  split at h
  · simp at h; exact Or.inl h.symm
  · simp at h; exact Or.inr h.symm
  · cases h

/-- a page that was read: where it ends, that it lies inside the file, and what `parse_ok` says -/
theorem readPage_ok (f : Bytes) (pos : Nat) (p : Page) (next : Nat) (h : readPage f pos = .ok (p, next)) :
    next = pos + p.size ∧ next ≤ f.length ∧ Renderable p ∧ p.version = 0 ∧ (p.complete = false → p.packets ≠ []) := by
  unfold readPage at h
  split at h
  · cases h
  · cases h
  · rename_i q rest hq
    simp only [Except.ok.injEq, Prod.mk.injEq] at h
    obtain ⟨rfl, rfl⟩ := h
    obtain ⟨h1, h2, h3, h4⟩ := parse_ok _ _ _ hq
    simp only [List.length_drop] at h1
    have := size_ge q
    exact ⟨by omega, by omega, h2, h3, h4⟩

/-- the page `r` is what `OggPage(fileobj)` reads at `r.offset` -/
def ReadAt (f : Bytes) (r : Rd) : Prop := readPage f r.offset = .ok (r.page, r.offset + r.page.size)

theorem scanFrom_spec (f : Bytes) (pred : Page → Bool) (fuel pos : Nat) (hfuel : f.length - pos < fuel) :
    (∀ e, scanFrom f pred fuel pos = .error e → e = .eof ∨ e = .mutagen) ∧
    (∀ r next, scanFrom f pred fuel pos = .ok (r, next) →
      ReadAt f r ∧ next = r.offset + r.page.size ∧ pred r.page = true ∧ pos ≤ r.offset) := by
  induction fuel generalizing pos with
  | zero => omega
  | succ fuel ih =>
    simp only [scanFrom]
    cases hr : readPage f pos with
    | error e =>
      simp only
      exact ⟨fun e' he => (by cases he; exact readPage_err f pos e hr), fun r next h => (by cases h)⟩
    | ok v =>
      obtain ⟨p, next⟩ := v
      obtain ⟨h1, h2, _⟩ := readPage_ok f pos p next hr
      have := size_ge p
      simp only
      split
      · rename_i hp
        refine ⟨fun e he => (by cases he), ?_⟩
        intro r nx h
        simp only [Except.ok.injEq, Prod.mk.injEq] at h
        obtain ⟨rfl, rfl⟩ := h
        exact ⟨by unfold ReadAt; simp only; rw [hr, h1], h1, hp, Nat.le_refl _⟩
      · have := ih next (by omega)
        refine ⟨this.1, ?_⟩
        intro r nx h
        obtain ⟨a, b, c, d⟩ := this.2 r nx h
        exact ⟨a, b, c, by omega⟩

theorem collect_spec (f : Bytes) (ser : Nat) (fuel : Nat) (acc : List Rd) (last : Page) (pos : Nat)
    (hfuel : f.length - pos < fuel) :
    (∀ e, collect f ser fuel acc last pos = .error e → e = .eof ∨ e = .mutagen) ∧
    (∀ old, collect f ser fuel acc last pos = .ok old →
      ∃ more, old = acc ++ more ∧ (closed last = true → more = []) ∧ ∀ x ∈ more, ReadAt f x) := by
  induction fuel generalizing acc last pos with
  | zero => omega
  | succ fuel ih =>
    simp only [collect]
    split
    · rename_i hc
      refine ⟨fun e he => (by cases he), ?_⟩
      intro old h
      simp only [Except.ok.injEq] at h; subst h
      exact ⟨[], by simp, fun _ => rfl, by simp⟩
    · rename_i hc
      have hopen : closed last = false := by simpa [closed] using hc
      cases hr : readPage f pos with
      | error e =>
        simp only
        exact ⟨fun e' he => (by cases he; exact readPage_err f pos e hr), fun r h => (by cases h)⟩
      | ok v =>
        obtain ⟨p, next⟩ := v
        obtain ⟨h1, h2, _⟩ := readPage_ok f pos p next hr
        have := size_ge p
        simp only
        split
        · have := ih (acc ++ [⟨p, pos⟩]) p next (by omega)
          refine ⟨this.1, ?_⟩
          intro old h
          obtain ⟨more, hm1, hm2, hm3⟩ := this.2 old h
          refine ⟨⟨p, pos⟩ :: more, by rw [hm1]; simp, (fun hh => by rw [hopen] at hh; cases hh), ?_⟩
          intro x hx
          simp only [List.mem_cons] at hx
          rcases hx with rfl | hx
          · unfold ReadAt; simp only; rw [hr, h1]
          · exact hm3 x hx
        · have := ih acc last next (by omega)
          refine ⟨this.1, ?_⟩
          intro old h
          obtain ⟨more, hm1, hm2, hm3⟩ := this.2 old h
          exact ⟨more, hm1, (fun hh => by rw [hopen] at hh; cases hh), hm3⟩

theorem readLoop_spec (f : Bytes) (ser : Nat) (fuel : Nat) (acc : List Page) (pos : Nat) (hfuel : f.length - pos < fuel) :
    (∀ e, readLoop f ser fuel acc pos = .error e → e = .eof ∨ e = .mutagen) ∧
    (∀ ps, readLoop f ser fuel acc pos = .ok ps →
      ∃ more l, ps = acc ++ more ++ [l] ∧ (∀ x ∈ more, closed x = false ∧ x.packets ≠ [])) := by
  induction fuel generalizing acc pos with
  | zero => omega
  | succ fuel ih =>
    simp only [readLoop]
    cases hr : readPage f pos with
    | error e =>
      simp only
      exact ⟨fun e' he => (by cases he; exact readPage_err f pos e hr), fun r h => (by cases h)⟩
    | ok v =>
      obtain ⟨p, next⟩ := v
      obtain ⟨h1, h2, _, _, h5⟩ := readPage_ok f pos p next hr
      have := size_ge p
      simp only
      split
      · split
        · refine ⟨fun e he => (by cases he), ?_⟩
          intro ps h
          simp only [Except.ok.injEq] at h; subst h
          exact ⟨[], p, by simp, by simp⟩
        · rename_i hc
          have hopen : closed p = false := by simpa [closed] using hc
          have := ih (acc ++ [p]) next (by omega)
          refine ⟨this.1, ?_⟩
          intro ps h
          obtain ⟨more, l, hm1, hm2⟩ := this.2 ps h
          refine ⟨p :: more, l, by rw [hm1]; simp, ?_⟩
          intro x hx
          simp only [List.mem_cons] at hx
          rcases hx with rfl | hx
          · refine ⟨hopen, h5 ?_⟩
            simp only [closed, Bool.or_eq_false_iff] at hopen
            exact hopen.1
          · exact hm2 x hx
      · exact ih acc next (by omega)


/-! ### finding the comment pages in arbitrary bytes -/

theorem scan0 (f : Bytes) (pos : Nat) : f.length - pos < f.length + 1 := by omega

theorem opusInfo_err (f : Bytes) (e : PyErr) (h : opusInfo f = .error e) : e = .eof ∨ e = .mutagen := by
  unfold opusInfo at h
  split at h
  · rename_i e' hs
    cases h
    exact (scanFrom_spec f _ _ 0 (scan0 f 0)).1 e hs
  · split at h
    · cases h; exact Or.inr rfl
    · simp only at h
      split at h
      · cases h; exact Or.inr rfl
      · split at h
        · cases h; exact Or.inr rfl
        · cases h

theorem findStart_spec (c : Codec) (f : Bytes) :
    (∀ e, findStart c f = .error e → e = .eof ∨ e = .mutagen) ∧
    (∀ r next, findStart c f = .ok (r, next) → ReadAt f r) := by
  have lift : ∀ {e : PyErr}, (e = .eof ∨ e = .mutagen) → e = .eof ∨ e = .mutagen := fun h => h
  have idc : ∀ (a b : Bytes),
      (∀ e, idThenComment f a b = .error e → e = .eof ∨ e = .mutagen) ∧
      (∀ r next, idThenComment f a b = .ok (r, next) → ReadAt f r) := by
    intro a b
    unfold idThenComment
    cases hs : scanFrom f (startsWith a) (f.length + 1) 0 with
    | error e' =>
      exact ⟨fun e h => (by cases h; exact (scanFrom_spec f _ _ 0 (scan0 f 0)).1 _ hs), fun r next h => (by cases h)⟩
    | ok v =>
      obtain ⟨r0, pos⟩ := v
      simp only
      split
      · refine ⟨fun e h => (by cases h), ?_⟩
        intro r next h
        simp only [Except.ok.injEq, Prod.mk.injEq] at h
        obtain ⟨rfl, rfl⟩ := h
        exact ((scanFrom_spec f _ _ 0 (scan0 f 0)).2 _ _ hs).1
      · have := scanFrom_spec f (fun p => decide (p.serial = r0.page.serial) && startsWith b p) _ pos (scan0 f pos)
        exact ⟨this.1, fun r next h => (this.2 r next h).1⟩
  cases c with
  | vorbis =>
    have := idc magicVorbisId magicVorbisComment
    exact ⟨fun e h => lift (this.1 e h), this.2⟩
  | theora =>
    have := idc magicTheoraId magicTheoraComment
    exact ⟨fun e h => lift (this.1 e h), this.2⟩
  | opus =>
    simp only [findStart]
    cases ho : opusInfo f with
    | error e' =>
      refine ⟨fun e h => ?_, fun r next h => (by cases h)⟩
      cases h
      exact opusInfo_err f _ ho
    | ok v =>
      obtain ⟨serial, pos⟩ := v
      have := scanFrom_spec f (fun p => decide (p.serial = serial) && startsWith magicOpusTags p) _ pos (scan0 f pos)
      exact ⟨this.1, fun r next h => (this.2 r next h).1⟩
  | speex =>
    simp only [findStart]
    cases hs : scanFrom f (startsWith magicSpeex) (f.length + 1) 0 with
    | error e' =>
      exact ⟨fun e h => (by cases h; exact lift ((scanFrom_spec f _ _ 0 (scan0 f 0)).1 _ hs)), fun r next h => (by cases h)⟩
    | ok v =>
      obtain ⟨r0, pos⟩ := v
      have := scanFrom_spec f (fun p => decide (p.serial = r0.page.serial)) _ pos (scan0 f pos)
      exact ⟨fun e h => lift (this.1 e h), fun r next h => (this.2 r next h).1⟩
  | flac =>
    simp only [findStart]
    cases hs : scanFrom f (startsWith magicFlac) (f.length + 1) 0 with
    | error e' =>
      exact ⟨fun e h => (by cases h; exact lift ((scanFrom_spec f _ _ 0 (scan0 f 0)).1 _ hs)), fun r next h => (by cases h)⟩
    | ok v =>
      obtain ⟨r0, pos⟩ := v
      simp only
      split
      · refine ⟨fun e h => (by cases h), ?_⟩
        intro r next h
        simp only [Except.ok.injEq, Prod.mk.injEq] at h
        obtain ⟨rfl, rfl⟩ := h
        exact ((scanFrom_spec f _ _ 0 (scan0 f 0)).2 _ _ hs).1
      · have := scanFrom_spec f (fun p => decide (p.sequence = 1) && decide (p.serial = r0.page.serial)) _ pos (scan0 f pos)
        exact ⟨fun e h => lift (this.1 e h), fun r next h => (this.2 r next h).1⟩

/-- `old_pages` on arbitrary bytes: the search ends; it fails with EOFError or ogg.error; what it returns are pages read from the file,
and when the first one already closes the run it is the only one -/
theorem commentPages_spec (c : Codec) (f : Bytes) :
    (∀ e, commentPages c f = .error e → e = .eof ∨ e = .mutagen) ∧
    (∀ old, commentPages c f = .ok old → ∃ r more, old = r :: more ∧ (closed r.page = true → more = []) ∧
      ∀ x ∈ r :: more, ReadAt f x) := by
  unfold commentPages
  cases hs : findStart c f with
  | error e' =>
    exact ⟨fun e h => (by cases h; exact (findStart_spec c f).1 _ hs), fun old h => (by cases h)⟩
  | ok v =>
    obtain ⟨r, pos⟩ := v
    have hr := (findStart_spec c f).2 r pos hs
    have := collect_spec f r.page.serial (f.length + 1) [r] r.page pos (scan0 f pos)
    simp only
    refine ⟨this.1, ?_⟩
    · intro old h
      obtain ⟨more, h1, h2, h3⟩ := this.2 old h
      refine ⟨r, more, by simpa using h1, h2, ?_⟩
      intro x hx
      simp only [List.mem_cons] at hx
      rcases hx with rfl | hx
      · exact hr
      · exact h3 x hx

/-! ### to_packets -/

theorem toPacketsLoop_err (ser : Nat) (ps : List Page) (seq : Nat) (acc : List Bytes) (e : PyErr)
    (h : toPacketsLoop ser seq acc ps = .error e) : e = .value ∨ e = .index := by
  induction ps generalizing seq acc with
  | nil => simp [toPacketsLoop] at h
  | cons p r ih =>
    unfold toPacketsLoop at h
    split at h
    · cases h; exact Or.inl rfl
    · split at h
      · cases h; exact Or.inl rfl
      · split at h
        · exact ih _ _ h
        · split at h
          · split at h
            · cases h; exact Or.inr rfl
            · exact ih _ _ h
          · exact ih _ _ h

theorem toPackets_err (ps : List Page) (strict : Bool) (e : PyErr) (h : toPackets ps strict = .error e) :
    e = .value ∨ e = .index := by
  unfold toPackets at h
  split at h
  · cases h
  · split at h
    · cases h; exact Or.inl rfl
    · split at h
      · cases h; exact Or.inl rfl
      · exact toPacketsLoop_err _ _ _ _ _ h

theorem toPacketsLoop_no_index (ser : Nat) (ps : List Page) (seq : Nat) (acc : List Bytes) (ha : acc ≠ []) :
    toPacketsLoop ser seq acc ps ≠ .error .index := by
  induction ps generalizing seq acc with
  | nil => simp [toPacketsLoop]
  | cons p r ih =>
    unfold toPacketsLoop
    split
    · simp
    · split
      · simp
      · split
        · exact ih _ _ ha
        · rename_i f rest _
          split
          · apply ih
            rcases List.eq_nil_or_concat acc with h' | ⟨l, x, h'⟩
            · exact absurd h' ha
            · rw [h', List.concat_eq_append, extLast_concat]; simp
          · apply ih; simp

/-- `packets[-1].append(...)` cannot hit an empty list when the first page holds a packet or is the
only page -/
theorem toPackets_no_index (p : Page) (rest : List Page) (h : p.packets = [] → rest = []) :
    toPackets (p :: rest) false ≠ .error .index := by
  simp only [toPackets, Bool.false_and, Bool.false_eq_true, ↓reduceIte, Bool.not_false, Bool.true_and]
  unfold toPacketsLoop
  simp only [ne_eq, not_true_eq_false, ↓reduceIte]
  cases hp : p.packets with
  | nil =>
    simp only
    rw [h hp]; simp [toPacketsLoop]
  | cons a b =>
    simp only
    by_cases hc : p.continued = true
    · simp only [hc, ↓reduceIte]
      rw [if_neg (by simp)]
      apply toPacketsLoop_no_index
      show extLast ([] ++ [[]]) a ++ b ≠ []
      rw [extLast_concat]; simp
    · simp only [hc, Bool.false_eq_true, ↓reduceIte]
      apply toPacketsLoop_no_index; simp


/-! ### laying out the new packets never fails -/

theorem totalLen_flat (ps : List Page) : ((ps.map (·.packets.flatten)).flatten).length = totalLen ps := by
  induction ps with
  | nil => rfl
  | cons p r ih =>
    simp only [List.map_cons, List.flatten_cons, List.length_append, ih, totalLen, List.sum_cons, List.length_flatten]

theorem toPackets_flat (p : Page) (r : List Page) (X : List Bytes) (h : toPackets (p :: r) false = .ok X) :
    X.flatten.length = totalLen (p :: r) := by
  simp only [toPackets, Bool.false_and, Bool.false_eq_true, ↓reduceIte, Bool.not_false, Bool.true_and] at h
  have := toPacketsLoop_ok _ _ _ _ _ h
  rw [this, flatten_reasm, List.length_append, totalLen_flat]
  split <;> simp

theorem flatten_length_of_lens (a b : List Bytes) (h : a.map List.length = b.map List.length) :
    a.flatten.length = b.flatten.length := by
  rw [List.length_flatten, List.length_flatten, h]

/-- the two ways `_inject` lays out the packets, and that neither can fail: FLAC and a changed
packet length go through `from_packets`, an unchanged length copies the old layout (the `assert`
behind the copy loop never fires) -/
theorem newPages_ok (c : Codec) (o : Page) (r : List Page) (P X : List Bytes)
    (hpk : toPackets (o :: r) false = .ok X) :
    newPages c P (o :: r) = .ok (fromPacketsWith (policy Generated.oggDefaultSize) (Generated.oggDefaultSize / 255 * 255)
        Generated.oggWiggleRoom (by decide) o.sequence P) ∨
    (P.map List.length = X.map List.length ∧ totalLen (o :: r) = P.flatten.length ∧
      newPages c P (o :: r) = .ok (copyLayout (o :: r) P.flatten).1) := by
  have hA := fromPackets_default P o.sequence
  have hB : tryPreserve P (o :: r) = .ok (fromPacketsWith (policy Generated.oggDefaultSize) (Generated.oggDefaultSize / 255 * 255)
        Generated.oggWiggleRoom (by decide) o.sequence P) ∨
      (P.map List.length = X.map List.length ∧ totalLen (o :: r) = P.flatten.length ∧
        tryPreserve P (o :: r) = .ok (copyLayout (o :: r) P.flatten).1) := by
    unfold tryPreserve
    rw [hpk]
    simp only
    split
    · left; exact hA
    · rename_i hl
      have hl' : P.map List.length = X.map List.length := Classical.not_not.mp hl
      have htot : totalLen (o :: r) = P.flatten.length := by
        rw [flatten_length_of_lens P X hl', toPackets_flat o r X hpk]
      right
      refine ⟨hl', htot, ?_⟩
      have hrest := (copyLayout_spec (o :: r) P.flatten (by omega)).2.2.1
      have hnil : (copyLayout (o :: r) P.flatten).2 = [] := by
        apply List.eq_nil_of_length_eq_zero; rw [hrest]; omega
      generalize copyLayout (o :: r) P.flatten = cl at hnil ⊢
      obtain ⟨pages, rest⟩ := cl
      simp only at hnil ⊢
      subst hnil
      simp
  unfold newPages
  cases c with
  | flac => left; simp only; exact hA
  | vorbis => exact hB
  | opus => exact hB
  | speex => exact hB
  | theora => exact hB

/-! ### writing: which exceptions, and when -/

theorem render_err (p : Page) (e : PyErr) (h : p.render = .error e) : e = .value ∨ e = .struct_ := by
  unfold Page.render at h
  split at h
  · cases h; exact Or.inl rfl
  · split at h
    · cases h; exact Or.inr rfl
    · cases h

theorem renderList_err (ps : List Page) (e : PyErr) (h : renderList ps = .error e) : e = .value ∨ e = .struct_ := by
  induction ps with
  | nil => simp [renderList] at h
  | cons p r ih =>
    simp only [renderList] at h
    split at h
    · rename_i e' he; cases h; exact render_err p _ he
    · split at h
      · rename_i e' he; cases h; exact ih he
      · cases h

/-- `OggPage.renumber` on arbitrary bytes: it ends; it fails with ogg.error on anything that is not a
page, and with struct.error — only — when a page would get a number of 2³² or more -/
theorem renumber_spec (ser fuel : Nat) (f : Bytes) (pos num : Nat) (hfuel : f.length - pos < fuel) (e : PyErr)
    (h : (renumber ser fuel f pos num).err = some e) :
    e = .mutagen ∨ (e = .struct_ ∧ 2 ^ 32 < num + (f.length - pos)) := by
  induction fuel generalizing f pos num with
  | zero => omega
  | succ fuel ih =>
    simp only [renumber] at h
    cases hr : readPage f pos with
    | error e' =>
      rw [hr] at h
      rcases readPage_err f pos e' hr with rfl | rfl
      · simp at h
      · simp at h; exact Or.inl h.symm
    | ok v =>
      obtain ⟨p, next⟩ := v
      rw [hr] at h
      obtain ⟨h1, h2, h3, h4, _⟩ := readPage_ok f pos p next hr
      have hsz := size_ge p
      simp only at h
      split at h
      · rcases ih f next num (by omega) h with hh | ⟨hh, hb⟩
        · exact Or.inl hh
        · exact Or.inr ⟨hh, by omega⟩
      · cases hrd : ({ p with sequence := num } : Page).render with
        | error e' =>
          rw [hrd] at h
          simp only [Option.some.injEq] at h
          subst h
          -- the page was read, so only the new number can be out of range
          by_cases hn : num < 2 ^ 32
          · exfalso
            obtain ⟨a1, a2, a3, a4, a5, a6, a7⟩ := h3
            have := render_of_renderable { p with sequence := num } ⟨a1, a2, hn, a4, a5, a6, a7⟩
            rw [this] at hrd; cases hrd
          · right
            refine ⟨?_, by omega⟩
            unfold Page.render at hrd
            obtain ⟨a1, _⟩ := h3
            have : ¬ (({ p with sequence := num } : Page).lacing.length > 255) := by
              show ¬ (p.lacing.length > 255); omega
            rw [if_neg this] at hrd
            split at hrd
            · cases hrd; rfl
            · cases hrd
        | ok b =>
          rw [hrd] at h
          simp only at h
          have hb : b.length = p.size := by
            rw [render_eq_rb _ b hrd, length_rb]; rfl
          have hw : (writeAt f (next - p.size) b).length = f.length := by
            simp only [writeAt, List.length_append, List.length_take, List.length_drop, hb]; omega
          rcases ih (writeAt f (next - p.size) b) (pos + p.size) (num + 1) (by rw [hw]; omega) h with hh | ⟨hh, hbd⟩
          · exact Or.inl hh
          · rw [hw] at hbd; exact Or.inr ⟨hh, by omega⟩


/-! ### the exception classes of `replace`, `_inject`, `save`, `delete` on arbitrary bytes -/

theorem replace_err (f : Bytes) (old : List Rd) (new : List Page) (e : PyErr) (h : (replace f old new).err = some e) :
    e = .mutagen ∨ e = .value ∨ e = .struct_ := by
  unfold replace at h
  split at h
  · rename_i o0 oL n0 nr _ _
    simp only at h
    split at h
    · rename_i e' he
      simp only [Option.some.injEq] at h; subst h
      rcases renderList_err _ _ he with h | h
      · exact Or.inr (Or.inl h)
      · exact Or.inr (Or.inr h)
    · rename_i data hd
      generalize replaceLoop (old.zip (fitData old.length data)) f 0 0 = rl at h
      obtain ⟨f1, dataEnd⟩ := rl
      simp only at h
      split at h
      · rcases renumber_spec _ _ f1 dataEnd _ (by omega) e h with hh | ⟨hh, _⟩
        · exact Or.inl hh
        · exact Or.inr (Or.inr hh)
      · cases h
  · simp only [Option.some.injEq] at h; subst h; exact Or.inr (Or.inl rfl)

/-- what `_inject` can raise on ANY bytes, for any comment, preserved data and padding answer: it
always ends (never `.diverge`), its `assert` never fires, and the exception is one of EOFError,
ogg.error, ValueError, IndexError, struct.error -/
theorem injectRaw_classes (c : Codec) (f vc padData : Bytes) (pad : PadChoice) (e : PyErr)
    (h : (injectRaw c f vc padData pad).err = some e) :
    e = .eof ∨ e = .mutagen ∨ e = .value ∨ e = .index ∨ e = .struct_ := by
  unfold injectRaw at h
  cases hc : commentPages c f with
  | error e' =>
    rw [hc] at h
    simp only [Option.some.injEq] at h; subst h
    rcases (commentPages_spec c f).1 _ hc with h | h
    · exact Or.inl h
    · exact Or.inr (Or.inl h)
  | ok old =>
    rw [hc] at h
    simp only at h
    obtain ⟨r, more, rfl, _, _⟩ := (commentPages_spec c f).2 old hc
    cases hp : toPackets ((r :: more).map (·.page)) false with
    | error e' =>
      rw [hp] at h
      simp only [Option.some.injEq] at h; subst h
      rcases toPackets_err _ _ _ hp with h | h
      · exact Or.inr (Or.inr (Or.inl h))
      · exact Or.inr (Or.inr (Or.inr (Or.inl h)))
    | ok X =>
      rw [hp] at h
      cases X with
      | nil => simp only [Option.some.injEq] at h; subst h; exact Or.inr (Or.inr (Or.inr (Or.inl rfl)))
      | cons old0 others =>
        simp only at h
        cases hn : newPacket c old0 vc padData pad f.length with
        | error e' =>
          rw [hn] at h
          simp only [Option.some.injEq] at h; subst h
          -- only Ogg FLAC refuses a packet (comment longer than the 24-bit length field)
          unfold newPacket at hn
          split at hn
          · split at hn
            · cases hn; exact Or.inr (Or.inl rfl)
            · cases hn
          · simp only at hn
            split at hn <;> cases hn
        | ok new0 =>
          rw [hn] at h
          simp only at h
          simp only [List.map_cons] at hp h
          rcases newPages_ok c r.page (more.map (·.page)) (new0 :: others) _ hp with hnp | ⟨_, _, hnp⟩
          · rw [hnp] at h
            rcases replace_err _ _ _ _ h with hh | hh | hh
            · exact Or.inr (Or.inl hh)
            · exact Or.inr (Or.inr (Or.inl hh))
            · exact Or.inr (Or.inr (Or.inr (Or.inr hh)))
          · rw [hnp] at h
            rcases replace_err _ _ _ _ h with hh | hh | hh
            · exact Or.inr (Or.inl hh)
            · exact Or.inr (Or.inr (Or.inl hh))
            · exact Or.inr (Or.inr (Or.inr (Or.inr hh)))

/-- `OggFileType.save` on any bytes: EOFError and ogg.error (that is what `.eof` and `.bad` of the
page parser mean at the public boundary), IndexError and struct.error come out as the format's
MutagenError; ValueError is not converted -/
theorem save_classes (c : Codec) (f vc padData : Bytes) (pad : PadChoice) (e : PyErr)
    (h : save c f vc padData pad = .error e) : e = .mutagen ∨ e = .value := by
  unfold save injectOutcome at h
  have hcl := injectRaw_classes c f vc padData pad
  generalize injectRaw c f vc padData pad = R at h hcl
  obtain ⟨file, err⟩ := R
  cases err with
  | none => simp at h
  | some e' =>
    simp only [Option.map_some, Except.error.injEq] at h
    subst h
    rcases hcl e' rfl with h | h | h | h | h <;> subst h
    · exact Or.inl rfl
    · exact Or.inl rfl
    · exact Or.inr rfl
    · exact Or.inl rfl
    · exact Or.inl rfl

theorem delete_classes (c : Codec) (f vendor padData : Bytes) (e : PyErr)
    (h : delete c f vendor padData = .error e) : e = .mutagen ∨ e = .value :=
  save_classes c f _ padData _ e h

/-! ### the new run can be written (arbitrary old pages) -/

/-- the copied layout, as `replace` flags it, has the packet lengths and complete flags of the old
pages (no layout hypothesis: any non-empty page list, enough data) -/
theorem prepare_copy_keys (olds : List Page) (D : Bytes) (hD : totalLen olds ≤ D.length) (o0 oL : Page)
    (hL : olds.getLast? = some oL) :
    (prepare o0 oL (copyLayout olds D).1).map (fun p => (p.packets.map List.length, p.complete)) =
      olds.map (fun p => (p.packets.map List.length, p.complete)) := by
  obtain ⟨h3, _, _, h4⟩ := copyLayout_spec olds D hD
  generalize (copyLayout olds D).1 = new at *
  have hlen : new.length = olds.length := by simpa using congrArg List.length h3
  have hkey : new.map (fun p => (p.packets.map List.length, p.complete)) =
      olds.map (fun p => (p.packets.map List.length, p.complete)) := by
    apply List.ext_getElem (by simp [hlen])
    intro n hn1 hn2
    simp only [List.getElem_map]
    have e3 := congrArg (fun l => l[n]?) h3
    have e4 := congrArg (fun l => l[n]?) h4
    simp only [List.getElem?_map] at e3 e4
    have hn1' : n < new.length := by simpa using hn1
    have hn2' : n < olds.length := by simpa using hn2
    rw [List.getElem?_eq_getElem hn1', List.getElem?_eq_getElem hn2'] at e3 e4
    simp only [Option.map_some, Option.some.injEq, shape, Prod.mk.injEq] at e3 e4
    simp [e3.1, e4.2.1]
  have hlastc : ∀ l, new.getLast? = some l → l.complete = oL.complete := by
    intro l hl'
    have e := congrArg (fun l => (l.map (fun x => x.2)).getLast?) hkey
    simp only [List.map_map, List.getLast?_map, hl', hL] at e
    simpa using e
  unfold prepare
  rw [map_modLast_last, map_modHead _ _ _ (by intro x; rfl), map_number _ _ _ _ (fun _ _ _ => rfl)]
  · exact hkey
  · intro x hx
    have hxc : x.complete = oL.complete := by
      rcases getLast?_modHead _ _ _ hx with ⟨a, ha, rfl⟩ | ⟨_, hl2⟩
      · have : (number o0.serial o0.sequence new).getLast? = some a := by rw [ha]; rfl
        obtain ⟨l0, s, hl0, rfl⟩ := getLast?_number _ _ _ _ this
        exact hlastc l0 hl0
      · obtain ⟨l0, s, hl0, rfl⟩ := getLast?_number _ _ _ _ hl2
        exact hlastc l0 hl0
    simp only [Prod.mk.injEq]
    constructor
    · split <;> rfl
    · split <;> simp [hxc]

/-- the pages `_inject` hands to `OggPage.write` — whichever way they were laid out, from whatever old
pages that were read from a file — are at least one and have at most 255 lacing values each: writing
them can only fail on a field that does not fit the header (struct.error), never with ValueError -/
theorem new_run_lacing (c : Codec) (o : Page) (r : List Page) (oL : Page) (P X : List Bytes) (new : List Page)
    (hP : P ≠ []) (hold : ∀ q ∈ o :: r, Renderable q) (hL : (o :: r).getLast? = some oL)
    (hpk : toPackets (o :: r) false = .ok X) (hnew : newPages c P (o :: r) = .ok new) :
    new ≠ [] ∧ ∀ p ∈ prepare o oL new, p.lacing.length ≤ 255 := by
  rcases newPages_ok c o r P X hpk with hA | ⟨hl, htot, hB⟩
  · rw [hA] at hnew
    simp only [Except.ok.injEq] at hnew
    subst hnew
    obtain ⟨_, _, _, init, l, h4, _, _⟩ := fromPacketsWith_facts (policy Generated.oggDefaultSize)
      (Generated.oggDefaultSize / 255 * 255) Generated.oggWiggleRoom (by decide) o.sequence P hP
    have hlc := fromPacketsWith_laceCount Generated.oggDefaultSize (Generated.oggDefaultSize / 255 * 255)
      Generated.oggWiggleRoom (by decide) (by decide) o.sequence P
    generalize fromPacketsWith (policy Generated.oggDefaultSize) (Generated.oggDefaultSize / 255 * 255)
      Generated.oggWiggleRoom (by decide) o.sequence P = new at *
    refine ⟨by rw [h4]; simp, ?_⟩
    intro p hp
    obtain ⟨q, hq, hpk', _⟩ := prepare_mem _ _ _ p hp
    have := lacing_length_le p
    rw [hpk'] at this
    exact Nat.le_trans this (hlc q hq)
  · rw [hB] at hnew
    simp only [Except.ok.injEq] at hnew
    subst hnew
    have hk := prepare_copy_keys (o :: r) P.flatten (by omega) o oL hL
    obtain ⟨h3, _, _, _⟩ := copyLayout_spec (o :: r) P.flatten (by omega)
    generalize (copyLayout (o :: r) P.flatten).1 = new at *
    have hlen : new.length = (o :: r).length := by simpa using congrArg List.length h3
    refine ⟨by intro he; rw [he] at hlen; simp at hlen, ?_⟩
    intro p hp
    obtain ⟨o', ho', hpo⟩ := exists_of_map_eq _ _ _ hk p hp
    simp only [Prod.mk.injEq] at hpo
    rw [lacing_eq p o' hpo.1 hpo.2]
    exact (hold o' ho').1

theorem renderList_err_struct (ps : List Page) (hl : ∀ p ∈ ps, p.lacing.length ≤ 255) (e : PyErr)
    (h : renderList ps = .error e) : e = .struct_ := by
  induction ps with
  | nil => simp [renderList] at h
  | cons p r ih =>
    simp only [renderList] at h
    split at h
    · rename_i e' he
      cases h
      unfold Page.render at he
      rw [if_neg (by have := hl p (by simp); omega)] at he
      split at he
      · cases he; rfl
      · cases he
    · split at h
      · rename_i e' he; cases h; exact ih (fun q hq => hl q (by simp [hq])) he
      · cases h

/-! ### when only MutagenError is left -/

/-- the one situation left in which `save` / `delete` let something other than MutagenError out: the
pages of the comment run are not numbered consecutively (`OggPage.to_packets` raises ValueError
"bad sequence number").  `NumberedRun` excludes exactly that.  (Loading such a file already fails
with the format's error, so it takes a tag object loaded from another file to get there.) -/
def NumberedRun (c : Codec) (f : Bytes) : Prop :=
  ∀ old, commentPages c f = .ok old → toPackets (old.map (·.page)) false ≠ .error .value

theorem injectRaw_partial (c : Codec) (f vc padData : Bytes) (pad : PadChoice) (hnum : NumberedRun c f)
    (e : PyErr) (h : (injectRaw c f vc padData pad).err = some e) :
    e = .eof ∨ e = .mutagen ∨ e = .index ∨ e = .struct_ := by
  unfold injectRaw at h
  cases hc : commentPages c f with
  | error e' =>
    rw [hc] at h
    simp only [Option.some.injEq] at h; subst h
    rcases (commentPages_spec c f).1 _ hc with h | h
    · exact Or.inl h
    · exact Or.inr (Or.inl h)
  | ok old =>
    rw [hc] at h
    simp only at h
    have hnum' := hnum old hc
    obtain ⟨r, more, rfl, hcl, hread⟩ := (commentPages_spec c f).2 old hc
    have hfacts : ∀ x ∈ r :: more, Renderable x.page ∧ (x.page.complete = false → x.page.packets ≠ []) := by
      intro x hx
      obtain ⟨_, _, a, _, b⟩ := readPage_ok f _ _ _ (hread x hx)
      exact ⟨a, b⟩
    have hnoidx : toPackets ((r :: more).map (·.page)) false ≠ .error .index := by
      simp only [List.map_cons]
      apply toPackets_no_index
      intro hp
      have hcomp : r.page.complete = true := by
        cases hcc : r.page.complete with
        | true => rfl
        | false => exact absurd hp ((hfacts r (by simp)).2 hcc)
      rw [hcl (by simp [closed, hcomp])]; rfl
    cases hp : toPackets ((r :: more).map (·.page)) false with
    | error e' =>
      rcases toPackets_err _ _ _ hp with h' | h' <;> subst h'
      · exact absurd hp hnum'
      · exact absurd hp hnoidx
    | ok X =>
      rw [hp] at h
      cases X with
      | nil => simp only [Option.some.injEq] at h; subst h; exact Or.inr (Or.inr (Or.inl rfl))
      | cons old0 others =>
        simp only at h
        cases hn : newPacket c old0 vc padData pad f.length with
        | error e' =>
          rw [hn] at h
          simp only [Option.some.injEq] at h; subst h
          unfold newPacket at hn
          split at hn
          · split at hn
            · cases hn; exact Or.inr (Or.inl rfl)
            · cases hn
          · simp only at hn
            split at hn <;> cases hn
        | ok new0 =>
          rw [hn] at h
          simp only at h
          simp only [List.map_cons] at hp h
          obtain ⟨oL, hoL⟩ : ∃ oL, (r :: more).getLast? = some oL := by
            cases hg : (r :: more).getLast? with
            | none => simp at hg
            | some x => exact ⟨x, rfl⟩
          have hoL' : (r.page :: more.map (·.page)).getLast? = some oL.page := by
            have := congrArg (Option.map (·.page)) hoL
            rw [← List.getLast?_map] at this
            simpa using this
          have hold : ∀ q ∈ r.page :: more.map (·.page), Renderable q := by
            intro q hq
            have : q ∈ (r :: more).map (·.page) := by simpa using hq
            obtain ⟨x, hx, rfl⟩ := List.mem_map.mp this
            exact (hfacts x hx).1
          cases hnp : newPages c (new0 :: others) (r.page :: more.map (·.page)) with
          | error e' =>
            rcases newPages_ok c r.page (more.map (·.page)) (new0 :: others) _ hp with h' | ⟨_, _, h'⟩ <;>
              rw [h'] at hnp <;> cases hnp
          | ok new =>
            rw [hnp] at h
            obtain ⟨hnew, hlac⟩ := new_run_lacing c r.page (more.map (·.page)) oL.page (new0 :: others) _ new (by simp)
              hold hoL' hp hnp
            obtain ⟨n0, nr, rfl⟩ : ∃ n0 nr, new = n0 :: nr := by
              cases new with
              | nil => exact absurd rfl hnew
              | cons a b => exact ⟨a, b, rfl⟩
            simp only at h
            unfold replace at h
            simp only [List.head?_cons, hoL] at h
            cases hrl : renderList (prepare r.page oL.page (n0 :: nr)) with
            | error e' =>
              rw [hrl] at h
              simp only [Option.some.injEq] at h; subst h
              exact Or.inr (Or.inr (Or.inr (renderList_err_struct _ hlac _ hrl)))
            | ok data =>
              rw [hrl] at h
              simp only at h
              generalize replaceLoop ((r :: more).zip (fitData (r :: more).length data)) f 0 0 = rl at h
              obtain ⟨f1, dataEnd⟩ := rl
              simp only at h
              split at h
              · rcases renumber_spec _ _ f1 dataEnd _ (by omega) e h with hh | ⟨hh, _⟩
                · exact Or.inr (Or.inl hh)
                · exact Or.inr (Or.inr (Or.inr hh))
              · cases h

/-! ### save / delete under `NumberedRun`; the load path -/

theorem save_partial (c : Codec) (f vc padData : Bytes) (pad : PadChoice) (hnum : NumberedRun c f) (e : PyErr)
    (h : save c f vc padData pad = .error e) : e = .mutagen := by
  unfold save injectOutcome at h
  have hcl := injectRaw_partial c f vc padData pad hnum
  generalize injectRaw c f vc padData pad = R at h hcl
  obtain ⟨file, err⟩ := R
  cases err with
  | none => simp at h
  | some e' =>
    simp only [Option.map_some, Except.error.injEq] at h
    subst h
    rcases hcl e' rfl with h | h | h | h <;> subst h <;> rfl

/-- `OggFileType.load` around the constructors: ogg.error, IOError, EOFError and (since the repair of
the page-numbering escape) ValueError come out as the format's MutagenError -/
def wrapLoad : PyErr → PyErr
  | .eof => .mutagen
  | .io => .mutagen
  | .value => .mutagen
  | e => e

/-- the tags part of `load`: the codec's comment constructor, run with `info.serial` and the file
position the info constructor left, then `VComment.load` on what it found; returns `_padding` and
`_pad_data` -/
def loadTags (c : Codec) (f : Bytes) (serial pos : Nat) : Except PyErr (Nat × Bytes) :=
  match readComment c f serial pos with
  | .error e => .error (wrapLoad e)
  | .ok data =>
    match loadComment c data with
    | .error e => .error (wrapLoad e)
    | .ok v => .ok v

/-- Opus, where the info constructor is modelled too: `OggOpus(fileobj)` up to the tags -/
def loadOpus (f : Bytes) : Except PyErr (Nat × Bytes) :=
  match opusInfo f with
  | .error e => .error (wrapLoad e)
  | .ok (serial, pos) => loadTags .opus f serial pos

theorem reasm_ne_nil (acc : List Bytes) (ps : List Page) (h : acc ≠ []) : reasm acc ps ≠ [] := by
  induction ps generalizing acc with
  | nil => simpa [reasm] using h
  | cons p r ih => rw [reasm_cons]; exact ih _ (step_ne_nil_of_acc acc p h)

theorem toPackets_ne_nil (p : Page) (rest : List Page) (X : List Bytes) (hp : p.packets ≠ [])
    (h : toPackets (p :: rest) false = .ok X) : X ≠ [] := by
  simp only [toPackets, Bool.false_and, Bool.false_eq_true, ↓reduceIte, Bool.not_false, Bool.true_and] at h
  rw [toPacketsLoop_ok _ _ _ _ _ h, reasm_cons]
  exact reasm_ne_nil _ _ (step_ne_nil _ p hp)

theorem startsWith_packets (m : Bytes) (p : Page) (h : startsWith m p = true) : p.packets ≠ [] := by
  unfold startsWith at h
  intro hp; rw [hp] at h; cases h

theorem readComment_err (c : Codec) (f : Bytes) (serial pos : Nat) (e : PyErr) (h : readComment c f serial pos = .error e) :
    e = .eof ∨ e = .mutagen ∨ e = .value := by
  unfold readComment at h
  cases c with
  | opus =>
    simp only at h
    cases hs : scanFrom f (fun p => decide (p.serial = serial) && startsWith magicOpusTags p) (f.length + 1) pos with
    | error e' =>
      rw [hs] at h; simp only at h; cases h
      rcases (scanFrom_spec f _ _ pos (scan0 f pos)).1 _ hs with h | h
      · exact Or.inl h
      · exact Or.inr (Or.inl h)
    | ok v =>
      obtain ⟨r, next⟩ := v
      rw [hs] at h
      obtain ⟨_, _, hpred, _⟩ := (scanFrom_spec f _ _ pos (scan0 f pos)).2 r next hs
      have hpk : r.page.packets ≠ [] := by
        simp only [Bool.and_eq_true] at hpred
        exact startsWith_packets _ _ hpred.2
      simp only at h
      cases hcl : collect f r.page.serial (f.length + 1) [r] r.page next with
      | error e' =>
        rw [hcl] at h; simp only at h; cases h
        rcases (collect_spec f _ _ _ _ next (scan0 f next)).1 _ hcl with h | h
        · exact Or.inl h
        · exact Or.inr (Or.inl h)
      | ok rs =>
        rw [hcl] at h
        obtain ⟨more, rfl, _, _⟩ := (collect_spec f _ _ _ _ next (scan0 f next)).2 rs hcl
        simp only [List.cons_append, List.nil_append, List.map_cons] at h
        cases htp : toPackets (r.page :: more.map (·.page)) false with
        | error e' =>
          rw [htp] at h; simp only at h; cases h
          rcases toPackets_err _ _ _ htp with h | h
          · exact Or.inr (Or.inr h)
          · subst h
            exact absurd htp (toPackets_no_index _ _ (fun hh => absurd hh hpk))
        | ok X =>
          rw [htp] at h
          cases X with
          | nil => exact absurd rfl (toPackets_ne_nil _ _ _ hpk htp)
          | cons a b => simp at h
  | vorbis | speex | theora | flac =>
    all_goals
      simp only at h
      cases hl : readLoop f serial (f.length + 1) [] pos with
      | error e' =>
        rw [hl] at h; simp only at h; cases h
        rcases (readLoop_spec f _ _ _ pos (scan0 f pos)).1 _ hl with h | h
        · exact Or.inl h
        · exact Or.inr (Or.inl h)
      | ok ps =>
        rw [hl] at h
        obtain ⟨more, l, rfl, hm⟩ := (readLoop_spec f _ _ _ pos (scan0 f pos)).2 ps hl
        simp only [List.nil_append] at h
        cases htp : toPackets (more ++ [l]) false with
        | error e' =>
          rw [htp] at h; simp only at h; cases h
          rcases toPackets_err _ _ _ htp with h | h
          · exact Or.inr (Or.inr h)
          · subst h
            exfalso
            cases more with
            | nil => exact toPackets_no_index l [] (fun _ => rfl) htp
            | cons m ms =>
              exact toPackets_no_index m (ms ++ [l]) (fun hh => absurd hh (hm m (by simp)).2) htp
        | ok X =>
          rw [htp] at h
          cases X with
          | nil => simp at h; exact Or.inr (Or.inl h.symm)
          | cons a b => simp at h

/-- the tags part of `load`, any codec, any bytes, any serial number and position: it ends, and it
ends in ok or MutagenError -/
theorem loadTags_clean (c : Codec) (f : Bytes) (serial pos : Nat) (e : PyErr) (h : loadTags c f serial pos = .error e) :
    e = .mutagen := by
  unfold loadTags at h
  split at h
  · rename_i e' he
    simp only [Except.error.injEq] at h; subst h
    rcases readComment_err c f serial pos e' he with h | h | h <;> subst h <;> rfl
  · split at h
    · rename_i e' he
      simp only [Except.error.injEq] at h; subst h
      unfold loadComment at he
      split at he
      · cases he; rfl
      · split at he
        · cases he
        · split at he
          · split at he <;> cases he
          · cases he
        · cases he
    · cases h

/-- `OggOpus(fileobj)` up to the tags, any bytes: ok or MutagenError (a header packet shorter than
19 bytes is "truncated ID header") -/
theorem loadOpus_clean (f : Bytes) (e : PyErr) (h : loadOpus f = .error e) : e = .mutagen := by
  unfold loadOpus at h
  split at h
  · rename_i e' he
    simp only [Except.error.injEq] at h; subst h
    rcases opusInfo_err f e' he with h | h <;> subst h <;> rfl
  · exact loadTags_clean _ _ _ _ _ h

end Mutagen.OggInj
