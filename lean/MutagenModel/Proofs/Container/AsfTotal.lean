/- Proofs/Container/AsfTotal.lean — ASF: which exception classes load / save / delete can end in, for
every byte string (C04 closure) -/
import MutagenModel.Proofs.Container.Asf
set_option linter.unusedVariables false
namespace Mutagen.Asf
open Mutagen Mutagen.AsfAttr

/-! ### loading -/

theorem leafOf_err {g d : Bytes} {e : PyErr} (h : leafOf g d = .error e) : e = .mutagen := by
  unfold leafOf at h
  repeat' split at h
  all_goals cases h
  all_goals rfl

theorem extLoop_err (data : Bytes) (ds : Nat) (fuel datapos : Nat) {e : PyErr} (h : extLoop data ds fuel datapos = .error e) :
    e = .mutagen ∨ e = .diverge := by
  induction fuel generalizing datapos with
  | zero =>
    unfold extLoop at h
    split at h <;> cases h
    exact Or.inr rfl
  | succ fuel ih =>
    unfold extLoop at h
    split at h
    · simp only [] at h
      split at h
      · cases h; exact Or.inl rfl
      · split at h
        · cases h; exact Or.inl rfl
        · split at h
          · cases h; exact Or.inl rfl
          · split at h
            · rename_i e' he
              cases h
              exact Or.inl (leafOf_err he)
            · split at h
              · rename_i e' he
                cases h
                exact ih _ he
              · cases h
    · cases h

/-- HeaderExtensionObject.parse: nothing but a MutagenError -/
theorem parseExt_err {data : Bytes} {e : PyErr} (h : parseExt data = .error e) : e = .mutagen := by
  have hnd := parseExt_no_diverge data
  unfold parseExt at h
  simp only [] at h
  split at h
  · cases h; rfl
  · rcases extLoop_err _ _ _ _ h with h1 | h1
    · exact h1
    · subst h1
      exfalso; apply hnd
      unfold parseExt
      simp only []
      rename_i hc
      rw [if_neg hc]; exact h

theorem objOf_err {g d : Bytes} {e : PyErr} (h : objOf g d = .error e) : e = .mutagen := by
  unfold objOf at h
  split at h
  · split at h
    · rename_i e' he; cases h; exact parseExt_err he
    · cases h
  · split at h
    · rename_i e' he; cases h; exact leafOf_err he
    · cases h

theorem parseObjects_err (f : Bytes) (n pos rem : Nat) {e : PyErr} (h : parseObjects f n pos rem = .error e) : e = .mutagen := by
  induction n generalizing pos rem with
  | zero => cases h
  | succ n ih =>
    unfold parseObjects at h
    simp only [] at h
    repeat' split at h
    all_goals first
      | (cases h; rfl)
      | (rename_i e' he; cases h; first | exact objOf_err he | exact ih _ _ he)
      | cases h

theorem parseSize_err {f : Bytes} {e : PyErr} (h : parseSize f = .error e) : e = .mutagen := by
  unfold parseSize at h
  simp only [] at h
  split at h <;> cases h
  rfl

/-- `ASF(file)` on any byte string: a tree or a MutagenError -/
theorem parseFull_err {f : Bytes} {e : PyErr} (h : parseFull f = .error e) : e = .mutagen := by
  unfold parseFull at h
  split at h
  · rename_i e' he; cases h; exact parseSize_err he
  · exact parseObjects_err _ _ _ _ h

/-! ### saving: which classes at all -/

theorem concatMapE_err {α : Type} (Q : PyErr → Prop) (f : α → Except PyErr Bytes) (l : List α)
    (hf : ∀ x ∈ l, ∀ e, f x = .error e → Q e) {e : PyErr} (h : concatMapE f l = .error e) : Q e := by
  induction l with
  | nil => cases h
  | cons x r ih =>
    simp only [concatMapE] at h
    split at h
    · rename_i e' he; cases h; exact hf x List.mem_cons_self _ he
    · split at h
      · rename_i e' he; cases h; exact ih (fun y hy => hf y (List.mem_cons_of_mem _ hy)) he
      · cases h

theorem encodeStr_err {cs : List Nat} {e : PyErr} (h : encodeStr cs = .error e) : e = .unicode := by
  unfold encodeStr at h; split at h <;> cases h; rfl

theorem valRender_err {v : Val} {dw : Bool} {e : PyErr} (h : v.render dw = .error e) : e = .unicode ∨ e = .struct_ := by
  cases v with
  | unicode cs =>
    simp only [Val.render] at h
    split at h
    · rename_i e' he; cases h; exact Or.inl (encodeStr_err he)
    · cases h
  | bytes b => cases h
  | guid b => cases h
  | bool x => cases h
  | dword n => simp only [Val.render] at h; split at h <;> cases h; exact Or.inr rfl
  | qword n => simp only [Val.render] at h; split at h <;> cases h; exact Or.inr rfl
  | word n => simp only [Val.render] at h; split at h <;> cases h; exact Or.inr rfl

theorem attrOf_err {t : Tag} {dw : Bool} {l s : Nat} {e : PyErr} (h : attrOf t dw l s = .error e) : e = .unicode ∨ e = .struct_ := by
  unfold attrOf at h
  split at h
  · rename_i e' he; cases h; exact Or.inl (encodeStr_err he)
  · split at h
    · rename_i e' he; cases h; exact valRender_err he
    · cases h

theorem recECD_err {t : Tag} {e : PyErr} (h : recECD t = .error e) : e = .unicode ∨ e = .struct_ := by
  unfold recECD at h
  split at h
  · rename_i e' he; cases h; exact attrOf_err he
  · split at h <;> cases h; exact Or.inr rfl

theorem recM_err {t : Tag} {e : PyErr} (h : recM t = .error e) : e = .unicode ∨ e = .struct_ := by
  unfold recM at h
  split at h
  · rename_i e' he; cases h; exact attrOf_err he
  · split at h <;> cases h; exact Or.inr rfl

theorem recML_err {t : Tag} {e : PyErr} (h : recML t = .error e) : e = .unicode ∨ e = .struct_ := by
  unfold recML at h
  split at h
  · rename_i e' he; cases h; exact attrOf_err he
  · split at h <;> cases h; exact Or.inr rfl

theorem listPayload_err {rec : Tag → Except PyErr Bytes} {ts : List Tag} {e : PyErr}
    (hrec : ∀ t ∈ ts, ∀ e, rec t = .error e → e = .unicode ∨ e = .struct_) (h : listPayload rec ts = .error e) :
    e = .unicode ∨ e = .struct_ := by
  unfold listPayload at h
  split at h
  · rename_i e' he; cases h
    exact concatMapE_err (fun e => e = .unicode ∨ e = .struct_) rec ts hrec he
  · split at h <;> cases h; exact Or.inr rfl

theorem cdText_err {d : Dist} {n : List Nat} {e : PyErr} (h : cdText d n = .error e) :
    e = .unicode ∨ (e = .notImplemented ∧ ∃ t ∈ d.cd, t.val.typ ≠ 0) := by
  unfold cdText at h
  split at h
  · cases h
  · rename_i t ht
    have hmem : t ∈ d.cd := List.mem_of_find?_eq_some ht
    split at h
    · split at h
      · rename_i e' he; cases h; exact Or.inl (encodeStr_err he)
      · cases h
    · rename_i hv
      cases h
      refine Or.inr ⟨rfl, t, hmem, ?_⟩
      cases hval : t.val with
      | unicode cs => exact absurd hval (hv cs)
      | bytes b => simp [Val.typ]
      | bool x => simp [Val.typ]
      | dword n => simp [Val.typ]
      | qword n => simp [Val.typ]
      | word n => simp [Val.typ]
      | guid b => simp [Val.typ]

theorem cdTexts_err {d : Dist} (names : List (List Nat)) {e : PyErr} (h : cdTexts d names = .error e) :
    e = .unicode ∨ (e = .notImplemented ∧ ∃ t ∈ d.cd, t.val.typ ≠ 0) := by
  induction names with
  | nil => cases h
  | cons n r ih =>
    simp only [cdTexts] at h
    split at h
    · rename_i e' he; cases h; exact cdText_err he
    · split at h
      · rename_i e' he; cases h; exact ih he
      · cases h

theorem cdPayload_err {d : Dist} {e : PyErr} (h : cdPayload d = .error e) :
    e = .unicode ∨ e = .struct_ ∨ (e = .notImplemented ∧ ∃ t ∈ d.cd, t.val.typ ≠ 0) := by
  unfold cdPayload at h
  split at h
  · rename_i e' he; cases h
    rcases cdTexts_err _ he with h1 | h1
    · exact Or.inl h1
    · exact Or.inr (Or.inr h1)
  · split at h <;> cases h; exact Or.inr (Or.inl rfl)

/-- rendering one object: UnicodeEncodeError or struct.error — given that the Content Description
list holds text values only (which `distribute` guarantees) -/
theorem renderLeaf_err {d : Dist} (hcd : ∀ t ∈ d.cd, t.val.typ = 0) {l : Leaf} {e : PyErr} (h : renderLeaf d l = .error e) :
    e = .unicode ∨ e = .struct_ := by
  cases l with
  | raw g x => cases h
  | cd x =>
    simp only [renderLeaf] at h
    split at h
    · rename_i e' he; cases h
      rcases cdPayload_err he with h1 | h1 | ⟨_, t, ht, hne⟩
      · exact Or.inl h1
      · exact Or.inr h1
      · exact absurd (hcd t ht) hne
    · cases h
  | ecd x =>
    simp only [renderLeaf] at h
    split at h
    · rename_i e' he; cases h; exact listPayload_err (fun t _ e he => recECD_err he) he
    · cases h
  | mo x =>
    simp only [renderLeaf] at h
    split at h
    · rename_i e' he; cases h; exact listPayload_err (fun t _ e he => recM_err he) he
    · cases h
  | metaLib x =>
    simp only [renderLeaf] at h
    split at h
    · rename_i e' he; cases h; exact listPayload_err (fun t _ e he => recML_err he) he
    · cases h

theorem renderObj_err {d : Dist} (hcd : ∀ t ∈ d.cd, t.val.typ = 0) {o : Obj} {e : PyErr} (h : renderObj d o = .error e) :
    e = .unicode ∨ e = .struct_ := by
  cases o with
  | leaf l => exact renderLeaf_err hcd h
  | ext cs =>
    simp only [renderObj] at h
    split at h
    · rename_i e' he; cases h
      exact concatMapE_err (fun e => e = .unicode ∨ e = .struct_) _ _ (fun l _ e he => renderLeaf_err hcd he) he
    · split at h <;> cases h; exact Or.inr rfl

theorem renderFull_err {d : Dist} (hcd : ∀ t ∈ d.cd, t.val.typ = 0) {objs : List Obj} {fl av : Nat} {pad : PadChoice} {e : PyErr}
    (h : renderFull d objs fl av pad = .error e) : e = .mutagen ∨ e = .unicode ∨ e = .struct_ := by
  unfold renderFull at h
  simp only [] at h
  split at h
  · rename_i e' he; cases h
    exact Or.inr (concatMapE_err (fun e => e = .unicode ∨ e = .struct_) _ _ (fun o _ e he => renderObj_err hcd he) he)
  · split at h
    · cases h; exact Or.inl rfl
    · split at h
      · split at h
        · rename_i e' he; cases h
          exact Or.inr (concatMapE_err (fun e => e = .unicode ∨ e = .struct_) _ _ (fun o _ e he => renderObj_err hcd he) he)
        · split at h <;> cases h; exact Or.inr (Or.inr rfl)
      · cases h

theorem distPure_cd_text (tags : List Tag) : ∀ t ∈ (distPure tags).cd, t.val.typ = 0 :=
  fun t ht => ((distInv_distPure tags).fitsCD t ht).2.1

theorem distribute_ok {tags : List Tag} {d : Dist} (h : distribute tags = .ok d) : d = distPure tags := by
  unfold distribute at h; split at h <;> cases h; rfl

theorem distribute_err {tags : List Tag} {e : PyErr} (h : distribute tags = .error e) : e = .unicode := by
  unfold distribute at h; split at h <;> cases h; rfl

theorem structToMutagen_cases {e : PyErr} (h : e = .mutagen ∨ e = .unicode ∨ e = .struct_) :
    structToMutagen e = .mutagen ∨ structToMutagen e = .unicode := by
  rcases h with rfl | rfl | rfl
  · exact Or.inl rfl
  · exact Or.inr rfl
  · exact Or.inl rfl

/-- `ASF.save` through a loaded object, any tree, any file, any tags, any padding answer: a MutagenError
(struct.error from rendering is turned into one) or UnicodeEncodeError — nothing else -/
theorem saveTree_err {objs : List Obj} {f : Bytes} {tags : List Tag} {pad : PadChoice} {e : PyErr}
    (h : saveTree objs f tags pad = .error e) : e = .mutagen ∨ e = .unicode := by
  unfold saveTree at h
  split at h
  · rename_i e' he; cases h; exact Or.inr (distribute_err he)
  · rename_i d hd
    simp only [] at h
    split at h
    · rename_i e' he; cases h; exact Or.inl (parseSize_err he)
    · split at h
      · rename_i e' he; cases h
        have := distribute_ok hd
        subst this
        exact structToMutagen_cases (renderFull_err (distPure_cd_text tags) he)
      · cases h

/-! ### tags whose strings can be encoded: no UnicodeEncodeError -/

/-- name and text value are sequences of Unicode scalar values (what `str.encode("utf-16-le")` accepts) -/
def Tag.Enc (t : Tag) : Prop := t.name.all isScalar = true ∧ t.val.encodable = true

instance (t : Tag) : Decidable t.Enc := by unfold Tag.Enc; infer_instance

theorem encodeStr_of_scalar {cs : List Nat} (h : cs.all isScalar = true) : encodeStr cs = .ok (encodeUtf16 cs) := by
  unfold encodeStr; rw [if_pos h]

theorem valRender_err_enc {v : Val} (hv : v.encodable = true) {dw : Bool} {e : PyErr} (h : v.render dw = .error e) : e = .struct_ := by
  rcases valRender_err h with h1 | h1
  · subst h1
    cases v with
    | unicode cs =>
      simp only [Val.encodable] at hv
      simp only [Val.render, encodeStr_of_scalar hv] at h
      cases h
    | bytes b => cases h
    | guid b => cases h
    | bool x => cases h
    | dword n => simp only [Val.render] at h; split at h <;> cases h
    | qword n => simp only [Val.render] at h; split at h <;> cases h
    | word n => simp only [Val.render] at h; split at h <;> cases h
  · exact h1

theorem attrOf_err_enc {t : Tag} (ht : t.Enc) {dw : Bool} {l s : Nat} {e : PyErr} (h : attrOf t dw l s = .error e) : e = .struct_ := by
  unfold attrOf at h
  rw [encodeStr_of_scalar ht.1] at h
  simp only [] at h
  split at h
  · rename_i e' he; cases h; exact valRender_err_enc ht.2 he
  · cases h

theorem recECD_err_enc {t : Tag} (ht : t.Enc) {e : PyErr} (h : recECD t = .error e) : e = .struct_ := by
  unfold recECD at h
  split at h
  · rename_i e' he; cases h; exact attrOf_err_enc ht he
  · split at h <;> cases h; rfl

theorem recM_err_enc {t : Tag} (ht : t.Enc) {e : PyErr} (h : recM t = .error e) : e = .struct_ := by
  unfold recM at h
  split at h
  · rename_i e' he; cases h; exact attrOf_err_enc ht he
  · split at h <;> cases h; rfl

theorem recML_err_enc {t : Tag} (ht : t.Enc) {e : PyErr} (h : recML t = .error e) : e = .struct_ := by
  unfold recML at h
  split at h
  · rename_i e' he; cases h; exact attrOf_err_enc ht he
  · split at h <;> cases h; rfl

theorem listPayload_err_enc {rec : Tag → Except PyErr Bytes} {ts : List Tag} {e : PyErr}
    (hrec : ∀ t ∈ ts, ∀ e, rec t = .error e → e = .struct_) (h : listPayload rec ts = .error e) : e = .struct_ := by
  unfold listPayload at h
  split at h
  · rename_i e' he; cases h
    exact concatMapE_err (fun e => e = .struct_) rec ts hrec he
  · split at h <;> cases h; rfl

theorem cdText_ok_enc {d : Dist} (hcd : ∀ t ∈ d.cd, t.val.typ = 0 ∧ t.Enc) (n : List Nat) : ∃ b, cdText d n = .ok b := by
  unfold cdText
  split
  · exact ⟨_, rfl⟩
  · rename_i t ht
    have hmem : t ∈ d.cd := List.mem_of_find?_eq_some ht
    obtain ⟨h0, _, he⟩ := hcd t hmem
    cases hval : t.val with
    | unicode cs =>
      rw [hval] at he
      simp only [Val.encodable] at he
      simp only [encodeStr_of_scalar he]
      exact ⟨_, rfl⟩
    | bytes b => rw [hval] at h0; simp [Val.typ] at h0
    | bool x => rw [hval] at h0; simp [Val.typ] at h0
    | dword n => rw [hval] at h0; simp [Val.typ] at h0
    | qword n => rw [hval] at h0; simp [Val.typ] at h0
    | word n => rw [hval] at h0; simp [Val.typ] at h0
    | guid b => rw [hval] at h0; simp [Val.typ] at h0

theorem cdTexts_ok_enc {d : Dist} (hcd : ∀ t ∈ d.cd, t.val.typ = 0 ∧ t.Enc) (names : List (List Nat)) : ∃ ts, cdTexts d names = .ok ts := by
  induction names with
  | nil => exact ⟨[], rfl⟩
  | cons n r ih =>
    obtain ⟨b, hb⟩ := cdText_ok_enc hcd n
    obtain ⟨ts, hts⟩ := ih
    exact ⟨b :: ts, by simp only [cdTexts, hb, hts]⟩

theorem cdPayload_err_enc {d : Dist} (hcd : ∀ t ∈ d.cd, t.val.typ = 0 ∧ t.Enc) {e : PyErr} (h : cdPayload d = .error e) : e = .struct_ := by
  unfold cdPayload at h
  obtain ⟨ts, hts⟩ := cdTexts_ok_enc hcd cdNames
  rw [hts] at h
  simp only [] at h
  split at h <;> cases h; rfl

/-- all four target lists hold encodable tags, the Content Description list text only -/
structure Dist.Enc (d : Dist) : Prop where
  cd : ∀ t ∈ d.cd, t.val.typ = 0 ∧ t.Enc
  ecd : ∀ t ∈ d.ecd, t.Enc
  mo : ∀ t ∈ d.mo, t.Enc
  ml : ∀ t ∈ d.ml, t.Enc

theorem renderLeaf_err_enc {d : Dist} (hd : d.Enc) {l : Leaf} {e : PyErr} (h : renderLeaf d l = .error e) : e = .struct_ := by
  cases l with
  | raw g x => cases h
  | cd x =>
    simp only [renderLeaf] at h
    split at h
    · rename_i e' he; cases h; exact cdPayload_err_enc hd.cd he
    · cases h
  | ecd x =>
    simp only [renderLeaf] at h
    split at h
    · rename_i e' he; cases h; exact listPayload_err_enc (fun t ht e he => recECD_err_enc (hd.ecd t ht) he) he
    · cases h
  | mo x =>
    simp only [renderLeaf] at h
    split at h
    · rename_i e' he; cases h; exact listPayload_err_enc (fun t ht e he => recM_err_enc (hd.mo t ht) he) he
    · cases h
  | metaLib x =>
    simp only [renderLeaf] at h
    split at h
    · rename_i e' he; cases h; exact listPayload_err_enc (fun t ht e he => recML_err_enc (hd.ml t ht) he) he
    · cases h

theorem renderObj_err_enc {d : Dist} (hd : d.Enc) {o : Obj} {e : PyErr} (h : renderObj d o = .error e) : e = .struct_ := by
  cases o with
  | leaf l => exact renderLeaf_err_enc hd h
  | ext cs =>
    simp only [renderObj] at h
    split at h
    · rename_i e' he; cases h
      exact concatMapE_err (fun e => e = .struct_) _ _ (fun l _ e he => renderLeaf_err_enc hd he) he
    · split at h <;> cases h; rfl

theorem renderFull_err_enc {d : Dist} (hd : d.Enc) {objs : List Obj} {fl av : Nat} {pad : PadChoice} {e : PyErr}
    (h : renderFull d objs fl av pad = .error e) : e = .mutagen ∨ e = .struct_ := by
  unfold renderFull at h
  simp only [] at h
  split at h
  · rename_i e' he; cases h
    exact Or.inr (concatMapE_err (fun e => e = .struct_) _ _ (fun o _ e he => renderObj_err_enc hd he) he)
  · split at h
    · cases h; exact Or.inl rfl
    · split at h
      · split at h
        · rename_i e' he; cases h
          exact Or.inr (concatMapE_err (fun e => e = .struct_) _ _ (fun o _ e he => renderObj_err_enc hd he) he)
        · split at h <;> cases h; exact Or.inr rfl
      · cases h

theorem distPure_enc (tags : List Tag) (h : ∀ t ∈ tags, t.Enc) : (distPure tags).Enc := by
  have inv := distInv_distPure tags
  refine ⟨fun t ht => ⟨(inv.fitsCD t ht).2.1, h t (inv.subCD.subset ht)⟩, fun t ht => h t (inv.subECD.subset ht),
    fun t ht => h t (inv.subM.subset ht), fun t ht => h t (inv.subML.subset ht)⟩

theorem distribute_of_enc (tags : List Tag) (h : ∀ t ∈ tags, t.Enc) : distribute tags = .ok (distPure tags) := by
  unfold distribute
  rw [if_pos]
  exact List.all_eq_true.mpr (fun t ht => (h t ht).2)

/-- with encodable tags: a MutagenError -/
theorem saveTree_err_enc {objs : List Obj} {f : Bytes} {tags : List Tag} (ht : ∀ t ∈ tags, t.Enc) {pad : PadChoice} {e : PyErr}
    (h : saveTree objs f tags pad = .error e) : e = .mutagen := by
  unfold saveTree at h
  rw [distribute_of_enc tags ht] at h
  simp only [] at h
  split at h
  · rename_i e' he; cases h; exact parseSize_err he
  · split at h
    · rename_i e' he; cases h
      rcases renderFull_err_enc (distPure_enc tags ht) he with rfl | rfl <;> rfl
    · cases h

/-! ### the tags a file loads with are encodable -/

theorem isScalar_of_lt {u : Nat} (h1 : u < 65536) (h2 : ¬ (0xD800 ≤ u ∧ u < 0xDC00)) (h3 : ¬ (0xDC00 ≤ u ∧ u < 0xE000)) :
    isScalar u = true := by
  unfold isScalar
  simp only [Bool.and_eq_true, decide_eq_true_eq, Bool.not_eq_true', Bool.and_eq_false_iff, decide_eq_false_iff_not]
  omega

theorem fromUnits_scalar_aux (n : Nat) : ∀ (us : List Nat), us.length ≤ n → (∀ u ∈ us, u < 65536) → ∀ {cs : List Nat},
    fromUnits us = some cs → cs.all isScalar = true := by
  induction n with
  | zero =>
    intro us hl _ cs h
    have : us = [] := List.length_eq_zero_iff.mp (by omega)
    subst this
    simp only [fromUnits] at h; cases h; rfl
  | succ n ih =>
    intro us hl hu cs h
    cases us with
    | nil => simp only [fromUnits] at h; cases h; rfl
    | cons u r =>
      by_cases hs : 0xD800 ≤ u ∧ u < 0xDC00
      · cases r with
        | nil => simp only [fromUnits, hs, and_self, ↓reduceIte] at h; cases h
        | cons v r' =>
          by_cases hv : 0xDC00 ≤ v ∧ v < 0xE000
          · rw [fromUnits_pair u v r' hs hv] at h
            obtain ⟨cs', hcs', rfl⟩ := Option.map_eq_some_iff.mp h
            have := ih r' (by simp at hl; omega) (fun x hx => hu x (List.mem_cons_of_mem _ (List.mem_cons_of_mem _ hx))) hcs'
            simp only [List.all_cons, this, Bool.and_true]
            unfold isScalar
            simp only [Bool.and_eq_true, decide_eq_true_eq, Bool.not_eq_true', Bool.and_eq_false_iff, decide_eq_false_iff_not]
            omega
          · rw [fromUnits] at h
            simp only [hs, hv, and_self, ↓reduceIte] at h
            cases h
      · by_cases hl2 : 0xDC00 ≤ u ∧ u < 0xE000
        · cases r with
          | nil => simp only [fromUnits, hs, hl2, and_self, ↓reduceIte] at h; cases h
          | cons v r' => rw [fromUnits] at h; simp only [hs, hl2, and_self, ↓reduceIte] at h; cases h
        · rw [fromUnits_single u r hs hl2] at h
          obtain ⟨cs', hcs', rfl⟩ := Option.map_eq_some_iff.mp h
          have := ih r (by simp at hl; omega) (fun x hx => hu x (List.mem_cons_of_mem _ hx)) hcs'
          simp only [List.all_cons, this, Bool.and_true]
          exact isScalar_of_lt (hu u List.mem_cons_self) hs hl2

theorem fromUnits_scalar (us : List Nat) (hu : ∀ u ∈ us, u < 65536) {cs : List Nat} (h : fromUnits us = some cs) :
    cs.all isScalar = true := fromUnits_scalar_aux us.length us (Nat.le_refl _) hu h

theorem bytesToUnits_lt_aux (n : Nat) : ∀ (b : Bytes), b.length ≤ n → ∀ {us : List Nat}, bytesToUnits b = some us → ∀ u ∈ us, u < 65536 := by
  induction n with
  | zero =>
    intro b hl us h
    have : b = [] := List.length_eq_zero_iff.mp (by omega)
    subst this
    simp only [bytesToUnits] at h; cases h
    intro u hu; cases hu
  | succ n ih =>
    intro b hl us h
    match b, hl, h with
    | [], _, h => simp only [bytesToUnits] at h; cases h; intro u hu; cases hu
    | [x], _, h => simp only [bytesToUnits] at h; cases h
    | x :: y :: r, hl, h =>
      simp only [bytesToUnits] at h
      obtain ⟨us', hus', rfl⟩ := Option.map_eq_some_iff.mp h
      intro u hu
      rcases List.mem_cons.mp hu with rfl | hu
      · have := x.toNat_lt; have := y.toNat_lt; omega
      · exact ih r (by simp at hl; omega) hus' u hu

theorem decodeUtf16_scalar {b : Bytes} {cs : List Nat} (h : decodeUtf16 b = some cs) : cs.all isScalar = true := by
  unfold decodeUtf16 at h
  obtain ⟨us, hus, hcs⟩ := Option.bind_eq_some_iff.mp h
  exact fromUnits_scalar us (bytesToUnits_lt_aux b.length b (Nat.le_refl _) hus) hcs

theorem all_of_sublist {cs ds : List Nat} (hs : ds.Sublist cs) (h : cs.all isScalar = true) : ds.all isScalar = true :=
  List.all_eq_true.mpr (fun x hx => List.all_eq_true.mp h x (hs.subset hx))

theorem stripNul_sublist (cs : List Nat) : (stripNul cs).Sublist cs := by
  unfold stripNul stripFront
  have h1 : (List.dropWhile (· == 0) cs).Sublist cs := (List.dropWhile_suffix _).sublist
  have h2 : (List.dropWhile (· == 0) (List.dropWhile (· == 0) cs).reverse).Sublist (List.dropWhile (· == 0) cs).reverse :=
    (List.dropWhile_suffix _).sublist
  have h3 := List.reverse_sublist.mpr h2
  rw [List.reverse_reverse] at h3
  exact h3.trans h1

theorem decodeText_scalar {b : Bytes} {cs : List Nat} (h : decodeText b = some cs) : cs.all isScalar = true := by
  unfold decodeText at h
  obtain ⟨cs', hcs', rfl⟩ := Option.map_eq_some_iff.mp h
  exact all_of_sublist (stripNul_sublist cs') (decodeUtf16_scalar hcs')

theorem parseVal_enc {typ : Nat} {data : Bytes} {dw : Bool} {v : Val} (h : parseVal typ data dw = some v) : v.encodable = true := by
  unfold parseVal at h
  repeat' split at h
  all_goals first
    | (obtain ⟨cs, hcs, rfl⟩ := Option.map_eq_some_iff.mp h; exact decodeText_scalar hcs)
    | (cases h; rfl)
    | cases h

theorem cdNames_scalar : ∀ n ∈ cdNames, n.all isScalar = true := by decide

theorem parseCDTexts_scalar (lens : List Nat) (d : Bytes) {texts : List (Option (List Nat))} (h : parseCDTexts lens d = some texts) :
    ∀ t ∈ texts, ∀ cs, t = some cs → cs.all isScalar = true := by
  induction lens generalizing d texts with
  | nil => simp only [parseCDTexts] at h; cases h; intro t ht; cases ht
  | cons len r ih =>
    simp only [parseCDTexts] at h
    split at h
    · split at h
      · cases h
      · rename_i t ht
        obtain ⟨ts, hts, rfl⟩ := Option.map_eq_some_iff.mp h
        intro x hx cs hcs
        rcases List.mem_cons.mp hx with rfl | hx
        · cases hcs; exact decodeText_scalar ht
        · exact ih _ hts x hx cs hcs
    · obtain ⟨ts, hts, rfl⟩ := Option.map_eq_some_iff.mp h
      intro x hx cs hcs
      rcases List.mem_cons.mp hx with rfl | hx
      · cases hcs
      · exact ih _ hts x hx cs hcs

theorem parseCD_enc {data : Bytes} {ts : List Tag} (h : parseCD data = some ts) : ∀ t ∈ ts, t.Enc := by
  unfold parseCD at h
  split at h
  · cases h
  · simp only [] at h
    split at h
    · cases h
    · rename_i texts htexts
      cases h
      intro t ht
      simp only [List.mem_filterMap] at ht
      obtain ⟨⟨n, tx⟩, hmem, hsome⟩ := ht
      simp only [Option.map_eq_some_iff] at hsome
      obtain ⟨cs, hcs, rfl⟩ := hsome
      have hz := List.of_mem_zip hmem
      exact ⟨cdNames_scalar n hz.1, parseCDTexts_scalar _ _ htexts tx hz.2 cs hcs⟩

theorem parseECDRecs_enc (n : Nat) (d : Bytes) {ts : List Tag} (h : parseECDRecs n d = some ts) : ∀ t ∈ ts, t.Enc := by
  induction n generalizing d ts with
  | zero => simp only [parseECDRecs] at h; cases h; intro t ht; cases ht
  | succ n ih =>
    simp only [parseECDRecs] at h
    split at h
    · cases h
    · split at h
      · cases h
      · rename_i name hname
        split at h
        · cases h
        · split at h
          · cases h
          · rename_i v hv
            obtain ⟨ts', hts', rfl⟩ := Option.map_eq_some_iff.mp h
            intro t ht
            rcases List.mem_cons.mp ht with rfl | ht
            · exact ⟨decodeText_scalar hname, parseVal_enc hv⟩
            · exact ih _ hts' t ht

theorem parseMLRecs_enc (lib : Bool) (n : Nat) (d : Bytes) {ts : List Tag} (h : parseMLRecs lib n d = some ts) : ∀ t ∈ ts, t.Enc := by
  induction n generalizing d ts with
  | zero => simp only [parseMLRecs] at h; cases h; intro t ht; cases ht
  | succ n ih =>
    simp only [parseMLRecs] at h
    split at h
    · cases h
    · split at h
      · cases h
      · rename_i name hname
        split at h
        · cases h
        · rename_i v hv
          obtain ⟨ts', hts', rfl⟩ := Option.map_eq_some_iff.mp h
          intro t ht
          rcases List.mem_cons.mp ht with rfl | ht
          · exact ⟨decodeText_scalar hname, parseVal_enc hv⟩
          · exact ih _ hts' t ht

theorem getD_enc {o : Option (List Tag)} (h : ∀ ts, o = some ts → ∀ t ∈ ts, t.Enc) : ∀ t ∈ o.getD [], t.Enc := by
  cases o with
  | none => intro t ht; cases ht
  | some ts => exact h ts rfl

/-- every tag a file loads with can be encoded again: an unchanged save raises no UnicodeEncodeError -/
theorem loadedTags_enc (objs : List Obj) : ∀ t ∈ loadedTags objs, t.Enc := by
  intro t ht
  unfold loadedTags at ht
  simp only [List.mem_append, List.mem_flatten, List.mem_map] at ht
  rcases ht with ((⟨l, ⟨x, _, rfl⟩, hl⟩ | ⟨l, ⟨x, _, rfl⟩, hl⟩) | ⟨l, ⟨x, _, rfl⟩, hl⟩) | ⟨l, ⟨x, _, rfl⟩, hl⟩
  · cases x with
    | cd d => exact getD_enc (fun ts h => parseCD_enc h) t hl
    | raw g d => cases hl
    | ecd d => cases hl
    | mo d => cases hl
    | metaLib d => cases hl
  · cases x with
    | ecd d =>
      refine getD_enc (fun ts h => ?_) t hl
      unfold parseECD at h; split at h
      · cases h
      · exact parseECDRecs_enc _ _ h
    | raw g d => cases hl
    | cd d => cases hl
    | mo d => cases hl
    | metaLib d => cases hl
  · cases x with
    | mo d =>
      refine getD_enc (fun ts h => ?_) t hl
      unfold parseML at h; split at h
      · cases h
      · exact parseMLRecs_enc _ _ _ h
    | raw g d => cases hl
    | cd d => cases hl
    | ecd d => cases hl
    | metaLib d => cases hl
  · cases x with
    | metaLib d =>
      refine getD_enc (fun ts h => ?_) t hl
      unfold parseML at h; split at h
      · cases h
      · exact parseMLRecs_enc _ _ _ h
    | raw g d => cases hl
    | cd d => cases hl
    | ecd d => cases hl
    | mo d => cases hl

/-! ### tags every `struct.pack` accepts -/

/-- numbers fit their type (`struct.pack("<L" / "<Q" / "<H")`) -/
def Val.inRange : Val → Prop
  | .dword n => n < 256 ^ 4
  | .qword n => n < 256 ^ 8
  | .word n => n < 256 ^ 2
  | _ => True

instance (v : Val) : Decidable v.inRange := by cases v <;> simp only [Val.inRange] <;> infer_instance

/-- a tag `ASF.save` can render wherever the decision logic puts it: strings encodable, numbers in the
range of their type, the encoded name with its terminator below 64 KiB (16-bit name length), the value
below 4 GiB (32-bit value length of the Metadata Library Object), language and stream 16 bits -/
structure Tag.Renderable (t : Tag) : Prop where
  enc : t.Enc
  name : (encodeUtf16 t.name).length + 2 < 65536
  range : t.val.inRange
  size : t.val.dataSize < 4294967296
  lang : t.language.getD 0 < 65536
  stream : t.stream.getD 0 < 65536

instance (t : Tag) : Decidable t.Renderable :=
  decidable_of_iff (t.Enc ∧ (encodeUtf16 t.name).length + 2 < 65536 ∧ t.val.inRange ∧ t.val.dataSize < 4294967296 ∧
      t.language.getD 0 < 65536 ∧ t.stream.getD 0 < 65536)
    ⟨fun h => ⟨h.1, h.2.1, h.2.2.1, h.2.2.2.1, h.2.2.2.2.1, h.2.2.2.2.2⟩, fun h => ⟨h.enc, h.name, h.range, h.size, h.lang, h.stream⟩⟩

/-- a tag list `ASF.save` can render: every tag renderable, fewer than 65536 tags (16-bit counts) -/
def Renderable (tags : List Tag) : Prop := (∀ t ∈ tags, t.Renderable) ∧ tags.length < 65536

instance (tags : List Tag) : Decidable (Renderable tags) := by unfold Renderable; infer_instance

theorem valRender_ok {v : Val} (he : v.encodable = true) (hr : v.inRange) (dw : Bool) :
    ∃ data, v.render dw = .ok data ∧ data.length ≤ v.dataSize ∧ (dw = true → data.length = v.dataSize) := by
  cases v with
  | unicode cs =>
    simp only [Val.encodable] at he
    exact ⟨encodeUtf16 cs ++ nul2, by simp only [Val.render, encodeStr_of_scalar he], by simp [Val.dataSize, nul2], fun _ => by simp [Val.dataSize, nul2]⟩
  | bytes b => exact ⟨b, rfl, Nat.le_refl _, fun _ => rfl⟩
  | guid b => exact ⟨b, rfl, Nat.le_refl _, fun _ => rfl⟩
  | bool x =>
    refine ⟨renderBool x dw, rfl, ?_, ?_⟩
    · cases dw <;> simp [renderBool, Val.dataSize]
    · intro h; subst h; simp [renderBool, Val.dataSize]
  | dword n =>
    simp only [Val.inRange] at hr
    exact ⟨toLE 4 n, by simp only [Val.render, hr, ↓reduceIte], by simp [Val.dataSize], fun _ => by simp [Val.dataSize]⟩
  | qword n =>
    simp only [Val.inRange] at hr
    exact ⟨toLE 8 n, by simp only [Val.render, hr, ↓reduceIte], by simp [Val.dataSize], fun _ => by simp [Val.dataSize]⟩
  | word n =>
    simp only [Val.inRange] at hr
    exact ⟨toLE 2 n, by simp only [Val.render, hr, ↓reduceIte], by simp [Val.dataSize], fun _ => by simp [Val.dataSize]⟩

theorem attrOf_ok' {t : Tag} (ht : t.Renderable) (dw : Bool) (l s : Nat) :
    ∃ a, attrOf t dw l s = .ok a ∧ a.language = l ∧ a.stream = s ∧ a.name = encodeUtf16 t.name ∧ a.data.length ≤ t.val.dataSize ∧
      (dw = true → a.data.length = t.val.dataSize) := by
  obtain ⟨data, h1, h2, h3⟩ := valRender_ok ht.enc.2 ht.range dw
  exact ⟨{ language := l, stream := s, name := encodeUtf16 t.name, typ := t.val.typ, data := data },
    by simp only [attrOf, encodeStr_of_scalar ht.enc.1, h1], rfl, rfl, rfl, h2, h3⟩

theorem recECD_ok' {t : Tag} (ht : t.Renderable) (hs : t.val.dataSize ≤ 0xFFFF) : ∃ b, recECD t = .ok b := by
  obtain ⟨a, h1, _, _, hn, _, hd⟩ := attrOf_ok' ht true 0 0
  have hd' := hd rfl
  have hname := ht.name
  refine ⟨renderECD a, ?_⟩
  simp only [recECD, h1]
  rw [if_pos]
  rw [hn, hd']; exact ⟨hname, by omega⟩

theorem recM_ok' {t : Tag} (ht : t.Renderable) : ∃ b, recM t = .ok b := by
  obtain ⟨a, h1, _, hs, hn, hd, _⟩ := attrOf_ok' ht false 0 (t.stream.getD 0)
  have hname := ht.name
  have hsz := ht.size
  refine ⟨renderML a, ?_⟩
  simp only [recM, h1]
  rw [if_pos]
  rw [hs, hn]; exact ⟨ht.stream, hname, by omega⟩

theorem recML_ok' {t : Tag} (ht : t.Renderable) : ∃ b, recML t = .ok b := by
  obtain ⟨a, h1, hl, hs, hn, hd, _⟩ := attrOf_ok' ht false (t.language.getD 0) (t.stream.getD 0)
  have hname := ht.name
  have hsz := ht.size
  refine ⟨renderML a, ?_⟩
  simp only [recML, h1]
  rw [if_pos]
  rw [hl, hs, hn]; exact ⟨ht.lang, ht.stream, hname, by omega⟩

theorem concatMapE_ok' {α : Type} (f : α → Except PyErr Bytes) (l : List α) (h : ∀ x ∈ l, ∃ b, f x = .ok b) :
    ∃ b, concatMapE f l = .ok b := by
  induction l with
  | nil => exact ⟨[], rfl⟩
  | cons x r ih =>
    obtain ⟨b1, h1⟩ := h x List.mem_cons_self
    obtain ⟨b2, h2⟩ := ih (fun y hy => h y (List.mem_cons_of_mem _ hy))
    exact ⟨b1 ++ b2, by simp only [concatMapE, h1, h2]⟩

theorem listPayload_ok' (rec : Tag → Except PyErr Bytes) (ts : List Tag) (h : ∀ t ∈ ts, ∃ b, rec t = .ok b) (hl : ts.length < 65536) :
    ∃ b, listPayload rec ts = .ok b := by
  obtain ⟨data, hd⟩ := concatMapE_ok' rec ts h
  exact ⟨toLE 2 ts.length ++ data, by simp only [listPayload, hd, hl, ↓reduceIte]⟩

theorem cdText_ok_len {d : Dist} (hcd : ∀ t ∈ d.cd, t.val.typ = 0 ∧ t.Enc ∧ t.val.dataSize ≤ 0xFFFF) (n : List Nat) :
    ∃ b, cdText d n = .ok b ∧ b.length < 65536 := by
  unfold cdText
  split
  · exact ⟨_, rfl, by simp⟩
  · rename_i t ht
    have hmem : t ∈ d.cd := List.mem_of_find?_eq_some ht
    obtain ⟨h0, ⟨_, he⟩, hs⟩ := hcd t hmem
    cases hval : t.val with
    | unicode cs =>
      rw [hval] at he hs
      simp only [Val.encodable] at he
      simp only [Val.dataSize] at hs
      simp only [encodeStr_of_scalar he]
      exact ⟨_, rfl, by simp [nul2]; omega⟩
    | bytes b => rw [hval] at h0; simp [Val.typ] at h0
    | bool x => rw [hval] at h0; simp [Val.typ] at h0
    | dword n => rw [hval] at h0; simp [Val.typ] at h0
    | qword n => rw [hval] at h0; simp [Val.typ] at h0
    | word n => rw [hval] at h0; simp [Val.typ] at h0
    | guid b => rw [hval] at h0; simp [Val.typ] at h0

theorem cdTexts_ok_len {d : Dist} (hcd : ∀ t ∈ d.cd, t.val.typ = 0 ∧ t.Enc ∧ t.val.dataSize ≤ 0xFFFF) (names : List (List Nat)) :
    ∃ ts, cdTexts d names = .ok ts ∧ ts.all (fun t => decide (t.length < 65536)) = true := by
  induction names with
  | nil => exact ⟨[], rfl, rfl⟩
  | cons n r ih =>
    obtain ⟨b, hb, hbl⟩ := cdText_ok_len hcd n
    obtain ⟨ts, hts, hall⟩ := ih
    exact ⟨b :: ts, by simp only [cdTexts, hb, hts], by simp only [List.all_cons, hall, Bool.and_true, decide_eq_true_eq]; exact hbl⟩

/-- renderable tags render: every `struct.pack` and every `encode` in the four metadata objects succeeds -/
theorem renders_of_renderable (tags : List Tag) (h : Renderable tags) : ∃ P, Renders (distPure tags) P := by
  have inv := distInv_distPure tags
  have hlen : ∀ l : List Tag, l.Sublist tags → l.length < 65536 := fun l hl => Nat.lt_of_le_of_lt hl.length_le h.2
  obtain ⟨ts, hts, hall⟩ := cdTexts_ok_len (d := distPure tags)
    (fun t ht => ⟨(inv.fitsCD t ht).2.1, (h.1 t (inv.subCD.subset ht)).enc, (inv.fitsCD t ht).2.2.1⟩) cdNames
  obtain ⟨pe, hpe⟩ := listPayload_ok' recECD (distPure tags).ecd
    (fun t ht => recECD_ok' (h.1 t (inv.subECD.subset ht)) (inv.fitsECD t ht).1.1) (hlen _ inv.subECD)
  obtain ⟨pm, hpm⟩ := listPayload_ok' recM (distPure tags).mo (fun t ht => recM_ok' (h.1 t (inv.subM.subset ht))) (hlen _ inv.subM)
  obtain ⟨pl, hpl⟩ := listPayload_ok' recML (distPure tags).ml (fun t ht => recML_ok' (h.1 t (inv.subML.subset ht))) (hlen _ inv.subML)
  exact ⟨⟨(ts.map fun t => toLE 2 t.length).flatten ++ ts.flatten, pe, pm, pl⟩,
    ⟨by simp only [cdPayload, hts, hall, ↓reduceIte], hpe, hpm, hpl⟩⟩

/-! ### sizes: the two `struct.pack` calls of `render` that depend on the file -/

/-- the number of bytes an object renders to -/
def Leaf.rlen (P : Payloads) : Leaf → Nat
  | .raw g d => g.length + 8 + d.length
  | .cd _ => 24 + P.cd.length
  | .ecd _ => 24 + P.ecd.length
  | .mo _ => 24 + P.mo.length
  | .metaLib _ => 24 + P.ml.length

/-- the data size a Header Extension Object with these children declares -/
def extBody (P : Payloads) (cs : List Leaf) : Nat := ((cs.filter fun l => !isPad l).map (Leaf.rlen P)).sum

def Obj.rlen (P : Payloads) : Obj → Nat
  | .leaf l => l.rlen P
  | .ext cs => 46 + extBody P cs

/-- the Header Extension data size fits its 32-bit field -/
def Obj.fits (P : Payloads) : Obj → Prop
  | .leaf _ => True
  | .ext cs => extBody P cs < 4294967296

instance (P : Payloads) (o : Obj) : Decidable (o.fits P) := by cases o <;> simp only [Obj.fits] <;> infer_instance

/-- what `render_full` needs of the sizes: every Header Extension Object it writes declares less than
4 GiB, and the new file (new header with its padding + what followed the old header) less than 2^64 bytes
(the File Size field) -/
def RenderFits (P : Payloads) (objs : List Obj) (fl av : Nat) (pad : PadChoice) : Prop :=
  (∀ o ∈ objs.filter (fun o => !o.isPad), o.fits P) ∧
    30 + ((objs.filter fun o => !o.isPad).map (Obj.rlen P)).sum + 24 +
      (getPadding pad ((av : Int) - ((((objs.filter fun o => !o.isPad).map (Obj.rlen P)).sum + 30 + 24 : Nat) : Int)) (fl - av)).toNat +
      (fl - av) < 2 ^ 64

instance (P : Payloads) (objs : List Obj) (fl av : Nat) (pad : PadChoice) : Decidable (RenderFits P objs fl av pad) := by
  unfold RenderFits; infer_instance

theorem renderLeaf_len {d : Dist} {P : Payloads} (hP : Renders d P) (l : Leaf) : ∃ b, renderLeaf d l = .ok b ∧ b.length = l.rlen P := by
  cases l with
  | raw g x => exact ⟨_, rfl, by simp [object_length, Leaf.rlen]⟩
  | cd x => exact ⟨object gCD P.cd, by simp only [renderLeaf, hP.cd], by simp [object_length, Leaf.rlen, gCD]⟩
  | ecd x => exact ⟨object gECD P.ecd, by simp only [renderLeaf, hP.ecd], by simp [object_length, Leaf.rlen, gECD]⟩
  | mo x => exact ⟨object gMeta P.mo, by simp only [renderLeaf, hP.mo], by simp [object_length, Leaf.rlen, gMeta]⟩
  | metaLib x => exact ⟨object gMetaLib P.ml, by simp only [renderLeaf, hP.ml], by simp [object_length, Leaf.rlen, gMetaLib]⟩

theorem concatMapE_len {α : Type} (f : α → Except PyErr Bytes) (w : α → Nat) (l : List α)
    (h : ∀ x ∈ l, ∃ b, f x = .ok b ∧ b.length = w x) : ∃ b, concatMapE f l = .ok b ∧ b.length = (l.map w).sum := by
  induction l with
  | nil => exact ⟨[], rfl, rfl⟩
  | cons x r ih =>
    obtain ⟨b1, h1, l1⟩ := h x List.mem_cons_self
    obtain ⟨b2, h2, l2⟩ := ih (fun y hy => h y (List.mem_cons_of_mem _ hy))
    exact ⟨b1 ++ b2, by simp only [concatMapE, h1, h2], by simp [l1, l2]⟩

theorem renderObj_len {d : Dist} {P : Payloads} (hP : Renders d P) (o : Obj) (hf : o.fits P) :
    ∃ b, renderObj d o = .ok b ∧ b.length = o.rlen P := by
  cases o with
  | leaf l => exact renderLeaf_len hP l
  | ext cs =>
    obtain ⟨body, hb, hl⟩ := concatMapE_len (renderLeaf d) (Leaf.rlen P) (cs.filter fun l => !isPad l) (fun l _ => renderLeaf_len hP l)
    have hf' : body.length < 4294967296 := by rw [hl]; exact hf
    exact ⟨object gExt (extPayload body), by simp only [renderObj, hb, hf', ↓reduceIte], by simp [object_length, extPayload, extReserved, gExt, Obj.rlen, extBody, hl]; omega⟩

/-- with tags that render and sizes that fit, `render_full` can only end in "truncated content" -/
theorem renderFull_err_fits {d : Dist} {P : Payloads} (hP : Renders d P) {objs : List Obj} {fl av : Nat} {pad : PadChoice}
    (hf : RenderFits P objs fl av pad) {e : PyErr} (h : renderFull d objs fl av pad = .error e) : e = .mutagen := by
  unfold renderFull at h
  simp only [] at h
  obtain ⟨data, hd, hl⟩ := concatMapE_len (renderObj d) (Obj.rlen P) (objs.filter fun o => !o.isPad)
    (fun o ho => renderObj_len hP o (hf.1 o ho))
  rw [hd] at h
  simp only [] at h
  split at h
  · cases h; rfl
  · split at h
    · obtain ⟨pre, hpre, _⟩ := concatMapE_len (renderObj d) (Obj.rlen P) ((objs.filter fun o => !o.isPad).takeWhile fun o => !o.isFileProps)
        (fun o ho => renderObj_len hP o (hf.1 o ((List.takeWhile_sublist _).subset ho)))
      rw [hpre] at h
      simp only [] at h
      have hfit := hf.2
      rw [← hl] at hfit
      split at h
      · cases h
      · rename_i hc
        exfalso; apply hc
        rw [headerBytes_length, List.length_append, padObject_length]
        omega
    · cases h

/-! ### save / delete / resave on any byte string -/

/-- `a = ASF(file); a.save(file)`: a save of the tags the file was loaded with -/
def resave (f : Bytes) (pad : PadChoice) : Except PyErr Bytes :=
  match parseFull f with
  | .error e => .error e
  | .ok objs =>
    match saveTree objs f (loadedTags objs) pad with
    | .error e => .error e
    | .ok (out, _) => .ok out

/-- the payloads the distributed tags render to, if they render -/
def payloadsOf (d : Dist) : Option Payloads :=
  match cdPayload d, listPayload recECD d.ecd, listPayload recM d.mo, listPayload recML d.ml with
  | .ok a, .ok b, .ok c, .ok e => some ⟨a, b, c, e⟩
  | _, _, _, _ => none

theorem payloadsOf_renders {d : Dist} {P : Payloads} (h : Renders d P) : payloadsOf d = some P := by
  unfold payloadsOf; rw [h.cd, h.ecd, h.mo, h.ml]

/-- the sizes of a save of `tags` over the file `f` fit: see `RenderFits` (for a file that loads, with
tags that render; nothing is asked otherwise) -/
def SaveFits (f : Bytes) (tags : List Tag) (pad : PadChoice) : Prop :=
  match parseFull f, parseSize f, payloadsOf (distPure tags) with
  | .ok objs, .ok (oldSize, _), some P => RenderFits P (addMissing objs) f.length oldSize pad
  | _, _, _ => True

instance (f : Bytes) (tags : List Tag) (pad : PadChoice) : Decidable (SaveFits f tags pad) := by
  unfold SaveFits; split <;> infer_instance

theorem saveTree_err_fits {objs : List Obj} {f : Bytes} {tags : List Tag} {pad : PadChoice} (hr : Renderable tags)
    (hf : ∀ oldSize cnt P, parseSize f = .ok (oldSize, cnt) → Renders (distPure tags) P → RenderFits P (addMissing objs) f.length oldSize pad)
    {e : PyErr} (h : saveTree objs f tags pad = .error e) : e = .mutagen := by
  obtain ⟨P, hP⟩ := renders_of_renderable tags hr
  unfold saveTree at h
  rw [distribute_of_enc tags (fun t ht => (hr.1 t ht).enc)] at h
  simp only [] at h
  split at h
  · rename_i e' he; cases h; exact parseSize_err he
  · rename_i oldSize cnt hps
    split at h
    · rename_i e' he; cases h; rw [renderFull_err_fits hP (hf oldSize cnt P hps hP) he]; rfl
    · cases h

theorem save_err_classes {f : Bytes} {tags : List Tag} {pad : PadChoice} {e : PyErr} (h : save f tags pad = .error e) :
    e = .mutagen ∨ e = .unicode := by
  unfold save at h
  split at h
  · rename_i e' he; cases h; exact Or.inl (parseFull_err he)
  · split at h
    · rename_i e' he; cases h; exact saveTree_err he
    · cases h

theorem save_err_enc {f : Bytes} {tags : List Tag} (ht : ∀ t ∈ tags, t.Enc) {pad : PadChoice} {e : PyErr} (h : save f tags pad = .error e) :
    e = .mutagen := by
  unfold save at h
  split at h
  · rename_i e' he; cases h; exact parseFull_err he
  · split at h
    · rename_i e' he; cases h; exact saveTree_err_enc ht he
    · cases h

theorem resave_err {f : Bytes} {pad : PadChoice} {e : PyErr} (h : resave f pad = .error e) : e = .mutagen := by
  unfold resave at h
  split at h
  · rename_i e' he; cases h; exact parseFull_err he
  · rename_i objs _
    split at h
    · rename_i e' he; cases h; exact saveTree_err_enc (loadedTags_enc objs) he
    · cases h

theorem resave_eq_save {f : Bytes} {pad : PadChoice} {objs : List Obj} (h : parseFull f = .ok objs) :
    resave f pad = save f (loadedTags objs) pad := by
  unfold resave save; rw [h]; rfl

theorem renderable_nil : Renderable [] := ⟨(fun t ht => by cases ht), (by decide)⟩

theorem delete_err {f : Bytes} {e : PyErr} (h : delete f = .error e) : e = .mutagen :=
  save_err_enc (fun t ht => by cases ht) h

/-! ### a file that loads but whose unchanged save fails: a name too long once its terminator is added -/

theorem replicate_scalar (n : Nat) : (List.replicate n 97).all isScalar = true := by
  apply List.all_eq_true.mpr
  intro x hx
  rw [List.eq_of_mem_replicate hx]; decide

theorem enc_replicate_length (n : Nat) : (encodeUtf16 (List.replicate n 97)).length = 2 * n := by
  induction n with
  | zero => rfl
  | succ n ih =>
    have : encodeUtf16 (List.replicate (n + 1) 97) = [97, 0] ++ encodeUtf16 (List.replicate n 97) := by
      simp [encodeUtf16, toUnits, unitsLE, units1, toLE, List.replicate_succ]
    rw [this, List.length_append, ih]; simp; omega

theorem dropWhile_nz (cs : List Nat) (h : ∀ c ∈ cs, c ≠ 0) : cs.dropWhile (· == 0) = cs := by
  cases cs with
  | nil => rfl
  | cons c r =>
    have : (c == 0) = false := by simpa using h c List.mem_cons_self
    simp [List.dropWhile, this]

theorem stripNul_id (cs : List Nat) (h : ∀ c ∈ cs, c ≠ 0) : stripNul cs = cs := by
  unfold stripNul stripFront
  rw [dropWhile_nz cs h, dropWhile_nz cs.reverse (fun c hc => h c (List.mem_reverse.mp hc)), List.reverse_reverse]

theorem decodeText_replicate (n : Nat) : decodeText (encodeUtf16 (List.replicate n 97)) = some (List.replicate n 97) := by
  unfold decodeText
  rw [decodeUtf16_encodeUtf16 _ (scalars_of_all (replicate_scalar n))]
  simp only [Option.map_some]
  rw [stripNul_id _ (fun c hc => by rw [List.eq_of_mem_replicate hc]; decide)]


/-- an attribute with the name `nm`: a DWORD 1 -/
def tLongOf (nm : List Nat) : Tag := ⟨nm, .dword 1, none, none⟩
/-- Extended Content Description payload: one descriptor whose name field holds `nm` encoded, without a terminator -/
def payloadOf (nm : List Nat) : Bytes :=
  toLE 2 1 ++ (toLE 2 (encodeUtf16 nm).length ++ (encodeUtf16 nm ++ (toLE 2 3 ++ (toLE 2 4 ++ toLE 4 1))))
def layoutOf (nm : List Nat) : Layout := ⟨[.ecd (payloadOf nm)], []⟩

section
variable (nm : List Nat) (hs : nm.all isScalar = true) (hz : ∀ c ∈ nm, c ≠ 0) (hl : (encodeUtf16 nm).length = 65534)
  (hcd : cdNames.contains nm = false)
include hs hz hl

theorem parseECD_payloadOf : parseECD (payloadOf nm) = some [tLongOf nm] := by
  have l2 : ∀ n, (toLE 2 n).length = 2 := fun n => length_toLE 2 n
  have hdec : decodeText (encodeUtf16 nm) = some nm := by
    unfold decodeText
    rw [decodeUtf16_encodeUtf16 _ (scalars_of_all hs)]
    simp only [Option.map_some, stripNul_id nm hz]
  unfold parseECD payloadOf
  rw [if_neg (by simp only [List.length_append, l2]; omega), take_of_len _ _ 2 (l2 _), drop_of_len _ _ 2 (l2 _),
    ofLE_toLE 2 1 (by decide)]
  simp only [parseECDRecs]
  rw [if_neg (by simp only [List.length_append, l2]; omega), take_of_len _ _ 2 (l2 _), drop_of_len _ _ 2 (l2 _),
    ofLE_toLE 2 _ (by rw [hl]; decide), take_of_len _ _ _ rfl, drop_of_len _ _ _ rfl, hdec]
  simp only []
  rw [if_neg (by simp only [List.length_append, l2, length_toLE]; omega), take_of_len _ _ 2 (l2 _)]
  have d2 : (toLE 2 3 ++ (toLE 2 4 ++ toLE 4 1)).drop 2 = toLE 2 4 ++ toLE 4 1 := drop_of_len _ _ 2 (l2 _)
  have d4 : (toLE 2 3 ++ (toLE 2 4 ++ toLE 4 1)).drop 4 = toLE 4 1 := by
    rw [show (4 : Nat) = 2 + 2 from rfl, ← List.drop_drop, d2]; exact drop_of_len _ _ 2 (l2 _)
  rw [d2, d4, take_of_len _ _ 2 (l2 _), ofLE_toLE 2 3 (by decide), ofLE_toLE 2 4 (by decide)]
  have hv : parseVal 3 ((toLE 4 1).take 4) true = some (.dword 1) := by decide
  rw [hv]
  rfl

theorem layoutOf_OK : (layoutOf nm).OK := by
  refine ⟨?_, (by show 1 < 2 ^ 32; decide), ?_⟩
  · intro i hi
    simp only [layoutOf, List.mem_singleton] at hi
    subst hi
    show (parseECD (payloadOf nm)).isSome = true
    rw [parseECD_payloadOf nm hs hz hl]; rfl
  · simp only [Layout.headerLen, layoutOf, List.map_cons, List.map_nil, renderObjects, Item.toObject, Object.render, object_length,
      payloadOf, List.length_append, length_toLE, hl, gECD, List.length_cons, List.length_nil]
    decide

theorem loaded_layoutOf : loadedTags ((layoutOf nm).top.map Item.toObj) = [tLongOf nm] := by
  simp [loadedTags, leaves, layoutOf, Item.toObj, parseECD_payloadOf nm hs hz hl]

omit hz in
theorem recECD_tLongOf : recECD (tLongOf nm) = .error .struct_ := by
  have h1 : encodeStr nm = .ok (encodeUtf16 nm) := encodeStr_of_scalar hs
  simp only [recECD, attrOf, h1, tLongOf, Val.render]
  rw [if_pos (by decide)]
  simp only [hl]
  rw [if_neg (by omega)]

omit hs hz hl in
include hcd in
theorem distribute_tLongOf : distribute [tLongOf nm] = .ok ⟨[], [tLongOf nm], [], []⟩ := by
  unfold distribute
  rw [if_pos (by simp [tLongOf, Val.encodable])]
  congr 1
  simp only [distPure, List.foldl, distStep, tLongOf, Val.dataSize, Val.typ, hcd, hasName, Dist.empty]
  simp

omit hs hz hl in
theorem kept_layoutOf : (addMissing ((layoutOf nm).top.map Item.toObj)).filter (fun o => !o.isPad) =
    [.leaf (.ecd (payloadOf nm)), .leaf (.cd []), .ext [.mo [], .metaLib []]] := by
  rw [addMissing_map]
  simp only [layoutOf]
  generalize payloadOf nm = pl
  have h1 : lacks gCD ([Item.ecd pl].map Item.guid) = true := by simp only [List.map_cons, List.map_nil, Item.guid]; decide
  have h2 : lacks gECD ([Item.ecd pl, Item.cd []].map Item.guid) = false := by
    simp only [List.map_cons, List.map_nil, Item.guid]; decide
  have h3 : lacks gExt ([Item.ecd pl, Item.cd []].map Item.guid) = true := by
    simp only [List.map_cons, List.map_nil, Item.guid]; decide
  have h4 : extAddI [] = [.mo [], .metaLib []] := by decide
  have e : addMissingI [Item.ecd pl] = [Item.ecd pl, Item.cd [], Item.ext [.mo [], .metaLib []]] := by
    simp only [addMissingI, h1, ↓reduceIte, h2, Bool.false_eq_true, h3, List.cons_append, List.nil_append, onFirstExtI, h4]
  rw [e]
  have p1 : (!(Item.ecd pl).toObj.isPad) = true := by rw [isPad_toObj]; simp only [Item.isPad, Item.guid]; decide
  have p2 : (!(Item.cd []).toObj.isPad) = true := by decide
  have p3 : (!(Item.ext [.mo [], .metaLib []]).toObj.isPad) = true := by decide
  simp only [List.map_cons, List.map_nil, List.filter_cons, p1, p2, p3, ↓reduceIte, List.filter_nil]
  rfl

include hcd in
/-- the file loads; saving what was loaded — with any padding choice — ends in ASFError (struct.error before f0601fa): the
name is written back with a terminator, which makes 65536 bytes, one more than the 16-bit name
length field holds -/
theorem resave_layoutOf (pad : PadChoice) : resave (layoutOf nm).render pad = .error .mutagen := by
  have hok := layoutOf_OK nm hs hz hl
  have hp := parseFull_layout (layoutOf nm) hok
  have hsz := (layoutOf nm).parseSize_render hok
  unfold resave
  rw [hp]
  simp only [loaded_layoutOf nm hs hz hl]
  unfold saveTree
  rw [distribute_tLongOf nm hcd, hsz]
  simp only []
  have hr : renderFull ⟨[], [tLongOf nm], [], []⟩ (addMissing ((layoutOf nm).top.map Item.toObj)) (layoutOf nm).render.length
      (layoutOf nm).headerLen pad = .error .struct_ := by
    unfold renderFull
    simp only [kept_layoutOf, concatMapE, renderObj, renderLeaf, listPayload, recECD_tLongOf nm hs hl]
  rw [hr]
  rfl

end

/-- 32767 times "a" -/
def longName : List Nat := List.replicate 32767 97

/-- THE witness (65600 bytes): a Header Object whose only child is an Extended Content Description Object
with one descriptor: name length 65534, the name (32767 × "a", no terminator), type DWORD, length 4, value 1 -/
def wLongName : Bytes := (layoutOf longName).render

theorem resave_wLongName (pad : PadChoice) : resave wLongName pad = .error .mutagen :=
  resave_layoutOf longName (replicate_scalar 32767) (fun c hc => by rw [List.eq_of_mem_replicate hc]; decide)
    (enc_replicate_length 32767) (by decide +kernel) pad


end Mutagen.Asf
