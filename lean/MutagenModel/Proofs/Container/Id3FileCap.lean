/-
Proofs/Container/Id3FileCap.lean — ID3.save / delete as programs over the file object
(Model/Container/Id3FileM.lean): runs in quiet environments (no injected fault, no short read,
arbitrary capacity and leak) for C19 and the refinement of the pure model; `Raises` / `OkAgree`
derivations for C06.
-/
import MutagenModel.Model.Container.Id3FileM
import MutagenModel.Proofs.Container.Id3File
import MutagenModel.Proofs.FileOpsCap
import MutagenModel.Proofs.OkAgree
set_option linter.unusedVariables false
set_option linter.unusedSimpArgs false
namespace Mutagen.Id3F
open Mutagen

/-! ### the extra calls in a quiet environment -/

theorem fseekFromEnd_q {e : Env} (hq : Quiet e) (off : Nat) (s : FS) :
    fseekFromEnd off e s = (.ok (), { data := s.data, pos := s.data.length - off, ops := s.ops + 1, log := .seekEnd :: s.log }) := by
  simp [fseekFromEnd, bind_run, tick_q hq]

theorem fseekBack_q {e : Env} (hq : Quiet e) (k : Nat) (s : FS) :
    fseekBack k e s = (.ok (), { data := s.data, pos := s.pos - k, ops := s.ops + 1, log := .seek (s.pos - k) :: s.log }) := by
  simp [fseekBack, fseek_q hq]

theorem ftruncateHere_q {e : Env} (hq : Quiet e) (s : FS) :
    ftruncateHere e s = (.ok (), { data := s.data.take s.pos, pos := s.pos, ops := s.ops + 1, log := .truncate s.pos :: s.log }) := by
  simp [ftruncateHere, ftruncate_q hq]

theorem writeData_nil (d : Bytes) (pos : Nat) (h : pos ≤ d.length) : writeData d pos [] = d := by
  rw [writeData_inside _ _ _ h]; simp [writeAt]

theorem verifyFileobj_q {e : Env} (hq : Quiet e) (s : FS) (hp : s.pos ≤ s.data.length) :
    ∃ s', verifyFileobj e s = (.ok (), s') ∧ s'.data = s.data ∧ s'.pos = s.pos := by
  unfold verifyFileobj
  have hr : (readAt s.data s.pos 0) = [] := by simp [readAt]
  simp only [bind_run, tryCatch, fread_q hq, pure_run, hr, List.length_nil, Nat.add_zero]
  rw [fwrite_q_inside hq [] _ (by simpa using hp)]
  exact ⟨_, rfl, writeData_nil _ _ hp, rfl⟩

/-! ### ID3Header -/

/-- read_full in a quiet environment, whether or not enough bytes are there -/
theorem readFull_qk {e : Env} (hq : Quiet e) (n : Int) (k : Nat) (hk : n = (k : Int)) (s : FS) :
    readFull n e s =
      (if (readAt s.data s.pos k).length = k then .ok (readAt s.data s.pos k) else .error .io,
       { data := s.data, pos := s.pos + (readAt s.data s.pos k).length, ops := s.ops + 1, log := .read k :: s.log }) := by
  subst hk
  have c1 : ¬ ((k : Int) < 0) := by omega
  by_cases h : (readAt s.data s.pos k).length = k
  · simp [readFull, bind_run, c1, fread_q hq, h]
  · simp [readFull, bind_run, c1, fread_q hq, h]

/-- the extended-header reads agree with the pure `extHeader` (an IOError of `read_full` is what
the pure side already counts as `error`) -/
theorem extHeaderM_q {e : Env} (hq : Quiet e) (vmaj : Nat) (s : FS) (hp : s.pos = 10) :
    ∃ s', s'.data = s.data ∧
      ((extHeader s.data vmaj = .ok () ∧ extHeaderM vmaj e s = (.ok (), s')) ∨
       (extHeader s.data vmaj = .error .mutagen ∧
          (extHeaderM vmaj e s = (.error .io, s') ∨ extHeaderM vmaj e s = (.error .mutagen, s')))) := by
  unfold extHeaderM extHeader
  have hx : readAt s.data s.pos 4 = (s.data.drop 10).take 4 := by rw [hp]; rfl
  simp only [bind_run]
  rw [readFull_qk hq 4 4 rfl s, hx]
  generalize hxx : (s.data.drop 10).take 4 = x
  by_cases hl : x.length = 4
  · have hl' : ¬ (x.length ≠ 4) := by omega
    simp only [hl, ↓reduceIte, hl']
    have hdrop : ∀ n, readAt s.data (s.pos + 4) n = (s.data.drop 14).take n := by
      intro n; rw [hp]; rfl
    by_cases hf : Generated.frameIds.contains x = true
    · simp only [hf, ↓reduceIte, bind_run, fseekBack_q hq]
      rw [readFull_qk hq 0 0 rfl]
      simp only [readAt, List.take_zero, List.length_nil, ↓reduceIte, pure_run]
      exact ⟨_, (by rfl), Or.inl ⟨by simp, rfl⟩⟩
    · simp only [hf, Bool.false_eq_true, ↓reduceIte]
      by_cases hv : vmaj = 4
      · simp only [hv, ↓reduceIte]
        by_cases ha : (x.all fun b => decide (b.toNat < 128)) = true
        · simp only [ha, Bool.not_true, Bool.false_eq_true, ↓reduceIte]
          by_cases h4 : bpFromBytes 7 true x < 4
          · simp only [h4, ↓reduceIte, raise_run]
            exact ⟨_, (by rfl), Or.inr ⟨by simp, Or.inr rfl⟩⟩
          · simp only [h4, ↓reduceIte, bind_run]
            rw [readFull_qk hq _ (bpFromBytes 7 true x - 4) rfl, hdrop]
            simp only [List.length_take, List.length_drop]
            by_cases hlen : s.data.length - 14 < bpFromBytes 7 true x - 4
            · have : ¬ (min (bpFromBytes 7 true x - 4) (s.data.length - 14) = bpFromBytes 7 true x - 4) := by omega
              simp only [hlen, ↓reduceIte, this]
              exact ⟨_, (by rfl), Or.inr ⟨by simp, Or.inl rfl⟩⟩
            · have : (min (bpFromBytes 7 true x - 4) (s.data.length - 14) = bpFromBytes 7 true x - 4) := by omega
              simp only [hlen, ↓reduceIte, this, pure_run]
              exact ⟨_, (by rfl), Or.inl ⟨by simp, rfl⟩⟩
        · simp only [ha, Bool.not_false, ↓reduceIte, raise_run]
          exact ⟨_, (by rfl), Or.inr ⟨by simp, Or.inr rfl⟩⟩
      · simp only [hv, ↓reduceIte, bind_run]
        rw [readFull_qk hq _ (bpFromBytes 8 true x) rfl, hdrop]
        simp only [List.length_take, List.length_drop]
        by_cases hlen : s.data.length - 14 < bpFromBytes 8 true x
        · have : ¬ (min (bpFromBytes 8 true x) (s.data.length - 14) = bpFromBytes 8 true x) := by omega
          simp only [hlen, ↓reduceIte, this]
          exact ⟨_, (by rfl), Or.inr ⟨by simp, Or.inl rfl⟩⟩
        · have : (min (bpFromBytes 8 true x) (s.data.length - 14) = bpFromBytes 8 true x) := by omega
          simp only [hlen, ↓reduceIte, this, pure_run]
          exact ⟨_, (by rfl), Or.inl ⟨by simp, rfl⟩⟩
  · simp only [hl, ↓reduceIte, ne_eq, not_false_eq_true]
    exact ⟨_, (by rfl), Or.inr ⟨by simp, Or.inl rfl⟩⟩

theorem headerSize_pre (f : Bytes) :
    headerSize f = match headerPre (f.take 10) with
      | .none => .ok none
      | .err => .error .mutagen
      | .plain n => .ok (some n)
      | .ext v n => match extHeader f v with
        | .error e => .error e
        | .ok _ => .ok (some n) := by
  unfold headerSize headerPre
  simp only []
  repeat' split
  all_goals first | rfl | contradiction | simp_all

theorem convertError_run (src : PyErr → Bool) (dst : PyErr) (m : FileM α) (e : Env) (s : FS) :
    convertError src dst m e s = match m e s with
      | (.ok a, s') => (.ok a, s')
      | (.error err, s') => if src err then (.error dst, s') else (.error err, s') := rfl

/-- `ID3Header(fileobj)` at position 0 in a quiet environment: exactly `headerSize` of the bytes -/
theorem headerM_q {e : Env} (hq : Quiet e) (s : FS) (hp : s.pos = 0) :
    ∃ s', headerM e s = (headerSize s.data, s') ∧ s'.data = s.data := by
  unfold headerM headerBodyM
  rw [convertError_run, headerSize_pre]
  simp only [bind_run, fread_q hq]
  have hr : readAt s.data s.pos 10 = s.data.take 10 := by rw [hp]; simp [readAt]
  rw [hr]
  cases hpre : headerPre (s.data.take 10) with
  | none => exact ⟨_, rfl, rfl⟩
  | err => exact ⟨_, rfl, rfl⟩
  | plain n => exact ⟨_, rfl, rfl⟩
  | ext vmaj n =>
    simp only [bind_run]
    have hl : (s.data.take 10).length = 10 := by
      unfold headerPre at hpre
      by_cases h : (s.data.take 10).length ≠ 10
      · rw [if_pos h] at hpre; cases hpre
      · omega
    obtain ⟨s1, hd1, hcase⟩ := extHeaderM_q hq vmaj
      { data := s.data, pos := s.pos + (s.data.take 10).length, ops := s.ops + 1, log := .read 10 :: s.log }
      (by show s.pos + (s.data.take 10).length = 10; omega)
    rcases hcase with ⟨hpure, hrun⟩ | ⟨hpure, hrun | hrun⟩
    · simp only [] at hpure
      rw [hrun, hpure]
      exact ⟨_, rfl, hd1⟩
    · simp only [] at hpure
      rw [hrun, hpure]
      exact ⟨_, rfl, hd1⟩
    · simp only [] at hpure
      rw [hrun, hpure]
      exact ⟨_, rfl, hd1⟩

/-! ### _prepare_data, the resize step, the tag write -/

theorem prepareDataM_q {e : Env} (hq : Quiet e) (available vmaj : Nat) (hv : vmaj = 3 ∨ vmaj = 4) (frames : Bytes)
    (pad : PadChoice) (s : FS) :
    ∃ s', s'.data = s.data ∧ prepareDataM available vmaj frames pad e s =
      (prepareData s.data.length available vmaj frames pad, s') := by
  unfold prepareDataM
  have h0 : ¬ (vmaj ≠ 3 ∧ vmaj ≠ 4) := by omega
  simp only [h0, ↓reduceIte, bind_run, fseekEnd_q hq, ftell_q hq]
  cases prepareData s.data.length available vmaj frames pad with
  | error x => exact ⟨_, by rfl, rfl⟩
  | ok d => exact ⟨_, by rfl, rfl⟩

/-- the new tag bytes when the header was read as `ho` and the padding decision is `p` -/
theorem prepareData_eq (flen old vmaj : Nat) (frames : Bytes) (pad : PadChoice) (hle : old ≤ flen) (p : Nat)
    (hp : getPadding pad ((old : Int) - (frames.length + 10 : Nat)) (flen - old) = p)
    (hd : Bytes) (hhd : header vmaj (frames.length + p) = .ok hd) (hfit : frames.length + p < 2 ^ 28) :
    prepareData flen old vmaj frames pad = .ok (hd ++ frames ++ zeros p) := by
  unfold prepareData
  simp only []
  have h1 : ¬ ((flen : Int) - (old : Int) < 0) := by omega
  rw [if_neg h1]
  have h2 : ((flen : Int) - (old : Int)).toNat = flen - old := by omega
  rw [h2, hp]
  have h3 : ¬ ((p : Int) < 0) := by omega
  rw [if_neg h3]
  have h5 : ¬ (frames.length > 2 ^ 28 - 1) := by omega
  rw [if_neg h5]
  have hmin : min (p : Int).toNat (2 ^ 28 - 1 - frames.length) = p := by
    rw [Int.toNat_natCast]; omega
  simp only [hmin]
  have h4 : frames.length + 10 + p - 10 = frames.length + p := by omega
  rw [h4, hhd]

/-- insert_bytes / delete_bytes at the end of the old / new tag: the tag region gets its new
length and what follows it is untouched — or ENOSPC and nothing has changed -/
theorem resizeStep_q {e : Env} (hq : Quiet e) (B : Nat) (hB : 0 < B) (old new : Nat) (s : FS) (ho : old ≤ s.data.length) :
    (∃ s' M, resizeStep B old new e s = (.ok (), s') ∧ M.length = new ∧ s'.data = M ++ s.data.drop old) ∨
    (∃ s', resizeStep B old new e s = (.error .enospc, s') ∧ s'.data = s.data ∧ old < new) := by
  unfold resizeStep
  by_cases h1 : old < new
  · simp only [h1, ↓reduceIte]
    rcases insertBytes_q hq B hB (new - old) old s ho with ⟨s', hr, hd⟩ | ⟨s', hr, hd⟩
    · left
      refine ⟨s', s.data.take old ++ readAt (s.data ++ zeros (new - old)) old (new - old), hr, ?_, by rw [hd]⟩
      rw [List.length_append, length_readAt _ _ _ (by simp; omega), List.length_take]; omega
    · right; exact ⟨s', hr, hd, by first | exact h1 | trivial⟩
  · simp only [h1, ↓reduceIte]
    by_cases h2 : old > new
    · simp only [h2, ↓reduceIte]
      obtain ⟨s', hr, hd⟩ := deleteBytes_q hq B hB (old - new) new s (by omega)
      left
      refine ⟨s', s.data.take new, hr, by rw [List.length_take]; omega, ?_⟩
      rw [hd, show new + (old - new) = old by omega]
    · simp only [h2, ↓reduceIte, pure_run]
      left
      have : new = old := by omega
      subst this
      exact ⟨s, s.data.take new, rfl, by rw [List.length_take]; omega, by simp⟩

/-- `seek(0); write(data)` over a region of the same length -/
theorem writeTag_q {e : Env} (hq : Quiet e) (data M R : Bytes) (hM : M.length = data.length) (s : FS) (hs : s.data = M ++ R) :
    ∃ s', (do fseek 0; fwrite data : FileM Unit) e s = (.ok (), s') ∧ s'.data = data ++ R := by
  simp only [bind_run, fseek_q hq]
  rw [fwrite_q_inside hq data _ (by simp [hs]; omega)]
  refine ⟨_, rfl, ?_⟩
  show writeData s.data 0 data = _
  rw [writeData_inside _ _ _ (by omega), hs]
  have := writeAt_mid [] M R data hM
  simpa using this

/-! ### find_id3v1 and __save_v1 -/

theorem findV1_eq_W (f : Bytes) : findV1 f = findV1W (f.drop (f.length - 131)) := by
  unfold findV1 findV1W
  simp only []
  generalize f.drop (f.length - 131) = data
  cases indexFrom magicTAG (data.length - 128) 0 data with
  | none => rfl
  | some idx =>
    simp only []
    cases indexFrom magicAPE 0 0 data with
    | none => rfl
    | some a => rfl

theorem findV1W_bounds (data : Bytes) (n : Nat) (h : findV1W data = some n) : 124 ≤ n ∧ n ≤ 128 ∧ n ≤ data.length := by
  unfold findV1W at h
  cases h1 : indexFrom magicTAG (data.length - 128) 0 data with
  | none => rw [h1] at h; cases h
  | some idx =>
    rw [h1] at h
    simp at h
    omega

theorem findV1_bounds (f : Bytes) (n : Nat) (h : findV1 f = some n) : 124 ≤ n ∧ n ≤ 128 ∧ n ≤ f.length := by
  rw [findV1_eq_W] at h
  have := findV1W_bounds _ n h
  simp only [List.length_drop] at this
  omega

set_option maxRecDepth 8000 in
theorem findV1M_q {e : Env} (hq : Quiet e) (s : FS) :
    ∃ s', findV1M e s = (.ok (findV1 s.data), s') ∧ s'.data = s.data ∧ s'.pos = s.pos := by
  unfold findV1M
  have hw : readAt s.data (s.data.length - 131) 131 = s.data.drop (s.data.length - 131) := by
    simp only [readAt]
    rw [List.take_of_length_le]
    simp only [List.length_drop]; omega
  simp only [bind_run, ftell_q hq, fseekFromEnd_q hq, fread_q hq, fseek_q hq, pure_run, hw, ← findV1_eq_W]
  exact ⟨_, rfl, rfl, rfl⟩

/-- a write that starts inside the file and may reach beyond its end, on a device with finite
capacity: it completes, or ENOSPC with everything before the write position untouched -/
theorem fwrite_q_at {e : Env} (hq : Quiet e) (b : Bytes) (s : FS) (hp : s.pos ≤ s.data.length) :
    (∃ s', fwrite b e s = (.ok (), s') ∧ s'.data = s.data.take s.pos ++ b ++ s.data.drop (s.pos + b.length)) ∨
    (∃ s' z, fwrite b e s = (.error .enospc, s') ∧ s'.data = s.data.take s.pos ++ z ∧ s.data.length < s.pos + b.length) := by
  by_cases hin : s.pos + b.length ≤ s.data.length
  · left
    rw [fwrite_q_inside hq b s hin]
    exact ⟨_, rfl, by show writeData s.data s.pos b = _; rw [writeData_inside _ _ _ hp]; rfl⟩
  · unfold fwrite
    simp only [tick_q hq]
    cases hc : e.cap with
    | none =>
      left
      simp only [↓reduceIte]
      exact ⟨_, rfl, by show writeData s.data s.pos b = _; rw [writeData_inside _ _ _ hp]; rfl⟩
    | some c =>
      simp only
      by_cases hf : (decide ((writeData s.data s.pos b).length ≤ c) ||
          decide ((writeData s.data s.pos b).length ≤ s.data.length)) = true
      · left
        rw [if_pos hf]
        exact ⟨_, rfl, by show writeData s.data s.pos b = _; rw [writeData_inside _ _ _ hp]; rfl⟩
      · right
        rw [if_neg hf]
        refine ⟨_, b.take (min (e.leak b.length) (s.data.length - s.pos + ((some c).getD 0 - max s.pos s.data.length))) ++
          s.data.drop (s.pos + (b.take (min (e.leak b.length) (s.data.length - s.pos + ((some c).getD 0 - max s.pos s.data.length)))).length),
          rfl, ?_, by omega⟩
        show writeData s.data s.pos _ = _
        rw [writeData_inside _ _ _ hp]
        simp only [writeAt, List.append_assoc]

/-- `__save_v1` on a device with finite capacity: it completes — the old block replaced, a new one
appended, or the old one cut off — or the write of a block that would lengthen the file raises
ENOSPC, and then everything before the old block is untouched -/
theorem saveV1M_q {e : Env} (hq : Quiet e) (v1opt : Nat) (blk : Bytes) (hblk : blk.length = 128) (s : FS) :
    (∃ s', saveV1M v1opt blk e s = (.ok (), s') ∧
      s'.data = if (v1opt = 1 ∧ (findV1 s.data).getD 0 ≠ 0) ∨ v1opt = 2
        then s.data.take (s.data.length - (findV1 s.data).getD 0) ++ blk
        else s.data.take (s.data.length - (findV1 s.data).getD 0)) ∨
    (∃ s' z, saveV1M v1opt blk e s = (.error .enospc, s') ∧
      s'.data = s.data.take (s.data.length - (findV1 s.data).getD 0) ++ z ∧
      ((v1opt = 1 ∧ (findV1 s.data).getD 0 ≠ 0) ∨ v1opt = 2) ∧ (findV1 s.data).getD 0 < 128) := by
  unfold saveV1M
  obtain ⟨s1, hr1, hd1, hp1⟩ := findV1M_q hq s
  simp only [bind_run, hr1, fseekFromEnd_q hq, hd1]
  generalize ht : (findV1 s.data).getD 0 = tail
  have htl : tail ≤ 128 ∧ tail ≤ s.data.length := by
    cases hf : findV1 s.data with
    | none => rw [hf] at ht; simp at ht; omega
    | some n =>
      rw [hf] at ht; simp at ht
      have := findV1_bounds _ _ hf
      omega
  by_cases hc : (v1opt = 1 ∧ tail ≠ 0) ∨ v1opt = 2
  · simp only [hc, ↓reduceIte]
    rcases fwrite_q_at hq blk
      { data := s.data, pos := s.data.length - tail, ops := s1.ops + 1, log := .seekEnd :: s1.log }
      (by show s.data.length - tail ≤ s.data.length; omega) with ⟨s2, hr2, hd2⟩ | ⟨s2, z, hr2, hd2, hlt⟩
    · left
      refine ⟨s2, hr2, ?_⟩
      rw [hd2]
      show s.data.take (s.data.length - tail) ++ blk ++ s.data.drop (s.data.length - tail + blk.length) = _
      rw [List.drop_eq_nil_of_le (by omega)]
      simp
    · right
      refine ⟨s2, z, hr2, hd2, trivial, ?_⟩
      have : s.data.length < s.data.length - tail + blk.length := hlt
      omega
  · simp only [hc, ↓reduceIte, ftruncateHere_q hq]
    left
    exact ⟨_, rfl, rfl⟩

/-! ### ID3.save in a quiet environment -/

/-- the file after the tag region has been replaced (before `__save_v1`) -/
def afterTag (f : Bytes) (old : Nat) (data : Bytes) : Bytes := data ++ f.drop old

/-- what `__save_v1` leaves of `f1` -/
def afterV1 (f1 : Bytes) (v1opt : Nat) (blk : Bytes) : Bytes :=
  if (v1opt = 1 ∧ (findV1 f1).getD 0 ≠ 0) ∨ v1opt = 2
  then f1.take (f1.length - (findV1 f1).getD 0) ++ blk
  else f1.take (f1.length - (findV1 f1).getD 0)

theorem prepareData_ok_le (flen old vmaj : Nat) (frames : Bytes) (pad : PadChoice) (data : Bytes)
    (h : prepareData flen old vmaj frames pad = .ok data) : old ≤ flen := by
  unfold prepareData at h
  simp only [] at h
  by_cases h1 : (flen : Int) - (old : Int) < 0
  · rw [if_pos h1] at h; cases h
  · omega

/-- The body of `ID3.save` on ANY file whose header reads (`headerSize f = ok ho`) and for which
`_prepare_data` yields the new tag `data`, on a device of any capacity.  Three outcomes:
(1) it completes; (2) ENOSPC inside `insert_bytes`: the file is byte-identical to before;
(3) ENOSPC while the ID3v1 block is written over a shorter one or appended: the new tag is in
place, what followed the old tag is intact up to the old ID3v1 block. -/
theorem saveBodyM_q {e : Env} (hq : Quiet e) (B : Nat) (hB : 0 < B) (f : Bytes) (ho : Option Nat) (vmaj : Nat)
    (frames : Bytes) (pad : PadChoice) (v1opt : Nat) (blk : Bytes) (hvm : vmaj = 3 ∨ vmaj = 4) (hblk : blk.length = 128)
    (hh : headerSize f = .ok ho) (data : Bytes) (hprep : prepareData f.length (ho.getD 0) vmaj frames pad = .ok data)
    (s : FS) (hs : s.data = f) (hpos : s.pos = 0) :
    (∃ s', saveBodyM B vmaj frames pad v1opt blk e s = (.ok (), s') ∧
      s'.data = afterV1 (afterTag f (ho.getD 0) data) v1opt blk) ∨
    (∃ s', saveBodyM B vmaj frames pad v1opt blk e s = (.error .enospc, s') ∧ s'.data = f ∧
      ho.getD 0 < data.length) ∨
    (∃ s' z, saveBodyM B vmaj frames pad v1opt blk e s = (.error .enospc, s') ∧
      s'.data = (afterTag f (ho.getD 0) data).take
        ((afterTag f (ho.getD 0) data).length - (findV1 (afterTag f (ho.getD 0) data)).getD 0) ++ z ∧
      ((v1opt = 1 ∧ (findV1 (afterTag f (ho.getD 0) data)).getD 0 ≠ 0) ∨ v1opt = 2) ∧
      (findV1 (afterTag f (ho.getD 0) data)).getD 0 < 128) := by
  have hle := prepareData_ok_le _ _ _ _ _ _ hprep
  unfold saveBodyM
  obtain ⟨s1, hr1, hd1⟩ := headerM_q hq s hpos
  rw [hs] at hr1 hd1
  rw [hh] at hr1
  simp only [bind_run, hr1]
  obtain ⟨s2, hd2, hr2⟩ := prepareDataM_q hq (ho.getD 0) vmaj hvm frames pad s1
  rw [hd1, hprep] at hr2
  rw [hd1] at hd2
  rw [hr2]
  simp only []
  rcases resizeStep_q hq B hB (ho.getD 0) data.length s2 (by rw [hd2]; exact hle) with
    ⟨s3, M, hr3, hM, hd3⟩ | ⟨s3, hr3, hd3, hlt⟩
  · rw [hr3]
    simp only []
    rw [hd2] at hd3
    have hd4 : writeData s3.data 0 data = data ++ f.drop (ho.getD 0) := by
      rw [writeData_inside _ _ _ (by omega), hd3]
      have := writeAt_mid [] M (f.drop (ho.getD 0)) data hM
      simpa using this
    simp only [fseek_q hq]
    rw [fwrite_q_inside hq data _ (by show 0 + data.length ≤ s3.data.length; rw [hd3]; simp; omega)]
    simp only [hd4]
    rcases saveV1M_q hq v1opt blk hblk ⟨data ++ f.drop (ho.getD 0), 0 + data.length, s3.ops + 1 + 1,
        .write data.length :: .seek 0 :: s3.log⟩ with ⟨s5, hr5, hd5⟩ | ⟨s5, z, hr5, hd5, hc5, ht5⟩
    · left
      refine ⟨s5, hr5, ?_⟩
      rw [hd5]; rfl
    · right; right
      refine ⟨s5, z, hr5, ?_, ?_, ?_⟩
      · rw [hd5]; rfl
      · exact hc5
      · exact ht5
  · right; left
    rw [hr3]
    exact ⟨s3, rfl, by rw [hd3, hd2], hlt⟩

/-! ### ENOSPC needs a capacity limit (or an injected ENOSPC) -/

/-- like `PrimErr`, but ENOSPC of the device only where the device has a capacity -/
def PrimErrC (e : Env) (x : PyErr) : Prop :=
  Injected e x ∨ (x = .enospc ∧ e.cap ≠ none) ∨ x = .value ∨ x = .io ∨ x = .diverge

theorem injC {e : Env} {x : PyErr} (h : Injected e x) : PrimErrC e x := Or.inl h
theorem primC_value (e : Env) : PrimErrC e .value := Or.inr (Or.inr (Or.inl rfl))
theorem primC_io (e : Env) : PrimErrC e .io := Or.inr (Or.inr (Or.inr (Or.inl rfl)))
theorem primC_diverge (e : Env) : PrimErrC e .diverge := Or.inr (Or.inr (Or.inr (Or.inr rfl)))

theorem RaisesC.fwrite (b : Bytes) : Raises PrimErrC (fwrite b) := by
  intro e s err s' h
  unfold Mutagen.fwrite at h
  cases ht : Mutagen.tick (.write b.length) e s with
  | mk r s1 =>
    rw [ht] at h
    cases r with
    | error x =>
      simp only [Prod.mk.injEq, Except.error.injEq] at h
      exact injC (h.1 ▸ Raises.tick _ e s x s1 ht)
    | ok u =>
      simp only [] at h
      cases hc : e.cap with
      | none => rw [hc] at h; simp at h
      | some c =>
        rw [hc] at h
        simp only [] at h
        split at h
        · injection h with h1 h2; cases h1
        · injection h with h1 h2
          injection h1 with h1
          exact Or.inr (Or.inl ⟨h1.symm, by simp [hc]⟩)

theorem RaisesC.readFull (size : Int) : Raises PrimErrC (readFull size) := by
  unfold Mutagen.readFull
  apply Raises.guardThen _ _ _ primC_value
  apply Raises.bind ((Raises.fread _).weaken fun _ _ => injC); intro data
  apply Raises.guardThen _ _ _ primC_io
  exact Raises.pure _ _

theorem RaisesC.growLoop (B diff : Nat) : Raises PrimErrC (growLoop B diff) := by
  fun_induction Mutagen.growLoop B diff with
  | case1 => exact Raises.pure _ _
  | case2 => exact Raises.raise _ primC_diverge
  | case3 diff h hB addsize ih => exact Raises.bind (RaisesC.fwrite _) fun _ => ih

theorem RaisesC.resizeFile (B : Nat) (diff : Int) : Raises PrimErrC (resizeFile B diff) := by
  unfold Mutagen.resizeFile
  apply Raises.bind (Raises.fseekEnd.weaken fun _ _ => injC); intro _
  apply Raises.bind (Raises.ftell.weaken fun _ _ => injC); intro filesize
  split
  · apply Raises.guardThen _ _ _ primC_value
    exact (Raises.ftruncate _).weaken fun _ _ => injC
  · split
    · refine Raises.tryCatch (Raises.bind (RaisesC.growLoop _ _) fun _ => Raises.fflush.weaken fun _ _ => injC) ?_
      intro e x hPx _ s err s' h
      by_cases hx : x = .enospc
      · simp only [hx, ↓reduceIte, bind_run] at h
        cases ht : Mutagen.ftruncate filesize e s with
        | mk r s1 =>
          rw [ht] at h
          cases r with
          | ok u =>
            simp only [raise_run, Prod.mk.injEq, Except.error.injEq] at h
            rw [← h.1, ← hx]; exact hPx
          | error y =>
            simp only [Prod.mk.injEq, Except.error.injEq] at h
            exact injC (h.1 ▸ Raises.ftruncate _ e s y s1 ht)
      · simp only [hx, ↓reduceIte, bind_run, pure_run, raise_run, Prod.mk.injEq, Except.error.injEq] at h
        exact h.1 ▸ hPx
    · exact Raises.pure _ _

theorem RaisesC.moveStep (a b n : Nat) : Raises PrimErrC (moveStep a b n) := by
  unfold Mutagen.moveStep
  apply Raises.bind ((Raises.fseek _).weaken fun _ _ => injC); intro _
  apply Raises.bind (RaisesC.readFull _); intro buf
  apply Raises.bind ((Raises.fseek _).weaken fun _ _ => injC); intro _
  exact RaisesC.fwrite _

theorem RaisesC.moveFwdM (B dest src count moved : Nat) : Raises PrimErrC (moveFwdM B dest src count moved) := by
  fun_induction Mutagen.moveFwdM B dest src count moved with
  | case1 => exact Raises.pure _ _
  | case2 => exact Raises.raise _ primC_diverge
  | case3 moved h hB this_move ih => exact Raises.bind (RaisesC.moveStep _ _ _) fun _ => ih

theorem RaisesC.moveBwdM (B dest src count : Nat) : Raises PrimErrC (moveBwdM B dest src count) := by
  fun_induction Mutagen.moveBwdM B dest src count with
  | case1 => exact Raises.pure _ _
  | case2 => exact Raises.raise _ primC_diverge
  | case3 count h hB this_move ih => exact Raises.bind (RaisesC.moveStep _ _ _) fun _ => ih

theorem RaisesC.moveBytes (B : Nat) (dest src count : Int) : Raises PrimErrC (moveBytes B dest src count) := by
  unfold Mutagen.moveBytes
  apply Raises.guardThen _ _ _ primC_value
  apply Raises.bind (Raises.fseekEnd.weaken fun _ _ => injC); intro _
  apply Raises.bind (Raises.ftell.weaken fun _ _ => injC); intro filesize
  apply Raises.guardThen _ _ _ primC_value
  split
  · exact Raises.bind (RaisesC.moveFwdM _ _ _ _ _) fun _ => Raises.fflush.weaken fun _ _ => injC
  · exact Raises.bind (RaisesC.moveBwdM _ _ _ _) fun _ => Raises.fflush.weaken fun _ _ => injC

theorem RaisesC.insertBytes (B : Nat) (size offset : Int) : Raises PrimErrC (insertBytes B size offset) := by
  unfold Mutagen.insertBytes
  apply Raises.guardThen _ _ _ primC_value
  apply Raises.bind (Raises.fseekEnd.weaken fun _ _ => injC); intro _
  apply Raises.bind (Raises.ftell.weaken fun _ _ => injC); intro filesize
  apply Raises.guardThen _ _ _ primC_value
  exact Raises.bind (RaisesC.resizeFile _ _) fun _ => RaisesC.moveBytes _ _ _ _

/-- in a quiet environment without a capacity limit nothing raises ENOSPC -/
theorem no_enospc {e : Env} (hq : Quiet e) (hc : e.cap = none) {m : FileM α} (hm : Raises PrimErrC m) (s s' : FS) :
    m e s ≠ (.error .enospc, s') := by
  intro h
  rcases hm e s _ s' h with ⟨i, hi⟩ | ⟨_, h2⟩ | h2 | h2 | h2
  · rw [hq.nf i] at hi; cases hi
  · exact h2 hc
  · cases h2
  · cases h2
  · cases h2

/-- the pure `save` of Model/Container/Id3File.lean, cut at the points where the program touches
the file: header, `_prepare_data`, the tag region, `__save_v1` -/
theorem save_unfold (f : Bytes) (vmaj : Nat) (frames : Bytes) (pad : PadChoice) (v1opt : Nat) (blk : Bytes) :
    save f vmaj frames pad v1opt blk =
      match headerSize f with
      | .error e => .error e
      | .ok h =>
        if vmaj ≠ 3 ∧ vmaj ≠ 4 then .error .value
        else match prepareData f.length (h.getD 0) vmaj frames pad with
          | .error e => .error e
          | .ok data => .ok (afterV1 (afterTag f (h.getD 0) data) v1opt blk) := by
  unfold save prepareData afterV1 afterTag
  cases headerSize f with
  | error e => rfl
  | ok h =>
    simp only []
    by_cases h0 : vmaj ≠ 3 ∧ vmaj ≠ 4
    · rw [if_pos h0, if_pos h0]
    rw [if_neg h0, if_neg h0]
    by_cases h1 : (f.length : Int) - ((h.getD 0 : Nat) : Int) < 0
    · rw [if_pos h1, if_pos h1]
    rw [if_neg h1, if_neg h1]
    by_cases h2 : getPadding pad (((h.getD 0 : Nat) : Int) - ((frames.length + 10 : Nat) : Int))
        ((f.length : Int) - ((h.getD 0 : Nat) : Int)).toNat < 0
    · rw [if_pos h2, if_pos h2]
    rw [if_neg h2, if_neg h2]
    by_cases h3 : frames.length > 2 ^ 28 - 1
    · rw [if_pos h3, if_pos h3]
    rw [if_neg h3, if_neg h3]
    cases header vmaj (frames.length + 10 + min (getPadding pad (((h.getD 0 : Nat) : Int) - ((frames.length + 10 : Nat) : Int))
        ((f.length : Int) - ((h.getD 0 : Nat) : Int)).toNat).toNat (2 ^ 28 - 1 - frames.length) - 10) with
    | error e => simp only []
    | ok hd =>
      simp only []
      split <;> simp only []

/-! ### what save / delete can raise, in ANY environment -/

theorem RaisesC.deleteBytes (B : Nat) (size offset : Int) : Raises PrimErrC (deleteBytes B size offset) := by
  unfold Mutagen.deleteBytes
  apply Raises.guardThen _ _ _ primC_value
  apply Raises.bind (Raises.fseekEnd.weaken fun _ _ => injC); intro _
  apply Raises.bind (Raises.ftell.weaken fun _ _ => injC); intro filesize
  apply Raises.guardThen _ _ _ primC_value
  exact Raises.bind (RaisesC.moveBytes _ _ _ _) fun _ => RaisesC.resizeFile _ _

theorem RaisesC.getSize : Raises PrimErrC getSize :=
  Raises.bind (Raises.ftell.weaken fun _ _ => injC) fun _ =>
    Raises.tryFinally (Raises.bind (Raises.fseekEnd.weaken fun _ _ => injC) fun _ =>
      Raises.ftell.weaken fun _ _ => injC) (Raises.fseek _ |>.weaken fun _ _ => injC)

theorem primErrC_prim {e : Env} {x : PyErr} (h : PrimErrC e x) : PrimErr e x := by
  rcases h with h | ⟨h, _⟩ | h | h | h
  · exact Or.inl h
  · exact Or.inr (Or.inl h)
  · exact Or.inr (Or.inr (Or.inl h))
  · exact Or.inr (Or.inr (Or.inr (Or.inl h)))
  · exact Or.inr (Or.inr (Or.inr (Or.inr h)))

/-- what leaves the bodies of `ID3.save` / `delete`: `error` (a MutagenError), the model's marker
for a header that announces more than the file holds, or what the file primitives raise -/
def SaveErrC (e : Env) (x : PyErr) : Prop := x = .mutagen ∨ x = .notImplemented ∨ PrimErrC e x

theorem sInj {e : Env} {x : PyErr} (h : Injected e x) : SaveErrC e x := Or.inr (Or.inr (injC h))
theorem sPrim {e : Env} {x : PyErr} (h : PrimErrC e x) : SaveErrC e x := Or.inr (Or.inr h)
theorem sMut (e : Env) : SaveErrC e .mutagen := Or.inl rfl
theorem sValue (e : Env) : SaveErrC e .value := sPrim (primC_value e)

theorem Raises.fseekFromEnd (off : Nat) : Raises Injected (fseekFromEnd off) :=
  Raises.bind (Raises.tick _) (fun _ => by intro e s err s' h; cases h)
theorem Raises.fseekBack (k : Nat) : Raises Injected (fseekBack k) := by
  intro e s err s' h; exact Raises.fseek _ e s err s' h
theorem Raises.ftruncateHere : Raises Injected ftruncateHere := by
  intro e s err s' h; exact Raises.ftruncate _ e s err s' h

theorem raises_verifyFileobj : Raises SaveErrC verifyFileobj := by
  unfold verifyFileobj
  apply Raises.bind
  · refine Raises.tryCatch (Raises.bind ((Raises.fread _).weaken fun _ _ => sInj) fun _ => Raises.pure _ _) ?_
    intro e x _ _ s err s' h
    simp only [raise_run, Prod.mk.injEq, Except.error.injEq] at h
    exact h.1 ▸ sValue e
  · intro _
    refine Raises.tryCatch ((RaisesC.fwrite _).weaken fun _ _ => sPrim) ?_
    intro e x _ _ s err s' h
    simp only [raise_run, Prod.mk.injEq, Except.error.injEq] at h
    exact h.1 ▸ sValue e

theorem raises_extHeaderM (vmaj : Nat) : Raises SaveErrC (extHeaderM vmaj) := by
  unfold extHeaderM
  apply Raises.bind ((RaisesC.readFull _).weaken fun _ _ => sPrim); intro x
  split
  · apply Raises.bind ((Raises.fseekBack _).weaken fun _ _ => sInj); intro _
    apply Raises.bind ((RaisesC.readFull _).weaken fun _ _ => sPrim); intro _
    exact Raises.pure _ _
  · split
    · split
      · exact Raises.raise _ sMut
      · simp only []
        split
        · exact Raises.raise _ sMut
        · apply Raises.bind ((RaisesC.readFull _).weaken fun _ _ => sPrim); intro _
          exact Raises.pure _ _
    · apply Raises.bind ((RaisesC.readFull _).weaken fun _ _ => sPrim); intro _
      exact Raises.pure _ _

theorem raises_headerBodyM : Raises SaveErrC headerBodyM := by
  unfold headerBodyM
  apply Raises.bind ((Raises.fread _).weaken fun _ _ => sInj); intro d
  split
  · exact Raises.pure _ _
  · exact Raises.raise _ sMut
  · exact Raises.pure _ _
  · exact Raises.bind (raises_extHeaderM _) fun _ => Raises.pure _ _

theorem raises_headerM : Raises SaveErrC headerM := by
  unfold headerM
  exact (Raises.convertError PyErr.isIO .mutagen raises_headerBodyM).weaken fun e x h =>
    h.elim (fun h => h ▸ sMut e) (fun h => h.1)

theorem prepareData_err (flen old vmaj : Nat) (frames : Bytes) (pad : PadChoice) (x : PyErr)
    (h : prepareData flen old vmaj frames pad = .error x) : x = .mutagen ∨ x = .notImplemented := by
  unfold prepareData at h
  simp only [] at h
  by_cases h1 : (flen : Int) - (old : Int) < 0
  · rw [if_pos h1] at h; injection h with h; exact Or.inr h.symm
  rw [if_neg h1] at h
  by_cases h2 : getPadding pad ((old : Int) - ((frames.length + 10 : Nat) : Int)) ((flen : Int) - (old : Int)).toNat < 0
  · rw [if_pos h2] at h; injection h with h; exact Or.inl h.symm
  rw [if_neg h2] at h
  by_cases h3 : frames.length > 2 ^ 28 - 1
  · rw [if_pos h3] at h; injection h with h; exact Or.inl h.symm
  rw [if_neg h3] at h
  generalize hk : min (getPadding pad ((old : Int) - ((frames.length + 10 : Nat) : Int)) ((flen : Int) - (old : Int)).toNat).toNat
    (2 ^ 28 - 1 - frames.length) = k at h
  have hk' : k ≤ 2 ^ 28 - 1 - frames.length := by rw [← hk]; exact Nat.min_le_right _ _
  obtain ⟨a, b, c, d, hok, _⟩ := header_ok vmaj (frames.length + 10 + k - 10) (by omega)
  rw [hok] at h
  cases h

theorem raises_prepareDataM (available vmaj : Nat) (frames : Bytes) (pad : PadChoice) :
    Raises SaveErrC (prepareDataM available vmaj frames pad) := by
  unfold prepareDataM
  split
  · exact Raises.raise _ sValue
  · apply Raises.bind (Raises.fseekEnd.weaken fun _ _ => sInj); intro _
    apply Raises.bind (Raises.ftell.weaken fun _ _ => sInj); intro endPos
    cases hp : prepareData endPos available vmaj frames pad with
    | error x =>
      simp only []
      rcases prepareData_err _ _ _ _ _ _ hp with h | h
      · exact Raises.raise _ fun e => h ▸ sMut e
      · exact Raises.raise _ fun e => h ▸ Or.inr (Or.inl rfl)
    | ok d => exact Raises.pure _ _

theorem raises_findV1M : Raises SaveErrC findV1M := by
  unfold findV1M
  apply Raises.bind (Raises.ftell.weaken fun _ _ => sInj); intro old
  apply Raises.bind ((Raises.fseekFromEnd _).weaken fun _ _ => sInj); intro _
  apply Raises.bind ((Raises.fread _).weaken fun _ _ => sInj); intro data
  apply Raises.bind ((Raises.fseek _).weaken fun _ _ => sInj); intro _
  exact Raises.pure _ _

theorem raises_saveV1M (v1opt : Nat) (blk : Bytes) : Raises SaveErrC (saveV1M v1opt blk) := by
  unfold saveV1M
  apply Raises.bind raises_findV1M; intro t
  apply Raises.bind ((Raises.fseekFromEnd _).weaken fun _ _ => sInj); intro _
  split
  · exact (RaisesC.fwrite _).weaken fun _ _ => sPrim
  · exact Raises.ftruncateHere.weaken fun _ _ => sInj

theorem raises_resizeStep (B old new : Nat) : Raises SaveErrC (resizeStep B old new) := by
  unfold resizeStep
  split
  · exact (RaisesC.insertBytes _ _ _).weaken fun _ _ => sPrim
  · split
    · exact (RaisesC.deleteBytes _ _ _).weaken fun _ _ => sPrim
    · exact Raises.pure _ _

theorem raisesC_saveBodyM (B vmaj : Nat) (frames : Bytes) (pad : PadChoice) (v1opt : Nat) (blk : Bytes) :
    Raises SaveErrC (saveBodyM B vmaj frames pad v1opt blk) := by
  unfold saveBodyM
  apply Raises.bind raises_headerM; intro h
  apply Raises.bind (raises_prepareDataM _ _ _ _); intro data
  apply Raises.bind (raises_resizeStep _ _ _); intro _
  apply Raises.bind ((Raises.fseek _).weaken fun _ _ => sInj); intro _
  apply Raises.bind ((RaisesC.fwrite _).weaken fun _ _ => sPrim); intro _
  exact raises_saveV1M _ _

theorem raisesC_saveInner (B vmaj : Nat) (frames : Bytes) (pad : PadChoice) (v1opt : Nat) (blk : Bytes) :
    Raises SaveErrC (do verifyFileobj; saveBodyM B vmaj frames pad v1opt blk : FileM Unit) :=
  Raises.bind raises_verifyFileobj fun _ => raisesC_saveBodyM B vmaj frames pad v1opt blk

theorem raises_deleteV1M : Raises SaveErrC deleteV1M := by
  unfold deleteV1M
  apply Raises.bind raises_findV1M; intro t
  cases t with
  | none => exact Raises.pure _ _
  | some n =>
    exact Raises.bind ((Raises.fseekFromEnd _).weaken fun _ _ => sInj) fun _ =>
      Raises.ftruncateHere.weaken fun _ _ => sInj

theorem raises_deleteV2M (B : Nat) : Raises SaveErrC (deleteV2M B) := by
  unfold deleteV2M
  apply Raises.bind ((Raises.fseek _).weaken fun _ _ => sInj); intro _
  apply Raises.bind ((Raises.fread _).weaken fun _ _ => sInj); intro idata
  split
  · exact Raises.pure _ _
  · split
    · exact Raises.pure _ _
    · apply Raises.bind (RaisesC.getSize.weaken fun _ _ => sPrim); intro sz
      split
      · exact Raises.raise _ sMut
      · exact (RaisesC.deleteBytes _ _ _).weaken fun _ _ => sPrim

theorem raisesC_deleteInner (B : Nat) (dv1 dv2 : Bool) :
    Raises SaveErrC (do verifyFileobj; deleteBodyM B dv1 dv2 : FileM Unit) := by
  apply Raises.bind raises_verifyFileobj; intro _
  unfold deleteBodyM
  apply Raises.bind
  · split
    · exact raises_deleteV1M
    · exact Raises.pure _ _
  · intro _
    split
    · exact raises_deleteV2M B
    · exact Raises.pure _ _

/-- in a quiet environment without a capacity limit nothing raises ENOSPC -/
theorem no_enospc' {e : Env} (hq : Quiet e) (hc : e.cap = none) {m : FileM α} (hm : Raises SaveErrC m) (s s' : FS) :
    m e s ≠ (.error .enospc, s') := by
  intro h
  rcases hm e s _ s' h with h2 | h2 | ⟨i, hi⟩ | ⟨_, h2⟩ | h2 | h2 | h2
  · cases h2
  · cases h2
  · rw [hq.nf i] at hi; cases hi
  · exact h2 hc
  · cases h2
  · cases h2
  · cases h2

/-- `ID3.save` as called (`convert_error`, `loadfile`) on a device of any capacity: the three
outcomes of `saveBodyM_q`, ENOSPC surfacing as `error` (MutagenError) -/
theorem saveM_q {e : Env} (hq : Quiet e) (B : Nat) (hB : 0 < B) (f : Bytes) (ho : Option Nat) (vmaj : Nat)
    (frames : Bytes) (pad : PadChoice) (v1opt : Nat) (blk : Bytes) (hvm : vmaj = 3 ∨ vmaj = 4) (hblk : blk.length = 128)
    (hh : headerSize f = .ok ho) (data : Bytes) (hprep : prepareData f.length (ho.getD 0) vmaj frames pad = .ok data)
    (s : FS) (hs : s.data = f) (hpos : s.pos = 0) :
    (∃ s', saveM B vmaj frames pad v1opt blk e s = (.ok (), s') ∧
      s'.data = afterV1 (afterTag f (ho.getD 0) data) v1opt blk) ∨
    (∃ s', saveM B vmaj frames pad v1opt blk e s = (.error .mutagen, s') ∧ s'.data = f ∧
      ho.getD 0 < data.length) ∨
    (∃ s' z, saveM B vmaj frames pad v1opt blk e s = (.error .mutagen, s') ∧
      s'.data = (afterTag f (ho.getD 0) data).take
        ((afterTag f (ho.getD 0) data).length - (findV1 (afterTag f (ho.getD 0) data)).getD 0) ++ z ∧
      ((v1opt = 1 ∧ (findV1 (afterTag f (ho.getD 0) data)).getD 0 ≠ 0) ∨ v1opt = 2) ∧
      (findV1 (afterTag f (ho.getD 0) data)).getD 0 < 128) := by
  unfold saveM
  rw [convertError_run]
  obtain ⟨s0, hr0, hd0, hp0⟩ := verifyFileobj_q hq s (by omega)
  simp only [bind_run, hr0]
  rcases saveBodyM_q hq B hB f ho vmaj frames pad v1opt blk hvm hblk hh data hprep s0 (by rw [hd0, hs]) (by rw [hp0, hpos]) with
    ⟨s1, hr, hd⟩ | ⟨s1, hr, hd, hlt⟩ | ⟨s1, z, hr, hd, hc, ht⟩
  · left; rw [hr]; exact ⟨s1, rfl, hd⟩
  · right; left; rw [hr]; exact ⟨s1, rfl, hd, hlt⟩
  · right; right; rw [hr]; exact ⟨s1, z, rfl, hd, hc, ht⟩

/-- without a capacity limit only the first outcome remains -/
theorem saveM_nocap {e : Env} (hq : Quiet e) (hcap : e.cap = none) (B : Nat) (hB : 0 < B) (f : Bytes) (ho : Option Nat) (vmaj : Nat)
    (frames : Bytes) (pad : PadChoice) (v1opt : Nat) (blk : Bytes) (hvm : vmaj = 3 ∨ vmaj = 4) (hblk : blk.length = 128)
    (hh : headerSize f = .ok ho) (data : Bytes) (hprep : prepareData f.length (ho.getD 0) vmaj frames pad = .ok data)
    (s : FS) (hs : s.data = f) (hpos : s.pos = 0) :
    ∃ s', saveM B vmaj frames pad v1opt blk e s = (.ok (), s') ∧
      s'.data = afterV1 (afterTag f (ho.getD 0) data) v1opt blk := by
  -- the body first: its ENOSPC outcomes are impossible
  have hbody : ∃ s', (do verifyFileobj; saveBodyM B vmaj frames pad v1opt blk : FileM Unit) e s = (.ok (), s') ∧
      s'.data = afterV1 (afterTag f (ho.getD 0) data) v1opt blk := by
    obtain ⟨s0, hr0, hd0, hp0⟩ := verifyFileobj_q hq s (by omega)
    simp only [bind_run, hr0]
    rcases saveBodyM_q hq B hB f ho vmaj frames pad v1opt blk hvm hblk hh data hprep s0 (by rw [hd0, hs]) (by rw [hp0, hpos]) with
      ⟨s1, hr, hd⟩ | ⟨s1, hr, hd, hlt⟩ | ⟨s1, z, hr, hd, hc, ht⟩
    · exact ⟨s1, hr, hd⟩
    · exact absurd hr (no_enospc' hq hcap (raisesC_saveBodyM B vmaj frames pad v1opt blk) s0 s1)
    · exact absurd hr (no_enospc' hq hcap (raisesC_saveBodyM B vmaj frames pad v1opt blk) s0 s1)
  obtain ⟨s', hr, hd⟩ := hbody
  exact ⟨s', by unfold saveM; rw [convertError_run, hr], hd⟩

/-- a normal return in a quiet environment means the header read and `_prepare_data` succeeded -/
theorem saveM_q_ok_inv {e : Env} (hq : Quiet e) (B vmaj : Nat) (frames : Bytes) (pad : PadChoice) (v1opt : Nat) (blk : Bytes)
    (s s' : FS) (hpos : s.pos = 0) (h : saveM B vmaj frames pad v1opt blk e s = (.ok (), s')) :
    ∃ ho data, headerSize s.data = .ok ho ∧ (vmaj = 3 ∨ vmaj = 4) ∧
      prepareData s.data.length (ho.getD 0) vmaj frames pad = .ok data := by
  unfold saveM at h
  rw [convertError_run] at h
  obtain ⟨s0, hr0, hd0, hp0⟩ := verifyFileobj_q hq s (by omega)
  simp only [bind_run, hr0] at h
  unfold saveBodyM at h
  obtain ⟨s1, hr1, hd1⟩ := headerM_q hq s0 (by rw [hp0, hpos])
  simp only [bind_run, hr1] at h
  rw [hd0] at hr1 hd1 h
  cases hh : headerSize s.data with
  | error x => rw [hh] at h; simp only [] at h; split at h <;> cases h
  | ok ho =>
    rw [hh] at h
    simp only [] at h
    by_cases hv : vmaj = 3 ∨ vmaj = 4
    · obtain ⟨s2, hd2, hr2⟩ := prepareDataM_q hq (ho.getD 0) vmaj hv frames pad s1
      rw [hr2, hd1] at h
      cases hp : prepareData s.data.length (ho.getD 0) vmaj frames pad with
      | error x => rw [hp] at h; simp only [] at h; split at h <;> cases h
      | ok data => exact ⟨ho, data, rfl, hv, hp⟩
    · have hv' : vmaj ≠ 3 ∧ vmaj ≠ 4 := by omega
      unfold prepareDataM at h
      rw [if_pos hv'] at h
      simp only [raise_run] at h
      split at h <;> cases h

/-- the pure `save` returns `ok` exactly when header and `_prepare_data` do -/
theorem save_ok_of (f : Bytes) (vmaj : Nat) (frames : Bytes) (pad : PadChoice) (v1opt : Nat) (blk : Bytes)
    (ho : Option Nat) (data : Bytes) (hh : headerSize f = .ok ho) (hv : vmaj = 3 ∨ vmaj = 4)
    (hp : prepareData f.length (ho.getD 0) vmaj frames pad = .ok data) :
    save f vmaj frames pad v1opt blk = .ok (afterV1 (afterTag f (ho.getD 0) data) v1opt blk) := by
  rw [save_unfold, hh]
  have : ¬ (vmaj ≠ 3 ∧ vmaj ≠ 4) := by omega
  simp only [this, ↓reduceIte, hp]

theorem save_ok_inv (f : Bytes) (vmaj : Nat) (frames : Bytes) (pad : PadChoice) (v1opt : Nat) (blk : Bytes) (out : Bytes)
    (h : save f vmaj frames pad v1opt blk = .ok out) :
    ∃ ho data, headerSize f = .ok ho ∧ (vmaj = 3 ∨ vmaj = 4) ∧
      prepareData f.length (ho.getD 0) vmaj frames pad = .ok data ∧
      out = afterV1 (afterTag f (ho.getD 0) data) v1opt blk := by
  rw [save_unfold] at h
  cases hh : headerSize f with
  | error x => rw [hh] at h; cases h
  | ok ho =>
    rw [hh] at h
    simp only [] at h
    by_cases hv : vmaj ≠ 3 ∧ vmaj ≠ 4
    · rw [if_pos hv] at h; cases h
    · rw [if_neg hv] at h
      cases hp : prepareData f.length (ho.getD 0) vmaj frames pad with
      | error x => rw [hp] at h; cases h
      | ok data =>
        rw [hp] at h
        injection h with h
        exact ⟨ho, data, rfl, by omega, hp, h.symm⟩

/-- REFINEMENT: in a quiet environment without a capacity limit the program leaves exactly the
bytes the pure `save` returns — for every file, well-formed or not -/
theorem saveM_refines {e : Env} (hq : Quiet e) (hcap : e.cap = none) (B : Nat) (hB : 0 < B) (f : Bytes) (vmaj : Nat)
    (frames : Bytes) (pad : PadChoice) (v1opt : Nat) (blk : Bytes) (hblk : blk.length = 128) (out : Bytes)
    (h : save f vmaj frames pad v1opt blk = .ok out) (s : FS) (hs : s.data = f) (hpos : s.pos = 0) :
    ∃ s', saveM B vmaj frames pad v1opt blk e s = (.ok (), s') ∧ s'.data = out := by
  obtain ⟨ho, data, hh, hv, hp, rfl⟩ := save_ok_inv _ _ _ _ _ _ _ h
  exact saveM_nocap hq hcap B hB f ho vmaj frames pad v1opt blk hv hblk hh data hp s hs hpos

/-! ### a normal return means no injected fault fired -/

theorem OkAgree.convertError {m : FileM α} (src : PyErr → Bool) (dst : PyErr) (hm : OkAgree m) :
    OkAgree (convertError src dst m) := by
  intro e s a s' h
  rw [convertError_run] at h ⊢
  cases hms : m e s with
  | mk r s1 =>
    rw [hms] at h
    cases r with
    | ok b => rw [hm e s b s1 hms]; exact h
    | error x => simp only [] at h; split at h <;> cases h

theorem OkAgree.fseekFromEnd (off : Nat) : OkAgree (fseekFromEnd off) :=
  OkAgree.bind (OkAgree.tick _) (fun _ => by intro e s a s' h; exact h)
theorem OkAgree.fseekBack (k : Nat) : OkAgree (fseekBack k) := by
  intro e s a s' h; exact OkAgree.fseek _ e s a s' h
theorem OkAgree.ftruncateHere : OkAgree ftruncateHere := by
  intro e s a s' h; exact OkAgree.ftruncate _ e s a s' h

theorem OkAgree.getSize : OkAgree getSize :=
  OkAgree.bind OkAgree.ftell fun _ =>
    OkAgree.tryFinally (OkAgree.bind OkAgree.fseekEnd fun _ => OkAgree.ftell) (OkAgree.fseek _)

theorem okAgree_verifyFileobj : OkAgree verifyFileobj := by
  unfold verifyFileobj
  apply OkAgree.bind
  · exact OkAgree.tryCatch (OkAgree.bind (OkAgree.fread _) fun _ => OkAgree.pure _) (by intro x e s a s' h; cases h)
  · intro _
    exact OkAgree.tryCatch (OkAgree.fwrite _) (by intro x e s a s' h; cases h)

theorem okAgree_extHeaderM (vmaj : Nat) : OkAgree (extHeaderM vmaj) := by
  unfold extHeaderM
  apply OkAgree.bind (OkAgree.readFull _); intro x
  split
  · apply OkAgree.bind (OkAgree.fseekBack _); intro _
    apply OkAgree.bind (OkAgree.readFull _); intro _
    exact OkAgree.pure _
  · split
    · split
      · exact OkAgree.raise _
      · simp only []
        split
        · exact OkAgree.raise _
        · apply OkAgree.bind (OkAgree.readFull _); intro _
          exact OkAgree.pure _
    · apply OkAgree.bind (OkAgree.readFull _); intro _
      exact OkAgree.pure _

theorem okAgree_headerM : OkAgree headerM := by
  unfold headerM headerBodyM
  apply OkAgree.convertError
  apply OkAgree.bind (OkAgree.fread _); intro d
  split
  · exact OkAgree.pure _
  · exact OkAgree.raise _
  · exact OkAgree.pure _
  · exact OkAgree.bind (okAgree_extHeaderM _) fun _ => OkAgree.pure _

theorem okAgree_prepareDataM (available vmaj : Nat) (frames : Bytes) (pad : PadChoice) :
    OkAgree (prepareDataM available vmaj frames pad) := by
  unfold prepareDataM
  split
  · exact OkAgree.raise _
  · apply OkAgree.bind OkAgree.fseekEnd; intro _
    apply OkAgree.bind OkAgree.ftell; intro endPos
    split
    · exact OkAgree.raise _
    · exact OkAgree.pure _

theorem okAgree_findV1M : OkAgree findV1M := by
  unfold findV1M
  apply OkAgree.bind OkAgree.ftell; intro old
  apply OkAgree.bind (OkAgree.fseekFromEnd _); intro _
  apply OkAgree.bind (OkAgree.fread _); intro data
  apply OkAgree.bind (OkAgree.fseek _); intro _
  exact OkAgree.pure _

theorem okAgree_saveV1M (v1opt : Nat) (blk : Bytes) : OkAgree (saveV1M v1opt blk) := by
  unfold saveV1M
  apply OkAgree.bind okAgree_findV1M; intro t
  apply OkAgree.bind (OkAgree.fseekFromEnd _); intro _
  split
  · exact OkAgree.fwrite _
  · exact OkAgree.ftruncateHere

theorem okAgree_resizeStep (B old new : Nat) : OkAgree (resizeStep B old new) := by
  unfold resizeStep
  split
  · exact OkAgree.insertBytes _ _ _
  · split
    · exact OkAgree.deleteBytes _ _ _
    · exact OkAgree.pure _

theorem okAgree_saveM (B vmaj : Nat) (frames : Bytes) (pad : PadChoice) (v1opt : Nat) (blk : Bytes) :
    OkAgree (saveM B vmaj frames pad v1opt blk) := by
  unfold saveM saveBodyM
  apply OkAgree.convertError
  apply OkAgree.bind okAgree_verifyFileobj; intro _
  apply OkAgree.bind okAgree_headerM; intro h
  apply OkAgree.bind (okAgree_prepareDataM _ _ _ _); intro data
  apply OkAgree.bind (okAgree_resizeStep _ _ _); intro _
  apply OkAgree.bind (OkAgree.fseek _); intro _
  apply OkAgree.bind (OkAgree.fwrite _); intro _
  exact okAgree_saveV1M _ _

theorem okAgree_deleteM (B : Nat) (dv1 dv2 : Bool) : OkAgree (deleteM B dv1 dv2) := by
  unfold deleteM deleteBodyM
  apply OkAgree.convertError
  apply OkAgree.bind okAgree_verifyFileobj; intro _
  apply OkAgree.bind
  · split
    · unfold deleteV1M
      apply OkAgree.bind okAgree_findV1M; intro t
      cases t with
      | none => exact OkAgree.pure _
      | some n => exact OkAgree.bind (OkAgree.fseekFromEnd _) fun _ => OkAgree.ftruncateHere
    · exact OkAgree.pure _
  · intro _
    split
    · unfold deleteV2M
      apply OkAgree.bind (OkAgree.fseek _); intro _
      apply OkAgree.bind (OkAgree.fread _); intro idata
      split
      · exact OkAgree.pure _
      · split
        · exact OkAgree.pure _
        · apply OkAgree.bind OkAgree.getSize; intro sz
          split
          · exact OkAgree.raise _
          · exact OkAgree.deleteBytes _ _ _
    · exact OkAgree.pure _

/-- SUCCESS MEANS WRITTEN: if `ID3.save` returns normally — whatever faults the environment would
have injected elsewhere, on a device of any capacity, as long as reads are not short — then the
pure `save` succeeds on the original bytes and the file holds exactly its result; for every file -/
theorem saveM_ok_means_written (B : Nat) (hB : 0 < B) (vmaj : Nat) (frames : Bytes) (pad : PadChoice) (v1opt : Nat)
    (blk : Bytes) (hblk : blk.length = 128) (e : Env) (hshort : ∀ i, e.shortAt i = none) (s s' : FS) (hpos : s.pos = 0)
    (h : saveM B vmaj frames pad v1opt blk e s = (.ok (), s')) :
    save s.data vmaj frames pad v1opt blk = .ok s'.data := by
  have h' := okAgree_saveM B vmaj frames pad v1opt blk e s () s' h
  have hq : Quiet e.noFaults := ⟨fun _ => rfl, hshort⟩
  obtain ⟨ho, data, hh, hv, hp⟩ := saveM_q_ok_inv hq B vmaj frames pad v1opt blk s s' hpos h'
  rw [save_ok_of _ _ _ _ _ _ ho data hh hv hp]
  rcases saveM_q hq B hB s.data ho vmaj frames pad v1opt blk hv hblk hh data hp s rfl hpos with
    ⟨s1, hr, hd⟩ | ⟨s1, hr, _⟩ | ⟨s1, z, hr, _⟩
  · rw [hr] at h'; injection h' with _ h2; rw [← h2, hd]
  · rw [hr] at h'; injection h' with h1 _; cases h1
  · rw [hr] at h'; injection h' with h1 _; cases h1

/-! ### on well-formed layouts -/

/-- `ID3.save` on a well-formed layout `[tag?][audio][ID3v1?]`, device of any capacity -/
theorem saveM_layout_q {e : Env} (hq : Quiet e) (B : Nat) (hB : 0 < B) (L : Layout) (hL : L.OK) (vmaj : Nat)
    (hvm : vmaj = 3 ∨ vmaj = 4) (frames : Bytes) (pad : PadChoice) (v1opt : Nat) (blk : Bytes) (hblk : blk.length = 128)
    (p : Nat) (hp : getPadding pad ((L.tag.length : Int) - (frames.length + 10 : Nat)) (L.audio.length + L.v1.length) = p)
    (hfit : frames.length + p < 2 ^ 28) (s : FS) (hs : s.data = L.render) (hpos : s.pos = 0) :
    ∃ hd, header vmaj (frames.length + p) = .ok hd ∧
      ((∃ s', saveM B vmaj frames pad v1opt blk e s = (.ok (), s') ∧
          s'.data = hd ++ frames ++ zeros p ++ L.audio ++ newV1 L.v1 v1opt blk) ∨
       (∃ s', saveM B vmaj frames pad v1opt blk e s = (.error .mutagen, s') ∧ s'.data = s.data ∧
          L.tag.length < 10 + frames.length + p) ∨
       (∃ s' z, saveM B vmaj frames pad v1opt blk e s = (.error .mutagen, s') ∧
          s'.data = hd ++ frames ++ zeros p ++ L.audio ++ z ∧
          ((v1opt = 1 ∧ L.v1 ≠ []) ∨ v1opt = 2) ∧ L.v1.length < 128)) := by
  obtain ⟨hd, hhd, hsave⟩ := save_layout L hL vmaj hvm frames pad v1opt blk p hp hfit
  refine ⟨hd, hhd, ?_⟩
  have hold : (if L.tag = [] then (none : Option Nat) else some L.tag.length).getD 0 = L.tag.length := by
    by_cases ht : L.tag = [] <;> simp [ht]
  have hlen : L.render.length = L.tag.length + (L.audio.length + L.v1.length) := by
    simp [Layout.render]
  have hdrop : L.render.drop L.tag.length = L.audio ++ L.v1 := by
    simp [Layout.render, List.append_assoc]
  have hh := headerSize_layout L hL
  have hprep : prepareData L.render.length ((if L.tag = [] then (none : Option Nat) else some L.tag.length).getD 0)
      vmaj frames pad = .ok (hd ++ frames ++ zeros p) :=
    prepareData_eq _ _ vmaj frames pad (by rw [hold, hlen]; omega) p (by rw [hold, hlen]; simpa using hp) hd hhd hfit
  have hdl : (hd ++ frames ++ zeros p).length = 10 + frames.length + p := by
    obtain ⟨a, b, c, d, h1, _⟩ := header_ok vmaj (frames.length + p) hfit
    rw [h1] at hhd; cases hhd
    simp [magicID3]; omega
  rcases saveM_q hq B hB L.render _ vmaj frames pad v1opt blk hvm hblk hh _ hprep s hs hpos with
    ⟨s1, hr, hd1⟩ | ⟨s1, hr, hd1, hlt⟩ | ⟨s1, z, hr, hd1, hc, ht⟩
  · left
    refine ⟨s1, hr, ?_⟩
    have := save_ok_of L.render vmaj frames pad v1opt blk _ _ hh hvm hprep
    rw [hsave] at this
    injection this with this
    rw [hd1, ← this]
  · right; left
    refine ⟨s1, hr, by rw [hd1, hs], ?_⟩
    rw [hold, hdl] at hlt; exact hlt
  · right; right
    rw [hold] at hd1 hc ht
    unfold afterTag at hd1 hc ht
    rw [hdrop] at hd1 hc ht
    have hv1 := hL.v1 (hd ++ frames ++ zeros p)
    rw [show hd ++ frames ++ zeros p ++ (L.audio ++ L.v1) = hd ++ frames ++ zeros p ++ L.audio ++ L.v1 by simp] at hd1 hc ht
    rw [hv1] at hd1 hc ht
    by_cases hv : L.v1 = []
    · simp only [hv, ↓reduceIte, Option.getD_none, ne_eq, not_true_eq_false, and_false, false_or, List.append_nil,
        Nat.sub_zero, List.take_length] at hd1 hc ht
      exact ⟨s1, z, hr, hd1, by simp [hv, hc], by simp [hv]⟩
    · have hl : (hd ++ frames ++ zeros p ++ L.audio ++ L.v1).length - L.v1.length = (hd ++ frames ++ zeros p ++ L.audio).length := by
        simp; omega
      simp only [hv, ↓reduceIte, Option.getD_some, hl, List.take_left' rfl] at hd1 hc ht
      refine ⟨s1, z, hr, hd1, ?_, ht⟩
      rcases hc with ⟨h1, _⟩ | h2
      · exact Or.inl ⟨h1, hv⟩
      · exact Or.inr h2

/-! ### delete in a quiet environment -/

theorem getSize_q {e : Env} (hq : Quiet e) (s : FS) :
    ∃ s', getSize e s = (.ok s.data.length, s') ∧ s'.data = s.data := by
  unfold getSize
  simp only [bind_run, ftell_q hq, tryFinally, fseekEnd_q hq, fseek_q hq]
  exact ⟨_, rfl, rfl⟩

theorem deleteV1M_q {e : Env} (hq : Quiet e) (s : FS) :
    ∃ s', deleteV1M e s = (.ok (), s') ∧ s'.data = s.data.take (s.data.length - (findV1 s.data).getD 0) := by
  unfold deleteV1M
  obtain ⟨s1, hr1, hd1, hp1⟩ := findV1M_q hq s
  simp only [bind_run, hr1]
  cases hf : findV1 s.data with
  | none => exact ⟨s1, rfl, by simp [hd1]⟩
  | some n =>
    simp only [bind_run, fseekFromEnd_q hq, ftruncateHere_q hq]
    exact ⟨_, rfl, by simp [hd1]⟩

/-- the ID3v2 part of the pure `delete` -/
def deleteV2 (f1 : Bytes) : Except PyErr Bytes :=
  let d := f1.take 10
  if d.length < 10 then .ok f1
  else if d.take 3 ≠ magicID3 then .ok f1
  else
    let insize := bpFromBytes 7 true (d.drop 6)
    if insize + 10 > f1.length then .error .mutagen
    else .ok (f1.drop (insize + 10))

theorem delete_unfold (f : Bytes) (dv1 dv2 : Bool) :
    delete f dv1 dv2 =
      (let f1 := if dv1 then f.take (f.length - (findV1 f).getD 0) else f
       if !dv2 then .ok f1 else deleteV2 f1) := by
  unfold delete deleteV2
  rfl

theorem deleteV2M_q {e : Env} (hq : Quiet e) (B : Nat) (hB : 0 < B) (s : FS) :
    (∃ out s', deleteV2 s.data = .ok out ∧ deleteV2M B e s = (.ok (), s') ∧ s'.data = out) ∨
    (∃ s', deleteV2 s.data = .error .mutagen ∧ deleteV2M B e s = (.error .mutagen, s') ∧ s'.data = s.data) := by
  unfold deleteV2M deleteV2
  have hr : readAt s.data 0 10 = s.data.take 10 := by simp [readAt]
  simp only [bind_run, fseek_q hq, fread_q hq, hr]
  generalize hd : s.data.take 10 = d
  by_cases h1 : d.length < 10
  · simp only [h1, ↓reduceIte, pure_run]
    left; exact ⟨_, _, rfl, rfl, rfl⟩
  simp only [if_neg h1]
  by_cases h2 : d.take 3 ≠ magicID3
  · simp only [if_pos h2, pure_run]
    left; exact ⟨_, _, rfl, rfl, rfl⟩
  simp only [if_neg h2, bind_run]
  obtain ⟨s1, hr1, hd1⟩ := getSize_q hq
    { data := s.data, pos := 0 + d.length, ops := s.ops + 1 + 1, log := .read 10 :: .seek 0 :: s.log }
  rw [hr1]
  simp only []
  by_cases h3 : bpFromBytes 7 true (d.drop 6) + 10 > s.data.length
  · simp only [if_pos h3, raise_run]
    right; exact ⟨_, trivial, rfl, hd1⟩
  · simp only [if_neg h3]
    obtain ⟨s2, hr2, hd2⟩ := deleteBytes_q hq B hB (bpFromBytes 7 true (d.drop 6) + 10) 0 s1
      (by rw [hd1]; show 0 + _ ≤ s.data.length; omega)
    left
    refine ⟨_, s2, rfl, hr2, ?_⟩
    rw [hd2, hd1]
    simp

set_option maxRecDepth 4000 in
/-- the module function `delete` in a quiet environment, device of any capacity, for every file:
it does what the pure `delete` says (a delete never needs space); when it refuses a tag that
announces more than the file holds, an ID3v1 block it was asked to remove is already gone -/
theorem deleteM_q {e : Env} (hq : Quiet e) (B : Nat) (hB : 0 < B) (dv1 dv2 : Bool) (s : FS) (hpos : s.pos ≤ s.data.length) :
    (∃ out s', delete s.data dv1 dv2 = .ok out ∧ deleteM B dv1 dv2 e s = (.ok (), s') ∧ s'.data = out) ∨
    (∃ s', delete s.data dv1 dv2 = .error .mutagen ∧ deleteM B dv1 dv2 e s = (.error .mutagen, s') ∧
      s'.data = if dv1 then s.data.take (s.data.length - (findV1 s.data).getD 0) else s.data) := by
  unfold deleteM deleteBodyM
  rw [convertError_run, delete_unfold]
  obtain ⟨s0, hr0, hd0, hp0⟩ := verifyFileobj_q hq s hpos
  simp only [bind_run, hr0]
  -- the ID3v1 step
  have h1 : ∃ s1, (if dv1 = true then deleteV1M else pure ()) e s0 = (.ok (), s1) ∧
      s1.data = if dv1 then s.data.take (s.data.length - (findV1 s.data).getD 0) else s.data := by
    cases dv1 with
    | true =>
      obtain ⟨s1, hr1, hd1⟩ := deleteV1M_q hq s0
      exact ⟨s1, hr1, by rw [hd1, hd0]; rfl⟩
    | false => exact ⟨s0, rfl, by rw [hd0]; rfl⟩
  obtain ⟨s1, hr1, hd1⟩ := h1
  rw [hr1]
  simp only []
  generalize hf1 : (if dv1 = true then s.data.take (s.data.length - (findV1 s.data).getD 0) else s.data) = f1 at hd1 ⊢
  cases dv2 with
  | false =>
    left
    exact ⟨f1, s1, by simp, rfl, hd1⟩
  | true =>
    simp only [Bool.not_true, Bool.false_eq_true, ↓reduceIte]
    rcases deleteV2M_q hq B hB s1 with ⟨out, s2, hp, hr, hd⟩ | ⟨s2, hp, hr, hd⟩
    · left
      rw [hd1] at hp
      exact ⟨out, s2, hp, by rw [hr], hd⟩
    · right
      rw [hd1] at hp
      exact ⟨s2, hp, by rw [hr]; rfl, by rw [hd, hd1]⟩

theorem deleteM_ok_means_written (B : Nat) (hB : 0 < B) (dv1 dv2 : Bool) (e : Env) (hshort : ∀ i, e.shortAt i = none)
    (s s' : FS) (hpos : s.pos ≤ s.data.length) (h : deleteM B dv1 dv2 e s = (.ok (), s')) :
    delete s.data dv1 dv2 = .ok s'.data := by
  have h' := okAgree_deleteM B dv1 dv2 e s () s' h
  have hq : Quiet e.noFaults := ⟨fun _ => rfl, hshort⟩
  rcases deleteM_q hq B hB dv1 dv2 s hpos with ⟨out, s1, hp, hr, hd⟩ | ⟨s1, _, hr, _⟩
  · rw [hr] at h'; injection h' with _ h2; rw [hp, ← h2, hd]
  · rw [hr] at h'; injection h' with h1 _; cases h1

/-- `delete` on a well-formed layout, device of any capacity: always completes, leaving exactly
the parts it was not asked to remove -/
theorem deleteM_layout_q {e : Env} (hq : Quiet e) (B : Nat) (hB : 0 < B) (L : Layout) (hL : L.OK) (dv1 dv2 : Bool)
    (s : FS) (hs : s.data = L.render) (hpos : s.pos ≤ s.data.length) :
    ∃ s', deleteM B dv1 dv2 e s = (.ok (), s') ∧
      s'.data = (if dv2 then [] else L.tag) ++ L.audio ++ (if dv1 then [] else L.v1) := by
  have hp := delete_layout L hL dv1 dv2
  rcases deleteM_q hq B hB dv1 dv2 s hpos with ⟨out, s1, hp1, hr, hd⟩ | ⟨s1, hp1, _, _⟩
  · rw [hs, hp] at hp1
    injection hp1 with hp1
    exact ⟨s1, hr, by rw [hd, ← hp1]⟩
  · rw [hs, hp] at hp1; cases hp1

/-- what leaves the entry points, stated with the coarser `PrimErr` of Proofs/Raises.lean -/
def SaveErr (e : Env) (x : PyErr) : Prop := x = .mutagen ∨ x = .notImplemented ∨ PrimErr e x

theorem saveErrC_saveErr {e : Env} {x : PyErr} (h : SaveErrC e x) : SaveErr e x := by
  rcases h with h | h | h
  · exact Or.inl h
  · exact Or.inr (Or.inl h)
  · exact Or.inr (Or.inr (primErrC_prim h))

theorem raises_saveM (B vmaj : Nat) (frames : Bytes) (pad : PadChoice) (v1opt : Nat) (blk : Bytes) :
    Raises (fun e x => x = .mutagen ∨ (SaveErr e x ∧ x.isIO = false)) (saveM B vmaj frames pad v1opt blk) := by
  unfold saveM
  exact Raises.convertError PyErr.isIO .mutagen
    ((raisesC_saveInner B vmaj frames pad v1opt blk).weaken fun _ _ => saveErrC_saveErr)

theorem raises_deleteM (B : Nat) (dv1 dv2 : Bool) :
    Raises (fun e x => x = .mutagen ∨ (SaveErr e x ∧ x.isIO = false)) (deleteM B dv1 dv2) := by
  unfold deleteM
  exact Raises.convertError PyErr.isIO .mutagen
    ((raisesC_deleteInner B dv1 dv2).weaken fun _ _ => saveErrC_saveErr)

/-- with I/O faults only: MutagenError, ValueError (`verify_fileobj`, argument checks), or one of
the model's two markers -/
theorem io_faults_only {m : FileM α} (hm : Raises (fun e x => x = .mutagen ∨ (SaveErr e x ∧ x.isIO = false)) m)
    (e : Env) (hio : ∀ i x, e.failAt i = some x → x.isIO = true) (s s' : FS) (x : PyErr)
    (h : m e s = (.error x, s')) : x = .mutagen ∨ x = .value ∨ x = .notImplemented ∨ x = .diverge := by
  rcases hm e s x s' h with h1 | ⟨h2, hn⟩
  · exact Or.inl h1
  · rcases h2 with h2 | h2 | ⟨i, hi⟩ | h2 | h2 | h2 | h2
    · exact Or.inl h2
    · exact Or.inr (Or.inr (Or.inl h2))
    · have := hio i x hi; rw [this] at hn; cases hn
    · subst h2; cases hn
    · exact Or.inr (Or.inl h2)
    · subst h2; cases hn
    · exact Or.inr (Or.inr (Or.inr h2))

end Mutagen.Id3F
