/-
Proofs/Container/FlacRead.lean — C01 for FLAC files, composed: FLAC._save (Model/Container/Flac.lean)
with a Vorbis comment block among the blocks, then the strict block walker and the strict Vorbis-comment
decoder (Model/Vorbis.lean); and VComment.load (Model/Container/OggInject.lean: `loadVC`, the loader
VCFLACDict shares with the Ogg codecs, framing=False).
-/
import MutagenModel.Proofs.Container.Flac
import MutagenModel.Proofs.Container.OggRead
set_option linter.unusedVariables false
namespace Mutagen.FlacC
open Mutagen

/-- the blocks `_writeblocks` is handed: some blocks, the Vorbis comment block, some more blocks -/
def withComment (before : List Block) (vc : Bytes) (behind : List Block) : List Block :=
  before ++ [{ code := vcCode, data := vc }] ++ behind

/-- of the blocks written, exactly one is a Vorbis comment block, the one handed in -/
theorem vc_of_newBlocks (before behind : List Block) (vc : Bytes) (a c : Nat) (pad : PadChoice)
    (hb : ∀ b ∈ before ++ behind, b.code ≠ vcCode) :
    (newBlocks (withComment before vc behind) a c pad).filter (·.code == vcCode) = [{ code := vcCode, data := vc }] := by
  have hnone : ∀ l : List Block, (∀ b ∈ l, b.code ≠ vcCode) →
      (l.filter (·.code != padCode)).filter (·.code == vcCode) = [] := by
    intro l hl
    simp only [List.filter_eq_nil_iff, List.mem_filter]
    intro b hb'
    simp [hl b hb'.1]
  simp only [newBlocks, withComment, List.filter_append]
  rw [hnone before (fun b hb' => hb b (by simp [hb'])), hnone behind (fun b hb' => hb b (by simp [hb']))]
  simp [vcCode, padCode]

/-- save with a comment block, on the file: the strict walker accepts what was written, finds exactly
one Vorbis comment block, and its payload is the rendered comment -/
theorem save_comment_walk (B : Nat) (hB : 0 < B) (L : Layout) (hL : Good L) (before behind : List Block) (vc : Bytes)
    (hvc : vc.length ≤ maxSize)
    (hb : ∀ b ∈ before ++ behind, b.code ≠ vcCode ∧ b.code < 127 ∧ b.data.length ≤ maxSize)
    (pad : PadChoice) (s : FS) (hs : s.data = render L) :
    ∃ s' L', saveM B L (withComment before vc behind) pad Env.clean s = (.ok (), s') ∧ walk s'.data = some L' ∧
      L'.blocks.filter (·.code == vcCode) = [{ code := vcCode, data := vc }] := by
  have hall : ∀ b ∈ withComment before vc behind, b.code < 127 ∧ b.data.length ≤ maxSize := by
    intro b hb'
    simp only [withComment, List.mem_append, List.mem_singleton] at hb'
    rcases hb' with (hb' | rfl) | hb'
    · exact (hb b (by simp [hb'])).2
    · exact ⟨by show vcCode < 127; decide, hvc⟩
    · exact (hb b (by simp [hb'])).2
  obtain ⟨s', hr, hd⟩ := saveM_clean B hB L _ pad (fun b hb' => (hall b hb').2) s hs
  have hg := msave_good L hL _ pad hall
  refine ⟨s', msave L (withComment before vc behind) false pad, hr, ?_, ?_⟩
  · rw [hd]; exact walk_render _ hg.pre hg.ne hg.blocksOk
  · exact vc_of_newBlocks before behind vc _ _ pad (fun b hb' => (hb b hb').1)

end Mutagen.FlacC
