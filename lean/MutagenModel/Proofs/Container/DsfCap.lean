/- Proofs/Container/DsfCap.lean — `_DSFID3.save` / `dsf.delete` as file-operation programs: quiet environments
with any capacity (C19), arbitrary fault environments (C06) -/
import MutagenModel.Model.Container.DsfM
import MutagenModel.Proofs.Container.DsfTotal
import MutagenModel.Proofs.FileOpsCap
import MutagenModel.Proofs.OkAgree
set_option linter.unusedVariables false
namespace Mutagen.Dsf
open Mutagen

/-! ### writes -/

theorem writeData_at (P T b : Bytes) : writeData (P ++ T) P.length b = P ++ b ++ T.drop b.length := by
  rw [writeData_inside _ _ _ (by simp)]
  unfold writeAt
  rw [List.take_left' rfl, List.drop_append]
  have : P.drop (P.length + b.length) = [] := List.drop_eq_nil_of_le (by omega)
  simp [this]

theorem writeData_nil (d : Bytes) (pos : Nat) (h : pos ≤ d.length) : writeData d pos [] = d := by
  rw [writeData_inside _ _ _ h]; simp [writeAt]

/-- a write in a quiet environment: it happens, or the device is full and a prefix of it happened -/
theorem fwrite_q {e : Env} (hq : Quiet e) (b : Bytes) (s : FS) :
    (∃ s1, fwrite b e s = (.ok (), s1) ∧ s1.data = writeData s.data s.pos b ∧ s1.pos = s.pos + b.length) ∨
    (e.cap ≠ none ∧ ∃ s1 k, fwrite b e s = (.error .enospc, s1) ∧ k ≤ e.leak b.length ∧
      s1.data = writeData s.data s.pos (b.take k)) := by
  unfold fwrite
  simp only [tick_q hq]
  cases hc : e.cap with
  | none => left; exact ⟨_, rfl, rfl, rfl⟩
  | some c =>
    simp only
    split
    · left; exact ⟨_, rfl, rfl, rfl⟩
    · right; exact ⟨by simp, _, _, rfl, Nat.min_le_left _ _, rfl⟩

theorem verifyM_q {e : Env} (hq : Quiet e) (s : FS) (hp : s.pos ≤ s.data.length) :
    ∃ s1, verifyM e s = (.ok (), s1) ∧ s1.data = s.data ∧ s1.pos = s.pos := by
  unfold verifyM
  simp only [bind_run, tryCatch, fread_q hq, pure_run]
  have h0 : (readAt s.data s.pos 0).length = 0 := by simp [readAt]
  rw [fwrite_q_inside hq [] _ (by simp [h0]; omega)]
  refine ⟨_, rfl, ?_, by simp [h0]⟩
  simp only [h0, Nat.add_zero]
  exact writeData_nil _ _ hp

theorem loadDsdM_q {e : Env} (hq : Quiet e) (s : FS) (t p : Nat) (R : Bytes) (hd : s.data = dsdChunk t p ++ R)
    (h0 : s.pos = 0) (ht : t < 2 ^ 64) (hp : p < 2 ^ 63) :
    ∃ s1, loadDsdM e s = (.ok (0, ⟨t, p⟩), s1) ∧ s1.data = s.data ∧ s1.pos = 28 := by
  unfold loadDsdM
  simp only [bind_run, ftell_q hq, fread_q hq, h0]
  have hr : readAt s.data 0 dsdSize = dsdChunk t p := by
    rw [hd]; exact readAt_zero_left _ _ _ (length_dsdChunk t p)
  rw [hr]
  have := loadDsd_render t p [] ht hp
  rw [List.append_nil] at this
  rw [this]
  exact ⟨_, rfl, rfl, by simp⟩

theorem writeDsdM_q {e : Env} (hq : Quiet e) (s : FS) (t p t' p' : Nat) (R : Bytes) (hd : s.data = dsdChunk t p ++ R)
    (ht : t' < 2 ^ 64) (hp : p' < 2 ^ 64) :
    ∃ s1, writeDsdM 0 ⟨t', p'⟩ e s = (.ok (), s1) ∧ s1.data = dsdChunk t' p' ++ R ∧ s1.pos = 28 := by
  unfold writeDsdM
  have : ¬ (t' ≥ 2 ^ 64 ∨ p' ≥ 2 ^ 64) := by omega
  simp only [this, ↓reduceIte, bind_run, fseek_q hq]
  rw [fwrite_q_inside hq _ _ (by simp [hd])]
  refine ⟨_, rfl, ?_, by simp⟩
  show writeData s.data 0 (dsdChunk t' p') = _
  have := writeData_at [] (dsdChunk t p ++ R) (dsdChunk t' p')
  simp only [List.nil_append, List.length_nil] at this
  rw [hd, this, length_dsdChunk, ← length_dsdChunk t p, List.drop_left' rfl]


/-- `ID3Header` run on the file, when the extended-header flag is not set at the position: the answer of
`Id3F.headerSize` on what follows the position, the file untouched -/
theorem id3HeaderM_q {e : Env} (hq : Quiet e) (s : FS)
    (hne : ((readAt s.data s.pos 10).getD 5 0).toNat / 64 % 2 ≠ 1) :
    ∃ s1, id3HeaderM e s = (Id3F.headerSize (s.data.drop s.pos), s1) ∧ s1.data = s.data := by
  unfold id3HeaderM convertError Id3F.headerSize
  simp only [bind_run, fread_q hq]
  have hd : (s.data.drop s.pos).take 10 = readAt s.data s.pos 10 := rfl
  rw [hd]
  generalize readAt s.data s.pos 10 = d at hne
  by_cases c0 : d.length ≠ 10
  · rw [if_pos c0, if_pos c0]; exact ⟨_, rfl, rfl⟩
  rw [if_neg c0, if_neg c0]
  by_cases c1 : d.take 3 ≠ Id3F.magicID3
  · rw [if_pos c1, if_pos c1]; exact ⟨_, rfl, rfl⟩
  rw [if_neg c1, if_neg c1]
  by_cases c2 : (d.getD 3 0).toNat ≠ 2 ∧ (d.getD 3 0).toNat ≠ 3 ∧ (d.getD 3 0).toNat ≠ 4
  · rw [if_pos c2, if_pos c2]; exact ⟨_, rfl, rfl⟩
  rw [if_neg c2, if_neg c2]
  by_cases c3 : (!(d.drop 6).all fun x => decide (x.toNat < 128)) = true
  · rw [if_pos c3, if_pos c3]; exact ⟨_, rfl, rfl⟩
  rw [if_neg c3, if_neg c3]
  by_cases c4 : (d.getD 3 0).toNat = 4 ∧ (d.getD 5 0).toNat % 16 ≠ 0
  · rw [if_pos c4, if_pos c4]; exact ⟨_, rfl, rfl⟩
  rw [if_neg c4, if_neg c4]
  by_cases c5 : (d.getD 3 0).toNat = 3 ∧ (d.getD 5 0).toNat % 32 ≠ 0
  · rw [if_pos c5, if_pos c5]; exact ⟨_, rfl, rfl⟩
  rw [if_neg c5, if_neg c5, if_neg hne, if_neg hne]
  exact ⟨_, rfl, rfl⟩

/-- the tag region of a layout has no extended-header flag -/
theorem tagOK_noext (t : Bytes) (h : Id3F.TagOK t) : ((t.take 10).getD 5 0).toNat / 64 % 2 ≠ 1 := by
  rcases h with rfl | ⟨vmaj, hd, body, hv, hn, hh, rfl⟩
  · decide
  · obtain ⟨a, b, c, d, h1, _⟩ := Id3F.header_ok vmaj body.length hn
    rw [h1] at hh; cases hh
    simp [Id3F.magicID3]


/-! ### save on a well-formed layout, any capacity -/

/-- `_DSFID3.save` on a device that may run full.  Either the save completes and the file is the layout with
the new tag; or the write of the new tag hits ENOSPC: then the DSD chunk holds the old total size and the
pointer to the tag position (for a file without tag that pointer has been written already), fmt and data
chunk are untouched, and the tag region is the old one overwritten from its start by the `k` bytes of the
new tag that reached the file (`k` = 0 when the failing write leaves nothing behind: the old tag is intact) -/
theorem saveM_q {e : Env} (hq : Quiet e) (L : Layout) (h : L.OK) (vmaj : Nat) (hvm : vmaj = 3 ∨ vmaj = 4)
    (frames : Bytes) (ans : Int → Int → Int) (p : Nat)
    (hp : ans ((L.tag.length : Int) - (frames.length + 10 : Nat)) 0 = p) (hfit : frames.length + p < 2 ^ 28)
    (s : FS) (hs : s.data = L.render) (hpos : s.pos ≤ s.data.length) :
    ∃ hd, Id3F.header vmaj (frames.length + p) = .ok hd ∧ hd.length = 10 ∧
      ((∃ s', saveM vmaj frames ans e s = (.ok (), s') ∧ s'.data = (L.withTag (hd ++ frames ++ zeros p)).render) ∨
       (e.cap ≠ none ∧ ∃ s' k, saveM vmaj frames ans e s = (.error .enospc, s') ∧ k ≤ e.leak (10 + frames.length + p) ∧
          s'.data = dsdChunk L.total L.tagPos ++ L.fmt ++ L.data ++ writeData L.tag 0 ((hd ++ frames ++ zeros p).take k))) := by
  obtain ⟨a, b, c, d, hhd, _⟩ := Id3F.header_ok vmaj (frames.length + p) hfit
  have hd10 : (Id3F.magicID3 ++ [UInt8.ofNat vmaj, 0, 0] ++ [a, b, c, d]).length = 10 := by simp [Id3F.magicID3]
  refine ⟨_, hhd, hd10, ?_⟩
  generalize Id3F.magicID3 ++ [UInt8.ofNat vmaj, 0, 0] ++ [a, b, c, d] = hd at hhd hd10
  generalize hN : hd ++ frames ++ zeros p = N
  have hNl : N.length = 10 + frames.length + p := by rw [← hN]; simp [hd10]; omega
  -- sizes
  have hsz := h.size
  have hle : L.tagPos ≤ L.total := by simp [Layout.total]
  have htot : L.total = L.tagPos + L.tag.length := rfl
  have hpl : L.pointer < 2 ^ 63 := by unfold Layout.pointer; split <;> omega
  have hrender : L.render = dsdChunk L.total L.pointer ++ (L.fmt ++ L.data ++ L.tag) := by
    simp [Layout.render, List.append_assoc]
  have hlen : s.data.length = L.total := by rw [hs]; exact length_render L
  unfold saveM
  simp only [bind_run]
  -- verify_fileobj, seek(0), DSDChunk
  obtain ⟨s1, r1, d1, p1⟩ := verifyM_q hq s hpos
  rw [r1]; simp only [fseek_q hq]
  obtain ⟨s2, r2, d2, p2⟩ := loadDsdM_q hq { data := s1.data, pos := 0, ops := s1.ops + 1, log := Op.seek 0 :: s1.log }
    L.total L.pointer (L.fmt ++ L.data ++ L.tag) (by show s1.data = _; rw [d1, hs, hrender]) rfl (by omega) hpl
  rw [r2]; simp only []
  have d2' : s2.data = dsdChunk L.total L.pointer ++ (L.fmt ++ L.data ++ L.tag) := by
    rw [d2]; show s1.data = _; rw [d1, hs, hrender]
  -- the pointer: after this phase the DSD chunk points to the tag position
  have phase : ∃ s3, ((if L.pointer = 0 then (do
        fseekEnd
        let p ← ftell
        writeDsdM 0 ⟨L.total, p⟩
        pure p) else pure L.pointer : FileM Nat) e s2) = (.ok L.tagPos, s3) ∧
      s3.data = dsdChunk L.total L.tagPos ++ (L.fmt ++ L.data ++ L.tag) := by
    by_cases ht : L.tag = []
    · have hp0 : L.pointer = 0 := by simp [Layout.pointer, ht]
      have hl2 : s2.data.length = L.tagPos := by rw [d2, show ({ data := s1.data, pos := 0, ops := s1.ops + 1, log := Op.seek 0 :: s1.log } : FS).data = s1.data from rfl, d1, hlen, htot, ht]; simp
      rw [if_pos hp0]
      simp only [bind_run, fseekEnd_q hq, ftell_q hq, hl2]
      obtain ⟨s3, r3, d3, _⟩ := writeDsdM_q hq { data := s2.data, pos := L.tagPos, ops := s2.ops + 1 + 1, log := Op.tell :: Op.seekEnd :: s2.log }
        L.total L.pointer L.total L.tagPos (L.fmt ++ L.data ++ L.tag) d2' (by omega) (by omega)
      rw [r3]
      exact ⟨s3, rfl, d3⟩
    · have hpp : L.pointer = L.tagPos := by simp [Layout.pointer, ht]
      have hne : ¬ L.pointer = 0 := by rw [hpp]; exact tagPos_pos L
      rw [if_neg hne, hpp]
      exact ⟨s2, rfl, by rw [d2', hpp]⟩
  obtain ⟨s3, r3, d3⟩ := phase
  rw [r3]; simp only []
  -- ID3Header at the pointer
  have hpre : (dsdChunk L.total L.tagPos ++ (L.fmt ++ L.data)).length = L.tagPos := by
    simp [Layout.tagPos, dsdSize]; omega
  have d3' : s3.data = (dsdChunk L.total L.tagPos ++ (L.fmt ++ L.data)) ++ L.tag := by
    rw [d3]; simp [List.append_assoc]
  have hdrop : s3.data.drop L.tagPos = L.tag := by rw [d3']; exact List.drop_left' hpre
  obtain ⟨ho, hho, hgetD, _⟩ := headerSize_tagOK L.tag h.tag
  obtain ⟨s4, r4, d4⟩ := id3HeaderM_q hq { data := s3.data, pos := L.tagPos, ops := s3.ops + 1, log := Op.seek L.tagPos :: s3.log }
    (by show ((readAt s3.data L.tagPos 10).getD 5 0).toNat / 64 % 2 ≠ 1
        unfold readAt; rw [hdrop]; exact tagOK_noext _ h.tag)
  rw [show ({ data := s3.data, pos := L.tagPos, ops := s3.ops + 1, log := Op.seek L.tagPos :: s3.log } : FS).data.drop
      ({ data := s3.data, pos := L.tagPos, ops := s3.ops + 1, log := Op.seek L.tagPos :: s3.log } : FS).pos = L.tag from hdrop, hho] at r4
  rw [r4]; simp only [hgetD]
  have d4' : s4.data = (dsdChunk L.total L.tagPos ++ (L.fmt ++ L.data)) ++ L.tag := by rw [d4]; exact d3'
  have hl4 : s4.data.length = L.tagPos + L.tag.length := by rw [d4', List.length_append, hpre]
  -- _prepare_data
  have h0 : ¬ (vmaj ≠ 3 ∧ vmaj ≠ 4) := by omega
  rw [if_neg h0]
  simp only [bind_run, fseekEnd_q hq, ftell_q hq, hl4]
  have htr : ((L.tagPos + L.tag.length : Nat) : Int) - (L.tagPos : Int) - (L.tag.length : Int) = 0 := by omega
  rw [htr, hp]
  have h3 : ¬ ((p : Int) < 0) := by omega
  have h5 : ¬ (frames.length > 2 ^ 28 - 1) := by omega
  have hmin : min (p : Int).toNat (2 ^ 28 - 1 - frames.length) = p := by rw [Int.toNat_natCast]; omega
  rw [if_neg h3, if_neg h5]; simp only [bind_run, hmin, hhd, hN, fseek_q hq]
  -- the write of the new tag
  rcases fwrite_q hq N { data := s4.data, pos := L.tagPos, ops := s4.ops + 1 + 1 + 1, log := Op.seek L.tagPos :: Op.tell :: Op.seekEnd :: s4.log } with
    ⟨s5, r5, d5, p5⟩ | ⟨hcap, s5, k, r5, hk, d5⟩
  · left
    rw [r5]; simp only [ftruncateHere, ftruncate_q hq, ftell_q hq]
    have d5' : s5.data = (dsdChunk L.total L.tagPos ++ (L.fmt ++ L.data)) ++ N ++ L.tag.drop N.length := by
      rw [d5]; show writeData s4.data L.tagPos N = _
      have := writeData_at (dsdChunk L.total L.tagPos ++ (L.fmt ++ L.data)) L.tag N
      rw [hpre] at this
      rw [d4', this]
    have p5' : s5.pos = L.tagPos + N.length := p5
    have htk : s5.data.take s5.pos = dsdChunk L.total L.tagPos ++ ((L.fmt ++ L.data) ++ N) := by
      rw [d5', p5', List.append_assoc _ N, ← List.append_assoc _ N]
      rw [List.take_left' (by rw [List.length_append, hpre])]
      simp [List.append_assoc]
    obtain ⟨s6, r6, d6, _⟩ := writeDsdM_q hq { data := s5.data.take s5.pos, pos := s5.pos, ops := s5.ops + 1 + 1, log := Op.tell :: Op.truncate s5.pos :: s5.log }
      L.total L.tagPos s5.pos L.tagPos ((L.fmt ++ L.data) ++ N) htk (by rw [p5', hNl]; omega) (by omega)
    rw [r6]
    refine ⟨s6, rfl, ?_⟩
    rw [d6, p5']
    have hne : N ≠ [] := by intro e0; rw [e0] at hNl; simp only [List.length_nil] at hNl; omega
    simp only [Layout.render, total_withTag, pointer_withTag L _ hne, fmt_withTag, data_withTag, tag_withTag, List.append_assoc]
  · right
    refine ⟨hcap, s5, k, ?_, by rw [← hNl]; exact hk, ?_⟩
    · rw [r5]
    · rw [d5]; show writeData s4.data L.tagPos (N.take k) = _
      have h1 := writeData_at (dsdChunk L.total L.tagPos ++ (L.fmt ++ L.data)) L.tag (N.take k)
      rw [hpre] at h1
      have h2 := writeData_at [] L.tag (N.take k)
      simp only [List.nil_append, List.length_nil] at h2
      rw [d4', h1, h2]; simp [List.append_assoc]


/-! ### arbitrary fault environments: what can be raised -/

/-- what the bodies of save and delete can raise: the module's error, ValueError (`verify_fileobj`, a bad
`v2_version`, an argument check of `read_full`), `struct.error` (a total size or pointer of 2^64 or more),
or what the file primitives raise (an injected exception, ENOSPC, IOError on a short `read_full`) -/
def DsfErr (e : Env) (x : PyErr) : Prop :=
  x = .mutagen ∨ x = .value ∨ x = .struct_ ∨ Injected e x ∨ x = .enospc ∨ x = .io

theorem dsfErr_inj {e : Env} {x : PyErr} (h : Injected e x) : DsfErr e x := Or.inr (Or.inr (Or.inr (Or.inl h)))
theorem dsfErr_w {e : Env} {x : PyErr} (h : Injected e x ∨ x = .enospc) : DsfErr e x :=
  h.elim dsfErr_inj (fun h => Or.inr (Or.inr (Or.inr (Or.inr (Or.inl h)))))
theorem dsfErr_io (e : Env) : DsfErr e .io := Or.inr (Or.inr (Or.inr (Or.inr (Or.inr rfl))))
theorem dsfErr_mutagen (e : Env) : DsfErr e .mutagen := Or.inl rfl
theorem dsfErr_value (e : Env) : DsfErr e .value := Or.inr (Or.inl rfl)

theorem raises_raise_bind {β : Type} (x : PyErr) (k : Unit → FileM β) (hx : ∀ e, DsfErr e x) :
    Raises DsfErr (Mutagen.raise x >>= fun r => k r) := by
  intro e s err s' h
  simp only [bind_run, raise_run, Prod.mk.injEq, Except.error.injEq] at h
  exact h.1 ▸ hx e

theorem raises_verifyM : Raises DsfErr verifyM := by
  unfold verifyM
  apply Raises.bind
  · apply Raises.tryCatch
    · exact Raises.bind ((Raises.fread 0).weaken fun _ _ => dsfErr_inj) (fun _ => Raises.pure _ _)
    · intro e x _ _ s err s' h
      simp only [raise_run, Prod.mk.injEq, Except.error.injEq] at h
      exact h.1 ▸ dsfErr_value e
  · intro _
    apply Raises.tryCatch
    · exact (Raises.fwrite []).weaken fun _ _ => dsfErr_w
    · intro e x _ _ s err s' h
      simp only [raise_run, Prod.mk.injEq, Except.error.injEq] at h
      exact h.1 ▸ dsfErr_value e

theorem raises_loadDsdM : Raises DsfErr loadDsdM := by
  unfold loadDsdM
  apply Raises.bind (Raises.ftell.weaken fun _ _ => dsfErr_inj); intro off
  apply Raises.bind ((Raises.fread _).weaken fun _ _ => dsfErr_inj); intro d
  cases hl : loadDsd d with
  | error x => simp only []; exact Raises.raise _ (fun e => loadDsd_err _ _ hl ▸ dsfErr_mutagen e)
  | ok hd => exact Raises.pure _ _

theorem raises_writeDsdM (off : Nat) (h : Dsd) : Raises DsfErr (writeDsdM off h) := by
  unfold writeDsdM
  apply Raises.ite
  · exact Raises.raise _ (fun _ => Or.inr (Or.inr (Or.inl rfl)))
  · exact Raises.bind ((Raises.fseek _).weaken fun _ _ => dsfErr_inj)
      (fun _ => (Raises.fwrite _).weaken fun _ _ => dsfErr_w)

theorem raises_fseekBack4 : Raises DsfErr fseekBack4 := by
  intro e s err s' h
  exact dsfErr_inj (Raises.fseek _ e s err s' h)

theorem raises_ftruncateHere : Raises DsfErr ftruncateHere := by
  intro e s err s' h
  exact dsfErr_inj (Raises.ftruncate _ e s err s' h)

theorem raises_readFull (n : Int) : Raises DsfErr (readFull n) := by
  unfold readFull
  apply Raises.guardThen _ _ _ dsfErr_value
  apply Raises.bind ((Raises.fread _).weaken fun _ _ => dsfErr_inj); intro d
  apply Raises.guardThen _ _ _ dsfErr_io
  exact Raises.pure _ _

theorem raises_id3HeaderM : Raises DsfErr id3HeaderM := by
  unfold id3HeaderM
  refine (Raises.convertError PyErr.isIO .mutagen (P := DsfErr) ?_).weaken ?_
  · apply Raises.bind ((Raises.fread _).weaken fun _ _ => dsfErr_inj); intro d
    repeat' apply Raises.ite
    all_goals first
      | exact Raises.pure _ _
      | exact Raises.raise _ dsfErr_mutagen
      | skip
    all_goals
      apply Raises.bind (raises_readFull _); intro x
      repeat' apply Raises.ite
      all_goals first
        | exact Raises.raise _ dsfErr_mutagen
        | exact Raises.bind (raises_readFull _) (fun _ => Raises.pure _ _)
        | exact Raises.bind raises_fseekBack4 (fun _ => Raises.bind (raises_readFull _) (fun _ => Raises.pure _ _))
  · intro e x hx
    rcases hx with rfl | ⟨h, _⟩
    · exact dsfErr_mutagen e
    · exact h

theorem raises_saveM (vmaj : Nat) (frames : Bytes) (ans : Int → Int → Int) : Raises DsfErr (saveM vmaj frames ans) := by
  unfold saveM
  apply Raises.bind raises_verifyM; intro _
  apply Raises.bind ((Raises.fseek _).weaken fun _ _ => dsfErr_inj); intro _
  apply Raises.bind raises_loadDsdM; intro oh
  apply Raises.bind
  · apply Raises.ite
    · apply Raises.bind (Raises.fseekEnd.weaken fun _ _ => dsfErr_inj); intro _
      apply Raises.bind (Raises.ftell.weaken fun _ _ => dsfErr_inj); intro _
      exact Raises.bind (raises_writeDsdM _ _) (fun _ => Raises.pure _ _)
    · exact Raises.pure _ _
  intro ptr
  apply Raises.bind ((Raises.fseek _).weaken fun _ _ => dsfErr_inj); intro _
  apply Raises.bind raises_id3HeaderM; intro hs
  apply Raises.guardThen _ _ _ dsfErr_value
  apply Raises.bind (Raises.fseekEnd.weaken fun _ _ => dsfErr_inj); intro _
  apply Raises.bind (Raises.ftell.weaken fun _ _ => dsfErr_inj); intro size
  apply Raises.guardThen _ _ _ dsfErr_mutagen
  by_cases hc : frames.length > 2 ^ 28 - 1
  · rw [if_pos hc]; exact raises_raise_bind _ _ dsfErr_mutagen
  rw [if_neg hc]
  have hf : frames.length + min (ans ((hs.getD 0 : Nat) - ((frames.length + 10 : Nat) : Int)) ((size : Int) - ptr - (hs.getD 0 : Nat))).toNat (2 ^ 28 - 1 - frames.length) < 2 ^ 28 := by omega
  obtain ⟨a, b, c, d, hh, _⟩ := Id3F.header_ok vmaj _ hf
  simp only [hh]
  apply Raises.bind ((Raises.fseek _).weaken fun _ _ => dsfErr_inj); intro _
  apply Raises.bind ((Raises.fwrite _).weaken fun _ _ => dsfErr_w); intro _
  apply Raises.bind raises_ftruncateHere; intro _
  apply Raises.bind (Raises.ftell.weaken fun _ _ => dsfErr_inj); intro _
  exact raises_writeDsdM _ _


theorem raises_deleteM (method : Bool) : Raises DsfErr (deleteM method) := by
  unfold deleteM
  apply Raises.bind
  · apply Raises.ite
    · exact raises_verifyM
    · exact Raises.pure _ _
  intro _
  apply Raises.bind raises_verifyM; intro _
  apply Raises.bind raises_loadDsdM; intro oh
  apply Raises.bind (Raises.ftell.weaken fun _ _ => dsfErr_inj); intro _
  apply Raises.bind ((Raises.fread _).weaken fun _ _ => dsfErr_inj); intro d1
  cases h1 : loadFmt d1 with
  | error x => simp only []; exact Raises.raise _ (fun e => loadFmt_err _ _ h1 ▸ dsfErr_mutagen e)
  | ok u =>
    simp only []
    apply Raises.bind (Raises.ftell.weaken fun _ _ => dsfErr_inj); intro _
    apply Raises.bind ((Raises.fread _).weaken fun _ _ => dsfErr_inj); intro d2
    cases h2 : loadData d2 with
    | error x => simp only []; exact Raises.raise _ (fun e => loadData_err _ _ h2 ▸ dsfErr_mutagen e)
    | ok u2 =>
      simp only []
      apply Raises.ite
      · apply Raises.bind (raises_writeDsdM _ _); intro _
        apply Raises.bind ((Raises.fseek _).weaken fun _ _ => dsfErr_inj); intro _
        exact raises_ftruncateHere
      · exact Raises.pure _ _

/-- what leaves the entry points (`@convert_error(IOError, error)` around the body): the module's error, or
a non-I/O exception of the list above -/
theorem raises_entry {m : FileM Unit} (hm : Raises DsfErr m) :
    Raises (fun e x => x = .mutagen ∨ (DsfErr e x ∧ x.isIO = false)) (convertError PyErr.isIO .mutagen m) :=
  Raises.convertError PyErr.isIO .mutagen hm

/-- with I/O faults only: MutagenError, ValueError, or `struct.error` -/
theorem entry_io_faults {m : FileM Unit} (hm : Raises DsfErr m) (e : Env)
    (hio : ∀ i x, e.failAt i = some x → x.isIO = true) (s s' : FS) (x : PyErr)
    (h : convertError PyErr.isIO .mutagen m e s = (.error x, s')) : x = .mutagen ∨ x = .value ∨ x = .struct_ := by
  rcases raises_entry hm e s x s' h with h1 | ⟨h2, hn⟩
  · exact Or.inl h1
  · rcases h2 with h2 | h2 | h2 | h2
    · exact Or.inl h2
    · exact Or.inr (Or.inl h2)
    · exact Or.inr (Or.inr h2)
    · rcases h2 with ⟨i, hi⟩ | h2 | h2
      · have := hio i x hi; rw [this] at hn; cases hn
      · subst h2; cases hn
      · subst h2; cases hn


/-! ### a normal return means no injected fault fired -/

theorem OkAgree.ite' {c : Prop} [Decidable c] {m n : FileM α} (hm : OkAgree m) (hn : OkAgree n) :
    OkAgree (if c then m else n) := by
  split <;> assumption

theorem okAgree_convertError (src : PyErr → Bool) (dst : PyErr) {m : FileM α} (hm : OkAgree m) :
    OkAgree (convertError src dst m) := by
  intro e s a s' h
  unfold convertError at h ⊢
  cases hms : m e s with
  | mk r s1 =>
    rw [hms] at h
    cases r with
    | ok b => rw [hm e s b s1 hms]; exact h
    | error x => simp only at h; split at h <;> cases h

theorem okAgree_verifyM : OkAgree verifyM := by
  unfold verifyM
  apply OkAgree.bind
  · apply OkAgree.tryCatch
    · exact OkAgree.bind (OkAgree.fread 0) (fun _ => OkAgree.pure _)
    · intro x e s a s' h; simp at h
  · intro _
    apply OkAgree.tryCatch (OkAgree.fwrite [])
    intro x e s a s' h; simp at h

theorem okAgree_loadDsdM : OkAgree loadDsdM := by
  unfold loadDsdM
  apply OkAgree.bind OkAgree.ftell; intro off
  apply OkAgree.bind (OkAgree.fread _); intro d
  cases loadDsd d with
  | error x => exact OkAgree.raise _
  | ok hd => exact OkAgree.pure _

theorem okAgree_writeDsdM (off : Nat) (h : Dsd) : OkAgree (writeDsdM off h) := by
  unfold writeDsdM
  apply OkAgree.ite' (OkAgree.raise _)
  exact OkAgree.bind (OkAgree.fseek _) (fun _ => OkAgree.fwrite _)

theorem okAgree_fseekBack4 : OkAgree fseekBack4 := fun e s a s' h => OkAgree.fseek _ e s a s' h
theorem okAgree_ftruncateHere : OkAgree ftruncateHere := fun e s a s' h => OkAgree.ftruncate _ e s a s' h

theorem okAgree_id3HeaderM : OkAgree id3HeaderM := by
  unfold id3HeaderM
  apply okAgree_convertError
  apply OkAgree.bind (OkAgree.fread _); intro d
  repeat' apply OkAgree.ite'
  all_goals first
    | exact OkAgree.pure _
    | exact OkAgree.raise _
    | skip
  all_goals
    apply OkAgree.bind (OkAgree.readFull _); intro x
    repeat' apply OkAgree.ite'
    all_goals first
      | exact OkAgree.raise _
      | exact OkAgree.bind (OkAgree.readFull _) (fun _ => OkAgree.pure _)
      | exact OkAgree.bind okAgree_fseekBack4 (fun _ => OkAgree.bind (OkAgree.readFull _) (fun _ => OkAgree.pure _))

theorem okAgree_saveM (vmaj : Nat) (frames : Bytes) (ans : Int → Int → Int) : OkAgree (saveM vmaj frames ans) := by
  unfold saveM
  apply OkAgree.bind okAgree_verifyM; intro _
  apply OkAgree.bind (OkAgree.fseek _); intro _
  apply OkAgree.bind okAgree_loadDsdM; intro oh
  apply OkAgree.bind
  · apply OkAgree.ite'
    · apply OkAgree.bind OkAgree.fseekEnd; intro _
      apply OkAgree.bind OkAgree.ftell; intro _
      exact OkAgree.bind (okAgree_writeDsdM _ _) (fun _ => OkAgree.pure _)
    · exact OkAgree.pure _
  intro ptr
  apply OkAgree.bind (OkAgree.fseek _); intro _
  apply OkAgree.bind okAgree_id3HeaderM; intro hs
  apply OkAgree.guardThen
  apply OkAgree.bind OkAgree.fseekEnd; intro _
  apply OkAgree.bind OkAgree.ftell; intro size
  apply OkAgree.guardThen
  apply OkAgree.guardThen
  simp only []
  split
  · exact OkAgree.raise _
  · apply OkAgree.bind (OkAgree.fseek _); intro _
    apply OkAgree.bind (OkAgree.fwrite _); intro _
    apply OkAgree.bind okAgree_ftruncateHere; intro _
    apply OkAgree.bind OkAgree.ftell; intro _
    exact okAgree_writeDsdM _ _

theorem okAgree_deleteM (method : Bool) : OkAgree (deleteM method) := by
  unfold deleteM
  apply OkAgree.bind (OkAgree.ite' okAgree_verifyM (OkAgree.pure _)); intro _
  apply OkAgree.bind okAgree_verifyM; intro _
  apply OkAgree.bind okAgree_loadDsdM; intro oh
  apply OkAgree.bind OkAgree.ftell; intro _
  apply OkAgree.bind (OkAgree.fread _); intro d1
  cases loadFmt d1 with
  | error x => exact OkAgree.raise _
  | ok u =>
    apply OkAgree.bind OkAgree.ftell; intro _
    apply OkAgree.bind (OkAgree.fread _); intro d2
    cases loadData d2 with
    | error x => exact OkAgree.raise _
    | ok u2 =>
      apply OkAgree.ite'
      · apply OkAgree.bind (okAgree_writeDsdM _ _); intro _
        exact OkAgree.bind (OkAgree.fseek _) (fun _ => okAgree_ftruncateHere)
      · exact OkAgree.pure _

/-- `dsf.delete` / `DSF.delete` on a well-formed layout in a quiet environment: every write stays inside
the file, so no capacity limit matters — it completes and leaves the layout without its tag -/
theorem deleteM_q {e : Env} (hq : Quiet e) (L : Layout) (h : L.OK) (method : Bool) (s : FS) (hs : s.data = L.render)
    (h0 : s.pos = 0) :
    ∃ s', deleteM method e s = (.ok (), s') ∧ s'.data = (L.withTag []).render := by
  have hsz := h.size
  have hle : L.tagPos ≤ L.total := by simp [Layout.total]
  have hpl : L.pointer < 2 ^ 63 := by unfold Layout.pointer; split <;> omega
  have hf : L.fmt.length = 52 := h.fmt.len
  have hdl : 12 ≤ L.data.length := h.data.len
  have hrender : L.render = dsdChunk L.total L.pointer ++ (L.fmt ++ L.data ++ L.tag) := by
    simp [Layout.render, List.append_assoc]
  obtain ⟨rd1, rd2⟩ := reads_render L.total L.pointer L h
  unfold deleteM
  simp only [bind_run]
  -- verify_fileobj, once or twice
  have hv : ∃ s0, ((if method = true then verifyM else pure () : FileM Unit) e s) = (.ok (), s0) ∧ s0.data = s.data ∧ s0.pos = 0 := by
    cases method with
    | false => exact ⟨s, rfl, rfl, h0⟩
    | true =>
      obtain ⟨s0, r0, d0, p0⟩ := verifyM_q hq s (by omega)
      exact ⟨s0, by simpa using r0, d0, by omega⟩
  obtain ⟨s0, r0, d0, p0⟩ := hv
  rw [r0]; simp only []
  obtain ⟨s1, r1, d1, p1⟩ := verifyM_q hq s0 (by omega)
  rw [r1]; simp only []
  obtain ⟨s2, r2, d2, p2⟩ := loadDsdM_q hq s1 L.total L.pointer (L.fmt ++ L.data ++ L.tag)
    (by rw [d1, d0, hs, hrender]) (by omega) (by omega) hpl
  rw [r2]; simp only [ftell_q hq, fread_q hq, p2]
  have d2' : s2.data = dsdChunk L.total L.pointer ++ L.fmt ++ L.data ++ L.tag := by
    rw [d2, d1, d0, hs]; rfl
  have e1 : readAt s2.data 28 fmtSize = L.fmt := by rw [d2']; exact rd1
  rw [e1, loadFmt_ok _ h.fmt]
  simp only [bind_run, ftell_q hq, fread_q hq, hf]
  have e2 : readAt s2.data (28 + 52) dataHdr = L.data.take dataHdr := by rw [d2']; exact rd2
  rw [e2, loadData_ok _ h.data]
  simp only []
  by_cases ht : L.tag = []
  · have hp0 : L.pointer = 0 := by simp [Layout.pointer, ht]
    have : ¬ (L.pointer ≠ 0) := by simp [hp0]
    rw [if_neg this]
    refine ⟨_, rfl, ?_⟩
    have hw : L.withTag [] = L := by cases L; simp_all [Layout.withTag]
    rw [hw, ← hs, ← d0, ← d1, ← d2]
  · have hpp : L.pointer = L.tagPos := by simp [Layout.pointer, ht]
    have hne : L.pointer ≠ 0 := by rw [hpp]; exact tagPos_pos L
    rw [if_pos hne]
    simp only [bind_run]
    obtain ⟨s3, r3, d3, _⟩ := writeDsdM_q hq
      { data := s2.data, pos := 28 + 52 + (L.data.take dataHdr).length, ops := s2.ops + 1 + 1 + 1 + 1,
        log := Op.read dataHdr :: Op.tell :: Op.read fmtSize :: Op.tell :: s2.log }
      L.total L.pointer L.pointer 0 (L.fmt ++ L.data ++ L.tag)
      (by show s2.data = _; rw [d2']; simp [List.append_assoc]) (by omega) (by decide)
    rw [r3]; simp only [fseek_q hq, ftruncateHere, ftruncate_q hq]
    refine ⟨_, rfl, ?_⟩
    show s3.data.take L.pointer = _
    rw [d3, hpp]
    have hl : (dsdChunk L.tagPos 0 ++ (L.fmt ++ L.data)).length = L.tagPos := by
      simp [Layout.tagPos, dsdSize]; omega
    rw [show dsdChunk L.tagPos 0 ++ (L.fmt ++ L.data ++ L.tag) = (dsdChunk L.tagPos 0 ++ (L.fmt ++ L.data)) ++ L.tag by
      simp [List.append_assoc], List.take_left' hl]
    simp [Layout.render, Layout.total, Layout.pointer, List.append_assoc]

theorem deleteM_ok_means_written (L : Layout) (h : L.OK) (method : Bool) (e : Env) (hshort : ∀ i, e.shortAt i = none)
    (s s' : FS) (hs : s.data = L.render) (h0 : s.pos = 0) (hr : deleteM method e s = (.ok (), s')) :
    s'.data = (L.withTag []).render := by
  have h' := okAgree_deleteM method e s () s' hr
  have hq : Quiet e.noFaults := ⟨fun _ => rfl, hshort⟩
  obtain ⟨s2, r2, d2⟩ := deleteM_q hq L h method s hs h0
  rw [r2] at h'; injection h' with _ h2; rw [← h2]; exact d2

/-- success means written -/
theorem saveM_ok_means_written (L : Layout) (h : L.OK) (vmaj : Nat) (hvm : vmaj = 3 ∨ vmaj = 4)
    (frames : Bytes) (ans : Int → Int → Int) (p : Nat)
    (hp : ans ((L.tag.length : Int) - (frames.length + 10 : Nat)) 0 = p) (hfit : frames.length + p < 2 ^ 28)
    (e : Env) (hshort : ∀ i, e.shortAt i = none) (s s' : FS) (hs : s.data = L.render) (hpos : s.pos ≤ s.data.length)
    (hr : saveM vmaj frames ans e s = (.ok (), s')) :
    ∃ hd, Id3F.header vmaj (frames.length + p) = .ok hd ∧ s'.data = (L.withTag (hd ++ frames ++ zeros p)).render := by
  have h' := okAgree_saveM vmaj frames ans e s () s' hr
  have hq : Quiet e.noFaults := ⟨fun _ => rfl, hshort⟩
  obtain ⟨hd, hh, _, hcase⟩ := saveM_q hq L h vmaj hvm frames ans p hp hfit s hs hpos
  refine ⟨hd, hh, ?_⟩
  rcases hcase with ⟨s2, r2, d2⟩ | ⟨_, s2, k, r2, _, _⟩
  · rw [r2] at h'; injection h' with _ h2; rw [← h2]; exact d2
  · rw [r2] at h'; injection h' with h1 _; cases h1

end Mutagen.Dsf
