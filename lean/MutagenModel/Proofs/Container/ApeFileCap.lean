/-
Proofs/Container/ApeFileCap.lean — APEv2.save / APEv2.delete as programs over the file object
(Model/Container/ApeFileM.lean): runs in quiet environments (no injected fault, no short read, arbitrary
capacity and leak) for C19 and the refinement of the pure model; `Raises` / `OkAgree` derivations for C06.
-/
import MutagenModel.Model.Container.ApeFileM
import MutagenModel.Proofs.Container.ApeFile
import MutagenModel.Proofs.Container.Id3FileCap
set_option linter.unusedVariables false
set_option linter.unusedSimpArgs false
namespace Mutagen.ApeF
open Mutagen

/-! ### the calls in a quiet environment -/

theorem ftruncateHere_q {e : Env} (hq : Quiet e) (s : FS) :
    ftruncateHere e s = (.ok (), { data := s.data.take s.pos, pos := s.pos, ops := s.ops + 1, log := .truncate s.pos :: s.log }) := by
  simp [ftruncateHere, ftruncate_q hq]

theorem verifyFileobj_q {e : Env} (hq : Quiet e) (s : FS) (hp : s.pos ≤ s.data.length) :
    ∃ s', verifyFileobj e s = (.ok (), s') ∧ s'.data = s.data ∧ s'.pos = s.pos := by
  unfold verifyFileobj
  have hr : (readAt s.data s.pos 0) = [] := by simp [readAt]
  simp only [bind_run, tryCatch, fread_q hq, pure_run, hr, List.length_nil, Nat.add_zero]
  rw [fwrite_q_inside hq [] _ (by simpa using hp)]
  exact ⟨_, rfl, Id3F.writeData_nil _ _ hp, rfl⟩

/-- appending at the end of the file on a device with finite capacity: the write completes, or ENOSPC
(only on a device WITH a capacity) and what has reached the file is a proper prefix of the buffer, at
most `leak` bytes -/
theorem fwrite_q_end_prefix {e : Env} (hq : Quiet e) (b : Bytes) (s : FS) (hp : s.pos = s.data.length) :
    (∃ s', fwrite b e s = (.ok (), s') ∧ s'.data = s.data ++ b ∧ s'.pos = s'.data.length) ∨
    (∃ s' k, fwrite b e s = (.error .enospc, s') ∧ s'.data = s.data ++ b.take k ∧ k < b.length ∧
      k ≤ e.leak b.length ∧ e.cap ≠ none) := by
  unfold fwrite
  simp only [tick_q hq]
  have hw : writeData s.data s.pos b = s.data ++ b := by rw [hp, writeData_end]
  cases hc : e.cap with
  | none =>
    left
    simp only [↓reduceIte]
    exact ⟨_, rfl, hw, by show s.pos + b.length = (writeData s.data s.pos b).length; rw [hw, hp]; simp⟩
  | some c =>
    simp only
    by_cases hf : (decide ((writeData s.data s.pos b).length ≤ c) ||
        decide ((writeData s.data s.pos b).length ≤ s.data.length)) = true
    · left
      rw [if_pos hf]
      exact ⟨_, rfl, hw, by show s.pos + b.length = (writeData s.data s.pos b).length; rw [hw, hp]; simp⟩
    · right
      rw [if_neg hf]
      have hlen : ¬ ((s.data ++ b).length ≤ c) ∧ ¬ ((s.data ++ b).length ≤ s.data.length) := by
        rw [hw] at hf
        simp only [Bool.or_eq_true, decide_eq_true_eq, not_or] at hf
        exact hf
      simp only [List.length_append] at hlen
      refine ⟨_, min (e.leak b.length) (s.data.length - s.pos + ((some c).getD 0 - max s.pos s.data.length)), rfl, ?_, ?_, ?_, by simp⟩
      · show writeData s.data s.pos _ = _
        rw [hp, writeData_end]
      · simp only [Option.getD_some, hp]; omega
      · exact Nat.min_le_left _ _

theorem take_append_take (a b : Bytes) (k : Nat) : a ++ b.take k = (a ++ b).take (a.length + k) := by
  simp [List.take_append, List.take_of_length_le]

/-- the three appends of `APEv2.save` (`seek(0, 2)`; header, items, footer): all three complete, or
ENOSPC with a proper prefix of the new tag behind what the file held -/
theorem appendTag_q {e : Env} (hq : Quiet e) (tag3 : Option (Bytes × Bytes × Bytes)) (s : FS) :
    (∃ s', appendTagM tag3 e s = (.ok (), s') ∧
        s'.data = s.data ++ tagBytes tag3) ∨
    (∃ s' k, appendTagM tag3 e s = (.error .enospc, s') ∧
        s'.data = s.data ++ (tagBytes tag3).take k ∧ k < (tagBytes tag3).length ∧ e.cap ≠ none) := by
  unfold appendTagM
  simp only [bind_run, fseekEnd_q hq]
  match tag3 with
  | none => left; exact ⟨_, rfl, by simp [tagBytes]⟩
  | some (hdr, items, ftr) =>
    simp only [tagBytes, bind_run]
    rcases fwrite_q_end_prefix hq hdr
      { data := s.data, pos := s.data.length, ops := s.ops + 1, log := .seekEnd :: s.log } rfl with
      ⟨s1, hr1, hd1, hp1⟩ | ⟨s1, k, hr1, hd1, hk, _, hc⟩
    · rw [hr1]
      simp only []
      rcases fwrite_q_end_prefix hq items s1 hp1 with ⟨s2, hr2, hd2, hp2⟩ | ⟨s2, k, hr2, hd2, hk, _, hc⟩
      · rw [hr2]
        simp only []
        rcases fwrite_q_end_prefix hq ftr s2 hp2 with ⟨s3, hr3, hd3, hp3⟩ | ⟨s3, k, hr3, hd3, hk, _, hc⟩
        · left
          exact ⟨s3, hr3, by rw [hd3, hd2, hd1]; simp [List.append_assoc]⟩
        · right
          refine ⟨s3, (hdr ++ items).length + k, hr3, ?_, by simp only [List.length_append] at hk ⊢; omega, hc⟩
          rw [hd3, hd2, hd1]
          show s.data ++ hdr ++ items ++ ftr.take k = _
          rw [← take_append_take (hdr ++ items) ftr k]
          simp [List.append_assoc]
      · right
        rw [hr2]
        refine ⟨s2, hdr.length + k, rfl, ?_, by simp only [List.length_append]; omega, hc⟩
        rw [hd2, hd1]
        show s.data ++ hdr ++ items.take k = _
        rw [List.append_assoc hdr items ftr, ← take_append_take hdr (items ++ ftr) k,
          List.take_append_of_le_length (by omega)]
        simp [List.append_assoc]
    · right
      rw [hr1]
      refine ⟨s1, k, rfl, ?_, by simp only [List.length_append]; omega, hc⟩
      rw [hd1]
      show s.data ++ hdr.take k = _
      rw [List.append_assoc hdr items ftr, List.take_append_of_le_length (by omega)]

/-! ### what `locate` guarantees -/

theorem locate_atStart (f : Bytes) (L : Loc) (h : locate f = .ok (some L)) (ha : L.isAtStart = true) :
    L.start = 0 ∧ L.endd ≤ f.length := by
  unfold locate at h
  cases hm : findMetadata f with
  | nothing => rw [hm] at h; cases h
  | footer ft =>
    rw [hm] at h
    simp only [] at h
    repeat' split at h
    all_goals first | (cases h; done) | (injection h with h; injection h with h; subst h; cases ha)
  | headerAtStart =>
    rw [hm] at h
    simp only [] at h
    repeat' split at h
    all_goals first | (cases h; done) | (injection h with h; injection h with h; subst h; exact ⟨rfl, by simp only []; omega⟩)

/-- the pure `save` in terms of `baseOf` -/
theorem save_eq_base (f tag : Bytes) (loc : Option Loc) (h : locate f = .ok loc) :
    save f tag = .ok (baseOf f loc ++ tag) := by
  unfold save baseOf
  rw [h]
  cases loc with
  | none => rfl
  | some L =>
    simp only []
    by_cases ha : L.isAtStart = true
    · have := locate_atStart f L h ha
      have hn : ¬ (L.endd > f.length) := by omega
      simp only [ha, ↓reduceIte, hn]
    · simp only [ha, Bool.false_eq_true, ↓reduceIte]

/-! ### APEv2.save in a quiet environment -/

/-- removing the old tag never needs space: after it the file holds the payload `baseOf f loc` -/
theorem removeOld_q {e : Env} (hq : Quiet e) (B : Nat) (hB : 0 < B) (f : Bytes) (loc : Option Loc) (h : locate f = .ok loc)
    (s : FS) (hs : s.data = f) :
    ∃ s', removeOldM B loc e s = (.ok (), s') ∧ s'.data = baseOf f loc := by
  unfold removeOldM
  cases loc with
  | none => exact ⟨s, rfl, by simp [baseOf, hs]⟩
  | some L =>
    simp only [baseOf]
    by_cases ha : L.isAtStart = true
    · obtain ⟨h0, hle⟩ := locate_atStart f L h ha
      simp only [ha, ↓reduceIte, h0]
      have e1 : (L.endd : Int) - ((0 : Nat) : Int) = ((L.endd : Nat) : Int) := by omega
      rw [e1]
      obtain ⟨s', hr, hd⟩ := deleteBytes_q hq B hB L.endd 0 s (by rw [hs]; omega)
      refine ⟨s', hr, ?_⟩
      rw [hd, hs]; simp
    · simp only [ha, Bool.false_eq_true, ↓reduceIte, bind_run, fseek_q hq, ftruncateHere_q hq]
      exact ⟨_, rfl, by rw [hs]⟩

/-- `APEv2.save` once `_APEv2Data` has answered `loc`, device of any capacity: it completes, or ENOSPC at one
of the three appends — then the OLD tag is already gone, the payload is intact and behind it stands a proper
prefix of the new tag -/
theorem saveTailM_q {e : Env} (hq : Quiet e) (B : Nat) (hB : 0 < B) (f : Bytes) (loc : Option Loc) (h : locate f = .ok loc)
    (tag3 : Option (Bytes × Bytes × Bytes)) (s : FS) (hs : s.data = f) :
    (∃ s', saveTailM B loc tag3 e s = (.ok (), s') ∧ s'.data = baseOf f loc ++ tagBytes tag3) ∨
    (∃ s' k, saveTailM B loc tag3 e s = (.error .enospc, s') ∧
      s'.data = baseOf f loc ++ (tagBytes tag3).take k ∧ k < (tagBytes tag3).length ∧ e.cap ≠ none) := by
  unfold saveTailM
  obtain ⟨s1, hr1, hd1⟩ := removeOld_q hq B hB f loc h s hs
  simp only [bind_run]
  rw [hr1]
  simp only []
  rcases appendTag_q hq tag3 s1 with ⟨s2, hr2, hd2⟩ | ⟨s2, k, hr2, hd2, hk, hc⟩
  · left
    exact ⟨s2, hr2, by rw [hd2, hd1]⟩
  · right
    exact ⟨s2, k, hr2, by rw [hd2, hd1], hk, hc⟩

theorem locateSum_run (e : Env) (s : FS) (loc : Option Loc) (h : locate s.data = .ok loc) :
    locateSum e s = (.ok loc, s) := by
  unfold locateSum; rw [h]

theorem saveSumM_q {e : Env} (hq : Quiet e) (B : Nat) (hB : 0 < B) (f : Bytes) (loc : Option Loc) (h : locate f = .ok loc)
    (tag3 : Option (Bytes × Bytes × Bytes)) (s : FS) (hs : s.data = f) (hpos : s.pos ≤ s.data.length) :
    (∃ s', saveSumM B tag3 e s = (.ok (), s') ∧ s'.data = baseOf f loc ++ tagBytes tag3) ∨
    (∃ s' k, saveSumM B tag3 e s = (.error .mutagen, s') ∧
      s'.data = baseOf f loc ++ (tagBytes tag3).take k ∧ k < (tagBytes tag3).length ∧ e.cap ≠ none) := by
  unfold saveSumM
  rw [Id3F.convertError_run]
  obtain ⟨s0, hr0, hd0, hp0⟩ := verifyFileobj_q hq s hpos
  simp only [bind_run, hr0]
  rw [locateSum_run e s0 loc (by rw [hd0, hs]; exact h)]
  simp only []
  rcases saveTailM_q hq B hB f loc h tag3 s0 (by rw [hd0, hs]) with ⟨s1, hr, hd⟩ | ⟨s1, k, hr, hd, hk, hc⟩
  · left; rw [hr]; exact ⟨s1, rfl, hd⟩
  · right; rw [hr]; exact ⟨s1, k, rfl, hd, hk, hc⟩

/-- `APEv2.delete` on a device of any capacity: whenever the pure `delete` succeeds the program completes
with its result (a delete never needs space) -/
theorem deleteSumM_q {e : Env} (hq : Quiet e) (B : Nat) (hB : 0 < B) (f out : Bytes) (h : delete f = .ok out)
    (s : FS) (hs : s.data = f) (hpos : s.pos ≤ s.data.length) :
    ∃ s', deleteSumM B e s = (.ok (), s') ∧ s'.data = out := by
  unfold deleteSumM
  rw [Id3F.convertError_run]
  obtain ⟨s0, hr0, hd0, hp0⟩ := verifyFileobj_q hq s hpos
  simp only [bind_run, hr0]
  unfold delete at h
  cases hl : locate f with
  | error x => rw [hl] at h; cases h
  | ok loc =>
    rw [hl] at h
    rw [locateSum_run e s0 loc (by rw [hd0, hs]; exact hl)]
    simp only []
    cases loc with
    | none =>
      simp only [] at h
      injection h with h
      exact ⟨s0, rfl, by rw [hd0, hs, h]⟩
    | some L =>
      simp only [] at h
      by_cases hc : L.endd > f.length ∨ L.endd < L.start
      · rw [if_pos hc] at h; cases h
      · rw [if_neg hc] at h
        injection h with h
        simp only [deleteTailM]
        have e1 : (L.endd : Int) - (L.start : Int) = ((L.endd - L.start : Nat) : Int) := by omega
        rw [e1]
        obtain ⟨s1, hr, hd⟩ := deleteBytes_q hq B hB (L.endd - L.start) L.start s0 (by rw [hd0, hs]; omega)
        rw [hr]
        refine ⟨s1, rfl, ?_⟩
        rw [hd, hd0, hs, ← h, show L.start + (L.endd - L.start) = L.endd by omega]

/-! ### what save / delete can raise, in ANY environment (the programs WITH all their reads) -/

abbrev SaveErrC := Id3F.SaveErrC
theorem sInj {e : Env} {x : PyErr} (h : Injected e x) : SaveErrC e x := Id3F.sInj h
theorem sPrim {e : Env} {x : PyErr} (h : Id3F.PrimErrC e x) : SaveErrC e x := Id3F.sPrim h
theorem sMut (e : Env) : SaveErrC e .mutagen := Id3F.sMut e
theorem sValue (e : Env) : SaveErrC e .value := Id3F.sValue e

theorem raises_fseekFromEnd (off : Nat) : Raises Injected (fseekFromEnd off) :=
  Raises.bind (Raises.tick _) (fun _ => by intro e s err s' h; cases h)
theorem raises_fseekRel (k : Int) : Raises Injected (fseekRel k) := by
  intro e s err s' h; exact Raises.fseek _ e s err s' h
theorem raises_ftruncateHere : Raises Injected ftruncateHere := by
  intro e s err s' h; exact Raises.ftruncate _ e s err s' h
theorem raises_verifyFileobj : Raises SaveErrC verifyFileobj := by
  unfold verifyFileobj
  apply Raises.bind
  · refine Raises.tryCatch (Raises.bind ((Raises.fread _).weaken fun _ _ => sInj) fun _ => Raises.pure _ _) ?_
    intro e x _ _ s err s' h
    simp only [raise_run, Prod.mk.injEq, Except.error.injEq] at h
    exact h.1 ▸ sValue e
  · intro _
    refine Raises.tryCatch ((Id3F.RaisesC.fwrite _).weaken fun _ _ => sPrim) ?_
    intro e x _ _ s err s' h
    simp only [raise_run, Prod.mk.injEq, Except.error.injEq] at h
    exact h.1 ▸ sValue e

theorem raises_readIsApe : Raises SaveErrC readIsApe :=
  Raises.bind ((Raises.fread _).weaken fun _ _ => sInj) fun _ => Raises.pure _ _

theorem raises_backTell : Raises SaveErrC backTell :=
  Raises.bind ((raises_fseekRel _).weaken fun _ _ => sInj) fun _ => Raises.ftell.weaken fun _ _ => sInj

theorem sIO (e : Env) : SaveErrC e .io := sPrim (Id3F.primC_io e)

theorem raises_seekBack (off : Int) : Raises SaveErrC (seekBack off) := by
  unfold seekBack
  apply Raises.bind (Raises.ftell.weaken fun _ _ => sInj); intro p
  split
  · exact Raises.raise _ sIO
  · exact (raises_fseekRel _).weaken fun _ _ => sInj

theorem raises_viaV1M : Raises SaveErrC viaV1M := by
  unfold viaV1M
  apply Raises.bind (Id3F.RaisesC.getSize.weaken fun _ _ => sPrim); intro sz
  split
  · exact Raises.raise _ sIO
  · apply Raises.bind ((raises_fseekFromEnd _).weaken fun _ _ => sInj); intro _
    apply Raises.bind ((Raises.fread _).weaken fun _ _ => sInj); intro t
    split
    · exact Raises.pure _ _
    · apply Raises.bind (raises_seekBack _); intro _
      apply Raises.bind raises_readIsApe; intro a
      split
      · exact Raises.bind raises_backTell fun _ => Raises.pure _ _
      · apply Raises.bind ((raises_fseekRel _).weaken fun _ _ => sInj); intro _
        apply Raises.bind ((Raises.fread _).weaken fun _ _ => sInj); intro l
        split
        · exact Raises.pure _ _
        · apply Raises.bind ((raises_fseekRel _).weaken fun _ _ => sInj); intro _
          apply Raises.bind ((Raises.fread _).weaken fun _ _ => sInj); intro d
          split
          · exact Raises.raise _ sIO
          · apply Raises.bind (raises_seekBack _); intro _
            apply Raises.bind raises_readIsApe; intro b
            split
            · exact Raises.bind raises_backTell fun _ => Raises.pure _ _
            · exact Raises.pure _ _

/-- a `try … except IOError` whose handler raises only what `P` allows -/
theorem raises_tryCatch_of {P : Env → PyErr → Prop} {body : FileM α} {pred : PyErr → Bool} {handler : PyErr → FileM α}
    (hb : Raises P body) (hh : ∀ x, Raises P (handler x)) : Raises P (tryCatch body pred handler) :=
  Raises.tryCatch hb fun e x _ _ s err s' h => hh x e s err s' h

theorem raises_findMetadataM : Raises SaveErrC findMetadataM := by
  unfold findMetadataM
  apply Raises.bind (Raises.fseekEnd.weaken fun _ _ => sInj); intro _
  apply Raises.bind
  · exact raises_tryCatch_of
      (Raises.bind (raises_seekBack _) fun _ => Raises.pure _ _)
      (fun _ => Raises.pure _ _)
  · intro sought
    split
    · exact Raises.pure _ _
    · apply Raises.bind raises_readIsApe; intro a
      split
      · exact Raises.bind raises_backTell fun _ => Raises.pure _ _
      · apply Raises.bind (raises_tryCatch_of raises_viaV1M fun _ => Raises.pure _ _); intro r
        split
        · exact Raises.pure _ _
        · apply Raises.bind ((Raises.fseek _).weaken fun _ _ => sInj); intro _
          exact Raises.bind raises_readIsApe fun _ => Raises.pure _ _

theorem raises_fixBrokenM (fuel start : Nat) : Raises SaveErrC (fixBrokenM fuel start) := by
  induction fuel generalizing start with
  | zero => exact Raises.pure _ _
  | succ n ih =>
    unfold fixBrokenM
    split
    · exact Raises.pure _ _
    · apply Raises.bind
      · exact raises_tryCatch_of
          (Raises.bind (raises_seekBack _) fun _ => Raises.pure _ _)
          (fun _ => Raises.pure _ _)
      · intro moved
        split
        · exact Raises.pure _ _
        · apply Raises.bind raises_readIsApe; intro a
          split
          · exact Raises.bind raises_backTell fun p => ih p
          · exact Raises.pure _ _

theorem raises_locateM : Raises SaveErrC locateM := by
  unfold locateM
  apply Raises.bind raises_findMetadataM; intro m
  split
  · exact Raises.pure _ _
  · apply Raises.bind ((Raises.fseek _).weaken fun _ _ => sInj); intro _
    apply Raises.bind ((Raises.fread _).weaken fun _ _ => sInj); intro d
    split
    · exact Raises.raise _ sMut
    · simp only []
      split
      · exact Raises.raise _ sMut
      · split
        · exact Raises.raise _ sMut
        · split
          · exact Raises.raise _ sMut
          · apply Raises.bind ((Raises.fseek _).weaken fun _ _ => sInj); intro _
            apply Raises.bind (raises_fixBrokenM _ _); intro start
            apply Raises.bind ((Raises.fseek _).weaken fun _ _ => sInj); intro _
            apply Raises.bind ((Raises.fread _).weaken fun _ _ => sInj); intro _
            exact Raises.pure _ _
  · apply Raises.bind ((Raises.fseek _).weaken fun _ _ => sInj); intro _
    apply Raises.bind ((Raises.fread _).weaken fun _ _ => sInj); intro d
    split
    · exact Raises.raise _ sMut
    · simp only []
      apply Raises.bind (Id3F.RaisesC.getSize.weaken fun _ _ => sPrim); intro fileSize
      split
      · exact Raises.raise _ sMut
      · apply Raises.bind ((Raises.fseek _).weaken fun _ _ => sInj); intro _
        apply Raises.bind raises_readIsApe; intro hasFooter
        split
        · exact Raises.raise _ sMut
        · apply Raises.bind ((Raises.fseek _).weaken fun _ _ => sInj); intro _
          apply Raises.bind ((Raises.fseek _).weaken fun _ _ => sInj); intro _
          apply Raises.bind ((Raises.fread _).weaken fun _ _ => sInj); intro _
          exact Raises.pure _ _

theorem raises_removeOldM (B : Nat) (loc : Option Loc) : Raises SaveErrC (removeOldM B loc) := by
  unfold removeOldM
  split
  · split
    · exact (Id3F.RaisesC.deleteBytes _ _ _).weaken fun _ _ => sPrim
    · exact Raises.bind ((Raises.fseek _).weaken fun _ _ => sInj) fun _ => raises_ftruncateHere.weaken fun _ _ => sInj
  · exact Raises.pure _ _

theorem raises_appendTagM (tag3 : Option (Bytes × Bytes × Bytes)) : Raises SaveErrC (appendTagM tag3) := by
  unfold appendTagM
  apply Raises.bind (Raises.fseekEnd.weaken fun _ _ => sInj); intro _
  split
  · exact Raises.pure _ _
  · apply Raises.bind ((Id3F.RaisesC.fwrite _).weaken fun _ _ => sPrim); intro _
    apply Raises.bind ((Id3F.RaisesC.fwrite _).weaken fun _ _ => sPrim); intro _
    exact (Id3F.RaisesC.fwrite _).weaken fun _ _ => sPrim

theorem raises_saveTailM (B : Nat) (loc : Option Loc) (tag3 : Option (Bytes × Bytes × Bytes)) :
    Raises SaveErrC (saveTailM B loc tag3) :=
  Raises.bind (raises_removeOldM B loc) fun _ => raises_appendTagM tag3

theorem raises_deleteTailM (B : Nat) (loc : Option Loc) : Raises SaveErrC (deleteTailM B loc) := by
  unfold deleteTailM
  split
  · exact (Id3F.RaisesC.deleteBytes _ _ _).weaken fun _ _ => sPrim
  · exact Raises.pure _ _

/-- the real `APEv2.save` (all reads included) under ANY fault environment -/
theorem raises_saveM (B : Nat) (tag3 : Option (Bytes × Bytes × Bytes)) :
    Raises (fun e x => x = .mutagen ∨ (Id3F.SaveErr e x ∧ x.isIO = false)) (saveM B tag3) := by
  unfold saveM
  exact Raises.convertError PyErr.isIO .mutagen
    ((Raises.bind raises_verifyFileobj fun _ => Raises.bind raises_locateM fun loc => raises_saveTailM B loc tag3).weaken
      fun _ _ => Id3F.saveErrC_saveErr)

theorem raises_deleteM (B : Nat) :
    Raises (fun e x => x = .mutagen ∨ (Id3F.SaveErr e x ∧ x.isIO = false)) (deleteM B) := by
  unfold deleteM
  exact Raises.convertError PyErr.isIO .mutagen
    ((Raises.bind raises_verifyFileobj fun _ => Raises.bind raises_locateM fun loc => raises_deleteTailM B loc).weaken
      fun _ _ => Id3F.saveErrC_saveErr)

/-! ### a normal return means written (the programs with the reads summarised) -/

theorem okAgree_verifyFileobj : OkAgree verifyFileobj := by
  unfold verifyFileobj
  apply OkAgree.bind
  · exact OkAgree.tryCatch (OkAgree.bind (OkAgree.fread _) fun _ => OkAgree.pure _) (by intro x e s a s' h; cases h)
  · intro _
    exact OkAgree.tryCatch (OkAgree.fwrite _) (by intro x e s a s' h; cases h)

theorem okAgree_locateSum : OkAgree locateSum := by
  intro e s a s' h; exact h

theorem okAgree_saveTailM (B : Nat) (loc : Option Loc) (tag3 : Option (Bytes × Bytes × Bytes)) :
    OkAgree (saveTailM B loc tag3) := by
  unfold saveTailM removeOldM appendTagM
  apply OkAgree.bind
  · split
    · split
      · exact OkAgree.deleteBytes _ _ _
      · exact OkAgree.bind (OkAgree.fseek _) fun _ => (by intro e s a s' h; exact OkAgree.ftruncate _ e s a s' h)
    · exact OkAgree.pure _
  · intro _
    apply OkAgree.bind OkAgree.fseekEnd; intro _
    split
    · exact OkAgree.pure _
    · exact OkAgree.bind (OkAgree.fwrite _) fun _ => OkAgree.bind (OkAgree.fwrite _) fun _ => OkAgree.fwrite _

theorem okAgree_saveSumM (B : Nat) (tag3 : Option (Bytes × Bytes × Bytes)) : OkAgree (saveSumM B tag3) := by
  unfold saveSumM
  apply Id3F.OkAgree.convertError
  exact OkAgree.bind okAgree_verifyFileobj fun _ => OkAgree.bind okAgree_locateSum fun loc => okAgree_saveTailM B loc tag3

theorem okAgree_deleteSumM (B : Nat) : OkAgree (deleteSumM B) := by
  unfold deleteSumM
  apply Id3F.OkAgree.convertError
  apply OkAgree.bind okAgree_verifyFileobj; intro _
  apply OkAgree.bind okAgree_locateSum; intro loc
  unfold deleteTailM
  split
  · exact OkAgree.deleteBytes _ _ _
  · exact OkAgree.pure _

/-- a normal return of the summarised save in a quiet environment means `locate` succeeded -/
theorem saveSumM_ok_inv {e : Env} (hq : Quiet e) (B : Nat) (tag3 : Option (Bytes × Bytes × Bytes)) (s s' : FS)
    (hpos : s.pos ≤ s.data.length) (h : saveSumM B tag3 e s = (.ok (), s')) : ∃ loc, locate s.data = .ok loc := by
  unfold saveSumM at h
  rw [Id3F.convertError_run] at h
  obtain ⟨s0, hr0, hd0, hp0⟩ := verifyFileobj_q hq s hpos
  simp only [bind_run, hr0] at h
  cases hl : locate s.data with
  | ok loc => exact ⟨loc, rfl⟩
  | error x =>
    have : locateSum e s0 = (.error x, s0) := by unfold locateSum; rw [hd0, hl]
    rw [this] at h
    simp only [] at h
    split at h <;> cases h

/-- SUCCESS MEANS WRITTEN for the writing part of `APEv2.save`: a normal return (any injected faults elsewhere,
any capacity, no short reads) leaves exactly what the pure `save` computes from the bytes the file had -/
theorem saveSumM_ok_means_written (B : Nat) (hB : 0 < B) (tag3 : Option (Bytes × Bytes × Bytes)) (e : Env)
    (hshort : ∀ i, e.shortAt i = none) (s s' : FS) (hpos : s.pos ≤ s.data.length)
    (h : saveSumM B tag3 e s = (.ok (), s')) : save s.data (tagBytes tag3) = .ok s'.data := by
  have h' := okAgree_saveSumM B tag3 e s () s' h
  have hq : Quiet e.noFaults := ⟨fun _ => rfl, hshort⟩
  obtain ⟨loc, hl⟩ := saveSumM_ok_inv hq B tag3 s s' hpos h'
  rw [save_eq_base _ _ loc hl]
  rcases saveSumM_q hq B hB s.data loc hl tag3 s rfl hpos with ⟨s1, hr, hd⟩ | ⟨s1, k, hr, _⟩
  · rw [hr] at h'; injection h' with _ h2; rw [← h2, hd]
  · rw [hr] at h'; injection h' with h1 _; cases h1

theorem deleteSumM_ok_means_written (B : Nat) (hB : 0 < B) (e : Env) (hshort : ∀ i, e.shortAt i = none) (s s' : FS)
    (hpos : s.pos ≤ s.data.length) (out : Bytes) (hp : delete s.data = .ok out)
    (h : deleteSumM B e s = (.ok (), s')) : s'.data = out := by
  have h' := okAgree_deleteSumM B e s () s' h
  have hq : Quiet e.noFaults := ⟨fun _ => rfl, hshort⟩
  obtain ⟨s1, hr, hd⟩ := deleteSumM_q hq B hB s.data out hp s rfl hpos
  rw [hr] at h'; injection h' with _ h2; rw [← h2, hd]

/-- in a quiet environment without capacity limit the summarised save leaves the pure result -/
theorem saveSumM_refines {e : Env} (hq : Quiet e) (hcap : e.cap = none) (B : Nat) (hB : 0 < B) (f : Bytes)
    (tag3 : Option (Bytes × Bytes × Bytes)) (out : Bytes) (h : save f (tagBytes tag3) = .ok out)
    (s : FS) (hs : s.data = f) (hpos : s.pos ≤ s.data.length) :
    ∃ s', saveSumM B tag3 e s = (.ok (), s') ∧ s'.data = out := by
  cases hl : locate f with
  | error x => unfold save at h; rw [hl] at h; cases h
  | ok loc =>
    rw [save_eq_base _ _ loc hl] at h
    injection h with h
    rcases saveSumM_q hq B hB f loc hl tag3 s hs hpos with ⟨s1, hr, hd⟩ | ⟨s1, k, _, _, _, hc⟩
    · exact ⟨s1, hr, by rw [hd, h]⟩
    · exact absurd hcap hc

end Mutagen.ApeF
